import Kvass.Driver.Coord
import Kvass.Driver.K8s
import Kvass.Driver.Sidecar
import Kvass.Driver.Store
import Kvass.Driver.Proxy
import Kvass.Driver.Disc
import Kvass.Driver.Explore
import Kvass.Driver.Hash
import Kvass.Driver.CfgHash
import Kvass.Driver.Inject
import Kvass.Driver.Loop
import Kvass.Driver.Chain

open Kvass.Driver

partial def loop (h : IO.FS.Stream) (f : String → String) : IO Unit := do
  let line ← h.getLine
  if line.isEmpty then return ()
  let out ← IO.getStdout
  out.putStrLn (f line.trimAscii.toString)
  out.flush
  loop h f

def main (args : List String) : IO UInt32 := do
  let stdin ← IO.getStdin
  match args with
  | ["coord"] => loop stdin Coord.handle; return 0
  | ["k8s"] => loop stdin K8s.handle; return 0
  | ["sidecar"] => loop stdin Sidecar.handle; return 0
  | ["store"] => loop stdin Store.handle; return 0
  | ["proxy"] => loop stdin Proxy.handle; return 0
  | ["disc"] => loop stdin Disc.handle; return 0
  | ["explore"] => loop stdin Explore.handle; return 0
  | ["hash"] => loop stdin Hash.handle; return 0
  | ["cfghash"] => loop stdin CfgHash.handle; return 0
  | ["inject"] => loop stdin Inject.handle; return 0
  | ["loop"] => loop stdin Loop.handle; return 0
  | ["loop-noprune"] => loop stdin Loop.handleNoPrune; return 0
  | ["chain"] => loop stdin Chain.handle; return 0
  | _ => IO.eprintln "usage: driver <engine>"; return 2
