/-
  C10 — sidecar bookkeeping tracks exactly the assigned targets and idle time.
  The monitored relations `Spec.SC.C10.*` hold between the reports of the model before and after
  every operation, for every reachable state (every operation sequence).
-/
import Kvass.Pins.Sidecar
import Kvass.Proofs.Sidecar

namespace Kvass.Props.C10
open Kvass Kvass.Sidecar Kvass.Spec.SC

theorem sameSet_iff (a b : List Hash) : sameSet a b = true ↔ ∀ k, k ∈ a ↔ k ∈ b := by
  unfold sameSet
  simp only [Bool.and_eq_true, List.all_eq_true, List.contains_iff_mem]
  constructor
  · rintro ⟨h1, h2⟩ k; exact ⟨h1 k, h2 k⟩
  · intro h; exact ⟨fun k hk => (h k).mp hk, fun k hk => (h k).mpr hk⟩

theorem obs_status_get (ph : Int) (s : SC) (h : Hash) :
    (obsOf ph s).status.get h = (s.status.get h).map entOf := by
  unfold obsOf; simp only; exact AL.get_map _ _ _

theorem obs_status_keys (ph : Int) (s : SC) : (obsOf ph s).status.keys = s.status.keys := by
  unfold obsOf; simp only; exact AL.keys_map _ _

theorem obs_status_empty (ph : Int) (s : SC) : (obsOf ph s).status.isEmpty = s.status.isEmpty := by
  unfold obsOf; simp only; cases s.status <;> rfl

theorem obs_idle (ph : Int) (s : SC) : (obsOf ph s).idle = s.idleAt := by
  unfold obsOf runtime; rfl

/-- **C10 (update)**: after every target update, from every state the sidecar can be in: exactly
    the requested hashes have an entry; each is in the state last requested; kept entries keep
    health, series and scrape count, the count restarting exactly on normal → in-transfer; new
    entries start (unknown, estimate, 0); idle-since is set when the assignment becomes empty,
    kept while it stays empty, cleared on assignment. -/
theorem C10_update (ph : Int) (now : Nat) (s : SC) (req : List Tgt) (hi : IdleInv s) :
    C10.updateOk now (obsOf ph s) req (obsOf ph (update now s req)) = true := by
  unfold C10.updateOk
  simp only [Bool.and_eq_true]
  refine ⟨⟨?_, ?_⟩, ?_⟩
  · -- keys
    unfold C10.keys
    rw [sameSet_iff]
    intro k
    rw [obs_status_keys]
    exact updStatus_keys s.status req k
  · -- entries
    unfold C10.entries
    rw [List.all_eq_true]
    intro t ht
    rw [Bool.or_eq_true]
    by_cases h1 : (req.filter fun u => u.hash == t.hash).length = 1
    · right
      rw [obs_status_get, obs_status_get]
      have hg : (update now s req).status.get t.hash = some (entry s.status t) :=
        updStatus_get s.status req t ht h1
      rw [hg]
      unfold entry
      cases ho : s.status.get t.hash with
      | none => simp [entOf]
      | some b =>
        simp only [Option.map_some, entOf]
        by_cases hc : b.state = .normal ∧ t.state = .inTransfer
        · simp [hc.1, hc.2]
        · have : (b.state == TState.normal && t.state == TState.inTransfer) = false := by
            simpa using hc
          simp [this, hc]
    · left; simpa using h1
  · -- idle
    unfold C10.idle
    rw [obs_status_empty, obs_status_empty, obs_idle, obs_idle]
    unfold update
    simp only
    rw [updIdle_spec]
    cases hst : updStatus s.status req with
    | nil =>
      simp only [List.isEmpty_nil, if_true]
      cases hidle : s.idleAt with
      | none => simp
      | some t =>
        have hs : s.status = [] := by
          cases hss : s.status with
          | nil => rfl
          | cons p m => have := hi (by rw [hss]; simp); rw [hidle] at this; cases this
        simp [hs]
    | cons p m => simp

/-- every requested hash is requested once (what the coordinator sends: one entry per hash) -/
def Once (req : List Tgt) : Prop := ∀ t ∈ req, (req.filter fun u => u.hash == t.hash).length = 1

/-- consistency of a sidecar state: the status map has exactly the assigned hashes, each in the
    assigned state -/
structure Cons (s : SC) : Prop where
  once : Once s.targets
  keys : ∀ k, k ∈ s.status.keys ↔ k ∈ s.targets.map (·.hash)
  state : ∀ t ∈ s.targets, ∃ v, s.status.get t.hash = some v ∧ v.state = t.state

theorem update_cons (now : Nat) (s : SC) (req : List Tgt) (ho : Once req) : Cons (update now s req) where
  once := ho
  keys := fun k => updStatus_keys s.status req k
  state := by
    intro t ht
    refine ⟨entry s.status t, updStatus_get s.status req t ht (ho t ht), ?_⟩
    unfold entry; cases s.status.get t.hash <;> rfl

theorem scrape_cons (s : SC) (h : Hash) (r : Option (Int × Int)) (hc : Cons s) : Cons (scrape s h r) := by
  unfold scrape
  split
  · exact hc
  · rename_i st hg
    refine ⟨hc.once, ?_, ?_⟩
    · intro k
      simp only
      rw [AL.mem_keys_set, ← hc.keys]
      constructor
      · rintro (rfl | hk)
        · exact AL.get_some_mem_keys _ _ _ hg
        · exact hk
      · exact Or.inr
    · intro t ht
      obtain ⟨v, hv, hvs⟩ := hc.state t ht
      simp only
      rw [AL.get_set]
      split
      · rename_i e
        subst e
        rw [hg] at hv; cases hv
        cases r with
        | none => exact ⟨_, rfl, by simp [scrapeFail, hvs]⟩
        | some ab => exact ⟨_, rfl, by simp [scrapeOk, hvs]⟩
      · exact ⟨v, hv, hvs⟩

/-- requests of a run are well-formed -/
def OpsOnce (ops : List Op) : Prop := ∀ op ∈ ops, match op with | .update req => Once req | _ => True

theorem run_cons (ops : List Op) (ho : OpsOnce ops) : Cons (run ops).1 := by
  unfold run
  have : ∀ (ops : List Op) (s : SC × Nat), OpsOnce ops → Cons s.1 → Cons (ops.foldl step s).1 := by
    intro ops
    induction ops with
    | nil => intro s _ h; exact h
    | cons op ops ih =>
      intro s ho h
      apply ih _ (fun o hm => ho o (List.mem_cons_of_mem _ hm))
      have h1 := ho op List.mem_cons_self
      cases op with
      | update req => exact update_cons _ _ _ h1
      | scrape h' r => exact scrape_cons _ _ _ h
      | restart => exact update_cons _ _ _ h.once
  refine this ops init ho ?_
  exact update_cons 0 {} [] (by intro t ht; cases ht)

/-- **C10 (restart)**: a restart resumes exactly the assigned hashes, each in its assigned state,
    and keeps the idle instant (clearing nothing, inventing nothing). -/
theorem C10_restart (now : Nat) (s : SC) (hc : Cons s) (hi : IdleInv s) :
    (∀ k, k ∈ (restart now s).status.keys ↔ k ∈ s.status.keys) ∧
    (∀ h v, s.status.get h = some v → ∃ v', (restart now s).status.get h = some v' ∧ v'.state = v.state) ∧
    (s.status = [] → s.idleAt.isSome → (restart now s).idleAt = s.idleAt) ∧
    (s.status ≠ [] → (restart now s).idleAt = none) := by
  have hk : ∀ k, k ∈ (restart now s).status.keys ↔ k ∈ s.status.keys := by
    intro k; unfold restart update; simp only; rw [updStatus_keys, hc.keys]
  have hnil : updStatus [] s.targets = [] ↔ s.status = [] := by
    rw [updStatus_nil_iff]
    constructor
    · intro h
      cases hs : s.status with
      | nil => rfl
      | cons p m =>
        have : p.1 ∈ s.status.keys := by rw [hs]; simp [AL.keys]
        rw [hc.keys, h] at this; cases this
    · intro h
      cases ht : s.targets with
      | nil => rfl
      | cons t ts =>
        have : t.hash ∈ s.status.keys := (hc.keys _).mpr (by rw [ht]; simp)
        rw [h] at this; simp [AL.keys] at this
  refine ⟨hk, ?_, ?_, ?_⟩
  · intro h v hv
    have hkeys : h ∈ s.status.keys := AL.get_some_mem_keys _ _ _ hv
    obtain ⟨t, ht, hth⟩ := List.mem_map.mp ((hc.keys h).mp hkeys)
    subst hth
    obtain ⟨v2, hv2, hvs⟩ := hc.state t ht
    rw [hv] at hv2; cases hv2
    refine ⟨entry [] t, ?_, ?_⟩
    · unfold restart update; simp only
      exact updStatus_get [] s.targets t ht (hc.once t ht)
    · simp [entry, hvs]
  · intro hs hsome
    unfold restart update; simp only
    rw [updIdle_spec, if_pos (hnil.mpr hs)]
    cases hid : s.idleAt with
    | none => rw [hid] at hsome; cases hsome
    | some t => rfl
  · intro hs
    unfold restart update; simp only
    rw [updIdle_spec, if_neg (fun h => hs (hnil.mp h))]

/-- **C10 (scrape)**: a scrape touches only the scraped target: its counter goes up by exactly one,
    its health becomes good / bad, its state and every other entry stay as they are. -/
theorem C10_scrape (s : SC) (h : Hash) (r : Option (Int × Int)) (st : SS) (hg : s.status.get h = some st) :
    (∃ st', (scrape s h r).status.get h = some st' ∧ st'.times = st.times + 1 ∧ st'.state = st.state ∧
        st'.health = (if r.isSome then .good else .bad)) ∧
    (∀ k, k ≠ h → (scrape s h r).status.get k = s.status.get k) ∧
    (scrape s h r).idleAt = s.idleAt ∧ (scrape s h r).targets = s.targets := by
  unfold scrape
  rw [hg]
  simp only
  refine ⟨?_, fun k hk => AL.get_set_ne _ _ _ _ (Ne.symm hk), trivial, trivial⟩
  rw [AL.get_set_self]
  cases r with
  | none => exact ⟨_, rfl, by simp [scrapeFail, Gen.Sidecar.timesNext, Gen.Sidecar.errIsNil, Gen.Sidecar.healthErr]⟩
  | some ab => exact ⟨_, rfl, by simp [scrapeOk, Gen.Sidecar.timesNext, Gen.Sidecar.errIsNil, Gen.Sidecar.healthOk]⟩

/-- **C10 (all histories)**: after *any* sequence of updates, scrapes and restarts the state is
    consistent and idle-since is set only while nothing is assigned, so the step theorems above
    apply to every reachable state. -/
theorem C10_reachable (ops : List Op) (ho : OpsOnce ops) : Cons (run ops).1 ∧ IdleInv (run ops).1 :=
  ⟨run_cons ops ho, run_idleInv ops⟩

/-- non-vacuity: a concrete history with a flip to in-transfer after three scrapes -/
example : ((run [.update [⟨7, 10, 12, .normal, 0⟩], .scrape 7 (some (4, 6)), .scrape 7 none,
    .update [⟨7, 10, 12, .inTransfer, 0⟩], .update [], .restart]).1.status,
    (run [.update [⟨7, 10, 12, .normal, 0⟩], .scrape 7 (some (4, 6)), .scrape 7 none,
    .update [⟨7, 10, 12, .inTransfer, 0⟩], .update [], .restart]).1.idleAt) = ([], some 5) := by decide

end Kvass.Props.C10
