/-
  C05 — a moving target stays on its source until the destination has scraped it.
-/
import Kvass.Pins.Coord
import Kvass.Pins.Sidecar
import Kvass.Proofs.CoordKeep
import Kvass.Proofs.CoordRemoval
import Kvass.Proofs.LoopHandover
import Kvass.Proofs.CoordMove

namespace Kvass.Props.C05
open Kvass Kvass.Coord Kvass.Spec

/-- the hand-over threshold in the code is the documented one (README: "at least 3 times") -/
theorem minWait_is_three : Gen.minWait = C05.handover := rfl

/-- **C05 (removal)**: in every cycle an in-sync shard loses a still-discovered target only if it
    has itself scraped it at least 3 times and some *other* in-sync shard that keeps the target
    has scraped it at least 3 times — for every schedule and input. -/
theorem C05_removal (swr : Swr) (sc : Sched) (inp : Input) (hnd : NodupKeys inp) :
    C05.removal inp (Obs.ofOutcome (cycle swr sc inp)) = true :=
  removal_cycle swr sc inp hnd

/-- **C05 (move step)**: for every schedule, a target newly given to a shard while another in-sync
    shard reports it (a move, not a first assignment) is in *normal* state on the destination, and an
    in-sync shard that reports it keeps it and is told - or already reports - that it is *in
    transfer*: the same cycle marks the source and creates the destination copy.  In particular a
    target never moves twice within one cycle.  Hypotheses: no negative sizes, distinct keys per
    report, and a series-with-rate function that does not round a limit down. -/
theorem C05_moveStep (swr : Swr) (sc : Sched) (inp : Input) (hsz : C04.sizesOK inp = true)
    (hsw : C05.swrOK swr inp.opt = true) (hnd : NodupKeys inp) :
    C05.moveStep inp (Obs.ofOutcome (cycle swr sc inp)) = true :=
  moveStep_cycle swr sc inp (sizesOK_sound inp hsz) (swrOK_sound swr inp.opt hsw) hnd

/-- **C05**: the whole monitored predicate -/
theorem C05_ok (swr : Swr) (sc : Sched) (inp : Input) (hsz : C04.sizesOK inp = true)
    (hsw : C05.swrOK swr inp.opt = true) (hnd : NodupKeys inp) :
    C05.ok inp (Obs.ofOutcome (cycle swr sc inp)) = true := by
  unfold C05.ok
  rw [C05_removal swr sc inp hnd, C05_moveStep swr sc inp hsz hsw hnd]
  rfl

/-- **C05 as monitored** (`Spec.C05.okAll`): with the clause for a move onto a shard that already holds
    the target — whoever is told to turn a normal copy into an in-transfer one has an in-sync partner
    that holds the target in normal state after the cycle -/
theorem C05_okAll (swr : Swr) (sc : Sched) (inp : Input) (hsz : C04.sizesOK inp = true)
    (hsw : C05.swrOK swr inp.opt = true) (hnd : NodupKeys inp) :
    C05.okAll inp (Obs.ofOutcome (cycle swr sc inp)) = true := by
  unfold C05.okAll
  rw [C05_ok swr sc inp hsz hsw hnd, dstInSync_cycle swr sc inp hnd]
  rfl

/-- the hypothesis on series-with-rate is needed: with a function that rounds the limit down to 0
    relief fires on a shard that still has room, and scale-down moves the target straight back -/
def exSwrBad : Swr := fun _ _ => 0
example : C05.swrOK exSwrBad ⟨0, 100, 5, 0, true, false⟩ = false := by decide
/-- … while multiplying by a rate ≥ 1 satisfies it -/
example : C05.swrOK (fun x r => x * r / 10) ⟨1000, 1000, 5, 0, true, false⟩ = true := by decide

/-- **C05 on the sidecars' own counters** (closed-loop model: coordinator cycle + sidecar update):
    if, after the requests of a full, crash-free, fault-free cycle, a running sidecar no longer reports
    a discovered target it reported before, then it had scraped that target at least three times, and
    another running sidecar that had scraped it at least three times still reports it — there is no
    moment at which nobody scrapes it. -/
theorem C05_loop_handover_rule (swr : Swr) (env : Loop.Env) (w : Loop.World) (sc : Sched)
    (hrep : w.replicas ≤ w.shards.length)
    (hne : stopsEarly (Loop.inputOf env w [] false) = false)
    (hnc : (cycle swr sc (Loop.inputOf env w [] false)).crashed = false)
    (hnd : ∀ sh ∈ w.running, (Loop.statusOf sh).keys.Nodup)
    {i : Nat} {sh sh' : Loop.Shard} {h : Hash} {r : St} (hrun : w.running[i]? = some sh)
    (hr : (Loop.statusOf sh).get h = some r) (ha : h ∈ w.active)
    (hsh' : (Loop.applyOutcome w [] (cycle swr sc (Loop.inputOf env w [] false))).shards[i]? = some sh')
    (hgone : (Loop.statusOf sh').has h = false) :
    3 ≤ r.times ∧
    ∃ (j : Nat) (shj shj' : Loop.Shard) (rj : St), j ≠ i ∧ w.running[j]? = some shj ∧
      (Loop.statusOf shj).get h = some rj ∧ 3 ≤ rj.times ∧
      (Loop.applyOutcome w [] (cycle swr sc (Loop.inputOf env w [] false))).shards[j]? = some shj' ∧
      (Loop.statusOf shj').has h = true :=
  Loop.loop_handover_rule swr env w sc hrep hne hnc hnd hrun hr ha hsh' hgone

end Kvass.Props.C05
