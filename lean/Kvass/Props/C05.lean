/-
  C05 — a moving target stays on its source until the destination has scraped it.
-/
import Kvass.Pins.Coord
import Kvass.Pins.Sidecar
import Kvass.Proofs.CoordKeep
import Kvass.Proofs.CoordRemoval
import Kvass.Proofs.LoopHandover
import Kvass.Proofs.CoordMove
import Kvass.Proofs.LoopFaulty

namespace Kvass.Props.C05
open Kvass Kvass.Coord Kvass.Spec

/-- the hand-over threshold in the code is the documented one (README: "at least 3 times") -/
theorem minWait_is_three : Gen.minWait = C05.handover := rfl

/-- **C05 (removal)**: in every cycle an in-sync shard loses a still-discovered target only if it
    has itself scraped it at least 3 times and some *other* in-sync shard that keeps the target
    has scraped it at least 3 times — for every schedule and input. -/
theorem C05_removal (swr : Swr) (sc : Sched) (inp : Input) (hnd : NodupKeys inp) :
    C05.removal inp (Obs.ofOutcome (cycle swr sc inp)) = true :=
  removal_cycle swr sc inp hnd

/-- **C05 (move step)**: for every schedule, a target newly given to a shard while another in-sync
    shard reports it (a move, not a first assignment) is in *normal* state on the destination, and an
    in-sync shard that reports it keeps it and is told - or already reports - that it is *in
    transfer*: the same cycle marks the source and creates the destination copy.  In particular a
    target never moves twice within one cycle.  Hypotheses: no negative sizes, distinct keys per
    report, and a series-with-rate function that does not round a limit down. -/
theorem C05_moveStep (swr : Swr) (sc : Sched) (inp : Input) (hsz : C04.sizesOK inp = true)
    (hsw : C05.swrOK swr inp.opt = true) (hnd : NodupKeys inp) :
    C05.moveStep inp (Obs.ofOutcome (cycle swr sc inp)) = true :=
  moveStep_cycle swr sc inp (sizesOK_sound inp hsz) (swrOK_sound swr inp.opt hsw) hnd

/-- **C05**: the whole monitored predicate -/
theorem C05_ok (swr : Swr) (sc : Sched) (inp : Input) (hsz : C04.sizesOK inp = true)
    (hsw : C05.swrOK swr inp.opt = true) (hnd : NodupKeys inp) :
    C05.ok inp (Obs.ofOutcome (cycle swr sc inp)) = true := by
  unfold C05.ok
  rw [C05_removal swr sc inp hnd, C05_moveStep swr sc inp hsz hsw hnd]
  rfl

/-- **C05 as monitored** (`Spec.C05.okAll`): with the clause for a move onto a shard that already holds
    the target — whoever is told to turn a normal copy into an in-transfer one has an in-sync partner
    that holds the target in normal state after the cycle -/
theorem C05_okAll (swr : Swr) (sc : Sched) (inp : Input) (hsz : C04.sizesOK inp = true)
    (hsw : C05.swrOK swr inp.opt = true) (hnd : NodupKeys inp) :
    C05.okAll inp (Obs.ofOutcome (cycle swr sc inp)) = true := by
  unfold C05.okAll
  rw [C05_ok swr sc inp hsz hsw hnd, dstInSync_cycle swr sc inp hnd]
  rfl

/-- the hypothesis on series-with-rate is needed: with a function that rounds the limit down to 0
    relief fires on a shard that still has room, and scale-down moves the target straight back -/
def exSwrBad : Swr := fun _ _ => 0
example : C05.swrOK exSwrBad ⟨0, 100, 5, 0, true, false⟩ = false := by decide
/-- … while multiplying by a rate ≥ 1 satisfies it -/
example : C05.swrOK (fun x r => x * r / 10) ⟨1000, 1000, 5, 0, true, false⟩ = true := by decide

/-- **C05 on the sidecars' own counters** (closed-loop model: coordinator cycle + sidecar update):
    if, after the requests of a full, crash-free, fault-free cycle, a running sidecar no longer reports
    a discovered target it reported before, then it had scraped that target at least three times, and
    another running sidecar that had scraped it at least three times still reports it — there is no
    moment at which nobody scrapes it. -/
theorem C05_loop_handover_rule (swr : Swr) (env : Loop.Env) (w : Loop.World) (sc : Sched)
    (hrep : w.replicas ≤ w.shards.length)
    (hne : stopsEarly (Loop.inputOf env w [] false) = false)
    (hnc : (cycle swr sc (Loop.inputOf env w [] false)).crashed = false)
    (hnd : ∀ sh ∈ w.running, (Loop.statusOf sh).keys.Nodup)
    {i : Nat} {sh sh' : Loop.Shard} {h : Hash} {r : St} (hrun : w.running[i]? = some sh)
    (hr : (Loop.statusOf sh).get h = some r) (ha : h ∈ w.active)
    (hsh' : (Loop.applyOutcome w [] (cycle swr sc (Loop.inputOf env w [] false))).shards[i]? = some sh')
    (hgone : (Loop.statusOf sh').has h = false) :
    3 ≤ r.times ∧
    ∃ (j : Nat) (shj shj' : Loop.Shard) (rj : St), j ≠ i ∧ w.running[j]? = some shj ∧
      (Loop.statusOf shj).get h = some rj ∧ 3 ≤ rj.times ∧
      (Loop.applyOutcome w [] (cycle swr sc (Loop.inputOf env w [] false))).shards[j]? = some shj' ∧
      (Loop.statusOf shj').has h = true :=
  Loop.loop_handover_rule swr env w sc hrep hne hnc hnd hrun hr ha hsh' hgone

/-- **C05, "no interval in which no shard has scraped it"** on the closed-loop model, for whole
    histories: along every sequence of coordination cycles (any faults), scrapes, sidecar restarts
    and discovery changes that keep the target, a discovered target that a running sidecar holds at
    the start is held by a running sidecar in every state reached (`Loop.run_keep`; also stated as
    `C06_never_unscraped`). -/
theorem C05_no_gap (swr : Swr) (env : Loop.Env) (hmm : env.opt.minShard ≤ env.opt.maxShard) (h : Hash)
    (ops : List Loop.Op) (w : Loop.World) (hops : ∀ op ∈ ops, Loop.benign h op = true)
    (hw : Loop.WInv env w) (ha : h ∈ w.active) (hh : Loop.Held w h) :
    Loop.Held (Loop.run swr env w ops) h :=
  (Loop.run_keep swr env hmm h ops w hops hw ha hh).2.2

/-- **C05, the hand-over rule on the sidecars' own counters — under faults, in every reachable
    state.**  `w` is any world that meets the invariant `WInv` (freshly started sidecars do, and every
    history of cycles with any faults, scrapes, restarts and discovery changes keeps it —
    `C06_world_invariant`).  In a cycle with any fault pattern, `ChangeScale` working or not: a running
    sidecar that held a discovered target and no longer holds it after the requests had scraped it
    at least three times (the counter restarts when the target goes into transfer, C10), and another
    sidecar that had scraped it at least three times holds it after the requests and is still
    running after the step.  "Only then is it removed from the source." -/
theorem C05_handover_rule_under_faults (swr : Swr) (env : Loop.Env) (w : Loop.World) (sc : Sched)
    (F : List Loop.Fault) (b : Bool) (hw : Loop.WInv env w)
    {i : Nat} {sh sh' : Loop.Shard} {h : Hash} {r : St} (hrun : w.running[i]? = some sh)
    (hr : (Loop.statusOf sh).get h = some r) (ha : h ∈ w.active)
    (hsh' : (Loop.applyOutcome w F (cycle swr sc (Loop.inputOf env w F b))).shards[i]? = some sh')
    (hgone : (Loop.statusOf sh').has h = false) :
    3 ≤ r.times ∧
    ∃ (j : Nat) (shj shj' : Loop.Shard) (rj : St), j ≠ i ∧ w.running[j]? = some shj ∧
      (Loop.statusOf shj).get h = some rj ∧ 3 ≤ rj.times ∧
      (Loop.applyOutcome w F (cycle swr sc (Loop.inputOf env w F b))).shards[j]? = some shj' ∧
      (Loop.statusOf shj').has h = true ∧
      j < (Loop.cycleStep swr env w sc F b).1.replicas ∧ (Loop.cycleStep swr env w sc F b).1.shards[j]? = some shj' :=
  Loop.step_handover_f swr env w sc F b hw.rep
    (fun s hs => by rw [Loop.reported_keys_statusOf]; exact (Loop.ws_running hw.toWS s hs).nodup)
    (fun s hs => (Loop.ws_running hw.toWS s hs).idle) hw.max hrun hr ha hsh' hgone

/-- non-vacuity: the pending hand-over of the example (source 5 scrapes, destination 4) is not
    completed, one more scrape on the destination and it is — even though the update to the
    destination is lost in that cycle -/
def exHand : Loop.World :=
  { shards := [⟨{ targets := [⟨1, 10, 10, .inTransfer, 1⟩], status := [(1, { health := .good, series := 10, total := 10, state := .inTransfer, times := 5 })],
                   idleAt := none }, 7⟩,
               ⟨{ targets := [⟨1, 10, 10, .normal, 1⟩], status := [(1, { health := .good, series := 10, total := 10, state := .normal, times := 2 })],
                   idleAt := none }, 6⟩],
    replicas := 2, active := [1], explore := [] }
def exHandEnv : Loop.Env := { opt := ⟨0, 1000, 5, 1, false, true⟩, maxIdle := 3 }

example : ((Loop.run (fun x r => x * r / 10) exHandEnv exHand [.cycle {} [] false]).shards.map
      fun sh => (Loop.statusOf sh).map fun p => (p.1, p.2.state)) = [[(1, .inTransfer)], [(1, .normal)]] ∧
    ((Loop.run (fun x r => x * r / 10) exHandEnv exHand
        [.cycle {} [] false, .scrape 1 1 (some (10, 10)), .cycle {} [{}, ⟨false, false, false, false, true, false⟩] false]).shards.map
      fun sh => (Loop.statusOf sh).map fun p => (p.1, p.2.state)) = [[], [(1, .normal)]] := by
  decide

end Kvass.Props.C05
