/-
  C14 — series accounting matches the payloads that were actually scraped.
-/
import Kvass.Pins.Sidecar
import Kvass.Proofs.Sidecar

namespace Kvass.Props.C14
open Kvass Kvass.Sidecar Kvass.Spec.SC

/-! ### counting samples -/

def perTotal (m : AL (Nat × Nat)) : Nat := (m.map (·.2.1)).sum
def perScraped (m : AL (Nat × Nat)) : Nat := (m.map (·.2.2)).sum

theorem sum_set (m : AL (Nat × Nat)) (k : Nat) (v : Nat × Nat) :
    perTotal (m.set k v) + ((m.get k).getD (0, 0)).1 = perTotal m + v.1 ∧
    perScraped (m.set k v) + ((m.get k).getD (0, 0)).2 = perScraped m + v.2 := by
  induction m with
  | nil => simp [AL.set, AL.get, perTotal, perScraped]
  | cons p m ih =>
    obtain ⟨k', x⟩ := p
    by_cases hk : k' = k
    · subst hk
      simp [AL.set, AL.get, perTotal, perScraped]; omega
    · simp only [AL.set, AL.get, hk, if_false, perTotal, perScraped, List.map_cons, List.sum_cons] at ih ⊢
      omega

/-- **C14 (counts)**: for every payload, the recorded totals are the number of samples before
    (`total`) and after (`scraped`) applying the metric relabel rules to each sample's own labels,
    and the per-metric counts add up to those totals. -/
theorem C14_counts (rows : List Row) :
    (statistic rows).total = rows.length ∧
    (statistic rows).scraped = rows.countP (·.kept) ∧
    perTotal (statistic rows).per = (statistic rows).total ∧
    perScraped (statistic rows).per = (statistic rows).scraped := by
  unfold statistic
  have : ∀ (rows : List Row) (r : Stats),
      perTotal r.per = r.total → perScraped r.per = r.scraped →
      (rows.foldl statStep r).total = r.total + rows.length ∧
      (rows.foldl statStep r).scraped = r.scraped + rows.countP (·.kept) ∧
      perTotal (rows.foldl statStep r).per = (rows.foldl statStep r).total ∧
      perScraped (rows.foldl statStep r).per = (rows.foldl statStep r).scraped := by
    intro rows
    induction rows with
    | nil => intro r h1 h2; simp [h1, h2]
    | cons row rows ih =>
      intro r h1 h2
      simp only [List.foldl_cons]
      have hs := sum_set r.per row.metric
      generalize hc : (r.per.get row.metric).getD (0, 0) = cur at hs
      cases hk : row.kept with
      | true =>
        have e : statStep r row = ⟨r.scraped + 1, r.total + 1, r.per.set row.metric (cur.1 + 1, cur.2 + 1)⟩ := by
          simp [statStep, hk, hc, Gen.Sidecar.statKeep, Gen.Sidecar.statTotalNext, Gen.Sidecar.statScrapedNext,
            Gen.Sidecar.statMetricTotalNext, Gen.Sidecar.statMetricScrapedNext]
        have hv := hs (cur.1 + 1, cur.2 + 1)
        simp only at hv
        have p1 : perTotal (statStep r row).per = (statStep r row).total := by rw [e]; simp only; omega
        have p2 : perScraped (statStep r row).per = (statStep r row).scraped := by rw [e]; simp only; omega
        obtain ⟨a1, a2, a3, a4⟩ := ih (statStep r row) p1 p2
        refine ⟨?_, ?_, a3, a4⟩
        · rw [a1, e]; simp only [List.length_cons]; omega
        · rw [a2, e]; simp only [List.countP_cons, hk, if_true]; omega
      | false =>
        have e : statStep r row = ⟨r.scraped, r.total + 1, r.per.set row.metric (cur.1 + 1, cur.2)⟩ := by
          simp [statStep, hk, hc, Gen.Sidecar.statKeep, Gen.Sidecar.statTotalNext,
            Gen.Sidecar.statMetricTotalNext]
        have hv := hs (cur.1 + 1, cur.2)
        simp only at hv
        have p1 : perTotal (statStep r row).per = (statStep r row).total := by rw [e]; simp only; omega
        have p2 : perScraped (statStep r row).per = (statStep r row).scraped := by rw [e]; simp only; omega
        obtain ⟨a1, a2, a3, a4⟩ := ih (statStep r row) p1 p2
        refine ⟨?_, ?_, a3, a4⟩
        · rw [a1, e]; simp only [List.length_cons]; omega
        · rw [a2, e]; simp [List.countP_cons, hk]
  have h := this rows {} rfl rfl
  simpa using h

/-- **C14 (per metric, exactly)**: for every payload and every metric name, the per-metric detail
    holds exactly the number of samples of that name before and after relabeling — whatever the
    order of the samples, however the body is cut into blocks. -/
theorem C14_per_metric (rows : List Row) (m : Nat) :
    ((statistic rows).per.get m).getD (0, 0) =
      (rows.countP (fun r => r.metric == m), rows.countP (fun r => r.metric == m && r.kept)) := by
  unfold statistic
  have : ∀ (rows : List Row) (r : Stats),
      ((rows.foldl statStep r).per.get m).getD (0, 0) =
        (((r.per.get m).getD (0, 0)).1 + rows.countP (fun r => r.metric == m),
         ((r.per.get m).getD (0, 0)).2 + rows.countP (fun r => r.metric == m && r.kept)) := by
    intro rows
    induction rows with
    | nil => intro r; simp
    | cons row rows ih =>
      intro r
      simp only [List.foldl_cons]
      rw [ih (statStep r row)]
      have hstep : ((statStep r row).per.get m).getD (0, 0) =
          (((r.per.get m).getD (0, 0)).1 + (if row.metric = m then 1 else 0),
           ((r.per.get m).getD (0, 0)).2 + (if row.metric = m ∧ row.kept = true then 1 else 0)) := by
        cases hk : row.kept with
        | true =>
          simp only [statStep, hk, Gen.Sidecar.statKeep, Gen.Sidecar.statTotalNext, Gen.Sidecar.statScrapedNext,
            Gen.Sidecar.statMetricTotalNext, Gen.Sidecar.statMetricScrapedNext, if_true]
          rw [AL.get_set]
          by_cases hm : row.metric = m
          · subst hm; simp
          · simp [hm]
        | false =>
          simp only [statStep, hk, Gen.Sidecar.statKeep, Gen.Sidecar.statTotalNext,
            Gen.Sidecar.statMetricTotalNext, Bool.false_eq_true, if_false]
          rw [AL.get_set]
          by_cases hm : row.metric = m
          · subst hm; simp
          · simp [hm]
      rw [hstep]
      simp only [List.countP_cons, beq_iff_eq, Bool.and_eq_true]
      by_cases hm : row.metric = m <;> by_cases hk : row.kept = true <;> simp [hm, hk] <;> omega
  have h := this rows {}
  simpa [AL.get] using h

/-- … in particular the whole statistic does not depend on the order in which the samples (or the
    blocks the parser cuts the body into) are counted -/
theorem C14_order_independent (rows rows' : List Row) (hp : rows.Perm rows') :
    (statistic rows).total = (statistic rows').total ∧ (statistic rows).scraped = (statistic rows').scraped ∧
    ∀ m, ((statistic rows).per.get m).getD (0, 0) = ((statistic rows').per.get m).getD (0, 0) := by
  obtain ⟨t1, s1, _, _⟩ := C14_counts rows
  obtain ⟨t2, s2, _, _⟩ := C14_counts rows'
  refine ⟨by rw [t1, t2, hp.length_eq], by rw [s1, s2, hp.countP_eq], ?_⟩
  intro m
  rw [C14_per_metric, C14_per_metric, hp.countP_eq, hp.countP_eq]

example : ((statistic [⟨1, true⟩, ⟨2, false⟩, ⟨1, false⟩, ⟨1, true⟩]).per.get 1).getD (0, 0) = (3, 2) := by decide

/-! ### the sliding window -/

theorem lastN_snoc (hist : List Int) (x : Int) :
    pushWindow (C14.lastN 3 hist) x = C14.lastN 3 (hist ++ [x]) := by
  unfold pushWindow C14.lastN
  have hlen : (List.drop (hist.length - 3) hist).length = hist.length - (hist.length - 3) := List.length_drop
  by_cases h : hist.length < 3
  · have e1 : hist.length - 3 = 0 := by omega
    have e2 : (hist ++ [x]).length - 3 = 0 := by simp; omega
    have e3 : Gen.Sidecar.windowRoom ((List.drop (hist.length - 3) hist).length : Int) = true := by
      simp only [Gen.Sidecar.windowRoom, decide_eq_true_eq, hlen]; omega
    rw [if_pos e3, e1, e2]; rfl
  · have e3 : Gen.Sidecar.windowRoom ((List.drop (hist.length - 3) hist).length : Int) = false := by
      simp only [Gen.Sidecar.windowRoom, decide_eq_false_iff_not, hlen]; omega
    rw [if_neg (by rw [e3]; simp), List.drop_drop]
    have e4 : (hist ++ [x]).length - 3 = hist.length - 3 + 1 := by simp; omega
    rw [e4, List.drop_append_of_le_length (by omega)]

/-- window invariant: the stored window is the last ≤ 3 successful sample counts -/
def WinInv (st : SS) (hist : List Int) : Prop := st.window = C14.lastN 3 hist

theorem scrapeOk_spec (st : SS) (hist : List Int) (a b : Int) (hw : WinInv st hist) :
    WinInv (scrapeOk st a b) (hist ++ [a]) ∧
    (scrapeOk st a b).series = C14.expectSeries (hist ++ [a]) ∧ (scrapeOk st a b).total = b := by
  unfold WinInv at *
  have hw' : (scrapeOk st a b).window = C14.lastN 3 (hist ++ [a]) := by
    simp only [scrapeOk, Gen.Sidecar.pushedValue]; rw [hw]; exact lastN_snoc hist a
  refine ⟨hw', ?_, rfl⟩
  simp only [scrapeOk, Gen.Sidecar.pushedValue, Gen.Sidecar.meanOf, C14.expectSeries]
  rw [hw, lastN_snoc]

theorem scrapeFail_spec (st : SS) (hist : List Int) (hw : WinInv st hist) :
    WinInv (scrapeFail st) hist ∧ (scrapeFail st).series = st.series ∧ (scrapeFail st).total = st.total :=
  ⟨hw, rfl, rfl⟩

/-- apply a sequence of scrape results to one status -/
def applyResults (st : SS) (rs : List (Option (Int × Int))) : SS :=
  rs.foldl (fun s r => match r with | some (a, b) => scrapeOk s a b | none => scrapeFail s) st

def succHist (rs : List (Option (Int × Int))) : List Int := rs.filterMap fun r => r.map (·.1)
def lastTotal (rs : List (Option (Int × Int))) (d : Int) : Int :=
  rs.foldl (fun t r => match r with | some (_, b) => b | none => t) d

/-- **C14 (window)**: after every sequence of scrape results (successes and failures in any order),
    the series value is the integer mean of the last up to three *successful* scrapes and the
    total-series value is that of the last successful one; failures leave both alone. -/
theorem C14_window (st : SS) (hist : List Int) (rs : List (Option (Int × Int))) (hw : WinInv st hist) :
    WinInv (applyResults st rs) (hist ++ succHist rs) ∧
    (succHist rs ≠ [] → (applyResults st rs).series = C14.expectSeries (hist ++ succHist rs)) ∧
    (applyResults st rs).total = lastTotal rs st.total ∧
    (succHist rs = [] → (applyResults st rs).series = st.series) := by
  induction rs generalizing st hist with
  | nil => simp [applyResults, succHist, lastTotal, hw]
  | cons r rs ih =>
    cases r with
    | none =>
      obtain ⟨h1, h2, h3⟩ := scrapeFail_spec st hist hw
      have := ih (scrapeFail st) hist h1
      simp only [applyResults, List.foldl_cons, succHist, List.filterMap_cons, Option.map_none, lastTotal] at this ⊢
      rw [h2, h3] at this
      exact this
    | some ab =>
      obtain ⟨a, b⟩ := ab
      obtain ⟨h1, h2, h3⟩ := scrapeOk_spec st hist a b hw
      have := ih (scrapeOk st a b) (hist ++ [a]) h1
      simp only [applyResults, List.foldl_cons, succHist, List.filterMap_cons, Option.map_some, lastTotal,
        List.append_assoc, List.singleton_append] at this ⊢
      rw [h3] at this
      refine ⟨this.1, fun _ => ?_, this.2.2.1, fun h => by simp at h⟩
      by_cases hne : (rs.filterMap fun r => r.map (·.1)) = []
      · have := this.2.2.2 hne
        rw [this, h2, hne]
      · exact this.2.1 hne

theorem foldl_total (m : AL SS) (a : Int) :
    m.foldl (fun a p => Gen.Sidecar.rtTotalAdd a p.2.total) a = a + (m.map fun p => p.2.total).sum := by
  induction m generalizing a with
  | nil => simp
  | cons p m ih => rw [List.foldl_cons, ih]; simp only [Gen.Sidecar.rtTotalAdd, List.map_cons, List.sum_cons]; omega

theorem foldl_series (m : AL SS) (a : Int) :
    m.foldl (fun a p => Gen.Sidecar.rtMinAdd a p.2.series) a = a + (m.map fun p => p.2.series).sum := by
  induction m generalizing a with
  | nil => simp
  | cons p m ih => rw [List.foldl_cons, ih]; simp only [Gen.Sidecar.rtMinAdd, List.map_cons, List.sum_cons]; omega

/-- **C14 (shard load)**: the load a shard reports is the sum of its targets' values; head series
    is never below that sum nor below Prometheus' own head count. -/
theorem C14_runtime (ph : Int) (s : SC) : C14.runtime ph (obsOf ph s) = true := by
  have m1 : ((s.status.map fun p => (p.1, entOf p.2)).map fun x => x.2.total) = s.status.map fun p => p.2.total := by
    simp [List.map_map, Function.comp_def, entOf]
  have m2 : ((s.status.map fun p => (p.1, entOf p.2)).map fun x => x.2.series) = s.status.map fun p => p.2.series := by
    simp [List.map_map, Function.comp_def, entOf]
  unfold C14.runtime obsOf runtime
  simp only [m1, m2, foldl_total, foldl_series, Int.zero_add, Gen.Sidecar.rtFloor, Gen.Sidecar.rtFloorTo,
    Gen.Sidecar.rtHead, Gen.Sidecar.rtProc, decide_eq_true_eq, Bool.and_eq_true, beq_iff_eq]
  exact ⟨trivial, trivial⟩

/-- non-vacuity -/
example : (applyResults {} [some (4, 9), none, some (5, 9), some (9, 20), some (2, 3)]).series = 5 := by decide
example : statistic [⟨1, true⟩, ⟨1, false⟩, ⟨2, true⟩] = ⟨2, 3, [(1, (2, 1)), (2, (1, 1))]⟩ := by decide

end Kvass.Props.C14
