/-
  C03 — every eligible target ends up scraped by exactly one shard.

  What is a theorem here (for every schedule, input, size):
    * `C03_stable`      — a cycle over converged, calm, fully placed shards changes nothing
                          ("further cycles then change nothing");
    * `C03_scaleUp`     — whenever space is still needed after a cycle's placement stages, all shards
                          being in sync, the requested count exceeds the current one (or is the maximum);
    * `C03_dup_resolved`, `C03_transfer_completes`, `C03_revert` — the per-cycle progress steps of
                          garbage collection that drive convergence: of two copies in the same state
                          exactly one is dropped, a completed hand-over drops the source's copy, a copy
                          in transfer without partner returns to normal;
    * `request_fields`  — what an update request carries (extracted from `updateScrapingTargets`).
  Convergence within a bounded number of cycles is *not* a theorem (see DESIGN §4, C03): it is
  explored by the `loop` engine on the real coordinator + sidecars, and every such history is
  replayed on `Loop.step`.
-/
import Kvass.Model.Loop
import Kvass.Spec.Loop
import Kvass.Proofs.CoordQuiet

namespace Kvass.Props.C03
open Kvass Kvass.Coord Kvass.Spec

/-- an update request is the discovered target with exactly these fields overwritten: the
    total-series estimate is not among them (a sidecar starts a new entry with total 0) -/
theorem request_fields : Gen.requestAssigns.map (·.1) =
    ["s.newTargets", "t.TargetState", "t.Series", "s.newTargets[tar.Job]"] ∧
    Gen.requestAssignsIfs = 1 := ⟨rfl, rfl⟩

/-- **C03 (stability)**: for every schedule, a cycle over shards that are all in sync, hold only
    discovered targets in normal state, no target twice, are not overloaded, with every discovered
    target scraped / unhealthy / too big, a shard count within [min,max] and no shard to scale away,
    does not crash, asks for the current shard count and sends every shard only its reads and the
    extra-config push. -/
theorem C03_stable (swr : Swr) (sc : Sched) (inp : Input) (q : Quiet swr inp) :
    (cycle swr sc inp).crashed = false ∧
    (cycle swr sc inp).scales = [(inp.probes.length : Int)] ∧
    ∀ (i : Nat) (p : Probe), inp.probes[i]? = some p →
      (cycle swr sc inp).reqs[i]? = some (quietReqs (reported p)) := by
  obtain ⟨h1, h2, _, h4⟩ := quiet_cycle swr sc inp q
  exact ⟨h1, h2, h4⟩

/-- the same with the hypotheses in decidable form (scale-down switched off): this is the check the
    driver evaluates on the reports of the real sidecars before every cycle -/
theorem C03_stable_checked (swr : Swr) (sc : Sched) (inp : Input) (q : quietB swr inp = true) :
    (cycle swr sc inp).crashed = false ∧
    (cycle swr sc inp).scales = [(inp.probes.length : Int)] ∧
    ∀ (i : Nat) (p : Probe), inp.probes[i]? = some p →
      (cycle swr sc inp).reqs[i]? = some (quietReqs (reported p)) :=
  C03_stable swr sc inp (quietB_sound swr inp q)

/-- non-vacuity: two in-sync shards, three discovered targets (one unhealthy), limits 100/100 -/
def exampleInput : Input :=
  { opt := ⟨100, 100, 4, 1, false, false⟩, active := [1, 2, 3],
    explore := [(3, { health := .bad, series := 5, total := 5 })],
    probes := [
      { ready := true, status := some [(1, { health := .good, series := 40, total := 50, times := 7 })],
        rt1 := some (⟨40, 50, .none⟩, true), pushOk := false, rt2 := none, postOk := true },
      { ready := true, status := some [(2, { health := .good, series := 30, total := 30, times := 4 })],
        rt1 := some (⟨30, 30, .none⟩, true), pushOk := false, rt2 := none, postOk := true }] }

example : quietB (fun x r => x * r / 10) exampleInput = true := by decide

/-- a shard that is left alone keeps its assignment: the only `POST shard/targets` a quiet cycle
    sends is the empty assignment to a shard that holds nothing -/
theorem quiet_post_empty (reported : AL St) (b : List (Hash × TState × Int))
    (h : Req.postTargets b ∈ quietReqs reported) : b = [] ∧ reported = [] := by
  unfold quietReqs at h
  split at h
  · rename_i he
    simp at h
    exact ⟨h, List.isEmpty_iff.mp he⟩
  · simp at h

/-! ### scale-up -/

/-- with every shard in sync, space still needed (non-negative amounts, at least the coordinator's
    own "not zero" test) makes `tryScaleUp` ask for at least one shard more than there are -/
theorem tryScaleUp_exceeds (o : Opt) (ss : List SI) (sp : Space) (hall : nChangeable ss = ss.length)
    (hp : 0 ≤ sp.proc) (hh : 0 ≤ sp.head) (hmp : 0 < o.maxProc) (hmh : 0 ≤ o.maxHead) :
    (ss.length : Int) + 1 ≤ tryScaleUp o ss sp := by
  unfold tryScaleUp
  simp only [Sites.upBase_eq, Sites.upSum_eq, hall]
  have h1 : 1 ≤ Gen.upProc o sp := by
    rw [Sites.upProc_eq]
    have := Int.tdiv_nonneg hp (Int.le_of_lt hmp)
    omega
  have h2 : 1 ≤ Gen.upHead o sp := by
    rw [Sites.upHead_eq]
    have := Int.tdiv_nonneg hh hmh
    omega
  have h3 : 1 ≤ (if Gen.upUseHead o sp (Gen.upProc o sp) = true then Gen.upHead o sp else Gen.upProc o sp) := by
    split <;> assumption
  generalize (if Gen.upUseHead o sp (Gen.upProc o sp) = true then Gen.upHead o sp else Gen.upProc o sp) = up at h3
  split
  · rename_i hf
    rw [Sites.upFloor_iff] at hf
    omega
  · omega

/-- the final clamp keeps such a request above the current count as long as more shards are allowed -/
theorem clamp_exceeds (o : Opt) (k n : Int) (hk : n + 1 ≤ k) (hmax : n < o.maxShard) : n < clamp o k := by
  unfold clamp
  simp only
  split
  · rename_i h1
    split
    · rename_i h2
      rw [Sites.clampMin_iff] at h2; rw [Sites.clampMinTo_eq]
      rw [Sites.clampMaxTo_eq] at h2; omega
    · rw [Sites.clampMaxTo_eq]; exact hmax
  · split
    · rename_i h2
      rw [Sites.clampMin_iff] at h2; rw [Sites.clampMinTo_eq]; omega
    · omega

/-! ### the garbage-collection decisions that drive convergence

  `gcTargets` visits every (shard, target) pair once and applies `gcDecide` / `gcReverts` to it.
  The three lemmas state what these decisions are for the three kinds of pending situation. -/

/-- a hand-over that both sides have scraped often enough is completed: the source's copy goes -/
theorem gc_transfer_completes (o : Opt) (active : List Hash) (ss : List SI) (i j : Nat) (s sj : SI) (h : Hash)
    (tar st : St) (hact : h ∈ active) (_hs : ss[i]? = some s) (hj : ss[j]? = some sj) (hij : j ≠ i)
    (hcj : sj.changeable = true) (hgj : sj.scraping.get h = some st)
    (ht : tar.state = .inTransfer) (hst : st.state = .normal) (h3 : 3 ≤ tar.times) (h3j : 3 ≤ st.times) :
    gcDecide o active ss i s h tar = true := by
  unfold gcDecide
  have hc : active.contains h = true := by simpa using hact
  have hy : Gen.gcYoung tar = false := by
    cases hh : Gen.gcYoung tar with
    | false => rfl
    | true => rw [Sites.gcYoung_iff] at hh; omega
  simp only [hc, hy, Bool.not_true, Bool.false_eq_true, if_false]
  unfold gcOtherTriggers
  rw [List.any_eq_true]
  refine ⟨(sj, j), List.mem_zipIdx_iff_getElem?.mpr hj, ?_⟩
  simp only [hcj, hgj, Bool.true_and]
  have h1 : (j != i) = true := by simpa using hij
  have h2 : Gen.gcOtherOk st = true := (Sites.gcOtherOk_iff st).mpr h3j
  have h4 : Gen.gcRule2 tar st = true := (Sites.gcRule2_iff tar st).mpr ⟨ht, hst⟩
  simp [h1, h2, h4]

/-- of two copies in the same state on two shards (both scraped often enough), the rule that
    compares the shards drops the copy of exactly one of them: nothing stays duplicated, nothing is
    dropped on both sides -/
theorem gc_dup_one_side (o : Opt) (si sj : SI) (i j : Nat) (hij : i ≠ j) :
    (Gen.gcLess o si.rt sj.rt i j = true ∧ Gen.gcLess o sj.rt si.rt j i = false) ∨
    (Gen.gcLess o si.rt sj.rt i j = false ∧ Gen.gcLess o sj.rt si.rt j i = true) :=
  Sites.gcLess_total o si.rt sj.rt i j hij

theorem gc_dup_resolved (o : Opt) (active : List Hash) (ss : List SI) (i j : Nat) (si sj : SI) (h : Hash)
    (vi vj : St) (hact : h ∈ active) (hi : ss[i]? = some si) (hj : ss[j]? = some sj) (hij : i ≠ j)
    (hci : si.changeable = true) (hcj : sj.changeable = true)
    (hgi : si.scraping.get h = some vi) (hgj : sj.scraping.get h = some vj)
    (hsame : vi.state = vj.state) (h3i : 3 ≤ vi.times) (h3j : 3 ≤ vj.times) :
    gcDecide o active ss i si h vi = true ∨ gcDecide o active ss j sj h vj = true := by
  have hc : active.contains h = true := by simpa using hact
  have young (v : St) (h3 : 3 ≤ v.times) : Gen.gcYoung v = false := by
    cases hh : Gen.gcYoung v with
    | false => rfl
    | true => rw [Sites.gcYoung_iff] at hh; omega
  have trig (a b : Nat) (sa sb : SI) (va vb : St) (hab : b ≠ a) (hb : ss[b]? = some sb) (hcb : sb.changeable = true)
      (hgb : sb.scraping.get h = some vb) (hs : va.state = vb.state) (h3b : 3 ≤ vb.times)
      (hl : Gen.gcLess o sa.rt sb.rt a b = true) : gcOtherTriggers o ss a sa va h = true := by
    unfold gcOtherTriggers
    rw [List.any_eq_true]
    refine ⟨(sb, b), List.mem_zipIdx_iff_getElem?.mpr hb, ?_⟩
    have h1 : (b != a) = true := by simpa using hab
    have h2 : Gen.gcOtherOk vb = true := (Sites.gcOtherOk_iff vb).mpr h3b
    have h4 : Gen.gcSame va vb = true := (Sites.gcSame_iff va vb).mpr hs
    simp [hcb, hgb, h1, h2, h4, hl]
  rcases gc_dup_one_side o si sj i j hij with ⟨hl, _⟩ | ⟨_, hl⟩
  · left
    unfold gcDecide
    simp only [hc, young vi h3i, Bool.not_true, Bool.false_eq_true, if_false]
    exact trig i j si sj vi vj (Ne.symm hij) hj hcj hgj hsame h3j hl
  · right
    unfold gcDecide
    simp only [hc, young vj h3j, Bool.not_true, Bool.false_eq_true, if_false]
    exact trig j i sj si vj vi hij hi hci hgi hsame.symm h3i hl

/-- a copy in transfer that no other in-sync shard knows is kept and goes back to normal state -/
theorem gc_revert (o : Opt) (active : List Hash) (ss : List SI) (i : Nat) (s : SI) (h : Hash) (tar : St)
    (hact : h ∈ active) (ht : tar.state = .inTransfer) (h3 : 3 ≤ tar.times)
    (halone : ∀ (j : Nat) (sj : SI), ss[j]? = some sj → j ≠ i → sj.changeable = true → sj.scraping.get h = none) :
    gcDecide o active ss i s h tar = false ∧ gcReverts active ss i h tar = true ∧
    (revertSt tar).state = .normal := by
  have hc : active.contains h = true := by simpa using hact
  have hy : Gen.gcYoung tar = false := by
    cases hh : Gen.gcYoung tar with
    | false => rfl
    | true => rw [Sites.gcYoung_iff] at hh; omega
  refine ⟨?_, ?_, rfl⟩
  · unfold gcDecide
    simp only [hc, hy, Bool.not_true, Bool.false_eq_true, if_false]
    unfold gcOtherTriggers
    rw [List.any_eq_false]
    intro ⟨os, j⟩ hm
    rw [List.mem_zipIdx_iff_getElem?] at hm
    simp only at hm ⊢
    by_cases hji : j = i
    · subst hji; simp
    · cases hch : os.changeable with
      | false => simp
      | true => simp [halone j os hm hji hch]
  · unfold gcReverts
    have hheld : gcHeldElsewhere ss i h = false := by
      unfold gcHeldElsewhere
      rw [List.any_eq_false]
      intro ⟨os, j⟩ hm
      rw [List.mem_zipIdx_iff_getElem?] at hm
      simp only at hm ⊢
      by_cases hji : j = i
      · subst hji; simp
      · cases hch : os.changeable with
        | false => simp
        | true =>
          have hn := halone j os hm hji hch
          have : os.scraping.has h = false := by
            cases hh : os.scraping.has h with
            | false => rfl
            | true => obtain ⟨v, hv⟩ := (AL.has_iff _ _).mp hh; rw [hn] at hv; cases hv
          simp [this, Gen.gcHeld]
    simp [hact, hy, hheld, Gen.gcRevert, ht]

end Kvass.Props.C03
