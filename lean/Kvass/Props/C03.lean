/-
  C03 — every eligible target ends up scraped by exactly one shard.

  What is a theorem here (for every schedule, input, size):
    * `C03_stable`      — a cycle over converged, calm, fully placed shards changes nothing
                          ("further cycles then change nothing");
    * `C03_scaleUp`     — whenever space is still needed after a cycle's placement stages, all shards
                          being in sync, the requested count exceeds the current one (or is the maximum);
    * `C03_dup_resolved`, `C03_transfer_completes`, `C03_revert` — the per-cycle progress steps of
                          garbage collection that drive convergence: of two copies in the same state
                          exactly one is dropped, a completed hand-over drops the source's copy, a copy
                          in transfer without partner returns to normal;
    * `request_fields`  — what an update request carries (extracted from `updateScrapingTargets`).
  Convergence within a bounded number of cycles is *not* a theorem (see DESIGN §4, C03): it is
  explored by the `loop` engine on the real coordinator + sidecars, and every such history is
  replayed on `Loop.step`.
-/
import Kvass.Pins.Coord
import Kvass.Pins.Sidecar
import Kvass.Model.Loop
import Kvass.Spec.Loop
import Kvass.Proofs.CoordQuiet
import Kvass.Proofs.CoordNeed
import Kvass.Proofs.CoordGcWhole
import Kvass.Proofs.LoopStable
import Kvass.Proofs.LoopRepair
import Kvass.Proofs.LoopStay
import Kvass.Proofs.CoordRelief
import Kvass.Proofs.CoordReliefHead

namespace Kvass.Props.C03
open Kvass Kvass.Coord Kvass.Spec

/-- an update request is the discovered target with exactly these fields overwritten: the
    total-series estimate is not among them (a sidecar starts a new entry with total 0) -/
theorem request_fields : Gen.requestAssigns.map (·.1) =
    ["s.newTargets", "t.TargetState", "t.Series", "s.newTargets[tar.Job]"] ∧
    Gen.requestAssignsIfs = 1 := ⟨rfl, rfl⟩

/-- **C03 (stability)**: for every schedule, a cycle over shards that are all in sync, hold only
    discovered targets in normal state, no target twice, are not overloaded, with every discovered
    target scraped / unhealthy / too big, a shard count within [min,max] and no shard to scale away,
    does not crash, asks for the current shard count and sends every shard only its reads and the
    extra-config push. -/
theorem C03_stable (swr : Swr) (sc : Sched) (inp : Input) (q : Quiet swr inp) :
    (cycle swr sc inp).crashed = false ∧
    (cycle swr sc inp).scales = [(inp.probes.length : Int)] ∧
    ∀ (i : Nat) (p : Probe), inp.probes[i]? = some p →
      (cycle swr sc inp).reqs[i]? = some (quietReqs (reported p)) := by
  obtain ⟨h1, h2, _, h4⟩ := quiet_cycle swr sc inp q
  exact ⟨h1, h2, h4⟩

/-- the same with the hypotheses in decidable form (scale-down switched off): this is the check the
    driver evaluates on the reports of the real sidecars before every cycle -/
theorem C03_stable_checked (swr : Swr) (sc : Sched) (inp : Input) (q : quietB swr inp = true) :
    (cycle swr sc inp).crashed = false ∧
    (cycle swr sc inp).scales = [(inp.probes.length : Int)] ∧
    ∀ (i : Nat) (p : Probe), inp.probes[i]? = some p →
      (cycle swr sc inp).reqs[i]? = some (quietReqs (reported p)) :=
  C03_stable swr sc inp (quietB_sound swr inp q)

/-- non-vacuity: two in-sync shards, three discovered targets (one unhealthy), limits 100/100 -/
def exampleInput : Input :=
  { opt := ⟨100, 100, 4, 1, false, false⟩, active := [1, 2, 3],
    explore := [(3, { health := .bad, series := 5, total := 5 })],
    probes := [
      { ready := true, status := some [(1, { health := .good, series := 40, total := 50, times := 7 })],
        rt1 := some (⟨40, 50, .none⟩, true), pushOk := false, rt2 := none, postOk := true },
      { ready := true, status := some [(2, { health := .good, series := 30, total := 30, times := 4 })],
        rt1 := some (⟨30, 30, .none⟩, true), pushOk := false, rt2 := none, postOk := true }] }

example : quietB (fun x r => x * r / 10) exampleInput = true := by decide

/-- a shard that is left alone keeps its assignment: the only `POST shard/targets` a quiet cycle
    sends is the empty assignment to a shard that holds nothing -/
theorem quiet_post_empty (reported : AL St) (b : List (Hash × TState × Int))
    (h : Req.postTargets b ∈ quietReqs reported) : b = [] ∧ reported = [] := by
  unfold quietReqs at h
  split at h
  · rename_i he
    simp at h
    exact ⟨h, List.isEmpty_iff.mp he⟩
  · simp at h

/-! ### scale-up -/

/-- with every shard in sync, space still needed (non-negative amounts, at least the coordinator's
    own "not zero" test) makes `tryScaleUp` ask for at least one shard more than there are -/
theorem tryScaleUp_exceeds (o : Opt) (ss : List SI) (sp : Space) (hall : nChangeable ss = ss.length)
    (hp : 0 ≤ sp.proc) (hh : 0 ≤ sp.head) (hmp : 0 < o.maxProc) (hmh : 0 ≤ o.maxHead) :
    (ss.length : Int) + 1 ≤ tryScaleUp o ss sp := Coord.tryScaleUp_exceeds o ss sp hall hp hh hmp hmh

/-- the final clamp keeps such a request above the current count as long as more shards are allowed -/
theorem clamp_exceeds (o : Opt) (k n : Int) (hk : n + 1 ≤ k) (hmax : n < o.maxShard) : n < clamp o k :=
  Coord.clamp_exceeds o k n hk hmax

/-- **C03 (scale-up clause)**: all shards in sync; `h` is discovered, healthy, not too big, of
    non-zero size, and after the cycle still no shard is planned to scrape it; the cycle did not
    crash and more shards are allowed.  Then — for every schedule that visits every discovered
    target — the last requested shard count exceeds the current one. -/
theorem C03_scaleUp (swr : Swr) (sc : Sched) (inp : Input)
    (hsync : ∀ p ∈ inp.probes, inSync p = true)
    (hmp : 0 < inp.opt.maxProc) (hmh : 0 ≤ inp.opt.maxHead)
    (hnn : ∀ k, 0 ≤ (globalOf (infos0 inp) inp.explore k).series ∧ 0 ≤ (globalOf (infos0 inp) inp.explore k).total)
    (hfull : ∀ k ∈ inp.active, k ∈ sc.assign)
    (h : Hash) (ha : h ∈ inp.active)
    (hskip : Gen.assignSkip (globalOf (infos0 inp) inp.explore h) = false)
    (hbig : Gen.tooBig inp.opt (globalOf (infos0 inp) inp.explore h) = false)
    (hsz : 0 < (globalOf (infos0 inp) inp.explore h).series + (globalOf (infos0 inp) inp.explore h).total)
    (hun : ∀ s ∈ (cycle swr sc inp).final, s.scraping.get h = none)
    (hnc : (cycle swr sc inp).crashed = false)
    (hmax : (inp.probes.length : Int) < inp.opt.maxShard) :
    ∃ k, (cycle swr sc inp).scales.getLast? = some k ∧ (inp.probes.length : Int) < k := by
  by_cases hne : stopsEarly inp = true
  · -- the early request for min-shard failed: it is the only request, and it is above the count
    rcases cycle_scales swr sc inp _ rfl with ⟨hs, _⟩ | ⟨k, _, _, hne', _⟩
    · have he : earlyOf inp = true := by
        unfold stopsEarly at hne; unfold earlyOf infos0
        simp only [Bool.and_eq_true] at hne; exact hne.1
      refine ⟨inp.opt.minShard, ?_, ?_⟩
      · rw [hs]; unfold earlyScales; simp [he, Sites.earlyTo_eq]
      · unfold earlyOf at he
        rw [Sites.earlyMin_iff] at he
        have : (infos0 inp).length = inp.probes.length := by unfold infos0; simp
        omega
    · rw [hne] at hne'; cases hne'
  · have hne : stopsEarly inp = false := by simpa using hne
    obtain ⟨c3, need, hfin, hnp, hnh, hscales⟩ :=
      up_branch_of_unplaced swr sc inp hne hnn hfull h ha hskip hbig hsz hun hnc
    refine ⟨clamp inp.opt (tryScaleUp inp.opt c3.shards need), by rw [hscales]; simp, ?_⟩
    have hlen : c3.shards.length = inp.probes.length := by
      have := final_length' swr sc inp hne
      rw [hfin] at this; exact this
    have hall : nChangeable c3.shards = c3.shards.length := by
      have := final_all_changeable swr sc inp hne hsync
      rw [hfin] at this; exact this
    have := Coord.tryScaleUp_exceeds inp.opt c3.shards need hall hnp hnh hmp hmh
    apply Coord.clamp_exceeds
    · rw [← hlen]; exact this
    · exact hmax

/-- **C03 (progress of relief)**, the counterpart of the scale-up clause for an overloaded shard:
    all shards in sync, relief enabled, the cycle runs to its end without crashing, more shards are
    allowed.  If after `gcTargets` a shard is at or above the process-series trigger, its settled load
    (targets in normal state, healthy, scraped three times) exceeds the limit and none of its settled
    targets exceeds the limit alone, then the cycle starts a relief move (a placement of kind 1 is
    logged) or its last request asks for more shards than there are.  For every schedule and every
    `seriesWithRate`. -/
theorem C03_relief_progress (swr : Swr) (sc : Sched) (inp : Input)
    (hsync : ∀ p ∈ inp.probes, inSync p = true)
    (hmp : 0 < inp.opt.maxProc) (hmh : 0 ≤ inp.opt.maxHead)
    (hnn : ∀ k, 0 ≤ (globalOf (infos0 inp) inp.explore k).series ∧ 0 ≤ (globalOf (infos0 inp) inp.explore k).total)
    (hen : Gen.allevDisabled inp.opt = false)
    (hne : stopsEarly inp = false) (hnc : (cycle swr sc inp).crashed = false)
    (hmax : (inp.probes.length : Int) < inp.opt.maxShard)
    (i : Nat) (s : SI) (hs : (startCS inp).shards[i]? = some s) (hch : s.changeable = true)
    (htr : Gen.procTrigger swr inp.opt s.rt = true) (hnb : NB inp.opt (startCS inp) i)
    (hload : Gen.procExpect swr inp.opt < loadProc s) :
    (∃ pl ∈ (cycle swr sc inp).log, pl.kind = 1) ∨
    ∃ k, (cycle swr sc inp).scales.getLast? = some k ∧ (inp.probes.length : Int) < k :=
  relief_progress swr sc inp hsync hmp hmh hnn hen hne hnc hmax i s hs hch htr hnb hload

/-- **C03 (progress of relief, head series)**: the same for a shard over one of the head-series
    thresholds (110 %, 140 %, 160 %, 180 % of the limit) whose settled head load exceeds what the
    threshold expects and that holds no settled target exceeding the head limit alone: a relief move
    (process or head) is logged, or more shards than there are get requested. -/
theorem C03_relief_progress_head (swr : Swr) (sc : Sched) (inp : Input)
    (hsync : ∀ p ∈ inp.probes, inSync p = true)
    (hmp : 0 < inp.opt.maxProc) (hmh : 0 < inp.opt.maxHead)
    (hnn : ∀ k, 0 ≤ (globalOf (infos0 inp) inp.explore k).series ∧ 0 ≤ (globalOf (infos0 inp) inp.explore k).total)
    (hen : Gen.allevDisabled inp.opt = false)
    (hne : stopsEarly inp = false) (hnc : (cycle swr sc inp).crashed = false)
    (hmax : (inp.probes.length : Int) < inp.opt.maxShard)
    (i : Nat) (s : SI) (ex : Rate) (hs : (startCS inp).shards[i]? = some s) (hch : s.changeable = true)
    (htr : headThreshold swr inp.opt s.rt = some ex) (hnb : NBh inp.opt (startCS inp) i)
    (hload : Gen.headExpect swr inp.opt ex < loadHead s) :
    (∃ pl ∈ (cycle swr sc inp).log, pl.kind = 1 ∨ pl.kind = 2) ∨
    ∃ k, (cycle swr sc inp).scales.getLast? = some k ∧ (inp.probes.length : Int) < k :=
  relief_progress_head swr sc inp hsync hmp hmh hnn hen hne hnc hmax i s ex hs hch htr hnb hload

/-- **C03 (relief reaches its goal)**: for the shard it works on, `alleviateShardProcessSeries` —
    with any relief order, on any state in which the shard holds no settled target exceeding the
    limit alone — ends with space requested, or with the settled load that is left on the shard (the
    targets it does not hand over) at most the expected load.  The running total of the Go loop is
    exactly that settled load (`apLoop_total`): a moved target was counted with its total series and
    counts for nothing once it is in transfer. -/
theorem C03_relief_reaches_goal (o : Opt) (exp : Int) (order : List Hash) (c : CS) (i : Nat) (s : SI)
    (hs : c.shards[i]? = some s) (hnb : NB o c i) :
    0 < (allevProcShard o exp order c i).2 ∨
    ∃ s', (allevProcShard o exp order c i).1.shards[i]? = some s' ∧ loadProc s' ≤ exp :=
  allevProcShard_goal o exp order c i s hs hnb

/-- non-vacuity: shard 0 reports two settled targets of 60 series each (limit 100).  With an empty
    second shard one of them is moved; with a second shard that has no room a third shard is asked for -/
def exOver (other : List (Hash × St)) (rt : Int) : Input :=
  { opt := ⟨0, 100, 5, 0, false, false⟩, active := [1, 2, 3], explore := [],
    probes := [
      { ready := true, status := some [(1, ⟨.good, 60, 60, .normal, 5⟩), (2, ⟨.good, 60, 60, .normal, 5⟩)],
        rt1 := some (⟨120, 120, .none⟩, true), pushOk := true, rt2 := none, postOk := true },
      { ready := true, status := some other, rt1 := some (⟨rt, rt, .fresh⟩, true), pushOk := true, rt2 := none, postOk := true }] }

example : ((cycle (fun x r => x * r / 10) { allevProc := [[1, 2], []] } (exOver [] 0)).log.map (·.kind),
      (cycle (fun x r => x * r / 10) { allevProc := [[1, 2], []] } (exOver [] 0)).scales) = ([1], [2]) ∧
    ((cycle (fun x r => x * r / 10) { allevProc := [[1, 2], [3]] } (exOver [(3, ⟨.good, 90, 90, .normal, 5⟩)] 90)).log.map (·.kind),
      (cycle (fun x r => x * r / 10) { allevProc := [[1, 2], [3]] } (exOver [(3, ⟨.good, 90, 90, .normal, 5⟩)] 90)).scales) = ([], [3]) := by
  decide

example : Gen.procTrigger (fun x r => x * r / 10) (exOver [] 0).opt ⟨120, 120, .none⟩ = true ∧
    Gen.procExpect (fun x r => x * r / 10) (exOver [] 0).opt < 120 := by decide

/-- **C03 (progress of one cycle)**: all shards in sync, the cycle did not crash and more shards are
    allowed.  Then either the last requested shard count exceeds the current one, or *every*
    discovered, healthy, not too big target of non-zero size is planned on some shard after the
    cycle — nothing eligible is silently left out. -/
theorem C03_all_placed_or_scale_up (swr : Swr) (sc : Sched) (inp : Input)
    (hsync : ∀ p ∈ inp.probes, inSync p = true)
    (hmp : 0 < inp.opt.maxProc) (hmh : 0 ≤ inp.opt.maxHead)
    (hnn : ∀ k, 0 ≤ (globalOf (infos0 inp) inp.explore k).series ∧ 0 ≤ (globalOf (infos0 inp) inp.explore k).total)
    (hfull : ∀ k ∈ inp.active, k ∈ sc.assign)
    (hnc : (cycle swr sc inp).crashed = false)
    (hmax : (inp.probes.length : Int) < inp.opt.maxShard) :
    (∃ k, (cycle swr sc inp).scales.getLast? = some k ∧ (inp.probes.length : Int) < k) ∨
    (∀ h ∈ inp.active, Gen.assignSkip (globalOf (infos0 inp) inp.explore h) = false →
      Gen.tooBig inp.opt (globalOf (infos0 inp) inp.explore h) = false →
      0 < (globalOf (infos0 inp) inp.explore h).series + (globalOf (infos0 inp) inp.explore h).total →
      ∃ s ∈ (cycle swr sc inp).final, s.scraping.get h ≠ none) := by
  by_cases hup : ∃ k, (cycle swr sc inp).scales.getLast? = some k ∧ (inp.probes.length : Int) < k
  · exact Or.inl hup
  · right
    intro h ha hskip hbig hsz
    apply Classical.byContradiction
    intro hno
    apply hup
    apply C03_scaleUp swr sc inp hsync hmp hmh hnn hfull h ha hskip hbig hsz _ hnc hmax
    intro s hs
    cases hg : s.scraping.get h with
    | none => rfl
    | some v => exact absurd ⟨s, hs, by rw [hg]; simp⟩ hno

/-- non-vacuity: one in-sync shard filled to 90/100 head series, a healthy unscraped target of 30
    series: nothing fits, the cycle asks for 2 shards -/
def exampleFull : Input :=
  { opt := ⟨100, 1000, 4, 1, false, false⟩, active := [1, 2],
    explore := [(2, { health := .good, series := 30, total := 30 })],
    probes := [
      { ready := true, status := some [(1, { health := .good, series := 90, total := 90, times := 7 })],
        rt1 := some (⟨90, 90, .none⟩, true), pushOk := false, rt2 := none, postOk := true }] }

example : (cycle (fun x r => x * r / 10) { assign := [1, 2] } exampleFull).scales = [2] ∧
    (cycle (fun x r => x * r / 10) { assign := [1, 2] } exampleFull).crashed = false ∧
    ((cycle (fun x r => x * r / 10) { assign := [1, 2] } exampleFull).final.all fun s => !s.scraping.has 2) = true := by
  decide

/-! ### the garbage-collection decisions that drive convergence

  `gcTargets` visits every (shard, target) pair once and applies `gcDecide` / `gcReverts` to it.
  The three lemmas state what these decisions are for the three kinds of pending situation. -/

/-- a hand-over that both sides have scraped often enough is completed: the source's copy goes -/
theorem gc_transfer_completes (o : Opt) (active : List Hash) (ss : List SI) (i j : Nat) (s sj : SI) (h : Hash)
    (tar st : St) (hact : h ∈ active) (_hs : ss[i]? = some s) (hj : ss[j]? = some sj) (hij : j ≠ i)
    (hcj : sj.changeable = true) (hgj : sj.scraping.get h = some st)
    (ht : tar.state = .inTransfer) (hst : st.state = .normal) (h3 : 3 ≤ tar.times) (h3j : 3 ≤ st.times) :
    gcDecide o active ss i s h tar = true := by
  unfold gcDecide
  have hc : active.contains h = true := by simpa using hact
  have hy : Gen.gcYoung tar = false := by
    cases hh : Gen.gcYoung tar with
    | false => rfl
    | true => rw [Sites.gcYoung_iff] at hh; omega
  simp only [hc, hy, Bool.not_true, Bool.false_eq_true, if_false]
  unfold gcOtherTriggers
  rw [List.any_eq_true]
  refine ⟨(sj, j), List.mem_zipIdx_iff_getElem?.mpr hj, ?_⟩
  simp only [hcj, hgj, Bool.true_and]
  have h1 : (j != i) = true := by simpa using hij
  have h2 : Gen.gcOtherOk st = true := (Sites.gcOtherOk_iff st).mpr h3j
  have h4 : Gen.gcRule2 tar st = true := (Sites.gcRule2_iff tar st).mpr ⟨ht, hst⟩
  simp [h1, h2, h4]

/-- of two copies in the same state on two shards (both scraped often enough), the rule that
    compares the shards drops the copy of exactly one of them: nothing stays duplicated, nothing is
    dropped on both sides -/
theorem gc_dup_one_side (o : Opt) (si sj : SI) (i j : Nat) (hij : i ≠ j) :
    (Gen.gcLess o si.rt sj.rt i j = true ∧ Gen.gcLess o sj.rt si.rt j i = false) ∨
    (Gen.gcLess o si.rt sj.rt i j = false ∧ Gen.gcLess o sj.rt si.rt j i = true) :=
  Sites.gcLess_total o si.rt sj.rt i j hij

theorem gc_dup_resolved (o : Opt) (active : List Hash) (ss : List SI) (i j : Nat) (si sj : SI) (h : Hash)
    (vi vj : St) (hact : h ∈ active) (hi : ss[i]? = some si) (hj : ss[j]? = some sj) (hij : i ≠ j)
    (hci : si.changeable = true) (hcj : sj.changeable = true)
    (hgi : si.scraping.get h = some vi) (hgj : sj.scraping.get h = some vj)
    (hsame : vi.state = vj.state) (h3i : 3 ≤ vi.times) (h3j : 3 ≤ vj.times) :
    gcDecide o active ss i si h vi = true ∨ gcDecide o active ss j sj h vj = true := by
  have hc : active.contains h = true := by simpa using hact
  have young (v : St) (h3 : 3 ≤ v.times) : Gen.gcYoung v = false := by
    cases hh : Gen.gcYoung v with
    | false => rfl
    | true => rw [Sites.gcYoung_iff] at hh; omega
  have trig (a b : Nat) (sa sb : SI) (va vb : St) (hab : b ≠ a) (hb : ss[b]? = some sb) (hcb : sb.changeable = true)
      (hgb : sb.scraping.get h = some vb) (hs : va.state = vb.state) (h3b : 3 ≤ vb.times)
      (hl : Gen.gcLess o sa.rt sb.rt a b = true) : gcOtherTriggers o ss a sa va h = true := by
    unfold gcOtherTriggers
    rw [List.any_eq_true]
    refine ⟨(sb, b), List.mem_zipIdx_iff_getElem?.mpr hb, ?_⟩
    have h1 : (b != a) = true := by simpa using hab
    have h2 : Gen.gcOtherOk vb = true := (Sites.gcOtherOk_iff vb).mpr h3b
    have h4 : Gen.gcSame va vb = true := (Sites.gcSame_iff va vb).mpr hs
    simp [hcb, hgb, h1, h2, h4, hl]
  rcases gc_dup_one_side o si sj i j hij with ⟨hl, _⟩ | ⟨_, hl⟩
  · left
    unfold gcDecide
    simp only [hc, young vi h3i, Bool.not_true, Bool.false_eq_true, if_false]
    exact trig i j si sj vi vj (Ne.symm hij) hj hcj hgj hsame h3j hl
  · right
    unfold gcDecide
    simp only [hc, young vj h3j, Bool.not_true, Bool.false_eq_true, if_false]
    exact trig j i sj si vj vi hij hi hci hgi hsame.symm h3i hl

/-- a copy in transfer that no other in-sync shard knows is kept and goes back to normal state -/
theorem gc_revert (o : Opt) (active : List Hash) (ss : List SI) (i : Nat) (s : SI) (h : Hash) (tar : St)
    (hact : h ∈ active) (ht : tar.state = .inTransfer) (h3 : 3 ≤ tar.times)
    (halone : ∀ (j : Nat) (sj : SI), ss[j]? = some sj → j ≠ i → sj.changeable = true → sj.scraping.get h = none) :
    gcDecide o active ss i s h tar = false ∧ gcReverts active ss i h tar = true ∧
    (revertSt tar).state = .normal := by
  have hc : active.contains h = true := by simpa using hact
  have hy : Gen.gcYoung tar = false := by
    cases hh : Gen.gcYoung tar with
    | false => rfl
    | true => rw [Sites.gcYoung_iff] at hh; omega
  refine ⟨?_, ?_, rfl⟩
  · unfold gcDecide
    simp only [hc, hy, Bool.not_true, Bool.false_eq_true, if_false]
    unfold gcOtherTriggers
    rw [List.any_eq_false]
    intro ⟨os, j⟩ hm
    rw [List.mem_zipIdx_iff_getElem?] at hm
    simp only at hm ⊢
    by_cases hji : j = i
    · subst hji; simp
    · cases hch : os.changeable with
      | false => simp
      | true => simp [halone j os hm hji hch]
  · unfold gcReverts
    have hheld : gcHeldElsewhere ss i h = false := by
      unfold gcHeldElsewhere
      rw [List.any_eq_false]
      intro ⟨os, j⟩ hm
      rw [List.mem_zipIdx_iff_getElem?] at hm
      simp only at hm ⊢
      by_cases hji : j = i
      · subst hji; simp
      · cases hch : os.changeable with
        | false => simp
        | true =>
          have hn := halone j os hm hji hch
          have : os.scraping.has h = false := by
            cases hh : os.scraping.has h with
            | false => rfl
            | true => obtain ⟨v, hv⟩ := (AL.has_iff _ _).mp hh; rw [hn] at hv; cases hv
          simp [this, Gen.gcHeld]
    simp [hact, hy, hheld, Gen.gcRevert, ht]

/-! ### `gcTargets` as a whole (both loops), for reports with distinct keys per shard

  `entry ss i h` is the entry shard `i` holds for `h`; `gc o active ss0` is the state after
  `gcTargets` (the ghost field `afterGc` of a cycle's outcome). -/

/-- a hand-over that both sides have scraped three times is completed by one pass of `gcTargets`:
    the source's copy is gone, the destination's is untouched -/
theorem C03_gc_handover_completes (o : Opt) (active : List Hash) (ss0 : List SI) (i j : Nat) (si sj : SI) (h : Hash) (vi vj : St)
    (hnd0 : ∀ (k : Nat) (s : SI), ss0[k]? = some s → s.scraping.keys.Nodup)
    (hact : h ∈ active) (hij : i ≠ j)
    (hi : ss0[i]? = some si) (hci : si.changeable = true) (hgi : si.scraping.get h = some vi)
    (hsti : vi.state = .inTransfer) (h3i : 3 ≤ vi.times)
    (hj : ss0[j]? = some sj) (hcj : sj.changeable = true) (hgj : sj.scraping.get h = some vj)
    (hstj : vj.state = .normal) (h3j : 3 ≤ vj.times)
    (hothers : ∀ (k : Nat) (sk : SI), ss0[k]? = some sk → k ≠ i → k ≠ j → sk.changeable = true → sk.scraping.get h = none) :
    entry (gc o active ss0) i h = none ∧ entry (gc o active ss0) j h = some vj :=
  gc_handover_completes o active ss0 i j si sj h vi vj hnd0 hact hij hi hci hgi hsti h3i hj hcj hgj hstj h3j hothers

/-- a target held twice in normal state (both scraped three times) is dropped on exactly one side,
    whatever the loads: on `i` iff `j` is lighter in the configured dimension or equally loaded and
    earlier — else on `j`; the copy that stays is untouched -/
theorem C03_gc_duplicate_resolved (o : Opt) (active : List Hash) (ss0 : List SI) (i j : Nat) (si sj : SI) (h : Hash) (vi vj : St)
    (hnd0 : ∀ (k : Nat) (s : SI), ss0[k]? = some s → s.scraping.keys.Nodup)
    (hact : h ∈ active) (hij : i < j)
    (hi : ss0[i]? = some si) (hci : si.changeable = true) (hgi : si.scraping.get h = some vi)
    (hsti : vi.state = .normal) (h3i : 3 ≤ vi.times)
    (hj : ss0[j]? = some sj) (hcj : sj.changeable = true) (hgj : sj.scraping.get h = some vj)
    (hstj : vj.state = .normal) (h3j : 3 ≤ vj.times)
    (hothers : ∀ (k : Nat) (sk : SI), ss0[k]? = some sk → k ≠ i → k ≠ j → sk.changeable = true → sk.scraping.get h = none) :
    (Gen.gcLess o si.rt sj.rt i j = true → entry (gc o active ss0) i h = none ∧ entry (gc o active ss0) j h = some vj) ∧
    (Gen.gcLess o si.rt sj.rt i j = false → entry (gc o active ss0) i h = some vi ∧ entry (gc o active ss0) j h = none) :=
  gc_duplicate_resolved o active ss0 i j si sj h vi vj hnd0 hact hij hi hci hgi hsti h3i hj hcj hgj hstj h3j hothers

/-- a copy in transfer (scraped three times) that no other in-sync shard knows is back in normal
    state after one pass of `gcTargets` -/
theorem C03_gc_lonely_reverts (o : Opt) (active : List Hash) (ss0 : List SI) (i : Nat) (si : SI) (h : Hash) (vi : St)
    (hnd0 : ∀ (k : Nat) (s : SI), ss0[k]? = some s → s.scraping.keys.Nodup)
    (hact : h ∈ active) (hi : ss0[i]? = some si) (hci : si.changeable = true) (hgi : si.scraping.get h = some vi)
    (hst : vi.state = .inTransfer) (h3 : 3 ≤ vi.times)
    (halone : ∀ (k : Nat) (sk : SI), ss0[k]? = some sk → k ≠ i → sk.changeable = true → sk.scraping.get h = none) :
    entry (gc o active ss0) i h = some (revertSt vi) ∧ (revertSt vi).state = .normal :=
  ⟨gc_lonely_reverts o active ss0 i si h vi hnd0 hact hi hci hgi hst h3 halone, rfl⟩

/-- the state `gcTargets` leaves is the one the later stages of a (full) cycle start from; it is
    recorded in the ghost field `afterGc` -/
theorem afterGc_eq (swr : Swr) (sc : Sched) (inp : Input) (hne : stopsEarly inp = false) :
    (cycle swr sc inp).afterGc = gc inp.opt inp.active (infos0 inp) := by
  rw [cycle_eq_finish swr sc inp hne]
  generalize gc inp.opt inp.active (infos0 inp) = ss1
  generalize (assign inp.opt inp.active (globalOf (infos0 inp) inp.explore) sc (alleviate swr inp.opt sc (startCS inp)).1) = r3
  generalize spaceAdd (alleviate swr inp.opt sc (startCS inp)).2 r3.2.2 = need
  unfold finish
  simp only
  split
  · rfl
  · generalize (if Gen.needUp (Gen.spaceIsZero need) = true then (tryScaleUp inp.opt r3.1.shards need, r3.1)
        else if Gen.scaleDownOn inp.opt = true then tryScaleDown inp.opt sc r3.1 r3.2.1
        else (Gen.scaleInit (r3.1.shards.length : Int) (nChangeable r3.1.shards), r3.1)) = r
    split <;> rfl

/-! ### the closed loop (`Loop.step`): coordinator + sidecars + StatefulSet -/

/-- **C03 (stability, closed loop)**: one fault-free cycle from a quiet state leaves the
    StatefulSet's size, the discovered set and every sidecar's statuses and idle time unchanged -/
theorem C03_stable_world (swr : Swr) (env : Loop.Env) (w : Loop.World) (sc : Sched)
    (hq : Quiet swr (Loop.inputOf env w [] false)) (hrep : w.replicas ≤ w.shards.length)
    (hidle : ∀ sh ∈ w.running, sh.sc.status = [] → sh.sc.idleAt.isSome = true) :
    Loop.Unchanged w (Loop.cycleStep swr env w sc [] false).1 := by
  obtain ⟨r1, r2, r3, r4, r5⟩ := Loop.loop_stable swr env w sc hq hrep hidle
  exact ⟨r1, r2, r3, r4, r5⟩

/-- **C03 ("further cycles then change nothing")**: from a quiet state, with scale-down switched
    off, any number of fault-free cycles with arbitrary schedules changes nothing -/
theorem C03_further_cycles (swr : Swr) (env : Loop.Env) (hoff : env.opt.idleOn = false)
    (scs : List Sched) (w : Loop.World) (hq : Quiet swr (Loop.inputOf env w [] false))
    (hrep : w.replicas ≤ w.shards.length)
    (hidle : ∀ sh ∈ w.running, sh.sc.status = [] → sh.sc.idleAt.isSome = true) :
    Loop.Unchanged w (Loop.cycles swr env w scs) :=
  Loop.loop_stable_n swr env hoff scs w hq hrep hidle

/-- **exactly one shard in normal state**: a whole cycle never creates a second normal-state copy —
    if after `gcTargets` at most one in-sync shard holds `h` in normal state (which `gcTargets`
    itself establishes for a duplicate, `C03_gc_duplicate_resolved`), the same is true of the final
    plan, for every schedule -/
theorem C03_unique_normal (swr : Swr) (sc : Sched) (inp : Input) (h : Hash) (hne : stopsEarly inp = false)
    (h0 : OneNormalAt h (startCS inp)) : OneNormalAt h (cycle swr sc inp).cs :=
  cycle_oneNormal swr sc inp h hne h0

/-- **C03, convergence from a settled state, in one cycle** (closed-loop model): whatever initial
    placement of moves and duplicates — a target reported by two running sidecars once in transfer and
    once in normal state, or twice in normal state, or in transfer with no partner; three scrapes each;
    no overload, every discovered target held, scale-down off — after ONE fault-free `Loop.step` every
    reported target is in normal state, no target is reported twice, nothing that was reported is lost,
    and the StatefulSet has its size. -/
theorem C03_converges_from_settled (swr : Swr) (env : Loop.Env) (w : Loop.World) (sc : Sched)
    (r : Loop.Settled2 swr env w) :
    (Loop.step swr env w (.cycle sc [] false)).replicas = w.replicas ∧
    (∀ (i : Nat) (sh' : Loop.Shard) (h : Hash) (v : St), i < w.replicas →
      (Loop.step swr env w (.cycle sc [] false)).shards[i]? = some sh' →
      (Loop.statusOf sh').get h = some v → v.state = .normal) ∧
    (∀ (i j : Nat) (shi shj : Loop.Shard) (h : Hash), i < w.replicas → j < w.replicas → i ≠ j →
      (Loop.step swr env w (.cycle sc [] false)).shards[i]? = some shi →
      (Loop.step swr env w (.cycle sc [] false)).shards[j]? = some shj →
      (Loop.statusOf shi).has h = true → (Loop.statusOf shj).has h = true → False) ∧
    (∀ (i : Nat) (sh : Loop.Shard) (h : Hash), w.running[i]? = some sh → (Loop.statusOf sh).has h = true →
      ∃ (d : Nat) (shd : Loop.Shard), d < w.replicas ∧
        (Loop.step swr env w (.cycle sc [] false)).shards[d]? = some shd ∧ (Loop.statusOf shd).has h = true) :=
  Loop.loop_settles2_converged swr env w sc r

/-- … **and further cycles then change nothing** (when the state reached is calm and fully placed) -/
theorem C03_converged_then_stable (swr : Swr) (env : Loop.Env) (w : Loop.World) (sc : Sched)
    (r : Loop.Settled2 swr env w)
    (hidle : ∀ sh ∈ w.running, sh.sc.status = [] → sh.sc.idleAt.isSome = true)
    (hcalm' : env.opt.disableAlleviate = true ∨
      CalmSS swr env.opt (infos0 (Loop.inputOf env (Loop.step swr env w (.cycle sc [] false)) [] false)))
    (hplaced' : ∀ h ∈ w.active,
      (scrapingSetOf (infos0 (Loop.inputOf env (Loop.step swr env w (.cycle sc [] false)) [] false))).contains h = true ∨
      Gen.assignSkip (globalOf (infos0 (Loop.inputOf env (Loop.step swr env w (.cycle sc [] false)) [] false)) w.explore h) = true ∨
      Gen.tooBig env.opt (globalOf (infos0 (Loop.inputOf env (Loop.step swr env w (.cycle sc [] false)) [] false)) w.explore h) = true) :
    ∀ scs : List Sched,
      Loop.Unchanged (Loop.step swr env w (.cycle sc [] false))
        (Loop.cycles swr env (Loop.step swr env w (.cycle sc [] false)) scs) :=
  Loop.loop_recovers_and_stays swr env w sc r hidle hcalm' hplaced'

end Kvass.Props.C03
