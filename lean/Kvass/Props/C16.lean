/-
  C16 — the configuration hash tells apart exactly the configurations that differ.
  Theorems about the model of hashstructure (`HS.hs`), which the `cfghash` engine compares bit for
  bit with the real ConfigHash on every run.
-/
import Kvass.Pins.Cfg
import Kvass.Pins.Coord
import Kvass.Pins.Sidecar
import Kvass.Model.HStruct

namespace Kvass.Props.C16
open Kvass Kvass.HS Kvass.HashM

/-! ### unexported fields are invisible -/

/-- same field list up to the values of unexported (or ignored) fields -/
def SameVisible : FL → FL → Prop
  | .nil, .nil => True
  | .cons n e t v fs, .cons n' e' t' v' fs' =>
    n = n' ∧ e = e' ∧ t = t' ∧ ((e = true ∧ t ≠ .ignore) → v = v') ∧ SameVisible fs fs'
  | _, _ => False

theorem hsFields_blind : ∀ (fs fs' : FL) (h : UInt64), SameVisible fs fs' → hsFields fs h = hsFields fs' h
  | .nil, .nil, _, _ => rfl
  | .cons n e t v fs, .cons n' e' t' v' fs', h, hv => by
    obtain ⟨rfl, rfl, rfl, hval, hrest⟩ := hv
    unfold hsFields
    by_cases hc : (!e || t == .ignore) = true
    · simp only [hc, if_true]; exact hsFields_blind fs fs' h hrest
    · simp only [hc]
      have : v = v' := hval (by
        simp only [Bool.or_eq_true, Bool.not_eq_true', beq_iff_eq, not_or] at hc
        exact ⟨by cases e <;> simp_all, hc.2⟩)
      subst this
      exact hsFields_blind fs fs' _ hrest
  | .nil, .cons .., _, hv => by cases hv
  | .cons .., .nil, _, hv => by cases hv

/-- **C16 (blind spot of the struct walk)**: the struct hash does not depend on the value of any
    unexported field.  In particular two `relabel.Regexp` values (an embedded `*regexp.Regexp`, all of
    whose fields are unexported, and the unexported `original` string) always hash alike — which is why
    kvass additionally hashes the rendered configuration. -/
theorem C16_blind (name : Bytes) (fs fs' : FL) (hv : SameVisible fs fs') :
    hs (.struct name fs) = hs (.struct name fs') := by
  unfold hs hsV; exact hsFields_blind fs fs' _ hv

def AllUnexported : FL → Prop
  | .nil => True
  | .cons _ e _ _ fs => e = false ∧ AllUnexported fs

theorem hsFields_allUnexported : ∀ (fs : FL) (h : UInt64), AllUnexported fs → hsFields fs h = h
  | .nil, _, _ => rfl
  | .cons n e t v fs, h, hu => by
    obtain ⟨rfl, hrest⟩ := hu
    unfold hsFields
    simp only [Bool.not_false, Bool.true_or, if_true]
    exact hsFields_allUnexported fs h hrest

/-- the reflected shape of `relabel.Regexp` -/
def regexpV (inner : FL) (original : V) : V :=
  .struct (bytesOf "Regexp")
    (.cons (bytesOf "Regexp") true .none (.struct (bytesOf "Regexp") inner)
      (.cons (bytesOf "original") false .none original .nil))

theorem C16_regex_invisible (inner inner' : FL) (o o' : V)
    (h1 : AllUnexported inner) (h2 : AllUnexported inner') :
    hs (regexpV inner o) = hs (regexpV inner' o') := by
  unfold regexpV hs
  simp only [hsV, hsFields, Bool.not_true, Bool.false_or, Bool.not_false, Bool.true_or, if_true]
  rw [hsFields_allUnexported inner _ h1, hsFields_allUnexported inner' _ h2]

/-! ### map iteration order -/

def entryHashes : KVL → List UInt64
  | .nil => []
  | .cons k v t => ordered (hsV false k) (hsV false v) :: entryHashes t

theorem hsMap_fold : ∀ (kvs : KVL) (h : UInt64), hsMap kvs h = (entryHashes kvs).foldl (· ^^^ ·) h
  | .nil, _ => rfl
  | .cons k v t, h => by unfold hsMap entryHashes; simp only [List.foldl_cons]; exact hsMap_fold t _

theorem xor_fold_perm {l l' : List UInt64} (hp : l.Perm l') (h : UInt64) :
    l.foldl (· ^^^ ·) h = l'.foldl (· ^^^ ·) h := by
  induction hp generalizing h with
  | nil => rfl
  | cons x _ ih => simp only [List.foldl_cons]; exact ih _
  | swap x y l =>
    simp only [List.foldl_cons]
    congr 1
    rw [UInt64.xor_assoc, UInt64.xor_comm y x, ← UInt64.xor_assoc]
  | trans _ _ ih1 ih2 => rw [ih1, ih2]

/-- **C16 (map order)**: the hash of a map does not depend on the order its entries are visited in -/
theorem C16_map_order (kvs kvs' : KVL) (hp : (entryHashes kvs).Perm (entryHashes kvs')) :
    hs (.map kvs) = hs (.map kvs') := by
  unfold hs hsV
  rw [hsMap_fold, hsMap_fold, xor_fold_perm hp]

/-! ### external labels -/

/-- replace the value of every field called `f` -/
def repl (f : Bytes) (nv : V) (fs : FL) : FL := fs.map fun name _ _ v => if name == f then nv else v

theorem setField_struct (f : Bytes) (nv : V) (n : Bytes) (fs : FL) :
    setField f nv (.struct n fs) = .struct n (repl f nv fs) := rfl

theorem getField_struct (f : Bytes) (n : Bytes) (fs : FL) :
    getField f (.struct n fs) = (fs.find f).getD .nil := rfl

theorem find_repl (f : Bytes) (nv : V) : ∀ (fs : FL), (repl f nv fs).find f = (fs.find f).map fun _ => nv
  | .nil => rfl
  | .cons n e t v fs => by
    simp only [repl, FL.map, FL.find]
    by_cases hn : (n == f) = true
    · simp [hn]
    · simp only [hn]; exact find_repl f nv fs

theorem repl_repl (f : Bytes) (a b : V) : ∀ (fs : FL), repl f a (repl f b fs) = repl f a fs
  | .nil => rfl
  | .cons n e t v fs => by
    simp only [repl, FL.map]
    have ih := repl_repl f a b fs
    simp only [repl] at ih
    rw [ih]
    by_cases hn : (n == f) = true <;> simp [hn]

theorem repl_absent (f : Bytes) (a : V) : ∀ (fs : FL), fs.find f = none → repl f a fs = fs
  | .nil, _ => rfl
  | .cons n e t v fs, h => by
    simp only [FL.find] at h
    by_cases hn : (n == f) = true
    · simp [hn] at h
    · simp only [hn] at h
      simp only [repl, FL.map, hn]
      have ih := repl_absent f a fs h
      simp only [repl] at ih
      rw [ih]; rfl

/-- the same configuration with other external labels -/
def withExt (x : V) (cfg : V) : V :=
  setField (bytesOf "GlobalConfig") (setField (bytesOf "ExternalLabels") x (getField (bytesOf "GlobalConfig") cfg)) cfg

theorem setField_setField (f : Bytes) (a b : V) (v : V) : setField f a (setField f b v) = setField f a v := by
  cases v <;> simp only [setField]
  have := repl_repl f a b ‹FL›
  simp only [repl] at this
  rw [this]

/-- **C16 (external labels)**: the configuration hash does not depend on the external labels
    (given that the rendered text is taken, as the code does, after blanking them). -/
theorem C16_extlabels (n : Bytes) (fs : FL) (x : V) (text : Bytes) :
    configHash (withExt x (.struct n fs)) text = configHash (.struct n fs) text := by
  unfold configHash
  have : blankExt (withExt x (.struct n fs)) = blankExt (.struct n fs) := by
    unfold blankExt withExt
    rw [getField_struct, setField_struct, setField_struct, getField_struct, setField_struct, repl_repl, find_repl]
    cases hf : fs.find (bytesOf "GlobalConfig") with
    | none =>
      simp only [Option.map_none, Option.getD_none]
    | some g =>
      simp only [Option.map_some, Option.getD_some, setField_setField]
  rw [this]

/-- non-vacuity: known answer of the hashstructure model for `struct{A int}{7}`-like trees, and
    a regex pair that differs only in unexported data -/
example : hs (regexpV (.cons (bytesOf "expr") false .none (.str (bytesOf "a.*")) .nil) (.str (bytesOf "a.*"))) =
    hs (regexpV (.cons (bytesOf "expr") false .none (.str (bytesOf "b+")) .nil) (.str (bytesOf "b+"))) :=
  C16_regex_invisible _ _ _ _ ⟨rfl, trivial⟩ ⟨rfl, trivial⟩

end Kvass.Props.C16
