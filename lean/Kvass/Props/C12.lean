/-
  C12 — the proxy hands Prometheus exactly the bytes the target served.
-/
import Kvass.Pins.Proxy
import Kvass.Spec.Proxy

namespace Kvass.Props.C12
open Kvass Kvass.Proxy Kvass.Spec.Px

theorem readerLoop_iff (a n : Nat) : Gen.Proxy.readerLoop a n = true ↔ a < n := by simp [Gen.Proxy.readerLoop]
theorem readerAdvance_eq (a b : Nat) : Gen.Proxy.readerAdvance a b = a + b := rfl
theorem readerWriteFails_iff (b : Bool) : Gen.Proxy.readerWriteFails b = true ↔ b = false := by
  simp [Gen.Proxy.readerWriteFails]
theorem readerSlice_eq : Gen.Proxy.readerSlice = "p[wTotal:n]" := rfl

/-- the short-write loop delivers exactly the unwritten part of the buffer, whatever sequence of
    (non-zero) short writes the writer makes -/
theorem writeLoop_all (f : Nat) (sc : List Nat) (p : Bytes) (w : Nat) (out : Bytes)
    (hsc : ∀ k ∈ sc, k ≠ 0) (hf : p.length - w < f) (hw : w ≤ p.length) :
    ∃ sc', writeLoop f sc p w out = (out ++ p.drop w, sc', true) ∧ (∀ k ∈ sc', k ≠ 0) := by
  induction f generalizing sc w out with
  | zero => omega
  | succ f ih =>
    unfold writeLoop
    by_cases hlt : w < p.length
    · rw [if_pos ((readerLoop_iff _ _).mpr hlt)]
      cases sc with
      | nil => exact ⟨[], rfl, by simp⟩
      | cons k sc' =>
        have hk : k ≠ 0 := hsc k List.mem_cons_self
        have hnf : Gen.Proxy.readerWriteFails (k != 0) = false := by
          simp [Gen.Proxy.readerWriteFails, hk]
        simp only [hnf, Bool.false_eq_true, if_false, readerAdvance_eq]
        have hmin : 0 < min k (p.length - w) := by
          have : 0 < k := Nat.pos_of_ne_zero hk
          omega
        obtain ⟨sc'', h1, h2⟩ := ih sc' (w + min k (p.length - w)) (out ++ (p.drop w).take (min k (p.length - w)))
          (fun k' hk' => hsc k' (List.mem_cons_of_mem _ hk')) (by omega) (by omega)
        refine ⟨sc'', ?_, h2⟩
        rw [h1]
        congr 1
        rw [List.append_assoc]
        congr 1
        have : p.drop (w + min k (p.length - w)) = (p.drop w).drop (min k (p.length - w)) := by
          rw [List.drop_drop]
        rw [this, List.take_append_drop]
    · have : w = p.length := by omega
      rw [if_neg (fun h => hlt ((readerLoop_iff _ _).mp h))]
      subst this
      exact ⟨sc, by simp, hsc⟩

/-- **C12 (tee)**: for every split of the body into read chunks and every sequence of short
    writes, the writer receives exactly the bytes of the body, in order, and so does the parser. -/
theorem C12_tee (cs : List Chunk) (sc : List Nat) (r : TeeResult)
    (hsc : ∀ k ∈ sc, k ≠ 0) (hcs : ∀ c ∈ cs, c.err = false) :
    tee cs sc r = ⟨r.forwarded ++ bodyOf cs, r.seen ++ bodyOf cs, r.ok⟩ := by
  induction cs generalizing sc r with
  | nil => simp [tee, bodyOf]
  | cons c cs ih =>
    unfold tee
    obtain ⟨sc', h1, h2⟩ := writeLoop_all (c.data.length + 1) sc c.data 0 r.forwarded hsc (by omega) (by omega)
    rw [h1]
    simp only [List.drop_zero, Bool.not_true, Bool.false_or, hcs c List.mem_cons_self, Bool.false_eq_true, if_false]
    rw [ih sc' _ h2 (fun c' hc' => hcs c' (List.mem_cons_of_mem _ hc'))]
    simp [bodyOf, List.append_assoc]

/-- **C12 (proxy)**: in every successful scrape Prometheus receives status 200 and byte for byte the
    target's (decompressed) body, whatever the chunking, and whether or not the target is assigned. -/
theorem C12_exact (s : Scenario) : C12.exact s (serve s).1 = true := by
  unfold C12.exact
  cases hs : succeeds s with
  | false => rfl
  | true =>
    simp only [Bool.not_true, Bool.false_or]
    unfold succeeds at hs
    simp only [Bool.and_eq_true, Bool.not_eq_true', beq_iff_eq, List.all_eq_true] at hs
    obtain ⟨⟨⟨⟨⟨hj, hh⟩, hst⟩, hrf⟩, hc⟩, hch⟩ := hs
    have hch' : ∀ c ∈ s.chunks, c.err = false := fun c hc => by simpa using hch c hc
    have ht := C12_tee s.chunks [] ⟨[], [], true⟩ (by simp) hch'
    unfold serve
    simp only [Gen.Proxy.noJob, hj, hh, hst, hrf, hc, Gen.Proxy.badStatus, Gen.Proxy.teeOn, ht,
      Gen.Proxy.deferFailed, Gen.Proxy.deferStopped, Gen.Proxy.aborts, Bool.not_true, Bool.not_false,
      Bool.false_eq_true, if_false, if_true, Bool.or_self, decide_true, List.nil_append, Bool.false_and]
    cases hb : bodyOf s.chunks with
    | nil => simp [Resp.finish]
    | cons x xs => simp [Resp.write, Resp.finish]

example : (tee [⟨[1, 2, 3], false⟩, ⟨[4], false⟩] [1, 5, 1] ⟨[], [], true⟩).forwarded = [1, 2, 3, 4] := by decide

end Kvass.Props.C12
