/-
  C11 — the generated Prometheus config keeps everything except where targets come from.
-/
import Kvass.Pins.Inject
import Kvass.Pins.Cfg
import Kvass.Model.Inject
import Kvass.Proofs.AL

namespace Kvass.Props.C11
open Kvass Kvass.Inject

/-- the fields the injector overwrites in every job, and the fact that it does so unconditionally
    apart from the proxy URL (two `if`s: proxy set? / URL parse error) — extracted from the source -/
theorem injected_fields :
    assignedFields = ["job.HTTPClientConfig.ProxyURL", "job.ServiceDiscoveryConfigs", "job.Scheme",
      "job.HTTPClientConfig.BearerToken", "job.HTTPClientConfig.BasicAuth", "job.HTTPClientConfig.TLSConfig",
      "job.RelabelConfigs"] ∧ Gen.Inject.jobAssignsIfs = 2 := ⟨rfl, rfl⟩

theorem routing_params : Gen.Inject.paramJobName = "\"_jobName\"" ∧ Gen.Inject.paramHash = "\"_hash\"" ∧
    Gen.Inject.paramScheme = "\"_scheme\"" := ⟨rfl, rfl, rfl⟩

/-- the values they are set to -/
theorem injected_values : (Gen.Inject.jobAssigns.map (·.2)).drop 2 =
    ["\"http\"", "\"\"", "nil", "config_util.TLSConfig{}",
     "[]*relabel.Config{ { Separator: \";\", Regex: relabel.MustNewR"] := rfl

/-- **C11 (jobs)**: for every configuration and assignment the generated jobs are the same jobs in
    the same order; each discovers exactly its assigned targets through static entries carrying the
    routing parameters, over plain http, without basic-auth, bearer token or TLS settings, with every
    ingestion-relevant setting unchanged; only the optional self-monitoring job is added. -/
theorem C11_jobs (o : Inject.Opt) (assign : AL (List (Hash × Nat))) (jobs : List Job) :
    let out := inject o assign jobs
    (out.take jobs.length).map (·.name) = jobs.map (·.name) ∧
    (∀ (i : Nat) (j : Job), jobs[i]? = some j → ∃ j' : Job, out[i]? = some j' ∧
        j'.name = j.name ∧ j'.ingest = j.ingest ∧ j'.scheme = 0 ∧ j'.sd = [] ∧
        j'.static = ((assign.get j.name).getD []).map (fun (h, sch) => (h, sch, j.name)) ∧
        j'.basicAuth = none ∧ j'.bearer = none ∧ j'.tls = none ∧ j'.otherAuth = j.otherAuth ∧
        (o.proxyURL.isSome → j'.proxy = o.proxyURL)) ∧
    out.drop jobs.length = (if o.selfMonitor then [selfJob] else []) := by
  simp only [inject]
  refine ⟨?_, ?_, ?_⟩
  · simp [List.take_append_of_le_length, List.map_map, Function.comp_def, rewrite]
  · intro i j hj
    refine ⟨rewrite o ((assign.get j.name).getD []) j, ?_, rfl, rfl, rfl, rfl, rfl, rfl, rfl, rfl, rfl, ?_⟩
    · have : i < jobs.length := by
        rcases Nat.lt_or_ge i jobs.length with h | h
        · exact h
        · rw [List.getElem?_eq_none h] at hj; cases hj
      rw [List.getElem?_append_left (by simpa using this), List.getElem?_map, hj]; rfl
    · intro hp
      cases hpu : o.proxyURL with
      | none => rw [hpu] at hp; cases hp
      | some u => simp [rewrite, hpu]
  · cases o.selfMonitor <;> simp [Gen.Inject.selfMonitorOff]

/-! ### sections outside `scrape_configs` -/

def preserved (k : Nat) : Bool := k == 0 || k == 1 || k == 2

theorem skipped_iff (k : Nat) : Gen.Inject.sectionSkipped k = !preserved k := by
  unfold Gen.Inject.sectionSkipped preserved
  simp [bne, Bool.not_or]

theorem putSection_keys (key val : Nat) (out : Doc) : (putSection key val out).map (·.1) = out.map (·.1) := by
  unfold putSection
  induction out with
  | nil => rfl
  | cons x r ih =>
    simp only [List.map_cons, ih]
    split <;> rfl

theorem copySections_keys (raw out : Doc) : (copySections raw out).map (·.1) = out.map (·.1) := by
  unfold copySections
  induction raw generalizing out with
  | nil => rfl
  | cons x r ih =>
    simp only [List.foldl_cons]
    split
    · exact ih _
    · rw [ih, putSection_keys]

/-- what one position of the output holds after the copy: the last original value under its key if
    the key is one of the preserved sections and occurs in the original, its own value otherwise -/
def fvStep (k : Nat) (acc : Nat) (x : Nat × Nat) : Nat := if preserved x.1 && (k == x.1) then x.2 else acc
def finalVal (raw : Doc) (k v : Nat) : Nat := raw.foldl (fvStep k) v

theorem copySections_eq (raw out : Doc) :
    copySections raw out = out.map (fun x => (x.1, finalVal raw x.1 x.2)) := by
  unfold copySections
  induction raw generalizing out with
  | nil => simp [finalVal]
  | cons x r ih =>
    obtain ⟨rk, rv⟩ := x
    simp only [List.foldl_cons]
    by_cases hs : Gen.Inject.sectionSkipped rk = true
    · rw [if_pos hs, ih]
      have hp : preserved rk = false := by rw [skipped_iff] at hs; simpa using hs
      apply List.map_congr_left
      intro y _
      simp [finalVal, fvStep, hp]
    · rw [if_neg hs, ih]
      have hp : preserved rk = true := by rw [skipped_iff] at hs; simpa using hs
      unfold putSection
      rw [List.map_map]
      apply List.map_congr_left
      intro y _
      obtain ⟨k, v⟩ := y
      simp only [Function.comp, Gen.Inject.sectionMatches, finalVal, List.foldl_cons, fvStep, hp, Bool.true_and]
      by_cases hk : k = rk
      · subst hk; simp
      · have : (k == rk) = false := by simpa using hk
        simp [this]

theorem finalVal_not_preserved (raw : Doc) (k v : Nat) (h : preserved k = false) : finalVal raw k v = v := by
  unfold finalVal
  induction raw generalizing v with
  | nil => rfl
  | cons x r ih =>
    simp only [List.foldl_cons]
    have : fvStep k v x = v := by
      unfold fvStep
      by_cases hk : k = x.1
      · rw [← hk, h]; simp
      · have : (k == x.1) = false := by simpa using hk
        simp [this]
    rw [this]; exact ih v

theorem finalVal_absent (raw : Doc) (k v : Nat) (h : ∀ x ∈ raw, x.1 ≠ k) : finalVal raw k v = v := by
  unfold finalVal
  induction raw generalizing v with
  | nil => rfl
  | cons x r ih =>
    simp only [List.foldl_cons]
    have hk : (k == x.1) = false := by
      have := h x (by simp)
      simpa using fun e : k = x.1 => this e.symm
    have : fvStep k v x = v := by simp [fvStep, hk]
    rw [this]
    exact ih v (fun y hy => h y (by simp [hy]))

theorem finalVal_present (raw : Doc) (k v w : Nat) (hp : preserved k = true)
    (hmem : (k, w) ∈ raw) (huniq : (raw.map (·.1)).Nodup) : finalVal raw k v = w := by
  unfold finalVal
  induction raw generalizing v with
  | nil => cases hmem
  | cons x r ih =>
    simp only [List.map_cons, List.nodup_cons] at huniq
    simp only [List.foldl_cons]
    rcases List.mem_cons.mp hmem with heq | hin
    · subst heq
      have : fvStep k v (k, w) = w := by simp [fvStep, hp]
      rw [this]
      exact finalVal_absent r k w (fun y hy e => huniq.1 (by
        show k ∈ r.map (·.1)
        rw [← e]; exact List.mem_map_of_mem hy))
    · have hne : (k == x.1) = false := by
        have : x.1 ≠ k := fun e => huniq.1 (by rw [e]; exact List.mem_map_of_mem (f := (·.1)) hin)
        simpa using fun e : k = x.1 => this e.symm
      have : fvStep k v x = v := by simp [fvStep, hne]
      rw [this]
      exact ih v hin huniq.2

/-- **C11 (sections)**: whatever the marshalled text holds (masked secrets, reordered or re-rendered
    values), after `marshal` the document has the same sections in the same order; `alerting`,
    `remote_write` and `remote_read` carry exactly the original's values — secrets of every kind
    included, because nothing is restored piecewise — and every other section is the rewritten one.
    (YAML documents have unique keys: `huniq`.) -/
theorem C11_sections (raw out : Doc) (huniq : (raw.map (·.1)).Nodup) :
    let fin := copySections raw out
    fin.map (·.1) = out.map (·.1) ∧
    (∀ (i k v : Nat), out[i]? = some (k, v) →
      (∀ w, preserved k = true → (k, w) ∈ raw → fin[i]? = some (k, w)) ∧
      (preserved k = false ∨ (∀ x ∈ raw, x.1 ≠ k) → fin[i]? = some (k, v))) := by
  refine ⟨copySections_keys raw out, ?_⟩
  intro i k v hi
  rw [copySections_eq, List.getElem?_map, hi]
  refine ⟨fun w hp hm => ?_, fun h => ?_⟩
  · simp [finalVal_present raw k v w hp hm huniq]
  · rcases h with h | h
    · simp [finalVal_not_preserved raw k v h]
    · simp [finalVal_absent raw k v h]

/-- non-vacuity: alerting and remote-write secrets masked in the marshalled text come back, the
    rewritten scrape section stays -/
example : copySections [(9, 100), (0, 50), (5, 70), (1, 60)] [(9, 100), (0, 51), (5, 71), (1, 61)] =
    [(9, 100), (0, 50), (5, 71), (1, 60)] := by decide

example : (inject ⟨some 7, true⟩ [(1, [(11, 1)])]
    [⟨1, 5, 1, some 3, none, some 4, none, [8], [], [2], none⟩]).map (fun j => (j.name, j.scheme, j.static, j.basicAuth, j.proxy)) =
    [(1, 0, [(11, 1, 1)], none, some 7), (1000000, 0, [], none, none)] := by rfl

end Kvass.Props.C11
