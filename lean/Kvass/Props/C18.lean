/-
  C18 — Kubernetes shards are ordered by ordinal; scaling deletes only removed volumes.
-/
import Kvass.Pins.K8s
import Kvass.Spec.K8s

namespace Kvass.Props.C18
open Kvass Kvass.K8s

/-! naming conventions the model relies on, extracted from the source -/
theorem pod_name_format : Gen.K8s.podNameFmt = "\"%s-%d\"" ∧ Gen.K8s.podNameArg1 = "s.sts.Name" ∧
    Gen.K8s.podNameArg2 = "index" ∧ Gen.K8s.shardId = "p.Name" := ⟨rfl, rfl, rfl, rfl⟩
theorem pvc_name_format : Gen.K8s.pvcNameFmt = "\"%s-%s-%d\"" ∧ Gen.K8s.pvcNameArg1 = "pvc.Name" ∧
    Gen.K8s.pvcNameArg2 = "sts.Name" ∧ Gen.K8s.pvcNameArg3 = "i" := ⟨rfl, rfl, rfl, rfl⟩
theorem url_format : Gen.K8s.urlFmt = "\"http://%s:%d\"" ∧ Gen.K8s.urlArg1 = "p.Status.PodIP" := ⟨rfl, rfl⟩

theorem pvcCond_iff (i e : Int) : Gen.K8s.pvcCond i e = true ↔ e ≤ i := by simp [Gen.K8s.pvcCond]
theorem pvcNext_eq (i : Int) : Gen.K8s.pvcNext i = i - 1 := rfl
theorem pvcInit_eq (o : Int) : Gen.K8s.pvcInit o = o - 1 := rfl

/-- the loop visits exactly the ordinals `expect ≤ j ≤ i` when it has enough fuel -/
theorem mem_pvcOrds (f : Nat) (i expect j : Int) (hf : i - expect < f) :
    j ∈ pvcOrds f i expect ↔ expect ≤ j ∧ j ≤ i := by
  induction f generalizing i with
  | zero => simp [pvcOrds]; omega
  | succ f ih =>
    unfold pvcOrds
    split
    · rename_i hc
      rw [pvcCond_iff] at hc
      rw [List.mem_cons, pvcNext_eq, ih (i - 1) (by omega)]
      omega
    · rename_i hc
      rw [pvcCond_iff] at hc
      simp; omega

/-- **C18 (no survivor's volume deleted, exact range)**: for every current and requested count,
    template number and flag, a claim `(t, i)` is deleted iff deletion is on, `t` is a template and
    `requested ≤ i < current`. -/
theorem C18_deleted_iff (del : Bool) (old expect : Int) (tpls : Nat) (t : Nat) (i : Int) (hne : old ≠ expect) :
    (t, i) ∈ (changeScale del (some old) tpls expect).deleted ↔
      del = true ∧ t < tpls ∧ expect ≤ i ∧ i < old := by
  have hno : Gen.K8s.scaleNoop false old expect = false := by
    simp [Gen.K8s.scaleNoop, hne]
  unfold changeScale
  simp only [Option.isNone_some, Option.getD_some, hno, Bool.false_eq_true, if_false, Gen.K8s.oldOf,
    Gen.K8s.pvcEnabled]
  cases del with
  | false => simp
  | true =>
    simp only [if_true, List.mem_flatMap, List.mem_map, List.mem_range, Prod.mk.injEq]
    constructor
    · rintro ⟨j, hj, t', ht', rfl, rfl⟩
      rw [mem_pvcOrds _ _ _ _ (by rw [pvcInit_eq]; omega), pvcInit_eq] at hj
      exact ⟨trivial, ht', hj.1, by omega⟩
    · rintro ⟨_, ht, h1, h2⟩
      refine ⟨i, ?_, t, ht, rfl, rfl⟩
      rw [mem_pvcOrds _ _ _ _ (by rw [pvcInit_eq]; omega), pvcInit_eq]
      omega

/-- **C18 (replica count, no-op)** -/
theorem C18_replicas (del : Bool) (old expect : Int) (tpls : Nat) :
    (old ≠ expect → (changeScale del (some old) tpls expect).replicas = some expect ∧
        (changeScale del (some old) tpls expect).updated = true) ∧
    (old = expect → changeScale del (some old) tpls expect = ⟨some old, false, []⟩) ∧
    changeScale del none tpls expect = ⟨none, false, []⟩ := by
  refine ⟨fun hne => ?_, fun he => ?_, ?_⟩
  · have hno : Gen.K8s.scaleNoop false old expect = false := by
      simp [Gen.K8s.scaleNoop, hne]
    unfold changeScale
    simp only [Option.isNone_some, Option.getD_some, hno, Bool.false_eq_true, if_false, Gen.K8s.newReplicas]
    exact ⟨trivial, trivial⟩
  · unfold changeScale; simp [Gen.K8s.scaleNoop, he]
  · unfold changeScale; simp [Gen.K8s.scaleNoop]

/-- A rejected `Update` (conflict or any other error) leaves everything as it was: the replica
    count is unchanged, no volume claim is deleted — in particular none of a shard that still
    exists — and the error is reported.  For all counts, templates and flags. -/
theorem C18_update_rejected (del : Bool) (cur : Option Int) (tpls : Nat) (expect : Int) :
    (changeScaleE del cur tpls expect false).1.replicas = cur ∧
    (changeScaleE del cur tpls expect false).1.deleted = [] ∧
    ((changeScaleE del cur tpls expect false).1.updated = true → (changeScaleE del cur tpls expect false).2 = true) := by
  unfold changeScaleE
  split <;> simp

/-- with an accepted `Update` the function is `changeScale`, and no error is returned -/
theorem C18_update_accepted (del : Bool) (cur : Option Int) (tpls : Nat) (expect : Int) :
    changeScaleE del cur tpls expect true = (changeScale del cur tpls expect, false) := by
  unfold changeScaleE changeScale
  split <;> simp_all

/-- **C18 (rolling update)**: a StatefulSet whose updated replicas differ from its replicas is skipped -/
theorem C18_rolling (r u : Int) : skipped r u = true ↔ r ≠ u := by
  simp [skipped, Gen.K8s.rollingSkip]

/-- one call, whatever the manager remembers: a rolling StatefulSet gets no manager and loses its stamp -/
theorem C18_rolling_step (stamp : Option Int) (now : Int) (s : StsStatus) (h : s.replicas ≠ s.updated) :
    replicasStep stamp now s = (none, false) := by
  unfold replicasStep
  simp [Gen.K8s.rollingSkip, h]

/-- one call: a manager is returned exactly when the StatefulSet is settled and either every replica
    is ready or the "not ready since" stamp (taken now if there was none) is at least 120 s old -/
theorem C18_coordinated_iff (stamp : Option Int) (now : Int) (s : StsStatus) :
    (replicasStep stamp now s).2 = true ↔
      s.replicas = s.updated ∧ (s.ready = s.replicas ∨ ∃ t, stamp = some t ∧ 120 ≤ now - t) := by
  unfold replicasStep
  by_cases h : s.replicas = s.updated
  · by_cases hr : s.ready = s.replicas
    · simp [Gen.K8s.rollingSkip, Gen.K8s.stampSet, Gen.K8s.stillWaiting, h, hr]
    · have hr' : ¬ s.ready = s.updated := by rw [← h]; exact hr
      cases stamp with
      | none => simp [Gen.K8s.rollingSkip, Gen.K8s.stampSet, Gen.K8s.stillWaiting, h, hr']
      | some t =>
        simp only [Gen.K8s.rollingSkip, Gen.K8s.stampSet, Gen.K8s.stillWaiting, h, hr', Option.isNone_some,
          Option.getD_some, decide_false, decide_true, Bool.not_false, Bool.not_true, Bool.and_false, Bool.true_and,
          Bool.false_eq_true, if_false, ne_eq, not_true_eq_false, false_or, true_and, Option.some.injEq, exists_eq_left']
        by_cases hw : now - t < 120
        · simp [hw]
        · simp [hw]; omega
  · simp [Gen.K8s.rollingSkip, h]

/-- the answers of a history are one per call -/
theorem replicasRun_length (stamp : Option Int) (calls : List (Int × StsStatus)) :
    (replicasRun stamp calls).length = calls.length := by
  induction calls generalizing stamp with
  | nil => rfl
  | cons c rest ih => obtain ⟨now, s⟩ := c; simp [replicasRun, ih]

/-- **C18 (rolling update, every history)**: whatever one manager has seen before — any sequence of
    statuses at any times, any remembered stamp — a StatefulSet whose rolling update is in
    progress is not coordinated, and a settled one with every replica ready is: the monitored
    predicate `Spec.C18.rollingHistory` holds of the answers of every history. -/
theorem C18_rolling_history (stamp : Option Int) (calls : List (Int × StsStatus)) :
    Spec.C18.rollingHistory calls (replicasRun stamp calls) = true := by
  unfold Spec.C18.rollingHistory
  rw [replicasRun_length]
  simp only [beq_self_eq_true, Bool.true_and]
  induction calls generalizing stamp with
  | nil => rfl
  | cons c rest ih =>
    obtain ⟨now, s⟩ := c
    simp only [replicasRun, List.zip_cons_cons, List.all_cons, Bool.and_eq_true]
    refine ⟨⟨?_, ?_⟩, ih _⟩
    · by_cases h : s.replicas = s.updated
      · simp [h]
      · rw [C18_rolling_step stamp now s h]; simp
    · by_cases h : s.replicas = s.updated ∧ s.ready = s.replicas
      · have : (replicasStep stamp now s).2 = true := (C18_coordinated_iff stamp now s).mpr ⟨h.1, Or.inl h.2⟩
        rw [this]; simp
      · have : (s.replicas == s.updated && s.ready == s.replicas) = false := by
          cases hb : (s.replicas == s.updated && s.ready == s.replicas) with
          | false => rfl
          | true =>
            simp only [Bool.and_eq_true, beq_iff_eq] at hb
            exact absurd hb h
        rw [this]; simp

/-- non-vacuity: settled but not ready (stamp taken), three minutes later rolling and still not ready
    (no manager — the case seed C18-f got wrong), then settled and not ready again (stamp is new) -/
example : replicasRun none [(0, ⟨3, 3, 2⟩), (180, ⟨3, 1, 2⟩), (360, ⟨3, 3, 2⟩), (540, ⟨3, 3, 2⟩)] =
    [false, false, false, true] := by decide

theorem find_unique {pods : List Pod} {p : Pod} {i : Nat}
    (hm : p ∈ pods) (ho : p.ord = some i)
    (hu : ∀ q ∈ pods, q.ord = some i → q = p) : lookup pods i = some p := by
  unfold lookup
  cases hf : pods.reverse.find? (fun p => p.ord == some i) with
  | none =>
    rw [List.find?_eq_none] at hf
    have := hf p (by simpa using hm)
    simp [ho] at this
  | some q =>
    have h1 := List.find?_some hf
    have h2 := List.mem_of_find?_eq_some hf
    simp at h1 h2
    rw [hu q h2 h1]

/-- **C18 (order)**: whatever order the pods are returned in, if every ordinal below the number of
    pods occurs on exactly one pod, position `i` of the listing is pod `i` with its address and
    readiness. -/
theorem C18_order (pods : List Pod) (p : Pod) (i : Nat) (hi : i < pods.length)
    (hm : p ∈ pods) (ho : p.ord = some i) (hu : ∀ q ∈ pods, q.ord = some i → q = p) :
    (shards pods)[i]? = some ⟨some i, p.ip, p.ip != 0⟩ := by
  unfold shards
  rw [List.getElem?_map, List.getElem?_range hi]
  simp only [Option.map_some, find_unique hm ho hu]
  simp only [Gen.K8s.shardReady, bne, ShardRow.mk.injEq, true_and]
  cases h0 : decide (p.ip = 0) <;> simp_all

/-- non-vacuity -/
example : (changeScale true (some 5) 2 3).deleted = [(0, 4), (1, 4), (0, 3), (1, 3)] := by decide
example : shards [⟨some 1, 7⟩, ⟨some 0, 0⟩] = [⟨some 0, 0, false⟩, ⟨some 1, 7, true⟩] := by decide

end Kvass.Props.C18
