/-
  C15 — a target's hash depends only on its final labels and URL, and is stable.
-/
import Kvass.Pins.Disc
import Kvass.Pins.Proxy
import Kvass.Pins.Store
import Kvass.Model.Hash

namespace Kvass.Props.C15
open Kvass Kvass.HashM

/-- two sorted permutations of each other are equal when the order is antisymmetric on them -/
theorem eq_of_perm_sorted {α : Type} (le : α → α → Bool) :
    ∀ (l₁ l₂ : List α), l₁.Perm l₂ →
      l₁.Pairwise (fun a b => le a b = true) → l₂.Pairwise (fun a b => le a b = true) →
      (∀ a b, a ∈ l₁ → b ∈ l₁ → le a b = true → le b a = true → a = b) → l₁ = l₂ := by
  intro l₁
  induction l₁ with
  | nil => intro l₂ hp _ _ _; exact (List.Perm.nil_eq hp)
  | cons a t₁ ih =>
    intro l₂ hp h₁ h₂ anti
    cases l₂ with
    | nil => exact absurd hp.length_eq (by simp)
    | cons b t₂ =>
      have hab : a = b := by
        have ha2 : a ∈ b :: t₂ := hp.subset List.mem_cons_self
        have hb1 : b ∈ a :: t₁ := hp.symm.subset List.mem_cons_self
        rcases List.mem_cons.mp ha2 with e | ha2'
        · exact e
        · rcases List.mem_cons.mp hb1 with e | hb1'
          · exact e.symm
          · have l1 : le a b = true := (List.pairwise_cons.mp h₁).1 b hb1'
            have l2 : le b a = true := (List.pairwise_cons.mp h₂).1 a ha2'
            exact anti a b List.mem_cons_self hb1 l1 l2
      subst hab
      have hp' : t₁.Perm t₂ := List.Perm.cons_inv hp
      rw [ih t₂ hp' (List.pairwise_cons.mp h₁).2 (List.pairwise_cons.mp h₂).2
        (fun x y hx hy => anti x y (List.mem_cons_of_mem _ hx) (List.mem_cons_of_mem _ hy))]

theorem nameLe_trans (a b c : Label) : nameLe a b = true → nameLe b c = true → nameLe a c = true := by
  unfold nameLe; simp only [decide_eq_true_eq]; exact List.le_trans
theorem nameLe_total (a b : Label) : (nameLe a b || nameLe b a) = true := by
  unfold nameLe; simp only [Bool.or_eq_true, decide_eq_true_eq]; exact List.le_total _ _

theorem map_toNat_inj (a b : Bytes) (h : a.map (·.toNat) = b.map (·.toNat)) : a = b := by
  induction a generalizing b with
  | nil => cases b <;> simp_all
  | cons x xs ih =>
    cases b with
    | nil => simp at h
    | cons y ys =>
      simp only [List.map_cons, List.cons.injEq] at h
      rw [ih ys h.2, UInt8.toNat_inj.mp h.1]

/-- in a label list with distinct names, two labels with the same name are the same label -/
theorem same_of_name (ls : List Label) (hnd : (ls.map (·.1)).Nodup) (a b : Label)
    (ha : a ∈ ls) (hb : b ∈ ls) (hn : a.1 = b.1) : a = b := by
  induction ls with
  | nil => cases ha
  | cons x xs ih =>
    simp only [List.map_cons, List.nodup_cons] at hnd
    rcases List.mem_cons.mp ha with rfl | ha2
    · rcases List.mem_cons.mp hb with rfl | hb2
      · rfl
      · exact absurd (List.mem_map.mpr ⟨b, hb2, hn.symm⟩) hnd.1
    · rcases List.mem_cons.mp hb with rfl | hb2
      · exact absurd (List.mem_map.mpr ⟨a, ha2, hn⟩) hnd.1
      · exact ih hnd.2 ha2 hb2

/-- **C15 (order independence)**: the hash does not depend on the order in which the labels of a
    target arrive (group labels vs. target labels, map iteration, discovery round): any two
    arrangements of the same label set (one value per name) hash alike. -/
theorem C15_perm (ls ls' : List Label) (url : Bytes) (hp : ls.Perm ls')
    (hnd : (ls.map (·.1)).Nodup) : targetHash ls url = targetHash ls' url := by
  unfold targetHash hashInput
  have hs : sortLabels ls = sortLabels ls' := by
    unfold sortLabels
    apply eq_of_perm_sorted nameLe
    · exact ((List.mergeSort_perm ls nameLe).trans hp).trans (List.mergeSort_perm ls' nameLe).symm
    · exact List.pairwise_mergeSort nameLe_trans nameLe_total ls
    · exact List.pairwise_mergeSort nameLe_trans nameLe_total ls'
    · intro a b ha hb h1 h2
      have ha' : a ∈ ls := (List.mergeSort_perm ls nameLe).subset ha
      have hb' : b ∈ ls := (List.mergeSort_perm ls nameLe).subset hb
      unfold nameLe at h1 h2
      simp only [decide_eq_true_eq] at h1 h2
      have hn : a.1 = b.1 := map_toNat_inj _ _ (List.le_antisymm h1 h2)
      exact same_of_name ls hnd a b ha' hb' hn
  rw [hs]

/-- **C15 (function of labels and URL)**: equal label sets and equal URLs give the same hash, so two
    discovered entries with equal labels and URL collapse into one target in every hash-keyed map. -/
theorem C15_collapse (ls ls' : List Label) (url url' : Bytes) (hl : ls.Perm ls') (hu : url = url')
    (hnd : (ls.map (·.1)).Nodup) : targetHash ls url = targetHash ls' url' := by
  subst hu; exact C15_perm ls ls' url hl hnd

theorem split_ff (a a' r r' : Bytes) (ha : (0xff : UInt8) ∉ a) (ha' : (0xff : UInt8) ∉ a')
    (h : a ++ [0xff] ++ r = a' ++ [0xff] ++ r') : a = a' ∧ r = r' := by
  induction a generalizing a' with
  | nil =>
    cases a' with
    | nil => simpa using h
    | cons y ys =>
      simp only [List.nil_append, List.cons_append, List.cons.injEq] at h
      exact absurd (h.1 ▸ List.mem_cons_self) ha'
  | cons x xs ih =>
    cases a' with
    | nil =>
      simp only [List.nil_append, List.cons_append, List.cons.injEq] at h
      exact absurd (h.1 ▸ List.mem_cons_self) ha
    | cons y ys =>
      simp only [List.cons_append, List.cons.injEq] at h
      have := ih ys (fun hm => ha (List.mem_cons_of_mem _ hm)) (fun hm => ha' (List.mem_cons_of_mem _ hm))
        (by simpa using h.2)
      exact ⟨by rw [h.1, this.1], this.2⟩

/-- **C15 (encoding)**: the byte string fed to the label hash determines the label list — as long
    as names and values contain no 0xff byte (valid UTF-8 never does).  Any two targets that differ in a
    label therefore collide only if xxhash64 itself collides. -/
theorem C15_enc_inj (ls ls' : List Label)
    (h1 : ∀ l ∈ ls, (0xff : UInt8) ∉ l.1 ∧ (0xff : UInt8) ∉ l.2)
    (h2 : ∀ l ∈ ls', (0xff : UInt8) ∉ l.1 ∧ (0xff : UInt8) ∉ l.2)
    (h : labelsBytes ls = labelsBytes ls') : ls = ls' := by
  induction ls generalizing ls' with
  | nil =>
    cases ls' with
    | nil => rfl
    | cons l' t' =>
      simp [labelsBytes] at h
  | cons l t ih =>
    cases ls' with
    | nil => simp [labelsBytes] at h
    | cons l' t' =>
      obtain ⟨n, v⟩ := l
      obtain ⟨n', v'⟩ := l'
      have hl := h1 (n, v) List.mem_cons_self
      have hl' := h2 (n', v') List.mem_cons_self
      simp only [labelsBytes, List.flatMap_cons] at h
      have e1 := split_ff n n' (v ++ [0xff] ++ List.flatMap (fun l => l.1 ++ [0xff] ++ l.2 ++ [0xff]) t)
        (v' ++ [0xff] ++ List.flatMap (fun l => l.1 ++ [0xff] ++ l.2 ++ [0xff]) t') hl.1 hl'.1
        (by simpa [List.append_assoc] using h)
      have e2 := split_ff v v' _ _ hl.2 hl'.2 e1.2
      rw [e1.1, e2.1, ih t' (fun l hm => h1 l (List.mem_cons_of_mem _ hm)) (fun l hm => h2 l (List.mem_cons_of_mem _ hm)) e2.2]

/-- non-vacuity / known answers: xxhash64 and FNV-1a test vectors -/
example : xxhash64 [] = 0xef46db3751d8e999 := by decide
example : xxhash64 [97] = 0xd24ec4f1a98c6e5b := by decide
example : fnv1a [104, 101, 108, 108, 111] = 0xa430d84680aabd0b := by decide

end Kvass.Props.C15
