/-
  C09 — a sidecar resumes its acknowledged assignment after restart or crash.
-/
import Kvass.Pins.Store
import Kvass.Model.Store

namespace Kvass.Props.C09
open Kvass Kvass.Store

/-- the file-system protocol extracted from `saveTargets` is: write the temp file, rename it -/
theorem protocol_is_atomic : saveProtocol = some [.writeFile .tmp, .rename .tmp .main] := by decide

/-- the file names are the documented ones -/
theorem file_names : Gen.Store.storeFileName = "\"kvass-shard.json\"" ∧
    Gen.Store.oldStoreFileName = "\"targets.json\"" ∧
    Gen.Store.storePathExpr = "path.Join(t.storeDir, storeFileName)" := ⟨rfl, rfl, rfl⟩

variable {α : Type}

/-- **C09 (round trip)**: after an uninterrupted save, `Load` resumes exactly what was saved,
    whatever was in the directory before — given only that decoding inverts encoding. -/
theorem C09_roundtrip (enc : α → Bytes) (dec : Bytes → Option α) (hde : ∀ a, dec (enc a) = some a)
    (ops : List FsOp) (hp : saveProtocol = some ops) (a : α) (fs : FS) :
    load dec (runOps (enc a) ops fs) = .cur a := by
  rw [protocol_is_atomic] at hp
  cases hp
  simp [runOps, applyOp, FS.put, FS.get, load, hde]

/-- **C09 (crash)**: if persisting the new assignment stops at *any* point — before, between or
    inside the file-system calls, after any number of bytes — the next `Load` succeeds and
    resumes either the previous content or the new one, nothing else.  For every previous content,
    every new content, every byte offset; `tmp0` is whatever an earlier crash left behind. -/
theorem C09_crash (enc : α → Bytes) (dec : Bytes → Option α) (hde : ∀ a, dec (enc a) = some a)
    (ops : List FsOp) (hp : saveProtocol = some ops) (old new : α) (tmp0 legacy : Option Bytes) :
    ∀ fs' ∈ crashStates (enc new) ops ⟨some (enc old), tmp0, legacy⟩,
      load dec fs' = .cur old ∨ load dec fs' = .cur new := by
  rw [protocol_is_atomic] at hp
  cases hp
  intro fs' hm
  simp only [crashStates, midStates, List.mem_cons, List.mem_append, List.mem_map, List.mem_range,
    List.append_nil, List.not_mem_nil, or_false] at hm
  rcases hm with (rfl | ⟨k, _, rfl⟩) | rfl | rfl
  · left; simp [load, hde]
  · left; simp [load, FS.put, hde]
  · left; simp [load, applyOp, FS.put, hde]
  · right; simp [load, applyOp, FS.put, FS.get, hde]

/-- the same when there was no store file yet (first start): previous content = "nothing" -/
theorem C09_crash_first (enc : α → Bytes) (dec : Bytes → Option α) (hde : ∀ a, dec (enc a) = some a)
    (ops : List FsOp) (hp : saveProtocol = some ops) (new : α) (tmp0 : Option Bytes) :
    ∀ fs' ∈ crashStates (enc new) ops ⟨none, tmp0, none⟩,
      load dec fs' = .empty ∨ load dec fs' = .cur new := by
  rw [protocol_is_atomic] at hp
  cases hp
  intro fs' hm
  simp only [crashStates, midStates, List.mem_cons, List.mem_append, List.mem_map, List.mem_range,
    List.append_nil, List.not_mem_nil, or_false] at hm
  rcases hm with (rfl | ⟨k, _, rfl⟩) | rfl | rfl
  · left; simp [load]
  · left; simp [load, FS.put]
  · left; simp [load, applyOp, FS.put]
  · right; simp [load, applyOp, FS.put, FS.get, hde]

/-- **C09 (an upgraded shard)**: the old-format file is never deleted, so it lies beside the store file
    for ever.  Once an assignment has been saved — the empty one of a shard that went idle
    included — `Load` resumes that and never falls back to the old file, whatever it holds; and
    every later store file that decodes wins over it as well. -/
theorem C09_legacy_never_resurfaces (enc : α → Bytes) (dec : Bytes → Option α) (hde : ∀ a, dec (enc a) = some a)
    (ops : List FsOp) (hp : saveProtocol = some ops) (a : α) (main0 tmp0 : Option Bytes) (legacy : Bytes) :
    load dec (runOps (enc a) ops ⟨main0, tmp0, some legacy⟩) = .cur a ∧
    (∀ b tmp, load dec ⟨some (enc b), tmp, some legacy⟩ = .cur b) :=
  ⟨C09_roundtrip enc dec hde ops hp a _, fun b tmp => by simp [load, hde]⟩

/-- non-vacuity (seed C09-f): the old file holds `[7]`, the saved assignment is the empty list -/
example : load (fun b => some b) (runOps ([] : Bytes) [.writeFile .tmp, .rename .tmp .main] ⟨none, none, some [7]⟩) = .cur [] := by decide

/-- why the temp file matters: writing the store file in place is *not* crash safe — a cut after
    one byte of a two-byte encoding loads as an error (with a decoder that rejects proper prefixes) -/
example : load (fun b => if b = [1, 2] then some () else none)
    ((midStates [1, 2] ⟨some [1, 2], none, none⟩ (.writeFile .main)).getD 1 default) = .err := by decide

/-- non-vacuity: the crash states of the real protocol for a 2-byte encoding -/
example : (crashStates [1, 2] [.writeFile .tmp, .rename .tmp .main] ⟨some [9], none, none⟩).length = 6 := by decide

end Kvass.Props.C09
