/-
  C13 — a failed real scrape is a failed scrape for Prometheus, with truthful health.
-/
import Kvass.Pins.Proxy
import Kvass.Pins.Sidecar
import Kvass.Props.C12

namespace Kvass.Props.C13
open Kvass Kvass.Proxy Kvass.Spec.Px

theorem status_names : Gen.Proxy.noJobStatus = "http.StatusBadRequest" ∧ Gen.Proxy.badHashStatus = "http.StatusBadRequest" ∧
    Gen.Proxy.failStatus = "http.StatusBadRequest" ∧ Gen.Proxy.stopStatus = "http.StatusBadRequest" ∧
    Gen.Proxy.abortWith = "http.ErrAbortHandler" := ⟨rfl, rfl, rfl, rfl, rfl⟩

/-- with a writer that accepts everything, the tee fails exactly when some read fails -/
theorem tee_ok (cs : List Chunk) (r : TeeResult) (hr : r.ok = true) :
    (tee cs [] r).ok = cs.all (!·.err) := by
  induction cs generalizing r with
  | nil => simp [tee, hr]
  | cons c cs ih =>
    unfold tee
    obtain ⟨sc', h1, _⟩ := Kvass.Props.C12.writeLoop_all (c.data.length + 1) [] c.data 0 r.forwarded (by simp) (by omega) (by omega)
    rw [h1]
    cases hc : c.err with
    | true => simp [hc]
    | false =>
      simp only [Bool.not_true, Bool.false_or, Bool.false_eq_true, if_false, List.all_cons, hc, Bool.not_false, Bool.true_and]
      have hsc : sc' = [] := by
        -- the script stays empty
        have := h1
        unfold writeLoop at this
        split at this
        · simp at this; exact this
        · simp at this; exact this.2
      rw [hsc]
      exact ih _ hr

theorem finish_status (r : Resp) (c : Nat) (h : r.status = some c) : r.finish = r := by
  unfold Resp.finish; rw [h]

/-- **C13 (fail)**: whenever the real scrape fails — unknown job, bad hash, connection error,
    non-200 status, a body that breaks off at *any* read, or scraping stopped — Prometheus sees a
    non-200 status or an aborted response, never a complete 200. -/
theorem C13_failsToo (s : Scenario) : C13.failsToo s (serve s).1 = true := by
  unfold C13.failsToo
  cases hs : succeeds s with
  | true => rfl
  | false =>
    simp only [Bool.false_or, Bool.or_eq_true, bne_iff_ne, ne_eq]
    unfold serve
    cases hj : s.jobKnown with
    | false => left; simp [Gen.Proxy.noJob, Resp.writeHeader, Resp.finish]
    | true =>
      cases hh : s.hashOk with
      | false => left; simp [Gen.Proxy.noJob, Resp.writeHeader, Resp.finish]
      | true =>
        simp only [Gen.Proxy.noJob, Bool.not_true, Bool.false_eq_true, if_false]
        by_cases hreq : (s.reqFails || Gen.Proxy.badStatus s.code) = true
        · left
          simp [hreq, Gen.Proxy.deferFailed, Gen.Proxy.aborts, Resp.writeHeader, Resp.finish]
        · simp only [hreq, if_false]
          have hreq' : s.reqFails = false ∧ s.code = 200 := by
            simp only [Bool.or_eq_true, not_or, Bool.not_eq_true, Gen.Proxy.badStatus] at hreq
            exact ⟨hreq.1, by simpa using hreq.2⟩
          cases hst : s.stopped with
          | true =>
            left
            simp only [Gen.Proxy.teeOn, Bool.not_true, Bool.false_eq_true, if_false]
            generalize plainRead s.chunks = pr
            obtain ⟨b, ok⟩ := pr
            cases ok <;> simp [Gen.Proxy.deferFailed, Gen.Proxy.deferStopped, Gen.Proxy.aborts, Resp.writeHeader, Resp.finish]
          | false =>
            simp only [Gen.Proxy.teeOn, Bool.not_false, if_true]
            have hok : (tee s.chunks [] ⟨[], [], true⟩).ok = false := by
              rw [tee_ok _ _ rfl]
              unfold succeeds at hs
              simp only [hj, hh, hst, hreq'.1, hreq'.2, Bool.not_false, Bool.true_and, beq_self_eq_true] at hs
              exact hs
            generalize tee s.chunks [] ⟨[], [], true⟩ = t at hok
            obtain ⟨fw, seen, ok⟩ := t
            simp only at hok
            subst hok
            cases fw with
            | nil => left; simp [Gen.Proxy.deferFailed, Gen.Proxy.aborts, Resp.writeHeader, Resp.finish]
            | cons x xs =>
              right
              simp [Gen.Proxy.deferFailed, Gen.Proxy.aborts, Resp.writeHeader, Resp.write, Resp.finish]

/-- **C13 (health, counter)**: for an assigned target every attempt the proxy makes increments the
    scrape counter exactly once and leaves health up iff the scrape succeeded; requests that never
    reach a scrape (unknown job, unparsable hash) and unassigned targets touch nothing. -/
theorem C13_health (s : Scenario) : C13.health s (serve s).2 = true := by
  unfold C13.health attempts serve
  cases hj : s.jobKnown with
  | false => simp [Gen.Proxy.noJob]
  | true =>
    cases hh : s.hashOk with
    | false => simp [Gen.Proxy.noJob]
    | true =>
      cases ha : s.assigned with
      | false =>
        simp only [Gen.Proxy.noJob, Gen.Proxy.touches, Bool.not_true, Bool.false_eq_true, if_false,
          Bool.and_false, Bool.and_self]
        rfl
      | true =>
        simp only [Gen.Proxy.noJob, Gen.Proxy.touches, Bool.not_true, Bool.false_eq_true, if_false, if_true,
          Bool.and_self]
        have hsucc : succeeds s = (!s.stopped && !s.reqFails && s.code == 200 && s.chunks.all (!·.err)) := by
          unfold succeeds; simp [hj, hh]
        rw [hsucc]
        by_cases hreq : (s.reqFails || Gen.Proxy.badStatus s.code) = true
        · simp only [hreq, if_true]
          have : (!s.stopped && !s.reqFails && s.code == 200 && s.chunks.all (!·.err)) = false := by
            simp only [Bool.or_eq_true, Gen.Proxy.badStatus] at hreq
            rcases hreq with h | h
            · simp [h]
            · have : (s.code == 200) = false := by simpa using h
              simp [this]
          simp [this]
        · simp only [hreq, if_false]
          have hreq' : s.reqFails = false ∧ s.code = 200 := by
            simp only [Bool.or_eq_true, not_or, Bool.not_eq_true, Gen.Proxy.badStatus] at hreq
            exact ⟨hreq.1, by simpa using hreq.2⟩
          cases hst : s.stopped with
          | true =>
            simp only [Gen.Proxy.teeOn, Bool.not_true, Bool.false_eq_true, if_false]
            generalize plainRead s.chunks = pr
            obtain ⟨b, ok⟩ := pr
            simp
          | false =>
            simp only [Gen.Proxy.teeOn, Bool.not_false, if_true]
            have hok := tee_ok s.chunks ⟨[], [], true⟩ rfl
            generalize tee s.chunks [] ⟨[], [], true⟩ = t at hok
            obtain ⟨fw, seen, ok⟩ := t
            simp only at hok
            subst hok
            simp [hreq'.1, hreq'.2]

/-- non-vacuity: a body that breaks off after the first forwarded chunk is aborted, before it gives 400 -/
example : (serve ⟨false, true, true, true, false, 200, [⟨[1, 2], false⟩, ⟨[], true⟩]⟩).1 = ⟨some 200, [1, 2], true⟩ := by decide
example : (serve ⟨false, true, true, true, false, 200, [⟨[], true⟩]⟩).1 = ⟨some 400, [], false⟩ := by decide

end Kvass.Props.C13
