/-
  C08 — unready or out-of-sync shards are left alone until they are in sync.
-/
import Kvass.Pins.Coord
import Kvass.Pins.Cfg
import Kvass.Pins.Sidecar
import Kvass.Proofs.CoordKeep
import Kvass.Proofs.CoordProv
import Kvass.Proofs.LoopFaulty

namespace Kvass.Props.C08
open Kvass Kvass.Coord Kvass.Spec

/-- **C08 (a)**: a shard that is not ready receives nothing; one whose status request fails only
    that request; one with a different hash exactly `GET, GET, POST config[, GET]`; in every case
    nothing else — for every schedule and input. -/
theorem C08_leftAlone (swr : Swr) (sc : Sched) (inp : Input) :
    C08.leftAlone inp (Obs.ofOutcome (cycle swr sc inp)) = true := by
  unfold C08.leftAlone
  simp only [List.all_eq_true]
  rintro ⟨i, p, r⟩ hmem
  obtain ⟨hp, hr⟩ := mem_shardsOf.mp hmem
  obtain ⟨extra, hr', hnil, _⟩ := reqs_shape swr sc inp hp
  have e : r = (getInfo p).2 ++ extra := by
    have h1 : (cycle swr sc inp).reqs[i]? = some r := hr
    rw [hr'] at h1; exact (Option.some.inj h1).symm
  subst e
  simp only
  obtain ⟨ready, status, rt1, pushOk, rt2, postOk⟩ := p
  rcases ready with _ | _ <;> rcases status with _ | st <;> rcases rt1 with _ | ⟨r1, _ | _⟩ <;>
    rcases pushOk with _ | _ <;> rcases rt2 with _ | ⟨r2, _ | _⟩ <;> simp_all [getInfo, inSync]

/-- **C08 (b)**: a shard whose hash already matches is never sent the raw configuration. -/
theorem C08_noNeedlessPush (swr : Swr) (sc : Sched) (inp : Input) :
    C08.noNeedlessPush inp (Obs.ofOutcome (cycle swr sc inp)) = true := by
  unfold C08.noNeedlessPush
  simp only [List.all_eq_true]
  rintro ⟨i, p, r⟩ hmem
  obtain ⟨hp, hr⟩ := mem_shardsOf.mp hmem
  obtain ⟨extra, hr', _, hex⟩ := reqs_shape swr sc inp hp
  have e : r = (getInfo p).2 ++ extra := by
    have h1 : (cycle swr sc inp).reqs[i]? = some r := hr
    rw [hr'] at h1; exact (Option.some.inj h1).symm
  subst e
  simp only
  split
  · rename_i r1 h1
    have hx : Req.postConfig ∉ extra := by
      intro hm
      rcases hex _ hm with h | h
      · simp [C08.isPostT] at h
      · cases h
    have hg : Req.postConfig ∉ (getInfo p).2 := by
      unfold getInfo
      cases hrd : p.ready <;> simp
      cases hs : p.status <;> simp [h1]
    simp [hx, hg]
  · rfl

/-- **C08 (c)**: no target update and no extra-config update goes to a shard that is not in sync. -/
theorem C08_noUpdates (swr : Swr) (sc : Sched) (inp : Input) :
    C08.noUpdates inp (Obs.ofOutcome (cycle swr sc inp)) = true := by
  unfold C08.noUpdates
  simp only [List.all_eq_true, Bool.or_eq_true, Bool.not_eq_true']
  rintro ⟨i, p, r⟩ hmem
  obtain ⟨hp, hr⟩ := mem_shardsOf.mp hmem
  obtain ⟨extra, hr', hnil, _⟩ := reqs_shape swr sc inp hp
  have e : r = (getInfo p).2 ++ extra := by
    have h1 : (cycle swr sc inp).reqs[i]? = some r := hr
    rw [hr'] at h1; exact (Option.some.inj h1).symm
  subst e
  simp only
  cases hin : inSync p with
  | true => exact Or.inl rfl
  | false =>
    right
    rw [hnil hin, List.append_nil, List.any_eq_false]
    intro q hq
    have := getInfo_noPost p q hq
    simp [this.1, this.2]

/-- **C08 (d)**: targets a reachable shard reports scraping are not assigned a second time
    elsewhere: a target that a shard is newly told to scrape although some shard reports it is a
    move out of an *in-sync* shard — for every schedule and input. -/
theorem C08_noSecondAssign (swr : Swr) (sc : Sched) (inp : Input) :
    C08.noSecondAssign inp (Obs.ofOutcome (cycle swr sc inp)) = true :=
  noSecondAssign_cycle swr sc inp

/-- **C08 (e)**: a shard that is not in sync is never chosen as destination: whenever an in-sync
    shard is told to turn a normal copy into an in-transfer one, another in-sync shard holds the
    target in normal state after the cycle — for every schedule and every input whose reports have
    distinct keys (JSON maps). -/
theorem C08_dstInSync (swr : Swr) (sc : Sched) (inp : Input)
    (hnd : ∀ p ∈ inp.probes, (reported p).keys.Nodup) :
    C08.dstInSync inp (Obs.ofOutcome (cycle swr sc inp)) = true :=
  dstInSync_cycle swr sc inp hnd

/-- **C08**: the monitored predicate as a whole -/
theorem C08_ok (swr : Swr) (sc : Sched) (inp : Input)
    (hnd : ∀ p ∈ inp.probes, (reported p).keys.Nodup) :
    C08.ok inp (Obs.ofOutcome (cycle swr sc inp)) = true := by
  unfold C08.ok
  rw [C08_leftAlone, C08_noNeedlessPush, C08_noUpdates, C08_noSecondAssign, C08_dstInSync swr sc inp hnd]
  rfl

/-- **C08 in the closed loop** (coordinator cycle + real sidecar model, any faults on any shards,
    `ChangeScale` working or not): a running sidecar whose shard is not ready, does not answer, or
    reports another configuration hash and does not accept the pushed configuration, is after the
    step exactly as it was — no target update reached it — and it is still running. -/
theorem C08_loop_left_alone (swr : Swr) (env : Loop.Env) (w : Loop.World) (sc : Sched) (F : List Loop.Fault) (b : Bool)
    (hrep : w.replicas ≤ w.shards.length)
    (hidle : ∀ sh ∈ w.running, Sidecar.IdleInv sh.sc) (hmax : (w.replicas : Int) ≤ env.opt.maxShard)
    {i : Nat} {sh : Loop.Shard} (hrun : w.running[i]? = some sh)
    (hsync : inSync (Loop.probeOf env sh (Loop.faultAt F i)) = false) :
    i < (Loop.step swr env w (.cycle sc F b)).replicas ∧ (Loop.step swr env w (.cycle sc F b)).shards[i]? = some sh :=
  Loop.step_left_alone swr env w sc F b hrep hidle hmax hrun hsync

/-- "… takes part again only once it reports the matching hash": a reachable shard that reports
    another hash and accepts the pushed raw configuration is in sync in the same cycle; one whose
    push fails is not -/
theorem C08_loop_pushed_takes_part (env : Loop.Env) (sh : Loop.Shard) :
    inSync (Loop.probeOf env sh { outOfSync := true, pushOk := true }) = true ∧
    inSync (Loop.probeOf env sh { outOfSync := true, pushOk := false }) = false := by
  constructor
  · exact Loop.probeOf_pushed_inSync env sh _ rfl rfl rfl rfl
  · unfold inSync Loop.probeOf; simp

end Kvass.Props.C08
