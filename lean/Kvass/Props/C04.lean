/-
  C04 — targets are only placed where they fit under the series limits.
  Property theorems (kept apart from the helper lemmas in Kvass/Proofs).
-/
import Kvass.Pins.Coord
import Kvass.Proofs.CoordLog
import Kvass.Proofs.CoordFit
import Kvass.Proofs.CoordBig

namespace Kvass.Props.C04
open Kvass Kvass.Coord Kvass.Spec

/-- Every placement of a cycle (first assignment, process relief, head relief, scale-down move)
    is made only where the destination's running load plus the target stays strictly below the
    head-series limit (when one is set) and the process-series limit — for every schedule
    (map orders, random picks), every `seriesWithRate`, every input. -/
theorem C04_placements_fit (swr : Swr) (sc : Sched) (inp : Input) :
    ∀ pl ∈ (cycle swr sc inp).log,
      (inp.opt.maxHead ≠ 0 → pl.headBefore + pl.series < inp.opt.maxHead) ∧
      pl.procBefore + pl.total < inp.opt.maxProc :=
  cycle_logOK swr sc inp

/-- non-vacuity: a cycle with two placements (one first assignment, one relief move) -/
def exInput : Input :=
  { opt := ⟨12, 100, 5, 0, false, false⟩, active := [1, 2, 3], explore := [(3, ⟨.good, 2, 5, .normal, 0⟩)],
    probes := [
      { ready := true, status := some [(1, ⟨.good, 9, 9, .normal, 5⟩), (2, ⟨.good, 9, 9, .normal, 5⟩)],
        rt1 := some (⟨18, 18, .none⟩, true), pushOk := true, rt2 := none, postOk := true },
      { ready := true, status := some [], rt1 := some (⟨0, 0, .fresh⟩, true), pushOk := true, rt2 := none, postOk := true }] }

def exSwr : Swr := fun x r => x * r / 10

example : ((cycle exSwr { allevHead := [[1, 2], []], assign := [3] } exInput).log.map (·.kind)) = [2, 0] := by
  decide

/-- **Observable form, clause 1.**  For every shard that is sent an update: the load it reported
    plus, for every target newly given to it, the smallest size any other in-sync shard reports for
    that target (the explorer's estimate when nobody does) stays strictly below the head-series limit
    (when set) and the process-series limit.  Every schedule, every `seriesWithRate`, every input
    without negative sizes. -/
theorem C04_fits (swr : Swr) (sc : Sched) (inp : Input) (hok : C04.sizesOK inp = true) :
    C04.fits inp (Obs.ofOutcome (cycle swr sc inp)) = true :=
  fits_cycle swr sc inp (sizesOK_sound inp hok)

/-- **Clause 2.**  A discovered target that nobody scrapes and that alone exceeds a limit is never
    handed to a shard. -/
theorem C04_noTooBig (swr : Swr) (sc : Sched) (inp : Input) (hok : C04.sizesOK inp = true) :
    C04.noTooBig inp (Obs.ofOutcome (cycle swr sc inp)) = true :=
  noTooBig_cycle swr sc inp (sizesOK_sound inp hok)

/-- **Clause 3.**  With relief disabled, when every unscraped healthy target alone exceeds a limit,
    no `ChangeScale` asks for more shards than exist (or than the configured minimum). -/
theorem C04_noScaleUpForTooBig (swr : Swr) (sc : Sched) (inp : Input) :
    C04.noScaleUpForTooBig inp (Obs.ofOutcome (cycle swr sc inp)) = true :=
  noScaleUp_cycle swr sc inp

/-- **C04**: the predicate the engine monitors on the real coordinator holds of every outcome of
    the model, for every schedule. -/
theorem C04_ok (swr : Swr) (sc : Sched) (inp : Input) (hok : C04.sizesOK inp = true) :
    C04.ok inp (Obs.ofOutcome (cycle swr sc inp)) = true :=
  ok_cycle swr sc inp hok

/-- **Clause 3, for targets that are already assigned** ("a target that alone exceeds a limit …
    never causes a scale-up").  All shards in sync, every unscraped target unplaceable, and every shard
    at or above a limit holds a settled target (normal, healthy, scraped ≥ 3 times, reported by nobody
    else) that alone exceeds that limit ⇒ relief gives up on those shards and no `ChangeScale` asks for
    more shards than exist (or than the configured minimum).  Every input without negative sizes or
    loads and with one status entry per hash, every `seriesWithRate` that does not round a limit
    down, every relief order that covers the shards' maps. -/
theorem C04_noScaleUpForAssignedTooBig (swr : Swr) (sc : Sched) (inp : Input) (hok : C04.sizesOK inp = true)
    (hsw : C05.swrOK swr inp.opt = true) (hnd : NodupKeys inp) (hrt : C04.rtsOK inp = true)
    (hcov : C04.schedCovers sc inp = true) :
    C04.noScaleUpForAssignedTooBig inp (Obs.ofOutcome (cycle swr sc inp)) = true :=
  noScaleUpAssigned_cycle swr sc inp (sizesOK_sound inp hok) (swrOK_sound swr inp.opt hsw) hnd
    (rtsOK_sound inp hrt) (schedCovers_sound sc inp hcov)

/-- **C04, all monitored clauses** (`Spec.C04.okAll` is what the engine evaluates on the real
    coordinator) -/
theorem C04_okAll (swr : Swr) (sc : Sched) (inp : Input) (hok : C04.sizesOK inp = true)
    (hsw : C05.swrOK swr inp.opt = true) (hnd : NodupKeys inp) (hrt : C04.rtsOK inp = true)
    (hcov : C04.schedCovers sc inp = true) :
    C04.okAll inp (Obs.ofOutcome (cycle swr sc inp)) = true := by
  unfold C04.okAll
  rw [C04_ok swr sc inp hok, C04_noScaleUpForAssignedTooBig swr sc inp hok hsw hnd hrt hcov]
  rfl

/-- non-vacuity: the example input meets the hypothesis, and its outcome really hands new targets
    to shards (so `fits` has something to say) -/
example : C04.sizesOK exInput = true := by decide

example :
    ((shardsOf exInput (Obs.ofOutcome (cycle exSwr { allevHead := [[1, 2], []], assign := [3] } exInput))).map
      fun (_, p, r) => match postedBody r with | some b => (C04.newOn p b).length | none => 0) = [0, 2] := by
  decide

/-- a target that alone exceeds the limit: discovered, unscraped, never assigned, no scale-up -/
def exBig : Input :=
  { opt := ⟨12, 100, 5, 0, false, true⟩, active := [7], explore := [(7, ⟨.good, 50, 50, .normal, 0⟩)],
    probes := [{ ready := true, status := some [], rt1 := some (⟨0, 0, .fresh⟩, true), pushOk := true, rt2 := none,
                 postOk := true }] }

example : C04.onlyTooBigUnscraped exBig = true ∧ exBig.opt.disableAlleviate = true := by decide
example : (cycle exSwr { assign := [7] } exBig).scales = [1] := by decide

/-- an assigned target that alone exceeds the process limit: the shard is over the limit, relief is
    on and moves the small target away, gives up at the oversized one, and no shard is added -/
def exHeld : Input :=
  { opt := ⟨0, 100, 5, 0, false, false⟩, active := [7, 8], explore := [],
    probes := [
      { ready := true, status := some [(7, ⟨.good, 150, 150, .normal, 5⟩), (8, ⟨.good, 10, 10, .normal, 5⟩)],
        rt1 := some (⟨160, 160, .none⟩, true), pushOk := true, rt2 := none, postOk := true },
      { ready := true, status := some [], rt1 := some (⟨0, 0, .fresh⟩, true), pushOk := true, rt2 := none, postOk := true }] }

def exHeldSc : Sched := { allevProc := [[8, 7], []], allevHead := [[8, 7], []] }

example : (exHeld.probes.all inSync && C04.onlyTooBigUnscraped exHeld && C04.overloadOnlyByBig exHeld) = true ∧
    C04.sizesOK exHeld = true ∧ C05.swrOK exSwr exHeld.opt = true ∧ C04.rtsOK exHeld = true ∧
    C04.schedCovers exHeldSc exHeld = true := by decide
example : NodupKeys exHeld := by unfold NodupKeys; decide
example : (cycle exSwr exHeldSc exHeld).scales = [2] ∧ (cycle exSwr exHeldSc exHeld).log.map (·.kind) = [1] := by decide

end Kvass.Props.C04
