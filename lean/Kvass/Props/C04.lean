/-
  C04 — targets are only placed where they fit under the series limits.
  Property theorems (kept apart from the helper lemmas in Kvass/Proofs).
-/
import Kvass.Pins.Coord
import Kvass.Proofs.CoordLog

namespace Kvass.Props.C04
open Kvass Kvass.Coord

/-- Every placement of a cycle (first assignment, process relief, head relief, scale-down move)
    is made only where the destination's running load plus the target stays strictly below the
    head-series limit (when one is set) and the process-series limit — for every schedule
    (map orders, random picks), every `seriesWithRate`, every input. -/
theorem C04_placements_fit (swr : Swr) (sc : Sched) (inp : Input) :
    ∀ pl ∈ (cycle swr sc inp).log,
      (inp.opt.maxHead ≠ 0 → pl.headBefore + pl.series < inp.opt.maxHead) ∧
      pl.procBefore + pl.total < inp.opt.maxProc :=
  cycle_logOK swr sc inp

/-- non-vacuity: a cycle with two placements (one first assignment, one relief move) -/
def exInput : Input :=
  { opt := ⟨12, 100, 5, 0, false, false⟩, active := [1, 2, 3], explore := [(3, ⟨.good, 2, 5, .normal, 0⟩)],
    probes := [
      { ready := true, status := some [(1, ⟨.good, 9, 9, .normal, 5⟩), (2, ⟨.good, 9, 9, .normal, 5⟩)],
        rt1 := some (⟨18, 18, .none⟩, true), pushOk := true, rt2 := none, postOk := true },
      { ready := true, status := some [], rt1 := some (⟨0, 0, .fresh⟩, true), pushOk := true, rt2 := none, postOk := true }] }

def exSwr : Swr := fun x r => x * r / 10

example : ((cycle exSwr { allevHead := [[1, 2], []], assign := [3] } exInput).log.map (·.kind)) = [2, 0] := by
  decide


end Kvass.Props.C04
