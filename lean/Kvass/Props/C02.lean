/-
  C02 — sharded scraping is label- and URL-equivalent to one plain Prometheus.

  `C02_roundtrip`: for every job and every target whose final labels satisfy `WF`, the labels the
  shard's Prometheus ends up with (public part) and the request the sidecar proxy really sends are
  exactly those of one plain Prometheus; the proxy is told the right job and hash.
  Each clause of `WF` is necessary: the `example`s at the end show the chain failing when it is
  dropped — these are the property's known findings (and the engine replays them on the real code).
  That the coordinator's own label population equals the library's (`scrape.TargetsFromGroup`),
  de-duplication and dropping are compared on every generated target by the `chain` engine.
-/
import Kvass.Pins.Chain
import Kvass.Pins.Inject
import Kvass.Pins.Disc
import Kvass.Pins.Proxy
import Kvass.Model.Chain
import Kvass.Gen.Chain

namespace Kvass.Props.C02
open Kvass Kvass.Chain

/-- the statements of the Go functions the model's steps stand for, as extracted on this run:
    which labels are stripped (`__param_` + every key of the job's params), how invalid names are
    marked, what the injector adds to a static group, which query parameters the proxy reads and
    deletes and what it restores, and the order of the two shipping steps -/
theorem chain_sites :
    Gen.Chain.withoutParamCalls = [("append", ["key", "model.ParamLabelPrefix + k"]),
      ("types.FindString", ["l.Name", "key"]), ("append", ["newlbls", "l"])] ∧
    Gen.Chain.withoutParamAssignsIfs = 1 ∧
    Gen.Chain.markInvalidAssigns = [("l.Name", "target.PrefixForInvalidLabelName + l.Name"), ("res", "append(res, l)")] ∧
    Gen.Chain.markInvalidCalls.head? = some ("model.LabelName(l.Name).IsValid", []) ∧
    Gen.Chain.markInvalidAssignsIfs = 1 ∧
    Gen.Chain.invalidPrefix = "model.ReservedLabelPrefix + \"invalid_label_\"" ∧
    Gen.Chain.translateCalls = [("u.Query", []), ("vs.Get", ["paramJobName"]), ("vs.Get", ["paramHash"]),
      ("vs.Get", ["paramScheme"]), ("vs.Del", ["paramHash"]), ("vs.Del", ["paramJobName"]),
      ("vs.Del", ["paramScheme"]), ("vs.Encode", [])] ∧
    Gen.Chain.translateAssigns = [("job", "vs.Get(paramJobName)"), ("hash", "vs.Get(paramHash)"),
      ("u.Scheme", "scheme"), ("u.RawQuery", "vs.Encode()")] ∧
    Gen.Chain.translateAssignsIfs = 0 ∧
    (Gen.Chain.shippedLabels.drop 2).map (·.1) = ["supportInvalidLabelName", "labelsWithoutConfigParam"] ∧
    Gen.Inject.groupAssigns.map (·.1) = ["scheme", "address", "ls[model.LabelName(v.Name)]",
      "ls[model.LabelName(model.SchemeLabel)]",
      "ls[model.LabelName(fmt.Sprintf(\"%s%s\", model.ParamLabelPrefix, paramScheme))]",
      "ls[model.LabelName(fmt.Sprintf(\"%s%s\", model.ParamLabelPrefix, paramJobName))]",
      "ls[model.LabelName(fmt.Sprintf(\"%s%s\", model.ParamLabelPrefix, paramHash))]", "ret"] ∧
    Gen.Inject.groupAssignsIfs = 2 :=
  ⟨rfl, rfl, rfl, rfl, rfl, rfl, rfl, rfl, rfl, rfl, rfl, rfl⟩

structure WF (j : Job) (L : Labels) : Prop where
  /-- no label name contains a character that is invalid in Prometheus label names (a leading
      digit is fine: the marker prefix repairs it), and no label already carries the marker -/
  noBad : ∀ n, L (.bad n) = 0 ∧ L (.marked n) = 0 ∧ L (.dmarked n) = 0
  /-- `keys` are the keys of `params` -/
  keys : ∀ k, j.params k ≠ [] → k ∈ j.keys
  /-- relabeling left the labels of configured parameters as the configuration sets them -/
  cfgParam : ∀ k, k ∈ j.keys → L (.param k) = (j.params k).headD 0
  /-- kvass' routing parameter names are not used by the job or the target -/
  noRouting : ∀ k, k = PName.hash ∨ k = PName.jobName ∨ k = PName.scheme →
    L (.param k) = 0 ∧ j.params k = [] ∧ k ∉ j.keys
  /-- relabeling did not clear job, path or scheme (label population sets all of them) -/
  jobSet : L .job ≠ 0 ∧ L .path ≠ 0 ∧ L .scheme ≠ 0 ∧ L .inst ≠ 0
  ids : j.name ≠ 0

theorem shard_public (j : Job) (h : Val) (L : Labels) (wf : WF j L) :
    ∀ m, isPublic m = true → shardLabels j h L m = L m := by
  intro m hm
  obtain ⟨hj, hp, hs, hi⟩ := wf.jobSet
  cases m with
  | job => simp [shardLabels, shardPopulate, staticGroup, ship, markInvalid, withoutConfigParam, hj]
  | inst => simp [shardLabels, shardPopulate, staticGroup, ship, markInvalid, withoutConfigParam, hi]
  | pub n => simp [shardLabels, shardPopulate, staticGroup, ship, markInvalid, withoutConfigParam]
  | bad n =>
    have := wf.noBad n
    simp [shardLabels, shardPopulate, staticGroup, ship, markInvalid, withoutConfigParam, this.1, this.2.1]
  | digit n =>
    have := wf.noBad n
    by_cases hd : L (.digit n) = 0
    · simp [shardLabels, shardPopulate, staticGroup, ship, markInvalid, withoutConfigParam, this.2.2, hd]
    · simp [shardLabels, shardPopulate, staticGroup, ship, markInvalid, withoutConfigParam, hd]
  | dmarked n => cases hm
  | address => cases hm
  | scheme => cases hm
  | path => cases hm
  | param k => cases hm
  | internal n => cases hm
  | marked n => cases hm

/-- the `__param_<k>` labels of the shard's target, for every parameter name -/
theorem shard_param (j : Job) (h : Val) (L : Labels) (wf : WF j L) (k : PName) :
    shardLabels j h L (.param k) =
      match k with
      | .hash => h
      | .jobName => j.name
      | .scheme => L .scheme
      | .user u => L (.param (.user u)) := by
  obtain ⟨_, _, hs, _⟩ := wf.jobSet
  cases k with
  | hash =>
    have := (wf.noRouting .hash (Or.inl rfl)).2.1
    simp [shardLabels, shardPopulate, staticGroup, genJob, this]
  | jobName =>
    have := (wf.noRouting .jobName (Or.inr (Or.inl rfl))).2.1
    simp [shardLabels, shardPopulate, staticGroup, genJob, this]
  | scheme =>
    have := (wf.noRouting .scheme (Or.inr (Or.inr rfl))).2.1
    simp [shardLabels, shardPopulate, staticGroup, genJob, this, ship, markInvalid, withoutConfigParam, hs]
  | user u =>
    by_cases hk : PName.user u ∈ j.keys
    · have hc := wf.cfgParam _ hk
      cases hpar : j.params (.user u) with
      | nil =>
        rw [hpar] at hc
        simp [shardLabels, shardPopulate, staticGroup, genJob, hpar, ship, markInvalid, withoutConfigParam, hk]
        exact hc.symm
      | cons v rest =>
        rw [hpar] at hc
        simp [shardLabels, shardPopulate, genJob, hpar]
        exact hc.symm
    · have hpar : j.params (.user u) = [] := by
        cases hq : j.params (.user u) with
        | nil => rfl
        | cons v rest => exact absurd (wf.keys _ (by rw [hq]; simp)) hk
      simp [shardLabels, shardPopulate, staticGroup, genJob, hpar, ship, markInvalid, withoutConfigParam, hk]

/-- **C02 (round trip)** -/
theorem C02_roundtrip (j : Job) (h : Val) (L : Labels) (wf : WF j L) :
    (∀ m, isPublic m = true → shardLabels j h L m = L m) ∧
    (realRequest j h L).scheme = (refRequest j L).scheme ∧
    (realRequest j h L).host = (refRequest j L).host ∧
    (realRequest j h L).path = (refRequest j L).path ∧
    (∀ k, (realRequest j h L).query k = (refRequest j L).query k) ∧
    -- what the proxy is told
    (h ≠ 0 → (targetURL (genJob j) (shardLabels j h L)).query .hash = [h]) ∧
    (targetURL (genJob j) (shardLabels j h L)).query .jobName = [j.name] := by
  obtain ⟨hj, hp, hs, hi⟩ := wf.jobSet
  have hsch := shard_param j h L wf .scheme
  have hhash := shard_param j h L wf .hash
  have hjn := shard_param j h L wf .jobName
  simp only at hsch hhash hjn
  have rs := (wf.noRouting .scheme (Or.inr (Or.inr rfl)))
  have rh := (wf.noRouting .hash (Or.inl rfl))
  have rj := (wf.noRouting .jobName (Or.inr (Or.inl rfl)))
  refine ⟨shard_public j h L wf, ?_, ?_, ?_, ?_, ?_, ?_⟩
  · simp [realRequest, translateURL, targetURL, refRequest, hsch, genJob, rs.2.1, hs]
  · simp [realRequest, translateURL, targetURL, refRequest, shardLabels, shardPopulate, staticGroup, ship,
      markInvalid, withoutConfigParam]
  · simp [realRequest, translateURL, targetURL, refRequest, shardLabels, shardPopulate, staticGroup, ship,
      markInvalid, withoutConfigParam, hp]
  · intro k
    cases k with
    | hash => simp [realRequest, translateURL, refRequest, targetURL, rh.1, rh.2.1]
    | jobName => simp [realRequest, translateURL, refRequest, targetURL, rj.1, rj.2.1]
    | scheme => simp [realRequest, translateURL, refRequest, targetURL, rs.1, rs.2.1]
    | user u =>
      have := shard_param j h L wf (.user u)
      simp only at this
      simp [realRequest, translateURL, refRequest, targetURL, this, genJob]
  · intro hne
    simp [targetURL, hhash, hne, genJob, rh.2.1]
  · simp [targetURL, hjn, wf.ids, genJob, rj.2.1]

/-! ### the hypotheses are satisfiable, and each is necessary -/

def exJob : Job :=
  { name := 7, path := 8, scheme := https, keys := [.user 0],
    params := fun k => match k with | .user 0 => [5, 6] | _ => [] }

/-- final labels of an ordinary target of `exJob` -/
def exL : Labels := fun m =>
  match m with
  | .address => 20 | .scheme => https | .path => 8 | .job => 7 | .inst => 20
  | .param (.user 0) => 5 | .param (.user 1) => 9     -- `__param_target` set by relabeling
  | .pub 0 => 30 | .internal 0 => 40
  | _ => 0

theorem exL_wf : WF exJob exL where
  noBad := fun n => ⟨rfl, rfl, rfl⟩
  keys := by
    intro k hk
    cases k with
    | user u =>
      cases u with
      | zero => simp [exJob]
      | succ u => simp [exJob] at hk
    | hash => simp [exJob] at hk
    | jobName => simp [exJob] at hk
    | scheme => simp [exJob] at hk
  cfgParam := by
    intro k hk
    simp [exJob] at hk
    subst hk
    rfl
  noRouting := by
    intro k hk
    rcases hk with rfl | rfl | rfl <;> simp [exJob, exL]
  jobSet := by simp [exL, https]
  ids := by simp [exJob]

/-- a name that is invalid only for its leading digit survives the trip -/
example : shardLabels exJob 99 (set exL (.digit 4) 60) (.digit 4) = 60 ∧
    invalidName (.dmarked 4) = false := by decide

example : (realRequest exJob 99 exL).query (.user 1) = [9] ∧ (realRequest exJob 99 exL).scheme = https ∧
    (realRequest exJob 99 exL).query (.user 0) = [5, 6] := by decide

/-- (finding) relabeling changed a parameter the job also configures: the shard falls back to the
    configured value, the request differs from plain Prometheus' -/
def exRelabeledParam : Labels := set exL (.param (.user 0)) 11

example : (refRequest exJob exRelabeledParam).query (.user 0) = [11, 6] ∧
    (realRequest exJob 99 exRelabeledParam).query (.user 0) = [5, 6] := by decide

/-- (finding) a label with an invalid name is shipped under the marker prefix, which is still an
    invalid name: the generated configuration is rejected -/
def exBadName : Labels := set exL (.bad 3) 50

example : staticGroup exJob 99 (ship exJob exBadName) (.marked 3) = 50 ∧ invalidName (.marked 3) = true := by decide

/-- (finding) relabeling cleared the job label: the shard's label population puts the job name back -/
def exClearedJob : Labels := set exL .job 0

example : shardLabels exJob 99 exClearedJob .job = 7 ∧ exClearedJob .job = 0 := by decide

/-- (finding) a target parameter named like a routing parameter is swallowed by the proxy -/
def exRoutingName : Labels := set exL (.param .hash) 77

example : (refRequest exJob exRoutingName).query .hash = [77] ∧
    (realRequest exJob 99 exRoutingName).query .hash = [] := by decide

end Kvass.Props.C02
