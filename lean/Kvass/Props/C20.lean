/-
  C20 — every discovered target gets a series estimate; failed probes are retried.
  Invariants over *every* interleaving of gets, discovery updates, reloads, probe starts, probe
  results and retry timers.
-/
import Kvass.Pins.Disc
import Kvass.Model.Explore
import Kvass.Spec.Explore

namespace Kvass.Props.C20
open Kvass Kvass.Explore

/-- number of tokens (queued + in flight + sleeping) entry `id` owns -/
def tok (s : ES) (id : Nat) : Nat := s.queue.count id + s.inflight.count id + s.timers.count id

structure Inv (s : ES) : Prop where
  one : ∀ id, tok s id ≤ 1
  live : ∀ id, 0 < tok s id → ∃ e : Entry, s.objs[id]? = some e ∧ e.exploring = true ∧ e.succeeded = false
  done : ∀ (id : Nat) (e : Entry), s.objs[id]? = some e → e.succeeded = true → e.exploring = true

theorem inv_init : Inv ({} : ES) := ⟨by intro id; simp [tok], by intro id h; simp [tok] at h, by intro id e h; simp at h⟩

theorem cnt_snoc (l : List Nat) (a b : Nat) : (l ++ [b]).count a = l.count a + (if b = a then 1 else 0) := by
  rw [List.count_append, List.count_singleton]; simp

theorem cnt_erase (l : List Nat) (a b : Nat) :
    (l.erase b).count a = if a = b then l.count a - 1 else l.count a := by
  by_cases h : a = b
  · subst h; simp [List.count_erase_self]
  · simp [h, List.count_erase_of_ne h]

theorem setObj_get (s : ES) (id : Nat) (f : Entry → Entry) (k : Nat) :
    (setObj s id f).objs[k]? = if k = id then (s.objs[k]?).map f else s.objs[k]? := by
  unfold setObj
  cases h : s.objs[id]? with
  | none =>
    by_cases hk : k = id
    · subst hk; simp [h]
    · simp [hk]
  | some e =>
    simp only [List.getElem?_set]
    by_cases hk : k = id
    · subst hk
      have : k < s.objs.length := by
        rcases Nat.lt_or_ge k s.objs.length with h1 | h1
        · exact h1
        · rw [List.getElem?_eq_none h1] at h; cases h
      simp only [this, if_true, h, Option.map_some]
    · simp [hk, Ne.symm hk]

theorem setObj_tok (s : ES) (id : Nat) (f : Entry → Entry) (k : Nat) : tok (setObj s id f) k = tok s k := by
  unfold setObj tok; cases s.objs[id]? <;> rfl

/-- discovery updates only append fresh entries and never touch a token -/
theorem update_objs (s : ES) (hs : List Hash) :
    (step s (.update hs)).queue = s.queue ∧ (step s (.update hs)).inflight = s.inflight ∧
    (step s (.update hs)).timers = s.timers ∧
    ∃ fresh, (step s (.update hs)).objs = s.objs ++ fresh ∧ ∀ e ∈ fresh, e.exploring = false ∧ e.succeeded = false := by
  simp only [step]
  have gen : ∀ (hs : List Hash) (acc : ES), acc.queue = s.queue → acc.inflight = s.inflight → acc.timers = s.timers →
      (∃ fresh, acc.objs = s.objs ++ fresh ∧ ∀ e ∈ fresh, e.exploring = false ∧ e.succeeded = false) →
      let r := hs.foldl (fun (acc : ES) h =>
        if acc.table.has h then acc
        else match s.table.get h with
          | some id => if Gen.Disc.exploreKeepsEntry true then { acc with table := acc.table.set h id } else acc
          | none => { acc with objs := acc.objs ++ [{ hash := h }], table := acc.table.set h acc.objs.length }) acc
      r.queue = s.queue ∧ r.inflight = s.inflight ∧ r.timers = s.timers ∧
      ∃ fresh, r.objs = s.objs ++ fresh ∧ ∀ e ∈ fresh, e.exploring = false ∧ e.succeeded = false := by
    intro hs
    induction hs with
    | nil => intro acc h1 h2 h3 h4; exact ⟨h1, h2, h3, h4⟩
    | cons h hs ih =>
      intro acc h1 h2 h3 h4
      simp only [List.foldl_cons]
      apply ih
      · split
        · exact h1
        · split
          · split <;> exact h1
          · exact h1
      · split
        · exact h2
        · split
          · split <;> exact h2
          · exact h2
      · split
        · exact h3
        · split
          · split <;> exact h3
          · exact h3
      · split
        · exact h4
        · split
          · split <;> exact h4
          · obtain ⟨fresh, e1, e2⟩ := h4
            refine ⟨fresh ++ [{ hash := h }], by simp [e1, List.append_assoc], ?_⟩
            intro e he
            rcases List.mem_append.mp he with he | he
            · exact e2 e he
            · simp at he; subst he; exact ⟨rfl, rfl⟩
  exact gen hs { s with table := [] } rfl rfl rfl ⟨[], by simp, by simp⟩

theorem getElem?_append_some {α} {l l' : List α} {i : Nat} {a : α} (h : l[i]? = some a) : (l ++ l')[i]? = some a := by
  have : i < l.length := by
    rcases Nat.lt_or_ge i l.length with h1 | h1
    · exact h1
    · rw [List.getElem?_eq_none h1] at h; cases h
  rw [List.getElem?_append_left this]; exact h

/-- **C20 (tokens)**: whatever happens, an entry owns at most one token (it is queued, or being
    probed, or waiting for its retry — never two of these, never twice), a token exists only for an
    entry that was asked for and has not yet been probed successfully, and a successfully probed
    entry stays marked as explored. -/
theorem step_inv (s : ES) (op : Op) (inv : Inv s) : Inv (step s op) := by
  cases op with
  | get h =>
    simp only [step]
    split
    · exact inv
    · rename_i id hid
      split
      · exact inv
      · rename_i e he
        split
        · rename_i hst
          have hne : e.exploring = false := by simpa [Gen.Disc.getStarts] using hst
          have h0 : tok s id = 0 := by
            rcases Nat.eq_zero_or_pos (tok s id) with h | h
            · exact h
            · obtain ⟨e', he', hx, _⟩ := inv.live id h
              rw [he] at he'; cases he'; rw [hne] at hx; cases hx
          have htok : ∀ k, tok { setObj s id (fun e => { e with exploring := true }) with
              queue := s.queue ++ [id] } k = tok s k + (if id = k then 1 else 0) := by
            intro k
            have := setObj_tok s id (fun e => { e with exploring := true }) k
            unfold tok at this ⊢
            simp only [cnt_snoc]
            unfold setObj at this ⊢
            cases s.objs[id]? <;> simp only at this ⊢ <;> omega
          refine ⟨?_, ?_, ?_⟩
          · intro k; rw [htok]; have := inv.one k; by_cases hk : id = k
            · subst hk; simp; omega
            · simp [hk]; exact this
          · intro k hk
            rw [htok] at hk
            show ∃ e', (setObj s id (fun e => { e with exploring := true })).objs[k]? = some e' ∧ _
            rw [setObj_get]
            by_cases hki : k = id
            · subst hki
              refine ⟨{ e with exploring := true }, by simp [he], rfl, ?_⟩
              cases hs : e.succeeded with
              | false => rfl
              | true => have := inv.done k e he hs; rw [hne] at this; cases this
            · have : (if id = k then 1 else 0) = 0 := by simp [Ne.symm hki]
              rw [this] at hk
              simp only [hki, if_false]
              exact inv.live k (by omega)
          · intro k e' hk hs
            have hk' : (setObj s id (fun e => { e with exploring := true })).objs[k]? = some e' := hk
            rw [setObj_get] at hk'
            by_cases hki : k = id
            · subst hki
              simp only [if_true, he, Option.map_some] at hk'
              cases hk'; rfl
            · simp only [hki, if_false] at hk'
              exact inv.done k e' hk' hs
        · exact inv
  | update hs =>
    obtain ⟨hq, hi, ht, fresh, hobjs, hfresh⟩ := update_objs s hs
    have htok : ∀ k, tok (step s (.update hs)) k = tok s k := by intro k; unfold tok; rw [hq, hi, ht]
    refine ⟨fun k => by rw [htok]; exact inv.one k, ?_, ?_⟩
    · intro k hk
      rw [htok] at hk
      obtain ⟨e, he, h1, h2⟩ := inv.live k hk
      exact ⟨e, by rw [hobjs]; exact getElem?_append_some he, h1, h2⟩
    · intro k e hk hs'
      rw [hobjs] at hk
      rcases Nat.lt_or_ge k s.objs.length with hlt | hge
      · rw [List.getElem?_append_left hlt] at hk
        exact inv.done k e hk hs'
      · rw [List.getElem?_append_right hge] at hk
        have := hfresh e (List.mem_of_getElem? hk)
        rw [this.2] at hs'; cases hs'
  | prune keep =>
    exact ⟨inv.one, inv.live, inv.done⟩
  | start id =>
    simp only [step]
    split
    · rename_i hc
      have hpos : 0 < s.queue.count id := by rw [List.count_pos_iff]; simpa using hc
      have htok : ∀ k, tok { s with queue := s.queue.erase id, inflight := s.inflight ++ [id] } k = tok s k := by
        intro k; unfold tok; simp only [cnt_erase, cnt_snoc]
        by_cases hk : k = id
        · subst hk; simp; omega
        · simp [hk, Ne.symm hk]
      exact ⟨fun k => by rw [htok]; exact inv.one k, fun k hk => by rw [htok] at hk; exact inv.live k hk, inv.done⟩
    · exact inv
  | finish id r =>
    simp only [step]
    split
    · exact inv
    · rename_i hc
      have hmem : s.inflight.contains id = true := by simpa using hc
      have hpos : 0 < s.inflight.count id := by rw [List.count_pos_iff]; simpa using hmem
      have hlive := inv.live id (by unfold tok; omega)
      have hone := inv.one id
      cases r with
      | none =>
        simp only [Gen.Disc.probeFailed, Bool.not_false, if_true]
        have htok : ∀ k, tok { s with inflight := s.inflight.erase id, timers := s.timers ++ [id] } k = tok s k := by
          intro k; unfold tok; simp only [cnt_erase, cnt_snoc]
          by_cases hk : k = id
          · subst hk; simp; omega
          · simp [hk, Ne.symm hk]
        exact ⟨fun k => by rw [htok]; exact inv.one k, fun k hk => by rw [htok] at hk; exact inv.live k hk, inv.done⟩
      | some c =>
        simp only
        have htok : ∀ k, tok (setObj { s with inflight := s.inflight.erase id } id
            (fun e => { e with succeeded := true, est := some c })) k = if k = id then 0 else tok s k := by
          intro k
          rw [setObj_tok]
          unfold tok at hone ⊢
          simp only [cnt_erase]
          by_cases hk : k = id
          · subst hk; simp; omega
          · simp [hk]
        refine ⟨?_, ?_, ?_⟩
        · intro k; rw [htok]; split
          · omega
          · exact inv.one k
        · intro k hk
          rw [htok] at hk
          by_cases hki : k = id
          · simp [hki] at hk
          · simp only [hki, if_false] at hk
            rw [setObj_get]; simp only [hki, if_false]
            exact inv.live k hk
        · intro k e hk hs'
          rw [setObj_get] at hk
          by_cases hki : k = id
          · subst hki
            obtain ⟨e0, he0, hx, _⟩ := hlive
            simp only [if_true] at hk
            have he0' : ({ s with inflight := s.inflight.erase k } : ES).objs[k]? = some e0 := he0
            rw [he0'] at hk
            simp only [Option.map_some] at hk
            cases hk; exact hx
          · simp only [hki, if_false] at hk
            exact inv.done k e hk hs'
  | timer id =>
    simp only [step]
    split
    · exact inv
    · rename_i hc
      have hmem : s.timers.contains id = true := by simpa using hc
      have hpos : 0 < s.timers.count id := by rw [List.count_pos_iff]; simpa using hmem
      have hone := inv.one id
      have hle : ∀ k, tok { s with timers := s.timers.erase id } k ≤ tok s k := by
        intro k; unfold tok; simp only [cnt_erase]; split <;> omega
      split
      · refine ⟨fun k => Nat.le_trans (hle k) (inv.one k), fun k hk => inv.live k (Nat.lt_of_lt_of_le hk (hle k)), inv.done⟩
      · split
        · have htok : ∀ k, tok { s with timers := s.timers.erase id, queue := s.queue ++ [id] } k = tok s k := by
            intro k; unfold tok; simp only [cnt_erase, cnt_snoc]
            by_cases hk : k = id
            · subst hk; simp; omega
            · simp [hk, Ne.symm hk]
          exact ⟨fun k => by rw [htok]; exact inv.one k, fun k hk => by rw [htok] at hk; exact inv.live k hk, inv.done⟩
        · refine ⟨fun k => Nat.le_trans (hle k) (inv.one k), fun k hk => inv.live k (Nat.lt_of_lt_of_le hk (hle k)), inv.done⟩

/-- the invariant holds after every history -/
theorem C20_tokens (ops : List Op) : Inv (run ops) := by
  unfold run
  have : ∀ (ops : List Op) (s : ES), Inv s → Inv (ops.foldl step s) := by
    intro ops
    induction ops with
    | nil => intro s h; exact h
    | cons op ops ih => intro s h; exact ih _ (step_inv s op h)
  exact this ops ({} : ES) inv_init

/-- **C20 (one probe per target)**: after every history, a target identity (entry) is in flight at
    most once, and among the probes in flight at most one belongs to the currently listed entry of a hash. -/
theorem C20_one_in_flight (ops : List Op) (id : Nat) : (run ops).inflight.count id ≤ 1 := by
  have := (C20_tokens ops).one id; unfold tok at this; omega

/-- **C20 (no probe after success)**: a successfully probed entry holds no token, and asking for
    it again does not create one. -/
theorem C20_after_success (ops : List Op) (id : Nat) (e : Entry)
    (he : (run ops).objs[id]? = some e) (hs : e.succeeded = true) :
    tok (run ops) id = 0 ∧ ∀ h, (run ops).table.get h = some id → step (run ops) (.get h) = run ops := by
  have inv := C20_tokens ops
  refine ⟨?_, ?_⟩
  · rcases Nat.eq_zero_or_pos (tok (run ops) id) with h | h
    · exact h
    · obtain ⟨e', he', _, hx⟩ := inv.live id h
      rw [he] at he'; cases he'; rw [hs] at hx; cases hx
  · intro h hh
    simp only [step, hh, he, Gen.Disc.getStarts, inv.done id e he hs, Bool.not_true, Bool.false_eq_true, if_false]

/-- **C20 (retry)**: a failed probe arms exactly one retry timer; when it fires the entry is queued
    again iff it is still the listed entry of its hash (a target that disappeared, or disappeared and
    was discovered again as a new entry, is not retried through the old one). -/
theorem C20_retry (s : ES) (id : Nat) (e : Entry) (hin : id ∈ s.inflight) (he : s.objs[id]? = some e) :
    (step s (.finish id none)).timers = s.timers ++ [id] ∧
    ∀ s', id ∈ s'.timers → s'.objs[id]? = some e →
      ((step s' (.timer id)).queue = if s'.table.get e.hash = some id then s'.queue ++ [id] else s'.queue) := by
  constructor
  · simp [step, hin, Gen.Disc.probeFailed]
  · intro s' hm he'
    simp only [step]
    have : s'.timers.contains id = true := by simpa using hm
    simp only [this, Bool.not_true, Bool.false_eq_true, if_false, he', Gen.Disc.retryRequeues]
    by_cases hl : s'.table.get e.hash = some id
    · simp [hl]
    · simp [hl]

/-- **C20 (estimate)**: the estimate is exactly the counts of the successful probe -/
theorem C20_estimate (s : ES) (id : Nat) (e : Entry) (c : Int × Int) (hin : id ∈ s.inflight) (he : s.objs[id]? = some e) :
    (step s (.finish id (some c))).objs[id]? = some { e with succeeded := true, est := some c } := by
  simp only [step]
  have : s.inflight.contains id = true := by simpa using hin
  simp only [this, Bool.not_true, Bool.false_eq_true, if_false]
  rw [setObj_get]; simp [he]

/-- **C20 (refinement)**: the model, with the conditions extracted from explore.go, takes exactly the
    steps of the reference semantics written from the property text. -/
theorem step_eq_spec (s : ES) (op : Op) : step s op = Spec.C20.specStep s op := by
  cases op with
  | get h =>
    simp only [step, Spec.C20.specStep]
    cases s.table.get h with
    | none => rfl
    | some id =>
      simp only
      cases s.objs[id]? with
      | none => rfl
      | some e => simp only [Gen.Disc.getStarts]; rfl
  | update hs =>
    simp only [step, Spec.C20.specStep, Gen.Disc.exploreKeepsEntry, if_true]
    try rfl
  | prune k => rfl
  | start id => rfl
  | finish id r =>
    simp only [step, Spec.C20.specStep]
    split
    · rfl
    · cases r with
      | none => simp only [Gen.Disc.probeFailed, Bool.not_false, if_true]
      | some c => rfl
  | timer id =>
    simp only [step, Spec.C20.specStep]
    split
    · rfl
    · cases (({ s with timers := s.timers.erase id } : ES).objs[id]?) with
      | none => rfl
      | some e => simp only [Gen.Disc.retryRequeues, decide_eq_true_eq]; try rfl

/-- non-vacuity: fail, retry, succeed; then remove + re-add: the stale timer does not requeue -/
example : (run [.update [7], .get 7, .start 0, .finish 0 none, .update [], .update [7], .get 7, .timer 0]).queue = [1] := by decide

end Kvass.Props.C20
