/-
  C20 — every discovered target gets a series estimate; failed probes are retried.
  Invariants over *every* interleaving of gets, discovery updates, reloads, probe starts, probe
  results and retry timers.
-/
import Kvass.Pins.Disc
import Kvass.Pins.Coord
import Kvass.Pins.Proxy
import Kvass.Model.Explore
import Kvass.Spec.Explore
import Kvass.Proofs.AL

namespace Kvass.Props.C20
open Kvass Kvass.Explore

/-- number of tokens (queued + in flight + sleeping) entry `id` owns -/
def tok (s : ES) (id : Nat) : Nat := s.queue.count id + s.inflight.count id + s.timers.count id

structure Inv (s : ES) : Prop where
  one : ∀ id, tok s id ≤ 1
  live : ∀ id, 0 < tok s id → ∃ e : Entry, s.objs[id]? = some e ∧ e.exploring = true ∧ e.succeeded = false
  done : ∀ (id : Nat) (e : Entry), s.objs[id]? = some e → e.succeeded = true → e.exploring = true

theorem inv_init : Inv ({} : ES) := ⟨by intro id; simp [tok], by intro id h; simp [tok] at h, by intro id e h; simp at h⟩

theorem cnt_snoc (l : List Nat) (a b : Nat) : (l ++ [b]).count a = l.count a + (if b = a then 1 else 0) := by
  rw [List.count_append, List.count_singleton]; simp

theorem cnt_erase (l : List Nat) (a b : Nat) :
    (l.erase b).count a = if a = b then l.count a - 1 else l.count a := by
  by_cases h : a = b
  · subst h; simp [List.count_erase_self]
  · simp [h, List.count_erase_of_ne h]

theorem setObj_get (s : ES) (id : Nat) (f : Entry → Entry) (k : Nat) :
    (setObj s id f).objs[k]? = if k = id then (s.objs[k]?).map f else s.objs[k]? := by
  unfold setObj
  cases h : s.objs[id]? with
  | none =>
    by_cases hk : k = id
    · subst hk; simp [h]
    · simp [hk]
  | some e =>
    simp only [List.getElem?_set]
    by_cases hk : k = id
    · subst hk
      have : k < s.objs.length := by
        rcases Nat.lt_or_ge k s.objs.length with h1 | h1
        · exact h1
        · rw [List.getElem?_eq_none h1] at h; cases h
      simp only [this, if_true, h, Option.map_some]
    · simp [hk, Ne.symm hk]

theorem setObj_tok (s : ES) (id : Nat) (f : Entry → Entry) (k : Nat) : tok (setObj s id f) k = tok s k := by
  unfold setObj tok; cases s.objs[id]? <;> rfl

/-- discovery updates only append fresh entries and never touch a token -/
theorem update_objs (s : ES) (hs : List Hash) :
    (step s (.update hs)).queue = s.queue ∧ (step s (.update hs)).inflight = s.inflight ∧
    (step s (.update hs)).timers = s.timers ∧
    ∃ fresh, (step s (.update hs)).objs = s.objs ++ fresh ∧ ∀ e ∈ fresh, e.exploring = false ∧ e.succeeded = false := by
  simp only [step]
  have gen : ∀ (hs : List Hash) (acc : ES), acc.queue = s.queue → acc.inflight = s.inflight → acc.timers = s.timers →
      (∃ fresh, acc.objs = s.objs ++ fresh ∧ ∀ e ∈ fresh, e.exploring = false ∧ e.succeeded = false) →
      let r := hs.foldl (fun (acc : ES) h =>
        if acc.table.has h then acc
        else match s.table.get h with
          | some id => if Gen.Disc.exploreKeepsEntry true then { acc with table := acc.table.set h id } else acc
          | none => { acc with objs := acc.objs ++ [{ hash := h }], table := acc.table.set h acc.objs.length }) acc
      r.queue = s.queue ∧ r.inflight = s.inflight ∧ r.timers = s.timers ∧
      ∃ fresh, r.objs = s.objs ++ fresh ∧ ∀ e ∈ fresh, e.exploring = false ∧ e.succeeded = false := by
    intro hs
    induction hs with
    | nil => intro acc h1 h2 h3 h4; exact ⟨h1, h2, h3, h4⟩
    | cons h hs ih =>
      intro acc h1 h2 h3 h4
      simp only [List.foldl_cons]
      apply ih
      · split
        · exact h1
        · split
          · split <;> exact h1
          · exact h1
      · split
        · exact h2
        · split
          · split <;> exact h2
          · exact h2
      · split
        · exact h3
        · split
          · split <;> exact h3
          · exact h3
      · split
        · exact h4
        · split
          · split <;> exact h4
          · obtain ⟨fresh, e1, e2⟩ := h4
            refine ⟨fresh ++ [{ hash := h }], by simp [e1, List.append_assoc], ?_⟩
            intro e he
            rcases List.mem_append.mp he with he | he
            · exact e2 e he
            · simp at he; subst he; exact ⟨rfl, rfl⟩
  exact gen hs { s with table := [] } rfl rfl rfl ⟨[], by simp, by simp⟩

theorem getElem?_append_some {α} {l l' : List α} {i : Nat} {a : α} (h : l[i]? = some a) : (l ++ l')[i]? = some a := by
  have : i < l.length := by
    rcases Nat.lt_or_ge i l.length with h1 | h1
    · exact h1
    · rw [List.getElem?_eq_none h1] at h; cases h
  rw [List.getElem?_append_left this]; exact h

/-- **C20 (tokens)**: whatever happens, an entry owns at most one token (it is queued, or being
    probed, or waiting for its retry — never two of these, never twice), a token exists only for an
    entry that was asked for and has not yet been probed successfully, and a successfully probed
    entry stays marked as explored. -/
theorem step_inv (s : ES) (op : Op) (inv : Inv s) : Inv (step s op) := by
  cases op with
  | get h =>
    simp only [step]
    split
    · exact inv
    · rename_i id hid
      split
      · exact inv
      · rename_i e he
        split
        · rename_i hst
          have hne : e.exploring = false := by simpa [Gen.Disc.getStarts] using hst
          have h0 : tok s id = 0 := by
            rcases Nat.eq_zero_or_pos (tok s id) with h | h
            · exact h
            · obtain ⟨e', he', hx, _⟩ := inv.live id h
              rw [he] at he'; cases he'; rw [hne] at hx; cases hx
          have htok : ∀ k, tok { setObj s id (fun e => { e with exploring := true }) with
              queue := s.queue ++ [id] } k = tok s k + (if id = k then 1 else 0) := by
            intro k
            have := setObj_tok s id (fun e => { e with exploring := true }) k
            unfold tok at this ⊢
            simp only [cnt_snoc]
            unfold setObj at this ⊢
            cases s.objs[id]? <;> simp only at this ⊢ <;> omega
          refine ⟨?_, ?_, ?_⟩
          · intro k; rw [htok]; have := inv.one k; by_cases hk : id = k
            · subst hk; simp; omega
            · simp [hk]; exact this
          · intro k hk
            rw [htok] at hk
            show ∃ e', (setObj s id (fun e => { e with exploring := true })).objs[k]? = some e' ∧ _
            rw [setObj_get]
            by_cases hki : k = id
            · subst hki
              refine ⟨{ e with exploring := true }, by simp [he], rfl, ?_⟩
              cases hs : e.succeeded with
              | false => rfl
              | true => have := inv.done k e he hs; rw [hne] at this; cases this
            · have : (if id = k then 1 else 0) = 0 := by simp [Ne.symm hki]
              rw [this] at hk
              simp only [hki, if_false]
              exact inv.live k (by omega)
          · intro k e' hk hs
            have hk' : (setObj s id (fun e => { e with exploring := true })).objs[k]? = some e' := hk
            rw [setObj_get] at hk'
            by_cases hki : k = id
            · subst hki
              simp only [if_true, he, Option.map_some] at hk'
              cases hk'; rfl
            · simp only [hki, if_false] at hk'
              exact inv.done k e' hk' hs
        · exact inv
  | update hs =>
    obtain ⟨hq, hi, ht, fresh, hobjs, hfresh⟩ := update_objs s hs
    have htok : ∀ k, tok (step s (.update hs)) k = tok s k := by intro k; unfold tok; rw [hq, hi, ht]
    refine ⟨fun k => by rw [htok]; exact inv.one k, ?_, ?_⟩
    · intro k hk
      rw [htok] at hk
      obtain ⟨e, he, h1, h2⟩ := inv.live k hk
      exact ⟨e, by rw [hobjs]; exact getElem?_append_some he, h1, h2⟩
    · intro k e hk hs'
      rw [hobjs] at hk
      rcases Nat.lt_or_ge k s.objs.length with hlt | hge
      · rw [List.getElem?_append_left hlt] at hk
        exact inv.done k e hk hs'
      · rw [List.getElem?_append_right hge] at hk
        have := hfresh e (List.mem_of_getElem? hk)
        rw [this.2] at hs'; cases hs'
  | prune keep =>
    exact ⟨inv.one, inv.live, inv.done⟩
  | start id =>
    simp only [step]
    split
    · rename_i hc
      have hpos : 0 < s.queue.count id := by rw [List.count_pos_iff]; simpa using hc
      have htok : ∀ k, tok { s with queue := s.queue.erase id, inflight := s.inflight ++ [id] } k = tok s k := by
        intro k; unfold tok; simp only [cnt_erase, cnt_snoc]
        by_cases hk : k = id
        · subst hk; simp; omega
        · simp [hk, Ne.symm hk]
      exact ⟨fun k => by rw [htok]; exact inv.one k, fun k hk => by rw [htok] at hk; exact inv.live k hk, inv.done⟩
    · exact inv
  | finish id r =>
    simp only [step]
    split
    · exact inv
    · rename_i hc
      have hmem : s.inflight.contains id = true := by simpa using hc
      have hpos : 0 < s.inflight.count id := by rw [List.count_pos_iff]; simpa using hmem
      have hlive := inv.live id (by unfold tok; omega)
      have hone := inv.one id
      cases r with
      | none =>
        simp only [Gen.Disc.probeFailed, Bool.not_false, if_true]
        have htok : ∀ k, tok { s with inflight := s.inflight.erase id, timers := s.timers ++ [id] } k = tok s k := by
          intro k; unfold tok; simp only [cnt_erase, cnt_snoc]
          by_cases hk : k = id
          · subst hk; simp; omega
          · simp [hk, Ne.symm hk]
        exact ⟨fun k => by rw [htok]; exact inv.one k, fun k hk => by rw [htok] at hk; exact inv.live k hk, inv.done⟩
      | some c =>
        simp only
        have htok : ∀ k, tok (setObj { s with inflight := s.inflight.erase id } id
            (fun e => { e with succeeded := true, est := some c })) k = if k = id then 0 else tok s k := by
          intro k
          rw [setObj_tok]
          unfold tok at hone ⊢
          simp only [cnt_erase]
          by_cases hk : k = id
          · subst hk; simp; omega
          · simp [hk]
        refine ⟨?_, ?_, ?_⟩
        · intro k; rw [htok]; split
          · omega
          · exact inv.one k
        · intro k hk
          rw [htok] at hk
          by_cases hki : k = id
          · simp [hki] at hk
          · simp only [hki, if_false] at hk
            rw [setObj_get]; simp only [hki, if_false]
            exact inv.live k hk
        · intro k e hk hs'
          rw [setObj_get] at hk
          by_cases hki : k = id
          · subst hki
            obtain ⟨e0, he0, hx, _⟩ := hlive
            simp only [if_true] at hk
            have he0' : ({ s with inflight := s.inflight.erase k } : ES).objs[k]? = some e0 := he0
            rw [he0'] at hk
            simp only [Option.map_some] at hk
            cases hk; exact hx
          · simp only [hki, if_false] at hk
            exact inv.done k e hk hs'
  | timer id =>
    simp only [step]
    split
    · exact inv
    · rename_i hc
      have hmem : s.timers.contains id = true := by simpa using hc
      have hpos : 0 < s.timers.count id := by rw [List.count_pos_iff]; simpa using hmem
      have hone := inv.one id
      have hle : ∀ k, tok { s with timers := s.timers.erase id } k ≤ tok s k := by
        intro k; unfold tok; simp only [cnt_erase]; split <;> omega
      split
      · refine ⟨fun k => Nat.le_trans (hle k) (inv.one k), fun k hk => inv.live k (Nat.lt_of_lt_of_le hk (hle k)), inv.done⟩
      · split
        · have htok : ∀ k, tok { s with timers := s.timers.erase id, queue := s.queue ++ [id] } k = tok s k := by
            intro k; unfold tok; simp only [cnt_erase, cnt_snoc]
            by_cases hk : k = id
            · subst hk; simp; omega
            · simp [hk, Ne.symm hk]
          exact ⟨fun k => by rw [htok]; exact inv.one k, fun k hk => by rw [htok] at hk; exact inv.live k hk, inv.done⟩
        · refine ⟨fun k => Nat.le_trans (hle k) (inv.one k), fun k hk => inv.live k (Nat.lt_of_lt_of_le hk (hle k)), inv.done⟩

/-- the invariant holds after every history -/
theorem C20_tokens (ops : List Op) : Inv (run ops) := by
  unfold run
  have : ∀ (ops : List Op) (s : ES), Inv s → Inv (ops.foldl step s) := by
    intro ops
    induction ops with
    | nil => intro s h; exact h
    | cons op ops ih => intro s h; exact ih _ (step_inv s op h)
  exact this ops ({} : ES) inv_init

/-- **C20 (one probe per target)**: after every history, a target identity (entry) is in flight at
    most once, and among the probes in flight at most one belongs to the currently listed entry of a hash. -/
theorem C20_one_in_flight (ops : List Op) (id : Nat) : (run ops).inflight.count id ≤ 1 := by
  have := (C20_tokens ops).one id; unfold tok at this; omega

/-- **C20 (no probe after success)**: a successfully probed entry holds no token, and asking for
    it again does not create one. -/
theorem C20_after_success (ops : List Op) (id : Nat) (e : Entry)
    (he : (run ops).objs[id]? = some e) (hs : e.succeeded = true) :
    tok (run ops) id = 0 ∧ ∀ h, (run ops).table.get h = some id → step (run ops) (.get h) = run ops := by
  have inv := C20_tokens ops
  refine ⟨?_, ?_⟩
  · rcases Nat.eq_zero_or_pos (tok (run ops) id) with h | h
    · exact h
    · obtain ⟨e', he', _, hx⟩ := inv.live id h
      rw [he] at he'; cases he'; rw [hs] at hx; cases hx
  · intro h hh
    simp only [step, hh, he, Gen.Disc.getStarts, inv.done id e he hs, Bool.not_true, Bool.false_eq_true, if_false]

/-- **C20 (retry)**: a failed probe arms exactly one retry timer; when it fires the entry is queued
    again iff it is still the listed entry of its hash (a target that disappeared, or disappeared and
    was discovered again as a new entry, is not retried through the old one). -/
theorem C20_retry (s : ES) (id : Nat) (e : Entry) (hin : id ∈ s.inflight) (he : s.objs[id]? = some e) :
    (step s (.finish id none)).timers = s.timers ++ [id] ∧
    ∀ s', id ∈ s'.timers → s'.objs[id]? = some e →
      ((step s' (.timer id)).queue = if s'.table.get e.hash = some id then s'.queue ++ [id] else s'.queue) := by
  constructor
  · simp [step, hin, Gen.Disc.probeFailed]
  · intro s' hm he'
    simp only [step]
    have : s'.timers.contains id = true := by simpa using hm
    simp only [this, Bool.not_true, Bool.false_eq_true, if_false, he', Gen.Disc.retryRequeues]
    by_cases hl : s'.table.get e.hash = some id
    · simp [hl]
    · simp [hl]

/-- **C20 (estimate)**: the estimate is exactly the counts of the successful probe -/
theorem C20_estimate (s : ES) (id : Nat) (e : Entry) (c : Int × Int) (hin : id ∈ s.inflight) (he : s.objs[id]? = some e) :
    (step s (.finish id (some c))).objs[id]? = some { e with succeeded := true, est := some c } := by
  simp only [step]
  have : s.inflight.contains id = true := by simpa using hin
  simp only [this, Bool.not_true, Bool.false_eq_true, if_false]
  rw [setObj_get]; simp [he]

/-- **C20 (refinement)**: the model, with the conditions extracted from explore.go, takes exactly the
    steps of the reference semantics written from the property text. -/
theorem step_eq_spec (s : ES) (op : Op) : step s op = Spec.C20.specStep s op := by
  cases op with
  | get h =>
    simp only [step, Spec.C20.specStep]
    cases s.table.get h with
    | none => rfl
    | some id =>
      simp only
      cases s.objs[id]? with
      | none => rfl
      | some e => simp only [Gen.Disc.getStarts]; rfl
  | update hs =>
    simp only [step, Spec.C20.specStep, Gen.Disc.exploreKeepsEntry, if_true]
    try rfl
  | prune k => rfl
  | start id => rfl
  | finish id r =>
    simp only [step, Spec.C20.specStep]
    split
    · rfl
    · cases r with
      | none => simp only [Gen.Disc.probeFailed, Bool.not_false, if_true]
      | some c => rfl
  | timer id =>
    simp only [step, Spec.C20.specStep]
    split
    · rfl
    · cases (({ s with timers := s.timers.erase id } : ES).objs[id]?) with
      | none => rfl
      | some e => simp only [Gen.Disc.retryRequeues, decide_eq_true_eq]; try rfl

/-! ### the scheduling side: a listed target that was asked for and has not succeeded is never dropped -/

/-- the table maps a hash to an entry of that hash; a listed entry that was asked for and has not yet
    been probed successfully owns exactly one token — it is queued, being probed, or waiting for its
    retry -/
structure Live (s : ES) : Prop where
  keyed : ∀ h id, s.table.get h = some id → ∃ e, s.objs[id]? = some e ∧ e.hash = h
  pending : ∀ h id e, s.table.get h = some id → s.objs[id]? = some e → e.exploring = true → e.succeeded = false →
    tok s id = 1

theorem live_init : Live ({} : ES) := ⟨by intro h id hg; simp [AL.get] at hg, by intro h id e hg; simp [AL.get] at hg⟩

theorem get_filter_sub {α} (m : AL α) (pk : Hash → Bool) (h : Hash) (v : α)
    (hg : AL.get (m.filter fun p => pk p.1) h = some v) : AL.get m h = some v := by
  induction m with
  | nil => simp [AL.get] at hg
  | cons e m ih =>
    obtain ⟨k, x⟩ := e
    by_cases hp : pk k = true
    · rw [List.filter_cons_of_pos (by simpa using hp)] at hg
      rw [AL.get_cons] at hg ⊢
      split
      · rename_i hk; rw [if_pos hk] at hg; exact hg
      · rename_i hk; rw [if_neg hk] at hg; exact ih hg
    · rw [List.filter_cons_of_neg (by simpa using hp)] at hg
      rw [AL.get_cons]
      split
      · rename_i hk
        subst hk
        -- `h` is filtered out of the rest as well
        exfalso
        have : ∀ (m : AL α), AL.get (m.filter fun p => pk p.1) k = none := by
          intro m
          induction m with
          | nil => rfl
          | cons e m ih2 =>
            obtain ⟨k2, x2⟩ := e
            by_cases hp2 : pk k2 = true
            · rw [List.filter_cons_of_pos (by simpa using hp2), AL.get_cons]
              split
              · rename_i e2; subst e2; exact absurd hp2 hp
              · exact ih2
            · rw [List.filter_cons_of_neg (by simpa using hp2)]; exact ih2
        rw [this m] at hg; cases hg
      · exact ih hg

/-- the table after a discovery update: an old entry kept for its hash, or a fresh one -/
theorem update_table (s : ES) (hs : List Hash) (h : Hash) (id : Nat)
    (hg : (step s (.update hs)).table.get h = some id) :
    s.table.get h = some id ∨ (s.objs.length ≤ id ∧ (step s (.update hs)).objs[id]? = some { hash := h }) := by
  simp only [step] at hg ⊢
  have gen : ∀ (hs : List Hash) (acc : ES),
      (∃ fresh, acc.objs = s.objs ++ fresh) →
      (∀ h id, acc.table.get h = some id → s.table.get h = some id ∨ (s.objs.length ≤ id ∧ acc.objs[id]? = some { hash := h })) →
      let r := hs.foldl (fun (acc : ES) h =>
        if acc.table.has h then acc
        else match s.table.get h with
          | some id => if Gen.Disc.exploreKeepsEntry true then { acc with table := acc.table.set h id } else acc
          | none => { acc with objs := acc.objs ++ [{ hash := h }], table := acc.table.set h acc.objs.length }) acc
      ∀ h id, r.table.get h = some id → s.table.get h = some id ∨ (s.objs.length ≤ id ∧ r.objs[id]? = some { hash := h }) := by
    intro hs
    induction hs with
    | nil => intro acc _ h2; exact h2
    | cons x hs ih =>
      intro acc h1 h2
      simp only [List.foldl_cons]
      apply ih
      · split
        · exact h1
        · split
          · split <;> exact h1
          · obtain ⟨fresh, e1⟩ := h1
            exact ⟨fresh ++ [{ hash := x }], by simp [e1, List.append_assoc]⟩
      · split
        · exact h2
        · split
          · rename_i id0 hid0
            split
            · intro h' id' hg'
              simp only at hg'
              rw [AL.get_set] at hg'
              split at hg'
              · rename_i e; subst e; cases hg'; exact Or.inl hid0
              · exact h2 h' id' hg'
            · exact h2
          · rename_i hnone
            intro h' id' hg'
            simp only at hg' ⊢
            rw [AL.get_set] at hg'
            split at hg'
            · rename_i e; subst e; cases hg'
              obtain ⟨fresh, e1⟩ := h1
              refine Or.inr ⟨by rw [e1]; simp, ?_⟩
              rw [List.getElem?_append_right (Nat.le_refl _)]; simp
            · rcases h2 h' id' hg' with hl | ⟨hr1, hr2⟩
              · exact Or.inl hl
              · exact Or.inr ⟨hr1, getElem?_append_some hr2⟩
  exact gen hs { s with table := [] } ⟨[], by simp⟩ (by intro h id hg; simp [AL.get] at hg) h id hg

theorem step_live (s : ES) (op : Op) (inv : Inv s) (lv : Live s) : Live (step s op) := by
  cases op with
  | get h0 =>
    simp only [step]
    split
    · exact lv
    · rename_i id hid
      split
      · exact lv
      · rename_i e he
        split
        · rename_i hst
          have hne : e.exploring = false := by simpa [Gen.Disc.getStarts] using hst
          have h0 : tok s id = 0 := by
            rcases Nat.eq_zero_or_pos (tok s id) with h | h
            · exact h
            · obtain ⟨e', he', hx, _⟩ := inv.live id h
              rw [he] at he'; cases he'; rw [hne] at hx; cases hx
          have htok : ∀ k, tok { setObj s id (fun e => { e with exploring := true }) with
              queue := s.queue ++ [id] } k = tok s k + (if id = k then 1 else 0) := by
            intro k
            have := setObj_tok s id (fun e => { e with exploring := true }) k
            unfold tok at this ⊢
            simp only [cnt_snoc]
            unfold setObj at this ⊢
            cases s.objs[id]? <;> simp only at this ⊢ <;> omega
          have htab : ({ setObj s id (fun e => { e with exploring := true }) with queue := s.queue ++ [id] } : ES).table = s.table := by
            unfold setObj; cases s.objs[id]? <;> rfl
          constructor
          · intro h k hg
            rw [htab] at hg
            obtain ⟨e', he', hh⟩ := lv.keyed h k hg
            show ∃ e'', (setObj s id (fun e => { e with exploring := true })).objs[k]? = some e'' ∧ _
            rw [setObj_get]
            by_cases hki : k = id
            · subst hki; simp only [if_true, he', Option.map_some]; exact ⟨_, rfl, hh⟩
            · simp only [hki, if_false]; exact ⟨e', he', hh⟩
          · intro h k e' hg hk hx hs'
            rw [htab] at hg
            rw [htok]
            have hk' : (setObj s id (fun e => { e with exploring := true })).objs[k]? = some e' := hk
            rw [setObj_get] at hk'
            by_cases hki : k = id
            · subst hki; simp [h0]
            · simp only [hki, if_false] at hk'
              have := lv.pending h k e' hg hk' hx hs'
              have hne' : ¬ id = k := fun e => hki e.symm
              simp [hne', this]
        · exact lv
  | update hs =>
    obtain ⟨hq, hi, ht, fresh, hobjs, hfresh⟩ := update_objs s hs
    have htok : ∀ k, tok (step s (.update hs)) k = tok s k := by intro k; unfold tok; rw [hq, hi, ht]
    constructor
    · intro h k hg
      rcases update_table s hs h k hg with hl | ⟨_, hr⟩
      · obtain ⟨e, he, hh⟩ := lv.keyed h k hl
        exact ⟨e, by rw [hobjs]; exact getElem?_append_some he, hh⟩
      · exact ⟨_, hr, rfl⟩
    · intro h k e hg hk hx hs'
      rw [htok]
      rcases update_table s hs h k hg with hl | ⟨_, hr⟩
      · obtain ⟨e0, he0, _⟩ := lv.keyed h k hl
        have : (step s (.update hs)).objs[k]? = some e0 := by rw [hobjs]; exact getElem?_append_some he0
        rw [this] at hk
        have e' : e0 = e := Option.some.inj hk
        rw [e'] at he0
        exact lv.pending h k e hl he0 hx hs'
      · rw [hr] at hk; cases hk; cases hx
  | prune keep =>
    constructor
    · intro h k hg
      exact lv.keyed h k (get_filter_sub s.table (fun x => keep.contains x) h k hg)
    · intro h k e hg hk hx hs'
      exact lv.pending h k e (get_filter_sub s.table (fun x => keep.contains x) h k hg) hk hx hs'
  | start id =>
    simp only [step]
    split
    · rename_i hc
      have hpos : 0 < s.queue.count id := by rw [List.count_pos_iff]; simpa using hc
      have htok : ∀ k, tok { s with queue := s.queue.erase id, inflight := s.inflight ++ [id] } k = tok s k := by
        intro k; unfold tok; simp only [cnt_erase, cnt_snoc]
        by_cases hk : k = id
        · subst hk; simp; omega
        · simp [hk, Ne.symm hk]
      exact ⟨lv.keyed, fun h k e hg hk hx hs' => by rw [htok]; exact lv.pending h k e hg hk hx hs'⟩
    · exact lv
  | finish id r =>
    simp only [step]
    split
    · exact lv
    · rename_i hc
      have hmem : s.inflight.contains id = true := by simpa using hc
      have hpos : 0 < s.inflight.count id := by rw [List.count_pos_iff]; simpa using hmem
      have hone := inv.one id
      cases r with
      | none =>
        simp only [Gen.Disc.probeFailed, Bool.not_false, if_true]
        have htok : ∀ k, tok { s with inflight := s.inflight.erase id, timers := s.timers ++ [id] } k = tok s k := by
          intro k; unfold tok; simp only [cnt_erase, cnt_snoc]
          by_cases hk : k = id
          · subst hk; simp; omega
          · simp [hk, Ne.symm hk]
        exact ⟨lv.keyed, fun h k e hg hk hx hs' => by rw [htok]; exact lv.pending h k e hg hk hx hs'⟩
      | some c =>
        simp only
        have htok : ∀ k, k ≠ id → tok (setObj { s with inflight := s.inflight.erase id } id
            (fun e => { e with succeeded := true, est := some c })) k = tok s k := by
          intro k hk
          rw [setObj_tok]
          unfold tok
          simp only [cnt_erase, hk, if_false]
        have htab : (setObj { s with inflight := s.inflight.erase id } id
            (fun e => { e with succeeded := true, est := some c })).table = s.table := by
          unfold setObj; simp only; cases s.objs[id]? <;> rfl
        constructor
        · intro h k hg
          rw [htab] at hg
          obtain ⟨e', he', hh⟩ := lv.keyed h k hg
          rw [setObj_get]
          have he'' : ({ s with inflight := s.inflight.erase id } : ES).objs[k]? = some e' := he'
          by_cases hki : k = id
          · subst hki; simp only [if_true, he'', Option.map_some]; exact ⟨_, rfl, hh⟩
          · simp only [hki, if_false]; exact ⟨e', he'', hh⟩
        · intro h k e hg hk hx hs'
          rw [htab] at hg
          rw [setObj_get] at hk
          by_cases hki : k = id
          · subst hki
            simp only [if_true] at hk
            cases ho : ({ s with inflight := s.inflight.erase k } : ES).objs[k]? with
            | none => rw [ho] at hk; cases hk
            | some e0 => rw [ho] at hk; simp only [Option.map_some] at hk; cases hk; cases hs'
          · simp only [hki, if_false] at hk
            rw [htok k hki]
            exact lv.pending h k e hg hk hx hs'
  | timer id =>
    simp only [step]
    split
    · exact lv
    · rename_i hc
      have hmem : s.timers.contains id = true := by simpa using hc
      have hpos : 0 < s.timers.count id := by rw [List.count_pos_iff]; simpa using hmem
      have hne : ∀ k, k ≠ id → tok { s with timers := s.timers.erase id } k = tok s k := by
        intro k hk; unfold tok; simp only [cnt_erase, hk, if_false]
      split
      · rename_i hnone
        refine ⟨lv.keyed, ?_⟩
        intro h k e hg hk hx hs'
        have hk' : s.objs[k]? = some e := hk
        by_cases hki : k = id
        · subst hki
          have : s.objs[k]? = none := hnone
          rw [this] at hk'; cases hk'
        · rw [hne k hki]; exact lv.pending h k e hg hk' hx hs'
      · rename_i e0 he0
        have he0' : s.objs[id]? = some e0 := he0
        split
        · have htok : ∀ k, tok { s with timers := s.timers.erase id, queue := s.queue ++ [id] } k = tok s k := by
            intro k; unfold tok; simp only [cnt_erase, cnt_snoc]
            by_cases hk : k = id
            · subst hk; simp; omega
            · simp [hk, Ne.symm hk]
          exact ⟨lv.keyed, fun h k e hg hk hx hs' => by rw [htok]; exact lv.pending h k e hg hk hx hs'⟩
        · rename_i hnot
          refine ⟨lv.keyed, ?_⟩
          intro h k e hg hk hx hs'
          have hk' : s.objs[k]? = some e := hk
          have hg' : s.table.get h = some k := hg
          by_cases hki : k = id
          · subst hki
            exfalso
            obtain ⟨e1, he1, hh⟩ := lv.keyed h k hg'
            rw [he0'] at he1; cases he1
            apply hnot
            simp only [Gen.Disc.retryRequeues, decide_eq_true_eq]
            rw [hh]; exact hg'
          · rw [hne k hki]; exact lv.pending h k e hg' hk' hx hs'

/-- **C20 (never dropped)**: after every history of gets, discovery updates, reloads, probe starts,
    probe results and retry timers, a target that is listed, was asked for and has not been probed
    successfully is queued, being probed or waiting for its retry timer — exactly one of these.  (So
    with workers that take what is queued and timers that fire, "a failed probe is retried until one
    succeeds or the target disappears from discovery".) -/
theorem C20_never_dropped (ops : List Op) (h : Hash) (id : Nat) (e : Entry)
    (hl : (run ops).table.get h = some id) (he : (run ops).objs[id]? = some e)
    (hx : e.exploring = true) (hs : e.succeeded = false) : tok (run ops) id = 1 := by
  have : ∀ (ops : List Op) (s : ES), Inv s → Live s → Inv (ops.foldl step s) ∧ Live (ops.foldl step s) := by
    intro ops
    induction ops with
    | nil => intro s h1 h2; exact ⟨h1, h2⟩
    | cons op ops ih => intro s h1 h2; exact ih (step s op) (step_inv s op h1) (step_live s op h1 h2)
  exact (this ops {} inv_init live_init).2.pending h id e hl he hx hs

/-- … and the first `get` of a listed, not yet asked target queues it -/
theorem C20_first_get_queues (ops : List Op) (h : Hash) (id : Nat) (e : Entry)
    (hl : (run ops).table.get h = some id) (he : (run ops).objs[id]? = some e) (hx : e.exploring = false) :
    (step (run ops) (.get h)).queue = (run ops).queue ++ [id] := by
  simp only [step, hl, he, Gen.Disc.getStarts, hx, Bool.not_false, if_true]

/-- non-vacuity of `C20_never_dropped`: after a failed probe the listed, asked, unsuccessful entry 0
    waits for its retry timer, and after the timer it is queued again -/
example : (run [.update [7], .get 7, .start 0, .finish 0 none]).table.get 7 = some 0 ∧
    (run [.update [7], .get 7, .start 0, .finish 0 none]).timers = [0] ∧
    tok (run [.update [7], .get 7, .start 0, .finish 0 none]) 0 = 1 ∧
    (run [.update [7], .get 7, .start 0, .finish 0 none, .timer 0]).queue = [0] := by decide

/-- non-vacuity: fail, retry, succeed; then remove + re-add: the stale timer does not requeue -/
example : (run [.update [7], .get 7, .start 0, .finish 0 none, .update [], .update [7], .get 7, .timer 0]).queue = [1] := by decide

end Kvass.Props.C20
