/-
  C07 — scaling stays within bounds and never removes a shard still in use.
-/
import Kvass.Pins.Coord
import Kvass.Proofs.CoordScale

namespace Kvass.Props.C07
open Kvass Kvass.Coord Kvass.Spec

theorem bool_of_iff {b : Bool} {p : Prop} (h : b = true ↔ p) [Decidable p] : b = decide p := by
  by_cases hp : p
  · simp [hp, h.mpr hp]
  · have : b = false := by
      cases hb : b
      · rfl
      · exact absurd (h.mp hb) hp
    simp [hp, this]

theorem clamp_eq (o : Opt) (k : Int) :
    clamp o k =
      (if (if k > o.maxShard then o.maxShard else k) < o.minShard then o.minShard
       else (if k > o.maxShard then o.maxShard else k)) := by
  unfold clamp
  simp only [Sites.clampMaxTo_eq, Sites.clampMinTo_eq, bool_of_iff (Sites.clampMax_iff o _),
    bool_of_iff (Sites.clampMin_iff o _), decide_eq_true_eq]

theorem clamp_bounds (o : Opt) (k : Int) (h : o.minShard ≤ o.maxShard) :
    o.minShard ≤ clamp o k ∧ clamp o k ≤ o.maxShard := by
  rw [clamp_eq]; split <;> split <;> omega

theorem clamp_ge (o : Opt) (k n : Int) (hk : n ≤ k) (hn : n ≤ o.maxShard) : n ≤ clamp o k := by
  rw [clamp_eq]; split <;> split <;> omega

theorem infos0_length (inp : Input) : (infos0 inp).length = inp.probes.length := by
  unfold infos0; simp

theorem earlyScales_mem (inp : Input) (k : Int) (hk : k ∈ earlyScales inp) :
    k = inp.opt.minShard ∧ (inp.probes.length : Int) < inp.opt.minShard := by
  unfold earlyScales earlyOf at hk
  split at hk
  · rename_i he
    rw [Sites.earlyMin_iff, infos0_length] at he
    simp [Sites.earlyTo_eq] at hk
    exact ⟨hk, he⟩
  · cases hk

/-- **C07 (bounds)**: every shard count requested during a cycle — the early one as well as the
    final one — lies within [min-shard, max-shard] whenever min ≤ max. -/
theorem C07_bounds (swr : Swr) (sc : Sched) (inp : Input) :
    C07.bounds inp (Obs.ofOutcome (cycle swr sc inp)) = true := by
  unfold C07.bounds
  simp only [Bool.or_eq_true, Bool.not_eq_true', decide_eq_false_iff_not, List.all_eq_true,
    Bool.and_eq_true, decide_eq_true_eq]
  by_cases hmm : inp.opt.minShard ≤ inp.opt.maxShard
  · right
    intro k hk
    have hk' : k ∈ (cycle swr sc inp).scales := hk
    rcases cycle_scales swr sc inp _ rfl with ⟨hs, _⟩ | ⟨k0, hs, _⟩
    · rw [hs] at hk'
      obtain ⟨rfl, _⟩ := earlyScales_mem inp k hk'
      exact ⟨Int.le_refl _, hmm⟩
    · rw [hs] at hk'
      rcases List.mem_append.mp hk' with h1 | h1
      · obtain ⟨rfl, _⟩ := earlyScales_mem inp k h1
        exact ⟨Int.le_refl _, hmm⟩
      · simp at h1; subst h1
        exact clamp_bounds _ _ hmm
  · exact Or.inl hmm

theorem final_length (swr : Swr) (sc : Sched) (inp : Input) (hne : stopsEarly inp = false) :
    (cycle swr sc inp).final.length = inp.probes.length := by
  have grow := cycle_grows swr sc inp hne
  have inv := gc_inv inp.opt inp.active (infos0 inp)
  have := grow.1; unfold Outcome.cs at this; simp only at this
  rw [this, inv.len, infos0_length]

theorem tryScaleUp_ge (o : Opt) (ss : List SI) (sp : Space) : (ss.length : Int) ≤ tryScaleUp o ss sp := by
  unfold tryScaleUp
  simp only
  generalize Gen.upSum (Gen.upBase (ss.length : Int) (nChangeable ss))
    (if Gen.upUseHead o sp (Gen.upProc o sp) = true then Gen.upHead o sp else Gen.upProc o sp) = e
  split
  · rw [Sites.upFloorTo_eq]; exact Int.le_refl _
  · rename_i h
    have := (not_congr (Sites.upFloor_iff e ss.length)).mp h
    omega

/-- **C07 (no shrink, idle time 0)**: with `max-idle-time = 0` no request is below the current
    shard count (while that count does not exceed max-shard). -/
theorem C07_noShrink_idleOff (swr : Swr) (sc : Sched) (inp : Input) (hoff : inp.opt.idleOn = false)
    (hn : (inp.probes.length : Int) ≤ inp.opt.maxShard) :
    ∀ k ∈ (cycle swr sc inp).scales, (inp.probes.length : Int) ≤ k := by
  intro k hk
  rcases cycle_scales swr sc inp _ rfl with ⟨hs, _⟩ | ⟨k0, hs, _, hne, hcase⟩
  · rw [hs] at hk
    obtain ⟨rfl, h⟩ := earlyScales_mem inp k hk
    omega
  · rw [hs] at hk
    rcases List.mem_append.mp hk with h1 | h1
    · obtain ⟨rfl, h⟩ := earlyScales_mem inp k h1
      omega
    · simp at h1; subst h1
      apply clamp_ge _ _ _ _ hn
      have hlen := final_length swr sc inp hne
      rcases hcase with ⟨c3, need, _, rfl, hl⟩ | ⟨hsd, _⟩ | ⟨_, rfl⟩
      · have := tryScaleUp_ge inp.opt c3 need
        rw [hl, hlen] at this; exact this
      · rw [Sites.scaleDownOn_iff, hoff] at hsd; cases hsd
      · rw [hlen]; exact Int.le_refl _

end Kvass.Props.C07
