/-
  C07 — scaling stays within bounds and never removes a shard still in use.
-/
import Kvass.Pins.Coord
import Kvass.Pins.K8s
import Kvass.Pins.Store
import Kvass.Pins.Sidecar
import Kvass.Proofs.CoordScale
import Kvass.Proofs.CoordNeed
import Kvass.Proofs.CoordDown
import Kvass.Proofs.SidecarIdle

namespace Kvass.Props.C07
open Kvass Kvass.Coord Kvass.Spec

theorem bool_of_iff {b : Bool} {p : Prop} (h : b = true ↔ p) [Decidable p] : b = decide p := by
  by_cases hp : p
  · simp [hp, h.mpr hp]
  · have : b = false := by
      cases hb : b
      · rfl
      · exact absurd (h.mp hb) hp
    simp [hp, this]

theorem clamp_eq (o : Opt) (k : Int) :
    clamp o k =
      (if (if k > o.maxShard then o.maxShard else k) < o.minShard then o.minShard
       else (if k > o.maxShard then o.maxShard else k)) := by
  unfold clamp
  simp only [Sites.clampMaxTo_eq, Sites.clampMinTo_eq, bool_of_iff (Sites.clampMax_iff o _),
    bool_of_iff (Sites.clampMin_iff o _), decide_eq_true_eq]

theorem clamp_bounds (o : Opt) (k : Int) (h : o.minShard ≤ o.maxShard) :
    o.minShard ≤ clamp o k ∧ clamp o k ≤ o.maxShard := by
  rw [clamp_eq]; split <;> split <;> omega

theorem clamp_ge (o : Opt) (k n : Int) (hk : n ≤ k) (hn : n ≤ o.maxShard) : n ≤ clamp o k := by
  rw [clamp_eq]; split <;> split <;> omega

theorem infos0_length (inp : Input) : (infos0 inp).length = inp.probes.length := by
  unfold infos0; simp

theorem earlyScales_mem (inp : Input) (k : Int) (hk : k ∈ earlyScales inp) :
    k = inp.opt.minShard ∧ (inp.probes.length : Int) < inp.opt.minShard := by
  unfold earlyScales earlyOf at hk
  split at hk
  · rename_i he
    rw [Sites.earlyMin_iff, infos0_length] at he
    simp [Sites.earlyTo_eq] at hk
    exact ⟨hk, he⟩
  · cases hk

/-- **C07 (bounds)**: every shard count requested during a cycle — the early one as well as the
    final one — lies within [min-shard, max-shard] whenever min ≤ max. -/
theorem C07_bounds (swr : Swr) (sc : Sched) (inp : Input) :
    C07.bounds inp (Obs.ofOutcome (cycle swr sc inp)) = true := by
  unfold C07.bounds
  simp only [Bool.or_eq_true, Bool.not_eq_true', decide_eq_false_iff_not, List.all_eq_true,
    Bool.and_eq_true, decide_eq_true_eq]
  by_cases hmm : inp.opt.minShard ≤ inp.opt.maxShard
  · right
    intro k hk
    have hk' : k ∈ (cycle swr sc inp).scales := hk
    rcases cycle_scales swr sc inp _ rfl with ⟨hs, _⟩ | ⟨k0, hs, _⟩
    · rw [hs] at hk'
      obtain ⟨rfl, _⟩ := earlyScales_mem inp k hk'
      exact ⟨Int.le_refl _, hmm⟩
    · rw [hs] at hk'
      rcases List.mem_append.mp hk' with h1 | h1
      · obtain ⟨rfl, _⟩ := earlyScales_mem inp k h1
        exact ⟨Int.le_refl _, hmm⟩
      · simp at h1; subst h1
        exact clamp_bounds _ _ hmm
  · exact Or.inl hmm

theorem final_length (swr : Swr) (sc : Sched) (inp : Input) (hne : stopsEarly inp = false) :
    (cycle swr sc inp).final.length = inp.probes.length := by
  have grow := cycle_grows swr sc inp hne
  have inv := gc_inv inp.opt inp.active (infos0 inp)
  have := grow.1; unfold Outcome.cs at this; simp only at this
  rw [this, inv.len, infos0_length]

theorem tryScaleUp_ge (o : Opt) (ss : List SI) (sp : Space) : (ss.length : Int) ≤ tryScaleUp o ss sp := by
  unfold tryScaleUp
  simp only
  generalize Gen.upSum (Gen.upBase (ss.length : Int) (nChangeable ss))
    (if Gen.upUseHead o sp (Gen.upProc o sp) = true then Gen.upHead o sp else Gen.upProc o sp) = e
  split
  · rw [Sites.upFloorTo_eq]; exact Int.le_refl _
  · rename_i h
    have := (not_congr (Sites.upFloor_iff e ss.length)).mp h
    omega

/-- **C07 (no shrink, idle time 0)**: with `max-idle-time = 0` no request is below the current
    shard count (while that count does not exceed max-shard). -/
theorem C07_noShrink_idleOff (swr : Swr) (sc : Sched) (inp : Input) (hoff : inp.opt.idleOn = false)
    (hn : (inp.probes.length : Int) ≤ inp.opt.maxShard) :
    ∀ k ∈ (cycle swr sc inp).scales, (inp.probes.length : Int) ≤ k := by
  intro k hk
  rcases cycle_scales swr sc inp _ rfl with ⟨hs, _⟩ | ⟨k0, hs, _, hne, hcase⟩
  · rw [hs] at hk
    obtain ⟨rfl, h⟩ := earlyScales_mem inp k hk
    omega
  · rw [hs] at hk
    rcases List.mem_append.mp hk with h1 | h1
    · obtain ⟨rfl, h⟩ := earlyScales_mem inp k h1
      omega
    · simp at h1; subst h1
      apply clamp_ge _ _ _ _ hn
      have hlen := final_length swr sc inp hne
      rcases hcase with ⟨c3, need, _, rfl, hl⟩ | ⟨hsd, _⟩ | ⟨_, rfl⟩
      · have := tryScaleUp_ge inp.opt c3 need
        rw [hl, hlen] at this; exact this
      · rw [Sites.scaleDownOn_iff, hoff] at hsd; cases hsd
      · rw [hlen]; exact Int.le_refl _

/-- **C07 (no shrink while space is needed)**: whatever the idle-time setting and whichever shards
    are in sync — if after a crash-free cycle a discovered, healthy, not too big target of non-zero
    size is planned on no shard, no request of that cycle is below the current shard count (while
    that count does not exceed max-shard). -/
theorem C07_noShrink_need (swr : Swr) (sc : Sched) (inp : Input)
    (hnn : ∀ k, 0 ≤ (globalOf (infos0 inp) inp.explore k).series ∧ 0 ≤ (globalOf (infos0 inp) inp.explore k).total)
    (hfull : ∀ k ∈ inp.active, k ∈ sc.assign)
    (h : Hash) (ha : h ∈ inp.active)
    (hskip : Gen.assignSkip (globalOf (infos0 inp) inp.explore h) = false)
    (hbig : Gen.tooBig inp.opt (globalOf (infos0 inp) inp.explore h) = false)
    (hsz : 0 < (globalOf (infos0 inp) inp.explore h).series + (globalOf (infos0 inp) inp.explore h).total)
    (hun : ∀ s ∈ (cycle swr sc inp).final, s.scraping.get h = none)
    (hnc : (cycle swr sc inp).crashed = false)
    (hn : (inp.probes.length : Int) ≤ inp.opt.maxShard) :
    ∀ k ∈ (cycle swr sc inp).scales, (inp.probes.length : Int) ≤ k := by
  intro k hk
  by_cases hne : stopsEarly inp = true
  · rcases cycle_scales swr sc inp _ rfl with ⟨hs, _⟩ | ⟨k0, _, _, hne', _⟩
    · rw [hs] at hk
      obtain ⟨rfl, h'⟩ := earlyScales_mem inp k hk
      omega
    · rw [hne] at hne'; cases hne'
  · have hne : stopsEarly inp = false := by simpa using hne
    obtain ⟨c3, need, hfin, _, _, hscales⟩ :=
      up_branch_of_unplaced swr sc inp hne hnn hfull h ha hskip hbig hsz hun hnc
    rw [hscales] at hk
    rcases List.mem_append.mp hk with h1 | h1
    · obtain ⟨rfl, h'⟩ := earlyScales_mem inp k h1
      omega
    · simp at h1; subst h1
      apply clamp_ge _ _ _ _ hn
      have hlen := final_length swr sc inp hne
      have := tryScaleUp_ge inp.opt c3.shards need
      rw [hfin] at hlen
      rw [hlen] at this; exact this

/-- **C07 (never removes a shard still in use)**: for every schedule and input whose reports are
    sidecar-producible (a shard that reports an expired idle time reports no target), no shard count
    requested during a cycle is below the position of the last shard that is still needed — not in
    sync, told to hold a target, reporting a target, or not idle-expired (while the current count
    does not exceed max-shard). -/
theorem C07_keepsNeeded (swr : Swr) (sc : Sched) (inp : Input)
    (hprod : ∀ p ∈ inp.probes, (effRt p).idle = .expired → reported p = [])
    (hn : (inp.probes.length : Int) ≤ inp.opt.maxShard) :
    ∀ k ∈ (cycle swr sc inp).scales, (C07.lastNeeded inp (Obs.ofOutcome (cycle swr sc inp)) : Int) ≤ k := by
  intro k hk
  have hlast := lastNeeded_le_len inp (Obs.ofOutcome (cycle swr sc inp))
  have early : ∀ k', k' ∈ earlyScales inp → (C07.lastNeeded inp (Obs.ofOutcome (cycle swr sc inp)) : Int) ≤ k' := by
    intro k' hk'
    obtain ⟨rfl, h'⟩ := earlyScales_mem inp k' hk'
    omega
  by_cases hbad : (cycle swr sc inp).crashed = true ∨ stopsEarly inp = true
  · rcases cycle_scales swr sc inp _ rfl with ⟨hs, _⟩ | ⟨k0, _, hcr, hne', _⟩
    · rw [hs] at hk; exact early k hk
    · rcases hbad with h | h
      · rw [hcr] at h; cases h
      · rw [hne'] at h; cases h
  · have hnc : (cycle swr sc inp).crashed = false := by
      cases h : (cycle swr sc inp).crashed with
      | false => rfl
      | true => exact absurd (Or.inl h) hbad
    have hne : stopsEarly inp = false := by
      cases h : stopsEarly inp with
      | false => rfl
      | true => exact absurd (Or.inr h) hbad
    have hflen := final_length swr sc inp hne
    have heq := cycle_eq_finish swr sc inp hne
    -- the state after the assignment stage and what is known of it
    have hidle2 := alleviate_pres (idleSame_presA inp.opt (globalOf (infos0 inp) inp.explore)
        (gc inp.opt inp.active (infos0 inp))).toPres swr sc (startCS inp) (idleSame_refl _ _ _)
    have hidle3 := assign_pres (idleSame_presA inp.opt (globalOf (infos0 inp) inp.explore)
        (gc inp.opt inp.active (infos0 inp))) inp.active sc _ hidle2
    generalize (assign inp.opt inp.active (globalOf (infos0 inp) inp.explore) sc
        (alleviate swr inp.opt sc (startCS inp)).1) = r3 at heq hidle3
    obtain ⟨c3, picks, need2⟩ := r3
    simp only at heq hidle3
    generalize spaceAdd (alleviate swr inp.opt sc (startCS inp)).2 need2 = need at heq
    rw [heq] at hnc
    rcases finish_cases sc inp _ c3 picks need hnc with ⟨_, hfin, hsc⟩ | ⟨_, _, hfin, hsc⟩ | ⟨_, _, hfin, hsc⟩
    · -- scale-up
      rw [heq, hsc] at hk
      rcases List.mem_append.mp hk with h1 | h1
      · exact early k h1
      · simp at h1; subst h1
        have hl : c3.shards.length = inp.probes.length := by rw [← hfin, ← heq]; exact hflen
        have := tryScaleUp_ge inp.opt c3.shards need
        have := clamp_ge inp.opt (tryScaleUp inp.opt c3.shards need) inp.probes.length (by rw [← hl]; exact this) hn
        omega
    · -- scale-down
      rw [heq, hsc] at hk
      rcases List.mem_append.mp hk with h1 | h1
      · exact early k h1
      · simp at h1; subst h1
        have hl : c3.shards.length = inp.probes.length := by
          have := (tryScaleDown_pres (grows_presA inp.opt (fun _ => default) c3.shards).toPres sc c3 picks
            (by have := grows_refl c3.shards c3.log c3.crashed; cases c3; simpa using this)).1
          rw [← this, ← hfin, ← heq]; exact hflen
        have hstop : (tryScaleDown inp.opt sc c3 picks).1 = (removableSuffix c3.shards c3.shards.length : Int) := rfl
        have hsle := removableSuffix_le c3.shards c3.shards.length
        have hln : C07.lastNeeded inp (Obs.ofOutcome (cycle swr sc inp)) ≤ removableSuffix c3.shards c3.shards.length := by
          apply lastNeeded_le
          intro i p r hm hneeded
          obtain ⟨hp, hr⟩ := mem_shardsOf.mp hm
          apply Classical.byContradiction
          intro hcon
          have hge : removableSuffix c3.shards c3.shards.length ≤ i := by omega
          have hilt : i < c3.shards.length := by
            rw [hl]
            rcases Nat.lt_or_ge i inp.probes.length with h | h
            · exact h
            · rw [List.getElem?_eq_none h] at hp; cases hp
          obtain ⟨s, hs3, hrem⟩ := removableSuffix_spec c3.shards c3.shards.length i hge hilt
          rw [Sites.removable_iff] at hrem
          obtain ⟨hch, hlen0, hexp⟩ := hrem
          have hsf : (cycle swr sc inp).final[i]? = some s := by
            rw [heq, hfin, tryScaleDown_frame inp.opt sc c3 picks i hge]; exact hs3
          have hemp : s.scraping = [] := by
            have : s.scraping.length = 0 := by exact_mod_cast hlen0
            exact List.eq_nil_of_length_eq_zero this
          have hsync : inSync p = true := by rw [← final_changeable swr sc inp hne hp hsf]; exact hch
          have hidle : (effRt p).idle = .expired := by
            obtain ⟨s1, h1, e1⟩ := hidle3 i s hs3
            have inv := gc_inv inp.opt inp.active (infos0 inp)
            obtain ⟨s0, h0, _, r0, _, _⟩ := inv.same i s1 h1
            rw [infos0_get, hp] at h0
            simp only [Option.map_some, Option.some.injEq] at h0
            rw [← getInfo_rt p hsync, h0, ← r0, ← e1]; exact hexp
          have := not_needed swr sc inp hne (by rw [heq]; exact hnc) hp hr hsf hch hemp hidle
            (hprod p (List.mem_of_getElem? hp) hidle)
          rw [this] at hneeded; cases hneeded
        rw [hstop]
        have hc := clamp_ge inp.opt (removableSuffix c3.shards c3.shards.length : Int)
          (removableSuffix c3.shards c3.shards.length : Int) (Int.le_refl _) (by have h1 := hsle; have h2 := hl; omega)
        omega
    · -- neither
      rw [heq, hsc] at hk
      rcases List.mem_append.mp hk with h1 | h1
      · exact early k h1
      · simp at h1; subst h1
        have hl : c3.shards.length = inp.probes.length := by rw [← hfin, ← heq]; exact hflen
        have := clamp_ge inp.opt (c3.shards.length : Int) inp.probes.length (by rw [hl]; exact Int.le_refl _) hn
        omega

/-- the monitored clause itself -/
theorem C07_keepsNeeded_spec (swr : Swr) (sc : Sched) (inp : Input)
    (hprod : ∀ p ∈ inp.probes, (effRt p).idle = .expired → reported p = []) :
    C07.keepsNeeded inp (Obs.ofOutcome (cycle swr sc inp)) = true := by
  unfold C07.keepsNeeded
  by_cases hn : (inp.probes.length : Int) ≤ inp.opt.maxShard
  · simp only [hn, decide_true, Bool.not_true, Bool.false_or, List.all_eq_true, decide_eq_true_eq]
    intro k hk
    exact C07_keepsNeeded swr sc inp hprod hn k hk
  · simp [hn]

/-- **C07 (the idle-since instant, every history)**: scale-down trusts the instant a shard reports.
    After *any* history of updates, scrapes and restarts of the sidecar model, the reported
    instant `t` is a past clock value, the shard holds nothing now and held nothing after every
    prefix of the history from `t` on, and — unless `t` is the start of the process — it did hold
    something just before `t`: the time a shard is taken to have been idle is never longer than
    the time its assignment has really been empty. -/
theorem C07_idle_since_truthful (ph : Int) (ops : List Sidecar.Op) (t : Nat)
    (h : (Sidecar.runtime ph (Sidecar.run ops).1).2.2 = some t) :
    t ≤ ops.length ∧ (Sidecar.run ops).1.status = [] ∧
    (∀ a b, ops = a ++ b → t ≤ a.length → (Sidecar.run a).1.status = []) ∧
    (t = 0 ∨ (Sidecar.run (ops.take (t - 1))).1.status ≠ []) := by
  have h' : (Sidecar.run ops).1.idleAt = some t := h
  obtain ⟨h1, h2, h3⟩ := Sidecar.run_idleHist ops t h'
  exact ⟨h1, h2 ops [] (by simp) h1, h2, h3⟩

/-- and an instant is reported exactly while nothing is assigned -/
theorem C07_idle_reported_iff (ph : Int) (ops : List Sidecar.Op) :
    ((Sidecar.runtime ph (Sidecar.run ops).1).2.2).isSome = true ↔ (Sidecar.run ops).1.status = [] :=
  (Sidecar.run_idleIff ops).symm

/-- non-vacuity: the assignment is emptied by the fifth operation (clock value 5) and the restart
    after it keeps the instant -/
example : (Sidecar.runtime 0 (Sidecar.run [.update [⟨7, 10, 12, .normal, 0⟩], .scrape 7 (some (4, 6)), .scrape 7 none,
    .update [⟨7, 10, 12, .inTransfer, 0⟩], .update [], .restart]).1).2.2 = some 5 := by decide

end Kvass.Props.C07
