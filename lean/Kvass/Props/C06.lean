/-
  C06 — after faults stop, sharding recovers: nothing stuck, nothing unscraped.

  The faults of C06 leave exactly three kinds of residue in the shards' reports: a copy in transfer
  whose partner is gone, a target held twice in the same state, and a shard whose report differs
  from what the coordinator planned for it.  For each the per-cycle repair step is a theorem
  (for every input and schedule); the state the repairs lead to is the converged state of C03, which
  is stable (`C03_stable`).  That fault-free operation reaches it within a bounded number of cycles
  is explored by the `loop` engine with injected faults, every history being replayed on `Loop.step`.
-/
import Kvass.Pins.Coord
import Kvass.Pins.Sidecar
import Kvass.Props.C03

namespace Kvass.Props.C06
open Kvass Kvass.Coord Kvass.Spec

/-- no target stays marked in-transfer for ever: once the copy has been scraped three times and no
    other in-sync shard knows the target, the cycle keeps it and turns it back to normal -/
theorem C06_inTransfer_reverts (o : Opt) (active : List Hash) (ss : List SI) (i : Nat) (s : SI) (h : Hash) (tar : St)
    (hact : h ∈ active) (ht : tar.state = .inTransfer) (h3 : 3 ≤ tar.times)
    (halone : ∀ (j : Nat) (sj : SI), ss[j]? = some sj → j ≠ i → sj.changeable = true → sj.scraping.get h = none) :
    gcDecide o active ss i s h tar = false ∧ gcReverts active ss i h tar = true ∧
    (revertSt tar).state = .normal := C03.gc_revert o active ss i s h tar hact ht h3 halone

/-- a hand-over whose two sides are both there is completed -/
theorem C06_transfer_completes (o : Opt) (active : List Hash) (ss : List SI) (i j : Nat) (s sj : SI) (h : Hash)
    (tar st : St) (hact : h ∈ active) (hs : ss[i]? = some s) (hj : ss[j]? = some sj) (hij : j ≠ i)
    (hcj : sj.changeable = true) (hgj : sj.scraping.get h = some st)
    (ht : tar.state = .inTransfer) (hst : st.state = .normal) (h3 : 3 ≤ tar.times) (h3j : 3 ≤ st.times) :
    gcDecide o active ss i s h tar = true :=
  C03.gc_transfer_completes o active ss i j s sj h tar st hact hs hj hij hcj hgj ht hst h3 h3j

/-- none stays duplicated for ever: of two copies in the same state exactly one side is dropped,
    whatever the loads (ties are broken by position) -/
theorem C06_dup_resolved (o : Opt) (active : List Hash) (ss : List SI) (i j : Nat) (si sj : SI) (h : Hash)
    (vi vj : St) (hact : h ∈ active) (hi : ss[i]? = some si) (hj : ss[j]? = some sj) (hij : i ≠ j)
    (hci : si.changeable = true) (hcj : sj.changeable = true)
    (hgi : si.scraping.get h = some vi) (hgj : sj.scraping.get h = some vj)
    (hsame : vi.state = vj.state) (h3i : 3 ≤ vi.times) (h3j : 3 ≤ vj.times) :
    gcDecide o active ss i si h vi = true ∨ gcDecide o active ss j sj h vj = true :=
  C03.gc_dup_resolved o active ss i j si sj h vi vj hact hi hj hij hci hcj hgi hgj hsame h3i h3j

/-- an update that did not arrive is repeated: as long as an in-sync shard's report differs from
    its planned assignment (a key missing, an extra key, a different state) the cycle posts the
    plan again — `needUpdate` is false only if plan and report have the same keys and states -/
theorem C06_retry (reported : AL St) (b : List (Hash × TState × Int))
    (h : needUpdate reported b = false) :
    b.length = reported.length ∧
    ∀ x ∈ b, ∃ r, reported.get x.1 = some r ∧ r.state = x.2.1 := by
  unfold needUpdate at h
  rw [Bool.or_eq_false_iff] at h
  obtain ⟨hl, ha⟩ := h
  have hlen : ¬ ((b.length : Int) ≠ reported.length ∨ (b.length : Int) = 0) := by
    intro hc; rw [← Sites.needUpdateLen_iff] at hc; rw [hl] at hc; cases hc
  refine ⟨by omega, ?_⟩
  intro ⟨k, st, se⟩ hx
  rw [List.any_eq_false] at ha
  have := ha (k, st, se) hx
  simp only at this
  cases hg : reported.get k with
  | none =>
    rw [hg] at this
    simp [Gen.needUpdateEntry] at this
  | some r =>
    rw [hg] at this
    refine ⟨r, rfl, ?_⟩
    have h2 : ¬ (Gen.needUpdateEntry true r.state st = true) := by simp [this]
    rw [Sites.needUpdateEntry_iff] at h2
    simp only [Bool.true_eq_false, false_or, Decidable.not_not] at h2
    exact h2

/-- the post is sent whenever the plan of an in-sync shard needs it -/
theorem C06_posts_when_needed (active : List Hash) (p : Probe) (s : SI) (hch : s.changeable = true)
    (hn : needUpdate (p.status.getD []) (body active s) = true) :
    Req.postTargets (body active s) ∈ applyReqs active p s := by
  unfold applyReqs
  simp only [hch, Bool.not_true, Bool.false_eq_true, if_false, hn, if_true]
  split <;> simp

/-- the recovered state is the converged state of C03, and it is stable -/
theorem C06_recovered_stable (swr : Swr) (sc : Sched) (inp : Input) (q : Quiet swr inp) :
    (cycle swr sc inp).crashed = false ∧
    (cycle swr sc inp).scales = [(inp.probes.length : Int)] ∧
    ∀ (i : Nat) (p : Probe), inp.probes[i]? = some p →
      (cycle swr sc inp).reqs[i]? = some (quietReqs (reported p)) := C03.C03_stable swr sc inp q

/-! ### the same repairs carried through both loops of `gcTargets` (see `Props.C03`) -/

/-- no target stays marked in-transfer for ever: after one pass of `gcTargets` over a report in
    which shard `i` alone (among the in-sync shards) holds `h`, in transfer, scraped three times,
    shard `i` holds it in normal state -/
theorem C06_gc_lonely_reverts (o : Opt) (active : List Hash) (ss0 : List SI) (i : Nat) (si : SI) (h : Hash) (vi : St)
    (hnd0 : ∀ (k : Nat) (s : SI), ss0[k]? = some s → s.scraping.keys.Nodup)
    (hact : h ∈ active) (hi : ss0[i]? = some si) (hci : si.changeable = true) (hgi : si.scraping.get h = some vi)
    (hst : vi.state = .inTransfer) (h3 : 3 ≤ vi.times)
    (halone : ∀ (k : Nat) (sk : SI), ss0[k]? = some sk → k ≠ i → sk.changeable = true → sk.scraping.get h = none) :
    entry (gc o active ss0) i h = some (revertSt vi) ∧ (revertSt vi).state = .normal :=
  C03.C03_gc_lonely_reverts o active ss0 i si h vi hnd0 hact hi hci hgi hst h3 halone

/-- none stays duplicated for ever: a target held twice in normal state is dropped on exactly one
    side by one pass of `gcTargets` -/
theorem C06_gc_duplicate_resolved (o : Opt) (active : List Hash) (ss0 : List SI) (i j : Nat) (si sj : SI) (h : Hash) (vi vj : St)
    (hnd0 : ∀ (k : Nat) (s : SI), ss0[k]? = some s → s.scraping.keys.Nodup)
    (hact : h ∈ active) (hij : i < j)
    (hi : ss0[i]? = some si) (hci : si.changeable = true) (hgi : si.scraping.get h = some vi)
    (hsti : vi.state = .normal) (h3i : 3 ≤ vi.times)
    (hj : ss0[j]? = some sj) (hcj : sj.changeable = true) (hgj : sj.scraping.get h = some vj)
    (hstj : vj.state = .normal) (h3j : 3 ≤ vj.times)
    (hothers : ∀ (k : Nat) (sk : SI), ss0[k]? = some sk → k ≠ i → k ≠ j → sk.changeable = true → sk.scraping.get h = none) :
    (Gen.gcLess o si.rt sj.rt i j = true → entry (gc o active ss0) i h = none ∧ entry (gc o active ss0) j h = some vj) ∧
    (Gen.gcLess o si.rt sj.rt i j = false → entry (gc o active ss0) i h = some vi ∧ entry (gc o active ss0) j h = none) :=
  C03.C03_gc_duplicate_resolved o active ss0 i j si sj h vi vj hnd0 hact hij hi hci hgi hsti h3i hj hcj hgj hstj h3j hothers

end Kvass.Props.C06
