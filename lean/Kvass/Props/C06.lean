/-
  C06 — after faults stop, sharding recovers: nothing stuck, nothing unscraped.

  The faults of C06 leave exactly three kinds of residue in the shards' reports: a copy in transfer
  whose partner is gone, a target held twice in the same state, and a shard whose report differs
  from what the coordinator planned for it.  For each the per-cycle repair step is a theorem
  (for every input and schedule); the state the repairs lead to is the converged state of C03, which
  is stable (`C03_stable`).  That fault-free operation reaches it within a bounded number of cycles
  is explored by the `loop` engine with injected faults, every history being replayed on `Loop.step`.
-/
import Kvass.Pins.Coord
import Kvass.Pins.Sidecar
import Kvass.Props.C03
import Kvass.Proofs.LoopRepair
import Kvass.Proofs.LoopStep
import Kvass.Proofs.LoopRecover
import Kvass.Proofs.LoopSettle
import Kvass.Proofs.LoopSettle2
import Kvass.Proofs.LoopPlace
import Kvass.Proofs.LoopStay
import Kvass.Proofs.LoopFaulty
import Kvass.Proofs.LoopScrapes
import Kvass.Proofs.LoopPos
import Kvass.Proofs.LoopRegime
import Kvass.Proofs.LoopRegimeN

namespace Kvass.Props.C06
open Kvass Kvass.Coord Kvass.Spec

/-- no target stays marked in-transfer for ever: once the copy has been scraped three times and no
    other in-sync shard knows the target, the cycle keeps it and turns it back to normal -/
theorem C06_inTransfer_reverts (o : Opt) (active : List Hash) (ss : List SI) (i : Nat) (s : SI) (h : Hash) (tar : St)
    (hact : h ∈ active) (ht : tar.state = .inTransfer) (h3 : 3 ≤ tar.times)
    (halone : ∀ (j : Nat) (sj : SI), ss[j]? = some sj → j ≠ i → sj.changeable = true → sj.scraping.get h = none) :
    gcDecide o active ss i s h tar = false ∧ gcReverts active ss i h tar = true ∧
    (revertSt tar).state = .normal := C03.gc_revert o active ss i s h tar hact ht h3 halone

/-- a hand-over whose two sides are both there is completed -/
theorem C06_transfer_completes (o : Opt) (active : List Hash) (ss : List SI) (i j : Nat) (s sj : SI) (h : Hash)
    (tar st : St) (hact : h ∈ active) (hs : ss[i]? = some s) (hj : ss[j]? = some sj) (hij : j ≠ i)
    (hcj : sj.changeable = true) (hgj : sj.scraping.get h = some st)
    (ht : tar.state = .inTransfer) (hst : st.state = .normal) (h3 : 3 ≤ tar.times) (h3j : 3 ≤ st.times) :
    gcDecide o active ss i s h tar = true :=
  C03.gc_transfer_completes o active ss i j s sj h tar st hact hs hj hij hcj hgj ht hst h3 h3j

/-- none stays duplicated for ever: of two copies in the same state exactly one side is dropped,
    whatever the loads (ties are broken by position) -/
theorem C06_dup_resolved (o : Opt) (active : List Hash) (ss : List SI) (i j : Nat) (si sj : SI) (h : Hash)
    (vi vj : St) (hact : h ∈ active) (hi : ss[i]? = some si) (hj : ss[j]? = some sj) (hij : i ≠ j)
    (hci : si.changeable = true) (hcj : sj.changeable = true)
    (hgi : si.scraping.get h = some vi) (hgj : sj.scraping.get h = some vj)
    (hsame : vi.state = vj.state) (h3i : 3 ≤ vi.times) (h3j : 3 ≤ vj.times) :
    gcDecide o active ss i si h vi = true ∨ gcDecide o active ss j sj h vj = true :=
  C03.gc_dup_resolved o active ss i j si sj h vi vj hact hi hj hij hci hcj hgi hgj hsame h3i h3j

/-- an update that did not arrive is repeated: as long as an in-sync shard's report differs from
    its planned assignment (a key missing, an extra key, a different state) the cycle posts the
    plan again — `needUpdate` is false only if plan and report have the same keys and states -/
theorem C06_retry (reported : AL St) (b : List (Hash × TState × Int))
    (h : needUpdate reported b = false) :
    b.length = reported.length ∧
    ∀ x ∈ b, ∃ r, reported.get x.1 = some r ∧ r.state = x.2.1 := by
  unfold needUpdate at h
  rw [Bool.or_eq_false_iff] at h
  obtain ⟨hl, ha⟩ := h
  have hlen : ¬ ((b.length : Int) ≠ reported.length ∨ (b.length : Int) = 0) := by
    intro hc; rw [← Sites.needUpdateLen_iff] at hc; rw [hl] at hc; cases hc
  refine ⟨by omega, ?_⟩
  intro ⟨k, st, se⟩ hx
  rw [List.any_eq_false] at ha
  have := ha (k, st, se) hx
  simp only at this
  cases hg : reported.get k with
  | none =>
    rw [hg] at this
    simp [Gen.needUpdateEntry] at this
  | some r =>
    rw [hg] at this
    refine ⟨r, rfl, ?_⟩
    have h2 : ¬ (Gen.needUpdateEntry true r.state st = true) := by simp [this]
    rw [Sites.needUpdateEntry_iff] at h2
    simp only [Bool.true_eq_false, false_or, Decidable.not_not] at h2
    exact h2

/-- the post is sent whenever the plan of an in-sync shard needs it -/
theorem C06_posts_when_needed (active : List Hash) (p : Probe) (s : SI) (hch : s.changeable = true)
    (hn : needUpdate (p.status.getD []) (body active s) = true) :
    Req.postTargets (body active s) ∈ applyReqs active p s := by
  unfold applyReqs
  simp only [hch, Bool.not_true, Bool.false_eq_true, if_false, hn, if_true]
  split <;> simp

/-- the recovered state is the converged state of C03, and it is stable -/
theorem C06_recovered_stable (swr : Swr) (sc : Sched) (inp : Input) (q : Quiet swr inp) :
    (cycle swr sc inp).crashed = false ∧
    (cycle swr sc inp).scales = [(inp.probes.length : Int)] ∧
    ∀ (i : Nat) (p : Probe), inp.probes[i]? = some p →
      (cycle swr sc inp).reqs[i]? = some (quietReqs (reported p)) := C03.C03_stable swr sc inp q

/-! ### the same repairs carried through both loops of `gcTargets` (see `Props.C03`) -/

/-- no target stays marked in-transfer for ever: after one pass of `gcTargets` over a report in
    which shard `i` alone (among the in-sync shards) holds `h`, in transfer, scraped three times,
    shard `i` holds it in normal state -/
theorem C06_gc_lonely_reverts (o : Opt) (active : List Hash) (ss0 : List SI) (i : Nat) (si : SI) (h : Hash) (vi : St)
    (hnd0 : ∀ (k : Nat) (s : SI), ss0[k]? = some s → s.scraping.keys.Nodup)
    (hact : h ∈ active) (hi : ss0[i]? = some si) (hci : si.changeable = true) (hgi : si.scraping.get h = some vi)
    (hst : vi.state = .inTransfer) (h3 : 3 ≤ vi.times)
    (halone : ∀ (k : Nat) (sk : SI), ss0[k]? = some sk → k ≠ i → sk.changeable = true → sk.scraping.get h = none) :
    entry (gc o active ss0) i h = some (revertSt vi) ∧ (revertSt vi).state = .normal :=
  C03.C03_gc_lonely_reverts o active ss0 i si h vi hnd0 hact hi hci hgi hst h3 halone

/-- none stays duplicated for ever: a target held twice in normal state is dropped on exactly one
    side by one pass of `gcTargets` -/
theorem C06_gc_duplicate_resolved (o : Opt) (active : List Hash) (ss0 : List SI) (i j : Nat) (si sj : SI) (h : Hash) (vi vj : St)
    (hnd0 : ∀ (k : Nat) (s : SI), ss0[k]? = some s → s.scraping.keys.Nodup)
    (hact : h ∈ active) (hij : i < j)
    (hi : ss0[i]? = some si) (hci : si.changeable = true) (hgi : si.scraping.get h = some vi)
    (hsti : vi.state = .normal) (h3i : 3 ≤ vi.times)
    (hj : ss0[j]? = some sj) (hcj : sj.changeable = true) (hgj : sj.scraping.get h = some vj)
    (hstj : vj.state = .normal) (h3j : 3 ≤ vj.times)
    (hothers : ∀ (k : Nat) (sk : SI), ss0[k]? = some sk → k ≠ i → k ≠ j → sk.changeable = true → sk.scraping.get h = none) :
    (Gen.gcLess o si.rt sj.rt i j = true → entry (gc o active ss0) i h = none ∧ entry (gc o active ss0) j h = some vj) ∧
    (Gen.gcLess o si.rt sj.rt i j = false → entry (gc o active ss0) i h = some vi ∧ entry (gc o active ss0) j h = none) :=
  C03.C03_gc_duplicate_resolved o active ss0 i j si sj h vi vj hnd0 hact hij hi hci hgi hsti h3i hj hcj hgj hstj h3j hothers

/-! ### the repairs on a whole cycle and in the closed loop -/

/-- a lonely copy in transfer is repaired by one cycle, *whatever the later stages of that cycle do*:
    in the final plan the shard holds the target in normal state, or holds it in transfer next to an
    in-sync shard holding it in normal state -/
theorem C06_lonely_repaired (swr : Swr) (sc : Sched) (inp : Input) (hne : stopsEarly inp = false)
    (hnd : ∀ p ∈ inp.probes, (reported p).keys.Nodup)
    {i : Nat} {p : Probe} {h : Hash} {r : St} (hp : inp.probes[i]? = some p) (hs : inSync p = true)
    (hr : (reported p).get h = some r) (hst : r.state = .inTransfer) (h3 : 3 ≤ r.times) (ha : h ∈ inp.active)
    (halone : ∀ k pk, inp.probes[k]? = some pk → k ≠ i → inSync pk = true → (reported pk).get h = none) :
    ∃ fin v, (cycle swr sc inp).final[i]? = some fin ∧ fin.scraping.get h = some v ∧
      (v.state = .normal ∨
       ∃ d sd vd, d ≠ i ∧ (cycle swr sc inp).final[d]? = some sd ∧ sd.changeable = true ∧
         sd.scraping.get h = some vd ∧ vd.state = .normal) :=
  lonely_repaired swr sc inp hne hnd hp hs hr hst h3 ha halone

/-- **the reports follow the plan** (closed-loop model): after the requests of a full, crash-free,
    fault-free cycle every running sidecar reports exactly the keys planned for it, each in the
    planned state -/
theorem C06_reports_follow_plan (swr : Swr) (env : Loop.Env) (w : Loop.World) (sc : Sched)
    (hrep : w.replicas ≤ w.shards.length)
    (hne : stopsEarly (Loop.inputOf env w [] false) = false)
    (hnc : (cycle swr sc (Loop.inputOf env w [] false)).crashed = false)
    (hnd : ∀ sh ∈ w.running, (Loop.statusOf sh).keys.Nodup) :
    ∀ (i : Nat) (sh : Loop.Shard), w.running[i]? = some sh →
      ∃ (fin : SI) (sh' : Loop.Shard), (cycle swr sc (Loop.inputOf env w [] false)).final[i]? = some fin ∧
        (Loop.applyOutcome w [] (cycle swr sc (Loop.inputOf env w [] false))).shards[i]? = some sh' ∧
        (∀ h, h ∈ (Loop.statusOf sh').keys ↔ h ∈ (planned w.active fin).keys) ∧
        (∀ h v, (planned w.active fin).get h = some v → ∃ r, (Loop.statusOf sh').get h = some r ∧ r.state = v.state) :=
  Loop.applyOutcome_report swr env w sc hrep hne hnc hnd

/-- **no target stays marked in-transfer for ever** (closed-loop model): one fault-free cycle after
    which some running sidecar reports the target in normal state -/
theorem C06_loop_lonely_repaired (swr : Swr) (env : Loop.Env) (w : Loop.World) (sc : Sched)
    (hrep : w.replicas ≤ w.shards.length)
    (hne : stopsEarly (Loop.inputOf env w [] false) = false)
    (hnc : (cycle swr sc (Loop.inputOf env w [] false)).crashed = false)
    (hnd : ∀ sh ∈ w.running, (Loop.statusOf sh).keys.Nodup)
    {i : Nat} {sh : Loop.Shard} {h : Hash} {r : St} (hrun : w.running[i]? = some sh)
    (hr : (Loop.statusOf sh).get h = some r) (hst : r.state = .inTransfer) (h3 : 3 ≤ r.times) (ha : h ∈ w.active)
    (halone : ∀ k shk, w.running[k]? = some shk → k ≠ i → (Loop.statusOf shk).get h = none) :
    ∃ (d : Nat) (shd : Loop.Shard) (rd : St),
      (Loop.applyOutcome w [] (cycle swr sc (Loop.inputOf env w [] false))).shards[d]? = some shd ∧ d < w.replicas ∧
      (Loop.statusOf shd).get h = some rd ∧ rd.state = .normal ∧
      ((d = i) ∨ ∃ shi ri, (Loop.applyOutcome w [] (cycle swr sc (Loop.inputOf env w [] false))).shards[i]? = some shi ∧
        (Loop.statusOf shi).get h = some ri ∧ ri.state = .inTransfer) :=
  Loop.loop_lonely_repaired swr env w sc hrep hne hnc hnd hrun hr hst h3 ha halone

/-- **none stays duplicated for ever** (closed-loop model): once `gcTargets` has left at most one
    normal copy (`C06_gc_duplicate_resolved`), no later stage and no sidecar brings a second one back -/
theorem C06_loop_oneNormal (swr : Swr) (env : Loop.Env) (w : Loop.World) (sc : Sched) (h : Hash)
    (hrep : w.replicas ≤ w.shards.length)
    (hne : stopsEarly (Loop.inputOf env w [] false) = false)
    (hnc : (cycle swr sc (Loop.inputOf env w [] false)).crashed = false)
    (hnd : ∀ sh ∈ w.running, (Loop.statusOf sh).keys.Nodup)
    (h0 : OneNormalAt h (startCS (Loop.inputOf env w [] false))) :
    ∀ (a b : Nat) (sha shb : Loop.Shard) (ra rb : St), a ≠ b → a < w.replicas → b < w.replicas →
      (Loop.applyOutcome w [] (cycle swr sc (Loop.inputOf env w [] false))).shards[a]? = some sha →
      (Loop.applyOutcome w [] (cycle swr sc (Loop.inputOf env w [] false))).shards[b]? = some shb →
      (Loop.statusOf sha).get h = some ra → (Loop.statusOf shb).get h = some rb →
      ra.state = .normal → rb.state = .normal → False :=
  Loop.loop_oneNormal swr env w sc h hrep hne hnc hnd h0

/-- **none stays duplicated for ever** (closed-loop model, the two-holder case in full): two running
    sidecars report the target in normal state, three scrapes each, nobody else reports it — after
    one fault-free cycle at most one running sidecar reports it in normal state -/
theorem C06_loop_duplicate_resolved (swr : Swr) (env : Loop.Env) (w : Loop.World) (sc : Sched)
    (hrep : w.replicas ≤ w.shards.length)
    (hne : stopsEarly (Loop.inputOf env w [] false) = false)
    (hnc : (cycle swr sc (Loop.inputOf env w [] false)).crashed = false)
    (hnd : ∀ sh ∈ w.running, (Loop.statusOf sh).keys.Nodup)
    {i j : Nat} {shi shj : Loop.Shard} {h : Hash} {vi vj : St} (hij : i < j) (ha : h ∈ w.active)
    (hri : w.running[i]? = some shi) (hgi : (Loop.statusOf shi).get h = some vi) (hni : vi.state = .normal) (h3i : 3 ≤ vi.times)
    (hrj : w.running[j]? = some shj) (hgj : (Loop.statusOf shj).get h = some vj) (hnj : vj.state = .normal) (h3j : 3 ≤ vj.times)
    (hothers : ∀ k shk, w.running[k]? = some shk → k ≠ i → k ≠ j → (Loop.statusOf shk).get h = none) :
    ∀ (a b : Nat) (sha shb : Loop.Shard) (ra rb : St), a ≠ b → a < w.replicas → b < w.replicas →
      (Loop.applyOutcome w [] (cycle swr sc (Loop.inputOf env w [] false))).shards[a]? = some sha →
      (Loop.applyOutcome w [] (cycle swr sc (Loop.inputOf env w [] false))).shards[b]? = some shb →
      (Loop.statusOf sha).get h = some ra → (Loop.statusOf shb).get h = some rb →
      ra.state = .normal → rb.state = .normal → False :=
  Loop.loop_duplicate_resolved swr env w sc hrep hne hnc hnd hij ha hri hgi hni h3i hrj hgj hnj h3j hothers

/-- **none becomes unscraped** (closed-loop model): a discovered target some running sidecar
    reports is still reported by some running sidecar after one fault-free cycle -/
theorem C06_loop_keep (swr : Swr) (env : Loop.Env) (w : Loop.World) (sc : Sched)
    (hrep : w.replicas ≤ w.shards.length)
    (hne : stopsEarly (Loop.inputOf env w [] false) = false)
    (hnc : (cycle swr sc (Loop.inputOf env w [] false)).crashed = false)
    (hnd : ∀ sh ∈ w.running, (Loop.statusOf sh).keys.Nodup)
    {i : Nat} {sh : Loop.Shard} {h : Hash} (hrun : w.running[i]? = some sh)
    (hr : (Loop.statusOf sh).has h = true) (ha : h ∈ w.active) :
    ∃ (d : Nat) (shd : Loop.Shard), d < w.replicas ∧
      (Loop.applyOutcome w [] (cycle swr sc (Loop.inputOf env w [] false))).shards[d]? = some shd ∧
      (Loop.statusOf shd).has h = true :=
  Loop.loop_keep swr env w sc hrep hne hnc hnd hrun hr ha

/-! ### … and on `Loop.step` itself (requests delivered *and* StatefulSet resized) -/

/-- **no target stays marked in-transfer for ever**, on the closed-loop step the driver replays real
    histories on: after `Loop.step … (.cycle sc [] false)` a running sidecar reports the target in
    normal state.  Uses C07 (`keepsNeeded`): every requested shard count exceeds the position of a
    shard whose plan holds a target, so the resize leaves that shard alone. -/
theorem C06_step_lonely_repaired (swr : Swr) (env : Loop.Env) (w : Loop.World) (sc : Sched)
    (hrep : w.replicas ≤ w.shards.length)
    (hne : stopsEarly (Loop.inputOf env w [] false) = false)
    (hnc : (cycle swr sc (Loop.inputOf env w [] false)).crashed = false)
    (hnd : ∀ sh ∈ w.running, (Loop.statusOf sh).keys.Nodup)
    (hidle : ∀ sh ∈ w.running, Sidecar.IdleInv sh.sc) (hmax : (w.replicas : Int) ≤ env.opt.maxShard)
    {i : Nat} {sh : Loop.Shard} {h : Hash} {r : St} (hrun : w.running[i]? = some sh)
    (hr : (Loop.statusOf sh).get h = some r) (hst : r.state = .inTransfer) (h3 : 3 ≤ r.times) (ha : h ∈ w.active)
    (halone : ∀ k shk, w.running[k]? = some shk → k ≠ i → (Loop.statusOf shk).get h = none) :
    ∃ (d : Nat) (shd : Loop.Shard) (rd : St), d < (Loop.step swr env w (.cycle sc [] false)).replicas ∧
      (Loop.step swr env w (.cycle sc [] false)).shards[d]? = some shd ∧
      (Loop.statusOf shd).get h = some rd ∧ rd.state = .normal :=
  Loop.step_lonely_repaired swr env w sc hrep hne hnc hnd hidle hmax hrun hr hst h3 ha halone

/-- **none becomes unscraped**, on the closed-loop step: a discovered target some running sidecar
    reports is reported by a running sidecar after the step, whatever scaling the cycle asked for -/
theorem C06_step_keep (swr : Swr) (env : Loop.Env) (w : Loop.World) (sc : Sched)
    (hrep : w.replicas ≤ w.shards.length)
    (hne : stopsEarly (Loop.inputOf env w [] false) = false)
    (hnc : (cycle swr sc (Loop.inputOf env w [] false)).crashed = false)
    (hnd : ∀ sh ∈ w.running, (Loop.statusOf sh).keys.Nodup)
    (hidle : ∀ sh ∈ w.running, Sidecar.IdleInv sh.sc) (hmax : (w.replicas : Int) ≤ env.opt.maxShard)
    {i : Nat} {sh : Loop.Shard} {h : Hash} (hrun : w.running[i]? = some sh)
    (hr : (Loop.statusOf sh).has h = true) (ha : h ∈ w.active) :
    ∃ (d : Nat) (shd : Loop.Shard), d < (Loop.step swr env w (.cycle sc [] false)).replicas ∧
      (Loop.step swr env w (.cycle sc [] false)).shards[d]? = some shd ∧ (Loop.statusOf shd).has h = true :=
  Loop.step_keep swr env w sc hrep hne hnc hnd hidle hmax hrun hr ha

/-- **C06, recovery in one cycle** for the residue of lost hand-overs (update to the destination
    lost, destination scaled away or restarted empty): from a closed-loop state in which copies are
    marked in transfer with no partner — and which is otherwise settled: no duplicates, no overload,
    everything discovered is held, scale-down off — ONE fault-free `Loop.step` leads to a state in
    which the StatefulSet has the same size and every running sidecar reports the same targets as
    before, all in normal state.  For every schedule; any number of such copies on any shards. -/
theorem C06_recovers_in_one_cycle (swr : Swr) (env : Loop.Env) (w : Loop.World) (sc : Sched)
    (r : Loop.Residue swr env w) :
    (Loop.step swr env w (.cycle sc [] false)).replicas = w.replicas ∧
    (Loop.step swr env w (.cycle sc [] false)).active = w.active ∧
    ∀ (i : Nat) (sh : Loop.Shard), w.running[i]? = some sh →
      ∃ sh', (Loop.step swr env w (.cycle sc [] false)).shards[i]? = some sh' ∧
        (∀ h, h ∈ (Loop.statusOf sh').keys ↔ h ∈ (Loop.statusOf sh).keys) ∧
        (∀ h v, (Loop.statusOf sh').get h = some v → v.state = .normal) :=
  Loop.loop_recovers swr env w sc r

/-- **pending moves complete, lost ones are undone — in one closed-loop step.**  From a settled state
    whose only irregularities are moves (a target reported by two running sidecars is reported once in
    transfer and once in normal state, three scrapes each; a target in transfer with no partner has
    three scrapes), one fault-free `Loop.step` leaves the StatefulSet at its size, and every running
    sidecar then reports exactly its normal-state targets and those in-transfer targets that no other
    sidecar reported — all in normal state: every hand-over is finished, nothing is pending, nothing
    is scraped twice because of a move, nothing is lost.  For every schedule. -/
theorem C06_settles_in_one_cycle (swr : Swr) (env : Loop.Env) (w : Loop.World) (sc : Sched)
    (r : Loop.Settled swr env w) :
    (Loop.step swr env w (.cycle sc [] false)).replicas = w.replicas ∧
    (Loop.step swr env w (.cycle sc [] false)).active = w.active ∧
    ∀ (i : Nat) (sh : Loop.Shard), w.running[i]? = some sh →
      ∃ sh', (Loop.step swr env w (.cycle sc [] false)).shards[i]? = some sh' ∧
        (∀ h, h ∈ (Loop.statusOf sh').keys ↔
          ∃ v, (Loop.statusOf sh).get h = some v ∧
            ¬ (v.state = .inTransfer ∧ ∃ (k : Nat) (shk : Loop.Shard), k ≠ i ∧ w.running[k]? = some shk ∧
                (Loop.statusOf shk).has h = true)) ∧
        (∀ h v, (Loop.statusOf sh').get h = some v → v.state = .normal) :=
  Loop.loop_settles swr env w sc r

/-- **C06 in one theorem, for a settled system**: whatever mixture of the three residues a fault can
    leave — a copy in transfer whose partner is gone, a hand-over both sides of which are there, a target
    held twice in normal state (at most two holders per target, three scrapes each) — one fault-free
    `Loop.step` repairs all of them at once: the StatefulSet keeps its size, and every running sidecar
    then reports the targets it reported before except the in-transfer copies that had a partner and the
    normal-state copies that lose the coordinator's tie-break against a normal-state partner; everything
    in normal state.  No target stays marked in-transfer, none stays duplicated, none is lost. -/
theorem C06_repairs_all_in_one_cycle (swr : Swr) (env : Loop.Env) (w : Loop.World) (sc : Sched)
    (r : Loop.Settled2 swr env w) :
    (Loop.step swr env w (.cycle sc [] false)).replicas = w.replicas ∧
    (Loop.step swr env w (.cycle sc [] false)).active = w.active ∧
    ∀ (i : Nat) (sh : Loop.Shard), w.running[i]? = some sh →
      ∃ sh', (Loop.step swr env w (.cycle sc [] false)).shards[i]? = some sh' ∧
        (∀ h, h ∈ (Loop.statusOf sh').keys ↔
          ∃ v, (Loop.statusOf sh).get h = some v ∧
            ¬ (v.state = .inTransfer ∧ ∃ (k : Nat) (shk : Loop.Shard), k ≠ i ∧ w.running[k]? = some shk ∧
                (Loop.statusOf shk).has h = true) ∧
            ¬ (v.state = .normal ∧ ∃ (k : Nat) (shk : Loop.Shard) (vk : St), k ≠ i ∧ w.running[k]? = some shk ∧
                (Loop.statusOf shk).get h = some vk ∧ vk.state = .normal ∧
                Gen.gcLess env.opt (Loop.rtOf env sh) (Loop.rtOf env shk) i k = true)) ∧
        (∀ h v, (Loop.statusOf sh').get h = some v → v.state = .normal) :=
  Loop.loop_settles2 swr env w sc r

/-- **none stays unscraped** (closed-loop step): all running sidecars answer and more shards are
    allowed; then after one fault-free `Loop.step` a discovered, healthy, not too big target of non-zero
    size is reported by a running sidecar — or the StatefulSet has grown (C03's scale-up clause, carried
    through the delivered requests and the resize).  For every schedule that visits every discovered
    target.  The zero-size case is the known finding `unscraped-zero-size`. -/
theorem C06_step_placed_or_grows (swr : Swr) (env : Loop.Env) (w : Loop.World) (sc : Sched)
    (hrep : w.replicas ≤ w.shards.length)
    (hnc : (cycle swr sc (Loop.inputOf env w [] false)).crashed = false)
    (hnd : ∀ sh ∈ w.running, (Loop.statusOf sh).keys.Nodup)
    (hidle : ∀ sh ∈ w.running, Sidecar.IdleInv sh.sc)
    (hmax : (w.replicas : Int) < env.opt.maxShard)
    (hmp : 0 < env.opt.maxProc) (hmh : 0 ≤ env.opt.maxHead)
    (hnn : ∀ k, 0 ≤ (globalOf (infos0 (Loop.inputOf env w [] false)) w.explore k).series ∧
      0 ≤ (globalOf (infos0 (Loop.inputOf env w [] false)) w.explore k).total)
    (hfull : ∀ k ∈ w.active, k ∈ sc.assign)
    {h : Hash} (ha : h ∈ w.active)
    (hskip : Gen.assignSkip (globalOf (infos0 (Loop.inputOf env w [] false)) w.explore h) = false)
    (hbig : Gen.tooBig env.opt (globalOf (infos0 (Loop.inputOf env w [] false)) w.explore h) = false)
    (hsz : 0 < (globalOf (infos0 (Loop.inputOf env w [] false)) w.explore h).series +
      (globalOf (infos0 (Loop.inputOf env w [] false)) w.explore h).total) :
    w.replicas < (Loop.step swr env w (.cycle sc [] false)).replicas ∨
    ∃ (d : Nat) (shd : Loop.Shard), d < (Loop.step swr env w (.cycle sc [] false)).replicas ∧
      (Loop.step swr env w (.cycle sc [] false)).shards[d]? = some shd ∧ (Loop.statusOf shd).has h = true :=
  Loop.step_placed_or_grows swr env w sc hrep hnc hnd hidle hmax hmp hmh hnn hfull ha hskip hbig hsz

/-- … and the state reached is the converged one: after the repairing step every reported target is
    in normal state, no target is reported by two running sidecars, and every target that was reported
    before is still reported by somebody -/
theorem C06_repaired_state_converged (swr : Swr) (env : Loop.Env) (w : Loop.World) (sc : Sched)
    (r : Loop.Settled2 swr env w) :
    (Loop.step swr env w (.cycle sc [] false)).replicas = w.replicas ∧
    (∀ (i : Nat) (sh' : Loop.Shard) (h : Hash) (v : St), i < w.replicas →
      (Loop.step swr env w (.cycle sc [] false)).shards[i]? = some sh' →
      (Loop.statusOf sh').get h = some v → v.state = .normal) ∧
    (∀ (i j : Nat) (shi shj : Loop.Shard) (h : Hash), i < w.replicas → j < w.replicas → i ≠ j →
      (Loop.step swr env w (.cycle sc [] false)).shards[i]? = some shi →
      (Loop.step swr env w (.cycle sc [] false)).shards[j]? = some shj →
      (Loop.statusOf shi).has h = true → (Loop.statusOf shj).has h = true → False) ∧
    (∀ (i : Nat) (sh : Loop.Shard) (h : Hash), w.running[i]? = some sh → (Loop.statusOf sh).has h = true →
      ∃ (d : Nat) (shd : Loop.Shard), d < w.replicas ∧
        (Loop.step swr env w (.cycle sc [] false)).shards[d]? = some shd ∧ (Loop.statusOf shd).has h = true) :=
  Loop.loop_settles2_converged swr env w sc r

/-- **C06 as stated, for a settled system: recovery within one cycle, and further cycles then change
    nothing.**  From a settled state with any mixture of lost hand-overs, pending hand-overs and
    normal-state duplicates, the state after one fault-free `Loop.step` is repaired
    (`C06_repairs_all_in_one_cycle`, `C06_repaired_state_converged`); and if that state is calm and every
    discovered target is held or unplaceable, any number of further fault-free cycles — each with an
    arbitrary schedule — leave the StatefulSet's size, the discovered set and every sidecar's statuses
    and idle time exactly as they are. -/
theorem C06_recovers_and_stays (swr : Swr) (env : Loop.Env) (w : Loop.World) (sc : Sched)
    (r : Loop.Settled2 swr env w)
    (hidle : ∀ sh ∈ w.running, sh.sc.status = [] → sh.sc.idleAt.isSome = true)
    (hcalm' : env.opt.disableAlleviate = true ∨
      CalmSS swr env.opt (infos0 (Loop.inputOf env (Loop.step swr env w (.cycle sc [] false)) [] false)))
    (hplaced' : ∀ h ∈ w.active,
      (scrapingSetOf (infos0 (Loop.inputOf env (Loop.step swr env w (.cycle sc [] false)) [] false))).contains h = true ∨
      Gen.assignSkip (globalOf (infos0 (Loop.inputOf env (Loop.step swr env w (.cycle sc [] false)) [] false)) w.explore h) = true ∨
      Gen.tooBig env.opt (globalOf (infos0 (Loop.inputOf env (Loop.step swr env w (.cycle sc [] false)) [] false)) w.explore h) = true) :
    ∀ scs : List Sched,
      Loop.Unchanged (Loop.step swr env w (.cycle sc [] false))
        (Loop.cycles swr env (Loop.step swr env w (.cycle sc [] false)) scs) :=
  Loop.loop_recovers_and_stays swr env w sc r hidle hcalm' hplaced'

/-- a cycle in which nothing has to move is exactly `gcTargets` (what the recovery theorem rests on) -/
theorem C06_calm_cycle_is_gc (swr : Swr) (sc : Sched) (inp : Input) (q : Calm swr inp) :
    (cycle swr sc inp).crashed = false ∧
    (cycle swr sc inp).scales = [(inp.probes.length : Int)] ∧
    (cycle swr sc inp).final = gc inp.opt inp.active (infos0 inp) ∧
    stopsEarly inp = false :=
  calm_cycle swr sc inp q

/-- non-vacuity: a world in which shard 0 reports target 1 in transfer (5 scrapes), alone -/
def exWorld : Loop.World :=
  { shards := [⟨{ targets := [⟨1, 10, 10, .inTransfer, 1⟩], status := [(1, { health := .good, series := 10, total := 10, state := .inTransfer, times := 5 })],
                   idleAt := none }, 7⟩,
               ⟨{ targets := [], status := [], idleAt := some 0 }, 3⟩],
    replicas := 2, active := [1], explore := [] }
def exEnv : Loop.Env := { opt := ⟨0, 1000, 5, 1, false, true⟩, maxIdle := 3 }

example : stopsEarly (Loop.inputOf exEnv exWorld [] false) = false ∧
    (cycle (fun x r => x * r / 10) {} (Loop.inputOf exEnv exWorld [] false)).crashed = false ∧
    ((Loop.applyOutcome exWorld [] (cycle (fun x r => x * r / 10) {} (Loop.inputOf exEnv exWorld [] false))).shards.map
      fun sh => (Loop.statusOf sh).map fun p => (p.1, p.2.state)) = [[(1, .normal)], []] := by
  decide

example : ((Loop.step (fun x r => x * r / 10) exEnv exWorld (.cycle {} [] false)).shards.map
      fun sh => (Loop.statusOf sh).map fun p => (p.1, p.2.state)) = [[(1, .normal)], []] ∧
    (∀ sh ∈ exWorld.running, Sidecar.IdleInv sh.sc) := by
  refine ⟨by decide, ?_⟩
  intro sh hsh
  simp [exWorld, Loop.World.running] at hsh
  rcases hsh with rfl | rfl <;> simp [Sidecar.IdleInv]

/-- the example world meets the hypotheses of the recovery theorem -/
example : Loop.Residue (fun x r => x * r / 10) exEnv exWorld := by
  have hrun : exWorld.running = exWorld.shards := by rfl
  have hinf : infos0 (Loop.inputOf exEnv exWorld [] false) =
      [⟨true, Loop.rtOf exEnv exWorld.shards[0]!, Loop.statusOf exWorld.shards[0]!⟩,
       ⟨true, Loop.rtOf exEnv exWorld.shards[1]!, []⟩] := by
    rw [Loop.infos0_inputOf, hrun]; rfl
  refine ⟨by decide, ?_, ?_, ?_, ?_, Or.inl rfl, ?_, by decide, by decide, rfl⟩
  · intro sh hsh
    rw [hrun] at hsh
    simp only [exWorld, List.mem_cons, List.not_mem_nil, or_false] at hsh
    rcases hsh with rfl | rfl <;> decide
  · rw [hinf]
    intro i j si sj h hi hj hij hne
    match i, j with
    | 0, 0 => exact absurd rfl hij
    | 0, 1 => simp at hj; subst hj; rfl
    | 1, _ => simp at hi; subst hi; simp [AL.get] at hne
    | 0, j + 2 => simp at hj
    | i + 2, _ => simp at hi
  · intro sh hsh h v hv
    rw [hrun] at hsh
    simp only [exWorld, List.mem_cons, List.not_mem_nil, or_false] at hsh
    rcases hsh with rfl | rfl
    · simp only [Loop.statusOf, List.map_cons, List.map_nil, AL.get] at hv
      split at hv
      · rename_i e; subst e; decide
      · cases hv
    · simp [Loop.statusOf, AL.get] at hv
  · intro sh hsh h v hv hst
    rw [hrun] at hsh
    simp only [exWorld, List.mem_cons, List.not_mem_nil, or_false] at hsh
    rcases hsh with rfl | rfl
    · simp only [Loop.statusOf, List.map_cons, List.map_nil, AL.get] at hv
      split at hv
      · cases hv; decide
      · cases hv
    · simp [Loop.statusOf, AL.get] at hv
  · intro h hh
    simp only [exWorld, List.mem_cons, List.not_mem_nil, or_false] at hh
    subst hh
    left
    rw [hinf]
    decide

/-- a pending hand-over: shard 0 holds target 1 in transfer (5 scrapes), shard 1 in normal state (4) -/
def exMove : Loop.World :=
  { shards := [⟨{ targets := [⟨1, 10, 10, .inTransfer, 1⟩], status := [(1, { health := .good, series := 10, total := 10, state := .inTransfer, times := 5 })],
                   idleAt := none }, 7⟩,
               ⟨{ targets := [⟨1, 10, 10, .normal, 1⟩], status := [(1, { health := .good, series := 10, total := 10, state := .normal, times := 4 })],
                   idleAt := none }, 6⟩],
    replicas := 2, active := [1], explore := [] }

/-- … is completed by one step: the source no longer reports the target, the destination does -/
example : ((Loop.step (fun x r => x * r / 10) exEnv exMove (.cycle {} [] false)).shards.map
      fun sh => (Loop.statusOf sh).map fun p => (p.1, p.2.state)) = [[], [(1, .normal)]] := by
  decide

/-- a duplicate: both shards hold target 1 in normal state (4 and 5 scrapes), equal loads -/
def exDup : Loop.World :=
  { shards := [⟨{ targets := [⟨1, 10, 10, .normal, 1⟩], status := [(1, { health := .good, series := 10, total := 10, state := .normal, times := 4 })],
                   idleAt := none }, 7⟩,
               ⟨{ targets := [⟨1, 10, 10, .normal, 1⟩], status := [(1, { health := .good, series := 10, total := 10, state := .normal, times := 5 })],
                   idleAt := none }, 6⟩],
    replicas := 2, active := [1], explore := [] }

/-- … is resolved by one step: with equal loads the later shard gives the target up -/
example : ((Loop.step (fun x r => x * r / 10) exEnv exDup (.cycle {} [] false)).shards.map
      fun sh => (Loop.statusOf sh).map fun p => (p.1, p.2.state)) = [[(1, .normal)], []] := by
  decide

/-- an unscraped target that fits nowhere: shard 0 holds target 1 (90 of 100 head series), target 2
    (30 series, healthy) is discovered and unscraped -/
def exFull : Loop.World :=
  { shards := [⟨{ targets := [⟨1, 90, 90, .normal, 1⟩], status := [(1, { health := .good, series := 90, total := 90, state := .normal, times := 5 })],
                   idleAt := none }, 7⟩],
    replicas := 1, active := [1, 2], explore := [(2, ⟨.good, 30, 30, .normal, 0⟩)] }
def exEnvLim : Loop.Env := { opt := ⟨100, 1000, 5, 1, false, true⟩, maxIdle := 3, promHead := 0 }

/-- … the step asks for a second shard, and the next step places the target there -/
example : (Loop.step (fun x r => x * r / 10) exEnvLim exFull (.cycle { assign := [1, 2] } [] false)).replicas = 2 ∧
    ((Loop.run (fun x r => x * r / 10) exEnvLim exFull
        [.cycle { assign := [1, 2] } [] false, .cycle { assign := [1, 2] } [] false]).shards.map
      fun sh => (Loop.statusOf sh).map fun p => (p.1, p.2.state)) = [[(1, .normal)], [(2, .normal)]] := by
  decide

/-- the pending hand-over meets the hypotheses of `C06_settles_in_one_cycle` -/
example : Loop.Settled (fun x r => x * r / 10) exEnv exMove := by
  have hrun : exMove.running = exMove.shards := by rfl
  have hinf : infos0 (Loop.inputOf exEnv exMove [] false) =
      [⟨true, Loop.rtOf exEnv exMove.shards[0]!, Loop.statusOf exMove.shards[0]!⟩,
       ⟨true, Loop.rtOf exEnv exMove.shards[1]!, Loop.statusOf exMove.shards[1]!⟩] := by
    rw [Loop.infos0_inputOf, hrun]; rfl
  have hget : ∀ (sh : Loop.Shard), sh ∈ exMove.shards → ∀ h v, (Loop.statusOf sh).get h = some v →
      h = 1 ∧ 3 ≤ v.times := by
    intro sh hsh h v hv
    simp only [exMove, List.mem_cons, List.not_mem_nil, or_false] at hsh
    rcases hsh with rfl | rfl
    all_goals
      simp only [Loop.statusOf, List.map_cons, List.map_nil, AL.get] at hv
      split at hv
      · rename_i e; cases hv; exact ⟨e.symm, by decide⟩
      · cases hv
  refine ⟨by decide, ?_, ?_, ?_, ?_, Or.inl rfl, ?_, by decide, by decide, rfl⟩
  · intro sh hsh
    rw [hrun] at hsh
    simp only [exMove, List.mem_cons, List.not_mem_nil, or_false] at hsh
    rcases hsh with rfl | rfl <;> decide
  · intro i j shi shj h vi vj hi hj hij hgi hgj
    rw [hrun] at hi hj
    match i, j with
    | 0, 0 => exact absurd rfl hij
    | 1, 1 => exact absurd rfl hij
    | 0, 1 =>
      simp [exMove] at hi hj; subst hi; subst hj
      have h1 := (hget _ (by simp [exMove]) h vi hgi).1
      subst h1
      simp [Loop.statusOf, AL.get] at hgi hgj
      subst hgi; subst hgj; left; decide
    | 1, 0 =>
      simp [exMove] at hi hj; subst hi; subst hj
      have h1 := (hget _ (by simp [exMove]) h vi hgi).1
      subst h1
      simp [Loop.statusOf, AL.get] at hgi hgj
      subst hgi; subst hgj; right; decide
    | i + 2, _ => simp [exMove] at hi
    | 0, j + 2 => simp [exMove] at hj
    | 1, j + 2 => simp [exMove] at hj
  · intro sh hsh h v hv
    rw [hrun] at hsh
    rw [(hget sh hsh h v hv).1]; decide
  · intro sh hsh h v hv _
    rw [hrun] at hsh
    exact (hget sh hsh h v hv).2
  · intro h hh
    simp only [exMove, List.mem_cons, List.not_mem_nil, or_false] at hh
    subst hh
    left
    rw [hinf]
    decide

/-! ### under faults, and along whole histories -/

/-- **none becomes unscraped — under faults.**  One step of the closed loop with *any* fault pattern
    (shards not ready, status or runtime reads failing, configuration out of sync, updates lost),
    with `ChangeScale` working or failing, the coordinator crashing or not: a discovered target that
    a running sidecar holds before the step is held by a running sidecar after it.  Hypotheses: what
    every sidecar state satisfies (one entry per hash, no idle-since time while targets are assigned)
    and a current size within max-shard. -/
theorem C06_step_keep_under_faults (swr : Swr) (env : Loop.Env) (w : Loop.World) (sc : Sched)
    (F : List Loop.Fault) (b : Bool)
    (hrep : w.replicas ≤ w.shards.length)
    (hnd : ∀ sh ∈ w.running, (Loop.statusOf sh).keys.Nodup)
    (hidle : ∀ sh ∈ w.running, Sidecar.IdleInv sh.sc) (hmax : (w.replicas : Int) ≤ env.opt.maxShard)
    {i : Nat} {sh : Loop.Shard} {h : Hash} (hrun : w.running[i]? = some sh)
    (hr : (Loop.statusOf sh).has h = true) (ha : h ∈ w.active) :
    ∃ (d : Nat) (shd : Loop.Shard), d < (Loop.step swr env w (.cycle sc F b)).replicas ∧
      (Loop.step swr env w (.cycle sc F b)).shards[d]? = some shd ∧ (Loop.statusOf shd).has h = true :=
  Loop.step_keep_f swr env w sc F b hrep hnd hidle hmax hrun hr ha

/-- **C07 in the closed loop, under faults: a shard in use is not scaled away.**  Whatever the fault
    pattern and whether or not `ChangeScale` works, a running sidecar that holds any target is among the
    running ones after the step, while the size is within max-shard. -/
theorem C06_shard_in_use_stays (swr : Swr) (env : Loop.Env) (w : Loop.World) (sc : Sched) (F : List Loop.Fault) (b : Bool)
    (hrep : w.replicas ≤ w.shards.length)
    (hidle : ∀ sh ∈ w.running, Sidecar.IdleInv sh.sc) (hmax : (w.replicas : Int) ≤ env.opt.maxShard)
    {i : Nat} {sh : Loop.Shard} (hrun : w.running[i]? = some sh) (hne : Loop.statusOf sh ≠ []) :
    i < (Loop.step swr env w (.cycle sc F b)).replicas :=
  Loop.step_nonempty_stays swr env w sc F b hrep hidle hmax hrun hne

/-- **C06 "none stays unscraped", C05 "no interval in which no shard scrapes it": every history.**
    From any world that meets the invariant `WInv` (kept by every operation below, and true of freshly
    started sidecars), along every sequence — of any length, in any order — of coordination cycles
    with any faults, scrapes with any result, sidecar restarts and discovery changes that keep the
    target: a discovered target held by a running sidecar at the start is held by a running sidecar
    in the state reached.  (Since every prefix of such a history is such a history, in every state
    on the way.)  Not covered: assignments written to a sidecar from outside and external resizing
    of the StatefulSet. -/
theorem C06_never_unscraped (swr : Swr) (env : Loop.Env) (hmm : env.opt.minShard ≤ env.opt.maxShard) (h : Hash)
    (ops : List Loop.Op) (w : Loop.World) (hops : ∀ op ∈ ops, Loop.benign h op = true)
    (hw : Loop.WInv env w) (ha : h ∈ w.active) (hh : Loop.Held w h) :
    Loop.WInv env (Loop.run swr env w ops) ∧ h ∈ (Loop.run swr env w ops).active ∧
      Loop.Held (Loop.run swr env w ops) h :=
  Loop.run_keep swr env hmm h ops w hops hw ha hh

/-- the invariant holds of freshly started sidecars and is kept by cycles (any faults), scrapes,
    restarts and discovery changes -/
theorem C06_world_invariant (swr : Swr) (env : Loop.Env) (hmm : env.opt.minShard ≤ env.opt.maxShard)
    (n : Nat) (active : List Hash) (explore : AL St) (hn : (n : Int) ≤ env.opt.maxShard) (ops : List Loop.Op)
    (hops : ∀ op ∈ ops, (match op with | .update _ _ => false | .setReplicas _ => false | _ => true) = true) :
    Loop.WInv env (Loop.run swr env
      { shards := List.replicate n Loop.freshShard, replicas := n, active := active, explore := explore } ops) :=
  Loop.run_winv swr env hmm ops _ hops (Loop.winv_fresh env n active explore hn)

/-- non-vacuity: two fresh sidecars, a first cycle places target 7; then a history with an unready
    shard, restarts, a lost update with failing `ChangeScale`, failing reads, failing scrapes and a
    discovery change — the hypotheses of `C06_never_unscraped` hold, and at the end shard 0 holds 7 -/
def hEnv : Loop.Env := { opt := ⟨0, 1000, 5, 1, false, false⟩, maxIdle := 3 }
def hW0 : Loop.World :=
  { shards := List.replicate 2 Loop.freshShard, replicas := 2, active := [7], explore := [(7, ⟨.good, 10, 10, .normal, 0⟩)] }
def hPre : List Loop.Op := [.cycle { assign := [7] } [] false]
def hHist : List Loop.Op :=
  [.scrape 0 7 (some (10, 12)), .scrape 1 7 (some (10, 12)),
   .cycle {} [⟨true, false, false, false, false, false⟩, {}] false,
   .restart 0, .restart 1,
   .cycle {} [{}, ⟨false, false, false, false, true, false⟩] true,
   .scrape 0 7 none, .scrape 1 7 none,
   .cycle {} [⟨false, true, false, false, false, false⟩, ⟨false, false, true, false, false, false⟩] false,
   .discover [7, 8] [(8, ⟨.good, 5, 5, .normal, 0⟩)], .cycle { assign := [7, 8] } [] false]

example : Loop.Held (Loop.run (fun x r => x * r / 10) hEnv (Loop.run (fun x r => x * r / 10) hEnv hW0 hPre) hHist) 7 := by
  have hw1 : Loop.WInv hEnv (Loop.run (fun x r => x * r / 10) hEnv hW0 hPre) :=
    C06_world_invariant _ hEnv (by decide) 2 [7] _ (by decide) hPre (by decide)
  have hheld : Loop.Held (Loop.run (fun x r => x * r / 10) hEnv hW0 hPre) 7 :=
    ⟨0, (Loop.run (fun x r => x * r / 10) hEnv hW0 hPre).running[0]'(by decide), List.getElem?_eq_getElem _, by decide⟩
  exact (C06_never_unscraped _ hEnv (by decide) 7 hHist _ (by decide) hw1 (by decide) hheld).2.2

example : ((Loop.run (fun x r => x * r / 10) hEnv (Loop.run (fun x r => x * r / 10) hEnv hW0 hPre) hHist).shards.map
    fun sh => (Loop.statusOf sh).map fun p => (p.1, p.2.state, p.2.times)) =
    [[(7, .normal, 1), (8, .normal, 0)], []] := by decide

/-! ### bounded recovery, young copies included -/

/-- **C06, recovery within a bounded number of cycles and scrapes.**  From a world with the shape of
    a settled one (`Loop.Shape2`: every target on at most two running sidecars, and then as source and
    destination of a move or twice in normal state; no scale-down; size within [min, max]) — any
    mixture of lost hand-overs, pending hand-overs and duplicates, *however few scrapes the copies
    have seen* — three scrapes of every held target on every running sidecar (any order, any results,
    any further scrapes) followed by one fault-free cycle lead to the converged state of C03: the same
    StatefulSet size, every reported target in normal state, none reported twice, and every target
    that was reported at the start still reported.  The loads after the scrapes must be calm and
    every discovered target held or unplaceable (hypotheses on the world after the scrapes, since
    scrapes change the series values). -/
theorem C06_bounded_recovery (swr : Swr) (env : Loop.Env) (w : Loop.World) (ops : List Loop.Op) (sc : Sched)
    (hs : Loop.Shape2 env w) (hall : ∀ op ∈ ops, Loop.isScrape op = true)
    (h3 : ∀ (i : Nat) (sh : Loop.Shard) (h : Hash), w.running[i]? = some sh → (Loop.statusOf sh).has h = true →
      3 ≤ Loop.scrapeCount ops i h)
    (hcalm : env.opt.disableAlleviate = true ∨
      CalmSS swr env.opt (infos0 (Loop.inputOf env (Loop.run swr env w ops) [] false)))
    (hplaced : ∀ h ∈ w.active,
      (scrapingSetOf (infos0 (Loop.inputOf env (Loop.run swr env w ops) [] false))).contains h = true ∨
      Gen.assignSkip (globalOf (infos0 (Loop.inputOf env (Loop.run swr env w ops) [] false)) w.explore h) = true ∨
      Gen.tooBig env.opt (globalOf (infos0 (Loop.inputOf env (Loop.run swr env w ops) [] false)) w.explore h) = true) :
    (Loop.run swr env w (ops ++ [.cycle sc [] false])).replicas = w.replicas ∧
    (∀ (i : Nat) (sh' : Loop.Shard) (h : Hash) (v : St), i < w.replicas →
      (Loop.run swr env w (ops ++ [.cycle sc [] false])).shards[i]? = some sh' →
      (Loop.statusOf sh').get h = some v → v.state = .normal) ∧
    (∀ (i j : Nat) (shi shj : Loop.Shard) (h : Hash), i < w.replicas → j < w.replicas → i ≠ j →
      (Loop.run swr env w (ops ++ [.cycle sc [] false])).shards[i]? = some shi →
      (Loop.run swr env w (ops ++ [.cycle sc [] false])).shards[j]? = some shj →
      (Loop.statusOf shi).has h = true → (Loop.statusOf shj).has h = true → False) ∧
    (∀ (i : Nat) (sh : Loop.Shard) (h : Hash), w.running[i]? = some sh → (Loop.statusOf sh).has h = true →
      ∃ (d : Nat) (shd : Loop.Shard), d < w.replicas ∧
        (Loop.run swr env w (ops ++ [.cycle sc [] false])).shards[d]? = some shd ∧ (Loop.statusOf shd).has h = true) :=
  Loop.recovers_after_scrapes swr env w ops sc hs hall h3 hcalm hplaced

/-- scrapes only count: same holders, same states, counters advanced by the number of scrapes -/
theorem C06_scrapes_only_count (swr : Swr) (env : Loop.Env) (ops : List Loop.Op) (w : Loop.World)
    (hall : ∀ op ∈ ops, Loop.isScrape op = true) :
    (Loop.run swr env w ops).replicas = w.replicas ∧ (Loop.run swr env w ops).active = w.active ∧
    (Loop.run swr env w ops).explore = w.explore ∧ (Loop.run swr env w ops).shards.length = w.shards.length ∧
    ∀ (i : Nat) (sh : Loop.Shard), w.running[i]? = some sh →
      ∃ sh', (Loop.run swr env w ops).running[i]? = some sh' ∧ Loop.ScrRel (Loop.scrapeCount ops i) sh sh' :=
  Loop.run_scrapes swr env ops w hall

/-- non-vacuity: a hand-over that has just begun (no scrape yet on either side) and, on the same two
    shards, a duplicate in normal state with one scrape each -/
def exYoung : Loop.World :=
  { shards := [⟨{ targets := [⟨1, 10, 10, .inTransfer, 1⟩, ⟨2, 10, 10, .normal, 0⟩],
                   status := [(1, { health := .good, series := 10, total := 10, state := .inTransfer, times := 0 }),
                              (2, { health := .good, series := 10, total := 10, state := .normal, times := 1 })],
                   idleAt := none }, 7⟩,
               ⟨{ targets := [⟨1, 10, 10, .normal, 1⟩, ⟨2, 10, 10, .normal, 0⟩],
                   status := [(1, { health := .unknown, series := 10, total := 0, state := .normal, times := 0 }),
                              (2, { health := .good, series := 10, total := 10, state := .normal, times := 1 })],
                   idleAt := none }, 6⟩],
    replicas := 2, active := [1, 2], explore := [] }
def exYoungOps : List Loop.Op :=
  [.scrape 0 1 (some (10, 10)), .scrape 1 1 (some (10, 10)), .scrape 0 2 (some (10, 10)), .scrape 1 2 none,
   .scrape 0 1 (some (10, 10)), .scrape 1 1 (some (10, 10)), .scrape 0 2 (some (10, 10)), .scrape 1 2 (some (10, 10)),
   .scrape 0 1 none, .scrape 1 1 (some (10, 10)), .scrape 0 2 (some (10, 10)), .scrape 1 2 (some (10, 10))]

/-- a cycle before the scrapes changes nothing (the copies are young), after them it repairs both -/
example : ((Loop.run (fun x r => x * r / 10) exEnv exYoung [.cycle {} [] false]).shards.map
      fun sh => (Loop.statusOf sh).map fun p => (p.1, p.2.state)) =
      [[(1, .inTransfer), (2, .normal)], [(1, .normal), (2, .normal)]] ∧
    ((Loop.run (fun x r => x * r / 10) exEnv exYoung (exYoungOps ++ [.cycle {} [] false])).shards.map
      fun sh => (Loop.statusOf sh).map fun p => (p.1, p.2.state)) = [[(2, .normal)], [(1, .normal)]] := by
  decide

example : (∀ op ∈ exYoungOps, Loop.isScrape op = true) ∧
    (∀ i < 2, ∀ h ∈ [1, 2], 3 ≤ Loop.scrapeCount exYoungOps i h) ∧ exEnv.opt.disableAlleviate = true := by decide

/-- the example world has the shape the theorem asks for -/
example : Loop.Shape2 exEnv exYoung := by
  have hrun : exYoung.running = exYoung.shards := by rfl
  have hget : ∀ (i : Nat) (sh : Loop.Shard), exYoung.running[i]? = some sh →
      (i = 0 ∧ sh = exYoung.shards[0]!) ∨ (i = 1 ∧ sh = exYoung.shards[1]!) := by
    intro i sh hi
    rw [hrun] at hi
    match i with
    | 0 => left; simp [exYoung] at hi ⊢; exact hi.symm
    | 1 => right; simp [exYoung] at hi ⊢; exact hi.symm
    | i + 2 => simp [exYoung] at hi
  have hst : ∀ (i : Nat) (sh : Loop.Shard) (h : Hash) (v : St), exYoung.running[i]? = some sh →
      (Loop.statusOf sh).get h = some v → (h = 1 ∨ h = 2) ∧ (v.state = .normal ∨ (i = 0 ∧ h = 1 ∧ v.state = .inTransfer)) ∧
        (i = 1 → v.state = .normal) := by
    intro i sh h v hi hv
    rcases hget i sh hi with ⟨rfl, rfl⟩ | ⟨rfl, rfl⟩
    · simp [exYoung, Loop.statusOf, AL.get] at hv
      split at hv
      · rename_i e; subst e; cases hv; simp [Loop.stOf]
      · split at hv
        · rename_i e; subst e; cases hv; simp [Loop.stOf]
        · cases hv
    · simp [exYoung, Loop.statusOf, AL.get] at hv
      split at hv
      · rename_i e; subst e; cases hv; simp [Loop.stOf]
      · split at hv
        · rename_i e; subst e; cases hv; simp [Loop.stOf]
        · cases hv
  refine ⟨by decide, ?_, ?_, ?_, ?_, by decide, by decide, by decide⟩
  · intro sh hm
    simp [exYoung] at hm
    rcases hm with rfl | rfl <;> decide
  · intro i j shi shj h vi vj hi hj hij hvi hvj
    obtain ⟨_, si, ni⟩ := hst i shi h vi hi hvi
    obtain ⟨_, sj, nj⟩ := hst j shj h vj hj hvj
    rcases si with si | ⟨i0, _, si⟩
    · rcases sj with sj | ⟨j0, _, sj⟩
      · exact Or.inr (Or.inr ⟨si, sj⟩)
      · exact Or.inr (Or.inl ⟨sj, si⟩)
    · rcases sj with sj | ⟨j0, _, sj⟩
      · exact Or.inl ⟨si, sj⟩
      · exact absurd (i0.trans j0.symm) hij
  · intro i j k shi shj shk h hi hj hk _ _ _
    rcases hget i shi hi with ⟨rfl, _⟩ | ⟨rfl, _⟩ <;> rcases hget j shj hj with ⟨rfl, _⟩ | ⟨rfl, _⟩ <;>
      rcases hget k shk hk with ⟨rfl, _⟩ | ⟨rfl, _⟩ <;> simp
  · intro sh hm h v hv
    obtain ⟨i, hi⟩ := List.getElem?_of_mem hm
    rcases (hst i sh h v hi hv).1 with rfl | rfl <;> simp [exYoung]

/-! ### placement within a bounded number of cycles (C03 "enough allowed shards", C06 "none stays unscraped") -/

/-- **C03 / C06: an eligible target is placed within a bounded number of cycles.**  `w` is any world
    meeting the invariant with sizes (`Loop.WPos`: what `WInv` says, and no negative size in any
    sidecar or estimate — true of freshly started sidecars, kept by cycles with any faults, scrapes with
    non-negative counts and restarts: `Loop.wpos_fresh`, `Loop.step_wpos`).  A discovered target that
    the explorer probed successfully, that does not exceed a limit alone and has a non-zero size is,
    after `max-shard − current + 1` fault-free cycles whose schedules visit every discovered target,
    held by a running sidecar — unless at some point on the way max-shard was reached with the target
    still unplaced (then there were not "enough allowed shards").  Each cycle either places it or adds a
    shard (C03's scale-up clause through the delivered requests and the resize), once placed it stays
    placed (`C06_never_unscraped`), and the coordinator never crashes on what sidecars report. -/
theorem C06_placed_within_bound (swr : Swr) (env : Loop.Env) (hmm : env.opt.minShard ≤ env.opt.maxShard)
    (hmp : 0 < env.opt.maxProc) (hmh : 0 ≤ env.opt.maxHead) (h : Hash) (e : St)
    (hgood : Gen.assignSkip e = false) (hbig : Gen.tooBig env.opt e = false) (hsz : 0 < e.series + e.total)
    (scs : List Sched) (w : Loop.World) (hw : Loop.WPos env w) (ha : h ∈ w.active) (he : w.explore.get h = some e)
    (hfull : ∀ sc ∈ scs, ∀ k ∈ w.active, k ∈ sc.assign)
    (hlen : env.opt.maxShard < (w.replicas : Int) + scs.length) :
    Loop.Held (Loop.cycles swr env w scs) h ∨
      ∃ pre, pre <+: scs ∧ ((Loop.cycles swr env w pre).replicas : Int) = env.opt.maxShard ∧
        ¬ Loop.Held (Loop.cycles swr env w pre) h :=
  Loop.placed_within_bound swr env hmm hmp hmh h e hgood hbig hsz scs w hw ha he hfull hlen

/-- the step-by-step form: held, or one more shard per cycle, or max-shard reached unplaced -/
theorem C06_placed_within (swr : Swr) (env : Loop.Env) (hmm : env.opt.minShard ≤ env.opt.maxShard)
    (hmp : 0 < env.opt.maxProc) (hmh : 0 ≤ env.opt.maxHead) (h : Hash) (e : St)
    (hgood : Gen.assignSkip e = false) (hbig : Gen.tooBig env.opt e = false) (hsz : 0 < e.series + e.total)
    (scs : List Sched) (w : Loop.World) (hw : Loop.WPos env w) (ha : h ∈ w.active) (he : w.explore.get h = some e)
    (hfull : ∀ sc ∈ scs, ∀ k ∈ w.active, k ∈ sc.assign) :
    Loop.Held (Loop.cycles swr env w scs) h ∨ w.replicas + scs.length ≤ (Loop.cycles swr env w scs).replicas ∨
      ∃ pre, pre <+: scs ∧ ((Loop.cycles swr env w pre).replicas : Int) = env.opt.maxShard ∧
        ¬ Loop.Held (Loop.cycles swr env w pre) h :=
  Loop.placed_within swr env hmm hmp hmh h e hgood hbig hsz scs w hw ha he hfull

/-- non-vacuity: one fresh sidecar, head limit 100, targets of 60 and 70 series: the first cycle places
    the first and asks for a second shard, the second cycle places the other one there -/
def pEnv : Loop.Env := { opt := ⟨100, 1000, 3, 1, false, false⟩, maxIdle := 3 }
def pW0 : Loop.World :=
  { shards := List.replicate 1 Loop.freshShard, replicas := 1, active := [1, 2],
    explore := [(1, ⟨.good, 60, 60, .normal, 0⟩), (2, ⟨.good, 70, 70, .normal, 0⟩)] }

example : Loop.WPos pEnv pW0 := Loop.wpos_fresh pEnv 1 [1, 2] _ (by decide) (by decide)
example : Gen.assignSkip (⟨.good, 70, 70, .normal, 0⟩ : St) = false ∧ Gen.tooBig pEnv.opt ⟨.good, 70, 70, .normal, 0⟩ = false := by
  decide
example : ((Loop.cycles (fun x r => x * r / 10) pEnv pW0 [{ assign := [1, 2] }]).replicas,
      (Loop.cycles (fun x r => x * r / 10) pEnv pW0 [{ assign := [1, 2] }]).shards.map
        fun sh => (Loop.statusOf sh).map fun p => p.1) = (2, [[1], []]) ∧
    ((Loop.cycles (fun x r => x * r / 10) pEnv pW0 [{ assign := [1, 2] }, { assign := [1, 2] }]).shards.map
        fun sh => (Loop.statusOf sh).map fun p => p.1) = [[1], [2]] := by
  decide

/-! ### convergence over many cycles, for systems without overload (C03's first sentence) -/

/-- **C03 / C06: convergence over any number of cycles, without overload.**  The regime
    (`Loop.Regime`): relief and scale-down switched off, size within [min, max], every discovered
    target held or unplaceable (no successful probe, or too big) and every held target discovered,
    every target on at most two running sidecars and never twice in transfer, sidecar states consistent (`WInv`).  It is kept by every scrape and
    every fault-free cycle (`C06_regime_invariant`), whatever the scrape counters.  Along any history
    of scrapes and fault-free cycles — any order, any length — in which every copy held at the start
    is scraped at least three times, followed by one more fault-free cycle, the converged state of
    C03 is reached: the StatefulSet keeps its size, every reported target is in normal state, none is
    reported twice, every discovered target is reported.  (Further cycles then change nothing:
    `C06_recovers_and_stays`.) -/
theorem C06_converges_without_overload (swr : Swr) (env : Loop.Env) (w : Loop.World) (ops : List Loop.Op) (sc : Sched)
    (r : Loop.Regime env w) (hall : ∀ op ∈ ops, Loop.quietOp op = true)
    (h3 : ∀ (i : Nat) (sh : Loop.Shard) (h : Hash), w.running[i]? = some sh → (Loop.statusOf sh).has h = true →
      3 ≤ Loop.scrapeCount ops i h) :
    (Loop.run swr env w (ops ++ [.cycle sc [] false])).replicas = w.replicas ∧
    (∀ (i : Nat) (sh' : Loop.Shard) (h : Hash) (v : St), i < w.replicas →
      (Loop.run swr env w (ops ++ [.cycle sc [] false])).shards[i]? = some sh' →
      (Loop.statusOf sh').get h = some v → v.state = .normal) ∧
    (∀ (i j : Nat) (shi shj : Loop.Shard) (h : Hash), i < w.replicas → j < w.replicas → i ≠ j →
      (Loop.run swr env w (ops ++ [.cycle sc [] false])).shards[i]? = some shi →
      (Loop.run swr env w (ops ++ [.cycle sc [] false])).shards[j]? = some shj →
      (Loop.statusOf shi).has h = true → (Loop.statusOf shj).has h = true → False) ∧
    (∀ h ∈ w.active, Loop.Held (Loop.run swr env w (ops ++ [.cycle sc [] false])) h ∨
      Loop.Unplaceable env (Loop.run swr env w (ops ++ [.cycle sc [] false])) h) :=
  Loop.regime_converges_counting swr env w ops sc r hall h3

/-- the regime is an invariant of scrapes, fault-free cycles and sidecar restarts -/
theorem C06_regime_invariant (swr : Swr) (env : Loop.Env) (ops : List Loop.Op) (w : Loop.World)
    (hall : ∀ op ∈ ops, Loop.quietOpR op = true) (r : Loop.Regime env w) : Loop.Regime env (Loop.run swr env w ops) :=
  Loop.regime_runR swr env ops w hall r

/-- … hence convergence also after restarts (which reset the scrape counters): whatever history of
    scrapes, fault-free cycles and restarts `pre` came before, once every copy held after it has been
    scraped three times (during `ops`: scrapes and fault-free cycles), the next cycle reaches the
    converged state -/
theorem C06_converges_after_restarts (swr : Swr) (env : Loop.Env) (w : Loop.World) (pre ops : List Loop.Op) (sc : Sched)
    (r : Loop.Regime env w) (hpre : ∀ op ∈ pre, Loop.quietOpR op = true) (hall : ∀ op ∈ ops, Loop.quietOp op = true)
    (h3 : ∀ (i : Nat) (sh : Loop.Shard) (h : Hash), (Loop.run swr env w pre).running[i]? = some sh →
      (Loop.statusOf sh).has h = true → 3 ≤ Loop.scrapeCount ops i h) :
    (∀ (i : Nat) (sh' : Loop.Shard) (h : Hash) (v : St), i < (Loop.run swr env w pre).replicas →
      (Loop.run swr env w (pre ++ (ops ++ [.cycle sc [] false]))).shards[i]? = some sh' →
      (Loop.statusOf sh').get h = some v → v.state = .normal) ∧
    (∀ (i j : Nat) (shi shj : Loop.Shard) (h : Hash), i < (Loop.run swr env w pre).replicas →
      j < (Loop.run swr env w pre).replicas → i ≠ j →
      (Loop.run swr env w (pre ++ (ops ++ [.cycle sc [] false]))).shards[i]? = some shi →
      (Loop.run swr env w (pre ++ (ops ++ [.cycle sc [] false]))).shards[j]? = some shj →
      (Loop.statusOf shi).has h = true → (Loop.statusOf shj).has h = true → False) ∧
    (∀ h ∈ (Loop.run swr env w pre).active, Loop.Held (Loop.run swr env w (pre ++ (ops ++ [.cycle sc [] false]))) h ∨
      Loop.Unplaceable env (Loop.run swr env w (pre ++ (ops ++ [.cycle sc [] false]))) h) := by
  have r1 := Loop.regime_runR swr env pre w hpre r
  have hrun : Loop.run swr env w (pre ++ (ops ++ [.cycle sc [] false])) =
      Loop.run swr env (Loop.run swr env w pre) (ops ++ [.cycle sc [] false]) := by
    unfold Loop.run; rw [List.foldl_append]
  rw [hrun]
  obtain ⟨_, c2, c3, c4⟩ := Loop.regime_converges_counting swr env _ ops sc r1 hall h3
  exact ⟨c2, c3, c4⟩

/-- … and in it a cycle never restarts a scrape counter, scrapes advance it by one: at the end of such
    a history every counter is the initial one plus the number of scrapes -/
theorem C06_regime_counters (swr : Swr) (env : Loop.Env) (ops : List Loop.Op) (w : Loop.World)
    (hall : ∀ op ∈ ops, Loop.quietOp op = true) (r : Loop.Regime env w)
    (i : Nat) (sh' : Loop.Shard) (h : Hash) (v' : St) (hrun : (Loop.run swr env w ops).running[i]? = some sh')
    (hv : (Loop.statusOf sh').get h = some v') :
    ∃ sh v, w.running[i]? = some sh ∧ (Loop.statusOf sh).get h = some v ∧ v'.times = v.times + Loop.scrapeCount ops i h :=
  Loop.regime_run_times swr env ops w hall r i sh' h v' hrun hv

/-- non-vacuity: the young world of above, with cycles interleaved between the scrapes -/
def exMixed : List Loop.Op :=
  [.scrape 0 1 (some (10, 10)), .scrape 1 1 (some (10, 10)), .cycle {} [] false, .scrape 0 2 (some (10, 10)), .scrape 1 2 none,
   .scrape 0 1 (some (10, 10)), .cycle {} [] false, .scrape 1 1 (some (10, 10)), .scrape 0 2 (some (10, 10)), .scrape 1 2 (some (10, 10)),
   .cycle {} [] false, .scrape 0 1 none, .scrape 1 1 (some (10, 10)), .scrape 0 2 (some (10, 10)), .scrape 1 2 (some (10, 10))]

/-- the duplicate of target 2 is resolved by the third cycle of the history (both copies have three
    scrapes by then), the hand-over of target 1 by the cycle after it -/
example : (∀ op ∈ exMixed, Loop.quietOp op = true) ∧ (∀ i < 2, ∀ h ∈ [1, 2], 3 ≤ Loop.scrapeCount exMixed i h) ∧
    ((Loop.run (fun x r => x * r / 10) exEnv exYoung exMixed).shards.map
      fun sh => (Loop.statusOf sh).map fun p => (p.1, p.2.state, p.2.times)) =
      [[(1, .inTransfer, 3), (2, .normal, 4)], [(1, .normal, 3)]] ∧
    ((Loop.run (fun x r => x * r / 10) exEnv exYoung (exMixed ++ [.cycle {} [] false])).shards.map
      fun sh => (Loop.statusOf sh).map fun p => (p.1, p.2.state)) = [[(2, .normal)], [(1, .normal)]] := by
  decide

/-- the young example world is in the regime -/
example : Loop.Regime exEnv exYoung := by
  have hrun : exYoung.running = exYoung.shards := by rfl
  have hget : ∀ (i : Nat) (sh : Loop.Shard), exYoung.running[i]? = some sh →
      (i = 0 ∧ sh = exYoung.shards[0]!) ∨ (i = 1 ∧ sh = exYoung.shards[1]!) := by
    intro i sh hi
    rw [hrun] at hi
    match i with
    | 0 => left; simp [exYoung] at hi ⊢; exact hi.symm
    | 1 => right; simp [exYoung] at hi ⊢; exact hi.symm
    | i + 2 => simp [exYoung] at hi
  have hst : ∀ (i : Nat) (sh : Loop.Shard) (h : Hash) (v : St), exYoung.running[i]? = some sh →
      (Loop.statusOf sh).get h = some v → (h = 1 ∨ h = 2) ∧ (i = 1 → v.state = .normal) := by
    intro i sh h v hi hv
    rcases hget i sh hi with ⟨rfl, rfl⟩ | ⟨rfl, rfl⟩
    · simp [exYoung, Loop.statusOf, AL.get] at hv
      split at hv
      · rename_i e; subst e; cases hv; simp
      · split at hv
        · rename_i e; subst e; cases hv; simp
        · cases hv
    · simp [exYoung, Loop.statusOf, AL.get] at hv
      split at hv
      · rename_i e; subst e; cases hv; simp [Loop.stOf]
      · split at hv
        · rename_i e; subst e; cases hv; simp [Loop.stOf]
        · cases hv
  have hsinv : ∀ sh ∈ exYoung.shards, Loop.SInv sh := by
    intro sh hm
    simp [exYoung] at hm
    rcases hm with rfl | rfl
    · refine ⟨⟨?_, ?_, ?_⟩, ?_, by decide⟩
      · intro t ht; simp at ht; rcases ht with rfl | rfl <;> decide
      · intro k; simp [AL.keys]
      · intro t ht; simp at ht; rcases ht with rfl | rfl <;> simp [AL.get]
      · intro _; rfl
    · refine ⟨⟨?_, ?_, ?_⟩, ?_, by decide⟩
      · intro t ht; simp at ht; rcases ht with rfl | rfl <;> decide
      · intro k; simp [AL.keys]
      · intro t ht; simp at ht; rcases ht with rfl | rfl <;> simp [AL.get]
      · intro _; rfl
  refine ⟨⟨⟨by decide, hsinv⟩, by decide⟩, by decide, by decide, by decide, ?_, ?_, ?_, ?_⟩
  · intro i j shi shj h vi vj hi hj hij hvi hvj ⟨ti, tj⟩
    obtain ⟨_, ni⟩ := hst i shi h vi hi hvi
    obtain ⟨_, nj⟩ := hst j shj h vj hj hvj
    rcases hget i shi hi with ⟨rfl, _⟩ | ⟨rfl, _⟩
    · rcases hget j shj hj with ⟨rfl, _⟩ | ⟨rfl, _⟩
      · exact hij rfl
      · rw [nj rfl] at tj; cases tj
    · rw [ni rfl] at ti; cases ti
  · intro i j k shi shj shk h hi hj hk _ _ _
    rcases hget i shi hi with ⟨rfl, _⟩ | ⟨rfl, _⟩ <;> rcases hget j shj hj with ⟨rfl, _⟩ | ⟨rfl, _⟩ <;>
      rcases hget k shk hk with ⟨rfl, _⟩ | ⟨rfl, _⟩ <;> simp
  · intro sh hm h v hv
    obtain ⟨i, hi⟩ := List.getElem?_of_mem hm
    rcases (hst i sh h v hi hv).1 with rfl | rfl <;> simp [exYoung]
  · intro h ha
    simp [exYoung] at ha
    rcases ha with rfl | rfl
    · exact Or.inl ⟨1, exYoung.shards[1]!, by rfl, by decide⟩
    · exact Or.inl ⟨1, exYoung.shards[1]!, by rfl, by decide⟩

/-! ### … and for any number of holders -/

/-- `gcTargets` as a whole, any number of holders: all shards in sync and every copy of a discovered
    target scraped three times ⇒ after the pass at most one shard still holds it, whatever the number
    of holders and their states (the load comparison of rule 3 is total, so of two surviving copies
    one would have deleted the other). -/
theorem C06_gc_any_multiplicity (o : Opt) (active : List Hash) (ss0 : List SI)
    (hnd0 : ∀ (k : Nat) (s : SI), ss0[k]? = some s → s.scraping.keys.Nodup)
    (hall : ∀ (i : Nat) (s : SI), ss0[i]? = some s → s.changeable = true)
    (h : Hash) (hact : active.contains h = true)
    (hold : ∀ (i : Nat) (v : St), entry ss0 i h = some v → 3 ≤ v.times) :
    ∀ k1 k2, k1 ≠ k2 → entry (gc o active ss0) k1 h ≠ none → entry (gc o active ss0) k2 h ≠ none → False :=
  gc_old_unique o active ss0 hnd0 hall h hact hold

/-- **C03 / C06: convergence without overload for any number of holders.**  `Loop.RegimeN` is the
    regime of `C06_converges_without_overload` without the restriction to two holders (relief and
    scale-down off, size within [min, max], every discovered target held, every held target
    discovered, consistent sidecars); it is kept by scrapes and fault-free cycles.  Along any history
    of scrapes and fault-free cycles in which every copy held at the start is scraped three times,
    followed by two more fault-free cycles, the converged state is reached: the first of the two
    leaves every target on exactly one sidecar, the second makes every copy normal. -/
theorem C06_converges_any_multiplicity (swr : Swr) (env : Loop.Env) (w : Loop.World) (ops : List Loop.Op)
    (sc1 sc2 : Sched) (r : Loop.RegimeN env w) (hall : ∀ op ∈ ops, Loop.quietOp op = true)
    (h3 : ∀ (i : Nat) (sh : Loop.Shard) (h : Hash), w.running[i]? = some sh → (Loop.statusOf sh).has h = true →
      3 ≤ Loop.scrapeCount ops i h) :
    let w1 := Loop.run swr env w ops
    let w3 := Loop.run swr env w (ops ++ [.cycle sc1 [] false, .cycle sc2 [] false])
    w3.replicas = w1.replicas ∧
    (∀ (i : Nat) (sh' : Loop.Shard) (h : Hash) (v : St), i < w1.replicas → w3.shards[i]? = some sh' →
      (Loop.statusOf sh').get h = some v → v.state = .normal) ∧
    (∀ (i j : Nat) (shi shj : Loop.Shard) (h : Hash), i < w1.replicas → j < w1.replicas → i ≠ j →
      w3.shards[i]? = some shi → w3.shards[j]? = some shj →
      (Loop.statusOf shi).has h = true → (Loop.statusOf shj).has h = true → False) ∧
    (∀ h ∈ w1.active, Loop.Held w3 h ∨ Loop.Unplaceable env w3 h) :=
  Loop.regimeN_converges_counting swr env w ops sc1 sc2 r hall h3

/-- the N-holder regime is an invariant of scrapes and fault-free cycles -/
theorem C06_regimeN_invariant (swr : Swr) (env : Loop.Env) (ops : List Loop.Op) (w : Loop.World)
    (hall : ∀ op ∈ ops, Loop.quietOp op = true) (r : Loop.RegimeN env w) : Loop.RegimeN env (Loop.run swr env w ops) :=
  Loop.regimeN_run swr env ops w hall r

/-- non-vacuity: three shards all hold target 1, all in transfer (and old): one cycle leaves one copy,
    still in transfer, the next turns it back to normal; and three normal copies go down to one at once -/
def exTriple (st : TState) : Loop.World :=
  { shards := [⟨{ targets := [⟨1, 10, 10, st, 1⟩], status := [(1, { health := .good, series := 10, total := 10, state := st, times := 5 })], idleAt := none }, 7⟩,
               ⟨{ targets := [⟨1, 10, 10, st, 1⟩], status := [(1, { health := .good, series := 10, total := 10, state := st, times := 4 })], idleAt := none }, 6⟩,
               ⟨{ targets := [⟨1, 10, 10, st, 1⟩], status := [(1, { health := .good, series := 10, total := 10, state := st, times := 3 })], idleAt := none }, 5⟩],
    replicas := 3, active := [1], explore := [] }

example : ((Loop.run (fun x r => x * r / 10) exEnv (exTriple .normal) [.cycle {} [] false]).shards.map
      fun sh => (Loop.statusOf sh).map fun p => (p.1, p.2.state)) = [[(1, .normal)], [], []] ∧
    ((Loop.run (fun x r => x * r / 10) exEnv (exTriple .inTransfer) [.cycle {} [] false]).shards.map
      fun sh => (Loop.statusOf sh).map fun p => (p.1, p.2.state)) = [[(1, .inTransfer)], [], []] ∧
    ((Loop.run (fun x r => x * r / 10) exEnv (exTriple .inTransfer) [.cycle {} [] false, .cycle {} [] false]).shards.map
      fun sh => (Loop.statusOf sh).map fun p => (p.1, p.2.state)) = [[(1, .normal)], [], []] := by
  decide

end Kvass.Props.C06
