/-
  C01 — coordination never orphans a target a healthy shard is scraping.
  Statements are the monitored predicates `Spec.C01.*` applied to the observable outcome of
  `Coord.cycle`, for every schedule, every `seriesWithRate` and every input.
-/
import Kvass.Pins.Coord
import Kvass.Proofs.CoordKeep
import Kvass.Proofs.CoordCrash
import Kvass.Proofs.LoopFaulty
import Kvass.Proofs.LoopPos

namespace Kvass.Props.C01
open Kvass Kvass.Coord Kvass.Spec

/-- the holder found by `survivor` is told to keep the target, whatever becomes of its POST -/
theorem holder_after (swr : Swr) (sc : Sched) (inp : Input) {i : Nat} {p : Probe} {h : Hash} {v : St}
    (hp : inp.probes[i]? = some p) (hin : inSync p = true) (hg : (reported p).get h = some v)
    (ha : h ∈ inp.active) :
    ∃ (j : Nat) (pj : Probe) (rj : List Req), inp.probes[j]? = some pj ∧ (cycle swr sc inp).reqs[j]? = some rj ∧ inSync pj = true ∧
      (reported pj).has h = true ∧ h ∈ afterKeys pj rj := by
  cases hne : stopsEarly inp with
  | true =>
    rcases reqs_cases swr sc inp hp with hr | ⟨hf, _⟩
    · refine ⟨i, p, _, hp, hr, hin, ?_, ?_⟩
      · simp [AL.has, hg]
      · rw [afterKeys_noPost]; exact AL.get_some_mem_keys _ _ _ hg
    · rw [hne] at hf; cases hf
  | false =>
    obtain ⟨j, pj, sj, vj, v', hpj, hinj, hrep, hfin, _, hsj, _⟩ := survivor swr sc inp hne hp hin hg ha
    have hhas : (reported pj).has h = true := by simp [AL.has, hrep]
    rcases reqs_cases swr sc inp hpj with hr | ⟨_, s, hs, hr⟩
    · refine ⟨j, pj, _, hpj, hr, hinj, hhas, ?_⟩
      rw [afterKeys_noPost]; exact AL.get_some_mem_keys _ _ _ hrep
    · rw [hfin] at hs; cases hs
      exact ⟨j, pj, _, hpj, hr, hinj, hhas, afterKeys_apply_mem _ _ _ _ _ _ hrep hsj ha⟩

/-- **C01 (a)**: a still-discovered target that an in-sync shard reports is, after the cycle, in
    the target list of an in-sync shard — for every schedule and input, whether or not any POST
    succeeds, and also when the cycle aborts. -/
theorem C01_keep (swr : Swr) (sc : Sched) (inp : Input) :
    C01.keep inp (Obs.ofOutcome (cycle swr sc inp)) = true := by
  unfold C01.keep
  simp only [List.all_eq_true, Bool.or_eq_true, Bool.not_eq_true']
  intro h ha
  cases hany : ((shardsOf inp (Obs.ofOutcome (cycle swr sc inp))).any fun x =>
      inSync x.2.1 && (reported x.2.1).has h) with
  | false => exact Or.inl rfl
  | true =>
    right
    obtain ⟨⟨i, p, r⟩, hmem, hc⟩ := List.any_eq_true.mp hany
    obtain ⟨hp, _⟩ := mem_shardsOf.mp hmem
    simp only [Bool.and_eq_true] at hc
    obtain ⟨v, hv⟩ := (AL.has_iff _ _).mp hc.2
    obtain ⟨j, pj, rj, hpj, hrj, hinj, _, hmemj⟩ := holder_after swr sc inp hp hc.1 hv ha
    rw [List.any_eq_true]
    refine ⟨(j, pj, rj), mem_shardsOf.mpr ⟨hpj, hrj⟩, ?_⟩
    simp only [Bool.and_eq_true]
    exact ⟨hinj, by simpa using hmemj⟩

/-- **C01 (b)**: a target is taken away from an in-sync shard only when it is no longer
    discovered or another in-sync shard also reports scraping it. -/
theorem C01_takenOnlyIf (swr : Swr) (sc : Sched) (inp : Input) :
    C01.takenOnlyIf inp (Obs.ofOutcome (cycle swr sc inp)) = true := by
  unfold C01.takenOnlyIf
  simp only [List.all_eq_true, Bool.or_eq_true, Bool.not_eq_true']
  rintro ⟨i, p, r⟩ hmem
  obtain ⟨hp, hr⟩ := mem_shardsOf.mp hmem
  simp only
  cases hin : inSync p with
  | false => exact Or.inl rfl
  | true =>
    right
    intro h hk
    obtain ⟨v, hv⟩ := AL.mem_keys_get _ _ hk
    by_cases ha : h ∈ inp.active
    · obtain ⟨j, pj, rj, hpj, hrj, hinj, hhas, hmemj⟩ := holder_after swr sc inp hp hin hv ha
      by_cases hji : j = i
      · subst hji
        rw [hp] at hpj; cases hpj
        have : r = rj := by
          have h1 : (Obs.ofOutcome (cycle swr sc inp)).reqs[j]? = some rj := hrj
          rw [hr] at h1; exact Option.some.inj h1
        subst this
        exact Or.inl (Or.inl (by simpa using hmemj))
      · right
        rw [List.any_eq_true]
        refine ⟨(j, pj, rj), mem_shardsOf.mpr ⟨hpj, hrj⟩, ?_⟩
        simp only [Bool.and_eq_true, bne_iff_ne, ne_eq]
        exact ⟨⟨hji, hinj⟩, hhas⟩
    · exact Or.inl (Or.inr (by simpa using ha))

/-- **C01, sharpened**: in a cycle that gets as far as the placement stages, a discovered target
    that a shard reports is, in the final plan, still held by a shard that itself *reported* it — the
    reporter, or an in-sync shard.  (So the target stays scraped even if every update of the cycle
    is lost: the closed-loop theorems `C06_step_keep_under_faults` and `C06_never_unscraped` rest
    on this.) -/
theorem C01_reporter_keeps (swr : Swr) (sc : Sched) (inp : Input) (hne : stopsEarly inp = false)
    {i : Nat} {p : Probe} {h : Hash} (hp : inp.probes[i]? = some p)
    (hr : (reported p).has h = true) (ha : h ∈ inp.active) :
    ∃ (y : Nat) (q : Probe) (sy : SI), inp.probes[y]? = some q ∧ (inSync q = true ∨ y = i) ∧
      (reported q).has h = true ∧ (cycle swr sc inp).final[y]? = some sy ∧ sy.scraping.has h = true :=
  reporter_keeps swr sc inp hne hp hr ha

/-- **C01 (c)**: the cycle completes without crashing for every report a sidecar can produce
    (no negative series) when `max-process-series ≠ 0` (which `cmd/kvass` enforces). -/
theorem C01_noCrash (swr : Swr) (sc : Sched) (inp : Input) (hmp : inp.opt.maxProc ≠ 0) (hn : NonNeg inp) :
    C01.noCrash inp (Obs.ofOutcome (cycle swr sc inp)) = true := by
  unfold C01.noCrash Obs.ofOutcome
  simp [cycle_noCrash swr sc inp hmp hn]

/-- **C01**, the whole monitored predicate -/
theorem C01_ok (swr : Swr) (sc : Sched) (inp : Input) (hmp : inp.opt.maxProc ≠ 0) (hn : NonNeg inp) :
    C01.ok inp (Obs.ofOutcome (cycle swr sc inp)) = true := by
  unfold C01.ok
  rw [C01_noCrash swr sc inp hmp hn, C01_keep, C01_takenOnlyIf]; rfl

/-- **C01 (c) for "every report a sidecar can produce"**: the hypothesis of `C01_noCrash` (no negative
    series) is an invariant of the closed loop.  Starting from freshly started sidecars, after every
    history in the closed-loop model — cycles with any faults, scrapes that deliver non-negative sample
    counts, restarts, discovery changes with non-negative estimates, assignments written to a
    sidecar from outside (every hash once, non-negative sizes), external resizing within max-shard —
    a coordination cycle, again with any fault pattern, completes without crashing. -/
theorem C01_no_crash_along_history (swr : Swr) (env : Loop.Env) (hmm : env.opt.minShard ≤ env.opt.maxShard)
    (hmp : env.opt.maxProc ≠ 0) (n : Nat) (active : List Hash) (explore : AL St) (hn : (n : Int) ≤ env.opt.maxShard)
    (he : ∀ e ∈ explore, 0 ≤ e.2.series ∧ 0 ≤ e.2.total) (ops : List Loop.Op)
    (hops : ∀ op ∈ ops, Loop.wellFormedOp env op = true) (sc : Sched) (F : List Loop.Fault) (b : Bool) :
    (cycle swr sc (Loop.inputOf env (Loop.run swr env
      { shards := List.replicate n Loop.freshShard, replicas := n, active := active, explore := explore } ops) F b)).crashed = false :=
  Loop.no_crash_any_history swr env hmm hmp n active explore hn he ops hops sc F b

/-- non-vacuity: a history with every kind of operation -/
example : ∀ op ∈ ([.cycle { assign := [7] } [] false, .scrape 0 7 (some (10, 12)), .update 1 [⟨9, 5, 5, .normal, 1⟩],
      .setReplicas 3, .restart 0, .discover [7, 9] [(7, ⟨.good, 10, 10, .normal, 0⟩)],
      .cycle {} [⟨true, false, false, false, false, false⟩] true] : List Loop.Op),
    Loop.wellFormedOp { opt := ⟨0, 1000, 5, 1, false, false⟩, maxIdle := 3 } op = true := by decide

/-- the guard of (c) is needed: with max-process-series = 0 and head relief that finds no room the
    model crashes (like the real code: integer divide by zero in tryScaleUp) -/
example : (cycle (fun x r => x * r / 10) {}
    { opt := ⟨10, 0, 5, 0, false, false⟩, active := [1, 2], explore := [],
      probes := [
        { ready := true, status := some [(1, ⟨.good, 9, 9, .normal, 5⟩), (2, ⟨.good, 9, 9, .normal, 5⟩)],
          rt1 := some (⟨18, 18, .none⟩, true), pushOk := true, rt2 := none, postOk := true }] }).crashed = true := by
  decide

/-- non-vacuity: a cycle in which gcTargets really removes a duplicate and the survivor keeps it -/
def exInput : Input :=
  { opt := ⟨0, 100, 5, 0, false, false⟩, active := [1], explore := [],
    probes := [
      { ready := true, status := some [(1, ⟨.good, 5, 5, .inTransfer, 4⟩)],
        rt1 := some (⟨5, 5, .none⟩, true), pushOk := true, rt2 := none, postOk := true },
      { ready := true, status := some [(1, ⟨.good, 5, 5, .normal, 3⟩)],
        rt1 := some (⟨5, 5, .none⟩, true), pushOk := true, rt2 := none, postOk := true }] }

example : ((cycle (fun x r => x * r / 10) {} exInput).reqs.map fun rs => rs.map fun
    | .postTargets b => b.length | _ => 99) = [[99, 99, 0, 99], [99, 99, 99]] := by decide

end Kvass.Props.C01
