/-
  C19 — replicas are coordinated independently and fail independently.
-/
import Kvass.Pins.Coord
import Kvass.Pins.K8s
import Kvass.Props.C01
import Kvass.Props.C04

namespace Kvass.Props.C19
open Kvass Kvass.Coord Kvass.Spec

/-- **C19 (independence)**: what `runOnce` does for replica `i` is `cycle` of that replica's own
    reports — whatever the other replicas are, however many there are, and whether they fail to
    list their shards, fail to scale, are entirely unready or hold a different placement. -/
theorem C19_independent (swr : Swr) (opt : Opt) (active : List Hash) (explore : AL St)
    (reps : List (Replica × Sched)) (i : Nat) (r : Replica) (sc : Sched) (h : reps[i]? = some (r, sc)) :
    (runOnce swr opt active explore reps)[i]? =
      some (if r.listErr then none
            else some (cycle swr sc { opt, active, explore, probes := r.probes, scaleErr1 := r.scaleErr1 })) := by
  induction reps generalizing i with
  | nil => simp at h
  | cons p rest ih =>
    obtain ⟨r', sc'⟩ := p
    cases i with
    | zero => simp at h; obtain ⟨rfl, rfl⟩ := h; simp [runOnce]
    | succ i => simp at h; simp [runOnce, ih i h]

/-- a failing replica does not stop the others: the result has one entry per replica -/
theorem C19_length (swr : Swr) (opt : Opt) (active : List Hash) (explore : AL St) (reps : List (Replica × Sched)) :
    (runOnce swr opt active explore reps).length = reps.length := by
  induction reps with
  | nil => rfl
  | cons p rest ih => obtain ⟨r, sc⟩ := p; simp [runOnce, ih]

/-- hence every per-replica guarantee holds for each replica on its own, e.g. C01 and C04 -/
theorem C19_per_replica (swr : Swr) (opt : Opt) (active : List Hash) (explore : AL St)
    (reps : List (Replica × Sched)) (i : Nat) (r : Replica) (sc : Sched) (h : reps[i]? = some (r, sc))
    (hl : r.listErr = false) :
    ∃ out, (runOnce swr opt active explore reps)[i]? = some (some out) ∧
      C01.keep { opt, active, explore, probes := r.probes, scaleErr1 := r.scaleErr1 } (Obs.ofOutcome out) = true ∧
      C01.takenOnlyIf { opt, active, explore, probes := r.probes, scaleErr1 := r.scaleErr1 } (Obs.ofOutcome out) = true ∧
      LogOK opt out.log := by
  refine ⟨_, by rw [C19_independent swr opt active explore reps i r sc h, hl]; rfl, ?_, ?_, ?_⟩
  · exact Kvass.Props.C01.C01_keep swr sc _
  · exact Kvass.Props.C01.C01_takenOnlyIf swr sc _
  · exact cycle_logOK swr sc _

end Kvass.Props.C19
