/-
  C17 — discovered target sets follow discovery updates and reloads without gaps.
-/
import Kvass.Pins.Disc
import Kvass.Model.Disc
import Kvass.Proofs.AL

namespace Kvass.Props.C17
open Kvass Kvass.Disc

/-! ### one group -/

def droppedIds : List DT → List Nat
  | [] => []
  | .dropped i :: ts => i :: droppedIds ts
  | _ :: ts => droppedIds ts

def activeKeys : List DT → List Nat
  | [] => []
  | .active k :: ts => k :: activeKeys ts
  | _ :: ts => activeKeys ts

/-- every target dropped by relabeling is listed (none is lost to de-duplication), in order -/
theorem fromGroup_dropped (g : List DT) (seen : List Nat) : (fromGroup g seen).2 = droppedIds g := by
  induction g generalizing seen with
  | nil => rfl
  | cons t ts ih =>
    cases t with
    | rejected => simp [fromGroup, droppedIds, ih]
    | active k =>
      simp only [fromGroup, Gen.Disc.targetExists, Gen.Disc.dedupApplies, Gen.Disc.dedupSkips, droppedIds,
        Bool.or_true, Bool.true_and, if_true]
      split
      · exact ih seen
      · simp [ih]
    | dropped i =>
      simp [fromGroup, Gen.Disc.targetExists, Gen.Disc.dedupApplies, Gen.Disc.dedupSkips, droppedIds, ih]

/-- the active targets of a group are its distinct keys: a key is listed iff some target has it -/
theorem fromGroup_active_mem (g : List DT) (seen : List Nat) (k : Nat) :
    k ∈ (fromGroup g seen).1 ↔ k ∈ activeKeys g ∧ k ∉ seen := by
  induction g generalizing seen with
  | nil => simp [fromGroup, activeKeys]
  | cons t ts ih =>
    cases t with
    | rejected => simp [fromGroup, activeKeys, ih]
    | dropped i =>
      simp [fromGroup, Gen.Disc.targetExists, Gen.Disc.dedupApplies, Gen.Disc.dedupSkips, activeKeys, ih]
    | active k' =>
      simp only [fromGroup, Gen.Disc.targetExists, Gen.Disc.dedupApplies, Gen.Disc.dedupSkips, activeKeys,
        Bool.or_true, Bool.true_and, if_true]
      by_cases hs : k' ∈ seen
      · have : seen.contains k' = true := by simpa using hs
        simp only [this, if_true, ih, List.mem_cons]
        constructor
        · rintro ⟨h1, h2⟩; exact ⟨Or.inr h1, h2⟩
        · rintro ⟨h1 | h1, h2⟩
          · subst h1; exact absurd hs h2
          · exact ⟨h1, h2⟩
      · have : seen.contains k' = false := by simpa using hs
        simp only [this, Bool.false_eq_true, if_false, List.mem_cons, ih]
        constructor
        · rintro (h | ⟨h1, h2⟩)
          · subst h; exact ⟨Or.inl rfl, hs⟩
          · exact ⟨Or.inr h1, fun h => h2 (Or.inr h)⟩
        · rintro ⟨h1 | h1, h2⟩
          · exact Or.inl h1
          · by_cases hk : k = k'
            · exact Or.inl hk
            · exact Or.inr ⟨h1, fun h => by rcases h with h | h; exact hk h; exact h2 h⟩

/-- … and each once -/
theorem fromGroup_active_nodup (g : List DT) (seen : List Nat) : (fromGroup g seen).1.Nodup := by
  induction g generalizing seen with
  | nil => simp [fromGroup]
  | cons t ts ih =>
    cases t with
    | rejected => simp [fromGroup, ih]
    | dropped i => simp [fromGroup, Gen.Disc.targetExists, Gen.Disc.dedupApplies, Gen.Disc.dedupSkips, ih]
    | active k' =>
      simp only [fromGroup, Gen.Disc.targetExists, Gen.Disc.dedupApplies, Gen.Disc.dedupSkips,
        Bool.or_true, Bool.true_and, if_true]
      split
      · exact ih seen
      · simp only [List.nodup_cons]
        refine ⟨?_, ih _⟩
        rw [fromGroup_active_mem]
        simp

/-- a rejected target does not take the rest of its group with it -/
theorem fromGroup_rejected (g1 g2 : List DT) (seen : List Nat) :
    (fromGroup (g1 ++ .rejected :: g2) seen) = fromGroup (g1 ++ g2) seen := by
  induction g1 generalizing seen with
  | nil => simp [fromGroup]
  | cons t ts ih =>
    cases t with
    | rejected => simp [fromGroup, ih]
    | dropped i => simp [fromGroup, ih]
    | active k =>
      simp only [List.cons_append, fromGroup]
      split
      · split
        · exact ih seen
        · rw [ih]
      · exact ih seen

/-! ### updates and reloads -/

theorem foldl_set_get_notin {β} (f : β → List Nat) (tr : List (Job × β)) (a : AL (List Nat)) (j : Job)
    (h : j ∉ tr.map (·.1)) : (tr.foldl (fun a p => a.set p.1 (f p.2)) a).get j = a.get j := by
  induction tr generalizing a with
  | nil => rfl
  | cons p tr ih =>
    simp only [List.map_cons, List.mem_cons, not_or] at h
    simp only [List.foldl_cons]
    rw [ih _ h.2, AL.get_set_ne _ _ _ _ (Ne.symm h.1)]

theorem foldl_set_get_last {β} (f : β → List Nat) (tr1 tr2 : List (Job × β)) (a : AL (List Nat)) (j : Job) (b : β)
    (h : j ∉ tr2.map (·.1)) :
    ((tr1 ++ (j, b) :: tr2).foldl (fun a p => a.set p.1 (f p.2)) a).get j = some (f b) := by
  rw [List.foldl_append, List.foldl_cons, foldl_set_get_notin f tr2 _ j h, AL.get_set_self]

/-- **C17 (update)**: after a discovery update the active and dropped sets of every configured job
    in the update are exactly the translation of that update; jobs not in the update keep theirs;
    unconfigured jobs are ignored. -/
theorem C17_update (s : DS) (m1 m2 : Upd) (j : Job) (gs : List (List DT))
    (hcfg : j ∈ s.jobs) (hlast : j ∉ m2.map (·.1)) :
    (update s (m1 ++ (j, gs) :: m2)).active.get j = some (fromJob gs).1 ∧
    (update s (m1 ++ (j, gs) :: m2)).dropped.get j = some (fromJob gs).2 := by
  have hc : s.jobs.contains j = true := by simpa using hcfg
  have hsplit : ((m1 ++ (j, gs) :: m2).filterMap fun (p : Job × List (List DT)) =>
      if Gen.Disc.jobUnknown (s.jobs.contains p.1) then none else some (p.1, fromJob p.2)) =
      (m1.filterMap fun p => if Gen.Disc.jobUnknown (s.jobs.contains p.1) then none else some (p.1, fromJob p.2)) ++
      (j, fromJob gs) ::
      (m2.filterMap fun p => if Gen.Disc.jobUnknown (s.jobs.contains p.1) then none else some (p.1, fromJob p.2)) := by
    simp [List.filterMap_append, List.filterMap_cons, Gen.Disc.jobUnknown, hcfg]
  have hn : j ∉ (m2.filterMap fun (p : Job × List (List DT)) =>
      if Gen.Disc.jobUnknown (s.jobs.contains p.1) then none else some (p.1, fromJob p.2)).map (·.1) := by
    intro hm
    obtain ⟨q, hq, hqj⟩ := List.mem_map.mp hm
    obtain ⟨p, hp, hpq⟩ := List.mem_filterMap.mp hq
    split at hpq
    · cases hpq
    · cases hpq; exact hlast (List.mem_map.mpr ⟨p, hp, hqj⟩)
  unfold update
  simp only
  rw [hsplit]
  exact ⟨foldl_set_get_last (fun r => r.1) _ _ _ _ _ hn, foldl_set_get_last (fun r => r.2) _ _ _ _ _ hn⟩

theorem C17_update_other (s : DS) (m : Upd) (j : Job) (h : j ∉ m.map (·.1)) :
    (update s m).active.get j = s.active.get j ∧ (update s m).dropped.get j = s.dropped.get j := by
  have hn : j ∉ (m.filterMap fun (p : Job × List (List DT)) =>
      if Gen.Disc.jobUnknown (s.jobs.contains p.1) then none else some (p.1, fromJob p.2)).map (·.1) := by
    intro hm
    obtain ⟨q, hq, hqj⟩ := List.mem_map.mp hm
    obtain ⟨p, hp, hpq⟩ := List.mem_filterMap.mp hq
    split at hpq
    · cases hpq
    · cases hpq; exact h (List.mem_map.mpr ⟨p, hp, hqj⟩)
  unfold update
  simp only
  exact ⟨foldl_set_get_notin (fun r => r.1) _ _ _ hn, foldl_set_get_notin (fun r => r.2) _ _ _ hn⟩

theorem keep_get (s : DS) (m : AL (List Nat)) (jobs : List Job) (j : Job) (acc : AL (List Nat)) :
    (keepJobs s m jobs acc).get j =
      if j ∈ jobs ∧ (s.active.get j).isSome then some ((m.get j).getD []) else acc.get j := by
  unfold keepJobs
  induction jobs generalizing acc with
  | nil => simp
  | cons j' jobs ih =>
    simp only [List.foldl_cons, List.mem_cons]
    rw [ih]
    cases hj' : s.active.get j' with
    | none =>
      simp only
      by_cases hin : j ∈ jobs ∧ (s.active.get j).isSome = true
      · simp [hin]
      · simp only [hin, if_false]
        by_cases e : j = j'
        · subst e; simp [hj']
        · simp [e, hin]
    | some v =>
      simp only [Gen.Disc.reloadKeeps, if_true]
      by_cases hin : j ∈ jobs ∧ (s.active.get j).isSome = true
      · simp [hin]
      · simp only [hin, if_false]
        by_cases e : j = j'
        · subst e; simp [hj']
        · rw [AL.get_set_ne _ _ _ _ (Ne.symm e)]; simp [e, hin]

/-- **C17 (reload)**: a reload keeps, unchanged, the active and dropped targets of every job it
    still lists, and removes those of every job it no longer lists — in one step. -/
theorem C17_reload (s : DS) (jobs : List Job) (j : Job) :
    (j ∈ jobs → (reload s jobs).active.get j = s.active.get j) ∧
    (j ∈ jobs → (s.active.get j).isSome → (reload s jobs).dropped.get j = some ((s.dropped.get j).getD [])) ∧
    (j ∉ jobs → (reload s jobs).active.get j = none ∧ (reload s jobs).dropped.get j = none) := by
  unfold reload
  simp only
  refine ⟨fun hj => ?_, fun hj hs => ?_, fun hj => ?_⟩
  · rw [keep_get]
    cases h : s.active.get j with
    | none => simp
    | some v => simp [hj]
  · rw [keep_get]; simp [hj, hs]
  · rw [keep_get, keep_get]; simp [hj]

/-- **C17 (explorer, reload)**: the explorer keeps exactly the entries of jobs that are still listed -/
theorem C17_explorer_reload (s : DS) (jobs : List Job) (e : Nat × Job) :
    e ∈ (reload s jobs).explorer ↔ e ∈ s.explorer ∧ e.2 ∈ jobs := by
  unfold reload; simp [Gen.Disc.exploreKeepsJob]

/-- non-vacuity / a worked history -/
example : (run [.reload [1, 2], .update [(1, [[.active 5, .dropped 0, .rejected, .active 5, .dropped 1]]), (3, [[.active 9]])],
    .reload [2, 1], .reload [2]]).active = [] ∧
  (run [.reload [1, 2], .update [(1, [[.active 5, .dropped 0, .rejected, .active 5, .dropped 1]]), (3, [[.active 9]])],
    .reload [2, 1]]) = ⟨[2, 1], [(1, [5])], [(1, [0, 1])], [(5, 1)]⟩ := by decide

end Kvass.Props.C17
