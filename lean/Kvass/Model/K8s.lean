/-
  Model of `pkg/shard/kubernetes`: listing the shards of a StatefulSet and changing its scale.
  Pods are named `<sts>-<ordinal>`; a pod is represented by its ordinal (or `none` for any other
  name) and its IP (`0` = no IP yet).  Volume claims are `(template index, ordinal)`.
-/
import Kvass.Types
import Kvass.Gen.K8s

namespace Kvass.K8s
open Kvass

structure Pod where
  ord : Option Nat
  ip : Nat
  deriving Repr, DecidableEq, Inhabited

structure ShardRow where
  id : Option Nat          -- ordinal in the shard's ID (`none`: empty ID, pod not found)
  ip : Nat
  ready : Bool
  deriving Repr, DecidableEq, Inhabited

/-- `ps[name]` after `for _, p := range pods.Items { ps[p.Name] = p }`: the last pod of that name -/
def lookup (pods : List Pod) (i : Nat) : Option Pod := pods.reverse.find? fun p => p.ord == some i

/-- `Shards()` -/
def shards (pods : List Pod) : List ShardRow :=
  (List.range pods.length).map fun i =>
    match lookup pods i with
    | some p => ⟨some i, p.ip, Gen.K8s.shardReady p.ip⟩
    | none => ⟨none, 0, Gen.K8s.shardReady 0⟩

/-- ordinals visited by the volume-claim loop, in order -/
def pvcOrds : Nat → Int → Int → List Int
  | 0, _, _ => []
  | f + 1, i, expect => if Gen.K8s.pvcCond i expect then i :: pvcOrds f (Gen.K8s.pvcNext i) expect else []

structure ScaleResult where
  replicas : Option Int              -- `spec.replicas` afterwards
  updated : Bool                     -- an Update was sent
  deleted : List (Nat × Int)         -- volume claims deleted (template, ordinal), in order
  deriving Repr, DecidableEq, Inhabited

/-- `ChangeScale(expect)` on a StatefulSet with `cur` replicas (`none` = nil) and `tpls` templates -/
def changeScale (deletePVC : Bool) (cur : Option Int) (tpls : Nat) (expect : Int) : ScaleResult :=
  if Gen.K8s.scaleNoop cur.isNone (cur.getD 0) expect then ⟨cur, false, []⟩
  else
    let old := Gen.K8s.oldOf (cur.getD 0)
    let ords := if Gen.K8s.pvcEnabled deletePVC
      then pvcOrds ((old - expect).toNat + 2) (Gen.K8s.pvcInit old) expect else []
    ⟨some (Gen.K8s.newReplicas expect), true, ords.flatMap fun i => (List.range tpls).map fun t => (t, i)⟩

/-- `ChangeScale(expect)` when the API server may reject the `Update` (conflict, any error): the
    function returns that error before the volume-claim loop, so nothing else happens.  Second
    component: an error is returned. -/
def changeScaleE (deletePVC : Bool) (cur : Option Int) (tpls : Nat) (expect : Int) (updOk : Bool) : ScaleResult × Bool :=
  if Gen.K8s.scaleNoop cur.isNone (cur.getD 0) expect then (⟨cur, false, []⟩, false)
  else if updOk then (changeScale deletePVC cur tpls expect, false)
  else (⟨cur, true, []⟩, true)

/-- `Replicas()`: is the StatefulSet skipped because a rolling update is in progress? -/
def skipped (replicas updated : Int) : Bool := Gen.K8s.rollingSkip replicas updated

/-- what one call of `Replicas()` sees of one StatefulSet -/
structure StsStatus where
  replicas : Int
  updated : Int
  ready : Int
  deriving Repr, DecidableEq, Inhabited

/-- one iteration of the loop of `Replicas()` for one StatefulSet at time `now` (seconds); the
    manager's state for it is the "not ready since" stamp.  Result: the new stamp and whether a
    shard manager is returned (the StatefulSet is coordinated in this cycle). -/
def replicasStep (stamp : Option Int) (now : Int) (s : StsStatus) : Option Int × Bool :=
  if Gen.K8s.rollingSkip s.replicas s.updated then (none, false) else
  let stamp := if Gen.K8s.stampSet s.ready s.replicas stamp.isNone then some now else stamp
  -- `*t` is only evaluated when the first conjunct holds, and then the stamp is set
  if Gen.K8s.stillWaiting s.ready s.replicas (now - stamp.getD now) then (stamp, false) else (stamp, true)

/-- a history of calls by one manager (fresh manager: no stamp); the answers, oldest first -/
def replicasRun : Option Int → List (Int × StsStatus) → List Bool
  | _, [] => []
  | stamp, (now, s) :: rest =>
    let r := replicasStep stamp now s
    r.2 :: replicasRun r.1 rest

end Kvass.K8s
