/-
  The target hash (`pkg/discovery/translate.go: targetHash`): FNV-1a 64 over the decimal,
  zero-padded xxhash64 of the sorted label set (`labels.Labels.Hash`) followed by the URL.
  xxhash64 and FNV-1a are implemented here and compared bit for bit with the Go code on every run.
  Names, values and URLs are byte strings.
-/
import Kvass.Types

namespace Kvass.HashM
open Kvass

abbrev Bytes := List UInt8

/-! ### FNV-1a, 64 bit -/

def fnvOffset : UInt64 := 14695981039346656037
def fnvPrime : UInt64 := 1099511628211

def fnv1a (bs : Bytes) : UInt64 := bs.foldl (fun h b => (h ^^^ b.toUInt64) * fnvPrime) fnvOffset

/-! ### xxhash64 (seed 0) -/

def p1 : UInt64 := 11400714785074694791
def p2 : UInt64 := 14029467366897019727
def p3 : UInt64 := 1609587929392839161
def p4 : UInt64 := 9650029242287828579
def p5 : UInt64 := 2870177450012600261

def rotl (x : UInt64) (r : UInt64) : UInt64 := (x <<< r) ||| (x >>> (64 - r))

def le64 (bs : Bytes) : UInt64 :=
  (bs.take 8).reverse.foldl (fun acc b => (acc <<< 8) ||| b.toUInt64) 0
def le32 (bs : Bytes) : UInt64 :=
  (bs.take 4).reverse.foldl (fun acc b => (acc <<< 8) ||| b.toUInt64) 0

def xxRound (acc inp : UInt64) : UInt64 := rotl (acc + inp * p2) 31 * p1
def xxMerge (acc v : UInt64) : UInt64 := (acc ^^^ xxRound 0 v) * p1 + p4

/-- the 32-byte stripes -/
def xxStripes : Nat → Bytes → (UInt64 × UInt64 × UInt64 × UInt64) → (UInt64 × UInt64 × UInt64 × UInt64) × Bytes
  | 0, bs, v => (v, bs)
  | f + 1, bs, (v1, v2, v3, v4) =>
    if bs.length < 32 then ((v1, v2, v3, v4), bs)
    else xxStripes f (bs.drop 32)
      (xxRound v1 (le64 bs), xxRound v2 (le64 (bs.drop 8)), xxRound v3 (le64 (bs.drop 16)), xxRound v4 (le64 (bs.drop 24)))

def xxTail : Nat → Bytes → UInt64 → UInt64
  | 0, _, h => h
  | f + 1, bs, h =>
    if bs.length ≥ 8 then xxTail f (bs.drop 8) (rotl (h ^^^ xxRound 0 (le64 bs)) 27 * p1 + p4)
    else if bs.length ≥ 4 then xxTail f (bs.drop 4) (rotl (h ^^^ (le32 bs * p1)) 23 * p2 + p3)
    else match bs with
      | [] => h
      | b :: rest => xxTail f rest (rotl (h ^^^ (b.toUInt64 * p5)) 11 * p1)

def xxAvalanche (h : UInt64) : UInt64 :=
  let h := (h ^^^ (h >>> 33)) * p2
  let h := (h ^^^ (h >>> 29)) * p3
  h ^^^ (h >>> 32)

def xxhash64 (bs : Bytes) : UInt64 :=
  let n := bs.length
  let (h, rest) :=
    if n ≥ 32 then
      let ((v1, v2, v3, v4), rest) := xxStripes (n / 32 + 1) bs (p1 + p2, p2, 0, 0 - p1)
      let h := rotl v1 1 + rotl v2 7 + rotl v3 12 + rotl v4 18
      (xxMerge (xxMerge (xxMerge (xxMerge h v1) v2) v3) v4, rest)
    else (p5, bs)
  xxAvalanche (xxTail (rest.length + 1) rest (h + n.toUInt64))

/-! ### labels -/

abbrev Label := Bytes × Bytes

/-- byte-wise lexicographic `<` on names, as Go compares strings -/
def nameLe (a b : Label) : Bool := decide (a.1.map (·.toNat) ≤ b.1.map (·.toNat))

/-- `sort.Sort(lbls)` -/
def sortLabels (ls : List Label) : List Label := ls.mergeSort nameLe

/-- the byte string `labels.Labels.Hash` feeds to xxhash: name 0xff value 0xff … -/
def labelsBytes (ls : List Label) : Bytes := ls.flatMap fun l => l.1 ++ [0xff] ++ l.2 ++ [0xff]

def labelsHash (ls : List Label) : UInt64 := xxhash64 (labelsBytes ls)

def digits (n : Nat) : Bytes := (toString n).toUTF8.toList
/-- `fmt.Sprintf("%016d", x)` -/
def pad16 (n : Nat) : Bytes :=
  let d := digits n
  List.replicate (16 - d.length) 48 ++ d

/-- the bytes fed to the outer FNV hash -/
def hashInput (ls : List Label) (url : Bytes) : Bytes := pad16 (labelsHash (sortLabels ls)).toNat ++ url

/-- `targetHash(lbls, url)` -/
def targetHash (ls : List Label) (url : Bytes) : UInt64 := fnv1a (hashInput ls url)

end Kvass.HashM
