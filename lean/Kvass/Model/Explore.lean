/-
  Model of the explorer's probe scheduling (`pkg/explore/explore.go`): the target table, the
  `needExplore` queue, probes in flight and retry timers.  Entries have identity (the Go pointers):
  an entry removed from the table lives on while a worker or a timer still holds it.
-/
import Kvass.Types
import Kvass.Gen.Disc

namespace Kvass.Explore
open Kvass

structure Entry where
  hash : Hash
  exploring : Bool := false
  succeeded : Bool := false
  est : Option (Int × Int) := none          -- (series, total) of the successful probe
  deriving Repr, DecidableEq, Inhabited

structure ES where
  objs : List Entry := []                   -- every entry ever created; its index is its identity
  table : AL Nat := []                      -- hash ↦ entry id
  queue : List Nat := []                    -- needExplore (entry ids)
  inflight : List Nat := []
  timers : List Nat := []                   -- entries whose retry sleep is running
  deriving Repr, DecidableEq, Inhabited

inductive Op
  | get (h : Hash)
  | update (hs : List Hash)                 -- the active targets of the latest discovery update
  | prune (keep : List Hash)                -- a reload: the hashes whose job is still configured
  | start (id : Nat)                        -- a worker takes entry `id` from the queue
  | finish (id : Nat) (r : Option (Int × Int))   -- its probe ends: counts, or failure
  | timer (id : Nat)                        -- the retry sleep of entry `id` is over
  deriving Repr, DecidableEq, Inhabited

def setObj (s : ES) (id : Nat) (f : Entry → Entry) : ES :=
  match s.objs[id]? with
  | some e => { s with objs := s.objs.set id (f e) }
  | none => s

def step (s : ES) : Op → ES
  | .get h =>
    match s.table.get h with
    | none => s
    | some id =>
      match s.objs[id]? with
      | none => s
      | some e =>
        if Gen.Disc.getStarts e.exploring then
          { setObj s id (fun e => { e with exploring := true }) with queue := s.queue ++ [id] }
        else s
  | .update hs =>
    -- existing entries are kept (same object), new hashes get a fresh entry
    hs.foldl (fun (acc : ES) h =>
      if acc.table.has h then acc
      else match s.table.get h with
        | some id => if Gen.Disc.exploreKeepsEntry true then { acc with table := acc.table.set h id } else acc
        | none => { acc with objs := acc.objs ++ [{ hash := h }], table := acc.table.set h acc.objs.length })
      { s with table := [] }
  | .prune keep => { s with table := s.table.filter fun p => keep.contains p.1 }
  | .start id =>
    if s.queue.contains id then { s with queue := s.queue.erase id, inflight := s.inflight ++ [id] } else s
  | .finish id r =>
    if !s.inflight.contains id then s else
    let s := { s with inflight := s.inflight.erase id }
    match r with
    | some c => setObj s id fun e => { e with succeeded := true, est := some c }
    | none => if Gen.Disc.probeFailed false then { s with timers := s.timers ++ [id] } else s
  | .timer id =>
    if !s.timers.contains id then s else
    let s := { s with timers := s.timers.erase id }
    match s.objs[id]? with
    | none => s
    | some e =>
      if Gen.Disc.retryRequeues (s.table.get e.hash) id then { s with queue := s.queue ++ [id] } else s

def run (ops : List Op) : ES := ops.foldl step {}

/-- all tokens: an entry is probed, or about to be, only through one of these -/
def tokens (s : ES) : List Nat := s.queue ++ s.inflight ++ s.timers

end Kvass.Explore
