/-
  C02: what happens to one target between the coordinator's discovery and the request the sidecar
  proxy really sends, next to what one plain Prometheus would do.

      coordinator: final labels L  (its re-implementation of Prometheus' label population;
                                    compared with the library on every target by the engine)
        ── `labelsWithoutConfigParam`, `supportInvalidLabelName` ──▶  shipped labels (JSON)
        ── injector `target2targetGroup` + generated job ──▶  static group in the shard's config
        ── Prometheus on the shard: label population of the generated job, `Target.URL` ──▶
              final labels S, request  http://addr/path?query&_hash&_jobName&_scheme  (via proxy_url)
        ── sidecar proxy `translateURL` ──▶  the request that goes out

  Label names are kept abstract but structured, values are numbers (`0` = the empty string, which
  Prometheus treats as "label absent").  A label set is a total function `Name → Val`.
-/
import Kvass.Types
import Kvass.Gen.Inject

namespace Kvass.Chain
open Kvass

/-- URL parameter names: ordinary ones, and kvass' three routing parameters -/
inductive PName
  | user (k : Nat)
  | hash | jobName | scheme
  deriving Repr, DecidableEq, Inhabited

inductive Name
  | address | scheme | path | job | inst
  | param (k : PName)      -- `__param_<k>`
  | internal (n : Nat)     -- any other name starting with `__` (`__meta_*` are gone after population)
  | pub (n : Nat)          -- a valid label name not starting with `__`
  | bad (n : Nat)          -- not a valid label name because of a character in it (e.g. `a-b`)
  | marked (n : Nat)       -- `__invalid_label_` followed by the invalid name `n` (still invalid)
  | digit (n : Nat)        -- not a valid label name only because it starts with a digit (e.g. `1x`)
  | dmarked (n : Nat)      -- `__invalid_label_` followed by such a name: a valid name
  deriving Repr, DecidableEq, Inhabited

abbrev Val := Nat
abbrev Labels := Name → Val

def http : Val := 1
def https : Val := 2

def set (L : Labels) (n : Name) (v : Val) : Labels := fun m => if m = n then v else L m

/-- the job's `params`: for every name its list of values (`[]` = not configured) -/
abbrev Params := PName → List Val

/-- does the job configure this parameter name at all (`params: {k: [...]}`, possibly empty) -/
structure Job where
  name : Val
  path : Val
  scheme : Val
  params : Params
  keys : List PName        -- the keys of `params` (a key may have an empty value list)
  deriving Inhabited

/-! ### coordinator side -/

/-- `labelsWithoutConfigParam`: every `__param_<k>` with `k` a key of the job's params is removed -/
def withoutConfigParam (j : Job) (L : Labels) : Labels := fun m =>
  match m with
  | .param k => if j.keys.contains k then 0 else L m
  | _ => L m

/-- `supportInvalidLabelName`: an invalid name is shipped under the marker prefix -/
def markInvalid (L : Labels) : Labels := fun m =>
  match m with
  | .bad _ => 0
  | .marked n => if L (.bad n) ≠ 0 then L (.bad n) else L (.marked n)
  | .digit _ => 0
  | .dmarked n => if L (.digit n) ≠ 0 then L (.digit n) else L (.dmarked n)
  | _ => L m

def ship (j : Job) (L : Labels) : Labels := markInvalid (withoutConfigParam j L)

/-! ### sidecar side -/

/-- `target2targetGroup`: the static group's labels for one shipped target -/
def staticGroup (j : Job) (hash : Val) (T : Labels) : Labels := fun m =>
  match m with
  | .scheme => http
  | .param .scheme => if T .scheme ≠ 0 then T .scheme else http
  | .param .jobName => j.name
  | .param .hash => hash
  | _ => T m

/-- names of a static group that make `config.Load` reject the file -/
def invalidName : Name → Bool
  | .bad _ => true
  | .marked _ => true      -- the marker does not make the name valid
  | .digit _ => true
  | _ => false

/-- the generated job: same name, path and params; scheme http; the only relabel rule is the
    label map that strips the marker prefix -/
def genJob (j : Job) : Job := { j with scheme := http }

/-- Prometheus' label population on the shard for a static-group target of the generated job:
    defaults for unset job / path / scheme, configured params written over the labels, the marker
    label map, instance defaulted to the address (`addr` already carries its port) -/
def shardPopulate (g : Job) (G : Labels) : Labels :=
  let L1 : Labels := fun m =>
    match m with
    | .job => if G .job ≠ 0 then G .job else g.name
    | .path => if G .path ≠ 0 then G .path else g.path
    | .scheme => if G .scheme ≠ 0 then G .scheme else g.scheme
    | .param k => (match g.params k with | v :: _ => v | [] => G m)
    | _ => G m
  -- labelmap `__invalid_label_(.+)` → `$1`
  let L2 : Labels := fun m =>
    match m with
    | .bad n => if L1 (.marked n) ≠ 0 then L1 (.marked n) else L1 m
    | .digit n => if L1 (.dmarked n) ≠ 0 then L1 (.dmarked n) else L1 m
    | _ => L1 m
  fun m => match m with
    | .inst => if L2 .inst ≠ 0 then L2 .inst else L2 .address
    | _ => L2 m

/-- a request: scheme, host, path and the query as a function from parameter name to its values -/
structure Request where
  scheme : Val
  host : Val
  path : Val
  query : PName → List Val

/-- `Target.URL()`: the job's params with every `__param_<k>` label written over the first value -/
def targetURL (g : Job) (S : Labels) : Request :=
  { scheme := S .scheme, host := S .address, path := S .path,
    query := fun k =>
      if S (.param k) ≠ 0 then
        (match g.params k with | _ :: rest => S (.param k) :: rest | [] => [S (.param k)])
      else g.params k }

/-- the proxy's `translateURL`: routing parameters are taken out, the scheme is restored -/
def translateURL (r : Request) : Request :=
  { r with scheme := (r.query .scheme).headD 0,
           query := fun k => match k with
             | .hash => [] | .jobName => [] | .scheme => []
             | _ => r.query k }

/-- the whole kvass path for one target with final labels `L` and hash `hash` -/
def shardLabels (j : Job) (hash : Val) (L : Labels) : Labels :=
  shardPopulate (genJob j) (staticGroup j hash (ship j L))

def realRequest (j : Job) (hash : Val) (L : Labels) : Request :=
  translateURL (targetURL (genJob j) (shardLabels j hash L))

/-- one plain Prometheus: the request for a target with final labels `L` -/
def refRequest (j : Job) (L : Labels) : Request := targetURL j L

/-- the labels a target shows (everything not starting with `__`) -/
def isPublic : Name → Bool
  | .job => true | .inst => true | .pub _ => true | .bad _ => true | .digit _ => true
  | _ => false

end Kvass.Chain
