/-
  Model of `pkg/discovery` (active / dropped target sets) and of the explorer's target table
  (`Explore.UpdateTargets`, `Explore.ApplyConfig`).  A discovered target is represented by the
  *outcome of its translation*: a key that determines its hash (equal final labels and URL ⇒ equal
  key), or "dropped by relabeling", or "rejected" (no address, bad value …).
-/
import Kvass.Types
import Kvass.Gen.Disc

namespace Kvass.Disc
open Kvass

abbrev Job := Nat

inductive DT
  | active (key : Nat)      -- kept by relabeling; `key` stands for (final labels, URL)
  | dropped (id : Nat)      -- dropped by relabeling; `id` only tells dropped targets apart
  | rejected                -- populateLabels returns an error
  deriving Repr, DecidableEq, Inhabited

/-- `targetsFromGroup`: (active keys, dropped ids) of one group, in order -/
def fromGroup : List DT → List Nat → List Nat × List Nat
  | [], _ => ([], [])
  | t :: ts, seen =>
    match t with
    | .rejected =>
      if Gen.Disc.targetFails false then fromGroup ts seen   -- skipped, the rest of the group is kept
      else fromGroup ts seen
    | .active k =>
      if Gen.Disc.targetExists true true then
        if Gen.Disc.dedupApplies true && Gen.Disc.dedupSkips (seen.contains k) then fromGroup ts seen
        else let (a, d) := fromGroup ts (k :: seen); (k :: a, d)
      else fromGroup ts seen
    | .dropped i =>
      if Gen.Disc.targetExists false true then
        if Gen.Disc.dedupApplies false && Gen.Disc.dedupSkips true then fromGroup ts seen
        else let (a, d) := fromGroup ts seen; (a, i :: d)
      else fromGroup ts seen

/-- all groups of one job -/
def fromJob (groups : List (List DT)) : List Nat × List Nat :=
  groups.foldl (fun acc g => let (a, d) := fromGroup g []; (acc.1 ++ a, acc.2 ++ d)) ([], [])

structure DS where
  jobs : List Job := []                       -- configured jobs
  active : AL (List Nat) := []                -- job ↦ active keys
  dropped : AL (List Nat) := []               -- job ↦ dropped ids
  explorer : List (Nat × Job) := []           -- explorer table: key ↦ job it was first seen under
  deriving Repr, DecidableEq, Inhabited

/-- jobs are keys of the association lists -/
abbrev Upd := List (Job × List (List DT))

/-- `translateTargets` -/
def update (s : DS) (m : Upd) : DS :=
  let tr := m.filterMap fun (j, gs) =>
    if Gen.Disc.jobUnknown (s.jobs.contains j) then none else some (j, fromJob gs)
  let active := tr.foldl (fun a (j, r) => a.set j r.1) s.active
  let dropped := tr.foldl (fun a (j, r) => a.set j r.2) s.dropped
  -- the explorer is handed exactly this update's active targets
  let all : List (Nat × Job) := tr.flatMap fun (j, r) => r.1.map fun k => (k, j)
  let explorer := all.foldl (fun acc (k, j) =>
      if acc.any (·.1 == k) then acc
      else match s.explorer.find? (·.1 == k) with
        | some e => if Gen.Disc.exploreKeepsEntry true then acc ++ [e] else acc ++ [(k, j)]
        | none => acc ++ [(k, j)]) []
  { s with active := active, dropped := dropped, explorer := explorer }

/-- the part of map `m` that a reload to `jobs` keeps: jobs that have an active entry -/
def keepJobs (s : DS) (m : AL (List Nat)) (jobs : List Job) (acc : AL (List Nat)) : AL (List Nat) :=
  jobs.foldl (fun acc j => match s.active.get j with
    | some _ => if Gen.Disc.reloadKeeps true then acc.set j ((m.get j).getD []) else acc
    | none => acc) acc

/-- a configuration reload (`Explore.ApplyConfig`, then `TargetsDiscovery.ApplyConfig`) -/
def reload (s : DS) (jobs : List Job) : DS :=
  { jobs := jobs, active := keepJobs s s.active jobs [], dropped := keepJobs s s.dropped jobs [],
    explorer := s.explorer.filter fun e => Gen.Disc.exploreKeepsJob (jobs.contains e.2) }

inductive Op
  | update (m : Upd)
  | reload (jobs : List Job)
  deriving Repr, Inhabited

def step (s : DS) : Op → DS
  | .update m => update s m
  | .reload js => reload s js

def run (ops : List Op) : DS := ops.foldl step {}

end Kvass.Disc
