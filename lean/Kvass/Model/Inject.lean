/-
  Model of the configuration injector (`pkg/sidecar/injector.go`).
  (i) the rewrite of scrape jobs, on an abstract job record;
  (ii) the sections copied from the original content after marshalling (where the secrets live).
-/
import Kvass.Types
import Kvass.Gen.Inject

namespace Kvass.Inject
open Kvass

/-- what a scrape job consists of, as far as the injector and the property are concerned -/
structure Job where
  name : Nat
  ingest : Nat                 -- every ingestion-relevant setting, opaque (intervals, timeouts, params,
                               -- honor flags, limits, metric relabeling): must come out unchanged
  scheme : Nat                 -- 0 = http, 1 = https
  basicAuth : Option Nat       -- some secret id
  bearer : Option Nat
  tls : Option Nat
  otherAuth : Option Nat       -- authorization / oauth2 block (kept by the injector)
  sd : List Nat                -- service-discovery configuration (any kind), opaque ids
  static : List (Hash × Nat × Nat) := []   -- after injection: static entries (hash, original scheme, job name)
  relabel : List Nat           -- relabel_configs ids; `[999]` stands for the injected label-map rule
  proxy : Option Nat
  deriving Repr, DecidableEq, Inhabited

structure Opt where
  proxyURL : Option Nat        -- `inject.proxy`
  selfMonitor : Bool
  deriving Repr, DecidableEq, Inhabited

/-- fields `injectJobs` assigns, as extracted from the source -/
def assignedFields : List String := Gen.Inject.jobAssigns.map (·.1)

/-- `injectJobs` for one job; `assigned` are this job's targets (hash, scheme from its labels) -/
def rewrite (o : Opt) (assigned : List (Hash × Nat)) (j : Job) : Job :=
  { j with
    proxy := (match o.proxyURL with | some u => some u | none => j.proxy),
    sd := [],
    static := assigned.map fun (h, sch) => (h, sch, j.name),
    scheme := 0,
    bearer := none, basicAuth := none, tls := none,
    relabel := [999] }

def selfJob : Job :=
  { name := 1000000, ingest := 0, scheme := 0, basicAuth := none, bearer := none, tls := none, otherAuth := none,
    sd := [], static := [], relabel := [], proxy := none }

/-- `inject`: every job rewritten in place, plus the optional self-monitoring job -/
def inject (o : Opt) (assign : AL (List (Hash × Nat))) (jobs : List Job) : List Job :=
  jobs.map (fun j => rewrite o ((assign.get j.name).getD []) j) ++
    (if Gen.Inject.selfMonitorOff o.selfMonitor then [] else [selfJob])

/-! ### sections and their secrets

  `marshal` writes the rewritten configuration (every secret masked as `<secret>`), then takes the
  sections kvass does not rewrite from the original content.  A document is the ordered list of its
  top-level sections; keys `0,1,2` = `alerting`, `remote_write`, `remote_read`; values are opaque ids
  (the original value, or its masked image). -/

abbrev Doc := List (Nat × Nat)

/-- the inner loop: every section of `out` with this key gets the value -/
def putSection (key val : Nat) (out : Doc) : Doc :=
  out.map fun (k, v) => if Gen.Inject.sectionMatches k key then (k, val) else (k, v)

/-- the outer loop over the original's sections -/
def copySections (raw out : Doc) : Doc :=
  raw.foldl (fun o (k, v) => if Gen.Inject.sectionSkipped k then o else putSection k v o) out

end Kvass.Inject
