/-
  Model of the sidecar's bookkeeping: `TargetsManager.UpdateTargets` (`updateStatus`,
  `updateIdleState`), the effect of one proxied scrape on a target's status
  (`Proxy.ServeHTTP` epilogue, `ScrapeStatus.UpdateScrapeResult`, `SetScrapeErr`),
  restart from the store (`Load`) and `Service.runtimeInfo`.
-/
import Kvass.Types
import Kvass.Gen.Sidecar

namespace Kvass.Sidecar
open Kvass

/-- `target.ScrapeStatus` as the sidecar keeps it -/
structure SS where
  health : Health := .unknown
  series : Int := 0
  total : Int := 0
  state : TState := .normal
  times : Nat := 0
  window : List Int := []        -- lastSeries
  lastScraped : Int := 0         -- LastScrapeStatistics.ScrapedTotal
  lastTotal : Int := 0           -- LastScrapeStatistics.Total
  deriving Repr, DecidableEq, Inhabited

/-- `target.Target` of an update request -/
structure Tgt where
  hash : Hash
  series : Int
  total : Int
  state : TState
  job : Nat := 0
  deriving Repr, DecidableEq, Inhabited

structure SC where
  targets : List Tgt := []       -- all requested targets (jobs flattened, in iteration order)
  status : AL SS := []
  idleAt : Option Nat := none
  deriving Repr, Inhabited

def fresh (t : Tgt) : SS :=
  { health := .unknown, series := Gen.Sidecar.freshSeries t.series t.total,
    total := Gen.Sidecar.freshTotal t.series t.total }

/-- one iteration of `updateStatus` -/
def updOne (old : AL SS) (acc : AL SS) (t : Tgt) : AL SS :=
  let cur : SS :=
    if Gen.Sidecar.statusIsNew (old.has t.hash) then fresh t
    else match acc.get t.hash with          -- same object as in the old map, possibly already touched
      | some s => s
      | none => (old.get t.hash).getD (fresh t)
  let cur := if Gen.Sidecar.resetCond cur.state t.state then { cur with times := Gen.Sidecar.resetTo } else cur
  acc.set t.hash { cur with state := Gen.Sidecar.stateTo t.state }

def updStatus (old : AL SS) (ts : List Tgt) : AL SS := ts.foldl (updOne old) []

def updIdle (now : Nat) (status : AL SS) (idleAt : Option Nat) : Option Nat :=
  let idleAt := if Gen.Sidecar.idleSet status.length idleAt.isNone then some now else idleAt
  if Gen.Sidecar.idleClear status.length then none else idleAt

/-- `UpdateTargets(req)` at clock value `now` -/
def update (now : Nat) (s : SC) (req : List Tgt) : SC :=
  let st := updStatus s.status req
  { targets := req, status := st, idleAt := updIdle now st s.idleAt }

/-- restart: `Load()` of what was saved (targets and idle time; statuses are not persisted),
    followed by the `UpdateTargets` that `Load` defers -/
def restart (now : Nat) (s : SC) : SC := update now { targets := s.targets, status := [], idleAt := s.idleAt } s.targets

/-- `UpdateScrapeResult` -/
def pushWindow (w : List Int) (x : Int) : List Int :=
  if Gen.Sidecar.windowRoom w.length then w ++ [x] else w.drop 1 ++ [x]

def scrapeOk (st : SS) (scraped total : Int) : SS :=
  let w := pushWindow st.window (Gen.Sidecar.pushedValue scraped)
  { st with window := w, series := Gen.Sidecar.meanOf w.sum w.length, total := Gen.Sidecar.totalOf total,
            times := Gen.Sidecar.timesNext st.times, lastScraped := scraped, lastTotal := total,
            health := if Gen.Sidecar.errIsNil true then Gen.Sidecar.healthOk else Gen.Sidecar.healthErr }

def scrapeFail (st : SS) : SS :=
  { st with times := Gen.Sidecar.timesNext st.times, lastScraped := 0, lastTotal := 0,
            health := if Gen.Sidecar.errIsNil false then Gen.Sidecar.healthOk else Gen.Sidecar.healthErr }

/-- one proxied scrape of target `h`: `some (scraped, total)` on success, `none` on failure -/
def scrape (s : SC) (h : Hash) (r : Option (Int × Int)) : SC :=
  match s.status.get h with
  | none => s
  | some st =>
    { s with status := s.status.set h (match r with
        | some (a, b) => scrapeOk st a b
        | none => scrapeFail st) }

/-- `runtimeInfo`: (head series, process series, idle since) -/
def runtime (promHead : Int) (s : SC) : Int × Int × Option Nat :=
  let mn := s.status.foldl (fun a p => Gen.Sidecar.rtMinAdd a p.2.series) 0
  let total := s.status.foldl (fun a p => Gen.Sidecar.rtTotalAdd a p.2.total) 0
  let series := if Gen.Sidecar.rtFloor promHead mn then Gen.Sidecar.rtFloorTo mn else promHead
  (Gen.Sidecar.rtHead series total, Gen.Sidecar.rtProc series total, s.idleAt)

/-- `GET /samples/`: per job the sums of the last scrape's counts over its assigned targets -/
def samples (s : SC) (job : Nat) : Int × Int :=
  ((s.targets.filter fun t => t.job == job).foldl (fun acc t =>
    match s.status.get t.hash with
    | some st => (acc.1 + st.lastScraped, acc.2 + st.lastTotal)
    | none => acc) (0, 0))

inductive Op
  | update (req : List Tgt)
  | scrape (h : Hash) (r : Option (Int × Int))
  | restart
  deriving Repr, Inhabited

/-- the clock advances by one with every operation -/
def step (s : SC × Nat) (op : Op) : SC × Nat :=
  match op with
  | .update req => (update s.2 s.1 req, s.2 + 1)
  | .scrape h r => (scrape s.1 h r, s.2 + 1)
  | .restart => (restart s.2 s.1, s.2 + 1)

/-- a sidecar process starts by loading an empty store -/
def init : SC × Nat := (update 0 {} [], 1)

def run (ops : List Op) : SC × Nat := ops.foldl step init

end Kvass.Sidecar

namespace Kvass.Sidecar
open Kvass

/-! ### `scrape.StatisticSeries` -/

/-- a parsed sample: its metric name (as a number) and whether the job's metric relabel rules keep it -/
structure Row where
  metric : Nat
  kept : Bool
  deriving Repr, DecidableEq, Inhabited

structure Stats where
  scraped : Nat := 0
  total : Nat := 0
  per : AL (Nat × Nat) := []        -- metric ↦ (total, scraped)
  deriving Repr, DecidableEq, Inhabited

def statStep (r : Stats) (row : Row) : Stats :=
  let cur := (r.per.get row.metric).getD (0, 0)
  let cur := (Gen.Sidecar.statMetricTotalNext cur.1, cur.2)
  let r := { r with total := Gen.Sidecar.statTotalNext r.total }
  if Gen.Sidecar.statKeep row.kept then
    { r with scraped := Gen.Sidecar.statScrapedNext r.scraped,
             per := r.per.set row.metric (cur.1, Gen.Sidecar.statMetricScrapedNext cur.2) }
  else { r with per := r.per.set row.metric cur }

def statistic (rows : List Row) : Stats := rows.foldl statStep {}

end Kvass.Sidecar
