/-
  Model of the sidecar's store: how `saveTargets` writes and how `Load` reads, on a file system
  with three names (the store file, its temp file, the legacy `targets.json`).
  The sequence of file-system calls is *derived from the call list extracted from the source*
  (`Gen.Store.saveCalls`): `ioutil.WriteFile(p, …)` is open-truncate / write / close on `p` and can
  be cut after any byte; `os.Rename(a, b)` is atomic.
-/
import Kvass.Types
import Kvass.Gen.Store

namespace Kvass.Store
open Kvass

abbrev Bytes := List Nat

inductive Name | main | tmp | legacy
  deriving Repr, DecidableEq, Inhabited

structure FS where
  main : Option Bytes := none
  tmp : Option Bytes := none
  legacy : Option Bytes := none
  deriving Repr, DecidableEq, Inhabited

def FS.get (fs : FS) : Name → Option Bytes
  | .main => fs.main | .tmp => fs.tmp | .legacy => fs.legacy
def FS.put (fs : FS) (n : Name) (b : Option Bytes) : FS :=
  match n with
  | .main => { fs with main := b } | .tmp => { fs with tmp := b } | .legacy => { fs with legacy := b }

inductive FsOp
  | writeFile (n : Name)            -- ioutil.WriteFile: O_TRUNC then write(s)
  | rename (a b : Name)             -- os.Rename: atomic
  deriving Repr, DecidableEq, Inhabited

/-- file names as they appear in the extracted calls -/
def nameOf (arg : String) : Option Name :=
  if arg == "t.storePath()" then some .main
  else if arg == "tmp" && Gen.Store.tmpName == "t.storePath() + \".tmp\"" then some .tmp
  else none

/-- translate the extracted call list into file-system operations; `none` if a call is not understood -/
def protocolOf : List (String × List String) → Option (List FsOp)
  | [] => some []
  | (f, args) :: rest =>
    if f == "json.Marshal" then protocolOf rest
    else if f == "ioutil.WriteFile" then
      match args.head? >>= nameOf, protocolOf rest with
      | some n, some r => some (.writeFile n :: r)
      | _, _ => none
    else if f == "os.Rename" then
      match args[0]? >>= nameOf, args[1]? >>= nameOf, protocolOf rest with
      | some a, some b, some r => some (.rename a b :: r)
      | _, _, _ => none
    else none

/-- the save protocol of the current source -/
def saveProtocol : Option (List FsOp) := protocolOf Gen.Store.saveCalls

def applyOp (data : Bytes) (fs : FS) : FsOp → FS
  | .writeFile n => fs.put n (some data)
  | .rename a b => (fs.put b (fs.get a)).put a none

def runOps (data : Bytes) (ops : List FsOp) (fs : FS) : FS := ops.foldl (applyOp data) fs

/-- states a crash (kill, failing write, disk full) can leave while `op` is executing:
    a write leaves any prefix (the file is truncated first); a rename is all or nothing -/
def midStates (data : Bytes) (fs : FS) : FsOp → List FS
  | .writeFile n => (List.range (data.length + 1)).map fun k => fs.put n (some (data.take k))
  | .rename _ _ => []

/-- every state the file system can be in when saving `data` stops at an arbitrary point -/
def crashStates (data : Bytes) : List FsOp → FS → List FS
  | [], fs => [fs]
  | op :: ops, fs => fs :: midStates data fs op ++ crashStates data ops (applyOp data fs op)

/-- result of `Load`: an error, or the resumed content -/
inductive Loaded (α : Type)
  | err
  | empty                     -- no file at all: empty assignment
  | cur (a : α)               -- store file
  | old (a : α)               -- legacy file (targets only)
  deriving Repr, DecidableEq

/-- `Load()`: the store file if it exists (a decode error is fatal), else the legacy file, else empty -/
def load {α : Type} (dec : Bytes → Option α) (fs : FS) : Loaded α :=
  match fs.main with
  | some b => match dec b with | some a => .cur a | none => .err
  | none =>
    match fs.legacy with
    | some b => match dec b with | some a => .old a | none => .err
    | none => .empty

end Kvass.Store
