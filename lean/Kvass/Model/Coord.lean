/-
  Executable model of one coordination cycle of one replica
  (`pkg/coordinator/coordinator.go: runOnce` body per replica,
   `pkg/coordinator/rebalance.go`, `pkg/shard/shard.go: UpdateTarget/needUpdate`).

  Every decision expression is a definition of `Kvass.Gen` (regenerated from the Go source on
  every run); this file fixes only the statement structure around them.  All map iteration
  orders that can influence the result and the weighted random pick are taken from an explicit
  schedule, so that theorems quantify over all of them.
-/
import Kvass.Types
import Kvass.Gen.Coord

namespace Kvass.Coord
open Kvass

/-- What one shard does when the coordinator talks to it during one cycle. -/
structure Probe where
  ready    : Bool
  status   : Option (AL St)          -- `GET targets/status`, `none` = error
  rt1      : Option (Rt × Bool)      -- `GET runtimeinfo` and "config hash equals the coordinator's"
  pushOk   : Bool                    -- `POST status/config` succeeds
  rt2      : Option (Rt × Bool)      -- second `GET runtimeinfo` after the push
  postOk   : Bool                    -- `POST shard/targets` succeeds
  deriving Repr, Inhabited

inductive Req
  | getStatus | getRuntime | postConfig
  | postTargets (body : List (Hash × TState × Int))
  | postExtra
  deriving Repr, DecidableEq, Inhabited

/-- `shardInfo` -/
structure SI where
  changeable : Bool
  rt : Rt
  scraping : AL St
  deriving Repr, Inhabited

/-- `getOneShardInfo`: the `shardInfo` and the requests the shard received. -/
def getInfo (p : Probe) : SI × List Req :=
  if !p.ready then (⟨false, {}, []⟩, []) else
  match p.status with
  | none => (⟨false, {}, []⟩, [.getStatus])
  | some st =>
    match p.rt1 with
    | none => (⟨false, {}, st⟩, [.getStatus, .getRuntime])
    | some (r1, eq1) =>
      if eq1 then (⟨true, r1, st⟩, [.getStatus, .getRuntime]) else
      if !p.pushOk then (⟨false, r1, st⟩, [.getStatus, .getRuntime, .postConfig]) else
      match p.rt2 with
      | none => (⟨false, {}, st⟩, [.getStatus, .getRuntime, .postConfig, .getRuntime])
      | some (r2, eq2) => (⟨eq2, r2, st⟩, [.getStatus, .getRuntime, .postConfig, .getRuntime])

/-- ghost record of one placement decision -/
structure Placement where
  kind : Nat          -- 0 first assignment, 1 process relief, 2 head relief, 3 scale-down
  hash : Hash
  src  : Option Nat
  dst  : Nat
  series : Int
  total  : Int
  headBefore : Int    -- destination's running head series before the placement
  procBefore : Int
  deriving Repr, DecidableEq, Inhabited

structure CS where
  shards : List SI
  log : List Placement := []
  crashed : Bool := false
  deriving Repr, Inhabited

def nChangeable (ss : List SI) : Nat := (ss.filter (·.changeable)).length

/-- `globalScrapeStatus` for one hash -/
def globalOf (ss : List SI) (explore : AL St) (h : Hash) : St :=
  match ss.findSome? (fun s => match s.scraping.get h with
      | some st => if st.health != .unknown then some st else none
      | none => none) with
  | some st => st
  | none => match explore.get h with
    | some st => st
    | none => { health := .unknown, series := 0, total := 0 }

/-! ### gcTargets -/

/-- does some other changeable shard justify deleting `s`'s copy `tar` of `h`? -/
def gcOtherTriggers (o : Opt) (ss : List SI) (i : Nat) (s : SI) (tar : St) (h : Hash) : Bool :=
  (ss.zipIdx).any fun (os, j) =>
    os.changeable && j != i &&
    match os.scraping.get h with
    | none => false
    | some st =>
      Gen.gcOtherOk st &&
      (Gen.gcRule2 tar st || (Gen.gcSame tar st && Gen.gcLess o s.rt os.rt i j))

def gcDecide (o : Opt) (active : List Hash) (ss : List SI) (i : Nat) (s : SI) (h : Hash) (tar : St) : Bool :=
  if !active.contains h then true
  else if Gen.gcYoung tar then false
  else gcOtherTriggers o ss i s tar h

/-- is `h` known to some other changeable shard (whatever its scrape count)? -/
def gcHeldElsewhere (ss : List SI) (i : Nat) (h : Hash) : Bool :=
  (ss.zipIdx).any fun (os, j) => os.changeable && j != i && Gen.gcHeld (os.scraping.has h)

/-- a copy that is kept, is in transfer and has no partner goes back to normal -/
def gcReverts (active : List Hash) (ss : List SI) (i : Nat) (h : Hash) (tar : St) : Bool :=
  active.contains h && !Gen.gcYoung tar && Gen.gcRevert (gcHeldElsewhere ss i h) tar

def revertSt (tar : St) : St := { tar with state := Gen.gcRevertTo }

/-- process the keys `hs` of shard `i` -/
def gcShard (o : Opt) (active : List Hash) (i : Nat) : List Hash → List SI → List SI
  | [], ss => ss
  | h :: hs, ss =>
    match ss[i]? with
    | none => ss
    | some s =>
      match s.scraping.get h with
      | none => gcShard o active i hs ss
      | some tar =>
        if gcDecide o active ss i s h tar then
          gcShard o active i hs (ss.set i { s with scraping := s.scraping.del h })
        else if gcReverts active ss i h tar then
          gcShard o active i hs (ss.set i { s with scraping := s.scraping.set h (revertSt tar) })
        else gcShard o active i hs ss

def gcFrom (o : Opt) (active : List Hash) : List Nat → List SI → List SI
  | [], ss => ss
  | i :: is, ss =>
    match ss[i]? with
    | none => gcFrom o active is ss
    | some s =>
      if s.changeable then gcFrom o active is (gcShard o active i s.scraping.keys ss)
      else gcFrom o active is ss

def gc (o : Opt) (active : List Hash) (ss : List SI) : List SI :=
  gcFrom o active (List.range ss.length) ss

/-- `space.add` -/
def spaceAdd (a b : Space) : Space := ⟨Gen.spaceAddHead a b, Gen.spaceAddProc a b⟩

/-! ### transferTarget -/

def transfer (kind : Nat) (c : CS) (i j : Nat) (h : Hash) : CS :=
  match c.shards[i]?, c.shards[j]? with
  | some f, some t =>
    match f.scraping.get h with
    | none => c
    | some tar =>
      let t' : SI := { t with
        rt := { t.rt with proc := Gen.transferProc t.rt tar, head := Gen.transferHead t.rt tar },
        scraping := t.scraping.set h tar }
      let f' : SI := { f with scraping := f.scraping.set h { tar with state := .inTransfer } }
      { c with
        shards := (c.shards.set j t').set i f',
        log := c.log ++ [⟨kind, h, some i, j, tar.series, tar.total, t.rt.head, t.rt.proc⟩] }
  | _, _ => c

/-- first changeable shard other than `i` satisfying `cond`, in slice order -/
def firstDst (ss : List SI) (i : Nat) (cond : SI → Bool) : Option Nat :=
  (ss.zipIdx).findSome? fun (os, j) => if os.changeable && j != i && cond os then some j else none

/-! ### alleviateShards -/

def loadHead (s : SI) : Int := (s.scraping.map fun p => if Gen.loadSkipHead p.2 then 0 else p.2.series).sum
def loadProc (s : SI) : Int := (s.scraping.map fun p => if Gen.loadSkipProc p.2 then 0 else p.2.total).sum

/-- the loop of `alleviateShardProcessSeries`; returns `(state, total, abortedByTooBig)` -/
def apLoop (o : Opt) (i : Nat) (exp : Int) : List Hash → CS → Int → CS × Int × Bool
  | [], c, total => (c, total, false)
  | h :: hs, c, total =>
    if Gen.apBreak total exp then (c, total, false) else
    match c.shards[i]? with
    | none => (c, total, false)
    | some s =>
      match s.scraping.get h with
      | none => apLoop o i exp hs c total
      | some tar =>
        if Gen.apSkip tar then apLoop o i exp hs c total
        else if Gen.apTooBig o tar then (c, total, true)
        else match firstDst c.shards i (fun os => Gen.apDst o os.rt tar) with
          | some j => apLoop o i exp hs (transfer 1 c i j h) (Gen.apSub total tar)
          | none => apLoop o i exp hs c total

def allevProcShard (o : Opt) (exp : Int) (order : List Hash) (c : CS) (i : Nat) : CS × Int :=
  match c.shards[i]? with
  | none => (c, 0)
  | some s =>
    let total := loadProc s
    if Gen.apDone total exp then (c, 0) else
    let (c', total', aborted) := apLoop o i exp order c total
    if aborted then (c', 0)
    else if Gen.apNeed total' exp then (c', Gen.apAmount total' exp) else (c', 0)

def ahLoop (o : Opt) (i : Nat) (exp : Int) : List Hash → CS → Int → CS × Int × Bool
  | [], c, total => (c, total, false)
  | h :: hs, c, total =>
    if Gen.ahBreak total exp then (c, total, false) else
    match c.shards[i]? with
    | none => (c, total, false)
    | some s =>
      match s.scraping.get h with
      | none => ahLoop o i exp hs c total
      | some tar =>
        if Gen.ahSkip tar then ahLoop o i exp hs c total
        else if Gen.ahTooBig o tar then (c, total, true)
        else match firstDst c.shards i (fun os => Gen.ahDst o os.rt tar) with
          | some j => ahLoop o i exp hs (transfer 2 c i j h) (Gen.ahSub total tar)
          | none => ahLoop o i exp hs c total

def allevHeadShard (o : Opt) (exp : Int) (order : List Hash) (c : CS) (i : Nat) : CS × Int :=
  match c.shards[i]? with
  | none => (c, 0)
  | some s =>
    let total := loadHead s
    if Gen.ahDone total exp then (c, 0) else
    let (c', total', aborted) := ahLoop o i exp order c total
    if aborted then (c', 0)
    else if Gen.ahNeed total' exp then (c', Gen.ahAmount total' exp) else (c', 0)

/-- iteration order for the scraping map of shard `i` taken from a schedule component -/
def orderFor (orders : List (List Hash)) (i : Nat) : List Hash := (orders[i]?).getD []

def allevProcAll (swr : Swr) (o : Opt) (orders : List (List Hash)) : List Nat → CS → Int → CS × Int
  | [], c, need => (c, need)
  | i :: is, c, need =>
    match c.shards[i]? with
    | none => allevProcAll swr o orders is c need
    | some s =>
      if s.changeable && Gen.procTrigger swr o s.rt then
        let (c', n) := allevProcShard o (Gen.procExpect swr o) (orderFor orders i) c i
        allevProcAll swr o orders is c' (need + n)
      else allevProcAll swr o orders is c need

/-- first threshold whose trigger fires, with its expected rate -/
def headThreshold (swr : Swr) (o : Opt) (r : Rt) : Option Rate :=
  Gen.headThresholds.findSome? fun (mx, ex) => if Gen.headTrigger swr o r mx then some ex else none

def allevHeadAll (swr : Swr) (o : Opt) (orders : List (List Hash)) : List Nat → CS → Int → CS × Int
  | [], c, need => (c, need)
  | i :: is, c, need =>
    match c.shards[i]? with
    | none => allevHeadAll swr o orders is c need
    | some s =>
      if s.changeable then
        match headThreshold swr o s.rt with
        | some ex =>
          let (c', n) := allevHeadShard o (Gen.headExpect swr o ex) (orderFor orders i) c i
          allevHeadAll swr o orders is c' (need + n)
        | none => allevHeadAll swr o orders is c need
      else allevHeadAll swr o orders is c need

structure Sched where
  allevProc : List (List Hash) := []     -- per shard: order of its scraping map
  allevHead : List (List Hash) := []
  assign    : List Hash := []            -- order of the active map
  picks     : List Nat := []             -- one per weighted pick, index into the candidate list
  canIdle   : List (List Hash) := []
  becomeIdle : List (List Hash) := []
  deriving Repr, Inhabited

def alleviate (swr : Swr) (o : Opt) (sc : Sched) (c : CS) : CS × Space :=
  if Gen.allevDisabled o then (c, {}) else
  let idx := List.range c.shards.length
  let (c1, np) := allevProcAll swr o sc.allevProc idx c 0
  if Gen.headEnabled o then
    let (c2, nh) := allevHeadAll swr o sc.allevHead idx c1 0
    (c2, ⟨nh, np⟩)
  else (c1, ⟨0, np⟩)

/-! ### getFreeShard / assignNoScrapingTargets -/

def weight (o : Opt) (r : Rt) : Int :=
  if Gen.weightUseHead o then Gen.weightHead o r else Gen.weightProc o r

/-- candidates of `getFreeShard` among the first `n` shards -/
def candidates (o : Opt) (ss : List SI) (n : Nat) (sp : Space) : List Nat :=
  ((ss.take n).zipIdx).filterMap fun (s, j) => if !Gen.fitSkip s.changeable && Gen.fit o s.rt sp then some j else none

inductive Pick | none | some (j : Nat) | crash
  deriving Repr, DecidableEq

/-- `getFreeShard(shards[0:n], sp)`; consumes one pick when the weighted chooser is used -/
def getFreeShard (o : Opt) (ss : List SI) (n : Nat) (sp : Space) (picks : List Nat) : Pick × List Nat :=
  match candidates o ss n sp with
  | [] => (.none, picks)
  | j :: js =>
    if Gen.firstFit o then (.some j, picks)
    else
      -- weighted random: every candidate with a positive weight can be returned;
      -- `uint(p)` of a non-positive p / an all-zero chooser is a crash of the real code
      let cands := j :: js
      if cands.any (fun k => match ss[k]? with | some s => weight o s.rt ≤ 0 | none => true) then (.crash, picks)
      else
        let p := picks.headD 0
        (.some (cands.getD (p % cands.length) j), picks.tail)

def place (kind : Nat) (c : CS) (j : Nat) (h : Hash) (st : St) : CS :=
  match c.shards[j]? with
  | none => c
  | some t =>
    let t' : SI := { t with
      rt := { t.rt with head := Gen.placeHead t.rt st, proc := Gen.placeProc t.rt st },
      scraping := t.scraping.set h st }
    { c with shards := c.shards.set j t',
             log := c.log ++ [⟨kind, h, none, j, st.series, st.total, t.rt.head, t.rt.proc⟩] }

def assignLoop (o : Opt) (scrapingSet : List Hash) (glob : Hash → St) :
    List Hash → CS → List Nat → Space → CS × List Nat × Space
  | [], c, picks, need => (c, picks, need)
  | h :: hs, c, picks, need =>
    if c.crashed then (c, picks, need) else
    if scrapingSet.contains h then assignLoop o scrapingSet glob hs c picks need else
    let status := glob h
    if Gen.assignSkip status then assignLoop o scrapingSet glob hs c picks need else
    if Gen.tooBig o status then assignLoop o scrapingSet glob hs c picks need else
    let sp : Space := ⟨Gen.spaceOfHead status, Gen.spaceOfProc status⟩
    match getFreeShard o c.shards c.shards.length sp picks with
    | (.some j, picks') => assignLoop o scrapingSet glob hs (place 0 c j h status) picks' need
    | (.none, picks') => assignLoop o scrapingSet glob hs c picks' (spaceAdd need sp)
    | (.crash, picks') => ({ c with crashed := true }, picks', need)

def scrapingSetOf (ss : List SI) : List Hash := (ss.map (·.scraping.keys)).flatten

/-- `assign` iterates the active map: each active hash once, in schedule order -/
def assign (o : Opt) (active : List Hash) (glob : Hash → St) (sc : Sched) (c : CS) : CS × List Nat × Space :=
  assignLoop o (scrapingSetOf c.shards) glob (uniq (sc.assign.filter active.contains)) c sc.picks {}

/-! ### tryScaleDown -/

/-- number of removable shards at the tail of the first `n` shards: returns the index `i`
    at which the first loop stops (`-1` as `none`) -/
def removableSuffix (ss : List SI) : Nat → Nat
  | 0 => 0
  | n + 1 =>
    match ss[n]? with
    | some s => if Gen.removable s.changeable s.scraping.length s.rt then removableSuffix ss n else n + 1
    | none => n + 1

/-- `shardCanBeIdle`'s greedy fit; `spaces` are the remaining spaces of the candidate shards -/
def cbiPlace (o : Opt) (tar : St) : List Space → Option (List Space)
  | [] => none
  | sp :: rest =>
    if Gen.cbiFit o sp tar then some (⟨Gen.cbiSubHead sp tar, Gen.cbiSubProc sp tar⟩ :: rest)
    else (cbiPlace o tar rest).map (sp :: ·)

def cbiLoop (o : Opt) (m : AL St) : List Hash → List Space → Bool
  | [], _ => true
  | h :: hs, spaces =>
    match m.get h with
    | none => cbiLoop o m hs spaces
    | some tar =>
      if Gen.cbiTarBlocks tar then false
      else match cbiPlace o tar spaces with
        | some spaces' => cbiLoop o m hs spaces'
        | none => false

def shardCanBeIdle (o : Opt) (ss : List SI) (i : Nat) (order : List Hash) : Bool :=
  match ss[i]? with
  | none => false
  | some src =>
    if Gen.cbiBlocked src.changeable then false else
    let spaces := ((ss.take i).filter (fun s => Gen.cbiCandidate s.changeable)).map fun s =>
      (⟨Gen.cbiSpaceHead o s.rt, Gen.cbiSpaceProc o s.rt⟩ : Space)
    cbiLoop o src.scraping order spaces

/-- `shardBecomeIdle`: returns the new state, remaining picks and the boolean result -/
def sbiLoop (o : Opt) (i : Nat) : List Hash → CS → List Nat → CS × List Nat × Bool
  | [], c, picks => (c, picks, true)
  | h :: hs, c, picks =>
    match c.shards[i]? with
    | none => (c, picks, false)
    | some src =>
      match src.scraping.get h with
      | none => sbiLoop o i hs c picks
      | some tar =>
        if Gen.sbiSkip tar then sbiLoop o i hs c picks else
        match getFreeShard o c.shards i ⟨Gen.sbiSpaceHead tar, Gen.sbiSpaceProc tar⟩ picks with
        | (.some j, picks') => sbiLoop o i hs (transfer 3 c i j h) picks'
        | (.none, picks') => (c, picks', false)
        | (.crash, picks') => ({ c with crashed := true }, picks', false)

/-- iterate shard indices `k = start, start-1, …, 1` -/
def sdLoop (o : Opt) (sc : Sched) : Nat → CS → List Nat → CS
  | 0, c, _ => c
  | k + 1, c, picks =>
    -- current index is `k + 1`
    match c.shards[k + 1]? with
    | none => sdLoop o sc k c picks
    | some src =>
      if Gen.sdSkipIdle src.rt then sdLoop o sc k c picks else
      let keys := src.scraping.keys
      let ord1 := uniq ((orderFor sc.canIdle (k + 1)).filter keys.contains)
      if !shardCanBeIdle o c.shards (k + 1) ord1 then c else
      let ord2 := uniq ((orderFor sc.becomeIdle (k + 1)).filter keys.contains)
      let (c', picks', ok) := sbiLoop o (k + 1) ord2 c picks
      if !ok then c' else sdLoop o sc k c' picks'

/-- `tryScaleDown`: the scale and the state after the transfers -/
def tryScaleDown (o : Opt) (sc : Sched) (c : CS) (picks : List Nat) : Int × CS :=
  let n := c.shards.length
  let stop := removableSuffix c.shards n      -- shards with index ≥ stop are removable
  -- Go: scale = stop; i = stop - 1; second loop runs for i = stop-1 … 1
  ((stop : Int), sdLoop o sc (stop - 1) c picks)

/-! ### tryScaleUp -/

def tryScaleUp (o : Opt) (ss : List SI) (sp : Space) : Int :=
  let up0 := Gen.upProc o sp
  let up := if Gen.upUseHead o sp up0 then Gen.upHead o sp else up0
  let exp := Gen.upSum (Gen.upBase ss.length (nChangeable ss)) up
  if Gen.upFloor exp ss.length then Gen.upFloorTo ss.length (nChangeable ss) else exp

/-! ### updateScrapingTargets / applyShardsInfo -/

def planned (active : List Hash) (s : SI) : AL St := s.scraping.filter fun p => active.contains p.1

def body (active : List Hash) (s : SI) : List (Hash × TState × Int) :=
  (planned active s).map fun p => (p.1, p.2.state, p.2.series)

/-- `Shard.needUpdate` against the cached report -/
def needUpdate (reported : AL St) (b : List (Hash × TState × Int)) : Bool :=
  Gen.needUpdateLen b.length reported.length ||
  b.any fun (h, st, _) => match reported.get h with
    | some r => Gen.needUpdateEntry true r.state st
    | none => Gen.needUpdateEntry false .normal st

def applyReqs (active : List Hash) (p : Probe) (s : SI) : List Req :=
  if !s.changeable then [] else
  let b := body active s
  let reported := p.status.getD []
  if needUpdate reported b then
    if p.postOk then [.postTargets b, .postExtra] else [.postTargets b]
  else [.postExtra]

/-! ### one cycle -/

structure Input where
  opt : Opt
  active : List Hash
  explore : AL St
  probes : List Probe
  scaleErr1 : Bool := false        -- the early `ChangeScale(MinShard)` fails
  deriving Repr, Inhabited

structure Outcome where
  reqs : List (List Req)           -- per shard, in order
  scales : List Int                -- every `ChangeScale` argument, in order
  log : List Placement             -- ghost
  final : List SI                  -- ghost: shardInfos after the scale stage
  afterGc : List SI                -- ghost
  crashed : Bool
  deriving Repr, Inhabited

def divCrash (o : Opt) (need : Space) : Bool :=
  Gen.needUp (Gen.spaceIsZero need) && o.maxProc == 0

def cycle (swr : Swr) (sc : Sched) (inp : Input) : Outcome :=
  let o := inp.opt
  let infos := inp.probes.map getInfo
  let ss0 := infos.map (·.1)
  let getReqs := infos.map (·.2)
  let early := Gen.earlyMin o ss0.length (nChangeable ss0)
  let earlyTo := Gen.earlyTo o ss0.length (nChangeable ss0)
  if early && inp.scaleErr1 then
    { reqs := getReqs, scales := [earlyTo], log := [], final := ss0, afterGc := ss0, crashed := false }
  else
  let scales0 : List Int := if early then [earlyTo] else []
  let glob := globalOf ss0 inp.explore
  let ss1 := gc o inp.active ss0
  let (c2, need1) := alleviate swr o sc { shards := ss1 }
  let (c3, picks, need2) := assign o inp.active glob sc c2
  let need := spaceAdd need1 need2
  if c3.crashed || divCrash o need then
    { reqs := getReqs, scales := scales0, log := c3.log, final := c3.shards, afterGc := ss1, crashed := true }
  else
  let (scale, c4) : Int × CS :=
    if Gen.needUp (Gen.spaceIsZero need) then (tryScaleUp o c3.shards need, c3)
    else if Gen.scaleDownOn o then tryScaleDown o sc c3 picks
    else (Gen.scaleInit c3.shards.length (nChangeable c3.shards), c3)
  if c4.crashed then
    { reqs := getReqs, scales := scales0, log := c4.log, final := c4.shards, afterGc := ss1, crashed := true }
  else
  let scale := if Gen.clampMax o scale then Gen.clampMaxTo o else scale
  let scale := if Gen.clampMin o scale then Gen.clampMinTo o else scale
  let apply := (inp.probes.zip c4.shards).map fun (p, s) => applyReqs inp.active p s
  { reqs := (getReqs.zip apply).map fun (a, b) => a ++ b,
    scales := scales0 ++ [Gen.finalScaleArg scale], log := c4.log, final := c4.shards, afterGc := ss1, crashed := false }

end Kvass.Coord

namespace Kvass.Coord

/-! ### several replicas (`runOnce`) -/

/-- one replica as `runOnce` meets it: listing its shards may fail -/
structure Replica where
  listErr : Bool := false
  probes : List Probe
  scaleErr1 : Bool := false
  deriving Repr, Inhabited

/-- `runOnce` over all replicas: options, discovered set and explorer are shared, each replica is
    coordinated from its own reports with its own schedule; a replica whose listing fails is skipped -/
def runOnce (swr : Swr) (opt : Opt) (active : List Hash) (explore : AL St) :
    List (Replica × Sched) → List (Option Outcome)
  | [] => []
  | (r, sc) :: rest =>
    (if r.listErr then none
     else some (cycle swr sc { opt, active, explore, probes := r.probes, scaleErr1 := r.scaleErr1 })) ::
    runOnce swr opt active explore rest

end Kvass.Coord
