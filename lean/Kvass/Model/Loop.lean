/-
  The closed loop (C03, C06): the coordinator's cycle (`Coord.cycle`) talking to real sidecars
  (`Sidecar.update / scrape / restart`) behind a StatefulSet whose size follows `ChangeScale`.

  Nothing new is modelled here apart from the glue:
    * what a sidecar answers to the coordinator's GETs is its model state (`probeOf`);
    * a delivered `POST shard/targets` is `Sidecar.update` with the targets the coordinator planned;
    * `ChangeScale(n)` starts ordinals `[old, n)` — from their store directory if they existed
      before, empty otherwise — and stops ordinals `≥ n` (their directories stay);
    * faults are the ones a harness can inject at its own boundaries (C06).
  Every sidecar has its own clock (one tick per update / scrape / restart), as in `Sidecar.step`.
-/
import Kvass.Model.Coord
import Kvass.Model.Sidecar

namespace Kvass.Loop
open Kvass Kvass.Coord

structure Env where
  opt : Opt
  maxIdle : Nat          -- `MaxIdleTime` in sidecar clock ticks (used when `opt.idleOn`)
  promHead : Int := 0    -- what the shard's Prometheus reports as head series
  deriving Repr, Inhabited

/-- one ordinal of the StatefulSet: the sidecar's state (its store directory included) and clock -/
structure Shard where
  sc : Sidecar.SC
  clock : Nat
  deriving Repr, Inhabited

def freshShard : Shard := ⟨Sidecar.init.1, Sidecar.init.2⟩

structure World where
  shards : List Shard          -- every ordinal that ever existed
  replicas : Nat               -- the running ones are `shards.take replicas`
  active : List Hash           -- discovered targets
  explore : AL St              -- explorer estimates
  deriving Repr, Inhabited

def World.running (w : World) : List Shard := w.shards.take w.replicas

/-- what can go wrong between the coordinator and one shard during one cycle -/
structure Fault where
  notReady : Bool := false
  statusFail : Bool := false     -- `GET targets/status` fails
  rtFail : Bool := false         -- `GET runtimeinfo` fails
  outOfSync : Bool := false      -- config hash differs …
  postLost : Bool := false       -- `POST shard/targets` does not reach the sidecar
  pushOk : Bool := false         -- … and the push of the raw configuration succeeds: the shard is in sync afterwards
  deriving Repr, DecidableEq, Inhabited

def stOf (s : Sidecar.SS) : St :=
  { health := s.health, series := s.series, total := s.total, state := s.state, times := s.times }

def idleOf (maxIdle now : Nat) : Option Nat → Idle
  | none => .none
  | some t => if now - t > maxIdle then .expired else .fresh

def rtOf (env : Env) (sh : Shard) : Rt :=
  let r := Sidecar.runtime env.promHead sh.sc
  ⟨r.1, r.2.1, idleOf env.maxIdle sh.clock r.2.2⟩

def statusOf (sh : Shard) : AL St := sh.sc.status.map fun p => (p.1, stOf p.2)

/-- the shard as the coordinator meets it in this cycle -/
def probeOf (env : Env) (sh : Shard) (f : Fault) : Probe :=
  { ready := !f.notReady
    status := if f.statusFail then none else some (statusOf sh)
    rt1 := if f.rtFail then none else some (rtOf env sh, !f.outOfSync)
    pushOk := f.pushOk
    rt2 := if f.pushOk && !f.rtFail then some (rtOf env sh, true) else none
    postOk := !f.postLost }

/-- the update request built from the coordinator's plan for this shard (`updateScrapingTargets`):
    the discovered target with state and series overwritten (`Gen.requestAssigns`); the total-series
    field of a discovered target is never set, so a sidecar starts a new entry with total 0 -/
def tgtsOf (active : List Hash) (s : SI) : List Sidecar.Tgt :=
  (planned active s).map fun p => ⟨p.1, p.2.series, 0, p.2.state, p.1 % 2⟩

def isPost : Req → Bool
  | .postTargets _ => true
  | _ => false

def applyShard (active : List Hash) (sh : Shard) (f : Fault) (rs : List Req) (fin : SI) : Shard :=
  if rs.any isPost && !f.postLost then ⟨Sidecar.update sh.clock sh.sc (tgtsOf active fin), sh.clock + 1⟩ else sh

def restartShard (sh : Shard) : Shard := ⟨Sidecar.restart sh.clock sh.sc, sh.clock + 1⟩

/-- ordinal `i` after a resize: the running ones keep running, the others start — from their store
    directory if they existed before, empty otherwise -/
def startedShard (w : World) (i : Nat) : Shard :=
  match w.shards[i]? with
  | some sh => if i < w.replicas then sh else restartShard sh
  | none => freshShard

/-- the StatefulSet is resized to `n` -/
def resize (w : World) (n : Nat) : World :=
  { w with shards := (List.range n).map (startedShard w) ++ w.shards.drop n, replicas := n }

def faultAt (faults : List Fault) (i : Nat) : Fault := (faults[i]?).getD {}

def inputOf (env : Env) (w : World) (faults : List Fault) (scaleFail : Bool) : Input :=
  { opt := env.opt, active := w.active, explore := w.explore,
    probes := w.running.zipIdx.map fun (sh, i) => probeOf env sh (faultAt faults i),
    scaleErr1 := scaleFail }

/-- the sidecars after the requests of a cycle, before any scaling -/
def applyOutcome (w : World) (faults : List Fault) (out : Outcome) : World :=
  let shards' := w.running.zipIdx.map fun (sh, i) =>
    match out.reqs[i]?, out.final[i]? with
    | some rs, some fin => applyShard w.active sh (faultAt faults i) rs fin
    | _, _ => sh
  { w with shards := shards' ++ w.shards.drop w.replicas }

/-- one coordination cycle against the running sidecars; `scaleFail`: every `ChangeScale` of this
    cycle fails -/
def cycleStep (swr : Swr) (env : Env) (w : World) (sc : Sched) (faults : List Fault) (scaleFail : Bool) :
    World × Outcome :=
  let out := cycle swr sc (inputOf env w faults scaleFail)
  let w1 := applyOutcome w faults out
  let w2 := if scaleFail then w1 else out.scales.foldl (fun w k => resize w k.toNat) w1
  (w2, out)

def onShard (w : World) (i : Nat) (f : Shard → Shard) : World :=
  if i < w.replicas then
    match w.shards[i]? with
    | some sh => { w with shards := w.shards.set i (f sh) }
    | none => w
  else w

inductive Op
  | cycle (sc : Sched) (faults : List Fault) (scaleFail : Bool)
  | scrape (i : Nat) (h : Hash) (r : Option (Int × Int))
  | restart (i : Nat)
  | update (i : Nat) (req : List Sidecar.Tgt)     -- an assignment from outside (earlier coordinator, operator)
  | setReplicas (n : Nat)
  | discover (active : List Hash) (explore : AL St)
  deriving Repr, Inhabited

def step (swr : Swr) (env : Env) (w : World) : Op → World
  | .cycle sc faults scaleFail => (cycleStep swr env w sc faults scaleFail).1
  | .scrape i h r => onShard w i fun sh => ⟨Sidecar.scrape sh.sc h r, sh.clock + 1⟩
  | .restart i => onShard w i restartShard
  | .update i req => onShard w i fun sh => ⟨Sidecar.update sh.clock sh.sc req, sh.clock + 1⟩
  | .setReplicas n => resize w n
  | .discover active explore => { w with active, explore }

def run (swr : Swr) (env : Env) (w : World) (ops : List Op) : World := ops.foldl (step swr env) w

end Kvass.Loop
