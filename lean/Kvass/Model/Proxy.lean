/-
  Model of the scrape proxy: the tee-ing reader (`pkg/scrape/reader.go`), and what one proxied
  scrape does to the response Prometheus sees and to the target's status (`Proxy.ServeHTTP`).
-/
import Kvass.Types
import Kvass.Gen.Proxy

namespace Kvass.Proxy
open Kvass

abbrev Bytes := List Nat

/-- one `Read` of the (already decompressed) body: the bytes it returns, and whether it returns
    them together with an error other than EOF (the body breaks off) -/
structure Chunk where
  data : Bytes
  err : Bool := false
  deriving Repr, DecidableEq, Inhabited

/-- inner loop of `wrappedReader.Read` for one writer: `script` says how many bytes each `Write`
    call accepts (`0`: the call fails).  Returns (bytes written, rest of the script, success). -/
def writeLoop : Nat → List Nat → Bytes → Nat → Bytes → Bytes × List Nat × Bool
  | 0, sc, _, _, out => (out, sc, false)
  | f + 1, sc, p, wTotal, out =>
    if Gen.Proxy.readerLoop wTotal p.length then
      match sc with
      | [] => (out ++ p.drop wTotal, [], true)                 -- script over: the writer takes the rest
      | k :: sc' =>
        if Gen.Proxy.readerWriteFails (k != 0) then (out, sc', false)
        else
          let wn := min k (p.length - wTotal)
          writeLoop f sc' p (Gen.Proxy.readerAdvance wTotal wn) (out ++ (p.drop wTotal).take wn)
    else (out, sc, true)

structure TeeResult where
  forwarded : Bytes      -- what the writer received
  seen : Bytes           -- what the consumer of the reader (the parser) received
  ok : Bool              -- no read error, no write error
  deriving Repr, DecidableEq, Inhabited

/-- read the whole body through the tee -/
def tee : List Chunk → List Nat → TeeResult → TeeResult
  | [], _, r => r
  | c :: cs, sc, r =>
    let (out, sc', wok) := writeLoop (c.data.length + 1) sc c.data 0 r.forwarded
    let r' : TeeResult := ⟨out, r.seen ++ c.data, r.ok⟩
    if !wok || c.err then { r' with ok := false } else tee cs sc' r'

/-- the parser reads without a tee when scraping is stopped -/
def plainRead : List Chunk → Bytes × Bool
  | [] => ([], true)
  | c :: cs => if c.err then (c.data, false) else let (b, ok) := plainRead cs; (c.data ++ b, ok)

/-! ### one proxied scrape -/

structure Scenario where
  stopped : Bool            -- scraping administratively stopped (stopReason ≠ "")
  jobKnown : Bool
  hashOk : Bool
  assigned : Bool           -- the hash is in this shard's status map
  reqFails : Bool           -- connection error, timeout before the headers, bad gzip header
  code : Nat                -- target's status code
  chunks : List Chunk       -- the (decompressed) body as a sequence of reads
  deriving Repr, DecidableEq, Inhabited

/-- what Prometheus sees -/
structure Resp where
  status : Option Nat := none      -- committed status code
  body : Bytes := []
  aborted : Bool := false          -- the handler aborted the response (connection cut)
  deriving Repr, DecidableEq, Inhabited

def Resp.write (r : Resp) (b : Bytes) : Resp :=
  { r with status := (match r.status with | some s => some s | none => some 200), body := r.body ++ b }
def Resp.writeHeader (r : Resp) (c : Nat) : Resp :=
  match r.status with | some _ => r | none => { r with status := some c }
/-- a handler that returns without writing anything answers 200 with an empty body -/
def Resp.finish (r : Resp) : Resp := match r.status with | some _ => r | none => { r with status := some 200 }

/-- effect on the target's status entry -/
structure Effect where
  times : Nat := 0            -- how often the counter was incremented
  health : Option Bool := none  -- some true = up, some false = down
  recorded : Bool := false    -- UpdateScrapeResult was called (series / total updated)
  deriving Repr, DecidableEq, Inhabited

/-- `Proxy.ServeHTTP` -/
def serve (s : Scenario) : Resp × Effect :=
  if Gen.Proxy.noJob s.jobKnown then (({} : Resp).writeHeader 400 |>.finish, {}) else
  if !s.hashOk then (({} : Resp).writeHeader 400 |>.finish, {}) else
  -- the scrape proper: (response so far, failed?, forwarded bytes, completed parse?)
  let (resp, failed, forwarded, parsed) : Resp × Bool × Nat × Bool :=
    if s.reqFails || Gen.Proxy.badStatus s.code then (({} : Resp), true, 0, false)
    else if Gen.Proxy.teeOn s.stopped then
      let t := tee s.chunks [] ⟨[], [], true⟩
      let r : Resp := if t.forwarded.isEmpty then {} else ({} : Resp).write t.forwarded
      (r, !t.ok, t.forwarded.length, t.ok)
    else
      let (_, ok) := plainRead s.chunks
      (({} : Resp), !ok, 0, ok)
  -- deferred epilogue
  let resp := if Gen.Proxy.deferFailed failed then resp.writeHeader 400
    else if Gen.Proxy.deferStopped s.stopped then resp.writeHeader 400 else resp
  let failedOrStopped := failed || s.stopped
  let eff : Effect := if Gen.Proxy.touches s.assigned
    then { times := 1, health := some (!failedOrStopped), recorded := parsed && Gen.Proxy.recordsResult s.assigned }
    else {}
  let resp := if Gen.Proxy.aborts failed forwarded then { resp with aborted := true } else resp
  (resp.finish, eff)

end Kvass.Proxy
