/-
  Model of `mitchellh/hashstructure/v2` (`FormatV2`, default options, FNV-1 64) over a reflected
  value tree, and of kvass' configuration hash built on it (`pkg/prom/config.go`).
  The harness dumps the real `*config.Config` with a reflection walker into this tree, including
  unexported fields and their flags; `hs` of the dump must equal the real hash bit for bit.
-/
import Kvass.Model.Hash

namespace Kvass.HS
open Kvass Kvass.HashM

/-- FNV-1 (not 1a), 64 bit: `fnv.New64()` -/
def fnv1 (bs : Bytes) : UInt64 := bs.foldl (fun h b => (h * fnvPrime) ^^^ b.toUInt64) fnvOffset

def le8 (x : UInt64) : Bytes := (List.range 8).map fun i => (x >>> (8 * i).toUInt64).toUInt8

inductive Tag | none | ignore | set | str
  deriving Repr, DecidableEq, Inhabited

mutual
  /-- a Go value as hashstructure walks it (pointers and interfaces already dereferenced) -/
  inductive V
    | num (le : Bytes)                  -- sized integer / float / bool, as `binary.Write` writes it
    | str (b : Bytes)
    | time (b : Bytes)                  -- `MarshalBinary`
    | nil                               -- nil pointer or interface: hashed like `int(0)`
    | slice (xs : VL)
    | array (xs : VL)
    | map (kvs : KVL)
    | struct (name : Bytes) (fields : FL)
  inductive VL
    | nil
    | cons (v : V) (t : VL)
  inductive KVL
    | nil
    | cons (k v : V) (t : KVL)
  /-- struct fields: name, exported?, tag, value -/
  inductive FL
    | nil
    | cons (name : Bytes) (exported : Bool) (tag : Tag) (v : V) (t : FL)
end

instance : Inhabited V := ⟨.nil⟩

def ordered (a b : UInt64) : UInt64 := fnv1 (le8 a ++ le8 b)
def finish (a : UInt64) : UInt64 := fnv1 (le8 a)

mutual
  /-- `visit`; `asSet` is the `hash:"set"` flag of the enclosing struct field -/
  def hsV (asSet : Bool) : V → UInt64
    | .num le => fnv1 le
    | .str b => fnv1 b
    | .time b => fnv1 b
    | .nil => fnv1 (le8 0)
    | .slice xs => if asSet then finish (hsSet xs 0) else hsList xs 0
    | .array xs => hsList xs 0
    | .map kvs => finish (hsMap kvs 0)
    | .struct name fs => hsFields fs (fnv1 name)
  /-- ordered fold over slice / array elements -/
  def hsList : VL → UInt64 → UInt64
    | .nil, h => h
    | .cons x xs, h => hsList xs (ordered h (hsV false x))
  /-- a slice tagged `hash:"set"`: xor fold -/
  def hsSet : VL → UInt64 → UInt64
    | .nil, h => h
    | .cons x xs, h => hsSet xs (h ^^^ hsV false x)
  /-- xor fold over map entries -/
  def hsMap : KVL → UInt64 → UInt64
    | .nil, h => h
    | .cons k v kvs, h => hsMap kvs (h ^^^ ordered (hsV false k) (hsV false v))
  /-- struct fields: unexported and ignored fields are skipped entirely; after every hashed field the
      running value is re-hashed -/
  def hsFields : FL → UInt64 → UInt64
    | .nil, h => h
    | .cons name exported tag v fs, h =>
      if !exported || tag == .ignore then hsFields fs h
      else hsFields fs (finish (h ^^^ ordered (fnv1 name) (hsV (tag == .set) v)))
end

def hs (v : V) : UInt64 := hsV false v

def FL.map (f : Bytes → Bool → Tag → V → V) : FL → FL
  | .nil => .nil
  | .cons n e t v fs => .cons n e t (f n e t v) (FL.map f fs)

def FL.find (name : Bytes) : FL → Option V
  | .nil => none
  | .cons n _ _ v fs => if n == name then some v else FL.find name fs

/-- replace the value of field `f` of a struct -/
def setField (f : Bytes) (nv : V) : V → V
  | .struct n fs => .struct n (fs.map fun name _ _ v => if name == f then nv else v)
  | v => v

def getField (f : Bytes) : V → V
  | .struct _ fs => (fs.find f).getD .nil
  | _ => .nil

def bytesOf (s : String) : Bytes := s.toUTF8.toList

/-- kvass: blank `GlobalConfig.ExternalLabels`, then hash the pair (config, rendered text).
    `cfg` is the dump of `*config.Config` as parsed, `text` the rendering of the blanked config. -/
def blankExt (cfg : V) : V :=
  setField (bytesOf "GlobalConfig") (setField (bytesOf "ExternalLabels") (.slice .nil) (getField (bytesOf "GlobalConfig") cfg)) cfg

def configHash (cfg : V) (text : Bytes) : UInt64 :=
  hs (.struct [] (.cons (bytesOf "Config") true .none (blankExt cfg) (.cons (bytesOf "Text") true .none (.str text) .nil)))

end Kvass.HS
