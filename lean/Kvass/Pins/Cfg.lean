/- pinned source fingerprints of the functions modelled in Kvass.Model / Kvass.Gen.Cfg (written by bin/repin
   after the model was reviewed against the source; a mismatch means a modelled function was edited) -/
import Kvass.Gen.CfgSrc

namespace Kvass.Pins

theorem cfg_pinned : Kvass.Gen.CfgSrc.digests = [
  ("pkg/prom/config.go:ConfigManager.AddReloadCallbacks", "5d0fd460bca8ee56"),
  ("pkg/prom/config.go:ConfigManager.ConfigInfo", "4fc91d15f62c82cc"),
  ("pkg/prom/config.go:ConfigManager.ReloadFromFile", "e59cc2f03aa9aa7d"),
  ("pkg/prom/config.go:ConfigManager.ReloadFromRaw", "f47f14a15777e3e9"),
  ("pkg/prom/config.go:ConfigManager.UpdateExtraConfig", "1bbfb7b924fbf6e7"),
  ("pkg/prom/config.go:ExtraConfig.EQ", "f60eed8709023b40"),
  ("pkg/prom/config.go:NewConfigManager", "7c4a9b565dff20a9")
] := rfl

end Kvass.Pins
