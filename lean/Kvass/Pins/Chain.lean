/- pinned source fingerprints of the functions modelled in Kvass.Model / Kvass.Gen.Chain (written by bin/repin
   after the model was reviewed against the source; a mismatch means a modelled function was edited) -/
import Kvass.Gen.ChainSrc

namespace Kvass.Pins

theorem chain_pinned : Kvass.Gen.ChainSrc.digests = [
  ("pkg/discovery/translate.go:labelsWithoutConfigParam", "1737ed7bdfe7ebed"),
  ("pkg/discovery/translate.go:supportInvalidLabelName", "c2ac4324141be57a"),
  ("pkg/discovery/translate.go:targetsFromGroup", "771e5e074f2679ff"),
  ("pkg/sidecar/proxy.go:translateURL", "11fb4911b054768f"),
  ("pkg/target/target.go:Target.Address", "742609c816c7bd72"),
  ("pkg/target/target.go:Target.NoParamURL", "6871efa1750aa648"),
  ("pkg/target/target.go:Target.NoReservedLabel", "fa6c3564137c0bfb"),
  ("pkg/target/target.go:Target.URL", "f08fedcc2be93f7d")
] := rfl

end Kvass.Pins
