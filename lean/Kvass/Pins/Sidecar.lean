/- pinned source fingerprints of the functions modelled in Kvass.Model / Kvass.Gen.Sidecar (written by bin/repin
   after the model was reviewed against the source; a mismatch means a modelled function was edited) -/
import Kvass.Gen.SidecarSrc

namespace Kvass.Pins

theorem sidecar_pinned : Kvass.Gen.SidecarSrc.digests = [
  ("pkg/scrape/scraper.go:StatisticSeries", "8e1042141ecfdf1d"),
  ("pkg/sidecar/proxy.go:Proxy.ServeHTTP", "3fae4cf90829bafa"),
  ("pkg/sidecar/service.go:NewService", "a194025cbfd0cc5e"),
  ("pkg/sidecar/service.go:Service.Run", "8e08b29302190466"),
  ("pkg/sidecar/service.go:Service.ServeHTTP", "9d14a99c0fd66472"),
  ("pkg/sidecar/service.go:Service.localPath", "67e5104461629db3"),
  ("pkg/sidecar/service.go:Service.runtimeInfo", "e4b0c02bddadccbb"),
  ("pkg/sidecar/service.go:Service.samples", "a0de9b5b50f361cf"),
  ("pkg/sidecar/service.go:Service.updateConfig", "8576acbbadd53336"),
  ("pkg/sidecar/service.go:Service.updateExtraConfig", "22185eda9d8378c3"),
  ("pkg/sidecar/service.go:Service.updateTargets", "3e9dcdec1bb65461"),
  ("pkg/sidecar/targets.go:NewTargetsManager", "452f0b9ce3331f04"),
  ("pkg/sidecar/targets.go:TargetsManager.AddUpdateCallbacks", "0eec67ad8516b1ed"),
  ("pkg/sidecar/targets.go:TargetsManager.Load", "30f564e602f09737"),
  ("pkg/sidecar/targets.go:TargetsManager.TargetsInfo", "c5cbd015a0d06fd1"),
  ("pkg/sidecar/targets.go:TargetsManager.UpdateTargets", "52788e0fcb71cb55"),
  ("pkg/sidecar/targets.go:TargetsManager.doCallbacks", "7497a383ff1b8195"),
  ("pkg/sidecar/targets.go:TargetsManager.saveTargets", "42c6f0320f649e80"),
  ("pkg/sidecar/targets.go:TargetsManager.storePath", "cd41d31a4b51f47c"),
  ("pkg/sidecar/targets.go:TargetsManager.updateIdleState", "47222b402813a61c"),
  ("pkg/sidecar/targets.go:TargetsManager.updateStatus", "9b64fcf21484255b"),
  ("pkg/sidecar/targets.go:newTargetsInfo", "ef84ee3d31fb6e73"),
  ("pkg/target/status.go:NewScrapeStatus", "edc58fc43cbe193e"),
  ("pkg/target/status.go:ScrapeStatus.SetScrapeErr", "6b94cc9eb8e17f3e"),
  ("pkg/target/status.go:ScrapeStatus.UpdateScrapeResult", "3bab013be3c745a3")
] := rfl

end Kvass.Pins
