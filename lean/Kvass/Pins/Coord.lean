/- pinned source fingerprints of the functions modelled in Kvass.Model / Kvass.Gen.Coord (written by bin/repin
   after the model was reviewed against the source; a mismatch means a modelled function was edited) -/
import Kvass.Gen.CoordSrc

namespace Kvass.Pins

theorem coord_pinned : Kvass.GenSrc.digests = [
  ("pkg/coordinator/coordinator.go:Coordinator.runOnce", "f89a75a387ca17f9"),
  ("pkg/coordinator/rebalance.go:Coordinator.alleviateShardHeadSeries", "1ca0b854335a5400"),
  ("pkg/coordinator/rebalance.go:Coordinator.alleviateShardProcessSeries", "23f8c85ad7776a9a"),
  ("pkg/coordinator/rebalance.go:Coordinator.alleviateShards", "7f991d69f2f3244d"),
  ("pkg/coordinator/rebalance.go:Coordinator.applyShardsInfo", "c1d567f866f8d7cb"),
  ("pkg/coordinator/rebalance.go:Coordinator.assignNoScrapingTargets", "570a3b65e8f33c8f"),
  ("pkg/coordinator/rebalance.go:Coordinator.gcTargets", "23e3e1a2687d4e52"),
  ("pkg/coordinator/rebalance.go:Coordinator.getFreeShard", "e82a334b4b102c44"),
  ("pkg/coordinator/rebalance.go:Coordinator.getOneShardInfo", "5c6d21ff16c89caa"),
  ("pkg/coordinator/rebalance.go:Coordinator.getShardInfos", "0b8410d266e18563"),
  ("pkg/coordinator/rebalance.go:Coordinator.globalScrapeStatus", "402952145fd0652e"),
  ("pkg/coordinator/rebalance.go:Coordinator.isTooBig", "2507d724609d76fe"),
  ("pkg/coordinator/rebalance.go:Coordinator.shardBecomeIdle", "0de65c2a54acd2e2"),
  ("pkg/coordinator/rebalance.go:Coordinator.shardCanBeIdle", "4f3747ce494fce2e"),
  ("pkg/coordinator/rebalance.go:Coordinator.tryScaleDown", "facfc82f97e20ce5"),
  ("pkg/coordinator/rebalance.go:Coordinator.tryScaleUp", "a434604935de38a5"),
  ("pkg/coordinator/rebalance.go:Coordinator.updateScrapeStatusShards", "345add4f3811a639"),
  ("pkg/coordinator/rebalance.go:changeAbleShardsInfo", "7082c4f6210e1252"),
  ("pkg/coordinator/rebalance.go:mergeScrapeStatus", "fa302bd055ba6504"),
  ("pkg/coordinator/rebalance.go:newShardInfo", "e4f10d998e0b92a4"),
  ("pkg/coordinator/rebalance.go:seriesWithRate", "4664aff09bde8d19"),
  ("pkg/coordinator/rebalance.go:shardInfo.totalTargetsHeadSeries", "46745601f567e302"),
  ("pkg/coordinator/rebalance.go:shardInfo.totalTargetsTotalSeries", "3eaf15e68985f202"),
  ("pkg/coordinator/rebalance.go:transferTarget", "b5036a7fb733d4a4"),
  ("pkg/coordinator/rebalance.go:updateScrapingTargets", "180bfcb6172828e5"),
  ("pkg/coordinator/types.go:space.add", "65fee2303de9ac9f"),
  ("pkg/coordinator/types.go:space.isZero", "9adcb80965edad5c"),
  ("pkg/shard/shard.go:NewShard", "6b31805062a79686"),
  ("pkg/shard/shard.go:Shard.RuntimeInfo", "360e189277510ba3"),
  ("pkg/shard/shard.go:Shard.Samples", "14777ce135aa6feb"),
  ("pkg/shard/shard.go:Shard.TargetStatus", "6ecfbf025fa587e5"),
  ("pkg/shard/shard.go:Shard.UpdateConfig", "241be752808103b4"),
  ("pkg/shard/shard.go:Shard.UpdateExtraConfig", "f00eb1b74ecec66d"),
  ("pkg/shard/shard.go:Shard.UpdateTarget", "79093065299db649"),
  ("pkg/shard/shard.go:Shard.needUpdate", "1d0dc0ee886c0a83")
] := rfl

end Kvass.Pins
