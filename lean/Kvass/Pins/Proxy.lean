/- pinned source fingerprints of the functions modelled in Kvass.Model / Kvass.Gen.Proxy (written by bin/repin
   after the model was reviewed against the source; a mismatch means a modelled function was edited) -/
import Kvass.Gen.ProxySrc

namespace Kvass.Pins

theorem proxy_pinned : Kvass.Gen.ProxySrc.digests = [
  ("pkg/scrape/reader.go:wrapReader", "7aeaa5b127bbc9d3"),
  ("pkg/scrape/reader.go:wrappedReader.Close", "7005164798cd90b6"),
  ("pkg/scrape/reader.go:wrappedReader.Read", "a0f04d4b5ed7f02f"),
  ("pkg/scrape/scraper.go:Scraper.ParseResponse", "7cc30fbf51bc3582"),
  ("pkg/scrape/scraper.go:Scraper.RequestTo", "a5132439f0f2a41f"),
  ("pkg/scrape/scraper.go:Scraper.WithRawWriter", "34bd77ef81b10573"),
  ("pkg/scrape/scraper.go:StatisticSeries", "8e1042141ecfdf1d"),
  ("pkg/sidecar/proxy.go:NewProxy", "38ec6a299a3d871f"),
  ("pkg/sidecar/proxy.go:Proxy.Run", "14a023998554bcba"),
  ("pkg/sidecar/proxy.go:Proxy.ServeHTTP", "3fae4cf90829bafa"),
  ("pkg/sidecar/proxy.go:translateURL", "11fb4911b054768f"),
  ("pkg/sidecar/proxy.go:writerFunc.Write", "c0d1676def310577")
] := rfl

end Kvass.Pins
