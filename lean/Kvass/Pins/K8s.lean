/- pinned source fingerprints of the functions modelled in Kvass.Model / Kvass.Gen.K8s (written by bin/repin
   after the model was reviewed against the source; a mismatch means a modelled function was edited) -/
import Kvass.Gen.K8sSrc

namespace Kvass.Pins

theorem k8s_pinned : Kvass.Gen.K8sSrc.digests = [
  ("pkg/shard/kubernetes/replicasmanager.go:NewReplicasManager", "bce1ae107e58c3dc"),
  ("pkg/shard/kubernetes/replicasmanager.go:ReplicasManager.Replicas", "e40601dd4a061576"),
  ("pkg/shard/kubernetes/shardmanager.go:newShardManager", "08493f0d1e6c20c7"),
  ("pkg/shard/kubernetes/shardmanager.go:shardManager.ChangeScale", "6979ea1a03dd1491"),
  ("pkg/shard/kubernetes/shardmanager.go:shardManager.Shards", "445b3373250d0a8e")
] := rfl

end Kvass.Pins
