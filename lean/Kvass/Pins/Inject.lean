/- pinned source fingerprints of the functions modelled in Kvass.Model / Kvass.Gen.Inject (written by bin/repin
   after the model was reviewed against the source; a mismatch means a modelled function was edited) -/
import Kvass.Gen.InjectSrc

namespace Kvass.Pins

theorem inject_pinned : Kvass.Gen.InjectSrc.digests = [
  ("pkg/sidecar/injector.go:Injector.ApplyConfig", "4c97685acdd3b861"),
  ("pkg/sidecar/injector.go:Injector.UpdateTargets", "c923d0559166332b"),
  ("pkg/sidecar/injector.go:Injector.inject", "12fe8feb827bd4b4"),
  ("pkg/sidecar/injector.go:Injector.injectJobs", "e66b45fa3bd34a53"),
  ("pkg/sidecar/injector.go:Injector.injectSelfMonitor", "75306479635bf4a8"),
  ("pkg/sidecar/injector.go:Injector.marshal", "f5d0f1b02a681bf4"),
  ("pkg/sidecar/injector.go:NewInjector", "535d4e0b241da04a"),
  ("pkg/sidecar/injector.go:target2targetGroup", "f41ccd6591e9852a")
] := rfl

end Kvass.Pins
