/- pinned source fingerprints of the functions modelled in Kvass.Model / Kvass.Gen.Store (written by bin/repin
   after the model was reviewed against the source; a mismatch means a modelled function was edited) -/
import Kvass.Gen.StoreSrc

namespace Kvass.Pins

theorem store_pinned : Kvass.Gen.StoreSrc.digests = [
  ("pkg/sidecar/targets.go:TargetsManager.Load", "30f564e602f09737"),
  ("pkg/sidecar/targets.go:TargetsManager.saveTargets", "42c6f0320f649e80"),
  ("pkg/sidecar/targets.go:TargetsManager.storePath", "cd41d31a4b51f47c")
] := rfl

end Kvass.Pins
