/- pinned source fingerprints of the functions modelled in Kvass.Model / Kvass.Gen.Store (written by bin/repin
   after the model was reviewed against the source; a mismatch means a modelled function was edited) -/
import Kvass.Gen.StoreSrc

namespace Kvass.Pins

theorem store_pinned : Kvass.Gen.StoreSrc.digests = [
  ("cmd/kvass/sidecar.go:configInjectSidecar", "cbb0c9c1e0e2b617"),
  ("cmd/kvass/sidecar.go:init", "079f190155fa6ca7"),
  ("pkg/sidecar/targets.go:TargetsManager.Load", "30f564e602f09737"),
  ("pkg/sidecar/targets.go:TargetsManager.saveTargets", "42c6f0320f649e80"),
  ("pkg/sidecar/targets.go:TargetsManager.storePath", "cd41d31a4b51f47c"),
  ("pkg/target/target.go:Target.Address", "742609c816c7bd72"),
  ("pkg/target/target.go:Target.NoParamURL", "6871efa1750aa648"),
  ("pkg/target/target.go:Target.NoReservedLabel", "fa6c3564137c0bfb"),
  ("pkg/target/target.go:Target.URL", "f08fedcc2be93f7d")
] := rfl

end Kvass.Pins
