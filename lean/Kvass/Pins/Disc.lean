/- pinned source fingerprints of the functions modelled in Kvass.Model / Kvass.Gen.Disc (written by bin/repin
   after the model was reviewed against the source; a mismatch means a modelled function was edited) -/
import Kvass.Gen.DiscSrc

namespace Kvass.Pins

theorem disc_pinned : Kvass.Gen.DiscSrc.digests = [
  ("cmd/kvass/coordinator.go:configInject", "ccf378daefa4dd4f"),
  ("cmd/kvass/coordinator.go:configInjectK8s", "351d09b9bed31fbc"),
  ("cmd/kvass/coordinator.go:configInjectServiceAccount", "46342efbe26e254c"),
  ("cmd/kvass/coordinator.go:getReplicasManager", "b53701ccd43ba93c"),
  ("cmd/kvass/coordinator.go:init", "9fa5c392c2f634b2"),
  ("pkg/discovery/discovery.go:New", "a338a751f7246f4c"),
  ("pkg/discovery/discovery.go:TargetsDiscovery.ActiveTargets", "52a715807b9c1d88"),
  ("pkg/discovery/discovery.go:TargetsDiscovery.ActiveTargetsByHash", "0536f338e9efd43c"),
  ("pkg/discovery/discovery.go:TargetsDiscovery.ActiveTargetsChan", "ef1a8ad8a95640fd"),
  ("pkg/discovery/discovery.go:TargetsDiscovery.ApplyConfig", "9efe40ce8204d373"),
  ("pkg/discovery/discovery.go:TargetsDiscovery.DropTargets", "03541ff88d0d5f3a"),
  ("pkg/discovery/discovery.go:TargetsDiscovery.Run", "bdec7bbd93609104"),
  ("pkg/discovery/discovery.go:TargetsDiscovery.WaitInit", "67dc2f4bc9660d11"),
  ("pkg/discovery/discovery.go:TargetsDiscovery.translateTargets", "b316c4e239afcd92"),
  ("pkg/discovery/translate.go:addPort", "9f399523e16c7b6a"),
  ("pkg/discovery/translate.go:completePort", "fc3702475af45db8"),
  ("pkg/discovery/translate.go:labelsWithoutConfigParam", "1737ed7bdfe7ebed"),
  ("pkg/discovery/translate.go:populateLabels", "b4444a765c1f0215"),
  ("pkg/discovery/translate.go:supportInvalidLabelName", "c2ac4324141be57a"),
  ("pkg/discovery/translate.go:targetHash", "6d4654df5760cac3"),
  ("pkg/discovery/translate.go:targetsFromGroup", "771e5e074f2679ff"),
  ("pkg/explore/explore.go:Explore.ApplyConfig", "4b92dda8a32fd5c8"),
  ("pkg/explore/explore.go:Explore.Get", "e46243bb60dcdef6"),
  ("pkg/explore/explore.go:Explore.Run", "c92a9751c71742fa"),
  ("pkg/explore/explore.go:Explore.UpdateTargets", "8ce7ea8450da3631"),
  ("pkg/explore/explore.go:Explore.exploreOnce", "6218bfaec288d987"),
  ("pkg/explore/explore.go:New", "f8d5b3eabb2c1589"),
  ("pkg/explore/explore.go:explore", "7db5e891744adf43"),
  ("pkg/scrape/manager.go:Manager.ApplyConfig", "7c4e13302b7ef2ab"),
  ("pkg/scrape/manager.go:Manager.GetJob", "7f68c8e5467a9d46"),
  ("pkg/scrape/manager.go:New", "4440f51a08283a4c")
] := rfl

end Kvass.Pins
