/-
  The idle-since instant over whole histories of the sidecar model (what the coordinator's
  scale-down trusts, C07): after any sequence of updates, scrapes and restarts the reported
  instant is the clock value of the operation that emptied the assignment, and the assignment has
  been empty at every instant since.
-/
import Kvass.Proofs.Sidecar

namespace Kvass.Sidecar
open Kvass

/-- idle-since is set *exactly* while nothing is assigned -/
def IdleIff (s : SC) : Prop := (s.status = [] ↔ s.idleAt.isSome = true)

theorem update_idleIff (now : Nat) (s : SC) (req : List Tgt) : IdleIff (update now s req) := by
  unfold IdleIff update
  simp only
  rw [updIdle_spec]
  by_cases h : updStatus s.status req = []
  · simp only [h, if_true, true_iff]
    cases s.idleAt <;> rfl
  · simp [h]

theorem set_ne_nil {α : Type} (m : AL α) (h : Hash) (v : α) : m.set h v ≠ [] := by
  intro he
  have hk : h ∈ (m.set h v).keys := (AL.mem_keys_set m h h v).mpr (Or.inl rfl)
  rw [he] at hk; simp [AL.keys] at hk

theorem scrape_status_nil (s : SC) (h : Hash) (r : Option (Int × Int)) :
    (scrape s h r).status = [] ↔ s.status = [] := by
  unfold scrape
  split
  · exact Iff.rfl
  · rename_i st hg
    constructor
    · intro he
      exact absurd he (set_ne_nil _ _ _)
    · intro he; rw [he] at hg; cases hg

theorem snoc_ind {α : Type} {P : List α → Prop} (h0 : P []) (hs : ∀ l x, P l → P (l ++ [x])) : ∀ l, P l := by
  intro l
  have : ∀ r : List α, P r.reverse := by
    intro r
    induction r with
    | nil => exact h0
    | cons x r ih => rw [List.reverse_cons]; exact hs _ _ ih
  have h := this l.reverse
  rwa [List.reverse_reverse] at h

theorem scrape_idleAt (s : SC) (h : Hash) (r : Option (Int × Int)) : (scrape s h r).idleAt = s.idleAt := by
  unfold scrape; split <;> rfl

theorem step_idleIff (s : SC × Nat) (op : Op) (hi : IdleIff s.1) : IdleIff (step s op).1 := by
  cases op with
  | update req => exact update_idleIff _ _ _
  | scrape h r =>
    unfold IdleIff at *
    show (scrape s.1 h r).status = [] ↔ (scrape s.1 h r).idleAt.isSome = true
    rw [scrape_status_nil, scrape_idleAt]; exact hi
  | restart => exact update_idleIff _ _ _

theorem run_snoc (ops : List Op) (op : Op) : run (ops ++ [op]) = step (run ops) op := by
  unfold run; rw [List.foldl_append]; rfl

theorem run_clock (ops : List Op) : (run ops).2 = ops.length + 1 := by
  induction ops using snoc_ind with
  | h0 => rfl
  | hs ops op ih =>
    rw [run_snoc, List.length_append]
    cases op <;> simp [step, ih]

theorem run_idleIff (ops : List Op) : IdleIff (run ops).1 := by
  induction ops using snoc_ind with
  | h0 => exact update_idleIff 0 {} []
  | hs ops op ih => rw [run_snoc]; exact step_idleIff _ _ ih

/-- the history invariant: the stamp is a past clock value, the assignment was empty after every
    prefix from that instant on, and (unless it is the start of the process) it was not empty just
    before -/
def IdleHist (ops : List Op) : Prop :=
  ∀ t, (run ops).1.idleAt = some t →
    t ≤ ops.length ∧
    (∀ a b, ops = a ++ b → t ≤ a.length → (run a).1.status = []) ∧
    (t = 0 ∨ (run (ops.take (t - 1))).1.status ≠ [])

theorem prefix_snoc {α} (ops : List α) (op : α) (a b : List α) (h : ops ++ [op] = a ++ b) :
    a = ops ++ [op] ∨ ∃ b', ops = a ++ b' := by
  rcases List.eq_nil_or_concat b with hb | ⟨b', x, hb⟩
  · left; subst hb; simpa using h.symm
  · right
    subst hb
    rw [List.concat_eq_append, ← List.append_assoc] at h
    have := List.append_inj' h rfl
    exact ⟨b', this.1⟩

/-- what an update-like step (UpdateTargets, or the one `Load` defers at a restart) does to the stamp -/
theorem idleHist_step (ops : List Op) (op : Op) (ih : IdleHist ops)
    (hst : (step (run ops) op).1.status = [] → (step (run ops) op).1.idleAt =
      (match (run ops).1.idleAt with | some t => some t | none => some (ops.length + 1)))
    (hne : (step (run ops) op).1.status ≠ [] → (step (run ops) op).1.idleAt = none) :
    IdleHist (ops ++ [op]) := by
  intro t ht
  rw [run_snoc] at ht
  by_cases he : (step (run ops) op).1.status = []
  · rw [hst he] at ht
    cases hold : (run ops).1.idleAt with
    | some t0 =>
      rw [hold] at ht
      have htt : t0 = t := by simpa using ht
      subst htt
      obtain ⟨h1, h2, h3⟩ := ih t0 hold
      refine ⟨by rw [List.length_append]; simp; omega, ?_, ?_⟩
      · intro a b hab hta
        rcases prefix_snoc ops op a b hab with h | ⟨b', h⟩
        · subst h; rw [run_snoc]; exact he
        · exact h2 a b' h hta
      · rcases h3 with h3 | h3
        · left; exact h3
        · right
          have : (ops ++ [op]).take (t0 - 1) = ops.take (t0 - 1) := by
            rw [List.take_append_of_le_length (by omega)]
          rw [this]; exact h3
    | none =>
      rw [hold] at ht
      have htt : ops.length + 1 = t := by simpa using ht
      subst htt
      refine ⟨by rw [List.length_append]; simp, ?_, ?_⟩
      · intro a b hab hta
        rcases prefix_snoc ops op a b hab with h | ⟨b', h⟩
        · subst h; rw [run_snoc]; exact he
        · exfalso
          have : ops.length = a.length + b'.length := by rw [h, List.length_append]
          omega
      · right
        have : (ops ++ [op]).take (ops.length + 1 - 1) = ops := by simp
        rw [this]
        intro hnil
        have := (run_idleIff ops).mp hnil
        rw [hold] at this; cases this
  · rw [hne he] at ht; cases ht

theorem run_idleHist (ops : List Op) : IdleHist ops := by
  induction ops using snoc_ind with
  | h0 =>
    intro t ht
    have : (run []).1.idleAt = some 0 := by decide
    rw [this] at ht
    have : t = 0 := by simpa using ht.symm
    subst this
    refine ⟨Nat.le_refl _, ?_, Or.inl rfl⟩
    intro a b hab _
    have : a = [] := by
      cases a with
      | nil => rfl
      | cons x a => cases hab
    subst this; decide
  | hs ops op ih =>
    have hclk := run_clock ops
    cases op with
    | update req =>
      apply idleHist_step ops _ ih
      · intro he
        show (update (run ops).2 (run ops).1 req).idleAt = _
        have he' : (update (run ops).2 (run ops).1 req).status = [] := he
        unfold update at he' ⊢
        simp only at he' ⊢
        rw [updIdle_spec, if_pos he', hclk]
        cases (run ops).1.idleAt <;> rfl
      · intro he
        exact update_idleInv _ _ _ he
    | scrape h r =>
      apply idleHist_step ops _ ih
      · intro he
        show (scrape (run ops).1 h r).idleAt = _
        have he' : (scrape (run ops).1 h r).status = [] := he
        rw [scrape_idleAt]
        have := (run_idleIff ops).mp ((scrape_status_nil _ _ _).mp he')
        cases hi : (run ops).1.idleAt with
        | some t => rfl
        | none => rw [hi] at this; cases this
      · intro he
        exact scrape_idleInv _ _ _ (run_idleInv ops) he
    | restart =>
      apply idleHist_step ops _ ih
      · intro he
        show (restart (run ops).2 (run ops).1).idleAt = _
        have he' : (restart (run ops).2 (run ops).1).status = [] := he
        unfold restart update at he' ⊢
        simp only at he' ⊢
        rw [updIdle_spec, if_pos he', hclk]
        cases (run ops).1.idleAt <;> rfl
      · intro he
        exact update_idleInv _ _ _ he

end Kvass.Sidecar
