/-
  `gcTargets` as a whole on a report whose only irregularities are moves: a target held twice is
  held once in transfer and once in normal state (both scraped three times).  Then every in-transfer
  copy with a partner is dropped, every in-transfer copy without one goes back to normal, and every
  normal copy stays.
-/
import Kvass.Proofs.LoopRecover

namespace Kvass.Coord
open Kvass Kvass.Spec
open Classical

/-- what `gcTargets` leaves of shard `k`'s entry for `h` -/
noncomputable def settledRes (ss0 : List SI) (k : Nat) (h : Hash) : Option St :=
  match entry ss0 k h with
  | none => none
  | some v => if v.state = .inTransfer ∧ (∃ j, j ≠ k ∧ entry ss0 j h ≠ none) then none else some (revSt v)

theorem revSt_normal {v : St} (h : v.state = .normal) : revSt v = v := by
  unfold revSt; simp [h]

theorem revSt_inT {v : St} (h : v.state = .inTransfer) : revSt v = revertSt v := by
  unfold revSt; simp [h]

theorem gc_settled (o : Opt) (active : List Hash) (ss0 : List SI)
    (hnd0 : ∀ (k : Nat) (s : SI), ss0[k]? = some s → s.scraping.keys.Nodup)
    (hpair : ∀ (i j : Nat) (h : Hash) (vi vj : St), i ≠ j → entry ss0 i h = some vi → entry ss0 j h = some vj →
      (vi.state = .inTransfer ∧ vj.state = .normal ∧ 3 ≤ vj.times) ∨
      (vj.state = .inTransfer ∧ vi.state = .normal ∧ 3 ≤ vi.times))
    (hact : ∀ (i : Nat) (h : Hash) (v : St), entry ss0 i h = some v → active.contains h = true)
    (hold : ∀ (i : Nat) (h : Hash) (v : St), entry ss0 i h = some v → v.state = .inTransfer → 3 ≤ v.times)
    (hall : ∀ (i : Nat) (s : SI), ss0[i]? = some s → s.changeable = true) :
    ∀ k h, entry (gc o active ss0) k h = settledRes ss0 k h := by
  let J : Nat → List SI → Prop := fun a ss =>
    ∀ k h, entry ss k h = if k < a then settledRes ss0 k h else entry ss0 k h
  have hJ : J ss0.length (gc o active ss0) := by
    apply gc_ind o active ss0 J hnd0
    · intro k h; simp
    · intro a ss ha fr hj
      obtain ⟨_, tother, tself⟩ := turn_spec o active ss0 ss a hnd0 fr
      intro k h
      by_cases hka : k = a
      · subst hka
        have hs : ss[k]? = ss0[k]? := fr.rest k (Nat.le_refl _)
        cases hs0 : ss0[k]? with
        | none =>
          have : ss[k]? = none := by rw [hs, hs0]
          have e1 : entry (turn o active ss k) k h = none := by
            unfold turn; rw [this]; unfold entry; rw [this]; rfl
          rw [e1]
          simp only [Nat.lt_succ_self, if_true]
          unfold settledRes entry; rw [hs0]; rfl
        | some s =>
          have hss : ss[k]? = some s := by rw [hs, hs0]
          rw [tself s hss h]
          have hch := hall k s hs0
          simp only [hch, if_true, Nat.lt_succ_self]
          have he0 : entry ss0 k h = s.scraping.get h := entry_of hs0
          unfold settledRes
          rw [he0]
          cases hg : s.scraping.get h with
          | none => rfl
          | some tar =>
            simp only
            have he0' : entry ss0 k h = some tar := by rw [he0, hg]
            have hactive := hact k h tar he0'
            -- what the other shards hold in `ss`
            have other : ∀ (k' : Nat) (sk : SI) (st : St), k' ≠ k → ss[k']? = some sk → sk.scraping.get h = some st →
                entry ss0 k' h = some st ∧ (k' < k → st.state = .normal) := by
              intro k' sk st hne hk' hst
              have e := hj k' h
              rw [entry_of hk', hst] at e
              by_cases hlt : k' < k
              · simp only [hlt, if_true] at e
                unfold settledRes at e
                cases he : entry ss0 k' h with
                | none => rw [he] at e; cases e
                | some v' =>
                  rw [he] at e
                  simp only at e
                  split at e
                  · cases e
                  · rename_i hnot
                    have hn : v'.state = .normal := by
                      cases hv : v'.state with
                      | normal => rfl
                      | inTransfer => exact absurd ⟨hv, k, Ne.symm hne, by rw [he0']; simp⟩ hnot
                    have : st = v' := by rw [revSt_normal hn] at e; exact (Option.some.inj e)
                    subst this
                    exact ⟨rfl, fun _ => hn⟩
              · simp only [hlt, if_false] at e
                exact ⟨e.symm, fun h1 => absurd h1 hlt⟩
            have otherBack : ∀ (k' : Nat) (v' : St), k' ≠ k → entry ss0 k' h = some v' → v'.state = .normal →
                ∃ sk, ss[k']? = some sk ∧ sk.changeable = true ∧ sk.scraping.get h = some v' := by
              intro k' v' hne he hn
              have e := hj k' h
              have hres : entry ss k' h = some v' := by
                rw [e]
                by_cases hlt : k' < k
                · simp only [hlt, if_true]
                  unfold settledRes
                  rw [he]
                  simp only
                  rw [if_neg (fun hc => by rw [hn] at hc; exact absurd hc.1 (by decide))]
                  rw [revSt_normal hn]
                · simp only [hlt, if_false]; exact he
              obtain ⟨sk, hsk, hgk⟩ := entry_some hres
              obtain ⟨s0', h0', hc0, _⟩ := fr.flags k' sk hsk
              exact ⟨sk, hsk, by rw [hc0]; exact hall k' s0' h0', hgk⟩
            cases hst : tar.state with
            | inTransfer =>
              have h3 := hold k h tar he0' hst
              by_cases hpart : ∃ j, j ≠ k ∧ entry ss0 j h ≠ none
              · -- the partner is in normal state and has scraped it three times: dropped
                obtain ⟨j, hjk, hjn⟩ := hpart
                cases hej : entry ss0 j h with
                | none => exact absurd hej hjn
                | some vj =>
                  have hp := hpair k j h tar vj (Ne.symm hjk) he0' hej
                  rcases hp with ⟨_, hnj, h3j⟩ | ⟨_, hn, _⟩
                  · obtain ⟨sk, hsk, hck, hgk⟩ := otherBack j vj hjk hej hnj
                    have hT : gcOtherTriggers o ss k s tar h = true := by
                      rw [gcOtherTriggers_iff]
                      refine ⟨j, sk, vj, hjk, hsk, hck, hgk, (Sites.gcOtherOk_iff vj).mpr h3j, Or.inl ?_⟩
                      rw [Sites.gcRule2_iff]; exact ⟨hst, hnj⟩
                    have hD : gcDecide o active ss k s h tar = true := by
                      unfold gcDecide
                      simp only [hactive, Bool.not_true, Bool.false_eq_true, if_false, young_false h3]
                      exact hT
                    rw [if_pos ⟨rfl, j, hjk, hjn⟩]
                    simp [gcOutcome, hD]
                  · rw [hst] at hn; cases hn
              · -- alone: back to normal
                have alone : ∀ (k' : Nat) (sk : SI) (st : St), k' ≠ k → ss[k']? = some sk → sk.scraping.get h = some st → False := by
                  intro k' sk st hne hk' hg'
                  exact hpart ⟨k', hne, by rw [(other k' sk st hne hk' hg').1]; simp⟩
                have hD : gcDecide o active ss k s h tar = false := by
                  unfold gcDecide
                  simp only [hactive, Bool.not_true, Bool.false_eq_true, if_false, young_false h3]
                  cases ht : gcOtherTriggers o ss k s tar h with
                  | false => rfl
                  | true =>
                    obtain ⟨k', sk, st, hka, hk', _, hgk, _, _⟩ := (gcOtherTriggers_iff o ss k s tar h).mp ht
                    exact (alone k' sk st hka hk' hgk).elim
                have hheld : gcHeldElsewhere ss k h = false := by
                  cases ht : gcHeldElsewhere ss k h with
                  | false => rfl
                  | true =>
                    obtain ⟨k', sk, st, hka, hk', _, hgk⟩ := (gcHeldElsewhere_iff ss k h).mp ht
                    exact (alone k' sk st hka hk' hgk).elim
                have hR : gcReverts active ss k h tar = true := by
                  unfold gcReverts
                  rw [hactive]
                  simp [young_false h3, hheld, Gen.gcRevert, hst]
                rw [if_neg (fun hc => hpart hc.2)]
                simp [gcOutcome, hD, hR, revSt_inT hst]
            | normal =>
              have hD : gcDecide o active ss k s h tar = false := by
                unfold gcDecide
                simp only [hactive, Bool.not_true, Bool.false_eq_true, if_false]
                split
                · rfl
                · cases ht : gcOtherTriggers o ss k s tar h with
                  | false => rfl
                  | true =>
                    exfalso
                    obtain ⟨k', sk, st, hka, hk', _, hgk, _, hrule⟩ := (gcOtherTriggers_iff o ss k s tar h).mp ht
                    obtain ⟨he', _⟩ := other k' sk st hka hk' hgk
                    rcases hrule with h2 | ⟨hsame, _⟩
                    · rw [Sites.gcRule2_iff] at h2; rw [hst] at h2; cases h2.1
                    · rw [Sites.gcSame_iff] at hsame
                      have hp := hpair k k' h tar st (Ne.symm hka) he0' he'
                      rcases hp with ⟨hin, _, _⟩ | ⟨hin, _, _⟩
                      · rw [hst] at hin; cases hin
                      · rw [← hsame, hst] at hin; cases hin
              have hR : gcReverts active ss k h tar = false := by
                unfold gcReverts Gen.gcRevert; simp [hst]
              rw [if_neg (fun hc => absurd hc.1 (by decide))]
              simp [gcOutcome, hD, hR, revSt_normal hst]
      · rw [tother k h hka, hj k h]
        have : (k < a + 1) = (k < a) := by
          apply propext; constructor <;> intro hh <;> omega
        simp only [this]
  intro k h
  have := hJ k h
  by_cases hk : k < ss0.length
  · simpa [hk] using this
  · simp only [hk, if_false] at this
    rw [this]
    unfold settledRes entry
    rw [List.getElem?_eq_none (by omega)]
    rfl

end Kvass.Coord

namespace Kvass.Loop
open Kvass Kvass.Coord Kvass.Spec
open Classical

/-- an otherwise settled closed-loop state whose only irregularities are moves: a target reported by
    two running sidecars is reported once in transfer and once in normal state -/
structure Settled (swr : Swr) (env : Env) (w : World) : Prop where
  rep : w.replicas ≤ w.shards.length
  keys : ∀ sh ∈ w.running, (statusOf sh).keys.Nodup
  pairs : ∀ (i j : Nat) (shi shj : Shard) (h : Hash) (vi vj : St), w.running[i]? = some shi → w.running[j]? = some shj →
    i ≠ j → (statusOf shi).get h = some vi → (statusOf shj).get h = some vj →
    (vi.state = .inTransfer ∧ vj.state = .normal ∧ 3 ≤ vj.times) ∨ (vj.state = .inTransfer ∧ vi.state = .normal ∧ 3 ≤ vi.times)
  active : ∀ sh ∈ w.running, ∀ h v, (statusOf sh).get h = some v → h ∈ w.active
  old : ∀ sh ∈ w.running, ∀ h v, (statusOf sh).get h = some v → v.state = .inTransfer → 3 ≤ v.times
  calm : env.opt.disableAlleviate = true ∨ CalmSS swr env.opt (infos0 (inputOf env w [] false))
  placed : ∀ h ∈ w.active, (scrapingSetOf (infos0 (inputOf env w [] false))).contains h = true ∨
    Gen.assignSkip (globalOf (infos0 (inputOf env w [] false)) w.explore h) = true ∨
    Gen.tooBig env.opt (globalOf (infos0 (inputOf env w [] false)) w.explore h) = true
  minOk : env.opt.minShard ≤ (w.replicas : Int)
  maxOk : (w.replicas : Int) ≤ env.opt.maxShard
  noDown : env.opt.idleOn = false

theorem entry_infos0 (env : Env) (w : World) (k : Nat) (h : Hash) (v : St)
    (he : entry (infos0 (inputOf env w [] false)) k h = some v) :
    ∃ sh, w.running[k]? = some sh ∧ (statusOf sh).get h = some v := by
  obtain ⟨s, hs, hg⟩ := entry_some he
  obtain ⟨sh, hrun, rfl⟩ := infos0_running env w k s hs
  exact ⟨sh, hrun, hg⟩

theorem entry_infos0_of (env : Env) (w : World) (k : Nat) (sh : Shard) (h : Hash) (hrun : w.running[k]? = some sh) :
    entry (infos0 (inputOf env w [] false)) k h = (statusOf sh).get h := by
  have h0 : (infos0 (inputOf env w [] false))[k]? = some ⟨true, rtOf env sh, statusOf sh⟩ := by
    rw [infos0_inputOf, List.getElem?_map, hrun]; rfl
  rw [entry_of h0]

theorem settled_gc (swr : Swr) (env : Env) (w : World) (r : Settled swr env w) :
    ∀ k h, entry (gc env.opt w.active (infos0 (inputOf env w [] false))) k h =
      settledRes (infos0 (inputOf env w [] false)) k h := by
  apply gc_settled env.opt w.active
  · intro i s hs
    obtain ⟨sh, hrun, rfl⟩ := infos0_running env w i s hs
    exact r.keys sh (List.mem_of_getElem? hrun)
  · intro i j h vi vj hij hi hj
    obtain ⟨shi, hri, hgi⟩ := entry_infos0 env w i h vi hi
    obtain ⟨shj, hrj, hgj⟩ := entry_infos0 env w j h vj hj
    exact r.pairs i j shi shj h vi vj hri hrj hij hgi hgj
  · intro i h v he
    obtain ⟨sh, hrun, hg⟩ := entry_infos0 env w i h v he
    simpa using r.active sh (List.mem_of_getElem? hrun) h v hg
  · intro i h v he hst
    obtain ⟨sh, hrun, hg⟩ := entry_infos0 env w i h v he
    exact r.old sh (List.mem_of_getElem? hrun) h v hg hst
  · intro i s hs
    obtain ⟨sh, _, rfl⟩ := infos0_running env w i s hs
    rfl

theorem settled_calm (swr : Swr) (env : Env) (w : World) (r : Settled swr env w) : Calm swr (inputOf env w [] false) := by
  have hent := settled_gc swr env w r
  have inv := gc_inv env.opt w.active (infos0 (inputOf env w [] false))
  have hrl := running_length w r.rep
  have hpl : (inputOf env w [] false).probes.length = w.replicas := by rw [inputOf_probes_length, hrl]
  refine ⟨?_, ?_, ?_, ?_, r.noDown⟩
  · rcases r.calm with h | h
    · exact Or.inl h
    · right
      intro i s hs
      obtain ⟨s0, h0, _, hrt, _, _⟩ := inv.same i s hs
      rw [hrt]
      exact h i s0 h0
  · intro h ha
    rcases r.placed h ha with h1 | h1
    · left
      unfold scrapingSetOf at h1
      simp only [List.contains_eq_mem, List.mem_flatten, List.mem_map, decide_eq_true_eq] at h1
      obtain ⟨ks, ⟨s, hs, rfl⟩, hk⟩ := h1
      obtain ⟨j, hj⟩ := List.getElem?_of_mem hs
      obtain ⟨v, hv⟩ := AL.mem_keys_get _ _ hk
      have hej : entry (infos0 (inputOf env w [] false)) j h = some v := by rw [entry_of hj, hv]
      -- the holder keeps it, or its normal partner does
      have keep : ∀ (k : Nat) (u : St), entry (infos0 (inputOf env w [] false)) k h = some u → u.state = .normal →
          (scrapingSetOf (gc env.opt w.active (infos0 (inputOf env w [] false)))).contains h = true := by
        intro k u hek hn
        have e := hent k h
        unfold settledRes at e
        rw [hek] at e
        simp only at e
        rw [if_neg (fun hc => by rw [hn] at hc; exact absurd hc.1 (by decide))] at e
        obtain ⟨sk, hsk, hgk⟩ := entry_some e
        exact mem_scrapingSetOf hsk hgk
      cases hvs : v.state with
      | normal => exact keep j v hej hvs
      | inTransfer =>
        by_cases hpart : ∃ j', j' ≠ j ∧ entry (infos0 (inputOf env w [] false)) j' h ≠ none
        · obtain ⟨j', hjj, hne'⟩ := hpart
          cases hej' : entry (infos0 (inputOf env w [] false)) j' h with
          | none => exact absurd hej' hne'
          | some vj' =>
            obtain ⟨shj, hrj, hgj⟩ := entry_infos0 env w j h v hej
            obtain ⟨shj', hrj', hgj'⟩ := entry_infos0 env w j' h vj' hej'
            rcases r.pairs j j' shj shj' h v vj' hrj hrj' (Ne.symm hjj) hgj hgj' with ⟨_, hn, _⟩ | ⟨_, hn, _⟩
            · exact keep j' vj' hej' hn
            · rw [hvs] at hn; cases hn
        · have e := hent j h
          unfold settledRes at e
          rw [hej] at e
          simp only at e
          rw [if_neg (fun hc => hpart hc.2)] at e
          obtain ⟨sk, hsk, hgk⟩ := entry_some e
          exact mem_scrapingSetOf hsk hgk
    · exact Or.inr h1
  · show env.opt.minShard ≤ _
    rw [hpl]; exact r.minOk
  · show _ ≤ env.opt.maxShard
    rw [hpl]; exact r.maxOk

/-- **pending moves complete and lost ones are undone, in one closed-loop step.**  From a settled
    state whose only irregularities are moves (a target reported twice is reported once in transfer and
    once in normal state, three scrapes each; a target in transfer with no partner has three scrapes),
    one fault-free `Loop.step` leaves the StatefulSet at its size, and every running sidecar then reports
    exactly: its normal-state targets, and its in-transfer targets that no other sidecar reported — all
    in normal state.  Every hand-over is finished, nothing is pending, nothing is lost. -/
theorem loop_settles (swr : Swr) (env : Env) (w : World) (sc : Sched) (r : Settled swr env w) :
    (step swr env w (.cycle sc [] false)).replicas = w.replicas ∧
    (step swr env w (.cycle sc [] false)).active = w.active ∧
    ∀ (i : Nat) (sh : Shard), w.running[i]? = some sh →
      ∃ sh', (step swr env w (.cycle sc [] false)).shards[i]? = some sh' ∧
        (∀ h, h ∈ (statusOf sh').keys ↔
          ∃ v, (statusOf sh).get h = some v ∧
            ¬ (v.state = .inTransfer ∧ ∃ (k : Nat) (shk : Shard), k ≠ i ∧ w.running[k]? = some shk ∧ (statusOf shk).has h = true)) ∧
        (∀ h v, (statusOf sh').get h = some v → v.state = .normal) := by
  have hc := settled_calm swr env w r
  obtain ⟨hnc, hscales, hfinal, hne⟩ := calm_cycle swr sc (inputOf env w [] false) hc
  have hent := settled_gc swr env w r
  have hrl := running_length w r.rep
  have hpl := inputOf_probes_length env w [] false
  have hw1len : (applyOutcome w [] (cycle swr sc (inputOf env w [] false))).shards.length = w.shards.length := by
    unfold applyOutcome
    simp only [List.length_append, List.length_map, List.length_zipIdx, List.length_drop]
    rw [hrl]; have := r.rep; omega
  have hstep : step swr env w (.cycle sc [] false) = applyOutcome w [] (cycle swr sc (inputOf env w [] false)) := by
    show (cycleStep swr env w sc [] false).1 = _
    unfold cycleStep
    simp only [Bool.false_eq_true, if_false, hscales, List.foldl_cons, List.foldl_nil]
    have hn : ((inputOf env w [] false).probes.length : Int).toNat =
        (applyOutcome w [] (cycle swr sc (inputOf env w [] false))).replicas := by
      rw [hpl, hrl]; unfold applyOutcome; simp
    rw [hn]
    apply resize_self
    rw [hw1len]
    unfold applyOutcome; simpa using r.rep
  rw [hstep]
  refine ⟨by unfold applyOutcome; rfl, by unfold applyOutcome; rfl, ?_⟩
  intro i sh hrun
  obtain ⟨fin, sh', hfin, hsh', hkeys, hst⟩ := applyOutcome_report swr env w sc r.rep hne hnc r.keys i sh hrun
  have hact : (inputOf env w [] false).active = w.active := rfl
  have hopt : (inputOf env w [] false).opt = env.opt := rfl
  rw [hfinal, hact, hopt] at hfin
  -- the plan of shard i, key by key
  have hplan : ∀ h, (planned w.active fin).get h = settledRes (infos0 (inputOf env w [] false)) i h := by
    intro h
    rw [planned_get]
    have e := hent i h
    rw [entry_of hfin] at e
    rw [← e]
    cases hg : fin.scraping.get h with
    | none => simp
    | some u =>
      -- a key of the gc'd shard is a reported key, hence discovered
      have : settledRes (infos0 (inputOf env w [] false)) i h = some u := by rw [← e, hg]
      unfold settledRes at this
      rw [entry_infos0_of env w i sh h hrun] at this
      cases hv : (statusOf sh).get h with
      | none => rw [hv] at this; cases this
      | some v =>
        have ha : w.active.contains h = true := by
          simpa using r.active sh (List.mem_of_getElem? hrun) h v hv
        rw [ha]; rfl
  -- partner of (i, h) among the running sidecars
  have hpartner : ∀ h, (∃ j, j ≠ i ∧ entry (infos0 (inputOf env w [] false)) j h ≠ none) ↔
      ∃ (k : Nat) (shk : Shard), k ≠ i ∧ w.running[k]? = some shk ∧ (statusOf shk).has h = true := by
    intro h
    constructor
    · rintro ⟨j, hji, hne'⟩
      cases hej : entry (infos0 (inputOf env w [] false)) j h with
      | none => exact absurd hej hne'
      | some vj =>
        obtain ⟨shj, hrj, hgj⟩ := entry_infos0 env w j h vj hej
        exact ⟨j, shj, hji, hrj, (AL.has_iff _ _).mpr ⟨vj, hgj⟩⟩
    · rintro ⟨k, shk, hki, hrk, hhas⟩
      obtain ⟨vk, hvk⟩ := (AL.has_iff _ _).mp hhas
      exact ⟨k, hki, by rw [entry_infos0_of env w k shk h hrk, hvk]; simp⟩
  refine ⟨sh', hsh', ?_, ?_⟩
  · intro h
    rw [hkeys h, AL.mem_keys_iff, hplan h]
    unfold settledRes
    rw [entry_infos0_of env w i sh h hrun]
    cases hv : (statusOf sh).get h with
    | none => simp
    | some v =>
      simp only
      constructor
      · rintro ⟨u, hu⟩
        refine ⟨v, rfl, ?_⟩
        intro ⟨hin, hp⟩
        rw [if_pos ⟨hin, (hpartner h).mpr hp⟩] at hu
        cases hu
      · rintro ⟨v', hv', hnot⟩
        cases hv'
        rw [if_neg (fun hc => hnot ⟨hc.1, (hpartner h).mp hc.2⟩)]
        exact ⟨_, rfl⟩
  · intro h v hv
    have hk : h ∈ (planned w.active fin).keys := (hkeys h).mp (AL.get_some_mem_keys _ _ _ hv)
    obtain ⟨u, hu⟩ := AL.mem_keys_get _ _ hk
    obtain ⟨r', hr', hs'⟩ := hst h u hu
    rw [hv] at hr'; cases hr'
    rw [hs']
    rw [hplan h] at hu
    unfold settledRes at hu
    cases he : entry (infos0 (inputOf env w [] false)) i h with
    | none => rw [he] at hu; cases hu
    | some v0 =>
      rw [he] at hu
      simp only at hu
      split at hu
      · cases hu
      · rw [← Option.some.inj hu]; exact revSt_state v0

end Kvass.Loop
