/-
  C03 in the closed loop, the third residue: a discovered, healthy, placeable target that nobody
  scrapes is — after one fault-free step — reported by a running sidecar, or the StatefulSet has grown.
-/
import Kvass.Proofs.LoopStep
import Kvass.Props.C03

namespace Kvass.Loop
open Kvass Kvass.Coord Kvass.Spec

theorem resizes_last (ks : List Int) :
    ∀ (w : World) (k : Int), ks.getLast? = some k → (ks.foldl (fun w k => resize w k.toNat) w).replicas = k.toNat := by
  induction ks with
  | nil => intro w k h; cases h
  | cons x xs ih =>
    intro w k h
    simp only [List.foldl_cons]
    cases xs with
    | nil =>
      simp only [List.getLast?_singleton, Option.some.injEq] at h
      subst h
      simp only [List.foldl_nil]
      unfold resize; rfl
    | cons y ys =>
      apply ih
      rw [List.getLast?_cons_cons] at h
      exact h

theorem stopsEarly_inputOf (env : Env) (w : World) (fs : List Fault) : stopsEarly (inputOf env w fs false) = false := by
  unfold stopsEarly inputOf
  simp

/-- **closed-loop step: nothing eligible is silently left out.**  All running sidecars answer, more
    shards are allowed: after one fault-free step of the closed loop, a discovered, healthy, not too
    big target of non-zero size is reported by a running sidecar — or the StatefulSet is larger than
    before (and the next cycle finds an empty shard for it). -/
theorem step_placed_or_grows (swr : Swr) (env : Env) (w : World) (sc : Sched)
    (hrep : w.replicas ≤ w.shards.length)
    (hnc : (cycle swr sc (inputOf env w [] false)).crashed = false)
    (hnd : ∀ sh ∈ w.running, (statusOf sh).keys.Nodup)
    (hidle : ∀ sh ∈ w.running, Sidecar.IdleInv sh.sc)
    (hmax : (w.replicas : Int) < env.opt.maxShard)
    (hmp : 0 < env.opt.maxProc) (hmh : 0 ≤ env.opt.maxHead)
    (hnn : ∀ k, 0 ≤ (globalOf (infos0 (inputOf env w [] false)) w.explore k).series ∧
      0 ≤ (globalOf (infos0 (inputOf env w [] false)) w.explore k).total)
    (hfull : ∀ k ∈ w.active, k ∈ sc.assign)
    {h : Hash} (ha : h ∈ w.active)
    (hskip : Gen.assignSkip (globalOf (infos0 (inputOf env w [] false)) w.explore h) = false)
    (hbig : Gen.tooBig env.opt (globalOf (infos0 (inputOf env w [] false)) w.explore h) = false)
    (hsz : 0 < (globalOf (infos0 (inputOf env w [] false)) w.explore h).series +
      (globalOf (infos0 (inputOf env w [] false)) w.explore h).total) :
    w.replicas < (step swr env w (.cycle sc [] false)).replicas ∨
    ∃ (d : Nat) (shd : Shard), d < (step swr env w (.cycle sc [] false)).replicas ∧
      (step swr env w (.cycle sc [] false)).shards[d]? = some shd ∧ (statusOf shd).has h = true := by
  have hrl := running_length w hrep
  have hpl : (inputOf env w [] false).probes.length = w.replicas := by rw [inputOf_probes_length, hrl]
  have hne := stopsEarly_inputOf env w []
  have hsync : ∀ p ∈ (inputOf env w [] false).probes, inSync p = true := by
    intro p hpm
    obtain ⟨x, hx⟩ := List.getElem?_of_mem hpm
    have hxl : x < w.running.length := by
      have := (List.getElem?_eq_some_iff.mp hx).1
      rw [inputOf_probes_length] at this; exact this
    have hrx : w.running[x]? = some w.running[x] := by simp [hxl]
    have := inputOf_probe env w x _ hrx
    rw [hx] at this
    cases this
    exact probeOf_inSync env _
  rcases Props.C03.C03_all_placed_or_scale_up swr sc (inputOf env w [] false) hsync hmp hmh hnn hfull hnc
      (by rw [hpl]; exact hmax) with ⟨k, hlast, hk⟩ | hall
  · left
    show w.replicas < (cycleStep swr env w sc [] false).1.replicas
    unfold cycleStep
    simp only [Bool.false_eq_true, if_false]
    rw [resizes_last _ _ k hlast]
    rw [hpl] at hk
    omega
  · right
    obtain ⟨s, hs, hg⟩ := hall h ha hskip hbig hsz
    obtain ⟨d, hd⟩ := List.getElem?_of_mem hs
    cases hv : s.scraping.get h with
    | none => exact absurd hv hg
    | some v =>
      obtain ⟨shd, hshd, hkeys, _⟩ := cycleStep_report swr env w sc hrep hne hnc hnd hidle (Int.le_of_lt hmax) hd hv ha
      have hdl : d < w.replicas := by
        have h1 := (List.getElem?_eq_some_iff.mp hd).1
        have h2 := final_length' swr sc (inputOf env w [] false) hne
        rw [h2, hpl] at h1; exact h1
      have hbelow := plan_holder_below_scales swr env w sc hrep hne hnc hidle (Int.le_of_lt hmax) hd hv ha
      have hpk : h ∈ (planned w.active s).keys :=
        AL.get_some_mem_keys _ _ _ (planned_get_of w.active s h v ha hv)
      exact ⟨d, shd, cycleStep_running swr env w sc d hdl hbelow, hshd,
        (AL.has_iff _ _).mpr (AL.mem_keys_get _ _ ((hkeys h).mpr hpk))⟩

end Kvass.Loop
