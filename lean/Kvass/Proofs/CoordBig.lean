/-
  C04, "… and never causes a scale-up", for targets that are already assigned: a shard at or above a
  limit that holds a target alone exceeding that limit makes relief give up (no space is asked for).
-/
import Kvass.Proofs.CoordMove
import Kvass.Proofs.CoordGcWhole
import Kvass.Proofs.CoordRemoval

namespace Kvass.Coord
open Kvass Kvass.Spec

/-! ### the relief loops of a shard that holds such a target -/

theorem bigProc_spec {o : Opt} {v : St} (h : C04.bigProc o v = true) :
    Gen.apSkip v = false ∧ Gen.apTooBig o v = true := by
  unfold C04.bigProc at h
  simp only [Bool.and_eq_true, beq_iff_eq, decide_eq_true_eq] at h
  obtain ⟨⟨⟨⟨h1, h2⟩, h3⟩, h4⟩, h5⟩ := h
  constructor
  · cases hs : Gen.apSkip v with
    | false => rfl
    | true =>
      rw [Sites.apSkip_iff] at hs
      rcases hs with e | e | e | e
      · exact absurd e h4
      · exact absurd h1 e
      · exact absurd h2 e
      · omega
  · unfold Gen.apTooBig; simpa using h5

theorem bigHead_spec {o : Opt} {v : St} (h : C04.bigHead o v = true) :
    Gen.ahSkip v = false ∧ Gen.ahTooBig o v = true := by
  unfold C04.bigHead at h
  simp only [Bool.and_eq_true, beq_iff_eq, decide_eq_true_eq] at h
  obtain ⟨⟨⟨h1, h2⟩, h3⟩, h5⟩ := h
  constructor
  · cases hs : Gen.ahSkip v with
    | false => rfl
    | true =>
      rw [Sites.ahSkip_iff] at hs
      rcases hs with e | e | e
      · exact absurd h1 e
      · exact absurd h2 e
      · omega
  · unfold Gen.ahTooBig; simpa using h5

/-- the entry of another key of the source survives a transfer -/
theorem transfer_keeps_other (k : Nat) (c : CS) (i j : Nat) (h hb : Hash) (s t : SI) (tar vb : St)
    (hs : c.shards[i]? = some s) (ht : c.shards[j]? = some t) (hget : s.scraping.get h = some tar) (hji : j ≠ i)
    (hg : s.scraping.get hb = some vb) (hne : hb ≠ h) :
    ∃ s', (transfer k c i j h).shards[i]? = some s' ∧ s'.scraping.get hb = some vb := by
  refine ⟨tSrc s h tar, ?_, ?_⟩
  · rw [transfer_shard_at hs ht hget hji]; simp
  · unfold tSrc; simp only
    rw [AL.get_set_ne _ _ _ _ (Ne.symm hne)]
    exact hg

theorem apLoop_big (o : Opt) (i : Nat) (exp : Int) (hb : Hash) (vb : St) (hbig : C04.bigProc o vb = true) :
    ∀ (hs : List Hash) (c : CS) (total : Int), hb ∈ hs →
      (∃ s, c.shards[i]? = some s ∧ s.scraping.get hb = some vb) →
      (apLoop o i exp hs c total).2.2 = true ∨ Gen.apBreak (apLoop o i exp hs c total).2.1 exp = true := by
  obtain ⟨hskip, hbigT⟩ := bigProc_spec hbig
  intro hs
  induction hs with
  | nil => intro c total hm; cases hm
  | cons h hs ih =>
    intro c total hm ⟨s, hsi, hgb⟩
    unfold apLoop
    split
    · rename_i hbr; right; exact hbr
    · rw [hsi]
      simp only
      by_cases hhb : h = hb
      · subst hhb
        rw [hgb]
        simp [hskip, hbigT]
      · have hm' : hb ∈ hs := by
          rcases List.mem_cons.mp hm with e | e
          · exact absurd e.symm hhb
          · exact e
        cases hg : s.scraping.get h with
        | none => exact ih c total hm' ⟨s, hsi, hgb⟩
        | some tar =>
          simp only
          split
          · exact ih c total hm' ⟨s, hsi, hgb⟩
          · split
            · simp
            · split
              · rename_i j hj
                apply ih _ _ hm'
                obtain ⟨t, ht, _, hji, _⟩ := firstDst_spec hj
                exact transfer_keeps_other 1 c i j h hb s t tar vb hsi ht hg hji hgb (Ne.symm hhb)
              · exact ih c total hm' ⟨s, hsi, hgb⟩

theorem ahLoop_big (o : Opt) (i : Nat) (exp : Int) (hb : Hash) (vb : St) (hbig : C04.bigHead o vb = true) :
    ∀ (hs : List Hash) (c : CS) (total : Int), hb ∈ hs →
      (∃ s, c.shards[i]? = some s ∧ s.scraping.get hb = some vb) →
      (ahLoop o i exp hs c total).2.2 = true ∨ Gen.ahBreak (ahLoop o i exp hs c total).2.1 exp = true := by
  obtain ⟨hskip, hbigT⟩ := bigHead_spec hbig
  intro hs
  induction hs with
  | nil => intro c total hm; cases hm
  | cons h hs ih =>
    intro c total hm ⟨s, hsi, hgb⟩
    unfold ahLoop
    split
    · rename_i hbr; right; exact hbr
    · rw [hsi]
      simp only
      by_cases hhb : h = hb
      · subst hhb
        rw [hgb]
        simp [hskip, hbigT]
      · have hm' : hb ∈ hs := by
          rcases List.mem_cons.mp hm with e | e
          · exact absurd e.symm hhb
          · exact e
        cases hg : s.scraping.get h with
        | none => exact ih c total hm' ⟨s, hsi, hgb⟩
        | some tar =>
          simp only
          split
          · exact ih c total hm' ⟨s, hsi, hgb⟩
          · split
            · simp
            · split
              · rename_i j hj
                apply ih _ _ hm'
                obtain ⟨t, ht, _, hji, _⟩ := firstDst_spec hj
                exact transfer_keeps_other 2 c i j h hb s t tar vb hsi ht hg hji hgb (Ne.symm hhb)
              · exact ih c total hm' ⟨s, hsi, hgb⟩

theorem allevProcShard_big (o : Opt) (exp : Int) (order : List Hash) (c : CS) (i : Nat) (hb : Hash) (vb : St)
    (hbig : C04.bigProc o vb = true) (hm : hb ∈ order)
    (hent : ∃ s, c.shards[i]? = some s ∧ s.scraping.get hb = some vb) :
    (allevProcShard o exp order c i).2 = 0 := by
  unfold allevProcShard
  obtain ⟨s, hs, hg⟩ := hent
  rw [hs]
  simp only
  split
  · rfl
  · have := apLoop_big o i exp hb vb hbig order c (loadProc s) hm ⟨s, hs, hg⟩
    generalize apLoop o i exp order c (loadProc s) = r at this
    obtain ⟨c', total', aborted⟩ := r
    simp only at this ⊢
    rcases this with ha | hbk
    · simp [ha]
    · split
      · rfl
      · have hn : Gen.apNeed total' exp = false := by
          unfold Gen.apBreak at hbk; unfold Gen.apNeed
          simp only [decide_eq_true_eq] at hbk
          simp only [decide_eq_false_iff_not]; omega
        simp [hn]

theorem allevHeadShard_big (o : Opt) (exp : Int) (order : List Hash) (c : CS) (i : Nat) (hb : Hash) (vb : St)
    (hbig : C04.bigHead o vb = true) (hm : hb ∈ order)
    (hent : ∃ s, c.shards[i]? = some s ∧ s.scraping.get hb = some vb) :
    (allevHeadShard o exp order c i).2 = 0 := by
  unfold allevHeadShard
  obtain ⟨s, hs, hg⟩ := hent
  rw [hs]
  simp only
  split
  · rfl
  · have := ahLoop_big o i exp hb vb hbig order c (loadHead s) hm ⟨s, hs, hg⟩
    generalize ahLoop o i exp order c (loadHead s) = r at this
    obtain ⟨c', total', aborted⟩ := r
    simp only at this ⊢
    rcases this with ha | hbk
    · simp [ha]
    · split
      · rfl
      · have hn : Gen.ahNeed total' exp = false := by
          unfold Gen.ahBreak at hbk; unfold Gen.ahNeed
          simp only [decide_eq_true_eq] at hbk
          simp only [decide_eq_false_iff_not]; omega
        simp [hn]

end Kvass.Coord

namespace Kvass.Coord
open Kvass Kvass.Spec

/-! ### the invariant: a shard at or above a limit holds a target alone exceeding it -/

structure Cover (o : Opt) (sc : Sched) (c : CS) : Prop where
  proc : ∀ (i : Nat) (s : SI), c.shards[i]? = some s →
    s.rt.proc < o.maxProc ∨ ∃ hb vb, s.scraping.get hb = some vb ∧ C04.bigProc o vb = true ∧ hb ∈ orderFor sc.allevProc i
  head : ∀ (i : Nat) (s : SI), c.shards[i]? = some s →
    o.maxHead = 0 ∨ s.rt.head < o.maxHead ∨
      ∃ hb vb, s.scraping.get hb = some vb ∧ C04.bigHead o vb = true ∧ hb ∈ orderFor sc.allevHead i
  nonneg : ∀ (i : Nat) (s : SI), c.shards[i]? = some s → 0 ≤ s.rt.head ∧ 0 ≤ s.rt.proc

/-- accounting + provenance + cover -/
def PB (inp : Input) (sc : Sched) (c : CS) : Prop := FP inp c ∧ Cover inp.opt sc c

theorem pb_pres (inp : Input) (sc : Sched) (glob : Hash → St)
    (hpos : ∀ h, 0 ≤ (glob h).series ∧ 0 ≤ (glob h).total)
    (hfa : ∀ h, C04.isFirstAssign inp h = true → ∀ e, inp.explore.get h = some e →
      e.series = (glob h).series ∧ e.total = (glob h).total) :
    Pres inp.opt (PB inp sc) where
  crash := fun c hc => ⟨(fp_presA inp glob hpos hfa).crash c hc.1, ⟨hc.2.proc, hc.2.head, hc.2.nonneg⟩⟩
  transfer := by
    intro k c i j h hc hg
    refine ⟨(fp_presA inp glob hpos hfa).transfer k c i j h hc.1 hg, ?_⟩
    obtain ⟨f, t, tar, hf, ht, hget, _, _, hji, _, _, hfit, _⟩ := hg
    have hposT := hc.1.2.pos i f h tar hf hget
    have hnnT := hc.2.nonneg j t ht
    have hat := transfer_shard_at (k := k) hf ht hget hji
    -- the moved entry is not one that alone exceeds a limit
    have notBigP : ∀ vb, vb.total = tar.total → C04.bigProc inp.opt vb = true → False := by
      intro vb e hb
      unfold C04.bigProc at hb
      simp only [Bool.and_eq_true, decide_eq_true_eq] at hb
      have := hfit.2; omega
    have notBigH : ∀ vb, vb.series = tar.series → inp.opt.maxHead ≠ 0 → C04.bigHead inp.opt vb = true → False := by
      intro vb e hz hb
      unfold C04.bigHead at hb
      simp only [Bool.and_eq_true, decide_eq_true_eq] at hb
      have := hfit.1 hz; omega
    refine ⟨?_, ?_, ?_⟩
    · intro m s hs
      rw [hat] at hs
      by_cases hmi : m = i
      · subst hmi
        simp only [if_true, Option.some.injEq] at hs
        subst hs
        rcases hc.2.proc m f hf with hl | ⟨hb, vb, hgb, hbig, hord⟩
        · exact Or.inl hl
        · right
          by_cases hbh : hb = h
          · subst hbh
            rw [hget] at hgb; cases hgb
            exact (notBigP tar rfl hbig).elim
          · refine ⟨hb, vb, ?_, hbig, hord⟩
            unfold tSrc; simp only
            rw [AL.get_set_ne _ _ _ _ (Ne.symm hbh)]; exact hgb
      · simp only [hmi, if_false] at hs
        by_cases hmj : m = j
        · subst hmj
          simp only [if_true, Option.some.injEq] at hs
          subst hs
          left
          show Gen.transferProc t.rt tar < _
          rw [Sites.transferProc_eq]; exact hfit.2
        · simp only [hmj, if_false] at hs
          exact hc.2.proc m s hs
    · intro m s hs
      rw [hat] at hs
      by_cases hz : inp.opt.maxHead = 0
      · exact Or.inl hz
      · right
        by_cases hmi : m = i
        · subst hmi
          simp only [if_true, Option.some.injEq] at hs
          subst hs
          rcases hc.2.head m f hf with h0 | hl | ⟨hb, vb, hgb, hbig, hord⟩
          · exact absurd h0 hz
          · exact Or.inl hl
          · right
            by_cases hbh : hb = h
            · subst hbh
              rw [hget] at hgb; cases hgb
              exact (notBigH tar rfl hz hbig).elim
            · refine ⟨hb, vb, ?_, hbig, hord⟩
              unfold tSrc; simp only
              rw [AL.get_set_ne _ _ _ _ (Ne.symm hbh)]; exact hgb
        · simp only [hmi, if_false] at hs
          by_cases hmj : m = j
          · subst hmj
            simp only [if_true, Option.some.injEq] at hs
            subst hs
            left
            show Gen.transferHead t.rt tar < _
            rw [Sites.transferHead_eq]; exact hfit.1 hz
          · simp only [hmj, if_false] at hs
            rcases hc.2.head m s hs with h0 | hr
            · exact absurd h0 hz
            · exact hr
    · intro m s hs
      rw [hat] at hs
      by_cases hmi : m = i
      · subst hmi
        simp only [if_true, Option.some.injEq] at hs
        subst hs
        exact hc.2.nonneg m f hf
      · simp only [hmi, if_false] at hs
        by_cases hmj : m = j
        · subst hmj
          simp only [if_true, Option.some.injEq] at hs
          subst hs
          constructor
          · show 0 ≤ Gen.transferHead t.rt tar
            rw [Sites.transferHead_eq]; omega
          · show 0 ≤ Gen.transferProc t.rt tar
            rw [Sites.transferProc_eq]; omega
        · simp only [hmj, if_false] at hs
          exact hc.2.nonneg m s hs

end Kvass.Coord

namespace Kvass.Coord
open Kvass Kvass.Spec

/-! ### relief asks for nothing -/

theorem allevProcAll_zero (inp : Input) (sc : Sched) (swr : Swr) (hsw : SwrOK swr inp.opt)
    (hp : Pres inp.opt (PB inp sc)) :
    ∀ (is : List Nat) (c : CS) (need : Int), PB inp sc c →
      (allevProcAll swr inp.opt sc.allevProc is c need).2 = need ∧ PB inp sc (allevProcAll swr inp.opt sc.allevProc is c need).1 := by
  intro is
  induction is with
  | nil => intro c need hc; exact ⟨rfl, hc⟩
  | cons i is ih =>
    intro c need hc
    unfold allevProcAll
    split
    · exact ih c need hc
    · rename_i s hs
      split
      · rename_i hcond
        simp only [Bool.and_eq_true] at hcond
        have hsrc : ∀ s', c.shards[i]? = some s' → s'.changeable = true := by
          intro s' hs'; rw [hs] at hs'; cases hs'; exact hcond.1
        -- the trigger fired, so the shard is at the limit: it holds a too-big target
        obtain ⟨hb, vb, hgb, hbig, hord⟩ : ∃ hb vb, s.scraping.get hb = some vb ∧ C04.bigProc inp.opt vb = true ∧
            hb ∈ orderFor sc.allevProc i := by
          rcases hc.2.proc i s hs with hl | hx
          · have := procTrigger_full hsw s.rt hcond.2; omega
          · exact hx
        have hz := allevProcShard_big inp.opt (Gen.procExpect swr inp.opt) (orderFor sc.allevProc i) c i hb vb hbig hord ⟨s, hs, hgb⟩
        have hpres := allevProcShardX (hp.toX (fun _ => True) (fun _ => True) True) (Gen.procExpect swr inp.opt) (orderFor sc.allevProc i) c i (fun s' hs' => ⟨hsrc s' hs', trivial⟩) hc
        generalize allevProcShard inp.opt (Gen.procExpect swr inp.opt) (orderFor sc.allevProc i) c i = r at hz hpres
        obtain ⟨c', n⟩ := r
        simp only at hz hpres ⊢
        subst hz
        have := ih c' (need + 0) hpres
        simpa using this
      · exact ih c need hc

theorem allevHeadAll_zero (inp : Input) (sc : Sched) (swr : Swr) (hsw : SwrOK swr inp.opt) (hh : inp.opt.maxHead ≠ 0)
    (hp : Pres inp.opt (PB inp sc)) :
    ∀ (is : List Nat) (c : CS) (need : Int), PB inp sc c →
      (allevHeadAll swr inp.opt sc.allevHead is c need).2 = need ∧ PB inp sc (allevHeadAll swr inp.opt sc.allevHead is c need).1 := by
  intro is
  induction is with
  | nil => intro c need hc; exact ⟨rfl, hc⟩
  | cons i is ih =>
    intro c need hc
    unfold allevHeadAll
    split
    · exact ih c need hc
    · rename_i s hs
      split
      · rename_i hch
        split
        · rename_i ex hex
          have hsrc : ∀ s', c.shards[i]? = some s' → s'.changeable = true := by
            intro s' hs'; rw [hs] at hs'; cases hs'; exact hch
          obtain ⟨hb, vb, hgb, hbig, hord⟩ : ∃ hb vb, s.scraping.get hb = some vb ∧ C04.bigHead inp.opt vb = true ∧
              hb ∈ orderFor sc.allevHead i := by
            rcases hc.2.head i s hs with h0 | hl | hx
            · exact absurd h0 hh
            · have := headThreshold_full hsw s.rt ex hex; omega
            · exact hx
          have hz := allevHeadShard_big inp.opt (Gen.headExpect swr inp.opt ex) (orderFor sc.allevHead i) c i hb vb hbig hord ⟨s, hs, hgb⟩
          have hpres := allevHeadShardX (hp.toX (fun _ => True) (fun _ => True) True) hh (Gen.headExpect swr inp.opt ex) (orderFor sc.allevHead i) c i (fun s' hs' => ⟨hsrc s' hs', trivial⟩) hc
          generalize allevHeadShard inp.opt (Gen.headExpect swr inp.opt ex) (orderFor sc.allevHead i) c i = r at hz hpres
          obtain ⟨c', n⟩ := r
          simp only at hz hpres ⊢
          subst hz
          have := ih c' (need + 0) hpres
          simpa using this
        · exact ih c need hc
      · exact ih c need hc

theorem alleviate_zero (inp : Input) (sc : Sched) (swr : Swr) (hsw : SwrOK swr inp.opt)
    (hp : Pres inp.opt (PB inp sc)) (c : CS) (hc : PB inp sc c) :
    (alleviate swr inp.opt sc c).2 = ⟨0, 0⟩ ∧ PB inp sc (alleviate swr inp.opt sc c).1 := by
  unfold alleviate
  split
  · exact ⟨rfl, hc⟩
  · simp only
    obtain ⟨h1, p1⟩ := allevProcAll_zero inp sc swr hsw hp (List.range c.shards.length) c 0 hc
    generalize allevProcAll swr inp.opt sc.allevProc (List.range c.shards.length) c 0 = r1 at h1 p1
    obtain ⟨c1, np⟩ := r1
    simp only at h1 p1 ⊢
    subst h1
    split
    · rename_i hhe
      have hh : inp.opt.maxHead ≠ 0 := (Sites.headEnabled_iff inp.opt).mp hhe
      obtain ⟨h2, p2⟩ := allevHeadAll_zero inp sc swr hsw hh hp (List.range c.shards.length) c1 0 p1
      generalize allevHeadAll swr inp.opt sc.allevHead (List.range c.shards.length) c1 0 = r2 at h2 p2
      obtain ⟨c2, nh⟩ := r2
      simp only at h2 p2 ⊢
      subst h2
      exact ⟨rfl, p2⟩
    · exact ⟨rfl, p1⟩

end Kvass.Coord

namespace Kvass.Coord
open Kvass Kvass.Spec

/-! ### the start state: a lonely, settled copy survives `gcTargets` -/

theorem gc_keeps_lonely_normal (o : Opt) (active : List Hash) (ss0 : List SI) (i : Nat) (si : SI) (h : Hash) (vi : St)
    (hnd0 : ∀ (k : Nat) (s : SI), ss0[k]? = some s → s.scraping.keys.Nodup)
    (hact : h ∈ active) (hi : ss0[i]? = some si) (hgi : si.scraping.get h = some vi)
    (hst : vi.state = .normal) (h3 : 3 ≤ vi.times)
    (halone : ∀ (k : Nat) (sk : SI), ss0[k]? = some sk → k ≠ i → sk.changeable = true → sk.scraping.get h = none) :
    entry (gc o active ss0) i h = some vi := by
  have hc : active.contains h = true := by simpa using hact
  let J : Nat → List SI → Prop := fun _ ss => entry ss i h = some vi ∧ OthersNone ss0 ss [i] h
  have hJ : J ss0.length (gc o active ss0) := by
    apply gc_ind o active ss0 J hnd0
    · refine ⟨by simp [entry_of hi, hgi], ?_⟩
      intro k s0 hk hne hch
      rw [entry_of hk]
      exact halone k s0 hk (by simpa using hne) hch
    · intro a ss ha fr ⟨je, jo⟩
      obtain ⟨_, tother, tself⟩ := turn_spec o active ss0 ss a hnd0 fr
      by_cases hai : a = i
      · subst hai
        have hs : ss[a]? = some si := by rw [fr.rest a (Nat.le_refl _)]; exact hi
        refine ⟨?_, ?_⟩
        · rw [tself si hs h]
          cases hci : si.changeable with
          | false => simpa using hgi
          | true =>
            simp only [if_true, hgi]
            have hD : gcDecide o active ss a si h vi = false := by
              unfold gcDecide
              simp only [hc, young_false h3, Bool.not_true, Bool.false_eq_true, if_false]
              cases ht : gcOtherTriggers o ss a si vi h with
              | false => rfl
              | true =>
                obtain ⟨k, sk, st, hka, hk, hch, hg, _, _⟩ := (gcOtherTriggers_iff o ss a si vi h).mp ht
                have := no_other_holder fr jo hk hch hg
                simp at this; exact absurd this hka
            have hR : gcReverts active ss a h vi = false := by
              unfold gcReverts
              simp [Gen.gcRevert, hst]
            simp [gcOutcome, hD, hR]
        · intro k s0 hk hne hch
          have hka : k ≠ a := by simpa using hne
          rw [tother k h hka]
          exact jo k s0 hk hne hch
      · refine ⟨?_, ?_⟩
        · rw [tother i h (Ne.symm hai), je]
        · intro k s0 hk hne hch
          by_cases hka : k = a
          · subst hka
            have hs : ss[k]? = some s0 := by rw [fr.rest k (Nat.le_refl _)]; exact hk
            rw [tself s0 hs h]
            have hn := jo k s0 hk hne hch
            rw [entry_of hs] at hn
            simp [hch, hn]
          · rw [tother k h hka]
            exact jo k s0 hk hne hch
  exact hJ.1

/-- the relief schedule of a shard mentions every key the shard reports (the schedule stands for
    the iteration order of the shard's whole scraping map) -/
def SchedCovers (sc : Sched) (inp : Input) : Prop :=
  ∀ (i : Nat) (p : Probe) (h : Hash), inp.probes[i]? = some p → (reported p).has h = true →
    h ∈ orderFor sc.allevProc i ∧ h ∈ orderFor sc.allevHead i

/-- no shard reports a negative load -/
def RtsOK (inp : Input) : Prop := ∀ p ∈ inp.probes, 0 ≤ (effRt p).head ∧ 0 ≤ (effRt p).proc

theorem holdsBig_spec {inp : Input} {i : Nat} {p : Probe} {big : St → Bool}
    (hnd : (reported p).keys.Nodup) (h : C04.holdsBig inp i p big = true) :
    ∃ hb vb, (reported p).get hb = some vb ∧ big vb = true ∧ hb ∈ inp.active ∧
      ∀ (j : Nat) (q : Probe), inp.probes[j]? = some q → j ≠ i → (reported q).get hb = none := by
  unfold C04.holdsBig at h
  rw [List.any_eq_true] at h
  obtain ⟨⟨hb, vb⟩, hm, hcond⟩ := h
  simp only [Bool.and_eq_true, Bool.not_eq_true', List.contains_iff_mem] at hcond
  obtain ⟨⟨hbig, hact⟩, hno⟩ := hcond
  refine ⟨hb, vb, get_of_mem_nodup' _ _ _ hm hnd, hbig, hact, ?_⟩
  intro j q hq hji
  cases hg : (reported q).get hb with
  | none => rfl
  | some v =>
    exfalso
    have hany : (inp.probes.zipIdx.any fun (q, j) => j != i && (reported q).has hb) = true := by
      rw [List.any_eq_true]
      refine ⟨(q, j), ?_, ?_⟩
      · rw [List.mem_iff_getElem?]
        exact ⟨j, by rw [List.getElem?_zipIdx, hq]; simp⟩
      · simp only [Bool.and_eq_true, bne_iff_ne, ne_eq]
        exact ⟨hji, (AL.has_iff _ _).mpr ⟨v, hg⟩⟩
    rw [hany] at hno; cases hno

theorem cover_start (inp : Input) (sc : Sched) (hnd : NodupKeys inp) (hall : inp.probes.all inSync = true)
    (hov : C04.overloadOnlyByBig inp = true) (hrt : RtsOK inp) (hcov : SchedCovers sc inp) :
    Cover inp.opt sc (startCS inp) := by
  have inv := gc_inv inp.opt inp.active (infos0 inp)
  have hshards : (startCS inp).shards = gc inp.opt inp.active (infos0 inp) := rfl
  have hnd0 : ∀ (k : Nat) (s : SI), (infos0 inp)[k]? = some s → s.scraping.keys.Nodup := by
    intro k s hk
    obtain ⟨p, hp, rfl⟩ := infos0_get_some hk
    rw [getInfo_scraping]; exact hnd p (List.mem_of_getElem? hp)
  rw [List.all_eq_true] at hall
  unfold C04.overloadOnlyByBig at hov
  rw [List.all_eq_true] at hov
  -- facts about shard m of the start state
  have key : ∀ (m : Nat) (s : SI), (startCS inp).shards[m]? = some s →
      ∃ p, inp.probes[m]? = some p ∧ s.rt = effRt p ∧
        ∀ (big : St → Bool), (∀ v, big v = true → v.state = .normal ∧ 3 ≤ v.times) →
          C04.holdsBig inp m p big = true →
          ∃ hb vb, s.scraping.get hb = some vb ∧ big vb = true ∧ hb ∈ orderFor sc.allevProc m ∧ hb ∈ orderFor sc.allevHead m := by
    intro m s hs
    rw [hshards] at hs
    obtain ⟨s0, h0, _, hrt0, _, _⟩ := inv.same m s hs
    obtain ⟨p, hp, rfl⟩ := infos0_get_some h0
    have hpm := List.mem_of_getElem? hp
    refine ⟨p, hp, by rw [hrt0, getInfo_rt p (hall p hpm)], ?_⟩
    intro big hbigS hh
    obtain ⟨hb, vb, hg, hbig, hact, halone⟩ := holdsBig_spec (hnd p hpm) hh
    have he := gc_keeps_lonely_normal inp.opt inp.active (infos0 inp) m (getInfo p).1 hb vb hnd0 hact h0
      (by rw [getInfo_scraping]; exact hg) (hbigS vb hbig).1 (hbigS vb hbig).2
      (by
        intro k sk hk hkm _
        obtain ⟨q, hq, rfl⟩ := infos0_get_some hk
        rw [getInfo_scraping]; exact halone k q hq hkm)
    rw [entry_of hs] at he
    have hc := hcov m p hb hp ((AL.has_iff _ _).mpr ⟨vb, hg⟩)
    exact ⟨hb, vb, he, hbig, hc.1, hc.2⟩
  have hbp : ∀ v, C04.bigProc inp.opt v = true → v.state = .normal ∧ 3 ≤ v.times := by
    intro v hv
    unfold C04.bigProc at hv
    simp only [Bool.and_eq_true, beq_iff_eq, decide_eq_true_eq] at hv
    exact ⟨hv.1.1.1.1, hv.1.1.2⟩
  have hbh : ∀ v, C04.bigHead inp.opt v = true → v.state = .normal ∧ 3 ≤ v.times := by
    intro v hv
    unfold C04.bigHead at hv
    simp only [Bool.and_eq_true, beq_iff_eq, decide_eq_true_eq] at hv
    exact ⟨hv.1.1.1, hv.1.2⟩
  have hzip : ∀ (m : Nat) (p : Probe), inp.probes[m]? = some p → (p, m) ∈ inp.probes.zipIdx := by
    intro m p hp
    rw [List.mem_iff_getElem?]
    exact ⟨m, by rw [List.getElem?_zipIdx, hp]; simp⟩
  refine ⟨?_, ?_, ?_⟩
  · intro m s hs
    obtain ⟨p, hp, hrt', hbig⟩ := key m s hs
    have := hov (p, m) (hzip m p hp)
    simp only [Bool.and_eq_true, Bool.or_eq_true, decide_eq_true_eq] at this
    rcases this.1 with hl | hh
    · exact Or.inl (by rw [hrt']; exact hl)
    · obtain ⟨hb, vb, hg, hb1, ho, _⟩ := hbig _ hbp hh
      exact Or.inr ⟨hb, vb, hg, hb1, ho⟩
  · intro m s hs
    obtain ⟨p, hp, hrt', hbig⟩ := key m s hs
    have := hov (p, m) (hzip m p hp)
    simp only [Bool.and_eq_true, Bool.or_eq_true, decide_eq_true_eq, beq_iff_eq] at this
    rcases this.2 with (h0 | hl) | hh
    · exact Or.inl h0
    · exact Or.inr (Or.inl (by rw [hrt']; exact hl))
    · obtain ⟨hb, vb, hg, hb1, _, ho⟩ := hbig _ hbh hh
      exact Or.inr (Or.inr ⟨hb, vb, hg, hb1, ho⟩)
  · intro m s hs
    obtain ⟨p, hp, hrt', _⟩ := key m s hs
    rw [hrt']
    exact hrt p (List.mem_of_getElem? hp)

end Kvass.Coord

namespace Kvass.Coord
open Kvass Kvass.Spec

theorem shards_le_probes {inp : Input} {c : CS} (hp : ProvInv inp c) : c.shards.length ≤ inp.probes.length := by
  apply Classical.byContradiction
  intro hgt
  have hlt : inp.probes.length < c.shards.length := by omega
  obtain ⟨p, hp', _⟩ := hp.flags inp.probes.length c.shards[inp.probes.length] (List.getElem?_eq_getElem hlt)
  rw [List.getElem?_eq_none (Nat.le_refl _)] at hp'
  cases hp'

/-- **observable C04, "never causes a scale-up" for assigned targets**: all shards in sync, every
    unscraped target unplaceable, every shard at or above a limit holds a settled target that alone
    exceeds that limit ⇒ the cycle asks for no more shards than there are (or than the configured
    minimum) — for every relief order that covers the shards' maps. -/
theorem noScaleUpAssigned_cycle (swr : Swr) (sc : Sched) (inp : Input) (hok : SizesOK inp) (hsw : SwrOK swr inp.opt)
    (hnd : NodupKeys inp) (hrt : RtsOK inp) (hcov : SchedCovers sc inp) :
    C04.noScaleUpForAssignedTooBig inp (Obs.ofOutcome (cycle swr sc inp)) = true := by
  unfold C04.noScaleUpForAssignedTooBig
  cases hpre : (inp.probes.all inSync && C04.onlyTooBigUnscraped inp && C04.overloadOnlyByBig inp) with
  | false => simp
  | true =>
    simp only [Bool.not_true, Bool.false_or]
    simp only [Bool.and_eq_true] at hpre
    obtain ⟨⟨hall, hun⟩, hov⟩ := hpre
    rw [List.all_eq_true]
    intro k hk
    have hk' : k ∈ (cycle swr sc inp).scales := hk
    simp only [Bool.or_eq_true, decide_eq_true_eq]
    cases hne : stopsEarly inp with
    | true =>
      rcases cycle_scales swr sc inp _ rfl with ⟨hs, _⟩ | ⟨_, _, _, hf, _⟩
      · rw [hs] at hk'; exact Or.inr (earlyScales_le inp k hk')
      · rw [hne] at hf; cases hf
    | false =>
      have hpres : Pres inp.opt (PB inp sc) :=
        pb_pres inp sc (globalOf (infos0 inp) inp.explore) (globalOf_pos inp hok)
          (fun h hfa e he => by
            have := globalOf_firstAssign inp h hfa e he
            rw [this]; exact ⟨rfl, rfl⟩)
      have hstart : PB inp sc (startCS inp) :=
        ⟨⟨provInv_start inp, fitInv_start inp hok⟩, cover_start inp sc hnd hall hov hrt hcov⟩
      obtain ⟨hz0, hpb⟩ := alleviate_zero inp sc swr hsw hpres (startCS inp) hstart
      rw [cycle_eq_finish swr sc inp hne] at hk'
      generalize alleviate swr inp.opt sc (startCS inp) = ar at hz0 hpb hk'
      obtain ⟨c2, nd⟩ := ar
      simp only at hz0 hpb hk'
      subst hz0
      rw [assign_nothing' sc inp hun c2 hpb.1.1] at hk'
      simp only at hk'
      have hz : Gen.needUp (Gen.spaceIsZero (spaceAdd ⟨0, 0⟩ {})) = false := by decide
      have hlen : c2.shards.length ≤ inp.probes.length := shards_le_probes hpb.1.1
      unfold finish at hk'
      simp only [hz, Bool.false_eq_true, if_false] at hk'
      have hfin : ∀ (x : Int), x ≤ (inp.probes.length : Int) → k ∈ earlyScales inp ++ [Gen.finalScaleArg (clamp inp.opt x)] →
          k ≤ (inp.probes.length : Int) ∨ k ≤ inp.opt.minShard := by
        intro x hx hm
        simp only [List.mem_append, List.mem_singleton] at hm
        rcases hm with hm | hm
        · exact Or.inr (earlyScales_le inp k hm)
        · subst hm
          unfold Gen.finalScaleArg
          exact clamp_le _ _ _ hx
      split at hk'
      · exact Or.inr (earlyScales_le inp k hk')
      · cases hsd : Gen.scaleDownOn inp.opt with
        | true =>
          simp only [hsd, if_true] at hk'
          split at hk'
          · exact Or.inr (earlyScales_le inp k hk')
          · apply hfin _ _ hk'
            unfold tryScaleDown
            simp only
            have := removableSuffix_le c2.shards c2.shards.length
            omega
        | false =>
          simp only [hsd, Bool.false_eq_true, if_false] at hk'
          split at hk'
          · exact Or.inr (earlyScales_le inp k hk')
          · apply hfin _ _ hk'
            unfold Gen.scaleInit; omega

end Kvass.Coord

namespace Kvass.Coord
open Kvass Kvass.Spec

theorem rtsOK_sound (inp : Input) (h : C04.rtsOK inp = true) : RtsOK inp := by
  unfold C04.rtsOK at h
  simp only [List.all_eq_true, Bool.and_eq_true, decide_eq_true_eq] at h
  exact h

theorem schedCovers_sound (sc : Sched) (inp : Input) (h : C04.schedCovers sc inp = true) : SchedCovers sc inp := by
  unfold C04.schedCovers at h
  simp only [List.all_eq_true, Bool.and_eq_true, List.contains_iff_mem] at h
  intro i p k hp hr
  have hm : (p, i) ∈ inp.probes.zipIdx := by
    rw [List.mem_iff_getElem?]
    exact ⟨i, by rw [List.getElem?_zipIdx, hp]; simp⟩
  obtain ⟨v, hv⟩ := (AL.has_iff _ _).mp hr
  exact h (p, i) hm k (AL.get_some_mem_keys _ _ _ hv)

end Kvass.Coord
