/- helper lemmas about the sidecar model -/
import Kvass.Model.Sidecar
import Kvass.Spec.Sidecar
import Kvass.Proofs.AL

namespace Kvass.Sidecar
open Kvass Kvass.Spec.SC

/-- what `updateStatus` makes of one requested target -/
def entry (old : AL SS) (t : Tgt) : SS :=
  match old.get t.hash with
  | some s => { s with times := if s.state = .normal ∧ t.state = .inTransfer then 0 else s.times, state := t.state }
  | none => { health := .unknown, series := t.series, total := t.total, state := t.state, times := 0 }

theorem foldl_updOne_get_notin (old : AL SS) (h : Hash) :
    ∀ (ts : List Tgt) (acc : AL SS), h ∉ ts.map (·.hash) → (ts.foldl (updOne old) acc).get h = acc.get h := by
  intro ts
  induction ts with
  | nil => intro acc _; rfl
  | cons t ts ih =>
    intro acc hn
    simp only [List.map_cons, List.mem_cons, not_or] at hn
    simp only [List.foldl_cons]
    rw [ih _ hn.2]
    unfold updOne
    simp only
    rw [AL.get_set_ne _ _ _ _ (Ne.symm hn.1)]

theorem updOne_get_self (old acc : AL SS) (t : Tgt) (hacc : acc.get t.hash = none) :
    (updOne old acc t).get t.hash = some (entry old t) := by
  unfold updOne entry
  simp only [AL.get_set_self, Gen.Sidecar.statusIsNew, Gen.Sidecar.resetCond, Gen.Sidecar.resetTo,
    Gen.Sidecar.stateTo, hacc, AL.has]
  cases ho : old.get t.hash with
  | none => simp [fresh, Gen.Sidecar.freshSeries, Gen.Sidecar.freshTotal]
  | some s =>
    simp only [Option.isSome_some, Bool.not_true, Bool.false_eq_true, if_false, Option.getD_some]
    by_cases hc : s.state = .normal ∧ t.state = .inTransfer
    · simp [hc.1, hc.2]
    · have : (decide (s.state = TState.normal) && decide (t.state = TState.inTransfer)) = false := by
        simpa using hc
      simp [this, hc]

theorem split_once {ts : List Tgt} {t : Tgt} (hm : t ∈ ts)
    (h1 : (ts.filter fun u => u.hash == t.hash).length = 1) :
    ∃ l1 l2, ts = l1 ++ t :: l2 ∧ t.hash ∉ l1.map (·.hash) ∧ t.hash ∉ l2.map (·.hash) := by
  induction ts with
  | nil => cases hm
  | cons u us ih =>
    by_cases hu : u.hash = t.hash
    · -- u is the only occurrence
      have hf : (List.filter (fun v => v.hash == t.hash) (u :: us)).length
          = (List.filter (fun v => v.hash == t.hash) us).length + 1 := by
        simp [List.filter, hu]
      rw [hf] at h1
      have h0 : (us.filter fun v => v.hash == t.hash) = [] := by
        apply List.eq_nil_of_length_eq_zero; omega
      have hnot : t.hash ∉ us.map (·.hash) := by
        intro hmm
        obtain ⟨v, hv, hvh⟩ := List.mem_map.mp hmm
        have : v ∈ us.filter fun v => v.hash == t.hash := List.mem_filter.mpr ⟨hv, by simpa using hvh⟩
        rw [h0] at this; cases this
      have : t = u := by
        rcases List.mem_cons.mp hm with e | e
        · exact e
        · exact absurd (List.mem_map.mpr ⟨t, e, rfl⟩) hnot
      subst this
      exact ⟨[], us, rfl, by simp, hnot⟩
    · have hf : (List.filter (fun v => v.hash == t.hash) (u :: us))
          = (List.filter (fun v => v.hash == t.hash) us) := by
        have : (u.hash == t.hash) = false := by simpa using hu
        simp [List.filter, this]
      rw [hf] at h1
      have hm' : t ∈ us := by
        rcases List.mem_cons.mp hm with e | e
        · subst e; exact absurd rfl hu
        · exact e
      obtain ⟨l1, l2, e, n1, n2⟩ := ih hm' h1
      refine ⟨u :: l1, l2, by rw [e]; rfl, ?_, n2⟩
      simp only [List.map_cons, List.mem_cons, not_or]
      exact ⟨fun e => hu e.symm, n1⟩

/-- a target requested exactly once ends up with `entry` -/
theorem updStatus_get (old : AL SS) (ts : List Tgt) (t : Tgt) (hm : t ∈ ts)
    (h1 : (ts.filter fun u => u.hash == t.hash).length = 1) :
    (updStatus old ts).get t.hash = some (entry old t) := by
  obtain ⟨l1, l2, e, n1, n2⟩ := split_once hm h1
  unfold updStatus
  rw [e, List.foldl_append, List.foldl_cons, foldl_updOne_get_notin old _ l2 _ n2]
  apply updOne_get_self
  rw [foldl_updOne_get_notin old _ l1 _ n1]; rfl

theorem foldl_updOne_keys (old : AL SS) :
    ∀ (ts : List Tgt) (acc : AL SS) (k : Hash),
      k ∈ (ts.foldl (updOne old) acc).keys ↔ k ∈ acc.keys ∨ k ∈ ts.map (·.hash) := by
  intro ts
  induction ts with
  | nil => intro acc k; simp
  | cons t ts ih =>
    intro acc k
    simp only [List.foldl_cons, List.map_cons, List.mem_cons]
    rw [ih]
    unfold updOne
    simp only
    rw [AL.mem_keys_set]
    constructor
    · rintro ((h | h) | h)
      · exact Or.inr (Or.inl h)
      · exact Or.inl h
      · exact Or.inr (Or.inr h)
    · rintro (h | h | h)
      · exact Or.inl (Or.inr h)
      · exact Or.inl (Or.inl h)
      · exact Or.inr h

theorem updStatus_keys (old : AL SS) (ts : List Tgt) (k : Hash) :
    k ∈ (updStatus old ts).keys ↔ k ∈ ts.map (·.hash) := by
  unfold updStatus
  rw [foldl_updOne_keys]; simp [AL.keys]

theorem updStatus_nil_iff (old : AL SS) (ts : List Tgt) : updStatus old ts = [] ↔ ts = [] := by
  constructor
  · intro h
    cases ts with
    | nil => rfl
    | cons t ts =>
      have : t.hash ∈ (updStatus old (t :: ts)).keys := (updStatus_keys old _ _).mpr (by simp)
      rw [h] at this; simp [AL.keys] at this
  · intro h; subst h; rfl

/-- idle-since is set exactly while nothing is assigned -/
def IdleInv (s : SC) : Prop := s.status ≠ [] → s.idleAt = none

theorem updIdle_spec (now : Nat) (st : AL SS) (idle : Option Nat) :
    updIdle now st idle =
      if st = [] then (match idle with | some t => some t | none => some now) else none := by
  unfold updIdle
  cases st with
  | nil => cases idle <;> simp [Gen.Sidecar.idleSet, Gen.Sidecar.idleClear]
  | cons p st => simp [Gen.Sidecar.idleSet, Gen.Sidecar.idleClear]; omega

theorem update_idleInv (now : Nat) (s : SC) (req : List Tgt) : IdleInv (update now s req) := by
  intro hne
  unfold update at hne ⊢
  simp only at hne ⊢
  rw [updIdle_spec]; simp [hne]

theorem scrape_idleInv (s : SC) (h : Hash) (r : Option (Int × Int)) (hi : IdleInv s) : IdleInv (scrape s h r) := by
  unfold scrape
  split
  · exact hi
  · rename_i st hg
    intro _
    apply hi
    intro he; rw [he] at hg; cases hg

theorem step_idleInv (s : SC × Nat) (op : Op) (hi : IdleInv s.1) : IdleInv (step s op).1 := by
  cases op with
  | update req => exact update_idleInv _ _ _
  | scrape h r => exact scrape_idleInv _ _ _ hi
  | restart => exact update_idleInv _ _ _

theorem run_idleInv (ops : List Op) : IdleInv (run ops).1 := by
  unfold run
  have : ∀ (ops : List Op) (s : SC × Nat), IdleInv s.1 → IdleInv (ops.foldl step s).1 := by
    intro ops
    induction ops with
    | nil => intro s h; exact h
    | cons op ops ih => intro s h; exact ih _ (step_idleInv s op h)
  exact this ops init (update_idleInv 0 {} [])

end Kvass.Sidecar
