/-
  gcTargets: whatever is deleted from a shard is either no longer discovered or still held by
  another in-sync shard that has scraped it at least `minWait` (= 3) times — and the deleting
  shard itself had scraped it that often.  (core of C01 and C05)
-/
import Kvass.Model.Coord
import Kvass.Proofs.Sites
import Kvass.Proofs.AL
import Kvass.Proofs.ListUtil

namespace Kvass.Coord
open Kvass

/-- shard `j` of `ss` is changeable and holds `h` with status `v` -/
def Holds (ss : List SI) (j : Nat) (h : Hash) (v : St) : Prop :=
  ∃ sj, ss[j]? = some sj ∧ sj.changeable = true ∧ sj.scraping.get h = some v

/-- a surviving entry is the reported one, or the reported in-transfer entry turned back to normal -/
def Rev (v0 v : St) : Prop := v = v0 ∨ (v0.state = .inTransfer ∧ v = revertSt v0)

theorem Rev.times {v0 v : St} (h : Rev v0 v) : v.times = v0.times := by
  rcases h with h | ⟨_, h⟩ <;> subst h <;> rfl

theorem Rev.fields {v0 v : St} (h : Rev v0 v) :
    v.health = v0.health ∧ v.series = v0.series ∧ v.total = v0.total ∧ v.times = v0.times := by
  rcases h with h | ⟨_, h⟩ <;> subst h <;> exact ⟨rfl, rfl, rfl, rfl⟩

theorem Rev.state {v0 v : St} (h : Rev v0 v) : v.state = v0.state ∨ v.state = .normal := by
  rcases h with h | ⟨_, h⟩ <;> subst h
  · exact Or.inl rfl
  · exact Or.inr rfl

theorem revertSt_idem (v : St) : revertSt (revertSt v) = revertSt v := rfl

theorem Rev.revert {v0 v : St} (h : Rev v0 v) (hs : v.state = .inTransfer) : Rev v0 (revertSt v) := by
  rcases h with h | ⟨h0, h⟩
  · subst h; exact Or.inr ⟨hs, rfl⟩
  · subst h; exact Or.inr ⟨h0, rfl⟩

structure GcInv (active : List Hash) (ss0 ss : List SI) : Prop where
  len : ss.length = ss0.length
  same : ∀ (i : Nat) (s : SI), ss[i]? = some s → ∃ s0 : SI, ss0[i]? = some s0 ∧ s.changeable = s0.changeable ∧ s.rt = s0.rt ∧
          (∀ h v, s.scraping.get h = some v → ∃ v0, s0.scraping.get h = some v0 ∧ Rev v0 v) ∧
          (s0.changeable = false → s = s0)
  lost : ∀ (i : Nat) (s0 s : SI) (h : Hash) (v0 : St), ss0[i]? = some s0 → ss[i]? = some s → s0.scraping.get h = some v0 →
          s.scraping.get h = none → h ∈ active →
          3 ≤ v0.times ∧ ∃ j vj, j ≠ i ∧ Holds ss j h vj ∧ 3 ≤ vj.times

theorem gcInv_refl (active : List Hash) (ss : List SI) : GcInv active ss ss where
  len := rfl
  same := fun i s h => ⟨s, h, rfl, rfl, fun _ v hv => ⟨v, hv, Or.inl rfl⟩, fun _ => rfl⟩
  lost := by
    intro i s0 s h v0 h0 h1 hg hn _
    rw [h0] at h1; cases h1
    rw [hg] at hn; cases hn

theorem gcOtherTriggers_spec {o : Opt} {ss : List SI} {i : Nat} {s : SI} {tar : St} {h : Hash}
    (ht : gcOtherTriggers o ss i s tar h = true) :
    ∃ j st, j ≠ i ∧ Holds ss j h st ∧ 3 ≤ st.times := by
  unfold gcOtherTriggers at ht
  rw [List.any_eq_true] at ht
  obtain ⟨⟨os, j⟩, hmem, hc⟩ := ht
  rw [List.mem_zipIdx_iff_getElem?] at hmem
  simp only at hmem hc
  cases hg : os.scraping.get h with
  | none => simp [hg] at hc
  | some st =>
    simp only [hg, Bool.and_eq_true, bne_iff_ne, ne_eq] at hc
    exact ⟨j, st, hc.1.2, ⟨os, hmem, hc.1.1, hg⟩, (Sites.gcOtherOk_iff st).mp hc.2.1⟩

/-- one deletion preserves the invariant -/
theorem gcStep_inv {o : Opt} {active : List Hash} {ss0 ss : List SI} {i : Nat} {s : SI} {h : Hash} {tar : St}
    (inv : GcInv active ss0 ss) (hs : ss[i]? = some s) (hch : s.changeable = true)
    (htar : s.scraping.get h = some tar) (hd : gcDecide o active ss i s h tar = true) :
    GcInv active ss0 (ss.set i { s with scraping := s.scraping.del h }) := by
  -- what the decision tells us when h is active
  have hact : h ∈ active → 3 ≤ tar.times ∧ ∃ j st, j ≠ i ∧ Holds ss j h st ∧ 3 ≤ st.times := by
    intro ha
    unfold gcDecide at hd
    have hc : active.contains h = true := by simpa using ha
    simp only [hc, Bool.not_true, Bool.false_eq_true, if_false] at hd
    split at hd
    · cases hd
    · rename_i hy
      have hy' := (not_congr (Sites.gcYoung_iff tar)).mp hy
      exact ⟨Nat.le_of_not_lt hy', gcOtherTriggers_spec hd⟩
  -- Holds at an index other than i is unaffected
  have holds_ne : ∀ j k v, j ≠ i → Holds ss j k v →
      Holds (ss.set i { s with scraping := s.scraping.del h }) j k v := by
    intro j k v hne ⟨sj, h1, h2, h3⟩
    exact ⟨sj, by rw [getElem?_set_ne' (Ne.symm hne)]; exact h1, h2, h3⟩
  refine ⟨by rw [List.length_set]; exact inv.len, ?_, ?_⟩
  · intro i' s' hs'
    by_cases hi : i = i'
    · subst hi
      rw [getElem?_set_self' hs] at hs'
      cases hs'
      obtain ⟨s0, h0, hc0, hr0, hsub, hnc⟩ := inv.same i s hs
      refine ⟨s0, h0, hc0, hr0, ?_, ?_⟩
      · intro k v hk
        simp only at hk
        rw [AL.get_del] at hk
        split at hk
        · cases hk
        · exact hsub k v hk
      · intro hf; rw [← hc0, hch] at hf; cases hf
    · rw [getElem?_set_ne' hi] at hs'
      exact inv.same i' s' hs'
  · intro i' s0 s' k v0 h0 hs' hg0 hnone hk
    by_cases hi : i = i'
    · subst hi
      rw [getElem?_set_self' hs] at hs'
      cases hs'
      simp only at hnone
      by_cases hkh : h = k
      · subst hkh
        obtain ⟨s0', h0', _, _, hsub, _⟩ := inv.same i s hs
        rw [h0] at h0'; cases h0'
        have ht : tar.times = v0.times := by
          obtain ⟨v0', e, hr⟩ := hsub h tar htar
          rw [hg0] at e; cases e
          exact hr.times
        obtain ⟨h3, j, st, hne, hh, hst⟩ := hact hk
        exact ⟨by omega, j, st, hne, holds_ne j h st hne hh, hst⟩
      · rw [AL.get_del_ne _ _ _ hkh] at hnone
        obtain ⟨h3, j, vj, hne, hh, hvj⟩ := inv.lost i s0 s k v0 h0 hs hg0 hnone hk
        exact ⟨h3, j, vj, hne, holds_ne j k vj hne hh, hvj⟩
    · rw [getElem?_set_ne' hi] at hs'
      obtain ⟨h3, j, vj, hne, hh, hvj⟩ := inv.lost i' s0 s' k v0 h0 hs' hg0 hnone hk
      refine ⟨h3, ?_⟩
      by_cases hji : j = i
      · subst hji
        by_cases hkh : h = k
        · subst hkh
          -- the witness was shard i, which now drops h: take the shard that triggered the deletion
          obtain ⟨_, j2, st, hne2, hh2, hst⟩ := hact hk
          have hj2 : j2 ≠ i' := by
            intro e; subst e
            obtain ⟨sj, e1, _, e3⟩ := hh2
            rw [hs'] at e1; cases e1
            rw [hnone] at e3; cases e3
          exact ⟨j2, st, hj2, holds_ne j2 h st hne2 hh2, hst⟩
        · obtain ⟨sj, e1, e2, e3⟩ := hh
          rw [hs] at e1; cases e1
          refine ⟨j, vj, hne, ⟨_, getElem?_set_self' hs, hch, ?_⟩, hvj⟩
          simp only
          rw [AL.get_del_ne _ _ _ hkh]; exact e3
      · exact ⟨j, vj, hne, holds_ne j k vj hji hh, hvj⟩

/-- turning a partner-less in-transfer copy back to normal preserves the invariant -/
theorem gcRevert_inv {active : List Hash} {ss0 ss : List SI} {i : Nat} {s : SI} {h : Hash} {tar : St}
    (inv : GcInv active ss0 ss) (hs : ss[i]? = some s) (hch : s.changeable = true)
    (htar : s.scraping.get h = some tar) (hst : tar.state = .inTransfer) :
    GcInv active ss0 (ss.set i { s with scraping := s.scraping.set h (revertSt tar) }) := by
  have holds_any : ∀ j k v, Holds ss j k v →
      ∃ v', Holds (ss.set i { s with scraping := s.scraping.set h (revertSt tar) }) j k v' ∧ v'.times = v.times := by
    intro j k v ⟨sj, h1, h2, h3⟩
    by_cases hji : j = i
    · subst hji
      rw [hs] at h1; cases h1
      by_cases hkh : h = k
      · subst hkh
        rw [htar] at h3; cases h3
        exact ⟨revertSt tar, ⟨_, getElem?_set_self' hs, hch, by simp only; rw [AL.get_set]; simp⟩, rfl⟩
      · exact ⟨v, ⟨_, getElem?_set_self' hs, hch, by simp only; rw [AL.get_set_ne _ _ _ _ hkh]; exact h3⟩, rfl⟩
    · exact ⟨v, ⟨sj, by rw [getElem?_set_ne' (Ne.symm hji)]; exact h1, h2, h3⟩, rfl⟩
  refine ⟨by rw [List.length_set]; exact inv.len, ?_, ?_⟩
  · intro i' s' hs'
    by_cases hi : i = i'
    · subst hi
      rw [getElem?_set_self' hs] at hs'
      cases hs'
      obtain ⟨s0, h0, hc0, hr0, hsub, hnc⟩ := inv.same i s hs
      refine ⟨s0, h0, hc0, hr0, ?_, ?_⟩
      · intro k v hk
        simp only at hk
        rw [AL.get_set] at hk
        split at hk
        · rename_i hkh; subst hkh
          cases hk
          obtain ⟨v0, e0, hr⟩ := hsub h tar htar
          exact ⟨v0, e0, hr.revert hst⟩
        · exact hsub k v hk
      · intro hf; rw [← hc0, hch] at hf; cases hf
    · rw [getElem?_set_ne' hi] at hs'
      exact inv.same i' s' hs'
  · intro i' s0 s' k v0 h0 hs' hg0 hnone hk
    have old : ∃ sOld, ss[i']? = some sOld ∧ sOld.scraping.get k = none := by
      by_cases hi : i = i'
      · subst hi
        rw [getElem?_set_self' hs] at hs'
        cases hs'
        refine ⟨s, hs, ?_⟩
        simp only at hnone
        rw [AL.get_set] at hnone
        split at hnone
        · cases hnone
        · exact hnone
      · rw [getElem?_set_ne' hi] at hs'
        exact ⟨s', hs', hnone⟩
    obtain ⟨sOld, hso, hno⟩ := old
    obtain ⟨h3, j, vj, hne, hh, hvj⟩ := inv.lost i' s0 sOld k v0 h0 hso hg0 hno hk
    obtain ⟨v', hh', ht'⟩ := holds_any j k vj hh
    exact ⟨h3, j, v', hne, hh', by omega⟩

theorem gcShard_inv {o : Opt} {active : List Hash} {ss0 : List SI} (i : Nat) :
    ∀ (hs : List Hash) (ss : List SI), GcInv active ss0 ss →
      (∀ s, ss[i]? = some s → s.changeable = true) → GcInv active ss0 (gcShard o active i hs ss) := by
  intro hs
  induction hs with
  | nil => intro ss inv _; simpa [gcShard] using inv
  | cons h hs ih =>
    intro ss inv hch
    unfold gcShard
    split
    · exact inv
    · rename_i s hs'
      split
      · exact ih ss inv hch
      · rename_i tar htar
        split
        · rename_i hd
          apply ih
          · exact gcStep_inv inv hs' (hch s hs') htar hd
          · intro s2 h2
            rw [getElem?_set_self' hs'] at h2
            cases h2
            exact hch s hs'
        · split
          · rename_i hr
            have hst : tar.state = .inTransfer := by
              unfold gcReverts at hr
              simp only [Bool.and_eq_true] at hr
              have := hr.2
              unfold Gen.gcRevert at this
              simp only [Bool.and_eq_true, decide_eq_true_eq] at this
              exact this.2
            apply ih
            · exact gcRevert_inv inv hs' (hch s hs') htar hst
            · intro s2 h2
              rw [getElem?_set_self' hs'] at h2
              cases h2
              exact hch s hs'
          · exact ih ss inv hch

theorem gcFrom_inv {o : Opt} {active : List Hash} {ss0 : List SI} :
    ∀ (is : List Nat) (ss : List SI), GcInv active ss0 ss → GcInv active ss0 (gcFrom o active is ss) := by
  intro is
  induction is with
  | nil => intro ss inv; simpa [gcFrom] using inv
  | cons i is ih =>
    intro ss inv
    unfold gcFrom
    split
    · exact ih ss inv
    · rename_i s hs
      split
      · rename_i hch
        apply ih
        apply gcShard_inv i _ ss inv
        intro s2 h2; rw [hs] at h2; cases h2; exact hch
      · exact ih ss inv

/-- the invariant holds between the reported state and the state after `gcTargets` -/
theorem gc_inv (o : Opt) (active : List Hash) (ss : List SI) : GcInv active ss (gc o active ss) := by
  unfold gc
  exact gcFrom_inv _ ss (gcInv_refl active ss)

end Kvass.Coord
