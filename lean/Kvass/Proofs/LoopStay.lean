/-
  "… and further cycles then change nothing": the state the repairing step leads to is quiet as soon
  as it is calm and fully placed, hence stable for any number of further cycles.
-/
import Kvass.Proofs.LoopSettle2

namespace Kvass.Sidecar
open Kvass

theorem updStatus_keys_nodup (old : AL SS) : ∀ (ts : List Tgt) (acc : AL SS), acc.keys.Nodup →
    (ts.foldl (updOne old) acc).keys.Nodup := by
  intro ts
  induction ts with
  | nil => intro acc h; simpa using h
  | cons t ts ih =>
    intro acc h
    simp only [List.foldl_cons]
    apply ih
    unfold updOne
    simp only
    exact AL.keys_set_nodup _ _ _ h

theorem update_keys_nodup (now : Nat) (s : SC) (req : List Tgt) : (update now s req).status.keys.Nodup := by
  unfold update updStatus
  simp only
  exact updStatus_keys_nodup s.status req [] (by simp [AL.keys])

theorem update_idle_of_empty (now : Nat) (s : SC) (req : List Tgt) (h : (update now s req).status = []) :
    (update now s req).idleAt.isSome = true := by
  unfold update at h ⊢
  simp only at h ⊢
  rw [updIdle_spec, h]
  cases s.idleAt <;> simp

end Kvass.Sidecar

namespace Kvass.Loop
open Kvass Kvass.Coord Kvass.Spec

/-- every running sidecar after the delivered requests: distinct keys, idle-since set when empty -/
theorem applyOutcome_shape (w : World) (out : Outcome)
    (hkeys : ∀ sh ∈ w.running, (statusOf sh).keys.Nodup)
    (hidle : ∀ sh ∈ w.running, sh.sc.status = [] → sh.sc.idleAt.isSome = true) :
    ∀ sh' ∈ (applyOutcome w [] out).running, (statusOf sh').keys.Nodup ∧ (sh'.sc.status = [] → sh'.sc.idleAt.isSome = true) := by
  intro sh' hm
  unfold World.running applyOutcome at hm
  simp only at hm
  obtain ⟨i, hi⟩ := List.getElem?_of_mem hm
  have hilt : i < w.replicas := by
    rcases Nat.lt_or_ge i w.replicas with hl | hl
    · exact hl
    · rw [List.getElem?_take_eq_none hl] at hi; cases hi
  rw [List.getElem?_take_of_lt hilt] at hi
  by_cases hlen : i < w.running.length
  · rw [List.getElem?_append_left (by simp [List.length_zipIdx, hlen])] at hi
    rw [List.getElem?_map] at hi
    have hz : w.running.zipIdx[i]? = some (w.running[i], i) := by
      rw [List.getElem?_zipIdx]; simp [hlen]
    rw [hz] at hi
    simp only [Option.map_some, Option.some.injEq] at hi
    have hmem : w.running[i] ∈ w.running := List.getElem_mem hlen
    have base := hkeys _ hmem
    have basei := hidle _ hmem
    -- either untouched or updated
    have cases2 : sh' = w.running[i] ∨ ∃ req, sh' = ⟨Sidecar.update (w.running[i]).clock (w.running[i]).sc req, (w.running[i]).clock + 1⟩ := by
      rw [← hi]
      split
      · unfold applyShard
        split
        · exact Or.inr ⟨_, rfl⟩
        · exact Or.inl rfl
      · exact Or.inl rfl
    rcases cases2 with rfl | ⟨req, rfl⟩
    · exact ⟨base, basei⟩
    · refine ⟨?_, Sidecar.update_idle_of_empty _ _ _⟩
      unfold statusOf
      rw [AL.keys_map]
      exact Sidecar.update_keys_nodup _ _ _
  · -- beyond the running shards there is nothing below `replicas`
    exfalso
    unfold World.running at hlen
    simp only [List.length_take] at hlen
    have : w.shards.length ≤ i := by omega
    rw [List.getElem?_append_right (by simp [List.length_zipIdx]; unfold World.running; simp [List.length_take]; omega)] at hi
    simp only [List.length_map, List.length_zipIdx, List.getElem?_drop] at hi
    rw [List.getElem?_eq_none (by unfold World.running; simp [List.length_take]; omega)] at hi
    cases hi

end Kvass.Loop

namespace Kvass.Loop
open Kvass Kvass.Coord Kvass.Spec

/-- in a calm cycle the step is the delivery of the requests (the requested size is the current one) -/
theorem calm_step_eq (swr : Swr) (env : Env) (w : World) (sc : Sched) (hrep : w.replicas ≤ w.shards.length)
    (hc : Calm swr (inputOf env w [] false)) :
    step swr env w (.cycle sc [] false) = applyOutcome w [] (cycle swr sc (inputOf env w [] false)) := by
  obtain ⟨_, hscales, _, _⟩ := calm_cycle swr sc (inputOf env w [] false) hc
  have hrl := running_length w hrep
  have hpl := inputOf_probes_length env w [] false
  have hw1len : (applyOutcome w [] (cycle swr sc (inputOf env w [] false))).shards.length = w.shards.length := by
    unfold applyOutcome
    simp only [List.length_append, List.length_map, List.length_zipIdx, List.length_drop]
    rw [hrl]; omega
  show (cycleStep swr env w sc [] false).1 = _
  unfold cycleStep
  simp only [Bool.false_eq_true, if_false, hscales, List.foldl_cons, List.foldl_nil]
  have hn : ((inputOf env w [] false).probes.length : Int).toNat =
      (applyOutcome w [] (cycle swr sc (inputOf env w [] false))).replicas := by
    rw [hpl, hrl]; unfold applyOutcome; simp
  rw [hn]
  apply resize_self
  rw [hw1len]
  unfold applyOutcome; simpa using hrep

/-- **recovers in one cycle, and further cycles then change nothing.**  From a settled state with any
    mixture of lost hand-overs, pending hand-overs and normal-state duplicates: after one fault-free
    step everything is repaired (`loop_settles2`), and if the repaired state is calm and every
    discovered target is held (or unplaceable) — which is what "settled" means once the duplicates'
    load is gone — any number of further fault-free cycles, with arbitrary schedules, leave the
    StatefulSet's size, the discovered set and every sidecar's statuses and idle time unchanged. -/
theorem loop_recovers_and_stays (swr : Swr) (env : Env) (w : World) (sc : Sched) (r : Settled2 swr env w)
    (hidle : ∀ sh ∈ w.running, sh.sc.status = [] → sh.sc.idleAt.isSome = true)
    (hcalm' : env.opt.disableAlleviate = true ∨
      CalmSS swr env.opt (infos0 (inputOf env (step swr env w (.cycle sc [] false)) [] false)))
    (hplaced' : ∀ h ∈ w.active,
      (scrapingSetOf (infos0 (inputOf env (step swr env w (.cycle sc [] false)) [] false))).contains h = true ∨
      Gen.assignSkip (globalOf (infos0 (inputOf env (step swr env w (.cycle sc [] false)) [] false)) w.explore h) = true ∨
      Gen.tooBig env.opt (globalOf (infos0 (inputOf env (step swr env w (.cycle sc [] false)) [] false)) w.explore h) = true) :
    ∀ scs : List Sched,
      Unchanged (step swr env w (.cycle sc [] false)) (cycles swr env (step swr env w (.cycle sc [] false)) scs) := by
  have hc := settled2_calm swr env w r
  have heq := calm_step_eq swr env w sc r.rep hc
  obtain ⟨hrepl, hnorm, hsingle, _⟩ := loop_settles2_converged swr env w sc r
  obtain ⟨_, hact', hall⟩ := loop_settles2 swr env w sc r
  generalize hw' : step swr env w (.cycle sc [] false) = w' at *
  have hrl := running_length w r.rep
  have hexp' : w'.explore = w.explore := by rw [heq]; unfold applyOutcome; rfl
  have hlen' : w'.shards.length = w.shards.length := by
    rw [heq]
    unfold applyOutcome
    simp only [List.length_append, List.length_map, List.length_zipIdx, List.length_drop]
    rw [hrl]; have := r.rep; omega
  have hrep' : w'.replicas ≤ w'.shards.length := by rw [hrepl, hlen']; exact r.rep
  have hrl' := running_length w' hrep'
  have hshape := applyOutcome_shape w (cycle swr sc (inputOf env w [] false)) r.keys hidle
  rw [← heq] at hshape
  -- a running shard of w' is shard i of w' for some i below the old size
  have hrun' : ∀ (i : Nat) (sh' : Shard), w'.running[i]? = some sh' → i < w.replicas ∧ w'.shards[i]? = some sh' := by
    intro i sh' hi
    unfold World.running at hi
    have hlt : i < w'.replicas := by
      rcases Nat.lt_or_ge i w'.replicas with hl | hl
      · exact hl
      · rw [List.getElem?_take_eq_none hl] at hi; cases hi
    rw [List.getElem?_take_of_lt hlt] at hi
    exact ⟨by rw [← hrepl]; exact hlt, hi⟩
  have hpl' : (inputOf env w' [] false).probes.length = w.replicas := by
    rw [inputOf_probes_length, hrl', hrepl]
  have hq' : Quiet swr (inputOf env w' [] false) := by
    refine ⟨?_, ?_, ?_, ?_, hcalm', ?_, ?_, ?_, Or.inl r.noDown⟩
    · intro p hp
      rw [probes_inputOf] at hp
      obtain ⟨sh, _, rfl⟩ := List.mem_map.mp hp
      exact ⟨rfl, rfl, statusOf sh, rtOf env sh, rfl, rfl⟩
    · intro p hp
      rw [probes_inputOf] at hp
      obtain ⟨sh', hm, rfl⟩ := List.mem_map.mp hp
      rw [reported_probeOf]
      exact (hshape sh' hm).1
    · intro i s hs h v hv
      obtain ⟨sh', hrun, rfl⟩ := infos0_running env w' i s hs
      obtain ⟨hilt, hsh'⟩ := hrun' i sh' hrun
      refine ⟨?_, hnorm i sh' h v hilt hsh' hv⟩
      -- a reported key of w' was a reported key of w, hence discovered
      have hrunw : w.running[i]? = some w.running[i] := by
        have : i < w.running.length := by rw [hrl]; exact hilt
        simp [this]
      obtain ⟨sh'', hs'', hk, _⟩ := hall i _ hrunw
      rw [hsh'] at hs''; cases hs''
      obtain ⟨v0, hv0, _, _⟩ := (hk h).mp (AL.get_some_mem_keys _ _ _ hv)
      have : (inputOf env w' [] false).active = w.active := hact'
      rw [this]
      simpa using r.active _ (List.mem_of_getElem? hrunw) h v0 hv0
    · intro i j si sj h hi hj hij hne
      obtain ⟨shi, hruni, rfl⟩ := infos0_running env w' i si hi
      obtain ⟨shj, hrunj, rfl⟩ := infos0_running env w' j sj hj
      obtain ⟨hilt, hshi⟩ := hrun' i shi hruni
      obtain ⟨hjlt, hshj⟩ := hrun' j shj hrunj
      cases hg : (statusOf shj).get h with
      | none => rfl
      | some vj =>
        exfalso
        cases hgi : (statusOf shi).get h with
        | none => exact hne hgi
        | some vi =>
          exact hsingle i j shi shj h hilt hjlt hij hshi hshj ((AL.has_iff _ _).mpr ⟨vi, hgi⟩) ((AL.has_iff _ _).mpr ⟨vj, hg⟩)
    · intro h hh
      have e1 : (inputOf env w' [] false).active = w.active := hact'
      have e2 : (inputOf env w' [] false).explore = w.explore := hexp'
      rw [e1] at hh
      rw [e2]
      exact hplaced' h hh
    · show env.opt.minShard ≤ _
      rw [hpl']; exact r.minOk
    · show _ ≤ env.opt.maxShard
      rw [hpl']; exact r.maxOk
  intro scs
  exact loop_stable_n swr env r.noDown scs w' hq' hrep' (fun sh' hm => (hshape sh' hm).2)

end Kvass.Loop
