/-
  C05, move step: a target newly given to a shard while another in-sync shard reports it is in
  normal state on the destination, and some in-sync reporter keeps it, told to hold it in transfer.
  Needs more than `TGuard`: relief takes the first shard with room, a relief source has no room, and
  scale-down is first-fit — so a target never moves twice in one cycle.
-/
import Kvass.Proofs.CoordFit

namespace Kvass.Coord
open Kvass Kvass.Spec

/-- the series-with-rate function never rounds a limit down (rates ≥ 1.0) -/
def SwrOK (swr : Swr) (o : Opt) : Prop :=
  o.maxProc ≤ swr o.maxProc 10 ∧ ∀ p ∈ Gen.headThresholds, o.maxHead ≤ swr o.maxHead p.1

theorem procTrigger_full {swr : Swr} {o : Opt} (hs : SwrOK swr o) (r : Rt)
    (h : Gen.procTrigger swr o r = true) : o.maxProc ≤ r.proc := by
  unfold Gen.procTrigger at h
  simp only [decide_eq_true_eq] at h
  have := hs.1
  omega

theorem headThreshold_full {swr : Swr} {o : Opt} (hs : SwrOK swr o) (r : Rt) (ex : Rate)
    (h : headThreshold swr o r = some ex) : o.maxHead ≤ r.head := by
  unfold headThreshold at h
  obtain ⟨⟨mx, ex'⟩, hm, hx⟩ := List.exists_of_findSome?_eq_some h
  simp only at hx
  split at hx
  · rename_i ht
    unfold Gen.headTrigger at ht
    simp only [decide_eq_true_eq] at ht
    have := hs.2 (mx, ex') hm
    simp only at this
    omega
  · cases hx

theorem notFit_mono {o : Opt} {r r' : Rt} {a b : Int} (h : ¬ FitB o r a b)
    (h1 : r.head ≤ r'.head) (h2 : r.proc ≤ r'.proc) : ¬ FitB o r' a b := by
  intro hf
  apply h
  refine ⟨fun hz => ?_, ?_⟩
  · have := hf.1 hz; omega
  · have := hf.2; omega

theorem notFit_of_procFull {o : Opt} {r : Rt} {a b : Int} (h : o.maxProc ≤ r.proc) (hb : 0 ≤ b) : ¬ FitB o r a b := by
  intro hf; have := hf.2; omega

theorem notFit_of_headFull {o : Opt} {r : Rt} {a b : Int} (hz : o.maxHead ≠ 0) (h : o.maxHead ≤ r.head) (ha : 0 ≤ a) :
    ¬ FitB o r a b := by
  intro hf; have := hf.1 hz; omega

/-- `h` is on shard `d` only since this cycle, and not as a first assignment -/
def MovedIn (inp : Input) (d : Nat) (h : Hash) : Prop :=
  h ∈ inp.active ∧ C04.isFirstAssign inp h = false ∧ ∀ p, inp.probes[d]? = some p → (reported p).has h = false

/-- an in-sync shard that reports `h` still holds it, in transfer -/
def Witness (inp : Input) (c : CS) (d : Nat) (h : Hash) : Prop :=
  ∃ (q : Nat) (sq : SI) (w : St) (pq : Probe), q ≠ d ∧ c.shards[q]? = some sq ∧ sq.changeable = true ∧
    inp.probes[q]? = some pq ∧ (reported pq).has h = true ∧ sq.scraping.get h = some w ∧ w.state = .inTransfer

/-- no shard before `d` has room for `v` -/
def Stuck (o : Opt) (c : CS) (d : Nat) (v : St) : Prop :=
  ∀ j' s', j' < d → c.shards[j']? = some s' → s'.changeable = true → ¬ FitB o s'.rt v.series v.total

structure MSInv (inp : Input) (c : CS) : Prop where
  st : ∀ (d : Nat) (s : SI) (h : Hash) (v : St), c.shards[d]? = some s → s.scraping.get h = some v → MovedIn inp d h →
    v.state = .normal ∧ Witness inp c d h ∧ Stuck inp.opt c d v

end Kvass.Coord

namespace Kvass.Coord
open Kvass Kvass.Spec

/-! ### the shards after a transfer -/

theorem transfer_shard {k : Nat} {c : CS} {i j : Nat} {h : Hash} {f t : SI} {tar : St}
    (hf : c.shards[i]? = some f) (ht : c.shards[j]? = some t) (hg : f.scraping.get h = some tar) (hji : j ≠ i)
    (m : Nat) (s' : SI) (hs : (transfer k c i j h).shards[m]? = some s') :
    (m = i ∧ s' = tSrc f h tar) ∨ (m = j ∧ s' = tDst t h tar) ∨ (m ≠ i ∧ m ≠ j ∧ c.shards[m]? = some s') := by
  rw [transfer_eq hf ht hg] at hs
  simp only at hs
  rw [transfer_get hf ht hji] at hs
  by_cases hmi : m = i
  · simp only [hmi, if_true, Option.some.injEq] at hs
    exact Or.inl ⟨hmi, hs.symm⟩
  · by_cases hmj : m = j
    · simp only [hmi, hmj, if_false, if_true, Option.some.injEq] at hs
      rw [if_neg (by rw [← hmj]; exact hmi)] at hs
      simp only [if_true, Option.some.injEq] at hs
      exact Or.inr (Or.inl ⟨hmj, hs.symm⟩)
    · simp only [hmi, hmj, if_false] at hs
      exact Or.inr (Or.inr ⟨hmi, hmj, hs⟩)

theorem transfer_shard_at {k : Nat} {c : CS} {i j : Nat} {h : Hash} {f t : SI} {tar : St}
    (hf : c.shards[i]? = some f) (ht : c.shards[j]? = some t) (hg : f.scraping.get h = some tar) (hji : j ≠ i)
    (m : Nat) :
    (transfer k c i j h).shards[m]? =
      if m = i then some (tSrc f h tar) else if m = j then some (tDst t h tar) else c.shards[m]? := by
  rw [transfer_eq hf ht hg]
  simp only
  exact transfer_get hf ht hji m

end Kvass.Coord

namespace Kvass.Coord
open Kvass Kvass.Spec

/-! ### a transfer keeps the move-step invariant -/

theorem msInv_transfer {inp : Input} {k : Nat} {c : CS} {i j : Nat} {h : Hash}
    (hfp : FP inp c) (hms : MSInv inp c) (hg : TGuard inp.opt k c i j h)
    (hx : XGuard inp.opt (fun r => inp.opt.maxProc ≤ r.proc) (fun r => inp.opt.maxHead ≤ r.head)
      (Gen.firstFit inp.opt = true) k c i j h) :
    MSInv inp (transfer k c i j h) := by
  obtain ⟨f, t, tar, hf, ht, hget, hfc, htc, hji, hstate, _, hfit, hk3, hkind⟩ := hg
  obtain ⟨hx1, hx2, hx3, hx4⟩ := hx f tar hf hget
  have hpos := hfp.2.pos i f h tar hf hget
  have hat := transfer_shard_at (k := k) hf ht hget hji
  have hsh := transfer_shard (k := k) hf ht hget hji
  -- (A) the source did not get `h` in this cycle
  have hA : ¬ MovedIn inp i h := by
    intro hm
    obtain ⟨_, _, hstuck⟩ := hms.st i f h tar hf hget hm
    rcases hfp.2.logged i f h tar hf hget with ⟨p, hp, hr⟩ | ⟨pl, hpl, hd, _⟩
    · rw [hm.2.2 p hp] at hr; cases hr
    · have hb := hfp.2.below i f pl hf hpl hd
      rcases hkind with rfl | rfl | rfl
      · have := hx1 rfl; have := hb.2; omega
      · obtain ⟨h2, hz⟩ := hx2 rfl; have := hb.1 hz; omega
      · exact hstuck j t (hk3 rfl) ht htc hfit
  -- (B) so, if `h` is a discovered target somebody reports, the source reports it
  have hrep : h ∈ inp.active → C04.isFirstAssign inp h = false →
      ∃ pi, inp.probes[i]? = some pi ∧ (reported pi).has h = true := by
    intro ha hnf
    obtain ⟨pi, hpi, _⟩ := hfp.1.flags i f hf
    cases hh : (reported pi).has h with
    | true => exact ⟨pi, hpi, hh⟩
    | false =>
      exfalso
      exact hA ⟨ha, hnf, fun p hp => by rw [hpi] at hp; cases hp; exact hh⟩
  -- (C) loads only grow, flags stay
  have hC : ∀ (m : Nat) (s' : SI), (transfer k c i j h).shards[m]? = some s' →
      ∃ s0 : SI, c.shards[m]? = some s0 ∧ s'.changeable = s0.changeable ∧ s0.rt.head ≤ s'.rt.head ∧ s0.rt.proc ≤ s'.rt.proc := by
    intro m s' hs'
    rcases hsh m s' hs' with ⟨rfl, rfl⟩ | ⟨rfl, rfl⟩ | ⟨_, _, h0⟩
    · exact ⟨f, hf, rfl, Int.le_refl _, Int.le_refl _⟩
    · refine ⟨t, ht, rfl, ?_, ?_⟩
      · show t.rt.head ≤ Gen.transferHead t.rt tar
        rw [Sites.transferHead_eq]; omega
      · show t.rt.proc ≤ Gen.transferProc t.rt tar
        rw [Sites.transferProc_eq]; omega
    · exact ⟨s', h0, rfl, Int.le_refl _, Int.le_refl _⟩
  -- (D) being stuck persists
  have hD : ∀ d v, Stuck inp.opt c d v → Stuck inp.opt (transfer k c i j h) d v := by
    intro d v hst j' s' hlt hs' hch
    obtain ⟨s0, h0, hfl, hh1, hh2⟩ := hC j' s' hs'
    exact notFit_mono (hst j' s0 hlt h0 (by rw [← hfl]; exact hch)) hh1 hh2
  -- (E) witnesses persist, or are replaced by the source
  have hW : ∀ d h', Witness inp c d h' → h' ∈ inp.active → C04.isFirstAssign inp h' = false → (h' = h → d ≠ i) →
      Witness inp (transfer k c i j h) d h' := by
    intro d h' ⟨q, sq, w, pq, hqd, hsq, hqc, hpq, hrq, hgw, hwst⟩ ha hnf hdi
    by_cases hqi : q = i
    · have e : sq = f := by rw [hqi, hf] at hsq; exact (Option.some.inj hsq).symm
      rw [e] at hqc hgw
      refine ⟨i, tSrc f h tar, if h = h' then { tar with state := .inTransfer } else w, pq, hqi ▸ hqd, ?_, hqc, hqi ▸ hpq, hrq, ?_, ?_⟩
      · rw [hat]; simp
      · unfold tSrc; simp only; rw [AL.get_set]
        split
        · rfl
        · exact hgw
      · split
        · rfl
        · exact hwst
    · by_cases hqj : q = j
      · have e : sq = t := by rw [hqj, ht] at hsq; exact (Option.some.inj hsq).symm
        rw [e] at hqc hgw
        by_cases hh : h = h'
        · subst hh
          obtain ⟨pi, hpi, hri⟩ := hrep ha hnf
          refine ⟨i, tSrc f h tar, { tar with state := .inTransfer }, pi, Ne.symm (hdi rfl), ?_, hfc, hpi, hri, ?_, rfl⟩
          · rw [hat]; simp
          · unfold tSrc; simp only; rw [AL.get_set]; simp
        · refine ⟨j, tDst t h tar, w, pq, hqj ▸ hqd, ?_, hqc, hqj ▸ hpq, hrq, ?_, hwst⟩
          · rw [hat]; simp [hji]
          · unfold tDst; simp only; rw [AL.get_set]; simp [hh]; exact hgw
      · refine ⟨q, sq, w, pq, hqd, ?_, hqc, hpq, hrq, hgw, hwst⟩
        rw [hat]; simp [hqi, hqj]; exact hsq
  constructor
  intro d s h' v hs hv hm
  rcases hsh d s hs with ⟨rfl, rfl⟩ | ⟨rfl, rfl⟩ | ⟨hdi, hdj, h0⟩
  · -- the source
    unfold tSrc at hv; simp only at hv; rw [AL.get_set] at hv
    split at hv
    · rename_i e; subst e; exact absurd hm hA
    · rename_i hne
      obtain ⟨h1, h2, h3⟩ := hms.st d f h' v hf hv hm
      exact ⟨h1, hW d h' h2 hm.1 hm.2.1 (fun e => absurd e.symm hne), hD d v h3⟩
  · -- the destination
    unfold tDst at hv; simp only at hv; rw [AL.get_set] at hv
    split at hv
    · rename_i e; subst e
      cases hv
      refine ⟨hstate, ?_, ?_⟩
      · obtain ⟨pi, hpi, hri⟩ := hrep hm.1 hm.2.1
        refine ⟨i, tSrc f h tar, { tar with state := .inTransfer }, pi, Ne.symm hji, ?_, hfc, hpi, hri, ?_, rfl⟩
        · rw [hat]; simp
        · unfold tSrc; simp only; rw [AL.get_set]; simp
      · intro j' s' hlt hs' hch
        rcases hsh j' s' hs' with ⟨rfl, rfl⟩ | ⟨rfl, _⟩ | ⟨hne1, _, h0'⟩
        · show ¬ FitB inp.opt f.rt tar.series tar.total
          rcases hkind with rfl | rfl | rfl
          · exact notFit_of_procFull (hx1 rfl) hpos.2
          · obtain ⟨h2, hz⟩ := hx2 rfl
            exact notFit_of_headFull hz h2 hpos.1
          · have := hk3 rfl; omega
        · omega
        · apply hx4 _ j' s' hlt hne1 h0' hch
          rcases hkind with rfl | rfl | rfl
          · exact Or.inl rfl
          · exact Or.inr (Or.inl rfl)
          · exact Or.inr (Or.inr (hx3 rfl))
    · rename_i hne
      obtain ⟨h1, h2, h3⟩ := hms.st d t h' v ht hv hm
      exact ⟨h1, hW d h' h2 hm.1 hm.2.1 (fun e => absurd e.symm hne), hD d v h3⟩
  · obtain ⟨h1, h2, h3⟩ := hms.st d s h' v h0 hv hm
    exact ⟨h1, hW d h' h2 hm.1 hm.2.1 (fun _ => hdi), hD d v h3⟩

end Kvass.Coord

namespace Kvass.Coord
open Kvass Kvass.Spec

/-! ### first assignments, the start, the whole cycle -/

theorem msInv_place {inp : Input} {glob : Hash → St} {c : CS} {j : Nat} {h : Hash}
    (hpos : 0 ≤ (glob h).series ∧ 0 ≤ (glob h).total)
    (hfp : FP inp c) (hms : MSInv inp c) (hg : PGuard inp.opt c j h (glob h)) :
    MSInv inp (place 0 c j h (glob h)) := by
  obtain ⟨t, ht, _, hnone, _, _, _⟩ := hg
  have hat : ∀ m, (place 0 c j h (glob h)).shards[m]? = if m = j then some (pDst t h (glob h)) else c.shards[m]? := by
    intro m; rw [place_eq ht]; simp only; exact place_get ht m
  have hC : ∀ (m : Nat) (s' : SI), (place 0 c j h (glob h)).shards[m]? = some s' →
      ∃ s0 : SI, c.shards[m]? = some s0 ∧ s'.changeable = s0.changeable ∧ s0.rt.head ≤ s'.rt.head ∧ s0.rt.proc ≤ s'.rt.proc ∧
        ∀ k v, k ≠ h → s'.scraping.get k = some v → s0.scraping.get k = some v := by
    intro m s' hs'
    rw [hat] at hs'
    by_cases hmj : m = j
    · simp only [hmj, if_true, Option.some.injEq] at hs'
      subst hs'
      refine ⟨t, by rw [hmj]; exact ht, rfl, ?_, ?_, ?_⟩
      · show t.rt.head ≤ Gen.placeHead t.rt (glob h)
        rw [Sites.placeHead_eq]; omega
      · show t.rt.proc ≤ Gen.placeProc t.rt (glob h)
        rw [Sites.placeProc_eq]; omega
      · intro k v hk hv
        unfold pDst at hv; simp only at hv
        rw [AL.get_set_ne _ _ _ _ (Ne.symm hk)] at hv
        exact hv
    · simp only [hmj, if_false] at hs'
      exact ⟨s', hs', rfl, Int.le_refl _, Int.le_refl _, fun _ _ _ hv => hv⟩
  constructor
  intro d s h' v hs hv hm
  have hne : h' ≠ h := by
    intro e; subst e
    -- a discovered target somebody reports is held by somebody: it cannot be first-assigned
    have hany : (inp.probes.any fun p => (reported p).has h') = true := by
      have := hm.2.1
      unfold C04.isFirstAssign at this
      cases hh : (inp.probes.any fun p => (reported p).has h') with
      | true => rfl
      | false => simp [hh] at this
    obtain ⟨p, hpm, hr⟩ := List.any_eq_true.mp hany
    obtain ⟨x, hx⟩ := List.getElem?_of_mem hpm
    obtain ⟨y, sy, hy, hgy⟩ := hfp.1.kept x p h' hx hr hm.1
    exact hgy (hnone sy (List.mem_of_getElem? hy))
  obtain ⟨s0, h0, _, _, _, hent⟩ := hC d s hs
  obtain ⟨h1, ⟨q, sq, w, pq, hqd, hsq, hqc, hpq, hrq, hgw, hwst⟩, h3⟩ := hms.st d s0 h' v h0 (hent h' v hne hv) hm
  refine ⟨h1, ?_, ?_⟩
  · by_cases hqj : q = j
    · have e : sq = t := by rw [hqj, ht] at hsq; exact (Option.some.inj hsq).symm
      rw [e] at hqc hgw
      refine ⟨j, pDst t h (glob h), w, pq, hqj ▸ hqd, by rw [hat]; simp, hqc, hqj ▸ hpq, hrq, ?_, hwst⟩
      unfold pDst; simp only
      rw [AL.get_set_ne _ _ _ _ (Ne.symm hne)]; exact hgw
    · exact ⟨q, sq, w, pq, hqd, by rw [hat]; simp [hqj]; exact hsq, hqc, hpq, hrq, hgw, hwst⟩
  · intro j' s' hlt hs' hch
    obtain ⟨s0', h0', hfl, hh1, hh2, _⟩ := hC j' s' hs'
    exact notFit_mono (h3 j' s0' hlt h0' (by rw [← hfl]; exact hch)) hh1 hh2

theorem msInv_start (inp : Input) (hok : SizesOK inp) : MSInv inp (startCS inp) := by
  constructor
  intro d s h v hs hv hm
  exfalso
  rcases (fitInv_start inp hok).logged d s h v hs hv with ⟨p, hp, hr⟩ | ⟨pl, hpl, _⟩
  · rw [hm.2.2 p hp] at hr; cases hr
  · have : (startCS inp).log = [] := rfl
    rw [this] at hpl; cases hpl

/-- accounting, provenance and the move-step invariant together -/
def FPM (inp : Input) (c : CS) : Prop := FP inp c ∧ MSInv inp c

theorem cycle_fpm (swr : Swr) (sc : Sched) (inp : Input) (hok : SizesOK inp) (hsw : SwrOK swr inp.opt)
    (hne : stopsEarly inp = false) : FPM inp (cycle swr sc inp).cs := by
  have hfp := fp_presA inp (globalOf (infos0 inp) inp.explore) (globalOf_pos inp hok)
      (fun h hfa e he => by
        rw [globalOf_firstAssign inp h hfa e he]; exact ⟨rfl, rfl⟩)
  refine cycle_presX (P := FPM inp) (Q1 := fun r => inp.opt.maxProc ≤ r.proc) (Q2 := fun r => inp.opt.maxHead ≤ r.head)
    (D := Gen.firstFit inp.opt = true) swr sc inp ?_ (procTrigger_full hsw) (headThreshold_full hsw)
    (fun h => by simpa [Gen.scaleDownOn, Gen.firstFit] using h) ⟨⟨provInv_start inp, fitInv_start inp hok⟩, msInv_start inp hok⟩ hne
  refine ⟨⟨?_, ?_⟩, ?_⟩
  · intro k c i j h hc hg hx
    exact ⟨hfp.transfer k c i j h hc.1 hg, msInv_transfer hc.1 hc.2 hg hx⟩
  · intro c hc
    exact ⟨hfp.crash c hc.1, ⟨hc.2.st⟩⟩
  · intro c j h hc hg
    exact ⟨hfp.place c j h hc.1 hg, msInv_place (globalOf_pos inp hok h) hc.1 hc.2 hg⟩

end Kvass.Coord

namespace Kvass.Coord
open Kvass Kvass.Spec

/-- if one in-sync shard was sent its plan, every in-sync shard's requests are reads + plan -/
theorem reqs_apply_all (swr : Swr) (sc : Sched) (inp : Input) {q : Nat} {p : Probe} {s : SI}
    (hp : inp.probes[q]? = some p)
    (h2 : (cycle swr sc inp).reqs[q]? = some ((getInfo p).2 ++ applyReqs inp.active p s)) (hsc : s.changeable = true)
    {d : Nat} {pd : Probe} {sd : SI} (hpd : inp.probes[d]? = some pd)
    (hsd : (cycle swr sc inp).final[d]? = some sd) (hcd : sd.changeable = true) :
    (cycle swr sc inp).reqs[d]? = some ((getInfo pd).2 ++ applyReqs inp.active pd sd) := by
  rcases reqs_cases swr sc inp hpd with h1 | ⟨_, s2, hs2, h22⟩
  · exfalso
    rcases cycle_reqs swr sc inp _ rfl with ⟨_, _, hrq⟩ | ⟨_, hrq⟩
    · have hz : (inp.probes.zip (cycle swr sc inp).final)[d]? = some (pd, sd) :=
        List.getElem?_zip_eq_some.mpr ⟨hpd, hsd⟩
      have hap : ((inp.probes.zip (cycle swr sc inp).final).map fun x => applyReqs inp.active x.1 x.2)[d]?
          = some (applyReqs inp.active pd sd) := by rw [List.getElem?_map, hz]; rfl
      have hg1 : (getReqsOf inp)[d]? = some (getInfo pd).2 := by rw [getReqsOf_get, hpd]; rfl
      rw [hrq, zipmap_get _ _ _ d _ _ hg1 hap] at h1
      have := Option.some.inj h1
      have hlen := congrArg List.length this
      simp only [List.length_append] at hlen
      have : (applyReqs inp.active pd sd).length = 0 := by omega
      unfold applyReqs at this
      simp only [hcd, Bool.not_true, Bool.false_eq_true, if_false] at this
      split at this
      · split at this <;> simp at this
      · simp at this
    · rw [hrq, getReqsOf_get, hp] at h2
      simp only [Option.map_some, Option.some.injEq] at h2
      have hlen := congrArg List.length h2
      simp only [List.length_append] at hlen
      have : (applyReqs inp.active p s).length = 0 := by omega
      unfold applyReqs at this
      simp only [hsc, Bool.not_true, Bool.false_eq_true, if_false] at this
      split at this
      · split at this <;> simp at this
      · simp at this
  · rw [hsd] at hs2; cases hs2; exact h22

/-- **C05, move step**: for every schedule — a target newly given to a shard while another in-sync
    shard reports it is in normal state on the destination, and an in-sync reporter keeps it and is
    told (or already reports) that it is in transfer -/
theorem moveStep_cycle (swr : Swr) (sc : Sched) (inp : Input) (hok : SizesOK inp) (hsw : SwrOK swr inp.opt)
    (hnd : ∀ p ∈ inp.probes, (reported p).keys.Nodup) :
    C05.moveStep inp (Obs.ofOutcome (cycle swr sc inp)) = true := by
  unfold C05.moveStep
  simp only
  rw [List.all_eq_true]
  intro ⟨d, p, r⟩ hm
  obtain ⟨hp, hr⟩ := mem_shardsOf.mp hm
  simp only
  have er : (Obs.ofOutcome (cycle swr sc inp)).reqs = (cycle swr sc inp).reqs := rfl
  rcases reqs_cases swr sc inp hp with h1 | ⟨hne, s, hs, h2⟩
  · have : r = (getInfo p).2 := by rw [er, h1] at hr; exact (Option.some.inj hr).symm
    rw [this, postedBody_getInfo]
  · have hreq : r = (getInfo p).2 ++ applyReqs inp.active p s := by
      rw [er, h2] at hr; exact (Option.some.inj hr).symm
    rw [hreq, postedBody_apply]
    cases hc : (s.changeable && needUpdate (p.status.getD []) (body inp.active s)) with
    | false => simp
    | true =>
    simp only [if_true]
    rw [List.all_eq_true]
    intro ⟨h, st, se⟩ hb
    simp only
    cases hrep : (reported p).has h with
    | true => simp
    | false =>
    cases hfa : C04.isFirstAssign inp h with
    | true => simp
    | false =>
    simp only [Bool.false_or]
    have hsc : s.changeable = true := by
      simp only [Bool.and_eq_true] at hc; exact hc.1
    obtain ⟨hact, v, hmem, hvst⟩ := mem_body hb
    have hnodup := cycle_nodup swr sc inp hne hnd
    have hs' : (cycle swr sc inp).cs.shards[d]? = some s := hs
    have hv : s.scraping.get h = some v := get_of_mem_nodup _ h v (hnodup d s hs') hmem
    have fpm := cycle_fpm swr sc inp hok hsw hne
    have hmv : MovedIn inp d h := ⟨hact, hfa, fun p' hp' => by rw [hp] at hp'; cases hp'; exact hrep⟩
    obtain ⟨hnorm, ⟨q, sq, w, pq, hqd, hsq, hqc, hpq, hrq, hgw, hwst⟩, _⟩ := fpm.2.st d s h v hs' hv hmv
    rw [Bool.and_eq_true]
    refine ⟨by rw [← hvst, hnorm]; rfl, ?_⟩
    have hsq' : (cycle swr sc inp).final[q]? = some sq := hsq
    have hsyncq : inSync pq = true := by
      rw [← final_changeable swr sc inp hne hpq hsq']; exact hqc
    have hrdq := reqs_apply_all swr sc inp hp h2 hsc hpq hsq' hqc
    rw [List.any_eq_true]
    refine ⟨(q, pq, (getInfo pq).2 ++ applyReqs inp.active pq sq), mem_shardsOf.mpr ⟨hpq, by rw [er]; exact hrdq⟩, ?_⟩
    simp only [Bool.and_eq_true, bne_iff_ne, ne_eq]
    have hbodyq : (h, TState.inTransfer, w.series) ∈ body inp.active sq := by
      unfold body planned
      simp only [List.mem_map, List.mem_filter]
      exact ⟨(h, w), ⟨get_some_mem _ _ _ hgw, by simpa using hact⟩, by simp [hwst]⟩
    have hkeysq : h ∈ (reported pq).keys := (AL.mem_keys_iff _ _).mpr ((AL.has_iff _ _).mp hrq)
    refine ⟨⟨⟨⟨hqd, hsyncq⟩, hrq⟩, ?_⟩, ?_⟩
    · -- the reporter keeps it
      unfold afterKeys
      rw [postedBody_apply]
      cases hcq : (sq.changeable && needUpdate (pq.status.getD []) (body inp.active sq)) with
      | true =>
        simp only [if_true]
        split
        · simp only [List.contains_eq_mem, List.mem_map, decide_eq_true_eq]
          exact ⟨(h, TState.inTransfer, w.series), hbodyq, rfl⟩
        · simpa using hkeysq
      | false =>
        simp only [Bool.false_eq_true, if_false]
        simpa using hkeysq
    · rw [postedBody_apply]
      cases hcq : (sq.changeable && needUpdate (pq.status.getD []) (body inp.active sq)) with
      | true =>
        simp only [if_true]
        rw [List.any_eq_true]
        exact ⟨_, hbodyq, by simp⟩
      | false =>
        simp only [Bool.false_eq_true, if_false]
        have hnu : needUpdate (pq.status.getD []) (body inp.active sq) = false := by
          simp only [hqc, Bool.true_and] at hcq; exact hcq
        obtain ⟨r', hr', hst'⟩ := needUpdate_false_entry hnu _ hbodyq
        have hrepq : reported pq = pq.status.getD [] := by
          unfold reported
          have : pq.ready = true := by
            unfold inSync at hsyncq
            simp only [Bool.and_eq_true] at hsyncq
            exact hsyncq.1.1
          simp [this]
        rw [hrepq, hr']
        simpa using hst'

end Kvass.Coord

namespace Kvass.Coord
open Kvass Kvass.Spec

theorem swrOK_sound (swr : Swr) (o : Opt) (h : C05.swrOK swr o = true) : SwrOK swr o := by
  unfold C05.swrOK at h
  simp only [Bool.and_eq_true, decide_eq_true_eq, List.all_eq_true] at h
  exact ⟨h.1, fun p hp => h.2 p hp⟩

end Kvass.Coord
