/-
  `gcTargets` as a whole on a report whose irregularities are moves *and* normal-state duplicates:
  a target is held by at most two in-sync shards, and then either once in transfer and once in
  normal state, or twice in normal state (three scrapes each).
-/
import Kvass.Proofs.LoopSettle

namespace Kvass.Coord
open Kvass Kvass.Spec
open Classical

def rtAt (ss : List SI) (k : Nat) : Rt := ((ss[k]?).map (·.rt)).getD {}

theorem rtAt_of {ss : List SI} {k : Nat} {s : SI} (h : ss[k]? = some s) : rtAt ss k = s.rt := by
  unfold rtAt; rw [h]; rfl

/-- what `gcTargets` leaves of shard `k`'s entry for `h` -/
noncomputable def settledRes2 (o : Opt) (ss0 : List SI) (k : Nat) (h : Hash) : Option St :=
  match entry ss0 k h with
  | none => none
  | some v =>
    if v.state = .inTransfer then
      (if ∃ j, j ≠ k ∧ entry ss0 j h ≠ none then none else some (revertSt v))
    else
      (if ∃ j vj, j ≠ k ∧ entry ss0 j h = some vj ∧ vj.state = .normal ∧
            Gen.gcLess o (rtAt ss0 k) (rtAt ss0 j) k j = true then none else some v)

theorem gc_settled2 (o : Opt) (active : List Hash) (ss0 : List SI)
    (hnd0 : ∀ (k : Nat) (s : SI), ss0[k]? = some s → s.scraping.keys.Nodup)
    (hpair : ∀ (i j : Nat) (h : Hash) (vi vj : St), i ≠ j → entry ss0 i h = some vi → entry ss0 j h = some vj →
      (vi.state = .inTransfer ∧ vj.state = .normal ∧ 3 ≤ vj.times) ∨
      (vj.state = .inTransfer ∧ vi.state = .normal ∧ 3 ≤ vi.times) ∨
      (vi.state = .normal ∧ vj.state = .normal ∧ 3 ≤ vi.times ∧ 3 ≤ vj.times))
    (htwo : ∀ (i j k : Nat) (h : Hash), entry ss0 i h ≠ none → entry ss0 j h ≠ none → entry ss0 k h ≠ none →
      i = j ∨ i = k ∨ j = k)
    (hact : ∀ (i : Nat) (h : Hash) (v : St), entry ss0 i h = some v → active.contains h = true)
    (hold : ∀ (i : Nat) (h : Hash) (v : St), entry ss0 i h = some v → v.state = .inTransfer → 3 ≤ v.times)
    (hall : ∀ (i : Nat) (s : SI), ss0[i]? = some s → s.changeable = true) :
    ∀ k h, entry (gc o active ss0) k h = settledRes2 o ss0 k h := by
  let J : Nat → List SI → Prop := fun a ss =>
    ∀ k h, entry ss k h = if k < a then settledRes2 o ss0 k h else entry ss0 k h
  have hJ : J ss0.length (gc o active ss0) := by
    apply gc_ind o active ss0 J hnd0
    · intro k h; simp
    · intro a ss ha fr hj
      obtain ⟨_, tother, tself⟩ := turn_spec o active ss0 ss a hnd0 fr
      intro k h
      by_cases hka : k = a
      · subst hka
        have hs : ss[k]? = ss0[k]? := fr.rest k (Nat.le_refl _)
        cases hs0 : ss0[k]? with
        | none =>
          have : ss[k]? = none := by rw [hs, hs0]
          have e1 : entry (turn o active ss k) k h = none := by
            unfold turn; rw [this]; unfold entry; rw [this]; rfl
          rw [e1]
          simp only [Nat.lt_succ_self, if_true]
          unfold settledRes2 entry; rw [hs0]; rfl
        | some s =>
          have hss : ss[k]? = some s := by rw [hs, hs0]
          rw [tself s hss h]
          have hch := hall k s hs0
          simp only [hch, if_true, Nat.lt_succ_self]
          have he0 : entry ss0 k h = s.scraping.get h := entry_of hs0
          have hrtk : rtAt ss0 k = s.rt := rtAt_of hs0
          unfold settledRes2
          rw [he0]
          cases hg : s.scraping.get h with
          | none => rfl
          | some tar =>
            simp only
            have he0' : entry ss0 k h = some tar := by rw [he0, hg]
            have hactive := hact k h tar he0'
            -- shard k' of `ss` has the load of shard k' of `ss0`
            have hrt : ∀ (k' : Nat) (sk : SI), ss[k']? = some sk → sk.rt = rtAt ss0 k' ∧ sk.changeable = true := by
              intro k' sk hk'
              obtain ⟨s0', h0', hc0, hr0⟩ := fr.flags k' sk hk'
              exact ⟨by rw [rtAt_of h0', hr0], by rw [hc0]; exact hall k' s0' h0'⟩
            -- whoever holds `h` in `ss` held it in `ss0`
            have sub : ∀ (j : Nat) (st : St), entry ss j h = some st → entry ss0 j h ≠ none := by
              intro j st hst hn
              have e := hj j h
              rw [hst] at e
              by_cases hlt : j < k
              · simp only [hlt, if_true] at e
                unfold settledRes2 at e
                rw [hn] at e; cases e
              · simp only [hlt, if_false] at e
                rw [hn] at e; cases e
            -- decisions when nobody else holds `h` in `ss`
            have lonelyD : (∀ (j : Nat) (st : St), j ≠ k → entry ss j h = some st → False) →
                gcOtherTriggers o ss k s tar h = false ∧ gcHeldElsewhere ss k h = false := by
              intro hal
              constructor
              · cases ht : gcOtherTriggers o ss k s tar h with
                | false => rfl
                | true =>
                  obtain ⟨k', sk, st, hka, hk', _, hgk, _, _⟩ := (gcOtherTriggers_iff o ss k s tar h).mp ht
                  exact (hal k' st hka (by rw [entry_of hk', hgk])).elim
              · cases ht : gcHeldElsewhere ss k h with
                | false => rfl
                | true =>
                  obtain ⟨k', sk, st, hka, hk', _, hgk⟩ := (gcHeldElsewhere_iff ss k h).mp ht
                  exact (hal k' st hka (by rw [entry_of hk', hgk])).elim
            by_cases hpart : ∃ j, j ≠ k ∧ entry ss0 j h ≠ none
            · obtain ⟨j, hjk, hjn⟩ := hpart
              cases hej : entry ss0 j h with
              | none => exact absurd hej hjn
              | some vj =>
                -- j is the only other holder
                have only : ∀ (j' : Nat), j' ≠ k → entry ss0 j' h ≠ none → j' = j := by
                  intro j' hj' hne'
                  rcases htwo j' j k h hne' hjn (by rw [he0']; simp) with h1 | h1 | h1
                  · exact h1
                  · exact absurd h1 hj'
                  · exact absurd h1 hjk
                have onlyk : ∀ (j' : Nat), j' ≠ j → entry ss0 j' h ≠ none → j' = k := by
                  intro j' hj' hne'
                  rcases htwo j' j k h hne' hjn (by rw [he0']; simp) with h1 | h1 | h1
                  · exact absurd h1 hj'
                  · exact h1
                  · exact absurd h1 hjk
                have eJ := hj j h
                have hsj0 : ∃ sj0, ss0[j]? = some sj0 ∧ sj0.scraping.get h = some vj := entry_some hej
                obtain ⟨sj0, hsj0, hgj0⟩ := hsj0
                have hrtj : rtAt ss0 j = sj0.rt := rtAt_of hsj0
                -- the partner's own second condition
                have condj : (∃ j' vj', j' ≠ j ∧ entry ss0 j' h = some vj' ∧ vj'.state = .normal ∧
                      Gen.gcLess o (rtAt ss0 j) (rtAt ss0 j') j j' = true) ↔
                    (tar.state = .normal ∧ Gen.gcLess o (rtAt ss0 j) (rtAt ss0 k) j k = true) := by
                  constructor
                  · rintro ⟨j', vj', hne', he', hn', hl'⟩
                    have : j' = k := onlyk j' hne' (by rw [he']; simp)
                    subst this
                    rw [he0'] at he'; cases he'
                    exact ⟨hn', hl'⟩
                  · rintro ⟨hn, hl⟩
                    exact ⟨k, tar, Ne.symm hjk, he0', hn, hl⟩
                have condk : (∃ j' vj', j' ≠ k ∧ entry ss0 j' h = some vj' ∧ vj'.state = .normal ∧
                      Gen.gcLess o (rtAt ss0 k) (rtAt ss0 j') k j' = true) ↔
                    (vj.state = .normal ∧ Gen.gcLess o (rtAt ss0 k) (rtAt ss0 j) k j = true) := by
                  constructor
                  · rintro ⟨j', vj', hne', he', hn', hl'⟩
                    have : j' = j := only j' hne' (by rw [he']; simp)
                    subst this
                    rw [hej] at he'; cases he'
                    exact ⟨hn', hl'⟩
                  · rintro ⟨hn, hl⟩
                    exact ⟨j, vj, hjk, hej, hn, hl⟩
                -- other holders in `ss` can only be j
                have onlyss : ∀ (j' : Nat) (st : St), j' ≠ k → entry ss j' h = some st → j' = j :=
                  fun j' st hj' hst => only j' hj' (sub j' st hst)
                rcases hpair k j h tar vj (Ne.symm hjk) he0' hej with ⟨hti, hnj, h3j⟩ | ⟨htj, hnk, h3k⟩ | ⟨hnk, hnj, h3k, h3j⟩
                · -- (P1) this copy is in transfer, the partner normal: dropped
                  have h3 := hold k h tar he0' hti
                  have hpres : entry ss j h = some vj := by
                    rw [eJ]
                    by_cases hlt : j < k
                    · simp only [hlt, if_true]
                      unfold settledRes2
                      rw [hej]
                      simp only
                      rw [if_neg (by rw [hnj]; decide)]
                      rw [if_neg (fun hc => by
                        have := (condj.mp hc).1
                        rw [hti] at this; cases this)]
                    · simp only [hlt, if_false]; exact hej
                  obtain ⟨sk, hsk, hgk⟩ := entry_some hpres
                  have hT : gcOtherTriggers o ss k s tar h = true := by
                    rw [gcOtherTriggers_iff]
                    refine ⟨j, sk, vj, hjk, hsk, (hrt j sk hsk).2, hgk, (Sites.gcOtherOk_iff vj).mpr h3j, Or.inl ?_⟩
                    rw [Sites.gcRule2_iff]; exact ⟨hti, hnj⟩
                  have hD : gcDecide o active ss k s h tar = true := by
                    unfold gcDecide
                    simp only [hactive, Bool.not_true, Bool.false_eq_true, if_false, young_false h3]
                    exact hT
                  rw [if_pos hti, if_pos ⟨j, hjk, hjn⟩]
                  simp [gcOutcome, hD]
                · -- (P2) this copy is normal, the partner in transfer: kept
                  have hD : gcDecide o active ss k s h tar = false := by
                    unfold gcDecide
                    simp only [hactive, Bool.not_true, Bool.false_eq_true, if_false]
                    split
                    · rfl
                    · cases ht : gcOtherTriggers o ss k s tar h with
                      | false => rfl
                      | true =>
                        exfalso
                        obtain ⟨k', sk, st, hka, hk', _, hgk, _, hrule⟩ := (gcOtherTriggers_iff o ss k s tar h).mp ht
                        have hes : entry ss k' h = some st := by rw [entry_of hk', hgk]
                        have : k' = j := onlyss k' st hka hes
                        subst this
                        -- the partner's entry, if still there, is the in-transfer one
                        have hst : st = vj := by
                          rw [eJ] at hes
                          by_cases hlt : k' < k
                          · simp only [hlt, if_true] at hes
                            unfold settledRes2 at hes
                            rw [hej] at hes
                            simp only at hes
                            rw [if_pos htj, if_pos ⟨k, Ne.symm hka, by rw [he0']; simp⟩] at hes
                            cases hes
                          · simp only [hlt, if_false] at hes
                            rw [hej] at hes; exact (Option.some.inj hes).symm
                        subst hst
                        rcases hrule with h2 | ⟨hsame, _⟩
                        · rw [Sites.gcRule2_iff] at h2; rw [hnk] at h2; cases h2.1
                        · rw [Sites.gcSame_iff, hnk, htj] at hsame; cases hsame
                  have hR : gcReverts active ss k h tar = false := by
                    unfold gcReverts Gen.gcRevert; simp [hnk]
                  rw [if_neg (by rw [hnk]; decide)]
                  rw [if_neg (fun hc => by
                    have := (condk.mp hc).1
                    rw [htj] at this; cases this)]
                  simp [gcOutcome, hD, hR]
                · -- (P3) both normal: the one that is "less" goes
                  have hR : gcReverts active ss k h tar = false := by
                    unfold gcReverts Gen.gcRevert; simp [hnk]
                  rw [if_neg (by rw [hnk]; decide)]
                  have htot := Sites.gcLess_total o (rtAt ss0 k) (rtAt ss0 j) k j (Ne.symm hjk)
                  -- is the partner still there?
                  have hpresent : entry ss j h = (if j < k ∧ Gen.gcLess o (rtAt ss0 j) (rtAt ss0 k) j k = true then none else some vj) := by
                    rw [eJ]
                    by_cases hlt : j < k
                    · simp only [hlt, if_true, true_and]
                      unfold settledRes2
                      rw [hej]
                      simp only
                      rw [if_neg (by rw [hnj]; decide)]
                      by_cases hl : Gen.gcLess o (rtAt ss0 j) (rtAt ss0 k) j k = true
                      · rw [if_pos (condj.mpr ⟨hnk, hl⟩), if_pos hl]
                      · rw [if_neg (fun hc => hl (condj.mp hc).2), if_neg hl]
                    · simp only [hlt, false_and, if_false]; exact hej
                  -- the trigger is exactly "partner there and this one is less"
                  have hTiff : gcOtherTriggers o ss k s tar h = true ↔
                      (entry ss j h = some vj ∧ Gen.gcLess o (rtAt ss0 k) (rtAt ss0 j) k j = true) := by
                    rw [gcOtherTriggers_iff]
                    constructor
                    · rintro ⟨k', sk, st, hka, hk', _, hgk, _, hrule⟩
                      have hes : entry ss k' h = some st := by rw [entry_of hk', hgk]
                      have : k' = j := onlyss k' st hka hes
                      subst this
                      have hst : st = vj := by
                        rw [hpresent] at hes
                        split at hes
                        · cases hes
                        · exact (Option.some.inj hes).symm
                      subst hst
                      refine ⟨hes, ?_⟩
                      rcases hrule with h2 | ⟨_, hl⟩
                      · rw [Sites.gcRule2_iff] at h2; rw [hnk] at h2; cases h2.1
                      · rw [hrtk, (hrt k' sk hk').1] at *; exact hl
                    · rintro ⟨hes, hl⟩
                      obtain ⟨sk, hsk, hgk⟩ := entry_some hes
                      refine ⟨j, sk, vj, hjk, hsk, (hrt j sk hsk).2, hgk, (Sites.gcOtherOk_iff vj).mpr h3j, Or.inr ⟨?_, ?_⟩⟩
                      · rw [Sites.gcSame_iff, hnk, hnj]
                      · rw [← hrtk, (hrt j sk hsk).1]; exact hl
                  have hDiff : gcDecide o active ss k s h tar = gcOtherTriggers o ss k s tar h := by
                    unfold gcDecide
                    simp only [hactive, Bool.not_true, Bool.false_eq_true, if_false, young_false h3k]
                  by_cases hL : Gen.gcLess o (rtAt ss0 k) (rtAt ss0 j) k j = true
                  · -- this one is less: the partner is still there (it is not less), so this one goes
                    have hL' : Gen.gcLess o (rtAt ss0 j) (rtAt ss0 k) j k = false := by
                      rcases htot with ⟨_, h2⟩ | ⟨h1, _⟩
                      · exact h2
                      · rw [hL] at h1; cases h1
                    have hp : entry ss j h = some vj := by
                      rw [hpresent, if_neg (fun hc => by rw [hL'] at hc; exact absurd hc.2 (by decide))]
                    have hT : gcOtherTriggers o ss k s tar h = true := hTiff.mpr ⟨hp, hL⟩
                    rw [if_pos (condk.mpr ⟨hnj, hL⟩)]
                    simp [gcOutcome, hDiff, hT]
                  · have hT : gcOtherTriggers o ss k s tar h = false := by
                      cases ht : gcOtherTriggers o ss k s tar h with
                      | false => rfl
                      | true => exact absurd (hTiff.mp ht).2 hL
                    rw [if_neg (fun hc => hL (condk.mp hc).2)]
                    simp [gcOutcome, hDiff, hT, hR]
            · -- nobody else holds it
              have hal : ∀ (j : Nat) (st : St), j ≠ k → entry ss j h = some st → False :=
                fun j st hjk hst => hpart ⟨j, hjk, sub j st hst⟩
              obtain ⟨hT, hheld⟩ := lonelyD hal
              cases hst : tar.state with
              | inTransfer =>
                have h3 := hold k h tar he0' hst
                have hD : gcDecide o active ss k s h tar = false := by
                  unfold gcDecide
                  simp only [hactive, Bool.not_true, Bool.false_eq_true, if_false, young_false h3]
                  exact hT
                have hR : gcReverts active ss k h tar = true := by
                  unfold gcReverts
                  rw [hactive]
                  simp [young_false h3, hheld, Gen.gcRevert, hst]
                rw [if_pos rfl, if_neg hpart]
                simp [gcOutcome, hD, hR]
              | normal =>
                have hD : gcDecide o active ss k s h tar = false := by
                  unfold gcDecide
                  simp only [hactive, Bool.not_true, Bool.false_eq_true, if_false]
                  split
                  · rfl
                  · exact hT
                have hR : gcReverts active ss k h tar = false := by
                  unfold gcReverts Gen.gcRevert; simp [hst]
                rw [if_neg (by decide)]
                rw [if_neg (fun hc => by
                  obtain ⟨j, vj, hjk, hej, _, _⟩ := hc
                  exact hpart ⟨j, hjk, by rw [hej]; simp⟩)]
                simp [gcOutcome, hD, hR]
      · rw [tother k h hka, hj k h]
        have : (k < a + 1) = (k < a) := by
          apply propext; constructor <;> intro hh <;> omega
        simp only [this]
  intro k h
  have := hJ k h
  by_cases hk : k < ss0.length
  · simpa [hk] using this
  · simp only [hk, if_false] at this
    rw [this]
    unfold settledRes2 entry
    rw [List.getElem?_eq_none (by omega)]
    rfl

end Kvass.Coord

namespace Kvass.Loop
open Kvass Kvass.Coord Kvass.Spec
open Classical

/-- an otherwise settled closed-loop state whose irregularities are moves and duplicates: a target is
    reported by at most two running sidecars, and then once in transfer and once in normal state, or
    twice in normal state — three scrapes each -/
structure Settled2 (swr : Swr) (env : Env) (w : World) : Prop where
  rep : w.replicas ≤ w.shards.length
  keys : ∀ sh ∈ w.running, (statusOf sh).keys.Nodup
  pairs : ∀ (i j : Nat) (shi shj : Shard) (h : Hash) (vi vj : St), w.running[i]? = some shi → w.running[j]? = some shj →
    i ≠ j → (statusOf shi).get h = some vi → (statusOf shj).get h = some vj →
    (vi.state = .inTransfer ∧ vj.state = .normal ∧ 3 ≤ vj.times) ∨ (vj.state = .inTransfer ∧ vi.state = .normal ∧ 3 ≤ vi.times) ∨
    (vi.state = .normal ∧ vj.state = .normal ∧ 3 ≤ vi.times ∧ 3 ≤ vj.times)
  two : ∀ (i j k : Nat) (shi shj shk : Shard) (h : Hash), w.running[i]? = some shi → w.running[j]? = some shj →
    w.running[k]? = some shk → (statusOf shi).has h = true → (statusOf shj).has h = true → (statusOf shk).has h = true →
    i = j ∨ i = k ∨ j = k
  active : ∀ sh ∈ w.running, ∀ h v, (statusOf sh).get h = some v → h ∈ w.active
  old : ∀ sh ∈ w.running, ∀ h v, (statusOf sh).get h = some v → v.state = .inTransfer → 3 ≤ v.times
  calm : env.opt.disableAlleviate = true ∨ CalmSS swr env.opt (infos0 (inputOf env w [] false))
  placed : ∀ h ∈ w.active, (scrapingSetOf (infos0 (inputOf env w [] false))).contains h = true ∨
    Gen.assignSkip (globalOf (infos0 (inputOf env w [] false)) w.explore h) = true ∨
    Gen.tooBig env.opt (globalOf (infos0 (inputOf env w [] false)) w.explore h) = true
  minOk : env.opt.minShard ≤ (w.replicas : Int)
  maxOk : (w.replicas : Int) ≤ env.opt.maxShard
  noDown : env.opt.idleOn = false

theorem entry_infos0_ne (env : Env) (w : World) (k : Nat) (h : Hash)
    (he : entry (infos0 (inputOf env w [] false)) k h ≠ none) :
    ∃ sh, w.running[k]? = some sh ∧ (statusOf sh).has h = true := by
  cases hv : entry (infos0 (inputOf env w [] false)) k h with
  | none => exact absurd hv he
  | some v =>
    obtain ⟨sh, hrun, hg⟩ := entry_infos0 env w k h v hv
    exact ⟨sh, hrun, (AL.has_iff _ _).mpr ⟨v, hg⟩⟩

theorem rtAt_infos0 (env : Env) (w : World) (k : Nat) (sh : Shard) (hrun : w.running[k]? = some sh) :
    rtAt (infos0 (inputOf env w [] false)) k = rtOf env sh := by
  have h0 : (infos0 (inputOf env w [] false))[k]? = some ⟨true, rtOf env sh, statusOf sh⟩ := by
    rw [infos0_inputOf, List.getElem?_map, hrun]; rfl
  rw [rtAt_of h0]

theorem settled2_gc (swr : Swr) (env : Env) (w : World) (r : Settled2 swr env w) :
    ∀ k h, entry (gc env.opt w.active (infos0 (inputOf env w [] false))) k h =
      settledRes2 env.opt (infos0 (inputOf env w [] false)) k h := by
  apply gc_settled2 env.opt w.active
  · intro i s hs
    obtain ⟨sh, hrun, rfl⟩ := infos0_running env w i s hs
    exact r.keys sh (List.mem_of_getElem? hrun)
  · intro i j h vi vj hij hi hj
    obtain ⟨shi, hri, hgi⟩ := entry_infos0 env w i h vi hi
    obtain ⟨shj, hrj, hgj⟩ := entry_infos0 env w j h vj hj
    exact r.pairs i j shi shj h vi vj hri hrj hij hgi hgj
  · intro i j k h hi hj hk
    obtain ⟨shi, hri, hhi⟩ := entry_infos0_ne env w i h hi
    obtain ⟨shj, hrj, hhj⟩ := entry_infos0_ne env w j h hj
    obtain ⟨shk, hrk, hhk⟩ := entry_infos0_ne env w k h hk
    exact r.two i j k shi shj shk h hri hrj hrk hhi hhj hhk
  · intro i h v he
    obtain ⟨sh, hrun, hg⟩ := entry_infos0 env w i h v he
    simpa using r.active sh (List.mem_of_getElem? hrun) h v hg
  · intro i h v he hst
    obtain ⟨sh, hrun, hg⟩ := entry_infos0 env w i h v he
    exact r.old sh (List.mem_of_getElem? hrun) h v hg hst
  · intro i s hs
    obtain ⟨sh, _, rfl⟩ := infos0_running env w i s hs
    rfl

theorem settled2_calm (swr : Swr) (env : Env) (w : World) (r : Settled2 swr env w) : Calm swr (inputOf env w [] false) := by
  have hent := settled2_gc swr env w r
  have inv := gc_inv env.opt w.active (infos0 (inputOf env w [] false))
  have hrl := running_length w r.rep
  have hpl : (inputOf env w [] false).probes.length = w.replicas := by rw [inputOf_probes_length, hrl]
  refine ⟨?_, ?_, ?_, ?_, r.noDown⟩
  · rcases r.calm with h | h
    · exact Or.inl h
    · right
      intro i s hs
      obtain ⟨s0, h0, _, hrt, _, _⟩ := inv.same i s hs
      rw [hrt]
      exact h i s0 h0
  · intro h ha
    rcases r.placed h ha with h1 | h1
    · left
      unfold scrapingSetOf at h1
      simp only [List.contains_eq_mem, List.mem_flatten, List.mem_map, decide_eq_true_eq] at h1
      obtain ⟨ks, ⟨s, hs, rfl⟩, hk⟩ := h1
      obtain ⟨j, hj⟩ := List.getElem?_of_mem hs
      obtain ⟨v, hv⟩ := AL.mem_keys_get _ _ hk
      have hej : entry (infos0 (inputOf env w [] false)) j h = some v := by rw [entry_of hj, hv]
      -- some holder survives: use the provenance invariant of gc (a discovered reported target is kept)
      obtain ⟨shj, hrunj, hgj⟩ := entry_infos0 env w j h v hej
      have hstart := (provInv_start (inputOf env w [] false)).kept j (probeOf env shj {}) h
        (inputOf_probe env w j shj hrunj)
        (by rw [reported_probeOf]; exact (AL.has_iff _ _).mpr ⟨v, hgj⟩)
        ha
      obtain ⟨y, sy, hy, hgy⟩ := hstart
      cases hg : sy.scraping.get h with
      | none => exact absurd hg hgy
      | some u => exact mem_scrapingSetOf hy hg
    · exact Or.inr h1
  · show env.opt.minShard ≤ _
    rw [hpl]; exact r.minOk
  · show _ ≤ env.opt.maxShard
    rw [hpl]; exact r.maxOk

/-- **moves complete, lost moves are undone, duplicates are resolved — in one closed-loop step.**
    From a settled state whose irregularities are moves and normal-state duplicates, one fault-free
    `Loop.step` leaves the StatefulSet at its size, and every running sidecar then reports exactly the
    targets it reported before except (a) those it held in transfer while another sidecar reported
    them, and (b) those it held in normal state while another sidecar, over which it is "less" in
    the coordinator's tie-breaking order, held them in normal state too — all in normal state. -/
theorem loop_settles2 (swr : Swr) (env : Env) (w : World) (sc : Sched) (r : Settled2 swr env w) :
    (step swr env w (.cycle sc [] false)).replicas = w.replicas ∧
    (step swr env w (.cycle sc [] false)).active = w.active ∧
    ∀ (i : Nat) (sh : Shard), w.running[i]? = some sh →
      ∃ sh', (step swr env w (.cycle sc [] false)).shards[i]? = some sh' ∧
        (∀ h, h ∈ (statusOf sh').keys ↔
          ∃ v, (statusOf sh).get h = some v ∧
            ¬ (v.state = .inTransfer ∧ ∃ (k : Nat) (shk : Shard), k ≠ i ∧ w.running[k]? = some shk ∧ (statusOf shk).has h = true) ∧
            ¬ (v.state = .normal ∧ ∃ (k : Nat) (shk : Shard) (vk : St), k ≠ i ∧ w.running[k]? = some shk ∧
                (statusOf shk).get h = some vk ∧ vk.state = .normal ∧
                Gen.gcLess env.opt (rtOf env sh) (rtOf env shk) i k = true)) ∧
        (∀ h v, (statusOf sh').get h = some v → v.state = .normal) := by
  have hc := settled2_calm swr env w r
  obtain ⟨hnc, hscales, hfinal, hne⟩ := calm_cycle swr sc (inputOf env w [] false) hc
  have hent := settled2_gc swr env w r
  have hrl := running_length w r.rep
  have hpl := inputOf_probes_length env w [] false
  have hw1len : (applyOutcome w [] (cycle swr sc (inputOf env w [] false))).shards.length = w.shards.length := by
    unfold applyOutcome
    simp only [List.length_append, List.length_map, List.length_zipIdx, List.length_drop]
    rw [hrl]; have := r.rep; omega
  have hstep : step swr env w (.cycle sc [] false) = applyOutcome w [] (cycle swr sc (inputOf env w [] false)) := by
    show (cycleStep swr env w sc [] false).1 = _
    unfold cycleStep
    simp only [Bool.false_eq_true, if_false, hscales, List.foldl_cons, List.foldl_nil]
    have hn : ((inputOf env w [] false).probes.length : Int).toNat =
        (applyOutcome w [] (cycle swr sc (inputOf env w [] false))).replicas := by
      rw [hpl, hrl]; unfold applyOutcome; simp
    rw [hn]
    apply resize_self
    rw [hw1len]
    unfold applyOutcome; simpa using r.rep
  rw [hstep]
  refine ⟨by unfold applyOutcome; rfl, by unfold applyOutcome; rfl, ?_⟩
  intro i sh hrun
  obtain ⟨fin, sh', hfin, hsh', hkeys, hst⟩ := applyOutcome_report swr env w sc r.rep hne hnc r.keys i sh hrun
  have hact : (inputOf env w [] false).active = w.active := rfl
  have hopt : (inputOf env w [] false).opt = env.opt := rfl
  rw [hfinal, hact, hopt] at hfin
  have hplan : ∀ h, (planned w.active fin).get h = settledRes2 env.opt (infos0 (inputOf env w [] false)) i h := by
    intro h
    rw [planned_get]
    have e := hent i h
    rw [entry_of hfin] at e
    rw [← e]
    cases hg : fin.scraping.get h with
    | none => simp
    | some u =>
      have : settledRes2 env.opt (infos0 (inputOf env w [] false)) i h = some u := by rw [← e, hg]
      unfold settledRes2 at this
      rw [entry_infos0_of env w i sh h hrun] at this
      cases hv : (statusOf sh).get h with
      | none => rw [hv] at this; cases this
      | some v =>
        have ha : w.active.contains h = true := by
          simpa using r.active sh (List.mem_of_getElem? hrun) h v hv
        rw [ha]; rfl
  have hpartner : ∀ h, (∃ j, j ≠ i ∧ entry (infos0 (inputOf env w [] false)) j h ≠ none) ↔
      ∃ (k : Nat) (shk : Shard), k ≠ i ∧ w.running[k]? = some shk ∧ (statusOf shk).has h = true := by
    intro h
    constructor
    · rintro ⟨j, hji, hne'⟩
      obtain ⟨shj, hrj, hh⟩ := entry_infos0_ne env w j h hne'
      exact ⟨j, shj, hji, hrj, hh⟩
    · rintro ⟨k, shk, hki, hrk, hhas⟩
      obtain ⟨vk, hvk⟩ := (AL.has_iff _ _).mp hhas
      exact ⟨k, hki, by rw [entry_infos0_of env w k shk h hrk, hvk]; simp⟩
  have hless : ∀ h, (∃ j vj, j ≠ i ∧ entry (infos0 (inputOf env w [] false)) j h = some vj ∧ vj.state = .normal ∧
        Gen.gcLess env.opt (rtAt (infos0 (inputOf env w [] false)) i) (rtAt (infos0 (inputOf env w [] false)) j) i j = true) ↔
      ∃ (k : Nat) (shk : Shard) (vk : St), k ≠ i ∧ w.running[k]? = some shk ∧ (statusOf shk).get h = some vk ∧
        vk.state = .normal ∧ Gen.gcLess env.opt (rtOf env sh) (rtOf env shk) i k = true := by
    intro h
    constructor
    · rintro ⟨j, vj, hji, hej, hn, hl⟩
      obtain ⟨shj, hrj, hgj⟩ := entry_infos0 env w j h vj hej
      rw [rtAt_infos0 env w i sh hrun, rtAt_infos0 env w j shj hrj] at hl
      exact ⟨j, shj, vj, hji, hrj, hgj, hn, hl⟩
    · rintro ⟨k, shk, vk, hki, hrk, hgk, hn, hl⟩
      refine ⟨k, vk, hki, by rw [entry_infos0_of env w k shk h hrk, hgk], hn, ?_⟩
      rw [rtAt_infos0 env w i sh hrun, rtAt_infos0 env w k shk hrk]; exact hl
  refine ⟨sh', hsh', ?_, ?_⟩
  · intro h
    rw [hkeys h, AL.mem_keys_iff, hplan h]
    unfold settledRes2
    rw [entry_infos0_of env w i sh h hrun]
    cases hv : (statusOf sh).get h with
    | none => simp
    | some v =>
      simp only
      cases hvs : v.state with
      | inTransfer =>
        rw [if_pos rfl]
        constructor
        · rintro ⟨u, hu⟩
          refine ⟨v, rfl, ?_, ?_⟩
          · intro ⟨_, hp⟩
            rw [if_pos ((hpartner h).mpr hp)] at hu; cases hu
          · intro ⟨hn, _⟩; rw [hvs] at hn; cases hn
        · rintro ⟨v', hv', hnot, _⟩
          cases hv'
          rw [if_neg (fun hc => hnot ⟨hvs, (hpartner h).mp hc⟩)]
          exact ⟨_, rfl⟩
      | normal =>
        rw [if_neg (by decide)]
        constructor
        · rintro ⟨u, hu⟩
          refine ⟨v, rfl, ?_, ?_⟩
          · intro ⟨hn, _⟩; rw [hvs] at hn; cases hn
          · intro ⟨_, hp⟩
            rw [if_pos ((hless h).mpr hp)] at hu; cases hu
        · rintro ⟨v', hv', _, hnot⟩
          cases hv'
          rw [if_neg (fun hc => hnot ⟨hvs, (hless h).mp hc⟩)]
          exact ⟨_, rfl⟩
  · intro h v hv
    have hk : h ∈ (planned w.active fin).keys := (hkeys h).mp (AL.get_some_mem_keys _ _ _ hv)
    obtain ⟨u, hu⟩ := AL.mem_keys_get _ _ hk
    obtain ⟨r', hr', hs'⟩ := hst h u hu
    rw [hv] at hr'; cases hr'
    rw [hs']
    rw [hplan h] at hu
    unfold settledRes2 at hu
    cases he : entry (infos0 (inputOf env w [] false)) i h with
    | none => rw [he] at hu; cases hu
    | some v0 =>
      rw [he] at hu
      simp only at hu
      cases hv0 : v0.state with
      | inTransfer =>
        rw [if_pos hv0] at hu
        split at hu
        · cases hu
        · rw [← Option.some.inj hu]; rfl
      | normal =>
        rw [if_neg (by rw [hv0]; decide)] at hu
        split at hu
        · cases hu
        · rw [← Option.some.inj hu]; exact hv0

end Kvass.Loop

namespace Kvass.Loop
open Kvass Kvass.Coord Kvass.Spec
open Classical

/-- **after the repairing step the reports are converged**: every reported target is in normal state,
    no target is reported by two running sidecars, and every target that was reported before is still
    reported by somebody -/
theorem loop_settles2_converged (swr : Swr) (env : Env) (w : World) (sc : Sched) (r : Settled2 swr env w) :
    let w' := step swr env w (.cycle sc [] false)
    w'.replicas = w.replicas ∧
    (∀ (i : Nat) (sh' : Shard) (h : Hash) (v : St), i < w.replicas → w'.shards[i]? = some sh' →
      (statusOf sh').get h = some v → v.state = .normal) ∧
    (∀ (i j : Nat) (shi shj : Shard) (h : Hash), i < w.replicas → j < w.replicas → i ≠ j →
      w'.shards[i]? = some shi → w'.shards[j]? = some shj →
      (statusOf shi).has h = true → (statusOf shj).has h = true → False) ∧
    (∀ (i : Nat) (sh : Shard) (h : Hash), w.running[i]? = some sh → (statusOf sh).has h = true →
      ∃ (d : Nat) (shd : Shard), d < w.replicas ∧ w'.shards[d]? = some shd ∧ (statusOf shd).has h = true) := by
  intro w'
  obtain ⟨hrepl, _, hall⟩ := loop_settles2 swr env w sc r
  have hrl := running_length w r.rep
  have hrunOf : ∀ i, i < w.replicas → ∃ sh, w.running[i]? = some sh := by
    intro i hi
    have : i < w.running.length := by rw [hrl]; exact hi
    exact ⟨w.running[i], by simp [this]⟩
  refine ⟨hrepl, ?_, ?_, ?_⟩
  · intro i sh' h v hi hs hv
    obtain ⟨sh, hrun⟩ := hrunOf i hi
    obtain ⟨sh'', hs'', _, hnorm⟩ := hall i sh hrun
    have e : sh'' = sh' := by
      have : w'.shards[i]? = some sh'' := hs''
      rw [hs] at this; exact (Option.some.inj this).symm
    subst e
    exact hnorm h v hv
  · intro i j shi shj h hi hj hij hsi hsj hhi hhj
    obtain ⟨si, hri⟩ := hrunOf i hi
    obtain ⟨sj, hrj⟩ := hrunOf j hj
    obtain ⟨si', hsi', hki, _⟩ := hall i si hri
    obtain ⟨sj', hsj', hkj, _⟩ := hall j sj hrj
    have ei : si' = shi := by
      have : w'.shards[i]? = some si' := hsi'
      rw [hsi] at this; exact (Option.some.inj this).symm
    have ej : sj' = shj := by
      have : w'.shards[j]? = some sj' := hsj'
      rw [hsj] at this; exact (Option.some.inj this).symm
    subst ei; subst ej
    obtain ⟨vi, hvi, hni1, hni2⟩ := (hki h).mp ((AL.mem_keys_iff _ _).mpr ((AL.has_iff _ _).mp hhi))
    obtain ⟨vj, hvj, hnj1, hnj2⟩ := (hkj h).mp ((AL.mem_keys_iff _ _).mpr ((AL.has_iff _ _).mp hhj))
    have hasi : (statusOf si).has h = true := (AL.has_iff _ _).mpr ⟨vi, hvi⟩
    have hasj : (statusOf sj).has h = true := (AL.has_iff _ _).mpr ⟨vj, hvj⟩
    rcases r.pairs i j si sj h vi vj hri hrj hij hvi hvj with ⟨hin, _, _⟩ | ⟨hin, _, _⟩ | ⟨hnni, hnnj, _, _⟩
    · exact hni1 ⟨hin, j, sj, Ne.symm hij, hrj, hasj⟩
    · exact hnj1 ⟨hin, i, si, hij, hri, hasi⟩
    · rcases Sites.gcLess_total env.opt (rtOf env si) (rtOf env sj) i j hij with ⟨h1, _⟩ | ⟨_, h2⟩
      · exact hni2 ⟨hnni, j, sj, vj, Ne.symm hij, hrj, hvj, hnnj, h1⟩
      · exact hnj2 ⟨hnnj, i, si, vi, hij, hri, hvi, hnni, h2⟩
  · intro i sh h hrun hhas
    obtain ⟨v, hv⟩ := (AL.has_iff _ _).mp hhas
    have hilt : i < w.replicas := by
      have := (List.getElem?_eq_some_iff.mp hrun).1
      rw [hrl] at this; exact this
    obtain ⟨sh', hs', hk, _⟩ := hall i sh hrun
    -- either this sidecar keeps it, or the partner that made it drop the target does
    by_cases hkeep : h ∈ (statusOf sh').keys
    · exact ⟨i, sh', hilt, hs', (AL.has_iff _ _).mpr ((AL.mem_keys_iff _ _).mp hkeep)⟩
    · have hdrop : (v.state = .inTransfer ∧ ∃ (k : Nat) (shk : Shard), k ≠ i ∧ w.running[k]? = some shk ∧ (statusOf shk).has h = true) ∨
          (v.state = .normal ∧ ∃ (k : Nat) (shk : Shard) (vk : St), k ≠ i ∧ w.running[k]? = some shk ∧
            (statusOf shk).get h = some vk ∧ vk.state = .normal ∧ Gen.gcLess env.opt (rtOf env sh) (rtOf env shk) i k = true) := by
        apply Classical.byContradiction
        intro hno
        simp only [not_or] at hno
        exact hkeep ((hk h).mpr ⟨v, hv, hno.1, hno.2⟩)
      -- the partner
      have partnerKeeps : ∀ (k : Nat) (shk : Shard) (vk : St), k ≠ i → w.running[k]? = some shk →
          (statusOf shk).get h = some vk →
          (v.state = .inTransfer ∨ (v.state = .normal ∧ vk.state = .normal ∧ Gen.gcLess env.opt (rtOf env sh) (rtOf env shk) i k = true)) →
          ∃ (d : Nat) (shd : Shard), d < w.replicas ∧ w'.shards[d]? = some shd ∧ (statusOf shd).has h = true := by
        intro k shk vk hki hrk hvk hcase
        have hklt : k < w.replicas := by
          have := (List.getElem?_eq_some_iff.mp hrk).1
          rw [hrl] at this; exact this
        obtain ⟨shk', hsk', hkk, _⟩ := hall k shk hrk
        refine ⟨k, shk', hklt, hsk', (AL.has_iff _ _).mpr ((AL.mem_keys_iff _ _).mp ((hkk h).mpr ⟨vk, hvk, ?_, ?_⟩))⟩
        · -- the partner is not an in-transfer copy: it is the normal side of the pair
          intro ⟨hin, _⟩
          rcases r.pairs i k sh shk h v vk hrun hrk (Ne.symm hki) hv hvk with ⟨_, hn, _⟩ | ⟨_, hnv, _⟩ | ⟨_, hn, _, _⟩
          · rw [hin] at hn; cases hn
          · rcases hcase with hc | ⟨_, hnk, _⟩
            · rw [hc] at hnv; cases hnv
            · rw [hin] at hnk; cases hnk
          · rw [hin] at hn; cases hn
        · -- and it does not lose the tie-break against anybody: its only possible partner is i
          intro ⟨hnk, k', shk', vk', hk'k, hrk', hvk', hnk', hless⟩
          have hk'i : k' = i := by
            rcases r.two k' k i shk' shk sh h hrk' hrk hrun ((AL.has_iff _ _).mpr ⟨vk', hvk'⟩)
                ((AL.has_iff _ _).mpr ⟨vk, hvk⟩) hhas with h1 | h1 | h1
            · exact absurd h1 hk'k
            · exact h1
            · exact absurd h1 hki
          subst hk'i
          rw [hrun] at hrk'; cases hrk'
          rw [hv] at hvk'; cases hvk'
          rcases hcase with hc | ⟨_, _, hl⟩
          · rw [hc] at hnk'; cases hnk'
          · rcases Sites.gcLess_total env.opt (rtOf env sh) (rtOf env shk) k' k (Ne.symm hki) with ⟨_, h2⟩ | ⟨h1, _⟩
            · rw [hless] at h2; cases h2
            · rw [hl] at h1; cases h1
      rcases hdrop with ⟨hin, k, shk, hki, hrk, hhk⟩ | ⟨hn, k, shk, vk, hki, hrk, hvk, hnk, hl⟩
      · obtain ⟨vk, hvk⟩ := (AL.has_iff _ _).mp hhk
        exact partnerKeeps k shk vk hki hrk hvk (Or.inl hin)
      · exact partnerKeeps k shk vk hki hrk hvk (Or.inr ⟨hn, hnk, hl⟩)

end Kvass.Loop
