/-
  Generic invariant lifting for the coordinator cycle.

  A predicate `P` on the cycle state that is preserved by `transfer` (under everything that is
  known at a `transferTarget` call site: `TGuard`), by `place` (under `PGuard`) and by setting the
  crash flag holds after alleviation / first assignment / scale-down whenever it held before —
  for every schedule.  Properties instantiate `P`; the loop inductions are done once, here.
-/
import Kvass.Proofs.CoordLog
import Kvass.Proofs.ListUtil

namespace Kvass.Coord
open Kvass

/-- what is known when `transferTarget(from = i, to = j, h)` is called (kind 1,2: relief; 3: scale-down) -/
def TGuard (o : Opt) (k : Nat) (c : CS) (i j : Nat) (h : Hash) : Prop :=
  ∃ f t tar, c.shards[i]? = some f ∧ c.shards[j]? = some t ∧ f.scraping.get h = some tar ∧
    f.changeable = true ∧ t.changeable = true ∧ j ≠ i ∧ tar.state = .normal ∧ 3 ≤ tar.times ∧
    ((o.maxHead ≠ 0 → t.rt.head + tar.series < o.maxHead) ∧ t.rt.proc + tar.total < o.maxProc) ∧
    (k = 3 → j < i) ∧ (k = 1 ∨ k = 2 ∨ k = 3)

/-- what is known when a first assignment of `h` (status `st`) to shard `j` is made -/
def PGuard (o : Opt) (c : CS) (j : Nat) (h : Hash) (st : St) : Prop :=
  ∃ t, c.shards[j]? = some t ∧ t.changeable = true ∧
    (∀ s ∈ c.shards, s.scraping.get h = none) ∧
    st.health = .good ∧ Gen.tooBig o st = false ∧
    ((o.maxHead ≠ 0 → t.rt.head + st.series < o.maxHead) ∧ t.rt.proc + st.total < o.maxProc)

structure Pres (o : Opt) (P : CS → Prop) : Prop where
  transfer : ∀ k c i j h, P c → TGuard o k c i j h → P (transfer k c i j h)
  crash : ∀ c, P c → P { c with crashed := true }

structure PresA (o : Opt) (glob : Hash → St) (P : CS → Prop) : Prop extends Pres o P where
  place : ∀ c j h, P c → PGuard o c j h (glob h) → P (place 0 c j h (glob h))

/-- `r` has room for a target of sizes `a`, `b` -/
def FitB (o : Opt) (r : Rt) (a b : Int) : Prop :=
  (o.maxHead ≠ 0 → r.head + a < o.maxHead) ∧ r.proc + b < o.maxProc

/-- what is *additionally* known at a `transferTarget` call site: the source of a relief move
    satisfies `Q1` / `Q2` (instantiated with "its process / head trigger fired"), a scale-down move happens under `D`
    (instantiated with "scale-down is switched on"), and relief / first-fit scale-down take the
    first shard in slice order that has room -/
def XGuard (o : Opt) (Q1 Q2 : Rt → Prop) (D : Prop) (k : Nat) (c : CS) (i j : Nat) (h : Hash) : Prop :=
  ∀ f tar, c.shards[i]? = some f → f.scraping.get h = some tar →
    (k = 1 → Q1 f.rt) ∧ (k = 2 → Q2 f.rt ∧ o.maxHead ≠ 0) ∧ (k = 3 → D) ∧
    ((k = 1 ∨ k = 2 ∨ Gen.firstFit o = true) → ∀ j' s', j' < j → j' ≠ i → c.shards[j']? = some s' →
      s'.changeable = true → ¬ FitB o s'.rt tar.series tar.total)

/-- like `Pres`, for invariants that need `XGuard` as well -/
structure PresX (o : Opt) (Q1 Q2 : Rt → Prop) (D : Prop) (P : CS → Prop) : Prop where
  transfer : ∀ k c i j h, P c → TGuard o k c i j h → XGuard o Q1 Q2 D k c i j h → P (transfer k c i j h)
  crash : ∀ c, P c → P { c with crashed := true }

structure PresAX (o : Opt) (Q1 Q2 : Rt → Prop) (D : Prop) (glob : Hash → St) (P : CS → Prop) : Prop
    extends PresX o Q1 Q2 D P where
  place : ∀ c j h, P c → PGuard o c j h (glob h) → P (place 0 c j h (glob h))

theorem Pres.toX {o : Opt} {P : CS → Prop} (hp : Pres o P) (Q1 Q2 : Rt → Prop) (D : Prop) : PresX o Q1 Q2 D P :=
  ⟨fun k c i j h hc hg _ => hp.transfer k c i j h hc hg, hp.crash⟩

theorem PresA.toAX {o : Opt} {glob : Hash → St} {P : CS → Prop} (hp : PresA o glob P) (Q1 Q2 : Rt → Prop) (D : Prop) :
    PresAX o Q1 Q2 D glob P :=
  ⟨hp.toPres.toX Q1 Q2 D, hp.place⟩

/-- position facts about an element found in an indexed list -/
theorem zipIdx_split {α} {ss : List α} {l₁ l₂ : List (α × Nat)} {a : α} {idx : Nat}
    (h : ss.zipIdx = l₁ ++ (a, idx) :: l₂) :
    idx = l₁.length ∧ ∀ j' s', j' < l₁.length → ss[j']? = some s' → (s', j') ∈ l₁ := by
  constructor
  · have h1 : (ss.zipIdx)[l₁.length]? = some (a, idx) := by
      rw [h, List.getElem?_append_right (Nat.le_refl _)]; simp
    rw [List.getElem?_zipIdx] at h1
    cases hs : ss[l₁.length]? with
    | none => simp [hs] at h1
    | some x => simp [hs] at h1; exact h1.2.symm
  · intro j' s' hlt hs'
    have h1 : (ss.zipIdx)[j']? = some (s', j') := by
      rw [List.getElem?_zipIdx, hs']; simp
    rw [h, List.getElem?_append_left hlt] at h1
    exact List.mem_of_getElem? h1

/-- the source of a transfer keeps its `changeable` flag -/
theorem transfer_src_changeable (k : Nat) (c : CS) (i j : Nat) (h : Hash)
    (hsrc : ∀ s, c.shards[i]? = some s → s.changeable = true) :
    ∀ s, (transfer k c i j h).shards[i]? = some s → s.changeable = true := by
  unfold transfer
  split
  · rename_i f t hf ht
    split
    · exact hsrc
    · rename_i tar htar
      intro s hs
      simp only at hs
      obtain ⟨b', hb'⟩ := getElem?_set_some (j := j) (a := ({ t with
          rt := { t.rt with proc := Gen.transferProc t.rt tar, head := Gen.transferHead t.rt tar },
          scraping := t.scraping.set h tar } : SI)) hf
      rw [getElem?_set_self' hb'] at hs
      cases hs
      exact hsrc f hf
  · exact hsrc

/-- the source of a transfer keeps its `changeable` flag and its load -/
theorem transfer_src_keep (R : Bool → Rt → Prop) (k : Nat) (c : CS) (i j : Nat) (h : Hash)
    (hsrc : ∀ s, c.shards[i]? = some s → R s.changeable s.rt) :
    ∀ s, (transfer k c i j h).shards[i]? = some s → R s.changeable s.rt := by
  unfold transfer
  split
  · rename_i f t hf ht
    split
    · exact hsrc
    · rename_i tar htar
      intro s hs
      simp only at hs
      obtain ⟨b', hb'⟩ := getElem?_set_some (j := j) (a := ({ t with
          rt := { t.rt with proc := Gen.transferProc t.rt tar, head := Gen.transferHead t.rt tar },
          scraping := t.scraping.set h tar } : SI)) hf
      rw [getElem?_set_self' hb'] at hs
      cases hs
      by_cases hij : j = i
      · subst hij
        rw [getElem?_set_self' hf] at hb'
        cases hb'
        -- i = j: the entry written last is the source's
        exact hsrc f hf
      · rw [getElem?_set_ne' hij] at hb'
        exact hsrc f hf
  · exact hsrc

theorem firstDst_first {ss : List SI} {i j : Nat} {cond : SI → Bool} (h : firstDst ss i cond = some j) :
    ∀ j' s', j' < j → ss[j']? = some s' → ¬ (s'.changeable = true ∧ j' ≠ i ∧ cond s' = true) := by
  unfold firstDst at h
  rw [List.findSome?_eq_some_iff] at h
  obtain ⟨l₁, ⟨a, idx⟩, l₂, hl, ha, hnone⟩ := h
  obtain ⟨hidx, hmem⟩ := zipIdx_split hl
  simp only at ha
  split at ha
  · simp only [Option.some.injEq] at ha
    intro j' s' hlt hs' ⟨h1, h2, h3⟩
    have := hnone (s', j') (hmem j' s' (by omega) hs')
    simp [h1, h2, h3] at this
  · cases ha

theorem getFreeShard_first {o : Opt} {ss : List SI} {n : Nat} {sp : Space} {picks picks' : List Nat} {j : Nat}
    (hff : Gen.firstFit o = true) (h : getFreeShard o ss n sp picks = (.some j, picks')) :
    ∀ j' s', j' < j → ss[j']? = some s' → ¬ (s'.changeable = true ∧ Gen.fit o s'.rt sp = true) := by
  unfold getFreeShard at h
  split at h
  · simp at h
  · rename_i j0 js hc
    simp only [hff, if_true, Prod.mk.injEq, Pick.some.injEq] at h
    obtain ⟨rfl, _⟩ := h
    unfold candidates at hc
    rw [List.filterMap_eq_cons_iff] at hc
    obtain ⟨l₁, ⟨a, idx⟩, l₂, hl, hnone, ha, _⟩ := hc
    obtain ⟨hidx, hmem⟩ := zipIdx_split hl
    simp only at ha
    split at ha
    · simp only [Option.some.injEq] at ha
      intro j' s' hlt hs' ⟨h1, h2⟩
      have hlen : j' < (ss.take n).length := by
        have : (ss.take n).zipIdx.length = l₁.length + 1 + l₂.length := by rw [hl]; simp; omega
        rw [List.length_zipIdx] at this
        omega
      have hs'' : (ss.take n)[j']? = some s' := by
        rw [List.getElem?_take]; simp only [List.length_take] at hlen
        rw [if_pos (by omega)]; exact hs'
      have := hnone (s', j') (hmem j' s' (by omega) hs'')
      simp [Gen.fitSkip, h1, h2] at this
    · cases ha

section
variable {o : Opt} {P : CS → Prop} {Q1 Q2 : Rt → Prop} {D : Prop}

theorem fit_of_opt {o : Opt} {r : Rt} {a b : Int}
    (h : (o.maxHead = 0 ∨ r.head + a < o.maxHead) ∧ r.proc + b < o.maxProc) :
    (o.maxHead ≠ 0 → r.head + a < o.maxHead) ∧ r.proc + b < o.maxProc := by
  refine ⟨fun hne => ?_, h.2⟩
  rcases h.1 with h0 | h1
  · exact absurd h0 hne
  · exact h1

theorem apLoopX (hp : PresX o Q1 Q2 D P) (i : Nat) (exp : Int) :
    ∀ (hs : List Hash) (c : CS) (total : Int), (∀ s, c.shards[i]? = some s → s.changeable = true ∧ Q1 s.rt) →
      P c → P (apLoop o i exp hs c total).1 := by
  intro hs
  induction hs with
  | nil => intro c total _ h; simpa [apLoop] using h
  | cons h hs ih =>
    intro c total hsrc hc
    unfold apLoop
    split
    · exact hc
    · split
      · exact hc
      · rename_i s hs'
        split
        · exact ih c total hsrc hc
        · rename_i tar htar
          split
          · exact ih c total hsrc hc
          · rename_i hskip
            split
            · exact hc
            · split
              · rename_i j hj
                apply ih _ _ (transfer_src_keep (fun b r => b = true ∧ Q1 r) _ c i j h hsrc)
                obtain ⟨s2, hs2, hch, hne, hcond⟩ := firstDst_spec hj
                have hsk := (not_congr (Sites.apSkip_iff tar)).mp hskip
                simp only [not_or, Decidable.not_not, Nat.not_lt] at hsk
                apply hp.transfer 1 c i j h hc
                · exact ⟨s, s2, tar, hs', hs2, htar, (hsrc s hs').1, hch, hne, hsk.2.1, hsk.2.2.2,
                    fit_of_opt ((Sites.apDst_iff o s2.rt tar).mp hcond), by simp, Or.inl rfl⟩
                · intro f tar' hf htar'
                  rw [hs'] at hf; cases hf
                  rw [htar] at htar'; cases htar'
                  refine ⟨fun _ => (hsrc s hs').2, fun h2 => absurd h2 (by decide), fun h3 => absurd h3 (by decide), fun _ j' s' hlt hne' hs'' hch' hfit => ?_⟩
                  refine firstDst_first hj j' s' hlt hs'' ⟨hch', hne', ?_⟩
                  rw [Sites.apDst_iff]
                  refine ⟨?_, hfit.2⟩
                  by_cases hz : o.maxHead = 0
                  · exact Or.inl hz
                  · exact Or.inr (hfit.1 hz)
              · exact ih c total hsrc hc

theorem ahLoopX (hp : PresX o Q1 Q2 D P) (hh : o.maxHead ≠ 0) (i : Nat) (exp : Int) :
    ∀ (hs : List Hash) (c : CS) (total : Int), (∀ s, c.shards[i]? = some s → s.changeable = true ∧ Q2 s.rt) →
      P c → P (ahLoop o i exp hs c total).1 := by
  intro hs
  induction hs with
  | nil => intro c total _ h; simpa [ahLoop] using h
  | cons h hs ih =>
    intro c total hsrc hc
    unfold ahLoop
    split
    · exact hc
    · split
      · exact hc
      · rename_i s hs'
        split
        · exact ih c total hsrc hc
        · rename_i tar htar
          split
          · exact ih c total hsrc hc
          · rename_i hskip
            split
            · exact hc
            · split
              · rename_i j hj
                apply ih _ _ (transfer_src_keep (fun b r => b = true ∧ Q2 r) _ c i j h hsrc)
                obtain ⟨s2, hs2, hch, hne, hcond⟩ := firstDst_spec hj
                have hsk := (not_congr (Sites.ahSkip_iff tar)).mp hskip
                simp only [not_or, Decidable.not_not, Nat.not_lt] at hsk
                have hd := (Sites.ahDst_iff o s2.rt tar).mp hcond
                apply hp.transfer 2 c i j h hc
                · exact ⟨s, s2, tar, hs', hs2, htar, (hsrc s hs').1, hch, hne, hsk.1, hsk.2.2,
                    ⟨fun _ => hd.1, hd.2⟩, by simp, Or.inr (Or.inl rfl)⟩
                · intro f tar' hf htar'
                  rw [hs'] at hf; cases hf
                  rw [htar] at htar'; cases htar'
                  refine ⟨fun h1 => absurd h1 (by decide), fun _ => ⟨(hsrc s hs').2, hh⟩, fun h3 => absurd h3 (by decide), fun _ j' s' hlt hne' hs'' hch' hfit => ?_⟩
                  refine firstDst_first hj j' s' hlt hs'' ⟨hch', hne', ?_⟩
                  rw [Sites.ahDst_iff]
                  exact ⟨hfit.1 hh, hfit.2⟩
              · exact ih c total hsrc hc

theorem allevProcShardX (hp : PresX o Q1 Q2 D P) (exp : Int) (order : List Hash) (c : CS) (i : Nat)
    (hsrc : ∀ s, c.shards[i]? = some s → s.changeable = true ∧ Q1 s.rt)
    (hc : P c) : P (allevProcShard o exp order c i).1 := by
  unfold allevProcShard
  split
  · exact hc
  · simp only
    split
    · exact hc
    · have := apLoopX hp i exp order c (loadProc ‹SI›) hsrc hc
      generalize apLoop o i exp order c (loadProc ‹SI›) = r at this
      obtain ⟨c', total', aborted⟩ := r
      simp only at this ⊢
      split
      · exact this
      · split <;> exact this

theorem allevHeadShardX (hp : PresX o Q1 Q2 D P) (hh : o.maxHead ≠ 0) (exp : Int) (order : List Hash) (c : CS) (i : Nat)
    (hsrc : ∀ s, c.shards[i]? = some s → s.changeable = true ∧ Q2 s.rt)
    (hc : P c) : P (allevHeadShard o exp order c i).1 := by
  unfold allevHeadShard
  split
  · exact hc
  · simp only
    split
    · exact hc
    · have := ahLoopX hp hh i exp order c (loadHead ‹SI›) hsrc hc
      generalize ahLoop o i exp order c (loadHead ‹SI›) = r at this
      obtain ⟨c', total', aborted⟩ := r
      simp only at this ⊢
      split
      · exact this
      · split <;> exact this

theorem allevProcAllX (hp : PresX o Q1 Q2 D P) (swr : Swr) (hQp : ∀ r, Gen.procTrigger swr o r = true → Q1 r)
    (orders : List (List Hash)) :
    ∀ (is : List Nat) (c : CS) (need : Int), P c → P (allevProcAll swr o orders is c need).1 := by
  intro is
  induction is with
  | nil => intro c need h; simpa [allevProcAll] using h
  | cons i is ih =>
    intro c need hc
    unfold allevProcAll
    split
    · exact ih c need hc
    · split
      · rename_i s hs hcond
        have hsrc : ∀ s', c.shards[i]? = some s' → s'.changeable = true ∧ Q1 s'.rt := by
          intro s' hs'; rw [hs] at hs'; cases hs'
          simp only [Bool.and_eq_true] at hcond; exact ⟨hcond.1, hQp _ hcond.2⟩
        have := allevProcShardX hp (Gen.procExpect swr o) (orderFor orders i) c i hsrc hc
        generalize allevProcShard o (Gen.procExpect swr o) (orderFor orders i) c i = r at this
        obtain ⟨c', n⟩ := r
        exact ih c' _ this
      · exact ih c need hc

theorem allevHeadAllX (hp : PresX o Q1 Q2 D P) (hh : o.maxHead ≠ 0) (swr : Swr)
    (hQh : ∀ r ex, headThreshold swr o r = some ex → Q2 r) (orders : List (List Hash)) :
    ∀ (is : List Nat) (c : CS) (need : Int), P c → P (allevHeadAll swr o orders is c need).1 := by
  intro is
  induction is with
  | nil => intro c need h; simpa [allevHeadAll] using h
  | cons i is ih =>
    intro c need hc
    unfold allevHeadAll
    split
    · exact ih c need hc
    · split
      · split
        · rename_i s hs hcond _ ex hex
          have hsrc : ∀ s', c.shards[i]? = some s' → s'.changeable = true ∧ Q2 s'.rt := by
            intro s' hs'; rw [hs] at hs'; cases hs'; exact ⟨hcond, hQh _ ex hex⟩
          have := allevHeadShardX hp hh (Gen.headExpect swr o ex) (orderFor orders i) c i hsrc hc
          generalize allevHeadShard o (Gen.headExpect swr o ex) (orderFor orders i) c i = r at this
          obtain ⟨c', n⟩ := r
          exact ih c' _ this
        · exact ih c need hc
      · exact ih c need hc

theorem alleviateX (hp : PresX o Q1 Q2 D P) (swr : Swr) (hQp : ∀ r, Gen.procTrigger swr o r = true → Q1 r)
    (hQh : ∀ r ex, headThreshold swr o r = some ex → Q2 r) (sc : Sched) (c : CS) (hc : P c) :
    P (alleviate swr o sc c).1 := by
  unfold alleviate
  split
  · exact hc
  · simp only
    have h1 := allevProcAllX hp swr hQp sc.allevProc (List.range c.shards.length) c 0 hc
    generalize allevProcAll swr o sc.allevProc (List.range c.shards.length) c 0 = r1 at h1
    obtain ⟨c1, np⟩ := r1
    simp only at h1 ⊢
    split
    · rename_i hhe
      have hh : o.maxHead ≠ 0 := (Sites.headEnabled_iff o).mp hhe
      have h2 := allevHeadAllX hp hh swr hQh sc.allevHead (List.range c.shards.length) c1 0 h1
      generalize allevHeadAll swr o sc.allevHead (List.range c.shards.length) c1 0 = r2 at h2
      obtain ⟨c2, nh⟩ := r2
      exact h2
    · exact h1

theorem alleviate_pres (hp : Pres o P) (swr : Swr) (sc : Sched) (c : CS) (hc : P c) :
    P (alleviate swr o sc c).1 :=
  alleviateX (hp.toX (fun _ => True) (fun _ => True) True) swr (fun _ _ => trivial) (fun _ _ _ => trivial) sc c hc

/-! ### first assignment -/

/-- keys present in some shard are either in the static `scraping` set or already processed -/
def KeysIn (scr : List Hash) (hs : List Hash) (c : CS) : Prop :=
  ∀ s ∈ c.shards, ∀ k v, s.scraping.get k = some v → k ∈ scr ∨ k ∉ hs

theorem place_keysIn {scr : List Hash} {hs : List Hash} {c : CS} {j : Nat} {h : Hash} {st : St} (k : Nat)
    (hq : KeysIn scr (h :: hs) c) (hnd : h ∉ hs) : KeysIn scr hs (place k c j h st) := by
  unfold place
  split
  · intro s hs' k' v hg
    rcases hq s hs' k' v hg with h1 | h1
    · exact Or.inl h1
    · exact Or.inr (fun hm => h1 (List.mem_cons_of_mem _ hm))
  · rename_i t ht
    intro s hs' k' v hg
    simp only at hs'
    rcases List.mem_or_eq_of_mem_set hs' with hmem | heq
    · rcases hq s hmem k' v hg with h1 | h1
      · exact Or.inl h1
      · exact Or.inr (fun hm => h1 (List.mem_cons_of_mem _ hm))
    · subst heq
      simp only at hg
      by_cases hk : h = k'
      · subst hk; exact Or.inr hnd
      · rw [AL.get_set_ne _ _ _ _ hk] at hg
        rcases hq t (List.mem_of_getElem? ht) k' v hg with h1 | h1
        · exact Or.inl h1
        · exact Or.inr (fun hm => h1 (List.mem_cons_of_mem _ hm))

theorem keysIn_tail {scr : List Hash} {hs : List Hash} {c : CS} {h : Hash}
    (hq : KeysIn scr (h :: hs) c) : KeysIn scr hs c := by
  intro s hs' k v hg
  rcases hq s hs' k v hg with h1 | h1
  · exact Or.inl h1
  · exact Or.inr (fun hm => h1 (List.mem_cons_of_mem _ hm))

theorem assignLoop_pres' {glob : Hash → St}
    (hplace : ∀ c j h, P c → PGuard o c j h (glob h) → P (place 0 c j h (glob h)))
    (hcrash : ∀ c, P c → P { c with crashed := true }) (scr : List Hash) :
    ∀ (hs : List Hash) (c : CS) (picks : List Nat) (need : Space), hs.Nodup → KeysIn scr hs c → P c →
      P (assignLoop o scr glob hs c picks need).1 := by
  intro hs
  induction hs with
  | nil => intro c picks need _ _ h; simpa [assignLoop] using h
  | cons h hs ih =>
    intro c picks need hnd hq hc
    have hnd' := (List.nodup_cons.mp hnd)
    unfold assignLoop
    split
    · exact hc
    · split
      · exact ih c picks need hnd'.2 (keysIn_tail hq) hc
      · rename_i hscr
        simp only
        split
        · exact ih c picks need hnd'.2 (keysIn_tail hq) hc
        · rename_i hskip
          split
          · exact ih c picks need hnd'.2 (keysIn_tail hq) hc
          · rename_i hbig
            split
            · rename_i j picks' hg
              apply ih _ _ _ hnd'.2 (place_keysIn 0 hq hnd'.1)
              apply hplace c j h hc
              obtain ⟨s, hs, _, hch, hfit⟩ := getFreeShard_some hg
              rw [Sites.spaceOfHead_eq, Sites.spaceOfProc_eq] at hfit
              refine ⟨s, hs, hch, ?_, ?_, ?_, fit_plfits hfit⟩
              · intro s' hs'
                cases hg' : s'.scraping.get h with
                | none => rfl
                | some v =>
                  rcases hq s' hs' h v hg' with h1 | h1
                  · simp at hscr; exact absurd h1 hscr
                  · exact absurd List.mem_cons_self h1
              · have := (not_congr (Sites.assignSkip_iff (glob h))).mp hskip
                simpa using this
              · simpa using hbig
            · exact ih c _ _ hnd'.2 (keysIn_tail hq) hc
            · exact hcrash c hc

theorem assignLoop_pres {glob : Hash → St} (hp : PresA o glob P) (scr : List Hash) :
    ∀ (hs : List Hash) (c : CS) (picks : List Nat) (need : Space), hs.Nodup → KeysIn scr hs c → P c →
      P (assignLoop o scr glob hs c picks need).1 :=
  assignLoop_pres' hp.place hp.crash scr

theorem keysIn_init (c : CS) (hs : List Hash) : KeysIn (scrapingSetOf c.shards) hs c := by
  intro s hs' k v hg
  left
  unfold scrapingSetOf
  simp only [List.mem_flatten, List.mem_map]
  exact ⟨s.scraping.keys, ⟨s, hs', rfl⟩, AL.get_some_mem_keys _ _ _ hg⟩

theorem assign_pres' {glob : Hash → St}
    (hplace : ∀ c j h, P c → PGuard o c j h (glob h) → P (place 0 c j h (glob h)))
    (hcrash : ∀ c, P c → P { c with crashed := true }) (active : List Hash) (sc : Sched) (c : CS)
    (hc : P c) : P (assign o active glob sc c).1 := by
  unfold assign
  exact assignLoop_pres' hplace hcrash _ _ c _ _ (uniq_nodup _) (keysIn_init c _) hc

theorem assign_pres {glob : Hash → St} (hp : PresA o glob P) (active : List Hash) (sc : Sched) (c : CS)
    (hc : P c) : P (assign o active glob sc c).1 :=
  assign_pres' hp.place hp.crash active sc c hc

/-! ### scale-down -/

theorem sbiLoopX (hp : PresX o Q1 Q2 D P) (hD : D) (i : Nat) :
    ∀ (hs : List Hash) (c : CS) (picks : List Nat), (∀ s, c.shards[i]? = some s → s.changeable = true) →
      P c → P (sbiLoop o i hs c picks).1 := by
  intro hs
  induction hs with
  | nil => intro c picks _ h; simpa [sbiLoop] using h
  | cons h hs ih =>
    intro c picks hsrc hc
    unfold sbiLoop
    split
    · exact hc
    · rename_i src hsrc'
      split
      · exact ih c picks hsrc hc
      · rename_i tar htar
        split
        · exact ih c picks hsrc hc
        · rename_i hskip
          split
          · rename_i j picks' hg
            apply ih _ _ (transfer_src_changeable _ c i j h hsrc)
            obtain ⟨s2, hs2, hlt, hch, hfit⟩ := getFreeShard_some hg
            have hsk := (not_congr (Sites.sbiSkip_iff tar)).mp hskip
            simp only [not_or, Decidable.not_not, Nat.not_lt] at hsk
            apply hp.transfer 3 c i j h hc
            · rw [Sites.sbiSpaceHead_eq, Sites.sbiSpaceProc_eq] at hfit
              exact ⟨src, s2, tar, hsrc', hs2, htar, hsrc src hsrc', hch, Nat.ne_of_lt hlt, hsk.1, hsk.2,
                fit_plfits hfit, fun _ => hlt, Or.inr (Or.inr rfl)⟩
            · intro f tar' hf htar'
              rw [hsrc'] at hf; cases hf
              rw [htar] at htar'; cases htar'
              refine ⟨fun h1 => absurd h1 (by decide), fun h2 => absurd h2 (by decide), fun _ => hD,
                fun hk j' s' hlt' _ hs'' hch' hfitb => ?_⟩
              · have hff : Gen.firstFit o = true := by
                  rcases hk with hk | hk | hk
                  · exact absurd hk (by decide)
                  · exact absurd hk (by decide)
                  · exact hk
                refine getFreeShard_first hff hg j' s' hlt' hs'' ⟨hch', ?_⟩
                rw [Sites.fit_iff, Sites.sbiSpaceHead_eq, Sites.sbiSpaceProc_eq]
                refine ⟨?_, hfitb.2⟩
                by_cases hz : o.maxHead = 0
                · exact Or.inl hz
                · exact Or.inr (hfitb.1 hz)
          · exact hc
          · exact hp.crash c hc

theorem sdLoopX (hp : PresX o Q1 Q2 D P) (hD : D) (sc : Sched) :
    ∀ (k : Nat) (c : CS) (picks : List Nat), P c → P (sdLoop o sc k c picks) := by
  intro k
  induction k with
  | zero => intro c picks h; simpa [sdLoop] using h
  | succ k ih =>
    intro c picks hc
    unfold sdLoop
    split
    · exact ih c picks hc
    · split
      · exact ih c picks hc
      · simp only
        split
        · exact hc
        · rename_i src hsrc _ hcbi
          have hch : ∀ s, c.shards[k + 1]? = some s → s.changeable = true := by
            intro s hs; rw [hsrc] at hs; cases hs
            simp only [Bool.not_eq_true, Bool.not_eq_false'] at hcbi
            unfold shardCanBeIdle at hcbi
            rw [hsrc] at hcbi
            simp only at hcbi
            split at hcbi
            · cases hcbi
            · rename_i hb
              have := (not_congr (Sites.cbiBlocked_iff src.changeable)).mp hb
              simpa using this
          have := sbiLoopX hp hD (k + 1)
            (uniq ((orderFor sc.becomeIdle (k + 1)).filter src.scraping.keys.contains)) c picks hch hc
          generalize sbiLoop o (k + 1)
            (uniq ((orderFor sc.becomeIdle (k + 1)).filter src.scraping.keys.contains)) c picks = r at this
          obtain ⟨c', picks', ok⟩ := r
          simp only at this ⊢
          split
          · exact this
          · exact ih c' picks' this

theorem tryScaleDownX (hp : PresX o Q1 Q2 D P) (hD : D) (sc : Sched) (c : CS) (picks : List Nat) (hc : P c) :
    P (tryScaleDown o sc c picks).2 := by
  unfold tryScaleDown
  exact sdLoopX hp hD sc _ c picks hc

theorem sbiLoop_pres (hp : Pres o P) (i : Nat) :
    ∀ (hs : List Hash) (c : CS) (picks : List Nat), (∀ s, c.shards[i]? = some s → s.changeable = true) →
      P c → P (sbiLoop o i hs c picks).1 :=
  sbiLoopX (hp.toX (fun _ => True) (fun _ => True) True) trivial i

theorem sdLoop_pres (hp : Pres o P) (sc : Sched) :
    ∀ (k : Nat) (c : CS) (picks : List Nat), P c → P (sdLoop o sc k c picks) :=
  sdLoopX (hp.toX (fun _ => True) (fun _ => True) True) trivial sc

theorem tryScaleDown_pres (hp : Pres o P) (sc : Sched) (c : CS) (picks : List Nat) (hc : P c) :
    P (tryScaleDown o sc c picks).2 :=
  tryScaleDownX (hp.toX (fun _ => True) (fun _ => True) True) trivial sc c picks hc

end

/-- the cycle state an outcome was produced from -/
def Outcome.cs (out : Outcome) : CS := ⟨out.final, out.log, out.crashed⟩

/-- the state the cycle starts its placement stages from -/
def startCS (inp : Input) : CS :=
  { shards := gc inp.opt inp.active ((inp.probes.map getInfo).map (·.1)) }

/-- the cycle stops before any placement stage when the early `ChangeScale` fails -/
def stopsEarly (inp : Input) : Bool :=
  Gen.earlyMin inp.opt ((inp.probes.map getInfo).map (·.1)).length (nChangeable ((inp.probes.map getInfo).map (·.1)))
    && inp.scaleErr1

/-- **lifting**: an invariant of the three placement operations holds of the state a cycle ends in -/
theorem cycle_presX {P : CS → Prop} {Q1 Q2 : Rt → Prop} {D : Prop} (swr : Swr) (sc : Sched) (inp : Input)
    (hp : PresAX inp.opt Q1 Q2 D (globalOf ((inp.probes.map getInfo).map (·.1)) inp.explore) P)
    (hQp : ∀ r, Gen.procTrigger swr inp.opt r = true → Q1 r)
    (hQh : ∀ r ex, headThreshold swr inp.opt r = some ex → Q2 r)
    (hD : Gen.scaleDownOn inp.opt = true → D)
    (h0 : P (startCS inp)) (hne : stopsEarly inp = false) :
    P (cycle swr sc inp).cs := by
  unfold stopsEarly at hne
  unfold cycle Outcome.cs
  simp only
  split
  · rename_i h; rw [h] at hne; cases hne
  · have h2 := alleviateX hp.toPresX swr hQp hQh sc (startCS inp) h0
    unfold startCS at h2
    generalize alleviate swr inp.opt sc
      { shards := gc inp.opt inp.active ((inp.probes.map getInfo).map (·.1)) } = r2 at h2
    obtain ⟨c2, need1⟩ := r2
    simp only at h2 ⊢
    have h3 := assign_pres' hp.place hp.crash inp.active sc c2 h2
    generalize assign inp.opt inp.active
      (globalOf ((inp.probes.map getInfo).map (·.1)) inp.explore) sc c2 = r3 at h3
    obtain ⟨c3, picks, need2⟩ := r3
    simp only at h3 ⊢
    split
    · exact hp.crash c3 h3
    · rename_i hnc
      have hc3 : c3.crashed = false := by
        simp only [Bool.or_eq_true, not_or, Bool.not_eq_true] at hnc; exact hnc.1
      have e3 : (⟨c3.shards, c3.log, false⟩ : CS) = c3 := by
        cases c3; simp_all
      split
      · split
        · rename_i hcr; simp [hc3] at hcr
        · simpa [e3] using h3
      · split
        · rename_i hsd
          have h4 := tryScaleDownX hp.toPresX (hD hsd) sc c3 picks h3
          generalize tryScaleDown inp.opt sc c3 picks = r4 at h4
          obtain ⟨scale, c4⟩ := r4
          simp only at h4 ⊢
          split
          · exact hp.crash c4 h4
          · rename_i hnc4
            have : (⟨c4.shards, c4.log, false⟩ : CS) = c4 := by
              cases c4; simp_all
            simpa [this] using h4
        · split
          · rename_i hcr; simp [hc3] at hcr
          · simpa [e3] using h3

theorem cycle_pres {P : CS → Prop} (swr : Swr) (sc : Sched) (inp : Input)
    (hp : PresA inp.opt (globalOf ((inp.probes.map getInfo).map (·.1)) inp.explore) P)
    (h0 : P (startCS inp)) (hne : stopsEarly inp = false) :
    P (cycle swr sc inp).cs :=
  cycle_presX swr sc inp (hp.toAX (fun _ => True) (fun _ => True) True) (fun _ _ => trivial) (fun _ _ _ => trivial)
    (fun _ => trivial) h0 hne

end Kvass.Coord
