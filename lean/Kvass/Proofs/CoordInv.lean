/-
  Generic invariant lifting for the coordinator cycle.

  A predicate `P` on the cycle state that is preserved by `transfer` (under everything that is
  known at a `transferTarget` call site: `TGuard`), by `place` (under `PGuard`) and by setting the
  crash flag holds after alleviation / first assignment / scale-down whenever it held before —
  for every schedule.  Properties instantiate `P`; the loop inductions are done once, here.
-/
import Kvass.Proofs.CoordLog
import Kvass.Proofs.ListUtil

namespace Kvass.Coord
open Kvass

/-- what is known when `transferTarget(from = i, to = j, h)` is called (kind 1,2: relief; 3: scale-down) -/
def TGuard (o : Opt) (k : Nat) (c : CS) (i j : Nat) (h : Hash) : Prop :=
  ∃ f t tar, c.shards[i]? = some f ∧ c.shards[j]? = some t ∧ f.scraping.get h = some tar ∧
    f.changeable = true ∧ t.changeable = true ∧ j ≠ i ∧ tar.state = .normal ∧ 3 ≤ tar.times ∧
    ((o.maxHead ≠ 0 → t.rt.head + tar.series < o.maxHead) ∧ t.rt.proc + tar.total < o.maxProc) ∧
    (k = 3 → j < i) ∧ (k = 1 ∨ k = 2 ∨ k = 3)

/-- what is known when a first assignment of `h` (status `st`) to shard `j` is made -/
def PGuard (o : Opt) (c : CS) (j : Nat) (h : Hash) (st : St) : Prop :=
  ∃ t, c.shards[j]? = some t ∧ t.changeable = true ∧
    (∀ s ∈ c.shards, s.scraping.get h = none) ∧
    st.health = .good ∧ Gen.tooBig o st = false ∧
    ((o.maxHead ≠ 0 → t.rt.head + st.series < o.maxHead) ∧ t.rt.proc + st.total < o.maxProc)

structure Pres (o : Opt) (P : CS → Prop) : Prop where
  transfer : ∀ k c i j h, P c → TGuard o k c i j h → P (transfer k c i j h)
  crash : ∀ c, P c → P { c with crashed := true }

structure PresA (o : Opt) (glob : Hash → St) (P : CS → Prop) : Prop extends Pres o P where
  place : ∀ c j h, P c → PGuard o c j h (glob h) → P (place 0 c j h (glob h))

/-- the source of a transfer keeps its `changeable` flag -/
theorem transfer_src_changeable (k : Nat) (c : CS) (i j : Nat) (h : Hash)
    (hsrc : ∀ s, c.shards[i]? = some s → s.changeable = true) :
    ∀ s, (transfer k c i j h).shards[i]? = some s → s.changeable = true := by
  unfold transfer
  split
  · rename_i f t hf ht
    split
    · exact hsrc
    · rename_i tar htar
      intro s hs
      simp only at hs
      obtain ⟨b', hb'⟩ := getElem?_set_some (j := j) (a := ({ t with
          rt := { t.rt with proc := Gen.transferProc t.rt tar, head := Gen.transferHead t.rt tar },
          scraping := t.scraping.set h tar } : SI)) hf
      rw [getElem?_set_self' hb'] at hs
      cases hs
      exact hsrc f hf
  · exact hsrc

section
variable {o : Opt} {P : CS → Prop}

theorem fit_of_opt {o : Opt} {r : Rt} {a b : Int}
    (h : (o.maxHead = 0 ∨ r.head + a < o.maxHead) ∧ r.proc + b < o.maxProc) :
    (o.maxHead ≠ 0 → r.head + a < o.maxHead) ∧ r.proc + b < o.maxProc := by
  refine ⟨fun hne => ?_, h.2⟩
  rcases h.1 with h0 | h1
  · exact absurd h0 hne
  · exact h1

theorem apLoop_pres (hp : Pres o P) (i : Nat) (exp : Int) :
    ∀ (hs : List Hash) (c : CS) (total : Int), (∀ s, c.shards[i]? = some s → s.changeable = true) →
      P c → P (apLoop o i exp hs c total).1 := by
  intro hs
  induction hs with
  | nil => intro c total _ h; simpa [apLoop] using h
  | cons h hs ih =>
    intro c total hsrc hc
    unfold apLoop
    split
    · exact hc
    · split
      · exact hc
      · rename_i s hs'
        split
        · exact ih c total hsrc hc
        · rename_i tar htar
          split
          · exact ih c total hsrc hc
          · rename_i hskip
            split
            · exact hc
            · split
              · rename_i j hj
                apply ih _ _ (transfer_src_changeable _ c i j h hsrc)
                apply hp.transfer 1 c i j h hc
                obtain ⟨s2, hs2, hch, hne, hcond⟩ := firstDst_spec hj
                have hsk := (not_congr (Sites.apSkip_iff tar)).mp hskip
                simp only [not_or, Decidable.not_not, Nat.not_lt] at hsk
                exact ⟨s, s2, tar, hs', hs2, htar, hsrc s hs', hch, hne, hsk.2.1, hsk.2.2.2,
                  fit_of_opt ((Sites.apDst_iff o s2.rt tar).mp hcond), by simp, Or.inl rfl⟩
              · exact ih c total hsrc hc

theorem ahLoop_pres (hp : Pres o P) (i : Nat) (exp : Int) :
    ∀ (hs : List Hash) (c : CS) (total : Int), (∀ s, c.shards[i]? = some s → s.changeable = true) →
      P c → P (ahLoop o i exp hs c total).1 := by
  intro hs
  induction hs with
  | nil => intro c total _ h; simpa [ahLoop] using h
  | cons h hs ih =>
    intro c total hsrc hc
    unfold ahLoop
    split
    · exact hc
    · split
      · exact hc
      · rename_i s hs'
        split
        · exact ih c total hsrc hc
        · rename_i tar htar
          split
          · exact ih c total hsrc hc
          · rename_i hskip
            split
            · exact hc
            · split
              · rename_i j hj
                apply ih _ _ (transfer_src_changeable _ c i j h hsrc)
                apply hp.transfer 2 c i j h hc
                obtain ⟨s2, hs2, hch, hne, hcond⟩ := firstDst_spec hj
                have hsk := (not_congr (Sites.ahSkip_iff tar)).mp hskip
                simp only [not_or, Decidable.not_not, Nat.not_lt] at hsk
                have hd := (Sites.ahDst_iff o s2.rt tar).mp hcond
                exact ⟨s, s2, tar, hs', hs2, htar, hsrc s hs', hch, hne, hsk.1, hsk.2.2,
                  ⟨fun _ => hd.1, hd.2⟩, by simp, Or.inr (Or.inl rfl)⟩
              · exact ih c total hsrc hc

theorem allevProcShard_pres (hp : Pres o P) (exp : Int) (order : List Hash) (c : CS) (i : Nat)
    (hsrc : ∀ s, c.shards[i]? = some s → s.changeable = true)
    (hc : P c) : P (allevProcShard o exp order c i).1 := by
  unfold allevProcShard
  split
  · exact hc
  · simp only
    split
    · exact hc
    · have := apLoop_pres hp i exp order c (loadProc ‹SI›) hsrc hc
      generalize apLoop o i exp order c (loadProc ‹SI›) = r at this
      obtain ⟨c', total', aborted⟩ := r
      simp only at this ⊢
      split
      · exact this
      · split <;> exact this

theorem allevHeadShard_pres (hp : Pres o P) (exp : Int) (order : List Hash) (c : CS) (i : Nat)
    (hsrc : ∀ s, c.shards[i]? = some s → s.changeable = true)
    (hc : P c) : P (allevHeadShard o exp order c i).1 := by
  unfold allevHeadShard
  split
  · exact hc
  · simp only
    split
    · exact hc
    · have := ahLoop_pres hp i exp order c (loadHead ‹SI›) hsrc hc
      generalize ahLoop o i exp order c (loadHead ‹SI›) = r at this
      obtain ⟨c', total', aborted⟩ := r
      simp only at this ⊢
      split
      · exact this
      · split <;> exact this

theorem allevProcAll_pres (hp : Pres o P) (swr : Swr) (orders : List (List Hash)) :
    ∀ (is : List Nat) (c : CS) (need : Int), P c → P (allevProcAll swr o orders is c need).1 := by
  intro is
  induction is with
  | nil => intro c need h; simpa [allevProcAll] using h
  | cons i is ih =>
    intro c need hc
    unfold allevProcAll
    split
    · exact ih c need hc
    · split
      · rename_i s hs hcond
        have hsrc : ∀ s', c.shards[i]? = some s' → s'.changeable = true := by
          intro s' hs'; rw [hs] at hs'; cases hs'
          simp only [Bool.and_eq_true] at hcond; exact hcond.1
        have := allevProcShard_pres hp (Gen.procExpect swr o) (orderFor orders i) c i hsrc hc
        generalize allevProcShard o (Gen.procExpect swr o) (orderFor orders i) c i = r at this
        obtain ⟨c', n⟩ := r
        exact ih c' _ this
      · exact ih c need hc

theorem allevHeadAll_pres (hp : Pres o P) (swr : Swr) (orders : List (List Hash)) :
    ∀ (is : List Nat) (c : CS) (need : Int), P c → P (allevHeadAll swr o orders is c need).1 := by
  intro is
  induction is with
  | nil => intro c need h; simpa [allevHeadAll] using h
  | cons i is ih =>
    intro c need hc
    unfold allevHeadAll
    split
    · exact ih c need hc
    · split
      · split
        · rename_i s hs hcond _ ex _
          have hsrc : ∀ s', c.shards[i]? = some s' → s'.changeable = true := by
            intro s' hs'; rw [hs] at hs'; cases hs'; exact hcond
          have := allevHeadShard_pres hp (Gen.headExpect swr o ex) (orderFor orders i) c i hsrc hc
          generalize allevHeadShard o (Gen.headExpect swr o ex) (orderFor orders i) c i = r at this
          obtain ⟨c', n⟩ := r
          exact ih c' _ this
        · exact ih c need hc
      · exact ih c need hc

theorem alleviate_pres (hp : Pres o P) (swr : Swr) (sc : Sched) (c : CS) (hc : P c) :
    P (alleviate swr o sc c).1 := by
  unfold alleviate
  split
  · exact hc
  · simp only
    have h1 := allevProcAll_pres hp swr sc.allevProc (List.range c.shards.length) c 0 hc
    generalize allevProcAll swr o sc.allevProc (List.range c.shards.length) c 0 = r1 at h1
    obtain ⟨c1, np⟩ := r1
    simp only at h1 ⊢
    split
    · have h2 := allevHeadAll_pres hp swr sc.allevHead (List.range c.shards.length) c1 0 h1
      generalize allevHeadAll swr o sc.allevHead (List.range c.shards.length) c1 0 = r2 at h2
      obtain ⟨c2, nh⟩ := r2
      exact h2
    · exact h1

/-! ### first assignment -/

/-- keys present in some shard are either in the static `scraping` set or already processed -/
def KeysIn (scr : List Hash) (hs : List Hash) (c : CS) : Prop :=
  ∀ s ∈ c.shards, ∀ k v, s.scraping.get k = some v → k ∈ scr ∨ k ∉ hs

theorem place_keysIn {scr : List Hash} {hs : List Hash} {c : CS} {j : Nat} {h : Hash} {st : St} (k : Nat)
    (hq : KeysIn scr (h :: hs) c) (hnd : h ∉ hs) : KeysIn scr hs (place k c j h st) := by
  unfold place
  split
  · intro s hs' k' v hg
    rcases hq s hs' k' v hg with h1 | h1
    · exact Or.inl h1
    · exact Or.inr (fun hm => h1 (List.mem_cons_of_mem _ hm))
  · rename_i t ht
    intro s hs' k' v hg
    simp only at hs'
    rcases List.mem_or_eq_of_mem_set hs' with hmem | heq
    · rcases hq s hmem k' v hg with h1 | h1
      · exact Or.inl h1
      · exact Or.inr (fun hm => h1 (List.mem_cons_of_mem _ hm))
    · subst heq
      simp only at hg
      by_cases hk : h = k'
      · subst hk; exact Or.inr hnd
      · rw [AL.get_set_ne _ _ _ _ hk] at hg
        rcases hq t (List.mem_of_getElem? ht) k' v hg with h1 | h1
        · exact Or.inl h1
        · exact Or.inr (fun hm => h1 (List.mem_cons_of_mem _ hm))

theorem keysIn_tail {scr : List Hash} {hs : List Hash} {c : CS} {h : Hash}
    (hq : KeysIn scr (h :: hs) c) : KeysIn scr hs c := by
  intro s hs' k v hg
  rcases hq s hs' k v hg with h1 | h1
  · exact Or.inl h1
  · exact Or.inr (fun hm => h1 (List.mem_cons_of_mem _ hm))

theorem assignLoop_pres {glob : Hash → St} (hp : PresA o glob P) (scr : List Hash) :
    ∀ (hs : List Hash) (c : CS) (picks : List Nat) (need : Space), hs.Nodup → KeysIn scr hs c → P c →
      P (assignLoop o scr glob hs c picks need).1 := by
  intro hs
  induction hs with
  | nil => intro c picks need _ _ h; simpa [assignLoop] using h
  | cons h hs ih =>
    intro c picks need hnd hq hc
    have hnd' := (List.nodup_cons.mp hnd)
    unfold assignLoop
    split
    · exact hc
    · split
      · exact ih c picks need hnd'.2 (keysIn_tail hq) hc
      · rename_i hscr
        simp only
        split
        · exact ih c picks need hnd'.2 (keysIn_tail hq) hc
        · rename_i hskip
          split
          · exact ih c picks need hnd'.2 (keysIn_tail hq) hc
          · rename_i hbig
            split
            · rename_i j picks' hg
              apply ih _ _ _ hnd'.2 (place_keysIn 0 hq hnd'.1)
              apply hp.place c j h hc
              obtain ⟨s, hs, _, hch, hfit⟩ := getFreeShard_some hg
              rw [Sites.spaceOfHead_eq, Sites.spaceOfProc_eq] at hfit
              refine ⟨s, hs, hch, ?_, ?_, ?_, fit_plfits hfit⟩
              · intro s' hs'
                cases hg' : s'.scraping.get h with
                | none => rfl
                | some v =>
                  rcases hq s' hs' h v hg' with h1 | h1
                  · simp at hscr; exact absurd h1 hscr
                  · exact absurd List.mem_cons_self h1
              · have := (not_congr (Sites.assignSkip_iff (glob h))).mp hskip
                simpa using this
              · simpa using hbig
            · exact ih c _ _ hnd'.2 (keysIn_tail hq) hc
            · exact hp.crash c hc

theorem keysIn_init (c : CS) (hs : List Hash) : KeysIn (scrapingSetOf c.shards) hs c := by
  intro s hs' k v hg
  left
  unfold scrapingSetOf
  simp only [List.mem_flatten, List.mem_map]
  exact ⟨s.scraping.keys, ⟨s, hs', rfl⟩, AL.get_some_mem_keys _ _ _ hg⟩

theorem assign_pres {glob : Hash → St} (hp : PresA o glob P) (active : List Hash) (sc : Sched) (c : CS)
    (hc : P c) : P (assign o active glob sc c).1 := by
  unfold assign
  exact assignLoop_pres hp _ _ c _ _ (uniq_nodup _) (keysIn_init c _) hc

/-! ### scale-down -/

theorem sbiLoop_pres (hp : Pres o P) (i : Nat) :
    ∀ (hs : List Hash) (c : CS) (picks : List Nat), (∀ s, c.shards[i]? = some s → s.changeable = true) →
      P c → P (sbiLoop o i hs c picks).1 := by
  intro hs
  induction hs with
  | nil => intro c picks _ h; simpa [sbiLoop] using h
  | cons h hs ih =>
    intro c picks hsrc hc
    unfold sbiLoop
    split
    · exact hc
    · rename_i src hsrc'
      split
      · exact ih c picks hsrc hc
      · rename_i tar htar
        split
        · exact ih c picks hsrc hc
        · rename_i hskip
          split
          · rename_i j picks' hg
            apply ih _ _ (transfer_src_changeable _ c i j h hsrc)
            apply hp.transfer 3 c i j h hc
            obtain ⟨s2, hs2, hlt, hch, hfit⟩ := getFreeShard_some hg
            rw [Sites.sbiSpaceHead_eq, Sites.sbiSpaceProc_eq] at hfit
            have hsk := (not_congr (Sites.sbiSkip_iff tar)).mp hskip
            simp only [not_or, Decidable.not_not, Nat.not_lt] at hsk
            exact ⟨src, s2, tar, hsrc', hs2, htar, hsrc src hsrc', hch, Nat.ne_of_lt hlt, hsk.1, hsk.2,
              fit_plfits hfit, fun _ => hlt, Or.inr (Or.inr rfl)⟩
          · exact hc
          · exact hp.crash c hc

theorem sdLoop_pres (hp : Pres o P) (sc : Sched) :
    ∀ (k : Nat) (c : CS) (picks : List Nat), P c → P (sdLoop o sc k c picks) := by
  intro k
  induction k with
  | zero => intro c picks h; simpa [sdLoop] using h
  | succ k ih =>
    intro c picks hc
    unfold sdLoop
    split
    · exact ih c picks hc
    · split
      · exact ih c picks hc
      · simp only
        split
        · exact hc
        · rename_i src hsrc _ hcbi
          have hch : ∀ s, c.shards[k + 1]? = some s → s.changeable = true := by
            intro s hs; rw [hsrc] at hs; cases hs
            simp only [Bool.not_eq_true, Bool.not_eq_false'] at hcbi
            unfold shardCanBeIdle at hcbi
            rw [hsrc] at hcbi
            simp only at hcbi
            split at hcbi
            · cases hcbi
            · rename_i hb
              have := (not_congr (Sites.cbiBlocked_iff src.changeable)).mp hb
              simpa using this
          have := sbiLoop_pres hp (k + 1)
            (uniq ((orderFor sc.becomeIdle (k + 1)).filter src.scraping.keys.contains)) c picks hch hc
          generalize sbiLoop o (k + 1)
            (uniq ((orderFor sc.becomeIdle (k + 1)).filter src.scraping.keys.contains)) c picks = r at this
          obtain ⟨c', picks', ok⟩ := r
          simp only at this ⊢
          split
          · exact this
          · exact ih c' picks' this

theorem tryScaleDown_pres (hp : Pres o P) (sc : Sched) (c : CS) (picks : List Nat) (hc : P c) :
    P (tryScaleDown o sc c picks).2 := by
  unfold tryScaleDown
  exact sdLoop_pres hp sc _ c picks hc

end

/-- the cycle state an outcome was produced from -/
def Outcome.cs (out : Outcome) : CS := ⟨out.final, out.log, out.crashed⟩

/-- the state the cycle starts its placement stages from -/
def startCS (inp : Input) : CS :=
  { shards := gc inp.opt inp.active ((inp.probes.map getInfo).map (·.1)) }

/-- the cycle stops before any placement stage when the early `ChangeScale` fails -/
def stopsEarly (inp : Input) : Bool :=
  Gen.earlyMin inp.opt ((inp.probes.map getInfo).map (·.1)).length (nChangeable ((inp.probes.map getInfo).map (·.1)))
    && inp.scaleErr1

/-- **lifting**: an invariant of the three placement operations holds of the state a cycle ends in -/
theorem cycle_pres {P : CS → Prop} (swr : Swr) (sc : Sched) (inp : Input)
    (hp : PresA inp.opt (globalOf ((inp.probes.map getInfo).map (·.1)) inp.explore) P)
    (h0 : P (startCS inp)) (hne : stopsEarly inp = false) :
    P (cycle swr sc inp).cs := by
  unfold stopsEarly at hne
  unfold cycle Outcome.cs
  simp only
  split
  · rename_i h; rw [h] at hne; cases hne
  · have h2 := alleviate_pres hp.toPres swr sc (startCS inp) h0
    unfold startCS at h2
    generalize alleviate swr inp.opt sc
      { shards := gc inp.opt inp.active ((inp.probes.map getInfo).map (·.1)) } = r2 at h2
    obtain ⟨c2, need1⟩ := r2
    simp only at h2 ⊢
    have h3 := assign_pres hp inp.active sc c2 h2
    generalize assign inp.opt inp.active
      (globalOf ((inp.probes.map getInfo).map (·.1)) inp.explore) sc c2 = r3 at h3
    obtain ⟨c3, picks, need2⟩ := r3
    simp only at h3 ⊢
    split
    · exact hp.crash c3 h3
    · rename_i hnc
      have hc3 : c3.crashed = false := by
        simp only [Bool.or_eq_true, not_or, Bool.not_eq_true] at hnc; exact hnc.1
      have e3 : (⟨c3.shards, c3.log, false⟩ : CS) = c3 := by
        cases c3; simp_all
      split
      · split
        · rename_i hcr; simp [hc3] at hcr
        · simpa [e3] using h3
      · split
        · have h4 := tryScaleDown_pres hp.toPres sc c3 picks h3
          generalize tryScaleDown inp.opt sc c3 picks = r4 at h4
          obtain ⟨scale, c4⟩ := r4
          simp only at h4 ⊢
          split
          · exact hp.crash c4 h4
          · rename_i hnc4
            have : (⟨c4.shards, c4.log, false⟩ : CS) = c4 := by
              cases c4; simp_all
            simpa [this] using h4
        · split
          · rename_i hcr; simp [hc3] at hcr
          · simpa [e3] using h3

end Kvass.Coord
