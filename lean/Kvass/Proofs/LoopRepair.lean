/-
  One fault-free cycle repairs what a fault can leave behind — on the plan (`Coord.cycle`), and,
  through `applyOutcome_report`, on what the sidecars report afterwards:
    * a copy in transfer that no other in-sync shard knows is in normal state again, or has a
      normal partner (it was moved on in the same cycle);
    * at most one in-sync shard holds a target in normal state, if that was so after `gcTargets`
      (which drops one side of a normal-state duplicate).
-/
import Kvass.Proofs.LoopPlan
import Kvass.Proofs.CoordGcWhole

namespace Kvass.Coord
open Kvass Kvass.Spec

/-! ### at most one normal copy -/

/-- no two in-sync shards hold `h` in normal state -/
def OneNormalAt (h : Hash) (c : CS) : Prop :=
  ∀ (a b : Nat) (sa sb : SI) (va vb : St), a ≠ b → c.shards[a]? = some sa → c.shards[b]? = some sb →
    sa.changeable = true → sb.changeable = true →
    sa.scraping.get h = some va → sb.scraping.get h = some vb → va.state = .normal → vb.state = .normal → False

theorem oneNormal_presA (o : Opt) (glob : Hash → St) (h0 : Hash) : PresA o glob (OneNormalAt h0) where
  crash := fun c hc => hc
  transfer := by
    intro k c i j h hc hg
    obtain ⟨f, t, tar, hf, ht, hget, hfc, htc, hji, hnorm, _⟩ := hg
    intro a b sa sb va vb hab hsa hsb hca hcb hva hvb hna hnb
    obtain ⟨sa0, hsa0, hcha, hka⟩ := transfer_entries_back k c i j h f t tar hf ht hget hji a sa hsa
    obtain ⟨sb0, hsb0, hchb, hkb⟩ := transfer_entries_back k c i j h f t tar hf ht hget hji b sb hsb
    rw [hka h0] at hva
    rw [hkb h0] at hvb
    by_cases hh : h0 = h
    · subst hh
      -- neither is the source (its copy is in transfer now)
      have hai : a ≠ i := by
        intro e; subst e
        simp at hva; subst hva; cases hna
      have hbi : b ≠ i := by
        intro e; subst e
        simp at hvb; subst hvb; cases hnb
      simp only [hai, hbi, and_false, if_false, true_and] at hva hvb
      by_cases haj : a = j
      · subst haj
        have hbj : b ≠ a := Ne.symm hab
        simp only [hbj, if_false] at hvb
        exact hc i b f sb0 tar vb (Ne.symm hbi) hf hsb0 hfc (by rw [← hchb]; exact hcb) hget hvb hnorm hnb
      · simp only [haj, if_false] at hva
        by_cases hbj : b = j
        · subst hbj
          exact hc i a f sa0 tar va (Ne.symm hai) hf hsa0 hfc (by rw [← hcha]; exact hca) hget hva hnorm hna
        · simp only [hbj, if_false] at hvb
          exact hc a b sa0 sb0 va vb hab hsa0 hsb0 (by rw [← hcha]; exact hca) (by rw [← hchb]; exact hcb) hva hvb hna hnb
    · simp only [hh, false_and, if_false] at hva hvb
      exact hc a b sa0 sb0 va vb hab hsa0 hsb0 (by rw [← hcha]; exact hca) (by rw [← hchb]; exact hcb) hva hvb hna hnb
  place := by
    intro c j h hc hg
    obtain ⟨t, ht, _, hnone, _⟩ := hg
    obtain ⟨_, back⟩ := place_entries c j h (glob h) t ht
    intro a b sa sb va vb hab hsa hsb hca hcb hva hvb hna hnb
    obtain ⟨sa0, hsa0, hcha, hka⟩ := back a sa hsa
    obtain ⟨sb0, hsb0, hchb, hkb⟩ := back b sb hsb
    rw [hka h0] at hva
    rw [hkb h0] at hvb
    by_cases hh : h0 = h
    · subst hh
      -- nobody held it before, so at most the destination does now
      by_cases haj : a = j
      · have hbj : b ≠ j := fun e => hab (haj.trans e.symm)
        simp only [hbj, and_false, if_false] at hvb
        rw [hnone sb0 (List.mem_of_getElem? hsb0)] at hvb; cases hvb
      · simp only [haj, and_false, if_false] at hva
        rw [hnone sa0 (List.mem_of_getElem? hsa0)] at hva; cases hva
    · simp only [hh, false_and, if_false] at hva hvb
      exact hc a b sa0 sb0 va vb hab hsa0 hsb0 (by rw [← hcha]; exact hca) (by rw [← hchb]; exact hcb) hva hvb hna hnb

/-- **uniqueness is kept by a whole cycle**: if after `gcTargets` at most one in-sync shard holds
    `h` in normal state, the same is true of the final plan — for every schedule -/
theorem cycle_oneNormal (swr : Swr) (sc : Sched) (inp : Input) (h : Hash) (hne : stopsEarly inp = false)
    (h0 : OneNormalAt h (startCS inp)) : OneNormalAt h (cycle swr sc inp).cs :=
  cycle_pres swr sc inp (oneNormal_presA inp.opt _ h) h0 hne

/-! ### a copy in transfer that was normal (or absent) after gc has a normal partner -/

def NH2 (inp : Input) (c : CS) : Prop :=
  ∀ (i : Nat) (s : SI) (h : Hash) (v : St), c.shards[i]? = some s → s.scraping.get h = some v → v.state = .inTransfer →
    h ∈ inp.active → (∃ (x : Nat) (p : Probe), inp.probes[x]? = some p ∧ (reported p).has h = true) →
    (∀ s0 v0, (startCS inp).shards[i]? = some s0 → s0.scraping.get h = some v0 → v0.state = .normal) →
    ∃ (d : Nat) (sd : SI) (vd : St), d ≠ i ∧ c.shards[d]? = some sd ∧ sd.changeable = true ∧
      sd.scraping.get h = some vd ∧ vd.state = .normal

structure MoveInv2 (inp : Input) (c : CS) : Prop where
  prov : ProvInv inp c
  nh : NH2 inp c

theorem moveInv2_presA (inp : Input) (glob : Hash → St) : PresA inp.opt glob (MoveInv2 inp) where
  crash := fun c hc => ⟨(provInv_presA inp glob).crash c hc.prov, hc.nh⟩
  transfer := by
    intro k c i j h hc hg
    refine ⟨(provInv_presA inp glob).transfer k c i j h hc.prov hg, ?_⟩
    obtain ⟨f, t, tar, hf, ht, hget, _, htc, hji, hnorm, _⟩ := hg
    intro m s k' v hs hv hvst ha hrep hst0
    obtain ⟨s0, hs0, _, hk⟩ := transfer_entries_back k c i j h f t tar hf ht hget hji m s hs
    by_cases hkh : k' = h
    · subst hkh
      obtain ⟨sj, hsj, hcj, hkj⟩ := transfer_entries k c i j k' f t tar hf ht hget hji j t ht
      by_cases hmj : m = j
      · subst hmj
        rw [hk k'] at hv
        simp [hji] at hv
        subst hv
        rw [hnorm] at hvst; cases hvst
      · refine ⟨j, sj, tar, Ne.symm hmj, hsj, by rw [hcj]; exact htc, ?_, hnorm⟩
        rw [hkj k']; simp [hji]
    · have hv0 : s0.scraping.get k' = some v := by rw [hk k'] at hv; simpa [hkh] using hv
      obtain ⟨d, sd, vd, hdm, hsd, hcd, hgd, hnd⟩ := hc.nh m s0 k' v hs0 hv0 hvst ha hrep hst0
      obtain ⟨sd', hsd', hcd', hkd'⟩ := transfer_entries k c i j h f t tar hf ht hget hji d sd hsd
      refine ⟨d, sd', vd, hdm, hsd', by rw [hcd']; exact hcd, ?_, hnd⟩
      rw [hkd' k']; simpa [hkh] using hgd
  place := by
    intro c j h hc hg
    refine ⟨(provInv_presA inp glob).place c j h hc.prov hg, ?_⟩
    obtain ⟨t, ht, _, hnone, _⟩ := hg
    obtain ⟨fwd, back⟩ := place_entries c j h (glob h) t ht
    intro m s k' v hs hv hvst ha hrep hst0
    obtain ⟨s0, hs0, _, hk⟩ := back m s hs
    by_cases hkh : k' = h
    · subst hkh
      exfalso
      obtain ⟨x, p, hp, hr⟩ := hrep
      obtain ⟨y, sy, hy, hgy⟩ := hc.prov.kept x p k' hp hr ha
      exact hgy (hnone sy (List.mem_of_getElem? hy))
    · have hv0 : s0.scraping.get k' = some v := by rw [hk k'] at hv; simpa [hkh] using hv
      obtain ⟨d, sd, vd, hdm, hsd, hcd, hgd, hnd⟩ := hc.nh m s0 k' v hs0 hv0 hvst ha hrep hst0
      obtain ⟨sd', hsd', hcd', hkd'⟩ := fwd d sd hsd
      refine ⟨d, sd', vd, hdm, hsd', by rw [hcd']; exact hcd, ?_, hnd⟩
      rw [hkd' k']; simpa [hkh] using hgd

theorem cycle_move2 (swr : Swr) (sc : Sched) (inp : Input) (hne : stopsEarly inp = false) :
    MoveInv2 inp (cycle swr sc inp).cs := by
  apply cycle_pres swr sc inp (moveInv2_presA inp _) _ hne
  refine ⟨provInv_start inp, ?_⟩
  intro i s h v hs hv hvst _ _ hst0
  exfalso
  have := hst0 s v hs hv
  rw [this] at hvst; cases hvst

end Kvass.Coord

namespace Kvass.Coord
open Kvass Kvass.Spec

theorem revertSt_normal (v : St) : (revertSt v).state = .normal := rfl

/-- **a lonely copy in transfer is repaired by one cycle (plan)**: for every schedule, if an in-sync
    shard reports a discovered target in transfer (scraped ≥ 3 times) and no other in-sync shard
    reports it, then in the final plan that shard holds it in normal state — or holds it in transfer
    next to an in-sync shard that holds it in normal state (it was moved on in the same cycle) -/
theorem lonely_repaired (swr : Swr) (sc : Sched) (inp : Input) (hne : stopsEarly inp = false)
    (hnd : ∀ p ∈ inp.probes, (reported p).keys.Nodup)
    {i : Nat} {p : Probe} {h : Hash} {r : St} (hp : inp.probes[i]? = some p) (hs : inSync p = true)
    (hr : (reported p).get h = some r) (hst : r.state = .inTransfer) (h3 : 3 ≤ r.times) (ha : h ∈ inp.active)
    (halone : ∀ k pk, inp.probes[k]? = some pk → k ≠ i → inSync pk = true → (reported pk).get h = none) :
    ∃ fin v, (cycle swr sc inp).final[i]? = some fin ∧ fin.scraping.get h = some v ∧
      (v.state = .normal ∨
       ∃ d sd vd, d ≠ i ∧ (cycle swr sc inp).final[d]? = some sd ∧ sd.changeable = true ∧
         sd.scraping.get h = some vd ∧ vd.state = .normal) := by
  have hi : (infos0 inp)[i]? = some (getInfo p).1 := by rw [infos0_get, hp]; rfl
  have hnd0 : ∀ (k : Nat) (s : SI), (infos0 inp)[k]? = some s → s.scraping.keys.Nodup := by
    intro k s hk
    obtain ⟨pk, hpk, rfl⟩ := infos0_get_some hk
    rw [getInfo_scraping]; exact hnd pk (List.mem_of_getElem? hpk)
  have hent := gc_lonely_reverts inp.opt inp.active (infos0 inp) i (getInfo p).1 h r hnd0 ha hi
    (by rw [getInfo_changeable]; exact hs) (by rw [getInfo_scraping]; exact hr) hst h3
    (by
      intro k sk hk hki hch
      obtain ⟨pk, hpk, rfl⟩ := infos0_get_some hk
      rw [getInfo_changeable] at hch
      rw [getInfo_scraping]
      exact halone k pk hpk hki hch)
  -- the entry after gc
  have hstart : ∃ s0, (startCS inp).shards[i]? = some s0 ∧ s0.scraping.get h = some (revertSt r) := by
    unfold entry at hent
    have e : (startCS inp).shards = gc inp.opt inp.active (infos0 inp) := rfl
    rw [e]
    cases hg : (gc inp.opt inp.active (infos0 inp))[i]? with
    | none => rw [hg] at hent; cases hent
    | some s0 => rw [hg] at hent; exact ⟨s0, rfl, hent⟩
  obtain ⟨s0, hs0, hg0⟩ := hstart
  -- keys only grow afterwards
  have grow := cycle_grows swr sc inp hne
  obtain ⟨fin, hfin, _, hkeys⟩ := grow.2 i s0 hs0
  obtain ⟨v, hv⟩ := hkeys h _ hg0
  refine ⟨fin, v, hfin, hv, ?_⟩
  cases hvs : v.state with
  | normal => exact Or.inl rfl
  | inTransfer =>
    right
    have mv := cycle_move2 swr sc inp hne
    exact mv.nh i fin h v hfin hv hvs ha ⟨i, p, hp, (AL.has_iff _ _).mpr ⟨r, hr⟩⟩
      (by
        intro s0' v0 hs0' hv0
        rw [hs0] at hs0'; cases hs0'
        rw [hg0] at hv0; cases hv0
        rfl)

end Kvass.Coord

namespace Kvass.Loop
open Kvass Kvass.Coord Kvass.Spec

/-- a planned entry of a discovered target -/
theorem planned_get_of (active : List Hash) (s : SI) (h : Hash) (v : St) (ha : h ∈ active)
    (hv : s.scraping.get h = some v) : (planned active s).get h = some v := by
  rw [planned_get]
  have : active.contains h = true := by simpa using ha
  rw [this]; simpa using hv

/-- **closed loop: a lonely copy in transfer is repaired by one fault-free cycle.**  If a running
    sidecar reports a discovered target in transfer (scraped ≥ 3 times) and no other running sidecar
    reports it, then after the requests of one full, crash-free, fault-free cycle that sidecar
    reports it in normal state, or another running sidecar does. -/
theorem loop_lonely_repaired (swr : Swr) (env : Env) (w : World) (sc : Sched)
    (hrep : w.replicas ≤ w.shards.length)
    (hne : stopsEarly (inputOf env w [] false) = false)
    (hnc : (cycle swr sc (inputOf env w [] false)).crashed = false)
    (hnd : ∀ sh ∈ w.running, (statusOf sh).keys.Nodup)
    {i : Nat} {sh : Shard} {h : Hash} {r : St} (hrun : w.running[i]? = some sh)
    (hr : (statusOf sh).get h = some r) (hst : r.state = .inTransfer) (h3 : 3 ≤ r.times) (ha : h ∈ w.active)
    (halone : ∀ k shk, w.running[k]? = some shk → k ≠ i → (statusOf shk).get h = none) :
    ∃ (d : Nat) (shd : Shard) (rd : St),
      (applyOutcome w [] (cycle swr sc (inputOf env w [] false))).shards[d]? = some shd ∧ d < w.replicas ∧
      (statusOf shd).get h = some rd ∧ rd.state = .normal ∧
      ((d = i) ∨ ∃ shi ri, (applyOutcome w [] (cycle swr sc (inputOf env w [] false))).shards[i]? = some shi ∧
        (statusOf shi).get h = some ri ∧ ri.state = .inTransfer) := by
  have hrl := running_length w hrep
  have hpI := inputOf_probe env w i sh hrun
  have hndI : ∀ p ∈ (inputOf env w [] false).probes, (reported p).keys.Nodup := by
    intro p hpm
    obtain ⟨k, hk⟩ := List.getElem?_of_mem hpm
    have hkl : k < w.running.length := by
      have := (List.getElem?_eq_some_iff.mp hk).1
      rw [inputOf_probes_length] at this; exact this
    have hrk : w.running[k]? = some w.running[k] := by simp [hkl]
    have := inputOf_probe env w k _ hrk
    rw [hk] at this
    cases this
    rw [reported_probeOf]
    exact hnd _ (List.mem_of_getElem? hrk)
  obtain ⟨fin, v, hfin, hv, hcase⟩ := lonely_repaired swr sc (inputOf env w [] false) hne hndI hpI
    (probeOf_inSync env sh) (by rw [reported_probeOf]; exact hr) hst h3 ha
    (by
      intro k pk hpk hki _
      have hkl : k < w.running.length := by
        have := (List.getElem?_eq_some_iff.mp hpk).1
        rw [inputOf_probes_length] at this; exact this
      have hrk : w.running[k]? = some w.running[k] := by simp [hkl]
      have := inputOf_probe env w k _ hrk
      rw [hpk] at this
      cases this
      rw [reported_probeOf]
      exact halone k _ hrk hki)
  have hact : (inputOf env w [] false).active = w.active := rfl
  -- what shard i reports afterwards
  obtain ⟨fin', shi', hfin', hshi', _, hsti⟩ := applyOutcome_report swr env w sc hrep hne hnc hnd i sh hrun
  rw [hfin] at hfin'; cases hfin'
  obtain ⟨ri, hri, hris⟩ := hsti h v (planned_get_of w.active fin h v ha hv)
  have hilt : i < w.replicas := by
    have := (List.getElem?_eq_some_iff.mp hrun).1
    rw [hrl] at this; exact this
  rcases hcase with hn | ⟨d, sd, vd, hdi, hsd, _, hgd, hnd'⟩
  · exact ⟨i, shi', ri, hshi', hilt, hri, by rw [hris, hn], Or.inl rfl⟩
  · -- the partner
    cases hvs : v.state with
    | normal => exact ⟨i, shi', ri, hshi', hilt, hri, by rw [hris, hvs], Or.inl rfl⟩
    | inTransfer =>
      have hdl : d < w.running.length := by
        have h1 := (List.getElem?_eq_some_iff.mp hsd).1
        have h2 := final_length' swr sc (inputOf env w [] false) hne
        rw [h2, inputOf_probes_length] at h1
        exact h1
      have hrd : w.running[d]? = some w.running[d] := by simp [hdl]
      obtain ⟨find, shd', hfind, hshd', _, hstd⟩ := applyOutcome_report swr env w sc hrep hne hnc hnd d _ hrd
      rw [hsd] at hfind; cases hfind
      obtain ⟨rd, hrd', hrds⟩ := hstd h vd (planned_get_of w.active sd h vd ha hgd)
      refine ⟨d, shd', rd, hshd', by rw [← hrl]; exact hdl, hrd', by rw [hrds, hnd'], Or.inr ⟨shi', ri, hshi', hri, by rw [hris, hvs]⟩⟩

/-- **closed loop: uniqueness of the normal copy survives a cycle.**  If after `gcTargets` at most
    one shard holds `h` in normal state, then after the requests of one full, crash-free, fault-free
    cycle no two running sidecars report `h` in normal state. -/
theorem loop_oneNormal (swr : Swr) (env : Env) (w : World) (sc : Sched) (h : Hash)
    (hrep : w.replicas ≤ w.shards.length)
    (hne : stopsEarly (inputOf env w [] false) = false)
    (hnc : (cycle swr sc (inputOf env w [] false)).crashed = false)
    (hnd : ∀ sh ∈ w.running, (statusOf sh).keys.Nodup)
    (h0 : OneNormalAt h (startCS (inputOf env w [] false))) :
    ∀ (a b : Nat) (sha shb : Shard) (ra rb : St), a ≠ b → a < w.replicas → b < w.replicas →
      (applyOutcome w [] (cycle swr sc (inputOf env w [] false))).shards[a]? = some sha →
      (applyOutcome w [] (cycle swr sc (inputOf env w [] false))).shards[b]? = some shb →
      (statusOf sha).get h = some ra → (statusOf shb).get h = some rb →
      ra.state = .normal → rb.state = .normal → False := by
  intro a b sha shb ra rb hab ha hb hsa hsb hra hrb hna hnb
  have hrl := running_length w hrep
  have one := cycle_oneNormal swr sc (inputOf env w [] false) h hne h0
  have side : ∀ (x : Nat) (shx : Shard) (rx : St), x < w.replicas →
      (applyOutcome w [] (cycle swr sc (inputOf env w [] false))).shards[x]? = some shx →
      (statusOf shx).get h = some rx →
      ∃ fin v, (cycle swr sc (inputOf env w [] false)).final[x]? = some fin ∧ fin.changeable = true ∧
        fin.scraping.get h = some v ∧ v.state = rx.state := by
    intro x shx rx hx hsx hrx
    have hxl : x < w.running.length := by rw [hrl]; exact hx
    have hrunx : w.running[x]? = some w.running[x] := by simp [hxl]
    obtain ⟨fin, shx', hfin, hshx', hkeys, hst⟩ := applyOutcome_report swr env w sc hrep hne hnc hnd x _ hrunx
    rw [hsx] at hshx'; cases hshx'
    have hk : h ∈ (planned w.active fin).keys := (hkeys h).mp (AL.get_some_mem_keys _ _ _ hrx)
    obtain ⟨v, hv⟩ := AL.mem_keys_get _ _ hk
    obtain ⟨r', hr', hs'⟩ := hst h v hv
    rw [hrx] at hr'; cases hr'
    have hv' : fin.scraping.get h = some v := by
      rw [planned_get] at hv
      split at hv
      · exact hv
      · cases hv
    have hch := final_changeable swr sc (inputOf env w [] false) hne (inputOf_probe env w x _ hrunx) hfin
    rw [probeOf_inSync] at hch
    exact ⟨fin, v, hfin, hch, hv', hs'.symm⟩
  obtain ⟨fa, va, hfa, hca, hva, hsa'⟩ := side a sha ra ha hsa hra
  obtain ⟨fb, vb, hfb, hcb, hvb, hsb'⟩ := side b shb rb hb hsb hrb
  exact one a b fa fb va vb hab hfa hfb hca hcb hva hvb (by rw [hsa', hna]) (by rw [hsb', hnb])

end Kvass.Loop

namespace Kvass.Coord
open Kvass Kvass.Spec

/-- after `gcTargets`, a target that exactly two in-sync shards reported in normal state (both
    scraped it three times) is held in normal state by at most one in-sync shard -/
theorem startCS_oneNormal_of_dup (inp : Input) (hnd : ∀ p ∈ inp.probes, (reported p).keys.Nodup)
    {i j : Nat} {pi pj : Probe} {h : Hash} {vi vj : St} (hij : i < j) (ha : h ∈ inp.active)
    (hpi : inp.probes[i]? = some pi) (hsi : inSync pi = true) (hri : (reported pi).get h = some vi)
    (hni : vi.state = .normal) (h3i : 3 ≤ vi.times)
    (hpj : inp.probes[j]? = some pj) (hsj : inSync pj = true) (hrj : (reported pj).get h = some vj)
    (hnj : vj.state = .normal) (h3j : 3 ≤ vj.times)
    (hothers : ∀ k pk, inp.probes[k]? = some pk → k ≠ i → k ≠ j → inSync pk = true → (reported pk).get h = none) :
    OneNormalAt h (startCS inp) := by
  have hi : (infos0 inp)[i]? = some (getInfo pi).1 := by rw [infos0_get, hpi]; rfl
  have hj : (infos0 inp)[j]? = some (getInfo pj).1 := by rw [infos0_get, hpj]; rfl
  have hnd0 : ∀ (k : Nat) (s : SI), (infos0 inp)[k]? = some s → s.scraping.keys.Nodup := by
    intro k s hk
    obtain ⟨pk, hpk, rfl⟩ := infos0_get_some hk
    rw [getInfo_scraping]; exact hnd pk (List.mem_of_getElem? hpk)
  have hdup := gc_duplicate_resolved inp.opt inp.active (infos0 inp) i j (getInfo pi).1 (getInfo pj).1 h vi vj hnd0 ha hij
    hi (by rw [getInfo_changeable]; exact hsi) (by rw [getInfo_scraping]; exact hri) hni h3i
    hj (by rw [getInfo_changeable]; exact hsj) (by rw [getInfo_scraping]; exact hrj) hnj h3j
    (by
      intro k sk hk hki hkj hch
      obtain ⟨pk, hpk, rfl⟩ := infos0_get_some hk
      rw [getInfo_changeable] at hch
      rw [getInfo_scraping]
      exact hothers k pk hpk hki hkj hch)
  have inv := gc_inv inp.opt inp.active (infos0 inp)
  have e : (startCS inp).shards = gc inp.opt inp.active (infos0 inp) := rfl
  -- a changeable holder after gc is one of the two
  have holder : ∀ (a : Nat) (sa : SI) (va : St), (startCS inp).shards[a]? = some sa → sa.changeable = true →
      sa.scraping.get h = some va → a = i ∨ a = j := by
    intro a sa va hsa hca hva
    rw [e] at hsa
    obtain ⟨s0, h0, hfl, _, hsub, _⟩ := inv.same a sa hsa
    obtain ⟨v0, hv0, _⟩ := hsub h va hva
    obtain ⟨pa, hpa, rfl⟩ := infos0_get_some h0
    rw [getInfo_scraping] at hv0
    rw [hfl, getInfo_changeable] at hca
    apply Classical.byContradiction
    intro hno
    simp only [not_or] at hno
    rw [hothers a pa hpa hno.1 hno.2 hca] at hv0
    cases hv0
  have hent : ∀ (a : Nat) (sa : SI) (va : St), (startCS inp).shards[a]? = some sa →
      sa.scraping.get h = some va → entry (gc inp.opt inp.active (infos0 inp)) a h = some va := by
    intro a sa va hsa hva
    unfold entry
    rw [e] at hsa
    rw [hsa]; exact hva
  intro a b sa sb va vb hab hsa hsb hca hcb hva hvb _ _
  have ha' := holder a sa va hsa hca hva
  have hb' := holder b sb vb hsb hcb hvb
  have ea := hent a sa va hsa hva
  have eb := hent b sb vb hsb hvb
  have hne : i ≠ j := by omega
  cases hL : Gen.gcLess inp.opt (getInfo pi).1.rt (getInfo pj).1.rt i j with
  | true =>
    have := (hdup.1 hL).1
    rcases ha' with rfl | rfl
    · rw [this] at ea; cases ea
    · rcases hb' with rfl | rfl
      · rw [this] at eb; cases eb
      · exact hab rfl
  | false =>
    have := (hdup.2 hL).2
    rcases ha' with rfl | rfl
    · rcases hb' with rfl | rfl
      · exact hab rfl
      · rw [this] at eb; cases eb
    · rw [this] at ea; cases ea

end Kvass.Coord

namespace Kvass.Loop
open Kvass Kvass.Coord Kvass.Spec

/-- **closed loop: a duplicate is resolved by one fault-free cycle.**  If exactly two running
    sidecars report a discovered target, both in normal state and scraped three times, then after the
    requests of one full, crash-free, fault-free cycle no two running sidecars report it in normal state. -/
theorem loop_duplicate_resolved (swr : Swr) (env : Env) (w : World) (sc : Sched)
    (hrep : w.replicas ≤ w.shards.length)
    (hne : stopsEarly (inputOf env w [] false) = false)
    (hnc : (cycle swr sc (inputOf env w [] false)).crashed = false)
    (hnd : ∀ sh ∈ w.running, (statusOf sh).keys.Nodup)
    {i j : Nat} {shi shj : Shard} {h : Hash} {vi vj : St} (hij : i < j) (ha : h ∈ w.active)
    (hri : w.running[i]? = some shi) (hgi : (statusOf shi).get h = some vi) (hni : vi.state = .normal) (h3i : 3 ≤ vi.times)
    (hrj : w.running[j]? = some shj) (hgj : (statusOf shj).get h = some vj) (hnj : vj.state = .normal) (h3j : 3 ≤ vj.times)
    (hothers : ∀ k shk, w.running[k]? = some shk → k ≠ i → k ≠ j → (statusOf shk).get h = none) :
    ∀ (a b : Nat) (sha shb : Shard) (ra rb : St), a ≠ b → a < w.replicas → b < w.replicas →
      (applyOutcome w [] (cycle swr sc (inputOf env w [] false))).shards[a]? = some sha →
      (applyOutcome w [] (cycle swr sc (inputOf env w [] false))).shards[b]? = some shb →
      (statusOf sha).get h = some ra → (statusOf shb).get h = some rb →
      ra.state = .normal → rb.state = .normal → False := by
  have hndI : ∀ p ∈ (inputOf env w [] false).probes, (reported p).keys.Nodup := by
    intro p hpm
    obtain ⟨k, hk⟩ := List.getElem?_of_mem hpm
    have hkl : k < w.running.length := by
      have := (List.getElem?_eq_some_iff.mp hk).1
      rw [inputOf_probes_length] at this; exact this
    have hrk : w.running[k]? = some w.running[k] := by simp [hkl]
    have := inputOf_probe env w k _ hrk
    rw [hk] at this
    cases this
    rw [reported_probeOf]
    exact hnd _ (List.mem_of_getElem? hrk)
  apply loop_oneNormal swr env w sc h hrep hne hnc hnd
  apply startCS_oneNormal_of_dup (inputOf env w [] false) hndI hij ha
    (inputOf_probe env w i shi hri) (probeOf_inSync env shi) (by rw [reported_probeOf]; exact hgi) hni h3i
    (inputOf_probe env w j shj hrj) (probeOf_inSync env shj) (by rw [reported_probeOf]; exact hgj) hnj h3j
  intro k pk hpk hki hkj _
  have hkl : k < w.running.length := by
    have := (List.getElem?_eq_some_iff.mp hpk).1
    rw [inputOf_probes_length] at this; exact this
  have hrk : w.running[k]? = some w.running[k] := by simp [hkl]
  have := inputOf_probe env w k _ hrk
  rw [hpk] at this
  cases this
  rw [reported_probeOf]
  exact hothers k _ hrk hki hkj

end Kvass.Loop

namespace Kvass.Loop
open Kvass Kvass.Coord Kvass.Spec

/-- **closed loop: a scraped target stays scraped.**  If some running sidecar reports a discovered
    target, then after the requests of one full, crash-free, fault-free cycle some running sidecar
    still reports it. -/
theorem loop_keep (swr : Swr) (env : Env) (w : World) (sc : Sched)
    (hrep : w.replicas ≤ w.shards.length)
    (hne : stopsEarly (inputOf env w [] false) = false)
    (hnc : (cycle swr sc (inputOf env w [] false)).crashed = false)
    (hnd : ∀ sh ∈ w.running, (statusOf sh).keys.Nodup)
    {i : Nat} {sh : Shard} {h : Hash} (hrun : w.running[i]? = some sh)
    (hr : (statusOf sh).has h = true) (ha : h ∈ w.active) :
    ∃ (d : Nat) (shd : Shard), d < w.replicas ∧
      (applyOutcome w [] (cycle swr sc (inputOf env w [] false))).shards[d]? = some shd ∧
      (statusOf shd).has h = true := by
  have hrl := running_length w hrep
  have prov := cycle_prov swr sc (inputOf env w [] false) hne
  have hp := inputOf_probe env w i sh hrun
  obtain ⟨y, sy, hy, hgy⟩ := prov.kept i _ h hp (by rw [reported_probeOf]; exact hr) ha
  have hy' : (cycle swr sc (inputOf env w [] false)).final[y]? = some sy := hy
  have hyl : y < w.running.length := by
    have h1 := (List.getElem?_eq_some_iff.mp hy').1
    have h2 := final_length' swr sc (inputOf env w [] false) hne
    rw [h2, inputOf_probes_length] at h1
    exact h1
  have hry : w.running[y]? = some w.running[y] := by simp [hyl]
  obtain ⟨fin, shy', hfin, hshy', hkeys, _⟩ := applyOutcome_report swr env w sc hrep hne hnc hnd y _ hry
  rw [hy'] at hfin; cases hfin
  cases hg : sy.scraping.get h with
  | none => exact absurd hg hgy
  | some v =>
    have hpk : h ∈ (planned w.active sy).keys :=
      AL.get_some_mem_keys _ _ _ (planned_get_of w.active sy h v ha hg)
    have hk := (hkeys h).mpr hpk
    exact ⟨y, shy', by rw [← hrl]; exact hyl, hshy', (AL.has_iff _ _).mpr (AL.mem_keys_get _ _ hk)⟩

end Kvass.Loop
