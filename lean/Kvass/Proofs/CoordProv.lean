/-
  Where the keys of the final plan come from: every key a shard is planned to hold was reported by
  that shard, or reported by nobody (first assignment), or is no longer discovered, or is reported
  by another in-sync shard (a move).  (C08: no second assignment next to a reachable holder)
-/
import Kvass.Proofs.CoordDown
import Kvass.Proofs.CoordQuiet

namespace Kvass.Coord
open Kvass Kvass.Spec

structure ProvInv (inp : Input) (c : CS) : Prop where
  /-- flags are the script's -/
  flags : ∀ (d : Nat) (s : SI), c.shards[d]? = some s → ∃ p, inp.probes[d]? = some p ∧ s.changeable = inSync p
  /-- provenance of every key -/
  prov : ∀ (d : Nat) (s : SI) (h : Hash) (v : St), c.shards[d]? = some s → s.scraping.get h = some v →
    (∃ p, inp.probes[d]? = some p ∧ (reported p).has h = true) ∨ C04.isFirstAssign inp h = true ∨ h ∉ inp.active ∨
    (∃ (q : Nat) (pq : Probe), q ≠ d ∧ inp.probes[q]? = some pq ∧ inSync pq = true ∧ (reported pq).has h = true)
  /-- a discovered target somebody reports is still held by somebody -/
  kept : ∀ (x : Nat) (p : Probe) (h : Hash), inp.probes[x]? = some p → (reported p).has h = true → h ∈ inp.active →
    ∃ (y : Nat) (s : SI), c.shards[y]? = some s ∧ s.scraping.get h ≠ none

theorem kept_of_grows {inp : Input} {c c' : CS} (g : Grows c.shards c') (hk : ProvInv inp c) :
    ∀ (x : Nat) (p : Probe) (h : Hash), inp.probes[x]? = some p → (reported p).has h = true → h ∈ inp.active →
      ∃ (y : Nat) (s : SI), c'.shards[y]? = some s ∧ s.scraping.get h ≠ none := by
  intro x p h hp hr ha
  obtain ⟨y, s, hs, hg⟩ := hk.kept x p h hp hr ha
  exact hasKey_of_grows g ⟨y, s, hs, hg⟩

theorem provInv_presA (inp : Input) (glob : Hash → St) : PresA inp.opt glob (ProvInv inp) where
  crash := fun c hc => ⟨hc.flags, hc.prov, hc.kept⟩
  transfer := by
    intro k c i j h hc hg
    have g : Grows c.shards (transfer k c i j h) :=
      grows_transfer k ⟨c.shards, c.log, c.crashed⟩ i j h (grows_refl _ _ _)
    obtain ⟨f, t, tar, hf, ht, hget, hfc, _, hji, _⟩ := hg
    have hshape : ∀ (m : Nat) (s : SI), (transfer k c i j h).shards[m]? = some s →
        ∃ s0 : SI, c.shards[m]? = some s0 ∧ s.changeable = s0.changeable ∧
          ∀ k' v, s.scraping.get k' = some v → (∃ v0, s0.scraping.get k' = some v0) ∨ (m = j ∧ k' = h) := by
      intro m s hs
      unfold transfer at hs
      rw [hf, ht] at hs
      simp only [hget] at hs
      by_cases hmi : i = m
      · subst hmi
        have hfi : ∀ X : SI, (c.shards.set j X)[i]? = some f := fun X => by rw [getElem?_set_ne' hji]; exact hf
        rw [getElem?_set_self' (hfi _)] at hs
        cases hs
        refine ⟨f, hf, rfl, ?_⟩
        intro k' v hv
        simp only at hv
        rw [AL.get_set] at hv
        split at hv
        · rename_i e; subst e; exact Or.inl ⟨tar, hget⟩
        · exact Or.inl ⟨v, hv⟩
      · rw [getElem?_set_ne' hmi] at hs
        by_cases hmj : j = m
        · subst hmj
          rw [getElem?_set_self' ht] at hs
          cases hs
          refine ⟨t, ht, rfl, ?_⟩
          intro k' v hv
          simp only at hv
          rw [AL.get_set] at hv
          split at hv
          · rename_i e; exact Or.inr ⟨rfl, e.symm⟩
          · exact Or.inl ⟨v, hv⟩
        · rw [getElem?_set_ne' hmj] at hs
          exact ⟨s, hs, rfl, fun k' v hv => Or.inl ⟨v, hv⟩⟩
    refine ⟨?_, ?_, ?_⟩
    · intro d s hs
      obtain ⟨s0, h0, hch, _⟩ := hshape d s hs
      obtain ⟨p, hp, e⟩ := hc.flags d s0 h0
      exact ⟨p, hp, by rw [hch, e]⟩
    · intro d s k' v hs hv
      obtain ⟨s0, h0, _, hkeys⟩ := hshape d s hs
      rcases hkeys k' v hv with ⟨v0, hv0⟩ | ⟨rfl, rfl⟩
      · exact hc.prov d s0 k' v0 h0 hv0
      · -- the new copy on the destination: its source is an in-sync shard holding it
        obtain ⟨pi, hpi, ei⟩ := hc.flags i f hf
        have hsync : inSync pi = true := by rw [← ei]; exact hfc
        rcases hc.prov i f k' tar hf hget with ⟨p, hp, hr⟩ | hfa | hna | ⟨q, pq, hq, hpq, hsq, hrq⟩
        · rw [hpi] at hp; cases hp
          exact Or.inr (Or.inr (Or.inr ⟨i, pi, Ne.symm hji, hpi, hsync, hr⟩))
        · exact Or.inr (Or.inl hfa)
        · exact Or.inr (Or.inr (Or.inl hna))
        · by_cases hqd : q = d
          · subst hqd
            exact Or.inl ⟨pq, hpq, hrq⟩
          · exact Or.inr (Or.inr (Or.inr ⟨q, pq, hqd, hpq, hsq, hrq⟩))
    · have hg' : Grows c.shards (transfer k c i j h) := g
      exact kept_of_grows hg' hc
  place := by
    intro c j h hc hg
    have g : Grows c.shards (place 0 c j h (glob h)) :=
      grows_place 0 ⟨c.shards, c.log, c.crashed⟩ j h (glob h) (grows_refl _ _ _)
    obtain ⟨t, ht, _, hnone, _⟩ := hg
    have hshape : ∀ (m : Nat) (s : SI), (place 0 c j h (glob h)).shards[m]? = some s →
        ∃ s0 : SI, c.shards[m]? = some s0 ∧ s.changeable = s0.changeable ∧
          ∀ k' v, s.scraping.get k' = some v → (∃ v0, s0.scraping.get k' = some v0) ∨ (m = j ∧ k' = h) := by
      intro m s hs
      unfold place at hs
      rw [ht] at hs
      simp only at hs
      by_cases hmj : j = m
      · subst hmj
        rw [getElem?_set_self' ht] at hs
        cases hs
        refine ⟨t, ht, rfl, ?_⟩
        intro k' v hv
        simp only at hv
        rw [AL.get_set] at hv
        split at hv
        · rename_i e; exact Or.inr ⟨rfl, e.symm⟩
        · exact Or.inl ⟨v, hv⟩
      · rw [getElem?_set_ne' hmj] at hs
        exact ⟨s, hs, rfl, fun k' v hv => Or.inl ⟨v, hv⟩⟩
    refine ⟨?_, ?_, ?_⟩
    · intro d s hs
      obtain ⟨s0, h0, hch, _⟩ := hshape d s hs
      obtain ⟨p, hp, e⟩ := hc.flags d s0 h0
      exact ⟨p, hp, by rw [hch, e]⟩
    · intro d s k' v hs hv
      obtain ⟨s0, h0, _, hkeys⟩ := hshape d s hs
      rcases hkeys k' v hv with ⟨v0, hv0⟩ | ⟨rfl, rfl⟩
      · exact hc.prov d s0 k' v0 h0 hv0
      · -- a first assignment: nobody holds it, so nobody reports it (or it is not discovered)
        by_cases hfa : C04.isFirstAssign inp k' = true
        · exact Or.inr (Or.inl hfa)
        · by_cases ha : k' ∈ inp.active
          · exfalso
            have hany : (inp.probes.any fun p => (reported p).has k') = true := by
              unfold C04.isFirstAssign at hfa
              cases hh : (inp.probes.any fun p => (reported p).has k') with
              | true => rfl
              | false => simp [hh] at hfa
            obtain ⟨p, hpm, hr⟩ := List.any_eq_true.mp hany
            obtain ⟨x, hx⟩ := List.getElem?_of_mem hpm
            obtain ⟨y, sy, hy, hgy⟩ := hc.kept x p k' hx hr ha
            exact hgy (hnone sy (List.mem_of_getElem? hy))
          · exact Or.inr (Or.inr (Or.inl ha))
    · exact kept_of_grows g hc

end Kvass.Coord

namespace Kvass.Coord
open Kvass Kvass.Spec

theorem provInv_start (inp : Input) : ProvInv inp (startCS inp) := by
  have inv := gc_inv inp.opt inp.active (infos0 inp)
  have hshards : (startCS inp).shards = gc inp.opt inp.active (infos0 inp) := rfl
  refine ⟨?_, ?_, ?_⟩
  · intro d s hs
    rw [hshards] at hs
    obtain ⟨s0, h0, hch, _, _, _⟩ := inv.same d s hs
    obtain ⟨p, hp, rfl⟩ := infos0_get_some h0
    exact ⟨p, hp, by rw [hch, getInfo_changeable]⟩
  · intro d s h v hs hv
    rw [hshards] at hs
    obtain ⟨s0, h0, _, _, hsub, _⟩ := inv.same d s hs
    obtain ⟨p, hp, rfl⟩ := infos0_get_some h0
    obtain ⟨v0, hv0, _⟩ := hsub h v hv
    left
    refine ⟨p, hp, (AL.has_iff _ _).mpr ⟨v0, ?_⟩⟩
    rw [← getInfo_scraping]; exact hv0
  · intro x p h hp hr ha
    rw [hshards]
    have h0 : (infos0 inp)[x]? = some (getInfo p).1 := by rw [infos0_get, hp]; rfl
    obtain ⟨s1, hs1⟩ := getElem?_of_length_eq inv.len h0
    obtain ⟨v, hv⟩ := (AL.has_iff _ _).mp hr
    have hv0 : (getInfo p).1.scraping.get h = some v := by rw [getInfo_scraping]; exact hv
    cases hg : s1.scraping.get h with
    | some v1 => exact ⟨x, s1, hs1, by rw [hg]; simp⟩
    | none =>
      obtain ⟨_, j, vj, _, ⟨sj, hsj, _, hgj⟩, _⟩ := inv.lost x _ s1 h v h0 hs1 hv0 hg ha
      exact ⟨j, sj, hsj, by rw [hgj]; simp⟩

theorem cycle_prov (swr : Swr) (sc : Sched) (inp : Input) (hne : stopsEarly inp = false) :
    ProvInv inp (cycle swr sc inp).cs :=
  cycle_pres swr sc inp (provInv_presA inp _) (provInv_start inp) hne

theorem mem_body_keys {active : List Hash} {s : SI} {h : Hash} (hm : h ∈ (body active s).map (·.1)) :
    h ∈ active ∧ ∃ v, s.scraping.get h = some v := by
  unfold body planned at hm
  simp only [List.map_map, List.mem_map, List.mem_filter, Function.comp] at hm
  obtain ⟨⟨k, v⟩, ⟨hmem, hact⟩, rfl⟩ := hm
  refine ⟨by simpa using hact, ?_⟩
  have : k ∈ s.scraping.keys := by
    unfold AL.keys; exact List.mem_map.mpr ⟨(k, v), hmem, rfl⟩
  exact AL.mem_keys_get _ _ this

/-- **C08 (no second assignment)**: for every schedule and input, a target that a shard is newly told
    to scrape although some shard reports it comes from a move out of an in-sync shard — a target
    that only an unreachable or out-of-sync shard reports is never handed to anybody else -/
theorem noSecondAssign_cycle (swr : Swr) (sc : Sched) (inp : Input) :
    C08.noSecondAssign inp (Obs.ofOutcome (cycle swr sc inp)) = true := by
  unfold C08.noSecondAssign
  rw [List.all_eq_true]
  intro ⟨d, p, r⟩ hm
  obtain ⟨hp, hr⟩ := mem_shardsOf.mp hm
  simp only
  rcases reqs_cases swr sc inp hp with h1 | ⟨hne, s, hs, h2⟩
  · have : r = (getInfo p).2 := by
      have e : (Obs.ofOutcome (cycle swr sc inp)).reqs[d]? = (cycle swr sc inp).reqs[d]? := rfl
      rw [e, h1] at hr; exact (Option.some.inj hr).symm
    rw [this, postedBody_getInfo]
  · have : r = (getInfo p).2 ++ applyReqs inp.active p s := by
      have e : (Obs.ofOutcome (cycle swr sc inp)).reqs[d]? = (cycle swr sc inp).reqs[d]? := rfl
      rw [e, h2] at hr; exact (Option.some.inj hr).symm
    rw [this, postedBody_apply]
    by_cases hc : (s.changeable && needUpdate (p.status.getD []) (body inp.active s)) = true
    · simp only [hc, if_true]
      rw [List.all_eq_true]
      intro h hnew
      unfold C04.newOn at hnew
      rw [List.mem_filter] at hnew
      obtain ⟨hbk, hnr⟩ := hnew
      obtain ⟨hact, v, hv⟩ := mem_body_keys hbk
      have pi := cycle_prov swr sc inp hne
      have hs' : (cycle swr sc inp).cs.shards[d]? = some s := hs
      rcases pi.prov d s h v hs' hv with ⟨p', hp', hr'⟩ | hfa | hna | ⟨q, pq, hq, hpq, hsq, hrq⟩
      · rw [hp] at hp'; cases hp'
        rw [hr'] at hnr; cases hnr
      · simp [hfa]
      · exact absurd hact hna
      · simp only [Bool.or_eq_true]
        right
        rw [List.any_eq_true]
        refine ⟨(pq, q), List.mem_zipIdx_iff_getElem?.mpr hpq, ?_⟩
        simp [hq, hsq, hrq]
    · simp [hc]

end Kvass.Coord

namespace Kvass.Coord
open Kvass Kvass.Spec

/-! ### a copy that is turned in-transfer has a normal copy on an in-sync shard -/

def NormalHolder (inp : Input) (c : CS) : Prop :=
  ∀ (i : Nat) (s : SI) (h : Hash) (v : St) (p : Probe) (r : St),
    c.shards[i]? = some s → s.scraping.get h = some v → v.state = .inTransfer →
    inp.probes[i]? = some p → (reported p).get h = some r → r.state = .normal → h ∈ inp.active →
    ∃ (d : Nat) (sd : SI) (vd : St), d ≠ i ∧ c.shards[d]? = some sd ∧ sd.changeable = true ∧
      sd.scraping.get h = some vd ∧ vd.state = .normal

structure MoveInv (inp : Input) (c : CS) : Prop where
  prov : ProvInv inp c
  nh : NormalHolder inp c

/-- the entries after `transfer`, shard by shard -/
theorem transfer_entries (k : Nat) (c : CS) (i j : Nat) (h : Hash) (f t : SI) (tar : St)
    (hf : c.shards[i]? = some f) (ht : c.shards[j]? = some t) (hget : f.scraping.get h = some tar) (hji : j ≠ i) :
    ∀ (m : Nat) (s0 : SI), c.shards[m]? = some s0 →
      ∃ s : SI, (transfer k c i j h).shards[m]? = some s ∧ s.changeable = s0.changeable ∧
        ∀ k', s.scraping.get k' =
          if k' = h ∧ m = i then some { tar with state := .inTransfer }
          else if k' = h ∧ m = j then some tar else s0.scraping.get k' := by
  intro m s0 hs0
  unfold transfer
  rw [hf, ht]
  simp only [hget]
  by_cases hmi : i = m
  · subst hmi
    rw [hf] at hs0; cases hs0
    have hfi : ∀ X : SI, (c.shards.set j X)[i]? = some f := fun X => by rw [getElem?_set_ne' hji]; exact hf
    refine ⟨_, getElem?_set_self' (hfi _), rfl, ?_⟩
    intro k'
    simp only
    rw [AL.get_set]
    by_cases hk : h = k'
    · subst hk; simp
    · have : ¬ (k' = h) := fun e => hk e.symm
      simp [hk, this]
  · rw [getElem?_set_ne' hmi]
    by_cases hmj : j = m
    · subst hmj
      rw [ht] at hs0; cases hs0
      refine ⟨_, getElem?_set_self' ht, rfl, ?_⟩
      intro k'
      simp only
      rw [AL.get_set]
      by_cases hk : h = k'
      · subst hk; simp [Ne.symm hmi]
      · have : ¬ (k' = h) := fun e => hk e.symm
        simp [hk, this]
    · rw [getElem?_set_ne' hmj]
      refine ⟨s0, hs0, rfl, ?_⟩
      intro k'
      have h1 : ¬ (m = i) := fun e => hmi e.symm
      have h2 : ¬ (m = j) := fun e => hmj e.symm
      simp [h1, h2]

theorem transfer_entries_back (k : Nat) (c : CS) (i j : Nat) (h : Hash) (f t : SI) (tar : St)
    (hf : c.shards[i]? = some f) (ht : c.shards[j]? = some t) (hget : f.scraping.get h = some tar) (hji : j ≠ i) :
    ∀ (m : Nat) (s : SI), (transfer k c i j h).shards[m]? = some s →
      ∃ s0 : SI, c.shards[m]? = some s0 ∧ s.changeable = s0.changeable ∧
        ∀ k', s.scraping.get k' =
          if k' = h ∧ m = i then some { tar with state := .inTransfer }
          else if k' = h ∧ m = j then some tar else s0.scraping.get k' := by
  intro m s hs
  have hlen : (transfer k c i j h).shards.length = c.shards.length := by
    unfold transfer; rw [hf, ht]; simp [hget]
  have hlt : m < c.shards.length := by
    rw [← hlen]
    rcases Nat.lt_or_ge m (transfer k c i j h).shards.length with hl | hl
    · exact hl
    · rw [List.getElem?_eq_none hl] at hs; cases hs
  obtain ⟨s', hs', hch, hk⟩ := transfer_entries k c i j h f t tar hf ht hget hji m c.shards[m] (by simp [hlt])
  rw [hs] at hs'; cases hs'
  exact ⟨c.shards[m], by simp [hlt], hch, hk⟩

end Kvass.Coord

namespace Kvass.Coord
open Kvass Kvass.Spec

theorem place_entries (c : CS) (j : Nat) (h : Hash) (st : St) (t : SI) (ht : c.shards[j]? = some t) :
    (∀ (m : Nat) (s0 : SI), c.shards[m]? = some s0 →
      ∃ s : SI, (place 0 c j h st).shards[m]? = some s ∧ s.changeable = s0.changeable ∧
        ∀ k', s.scraping.get k' = if k' = h ∧ m = j then some st else s0.scraping.get k') ∧
    (∀ (m : Nat) (s : SI), (place 0 c j h st).shards[m]? = some s →
      ∃ s0 : SI, c.shards[m]? = some s0 ∧ s.changeable = s0.changeable ∧
        ∀ k', s.scraping.get k' = if k' = h ∧ m = j then some st else s0.scraping.get k') := by
  have fwd : ∀ (m : Nat) (s0 : SI), c.shards[m]? = some s0 →
      ∃ s : SI, (place 0 c j h st).shards[m]? = some s ∧ s.changeable = s0.changeable ∧
        ∀ k', s.scraping.get k' = if k' = h ∧ m = j then some st else s0.scraping.get k' := by
    intro m s0 hs0
    unfold place
    rw [ht]
    simp only
    by_cases hmj : j = m
    · subst hmj
      rw [ht] at hs0; cases hs0
      refine ⟨_, getElem?_set_self' ht, rfl, ?_⟩
      intro k'
      simp only
      rw [AL.get_set]
      by_cases hk : h = k'
      · subst hk; simp
      · have : ¬ (k' = h) := fun e => hk e.symm
        simp [hk, this]
    · rw [getElem?_set_ne' hmj]
      refine ⟨s0, hs0, rfl, ?_⟩
      intro k'
      have h2 : ¬ (m = j) := fun e => hmj e.symm
      simp [h2]
  refine ⟨fwd, ?_⟩
  intro m s hs
  have hlen : (place 0 c j h st).shards.length = c.shards.length := by
    unfold place; rw [ht]; simp
  have hlt : m < c.shards.length := by
    rw [← hlen]
    rcases Nat.lt_or_ge m (place 0 c j h st).shards.length with hl | hl
    · exact hl
    · rw [List.getElem?_eq_none hl] at hs; cases hs
  obtain ⟨s', hs', hch, hk⟩ := fwd m c.shards[m] (by simp [hlt])
  rw [hs] at hs'; cases hs'
  exact ⟨c.shards[m], by simp [hlt], hch, hk⟩

theorem moveInv_presA (inp : Input) (glob : Hash → St) : PresA inp.opt glob (MoveInv inp) where
  crash := fun c hc => ⟨(provInv_presA inp glob).crash c hc.prov, hc.nh⟩
  transfer := by
    intro k c i j h hc hg
    refine ⟨(provInv_presA inp glob).transfer k c i j h hc.prov hg, ?_⟩
    obtain ⟨f, t, tar, hf, ht, hget, _, htc, hji, hnorm, _⟩ := hg
    intro m s k' v p r hs hv hvst hp hr hrn ha
    obtain ⟨s0, hs0, _, hk⟩ := transfer_entries_back k c i j h f t tar hf ht hget hji m s hs
    by_cases hkh : k' = h
    · subst hkh
      -- the destination now holds a normal copy
      obtain ⟨sj, hsj, hcj, hkj⟩ := transfer_entries k c i j k' f t tar hf ht hget hji j t ht
      by_cases hmj : m = j
      · subst hmj
        rw [hk k'] at hv
        simp [hji] at hv
        subst hv
        rw [hnorm] at hvst; cases hvst
      · refine ⟨j, sj, tar, Ne.symm hmj, hsj, by rw [hcj]; exact htc, ?_, hnorm⟩
        rw [hkj k']; simp [hji]
    · -- entries for other targets are untouched
      have hv0 : s0.scraping.get k' = some v := by rw [hk k'] at hv; simpa [hkh] using hv
      obtain ⟨d, sd, vd, hdm, hsd, hcd, hgd, hnd⟩ := hc.nh m s0 k' v p r hs0 hv0 hvst hp hr hrn ha
      obtain ⟨sd', hsd', hcd', hkd'⟩ := transfer_entries k c i j h f t tar hf ht hget hji d sd hsd
      refine ⟨d, sd', vd, hdm, hsd', by rw [hcd']; exact hcd, ?_, hnd⟩
      rw [hkd' k']; simpa [hkh] using hgd
  place := by
    intro c j h hc hg
    refine ⟨(provInv_presA inp glob).place c j h hc.prov hg, ?_⟩
    obtain ⟨t, ht, _, hnone, _⟩ := hg
    obtain ⟨fwd, back⟩ := place_entries c j h (glob h) t ht
    intro m s k' v p r hs hv hvst hp hr hrn ha
    obtain ⟨s0, hs0, _, hk⟩ := back m s hs
    by_cases hkh : k' = h
    · subst hkh
      -- somebody reports it and it is discovered, so somebody still holds it: no first assignment
      exfalso
      obtain ⟨y, sy, hy, hgy⟩ := hc.prov.kept m p k' hp ((AL.has_iff _ _).mpr ⟨r, hr⟩) ha
      exact hgy (hnone sy (List.mem_of_getElem? hy))
    · have hv0 : s0.scraping.get k' = some v := by rw [hk k'] at hv; simpa [hkh] using hv
      obtain ⟨d, sd, vd, hdm, hsd, hcd, hgd, hnd⟩ := hc.nh m s0 k' v p r hs0 hv0 hvst hp hr hrn ha
      obtain ⟨sd', hsd', hcd', hkd'⟩ := fwd d sd hsd
      refine ⟨d, sd', vd, hdm, hsd', by rw [hcd']; exact hcd, ?_, hnd⟩
      rw [hkd' k']; simpa [hkh] using hgd

theorem moveInv_start (inp : Input)
    (hnd : ∀ p ∈ inp.probes, (reported p).keys.Nodup) : MoveInv inp (startCS inp) := by
  refine ⟨provInv_start inp, ?_⟩
  have inv := gc_inv inp.opt inp.active (infos0 inp)
  have hshards : (startCS inp).shards = gc inp.opt inp.active (infos0 inp) := rfl
  intro i s h v p r hs hv hvst hp hr hrn _
  exfalso
  rw [hshards] at hs
  obtain ⟨s0, h0, _, _, hsub, _⟩ := inv.same i s hs
  rw [infos0_get, hp] at h0
  simp only [Option.map_some, Option.some.injEq] at h0
  subst h0
  obtain ⟨v0, hv0, hrev⟩ := hsub h v hv
  rw [getInfo_scraping, hr] at hv0
  cases hv0
  rcases hrev with e | ⟨e1, _⟩
  · subst e; rw [hrn] at hvst; cases hvst
  · rw [hrn] at e1; cases e1

theorem cycle_move (swr : Swr) (sc : Sched) (inp : Input) (hne : stopsEarly inp = false)
    (hnd : ∀ p ∈ inp.probes, (reported p).keys.Nodup) : MoveInv inp (cycle swr sc inp).cs :=
  cycle_pres swr sc inp (moveInv_presA inp _) (moveInv_start inp hnd) hne

end Kvass.Coord

namespace Kvass.AL
variable {α : Type}

theorem keys_set_nodup (m : AL α) (h : Hash) (v : α) (hn : (keys m).Nodup) : (keys (set m h v)).Nodup := by
  induction m with
  | nil => simp [set, keys]
  | cons p m ih =>
    obtain ⟨k, x⟩ := p
    have hn' : (k :: keys m).Nodup := hn
    rw [List.nodup_cons] at hn'
    by_cases hk : k = h
    · subst hk
      simp only [set, if_true]
      exact hn
    · simp only [set, hk, if_false]
      show (k :: keys (set m h v)).Nodup
      rw [List.nodup_cons]
      refine ⟨?_, ih hn'.2⟩
      intro hmem
      rcases (mem_keys_set m h k v).mp hmem with e | e
      · exact hk e
      · exact hn'.1 e

theorem keys_del_nodup (m : AL α) (h : Hash) (hn : (keys m).Nodup) : (keys (del m h)).Nodup := by
  unfold keys del at *
  rw [List.nodup_iff_pairwise_ne] at *
  exact (List.Pairwise.filter _ (List.pairwise_map.mp hn)).map _ (fun _ _ h => h) |> fun h => by
    simpa [List.pairwise_map] using h

end Kvass.AL

namespace Kvass.Coord
open Kvass Kvass.Spec

/-! ### keys stay distinct -/

def NodupSS (ss : List SI) : Prop := ∀ (i : Nat) (s : SI), ss[i]? = some s → s.scraping.keys.Nodup

theorem nodupSS_set {ss : List SI} {i : Nat} {s x : SI} (hq : NodupSS ss) (hs : ss[i]? = some s)
    (hx : x.scraping.keys.Nodup) : NodupSS (ss.set i x) := by
  intro m sm hm
  by_cases hmi : i = m
  · subst hmi; rw [getElem?_set_self' hs] at hm; cases hm; exact hx
  · rw [getElem?_set_ne' hmi] at hm; exact hq m sm hm

theorem gcShard_nodup (o : Opt) (active : List Hash) (i : Nat) :
    ∀ (hs : List Hash) (ss : List SI), NodupSS ss → NodupSS (gcShard o active i hs ss) := by
  intro hs
  induction hs with
  | nil => intro ss h; simpa [gcShard] using h
  | cons h hs ih =>
    intro ss hq
    unfold gcShard
    split
    · exact hq
    · rename_i s hs'
      split
      · exact ih ss hq
      · split
        · exact ih _ (nodupSS_set hq hs' (AL.keys_del_nodup _ _ (hq i s hs')))
        · split
          · exact ih _ (nodupSS_set hq hs' (AL.keys_set_nodup _ _ _ (hq i s hs')))
          · exact ih ss hq

theorem gcFrom_nodup (o : Opt) (active : List Hash) :
    ∀ (is : List Nat) (ss : List SI), NodupSS ss → NodupSS (gcFrom o active is ss) := by
  intro is
  induction is with
  | nil => intro ss h; simpa [gcFrom] using h
  | cons i is ih =>
    intro ss hq
    unfold gcFrom
    split
    · exact ih ss hq
    · split
      · exact ih _ (gcShard_nodup o active i _ ss hq)
      · exact ih ss hq

theorem gc_nodup (o : Opt) (active : List Hash) (ss : List SI) (h : NodupSS ss) : NodupSS (gc o active ss) := by
  unfold gc; exact gcFrom_nodup o active _ ss h

def NodupCS (c : CS) : Prop := NodupSS c.shards

theorem nodup_presA (o : Opt) (glob : Hash → St) : PresA o glob NodupCS where
  crash := fun _ hc => hc
  transfer := by
    intro k c i j h hc hg
    obtain ⟨f, t, tar, hf, ht, hget, _, _, hji, _⟩ := hg
    unfold NodupCS transfer
    rw [hf, ht]
    simp only [hget]
    have h1 : NodupSS (c.shards.set j { t with
        rt := { t.rt with proc := Gen.transferProc t.rt tar, head := Gen.transferHead t.rt tar },
        scraping := t.scraping.set h tar }) :=
      nodupSS_set hc ht (AL.keys_set_nodup _ _ _ (hc j t ht))
    exact nodupSS_set h1 (by rw [getElem?_set_ne' hji]; exact hf) (AL.keys_set_nodup _ _ _ (hc i f hf))
  place := by
    intro c j h hc hg
    obtain ⟨t, ht, _⟩ := hg
    unfold NodupCS place
    rw [ht]
    exact nodupSS_set hc ht (AL.keys_set_nodup _ _ _ (hc j t ht))

theorem cycle_nodup (swr : Swr) (sc : Sched) (inp : Input) (hne : stopsEarly inp = false)
    (hnd : ∀ p ∈ inp.probes, (reported p).keys.Nodup) : NodupCS (cycle swr sc inp).cs := by
  apply cycle_pres swr sc inp (nodup_presA inp.opt _) _ hne
  unfold NodupCS startCS
  apply gc_nodup
  intro i s hs
  obtain ⟨p, hp, rfl⟩ := infos0_get_some hs
  rw [getInfo_scraping]
  exact hnd p (List.mem_of_getElem? hp)

end Kvass.Coord

namespace Kvass.Coord
open Kvass Kvass.Spec

theorem needUpdate_false_entry {reported : AL St} {b : List (Hash × TState × Int)}
    (h : needUpdate reported b = false) : ∀ x ∈ b, ∃ r, reported.get x.1 = some r ∧ r.state = x.2.1 := by
  unfold needUpdate at h
  rw [Bool.or_eq_false_iff] at h
  intro ⟨k, st, se⟩ hx
  have := (List.any_eq_false.mp h.2) (k, st, se) hx
  simp only at this
  cases hg : reported.get k with
  | none => rw [hg] at this; simp [Gen.needUpdateEntry] at this
  | some r =>
    rw [hg] at this
    refine ⟨r, rfl, ?_⟩
    have h2 : ¬ (Gen.needUpdateEntry true r.state st = true) := by simp [this]
    rw [Sites.needUpdateEntry_iff] at h2
    simp only [Bool.true_eq_false, false_or, Decidable.not_not] at h2
    exact h2

theorem mem_body {active : List Hash} {s : SI} {h : Hash} {st : TState} {se : Int}
    (hm : (h, st, se) ∈ body active s) : h ∈ active ∧ ∃ v, (h, v) ∈ s.scraping ∧ v.state = st := by
  unfold body planned at hm
  simp only [List.mem_map, List.mem_filter] at hm
  obtain ⟨⟨k, v⟩, ⟨hmem, hact⟩, e⟩ := hm
  simp only [Prod.mk.injEq] at e
  obtain ⟨rfl, rfl, _⟩ := e
  exact ⟨by simpa using hact, v, hmem, rfl⟩

/-- **C08 (destination in sync)**: for every schedule and every input whose reports have distinct
    keys, whenever an in-sync shard is told to turn a normal copy into an in-transfer one, another
    in-sync shard holds that target in normal state after the cycle -/
theorem dstInSync_cycle (swr : Swr) (sc : Sched) (inp : Input)
    (hnd : ∀ p ∈ inp.probes, (reported p).keys.Nodup) :
    C08.dstInSync inp (Obs.ofOutcome (cycle swr sc inp)) = true := by
  unfold C08.dstInSync
  simp only
  rw [List.all_eq_true]
  intro ⟨q, p, r⟩ hm
  obtain ⟨hp, hr⟩ := mem_shardsOf.mp hm
  simp only
  cases hsync : inSync p with
  | false => simp
  | true =>
  simp only [Bool.not_true, Bool.false_or]
  have er : (Obs.ofOutcome (cycle swr sc inp)).reqs = (cycle swr sc inp).reqs := rfl
  rcases reqs_cases swr sc inp hp with h1 | ⟨hne, s, hs, h2⟩
  · have : r = (getInfo p).2 := by rw [er, h1] at hr; exact (Option.some.inj hr).symm
    rw [this, postedBody_getInfo]
  · have hreq : r = (getInfo p).2 ++ applyReqs inp.active p s := by
      rw [er, h2] at hr; exact (Option.some.inj hr).symm
    rw [hreq, postedBody_apply]
    cases hc : (s.changeable && needUpdate (p.status.getD []) (body inp.active s)) with
    | false => simp
    | true =>
    simp only [if_true]
    rw [List.all_eq_true]
    intro ⟨h, st, se⟩ hb
    simp only
    cases hrg : (reported p).get h with
    | none => simp
    | some rv =>
      simp only
      cases hcond : (st == TState.inTransfer && rv.state == TState.normal) with
      | false => simp
      | true =>
      simp only [Bool.not_true, Bool.false_or]
      simp only [Bool.and_eq_true, beq_iff_eq] at hcond
      obtain ⟨hst, hrn⟩ := hcond
      obtain ⟨hact, v, hmem, hvst⟩ := mem_body hb
      have hnodup := cycle_nodup swr sc inp hne hnd
      have hs' : (cycle swr sc inp).cs.shards[q]? = some s := hs
      have hv : s.scraping.get h = some v := get_of_mem_nodup _ h v (hnodup q s hs') hmem
      have mv := cycle_move swr sc inp hne hnd
      obtain ⟨d, sd, vd, hdq, hsd, hcd, hgd, hnd'⟩ :=
        mv.nh q s h v p rv hs' hv (by rw [hvst, hst]) hp hrg hrn hact
      -- the probe and requests of shard d
      have hdlt : d < inp.probes.length := by
        rw [← final_length' swr sc inp hne]
        rcases Nat.lt_or_ge d (cycle swr sc inp).final.length with hl | hl
        · exact hl
        · have : (cycle swr sc inp).cs.shards[d]? = none := List.getElem?_eq_none hl
          rw [this] at hsd; cases hsd
      have hpd : inp.probes[d]? = some inp.probes[d] := by simp [hdlt]
      have hsd' : (cycle swr sc inp).final[d]? = some sd := hsd
      have hsyncd : inSync inp.probes[d] = true := by
        rw [← final_changeable swr sc inp hne hpd hsd']; exact hcd
      have hrd : (cycle swr sc inp).reqs[d]? = some ((getInfo inp.probes[d]).2 ++ applyReqs inp.active inp.probes[d] sd) := by
        rcases reqs_cases swr sc inp hpd with h1 | ⟨_, s2, hs2, h22⟩
        · exfalso
          -- shard q did get its update, so the cycle was a full one
          rcases cycle_reqs swr sc inp _ rfl with ⟨_, _, hrq⟩ | ⟨_, hrq⟩
          · have hz : (inp.probes.zip (cycle swr sc inp).final)[d]? = some (inp.probes[d], sd) :=
              List.getElem?_zip_eq_some.mpr ⟨hpd, hsd'⟩
            have hap : ((inp.probes.zip (cycle swr sc inp).final).map fun x => applyReqs inp.active x.1 x.2)[d]?
                = some (applyReqs inp.active inp.probes[d] sd) := by rw [List.getElem?_map, hz]; rfl
            have hg1 : (getReqsOf inp)[d]? = some (getInfo inp.probes[d]).2 := by rw [getReqsOf_get, hpd]; rfl
            rw [hrq, zipmap_get _ _ _ d _ _ hg1 hap] at h1
            have := Option.some.inj h1
            have hlen := congrArg List.length this
            simp only [List.length_append] at hlen
            have : (applyReqs inp.active inp.probes[d] sd).length = 0 := by omega
            unfold applyReqs at this
            simp only [hcd, Bool.not_true, Bool.false_eq_true, if_false] at this
            split at this
            · split at this <;> simp at this
            · simp at this
          · rw [hrq, getReqsOf_get, hp] at h2
            simp only [Option.map_some, Option.some.injEq] at h2
            have hlen := congrArg List.length h2
            simp only [List.length_append] at hlen
            have : (applyReqs inp.active p s).length = 0 := by omega
            have hsc : s.changeable = true := by
              simp only [Bool.and_eq_true] at hc; exact hc.1
            unfold applyReqs at this
            simp only [hsc, Bool.not_true, Bool.false_eq_true, if_false] at this
            split at this
            · split at this <;> simp at this
            · simp at this
        · rw [hsd'] at hs2; cases hs2; exact h22
      rw [List.any_eq_true]
      refine ⟨(d, inp.probes[d], (getInfo inp.probes[d]).2 ++ applyReqs inp.active inp.probes[d] sd),
        mem_shardsOf.mpr ⟨hpd, by rw [er]; exact hrd⟩, ?_⟩
      simp only [Bool.and_eq_true, bne_iff_ne, ne_eq]
      refine ⟨⟨hdq, hsyncd⟩, ?_⟩
      -- h is among the targets shard d holds in normal state afterwards
      have hmemd : (h, vd) ∈ sd.scraping := get_some_mem _ _ _ hgd
      have hbodyd : (h, TState.normal, vd.series) ∈ body inp.active sd := by
        unfold body planned
        simp only [List.mem_map, List.mem_filter]
        exact ⟨(h, vd), ⟨hmemd, by simpa using hact⟩, by simp [hnd']⟩
      unfold C08.normalAfter
      rw [postedBody_apply]
      cases hcd2 : (sd.changeable && needUpdate (inp.probes[d].status.getD []) (body inp.active sd)) with
      | true =>
        simp only [if_true, List.contains_eq_mem, List.mem_map, List.mem_filter, decide_eq_true_eq]
        exact ⟨(h, TState.normal, vd.series), ⟨hbodyd, by simp⟩, rfl⟩
      | false =>
        simp only [Bool.false_eq_true, if_false, List.contains_eq_mem, List.mem_map, List.mem_filter, decide_eq_true_eq]
        have hnu : needUpdate (inp.probes[d].status.getD []) (body inp.active sd) = false := by
          simp only [hcd, Bool.true_and] at hcd2; exact hcd2
        obtain ⟨r', hr', hst'⟩ := needUpdate_false_entry hnu _ hbodyd
        have hrep : reported inp.probes[d] = inp.probes[d].status.getD [] := by
          unfold reported
          have : inp.probes[d].ready = true := by
            unfold inSync at hsyncd
            simp only [Bool.and_eq_true] at hsyncd
            exact hsyncd.1.1
          simp [this]
        rw [hrep]
        exact ⟨(h, r'), ⟨get_some_mem _ _ _ hr', by simpa using hst'⟩, rfl⟩

end Kvass.Coord
