/-
  Progress of relief: a shard whose settled load exceeds the process-series limit, and that holds
  no settled target exceeding the limit alone, makes the cycle start a relief move or ask for more
  shards — the counterpart, for overload, of C03's scale-up clause for unplaced targets.
-/
import Kvass.Proofs.CoordNeed
import Kvass.Proofs.CoordMove

namespace Kvass.Coord
open Kvass Kvass.Spec

/-- a process-relief move has been logged -/
def P1 (c : CS) : Prop := ∃ pl ∈ c.log, pl.kind = 1

theorem p1_presA (o : Opt) (glob : Hash → St) : PresA o glob P1 where
  crash := fun c hc => hc
  transfer := by
    intro k c i j h ⟨pl, hm, hk⟩ _
    unfold transfer
    split
    · split
      · exact ⟨pl, hm, hk⟩
      · exact ⟨pl, List.mem_append_left _ hm, hk⟩
    · exact ⟨pl, hm, hk⟩
  place := by
    intro c j h ⟨pl, hm, hk⟩ _
    unfold place
    split
    · first | exact ⟨pl, List.mem_append_left _ hm, hk⟩ | exact ⟨pl, hm, hk⟩
    · first | exact ⟨pl, hm, hk⟩ | exact ⟨pl, List.mem_append_left _ hm, hk⟩

/-- shard `i` holds no settled target that alone exceeds the process limit -/
def NB (o : Opt) (c : CS) (i : Nat) : Prop :=
  ∀ s, c.shards[i]? = some s → ∀ h tar, s.scraping.get h = some tar → Gen.apSkip tar = true ∨ Gen.apTooBig o tar = false

/-- the relief loop of any shard: nothing moved and the state is as before, or a move is logged -/
theorem apLoop_same_or_moved (o : Opt) (i : Nat) (exp : Int) (_hch0 : True) :
    ∀ (hs : List Hash) (c : CS) (total : Int), (∀ s, c.shards[i]? = some s → s.changeable = true) →
      ((apLoop o i exp hs c total).1 = c ∧ ((apLoop o i exp hs c total).2.2 = false → (apLoop o i exp hs c total).2.1 = total)) ∨
      P1 (apLoop o i exp hs c total).1 := by
  intro hs
  induction hs with
  | nil => intro c total _; left; simp [apLoop]
  | cons h hs ih =>
    intro c total hsrc
    unfold apLoop
    split
    · left; exact ⟨rfl, fun _ => rfl⟩
    · split
      · left; exact ⟨rfl, fun _ => rfl⟩
      · rename_i s hs'
        split
        · exact ih c total hsrc
        · rename_i tar htar
          split
          · exact ih c total hsrc
          · split
            · left; exact ⟨rfl, fun hf => by cases hf⟩
            · split
              · rename_i j hj
                right
                obtain ⟨t, ht, _, hji, _⟩ := firstDst_spec hj
                have hp1 : P1 (transfer 1 c i j h) := by
                  rw [transfer_eq hs' ht htar]
                  exact ⟨tPl 1 h i j t tar, by simp, rfl⟩
                have hsrc' := transfer_src_changeable 1 c i j h hsrc
                rcases ih (transfer 1 c i j h) (Gen.apSub total tar) hsrc' with ⟨e, _⟩ | hp
                · rw [e]; exact hp1
                · exact hp
              · exact ih c total hsrc

/-- … and with no oversized settled target on the shard the loop is never aborted -/
theorem apLoop_not_aborted (o : Opt) (i : Nat) (exp : Int) :
    ∀ (hs : List Hash) (c : CS) (total : Int), NB o c i → (apLoop o i exp hs c total).2.2 = false := by
  intro hs
  induction hs with
  | nil => intro c total _; simp [apLoop]
  | cons h hs ih =>
    intro c total hnb
    unfold apLoop
    split
    · rfl
    · split
      · rfl
      · rename_i s hs'
        split
        · exact ih c total hnb
        · rename_i tar htar
          split
          · exact ih c total hnb
          · rename_i hskip
            split
            · rename_i hbig
              rcases hnb s hs' h tar htar with e | e
              · exact absurd e hskip
              · rw [e] at hbig; cases hbig
            · split
              · rename_i j hj
                obtain ⟨t, ht, _, hji, _⟩ := firstDst_spec hj
                apply ih
                intro s1 hs1 h' tar' hg'
                rw [transfer_shard_at hs' ht htar hji] at hs1
                simp only [if_true, Option.some.injEq] at hs1
                subst hs1
                unfold tSrc at hg'
                simp only at hg'
                rw [AL.get_set] at hg'
                split at hg'
                · simp only [Option.some.injEq] at hg'
                  subst hg'
                  left
                  simp [Gen.apSkip]
                · exact hnb s hs' h' tar' hg'
              · exact ih c total hnb

/-- one overloaded shard: space is asked for (and nothing has changed), or a move is logged -/
theorem allevProcShard_progress (o : Opt) (exp : Int) (order : List Hash) (c : CS) (i : Nat) (s : SI)
    (hs : c.shards[i]? = some s) (hch : s.changeable = true) (hnb : NB o c i) (hload : exp < loadProc s) :
    (0 < (allevProcShard o exp order c i).2 ∧ (allevProcShard o exp order c i).1 = c) ∨
    P1 (allevProcShard o exp order c i).1 := by
  unfold allevProcShard
  rw [hs]
  simp only
  have hdone : Gen.apDone (loadProc s) exp = false := by
    unfold Gen.apDone; simp; omega
  rw [hdone]
  simp only [Bool.false_eq_true, if_false]
  have hsrc : ∀ s', c.shards[i]? = some s' → s'.changeable = true := by
    intro s' hs'; rw [hs] at hs'; cases hs'; exact hch
  have h1 := apLoop_same_or_moved o i exp trivial order c (loadProc s) hsrc
  have h2 := apLoop_not_aborted o i exp order c (loadProc s) hnb
  generalize apLoop o i exp order c (loadProc s) = r at h1 h2
  obtain ⟨c', total', ab⟩ := r
  simp only at h1 h2 ⊢
  subst h2
  simp only [Bool.false_eq_true, if_false]
  rcases h1 with ⟨e, ht⟩ | hp
  · left
    have := ht rfl
    subst this; subst e
    have hneed : Gen.apNeed (loadProc s) exp = true := by unfold Gen.apNeed; simp; omega
    rw [hneed]
    simp only [if_true]
    exact ⟨by unfold Gen.apAmount; omega, by first | rfl | trivial⟩
  · right
    split <;> exact hp

/-- any shard: nothing has changed, or a move is logged; the need is not negative -/
theorem allevProcShard_same_or_moved (o : Opt) (exp : Int) (order : List Hash) (c : CS) (i : Nat)
    (hsrc : ∀ s, c.shards[i]? = some s → s.changeable = true) :
    (allevProcShard o exp order c i).1 = c ∨ P1 (allevProcShard o exp order c i).1 := by
  unfold allevProcShard
  split
  · exact Or.inl rfl
  · simp only
    split
    · exact Or.inl rfl
    · have h1 := apLoop_same_or_moved o i exp trivial order c (loadProc ‹SI›) hsrc
      generalize apLoop o i exp order c (loadProc ‹SI›) = r at h1
      obtain ⟨c', total', ab⟩ := r
      simp only at h1 ⊢
      rcases h1 with ⟨e, _⟩ | hp
      · left; split
        · exact e
        · split <;> exact e
      · right; split
        · exact hp
        · split <;> exact hp

/-- the need only grows along the shards -/
theorem allevProcAll_need_mono (swr : Swr) (o : Opt) (orders : List (List Hash)) :
    ∀ (is : List Nat) (c : CS) (need : Int), need ≤ (allevProcAll swr o orders is c need).2 := by
  intro is
  induction is with
  | nil => intro c need; simp [allevProcAll]
  | cons i is ih =>
    intro c need
    unfold allevProcAll
    split
    · exact ih c need
    · split
      · have := allevProcShard_need_nonneg o (Gen.procExpect swr o) (orderFor orders i) c i
        generalize allevProcShard o (Gen.procExpect swr o) (orderFor orders i) c i = r at this
        obtain ⟨c', n⟩ := r
        simp only at this ⊢
        have := ih c' (need + n)
        omega
      · exact ih c need

/-- all shards in turn: an overloaded shard among them makes the need grow, or a move is logged -/
theorem allevProcAll_progress (swr : Swr) (o : Opt) (orders : List (List Hash)) (i : Nat) :
    ∀ (is : List Nat) (c : CS) (need : Int) (s : SI), i ∈ is → c.shards[i]? = some s → s.changeable = true →
      Gen.procTrigger swr o s.rt = true → NB o c i → Gen.procExpect swr o < loadProc s →
      need < (allevProcAll swr o orders is c need).2 ∨ P1 (allevProcAll swr o orders is c need).1 := by
  intro is
  induction is with
  | nil => intro c need s hm; cases hm
  | cons k is ih =>
    intro c need s hm hs hch htr hnb hload
    have hp := (p1_presA o (fun _ => default)).toPres
    unfold allevProcAll
    by_cases hki : k = i
    · subst hki
      rw [hs]
      simp only [hch, htr, Bool.and_self, if_true]
      rcases allevProcShard_progress o (Gen.procExpect swr o) (orderFor orders k) c k s hs hch hnb hload with ⟨hn, _⟩ | hp1
      · left
        generalize allevProcShard o (Gen.procExpect swr o) (orderFor orders k) c k = r at hn
        obtain ⟨c', n⟩ := r
        simp only at hn ⊢
        have := allevProcAll_need_mono swr o orders is c' (need + n)
        omega
      · right
        generalize allevProcShard o (Gen.procExpect swr o) (orderFor orders k) c k = r at hp1
        obtain ⟨c', n⟩ := r
        simp only at hp1 ⊢
        exact (allevProcAllX (hp.toX (fun _ => True) (fun _ => True) True) swr (fun _ _ => trivial) orders is c' (need + n) hp1)
    · have him : i ∈ is := by
        rcases List.mem_cons.mp hm with e | e
        · exact absurd e.symm hki
        · exact e
      split
      · exact ih c need s him hs hch htr hnb hload
      · rename_i sk hsk
        split
        · rename_i hcond
          simp only [Bool.and_eq_true] at hcond
          have hsrc : ∀ s', c.shards[k]? = some s' → s'.changeable = true := by
            intro s' hs'; rw [hsk] at hs'; cases hs'; exact hcond.1
          have hnn := allevProcShard_need_nonneg o (Gen.procExpect swr o) (orderFor orders k) c k
          rcases allevProcShard_same_or_moved o (Gen.procExpect swr o) (orderFor orders k) c k hsrc with e | hp1
          · generalize allevProcShard o (Gen.procExpect swr o) (orderFor orders k) c k = r at e hnn
            obtain ⟨c', n⟩ := r
            simp only at e hnn ⊢
            subst e
            rcases ih c' (need + n) s him hs hch htr hnb hload with h1 | h1
            · left; omega
            · exact Or.inr h1
          · right
            generalize allevProcShard o (Gen.procExpect swr o) (orderFor orders k) c k = r at hp1
            obtain ⟨c', n⟩ := r
            simp only at hp1 ⊢
            exact (allevProcAllX (hp.toX (fun _ => True) (fun _ => True) True) swr (fun _ _ => trivial) orders is c' (need + n) hp1)
        · exact ih c need s him hs hch htr hnb hload

end Kvass.Coord

namespace Kvass.Coord
open Kvass Kvass.Spec

theorem alleviate_progress (swr : Swr) (o : Opt) (sc : Sched) (c : CS) (i : Nat) (s : SI)
    (hen : Gen.allevDisabled o = false) (hs : c.shards[i]? = some s) (hch : s.changeable = true)
    (htr : Gen.procTrigger swr o s.rt = true) (hnb : NB o c i) (hload : Gen.procExpect swr o < loadProc s) :
    0 < (alleviate swr o sc c).2.proc ∨ P1 (alleviate swr o sc c).1 := by
  have hp := (p1_presA o (fun _ => default)).toPres
  have him : i ∈ List.range c.shards.length := by
    rw [List.mem_range]
    exact (List.getElem?_eq_some_iff.mp hs).1
  have h1 := allevProcAll_progress swr o sc.allevProc i (List.range c.shards.length) c 0 s him hs hch htr hnb hload
  unfold alleviate
  simp only [hen, Bool.false_eq_true, if_false]
  generalize allevProcAll swr o sc.allevProc (List.range c.shards.length) c 0 = r1 at h1
  obtain ⟨c1, np⟩ := r1
  simp only at h1 ⊢
  split
  · rename_i hhe
    have hh : o.maxHead ≠ 0 := (Sites.headEnabled_iff o).mp hhe
    rcases h1 with h1 | h1
    · left
      generalize allevHeadAll swr o sc.allevHead (List.range c.shards.length) c1 0 = r2
      obtain ⟨c2, nh⟩ := r2
      exact h1
    · right
      have := allevHeadAllX (hp.toX (fun _ => True) (fun _ => True) True) hh swr (fun _ _ _ => trivial) sc.allevHead
        (List.range c.shards.length) c1 0 h1
      generalize allevHeadAll swr o sc.allevHead (List.range c.shards.length) c1 0 = r2 at this
      obtain ⟨c2, nh⟩ := r2
      exact this
  · rcases h1 with h1 | h1
    · exact Or.inl h1
    · exact Or.inr h1

/-- whatever the last stage does, an invariant of the placement stages carries over to the outcome -/
theorem finish_pres {P : CS → Prop} (sc : Sched) (inp : Input) (ss1 : List SI) (c3 : CS) (picks : List Nat) (need : Space)
    (hp : Pres inp.opt P) (hc : P c3) (hPlog : ∀ c c', c'.log = c.log → P c → P c')
    (hnc : (finish sc inp ss1 c3 picks need).crashed = false) :
    P (finish sc inp ss1 c3 picks need).cs := by
  unfold finish at hnc ⊢
  unfold Outcome.cs
  simp only at hnc ⊢
  split at hnc
  · cases hnc
  · rename_i hcr
    simp only [hcr, Bool.false_eq_true, if_false]
    have hr : P
        (if Gen.needUp (Gen.spaceIsZero need) = true then (tryScaleUp inp.opt c3.shards need, c3)
          else if Gen.scaleDownOn inp.opt = true then tryScaleDown inp.opt sc c3 picks
          else (Gen.scaleInit (c3.shards.length : Int) (nChangeable c3.shards), c3)).2 := by
      split
      · exact hc
      · split
        · exact tryScaleDown_pres hp sc c3 picks hc
        · exact hc
    generalize (if Gen.needUp (Gen.spaceIsZero need) = true then (tryScaleUp inp.opt c3.shards need, c3)
          else if Gen.scaleDownOn inp.opt = true then tryScaleDown inp.opt sc c3 picks
          else (Gen.scaleInit (c3.shards.length : Int) (nChangeable c3.shards), c3)) = r at hr hnc ⊢
    split at hnc
    · cases hnc
    · rename_i h4
      simp only [h4, Bool.false_eq_true, if_false]
      exact hPlog r.2 _ rfl hr

/-- **progress of relief (process series)**: all shards in sync, relief enabled, the cycle runs to
    its end without crashing, more shards are allowed.  If after `gcTargets` some shard is at or above
    the process-series trigger, its settled load (targets in normal state, healthy, scraped three
    times) exceeds the limit, and none of its settled targets exceeds the limit alone, then the cycle
    starts a relief move — a placement of kind 1 is logged — or its last request asks for more
    shards than there are. -/
theorem relief_progress (swr : Swr) (sc : Sched) (inp : Input)
    (hsync : ∀ p ∈ inp.probes, inSync p = true)
    (hmp : 0 < inp.opt.maxProc) (hmh : 0 ≤ inp.opt.maxHead)
    (hnn : ∀ k, 0 ≤ (globalOf (infos0 inp) inp.explore k).series ∧ 0 ≤ (globalOf (infos0 inp) inp.explore k).total)
    (hen : Gen.allevDisabled inp.opt = false)
    (hne : stopsEarly inp = false) (hnc : (cycle swr sc inp).crashed = false)
    (hmax : (inp.probes.length : Int) < inp.opt.maxShard)
    (i : Nat) (s : SI) (hs : (startCS inp).shards[i]? = some s) (hch : s.changeable = true)
    (htr : Gen.procTrigger swr inp.opt s.rt = true) (hnb : NB inp.opt (startCS inp) i)
    (hload : Gen.procExpect swr inp.opt < loadProc s) :
    (∃ pl ∈ (cycle swr sc inp).log, pl.kind = 1) ∨
    ∃ k, (cycle swr sc inp).scales.getLast? = some k ∧ (inp.probes.length : Int) < k := by
  have heq := cycle_eq_finish swr sc inp hne
  have hprog := alleviate_progress swr inp.opt sc (startCS inp) i s hen hs hch htr hnb hload
  have hn1 := alleviate_need_nonneg swr inp.opt sc (startCS inp)
  generalize hc2 : (alleviate swr inp.opt sc (startCS inp)) = r2 at heq hprog hn1
  obtain ⟨c2, need1⟩ := r2
  simp only at heq hprog hn1
  have hassign : assign inp.opt inp.active (globalOf (infos0 inp) inp.explore) sc c2 =
      assignLoop inp.opt (scrapingSetOf c2.shards) (globalOf (infos0 inp) inp.explore)
        (uniq (sc.assign.filter inp.active.contains)) c2 sc.picks {} := rfl
  have hp3 : P1 c2 → P1 (assign inp.opt inp.active (globalOf (infos0 inp) inp.explore) sc c2).1 :=
    fun h => assign_pres (p1_presA inp.opt _) inp.active sc c2 h
  generalize hc3 : assign inp.opt inp.active (globalOf (infos0 inp) inp.explore) sc c2 = r3 at heq hassign hp3
  obtain ⟨c3, picks, need2⟩ := r3
  simp only at heq hp3
  rw [heq] at hnc ⊢
  have hloop := assignLoop_need (o := inp.opt) (scr := scrapingSetOf c2.shards) hnn
    (uniq (sc.assign.filter inp.active.contains)) c2 sc.picks {} (uniq_nodup _) (keysIn_init c2 _)
  rw [← hassign] at hloop
  obtain ⟨hm1, hm2, _⟩ := hloop
  simp only at hm1 hm2
  rcases hprog with hpos | hp1
  · right
    have hup : Gen.needUp (Gen.spaceIsZero (spaceAdd need1 need2)) = true := by
      rw [Sites.needUp_iff]
      cases hz : Gen.spaceIsZero (spaceAdd need1 need2) with
      | false => rfl
      | true =>
        rw [Sites.spaceIsZero_iff] at hz
        simp only [spaceAdd, Gen.spaceAddHead, Gen.spaceAddProc] at hz
        have e2 : (0 : Int) ≤ need2.proc := hm2
        omega
    obtain ⟨hfin, hscales⟩ := finish_up sc inp _ c3 picks _ hnc hup
    refine ⟨clamp inp.opt (tryScaleUp inp.opt c3.shards (spaceAdd need1 need2)), by rw [hscales]; simp, ?_⟩
    have hfl := final_length' swr sc inp hne
    rw [heq, hfin] at hfl
    have hall : nChangeable c3.shards = c3.shards.length := by
      have := final_all_changeable swr sc inp hne hsync
      rw [heq, hfin] at this; exact this
    have hnp : 0 ≤ (spaceAdd need1 need2).proc := by
      simp only [spaceAdd, Gen.spaceAddProc]
      have e2 : (0 : Int) ≤ need2.proc := hm2
      omega
    have hnh : 0 ≤ (spaceAdd need1 need2).head := by
      simp only [spaceAdd, Gen.spaceAddHead]
      have e1 : (0 : Int) ≤ need2.head := hm1
      have := hn1.1
      omega
    have := tryScaleUp_exceeds inp.opt c3.shards (spaceAdd need1 need2) hall hnp hnh hmp hmh
    apply clamp_exceeds
    · rw [← hfl]; exact this
    · exact hmax
  · left
    have := finish_pres sc inp _ c3 picks (spaceAdd need1 need2) (p1_presA inp.opt (fun _ => default)).toPres (hp3 hp1)
      (fun c c' e h => by obtain ⟨pl, hm, hk⟩ := h; exact ⟨pl, by rw [e]; exact hm, hk⟩) hnc
    exact this

end Kvass.Coord

namespace Kvass.Coord
open Kvass Kvass.Spec

/-! ### relief reaches its goal: the settled load left on the shard -/

def wProc (tar : St) : Int := if Gen.loadSkipProc tar then 0 else tar.total

theorem loadProc_eq (s : SI) : loadProc s = (s.scraping.map fun p => wProc p.2).sum := rfl

/-- replacing the entry of `h` changes the sum by the difference of the two weights -/
theorem sum_set_existing (w : St → Int) : ∀ (m : AL St) (h : Hash) (tar tar' : St), m.get h = some tar →
    ((m.set h tar').map fun p => w p.2).sum = (m.map fun p => w p.2).sum - w tar + w tar' := by
  intro m
  induction m with
  | nil => intro h tar tar' hg; simp [AL.get] at hg
  | cons e m ih =>
    intro h tar tar' hg
    obtain ⟨k, x⟩ := e
    rw [AL.get_cons] at hg
    by_cases hk : k = h
    · simp only [hk, if_true, Option.some.injEq] at hg
      subst hg
      simp only [AL.set, hk, if_true, List.map_cons, List.sum_cons]
      omega
    · simp only [hk, if_false] at hg
      have := ih h tar tar' hg
      simp only [AL.set, hk, if_false, List.map_cons, List.sum_cons]
      omega

/-- along the relief loop the running total is the settled load still on the shard -/
theorem apLoop_total (o : Opt) (i : Nat) (exp : Int) :
    ∀ (hs : List Hash) (c : CS) (total : Int) (s : SI), c.shards[i]? = some s → total = loadProc s →
      (apLoop o i exp hs c total).2.2 = false →
      ∃ s', (apLoop o i exp hs c total).1.shards[i]? = some s' ∧ (apLoop o i exp hs c total).2.1 = loadProc s' := by
  intro hs
  induction hs with
  | nil => intro c total s hs ht _; exact ⟨s, by simpa [apLoop] using hs, by simpa [apLoop] using ht⟩
  | cons h hs ih =>
    intro c total s hsi ht hna
    unfold apLoop at hna ⊢
    split
    · exact ⟨s, hsi, ht⟩
    · rename_i hbr
      simp only [hbr, Bool.false_eq_true, if_false] at hna
      rw [hsi] at hna ⊢
      simp only at hna ⊢
      split
      · rename_i hnone
        simp only [hnone] at hna
        exact ih c total s hsi ht hna
      · rename_i tar htar
        simp only [htar] at hna
        split
        · rename_i hskip
          simp only [hskip, if_true] at hna
          exact ih c total s hsi ht hna
        · rename_i hskip
          simp only [hskip, Bool.false_eq_true, if_false] at hna
          split
          · rename_i hbig
            simp only [hbig, if_true] at hna
            cases hna
          · rename_i hbig
            simp only [hbig, Bool.false_eq_true, if_false] at hna
            split
            · rename_i j hj
              simp only [hj] at hna
              obtain ⟨t, htj, _, hji, _⟩ := firstDst_spec hj
              have hsrc : (transfer 1 c i j h).shards[i]? = some (tSrc s h tar) := by
                rw [transfer_shard_at hsi htj htar hji]; simp
              apply ih (transfer 1 c i j h) (Gen.apSub total tar) (tSrc s h tar) hsrc _ hna
              -- the moved target was counted with its total series, and counts for nothing in transfer
              rw [loadProc_eq] at ht
              rw [loadProc_eq]
              unfold tSrc
              simp only
              rw [sum_set_existing wProc s.scraping h tar { tar with state := .inTransfer } htar]
              have h1 : wProc tar = tar.total := by
                unfold wProc
                have : Gen.loadSkipProc tar = false := by
                  have hs' : Gen.apSkip tar = false := by simpa using hskip
                  unfold Gen.apSkip at hs'
                  unfold Gen.loadSkipProc
                  simp only [Bool.or_eq_false_iff] at hs' ⊢
                  exact ⟨⟨hs'.1.1.2, hs'.1.2⟩, hs'.2⟩
                rw [this]; rfl
              have h2 : wProc { tar with state := .inTransfer } = 0 := by
                unfold wProc Gen.loadSkipProc; simp
              rw [h1, h2, ht]
              unfold Gen.apSub; omega
            · rename_i hnj
              simp only [hnj] at hna
              exact ih c total s hsi ht hna

/-- **relief reaches its goal on the shard it works on**: after `alleviateShardProcessSeries` the
    loop was aborted by a settled target that alone exceeds the limit, or space is requested, or the
    settled load left on the shard is at most the expected one. -/
theorem allevProcShard_goal (o : Opt) (exp : Int) (order : List Hash) (c : CS) (i : Nat) (s : SI)
    (hs : c.shards[i]? = some s) (hnb : NB o c i) :
    0 < (allevProcShard o exp order c i).2 ∨
    ∃ s', (allevProcShard o exp order c i).1.shards[i]? = some s' ∧ loadProc s' ≤ exp := by
  unfold allevProcShard
  rw [hs]
  simp only
  split
  · rename_i hdone
    right
    exact ⟨s, hs, by simpa [Gen.apDone] using hdone⟩
  · have hna := apLoop_not_aborted o i exp order c (loadProc s) hnb
    have htot := apLoop_total o i exp order c (loadProc s) s hs rfl hna
    generalize apLoop o i exp order c (loadProc s) = r at hna htot
    obtain ⟨c', total', ab⟩ := r
    simp only at hna htot ⊢
    subst hna
    simp only [Bool.false_eq_true, if_false]
    obtain ⟨s', hs', ht'⟩ := htot
    split
    · rename_i hneed
      left
      have : total' > exp := by simpa [Gen.apNeed] using hneed
      unfold Gen.apAmount; omega
    · rename_i hneed
      right
      refine ⟨s', hs', ?_⟩
      have : ¬ total' > exp := by simpa [Gen.apNeed] using hneed
      omega

end Kvass.Coord
