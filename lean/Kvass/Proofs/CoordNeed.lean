/-
  Needed space: what `alleviateShards` and `assignNoScrapingTargets` report as still needed is
  non-negative, contains the size of every eligible target the assignment loop could not place, and
  makes the cycle ask for more shards than there are.  (scale-up clause of C03)
-/
import Kvass.Proofs.CoordScale

namespace Kvass.Coord
open Kvass Kvass.Spec

/-! ### `tryScaleUp` and the clamp -/

theorem tryScaleUp_exceeds (o : Opt) (ss : List SI) (sp : Space) (hall : nChangeable ss = ss.length)
    (hp : 0 ≤ sp.proc) (hh : 0 ≤ sp.head) (hmp : 0 < o.maxProc) (hmh : 0 ≤ o.maxHead) :
    (ss.length : Int) + 1 ≤ tryScaleUp o ss sp := by
  unfold tryScaleUp
  simp only [Sites.upBase_eq, Sites.upSum_eq, hall]
  have h1 : 1 ≤ Gen.upProc o sp := by
    rw [Sites.upProc_eq]
    have := Int.tdiv_nonneg hp (Int.le_of_lt hmp)
    omega
  have h2 : 1 ≤ Gen.upHead o sp := by
    rw [Sites.upHead_eq]
    have := Int.tdiv_nonneg hh hmh
    omega
  have h3 : 1 ≤ (if Gen.upUseHead o sp (Gen.upProc o sp) = true then Gen.upHead o sp else Gen.upProc o sp) := by
    split <;> assumption
  generalize (if Gen.upUseHead o sp (Gen.upProc o sp) = true then Gen.upHead o sp else Gen.upProc o sp) = up at h3
  split
  · rename_i hf
    rw [Sites.upFloor_iff] at hf
    omega
  · omega

theorem clamp_exceeds (o : Opt) (k n : Int) (hk : n + 1 ≤ k) (hmax : n < o.maxShard) : n < clamp o k := by
  unfold clamp
  simp only
  split
  · split
    · rename_i h2
      rw [Sites.clampMin_iff] at h2; rw [Sites.clampMinTo_eq]
      rw [Sites.clampMaxTo_eq] at h2; omega
    · rw [Sites.clampMaxTo_eq]; exact hmax
  · split
    · rename_i h2
      rw [Sites.clampMin_iff] at h2; rw [Sites.clampMinTo_eq]; omega
    · omega

/-! ### relief never reports a negative need -/

theorem allevProcShard_need_nonneg (o : Opt) (exp : Int) (order : List Hash) (c : CS) (i : Nat) :
    0 ≤ (allevProcShard o exp order c i).2 := by
  unfold allevProcShard
  split
  · exact Int.le_refl _
  · simp only
    split
    · exact Int.le_refl _
    · generalize apLoop o i exp order c _ = r
      obtain ⟨c', total', ab⟩ := r
      simp only
      split
      · exact Int.le_refl _
      · split
        · rename_i hn
          simp only [Gen.apNeed, decide_eq_true_eq] at hn
          simp only [Gen.apAmount]; omega
        · exact Int.le_refl _

theorem allevHeadShard_need_nonneg (o : Opt) (exp : Int) (order : List Hash) (c : CS) (i : Nat) :
    0 ≤ (allevHeadShard o exp order c i).2 := by
  unfold allevHeadShard
  split
  · exact Int.le_refl _
  · simp only
    split
    · exact Int.le_refl _
    · generalize ahLoop o i exp order c _ = r
      obtain ⟨c', total', ab⟩ := r
      simp only
      split
      · exact Int.le_refl _
      · split
        · rename_i hn
          simp only [Gen.ahNeed, decide_eq_true_eq] at hn
          simp only [Gen.ahAmount]; omega
        · exact Int.le_refl _

theorem allevProcAll_need_nonneg (swr : Swr) (o : Opt) (orders : List (List Hash)) :
    ∀ (is : List Nat) (c : CS) (need : Int), 0 ≤ need → 0 ≤ (allevProcAll swr o orders is c need).2 := by
  intro is
  induction is with
  | nil => intro c need h; simpa [allevProcAll] using h
  | cons i is ih =>
    intro c need h
    unfold allevProcAll
    split
    · exact ih c need h
    · split
      · have := allevProcShard_need_nonneg o (Gen.procExpect swr o) (orderFor orders i) c i
        generalize allevProcShard o (Gen.procExpect swr o) (orderFor orders i) c i = r at this
        obtain ⟨c', n⟩ := r
        simp only at this ⊢
        exact ih c' (need + n) (by omega)
      · exact ih c need h

theorem allevHeadAll_need_nonneg (swr : Swr) (o : Opt) (orders : List (List Hash)) :
    ∀ (is : List Nat) (c : CS) (need : Int), 0 ≤ need → 0 ≤ (allevHeadAll swr o orders is c need).2 := by
  intro is
  induction is with
  | nil => intro c need h; simpa [allevHeadAll] using h
  | cons i is ih =>
    intro c need h
    unfold allevHeadAll
    split
    · exact ih c need h
    · split
      · split
        · rename_i ex _
          have := allevHeadShard_need_nonneg o (Gen.headExpect swr o ex) (orderFor orders i) c i
          generalize allevHeadShard o (Gen.headExpect swr o ex) (orderFor orders i) c i = r at this
          obtain ⟨c', n⟩ := r
          simp only at this ⊢
          exact ih c' (need + n) (by omega)
        · exact ih c need h
      · exact ih c need h

theorem alleviate_need_nonneg (swr : Swr) (o : Opt) (sc : Sched) (c : CS) :
    0 ≤ (alleviate swr o sc c).2.head ∧ 0 ≤ (alleviate swr o sc c).2.proc := by
  unfold alleviate
  split
  · exact ⟨Int.le_refl _, Int.le_refl _⟩
  · have hp := allevProcAll_need_nonneg swr o sc.allevProc (List.range c.shards.length) c 0 (Int.le_refl _)
    simp only
    split
    · have hh := allevHeadAll_need_nonneg swr o sc.allevHead (List.range c.shards.length)
        (allevProcAll swr o sc.allevProc (List.range c.shards.length) c 0).1 0 (Int.le_refl _)
      exact ⟨hh, hp⟩
    · exact ⟨Int.le_refl _, hp⟩

/-! ### the assignment loop: placed, or accounted for -/

/-- some shard holds `h` -/
def HasKey (c : CS) (h : Hash) : Prop := ∃ (j : Nat) (s : SI), c.shards[j]? = some s ∧ s.scraping.get h ≠ none

theorem hasKey_of_grows {ss1 : List SI} {c : CS} {h : Hash} (g : Grows ss1 c)
    (hk : ∃ (j : Nat) (s : SI), ss1[j]? = some s ∧ s.scraping.get h ≠ none) : HasKey c h := by
  obtain ⟨j, s1, hs1, hg⟩ := hk
  obtain ⟨s, hs, _, hkeys⟩ := g.2 j s1 hs1
  cases hv : s1.scraping.get h with
  | none => exact absurd hv hg
  | some v =>
    obtain ⟨v', hv'⟩ := hkeys h v hv
    exact ⟨j, s, hs, by rw [hv']; simp⟩

theorem place_hasKey (k : Nat) (c : CS) (j : Nat) (h : Hash) (st : St) (t : SI) (ht : c.shards[j]? = some t) :
    HasKey (place k c j h st) h := by
  unfold place
  rw [ht]
  exact ⟨j, _, getElem?_set_self' ht, by simp⟩

theorem assignLoop_need {o : Opt} {scr : List Hash} {glob : Hash → St}
    (hg : ∀ h, 0 ≤ (glob h).series ∧ 0 ≤ (glob h).total) :
    ∀ (hs : List Hash) (c : CS) (picks : List Nat) (need : Space), hs.Nodup → KeysIn scr hs c →
      need.head ≤ (assignLoop o scr glob hs c picks need).2.2.head ∧
      need.proc ≤ (assignLoop o scr glob hs c picks need).2.2.proc ∧
      ((assignLoop o scr glob hs c picks need).1.crashed = false → ∀ h ∈ hs, scr.contains h = false →
        Gen.assignSkip (glob h) = false → Gen.tooBig o (glob h) = false →
        HasKey (assignLoop o scr glob hs c picks need).1 h ∨
        (need.head + (glob h).series ≤ (assignLoop o scr glob hs c picks need).2.2.head ∧
         need.proc + (glob h).total ≤ (assignLoop o scr glob hs c picks need).2.2.proc)) := by
  intro hs
  induction hs with
  | nil =>
    intro c picks need _ _
    simp [assignLoop]
  | cons h0 hs ih =>
    intro c picks need hnd hq
    have hnd' := List.nodup_cons.mp hnd
    -- the tail, from any intermediate state
    have tail (c1 : CS) (p1 : List Nat) (n1 : Space) (hq1 : KeysIn scr hs c1)
        (hle : need.head ≤ n1.head ∧ need.proc ≤ n1.proc)
        (hhead : (assignLoop o scr glob hs c1 p1 n1).1.crashed = false → scr.contains h0 = false →
          Gen.assignSkip (glob h0) = false → Gen.tooBig o (glob h0) = false →
          HasKey (assignLoop o scr glob hs c1 p1 n1).1 h0 ∨
          (need.head + (glob h0).series ≤ (assignLoop o scr glob hs c1 p1 n1).2.2.head ∧
           need.proc + (glob h0).total ≤ (assignLoop o scr glob hs c1 p1 n1).2.2.proc)) :
        need.head ≤ (assignLoop o scr glob hs c1 p1 n1).2.2.head ∧
        need.proc ≤ (assignLoop o scr glob hs c1 p1 n1).2.2.proc ∧
        ((assignLoop o scr glob hs c1 p1 n1).1.crashed = false → ∀ h ∈ h0 :: hs, scr.contains h = false →
          Gen.assignSkip (glob h) = false → Gen.tooBig o (glob h) = false →
          HasKey (assignLoop o scr glob hs c1 p1 n1).1 h ∨
          (need.head + (glob h).series ≤ (assignLoop o scr glob hs c1 p1 n1).2.2.head ∧
           need.proc + (glob h).total ≤ (assignLoop o scr glob hs c1 p1 n1).2.2.proc)) := by
      obtain ⟨i1, i2, i3⟩ := ih c1 p1 n1 hnd'.2 hq1
      refine ⟨by omega, by omega, ?_⟩
      intro hcr h hm h1 h2 h3
      rcases List.mem_cons.mp hm with e | e
      · subst e; exact hhead hcr h1 h2 h3
      · rcases i3 hcr h e h1 h2 h3 with a | ⟨a, b⟩
        · exact Or.inl a
        · exact Or.inr ⟨by omega, by omega⟩
    unfold assignLoop
    split
    · -- already crashed: nothing is claimed
      rename_i hcr
      refine ⟨Int.le_refl _, Int.le_refl _, ?_⟩
      intro hc; simp only at hc; rw [hcr] at hc; cases hc
    · split
      · rename_i hscr
        apply tail c picks need (keysIn_tail hq) ⟨Int.le_refl _, Int.le_refl _⟩
        intro _ h1; rw [hscr] at h1; cases h1
      · simp only
        split
        · rename_i hskip
          apply tail c picks need (keysIn_tail hq) ⟨Int.le_refl _, Int.le_refl _⟩
          intro _ _ h2; rw [hskip] at h2; cases h2
        · split
          · rename_i hbig
            apply tail c picks need (keysIn_tail hq) ⟨Int.le_refl _, Int.le_refl _⟩
            intro _ _ _ h3; rw [hbig] at h3; cases h3
          · split
            · -- placed
              rename_i j picks' hgf
              obtain ⟨t, ht, _, _, _⟩ := getFreeShard_some hgf
              apply tail _ picks' need (place_keysIn 0 hq hnd'.1) ⟨Int.le_refl _, Int.le_refl _⟩
              intro _ _ _ _
              left
              have hk := place_hasKey 0 c j h0 (glob h0) t ht
              have grow : Grows (place 0 c j h0 (glob h0)).shards
                  (assignLoop o scr glob hs (place 0 c j h0 (glob h0)) picks' need).1 :=
                assignLoop_pres (grows_presA o glob _) scr hs _ picks' need hnd'.2
                  (place_keysIn 0 hq hnd'.1) (grows_refl _ _ _)
              exact hasKey_of_grows grow hk
            · -- no room: accounted for
              rename_i picks' hgf
              have h0g := hg h0
              apply tail c picks' (spaceAdd need ⟨Gen.spaceOfHead (glob h0), Gen.spaceOfProc (glob h0)⟩)
                (keysIn_tail hq)
              · simp only [spaceAdd, Gen.spaceAddHead, Gen.spaceAddProc, Sites.spaceOfHead_eq, Sites.spaceOfProc_eq]
                constructor <;> omega
              · intro _ _ _ _
                right
                obtain ⟨i1, i2, _⟩ := ih c picks' (spaceAdd need ⟨Gen.spaceOfHead (glob h0), Gen.spaceOfProc (glob h0)⟩)
                  hnd'.2 (keysIn_tail hq)
                simp only [spaceAdd, Gen.spaceAddHead, Gen.spaceAddProc, Sites.spaceOfHead_eq, Sites.spaceOfProc_eq] at i1 i2
                exact ⟨i1, i2⟩
            · -- crash of the weighted pick
              refine ⟨Int.le_refl _, Int.le_refl _, ?_⟩
              intro hc; simp at hc

end Kvass.Coord

namespace Kvass.Coord
open Kvass Kvass.Spec

/-! ### the stages of a full cycle, exposed -/

/-- everything `cycle` does after the assignment stage, as a function of that stage's result -/
def finish (sc : Sched) (inp : Input) (ss1 : List SI) (c3 : CS) (picks : List Nat) (need : Space) : Outcome :=
  let o := inp.opt
  let getReqs := (inp.probes.map getInfo).map (·.2)
  let scales0 : List Int := earlyScales inp
  if c3.crashed || divCrash o need then
    { reqs := getReqs, scales := scales0, log := c3.log, final := c3.shards, afterGc := ss1, crashed := true }
  else
  let r : Int × CS :=
    if Gen.needUp (Gen.spaceIsZero need) then (tryScaleUp o c3.shards need, c3)
    else if Gen.scaleDownOn o then tryScaleDown o sc c3 picks
    else (Gen.scaleInit c3.shards.length (nChangeable c3.shards), c3)
  if r.2.crashed then
    { reqs := getReqs, scales := scales0, log := r.2.log, final := r.2.shards, afterGc := ss1, crashed := true }
  else
  let apply := (inp.probes.zip r.2.shards).map fun (p, s) => applyReqs inp.active p s
  { reqs := (getReqs.zip apply).map fun (a, b) => a ++ b,
    scales := scales0 ++ [Gen.finalScaleArg (clamp o r.1)], log := r.2.log, final := r.2.shards, afterGc := ss1,
    crashed := false }

theorem cycle_eq_finish (swr : Swr) (sc : Sched) (inp : Input) (hne : stopsEarly inp = false) :
    cycle swr sc inp =
      finish sc inp (gc inp.opt inp.active (infos0 inp))
        (assign inp.opt inp.active (globalOf (infos0 inp) inp.explore) sc (alleviate swr inp.opt sc (startCS inp)).1).1
        (assign inp.opt inp.active (globalOf (infos0 inp) inp.explore) sc (alleviate swr inp.opt sc (startCS inp)).1).2.1
        (spaceAdd (alleviate swr inp.opt sc (startCS inp)).2
          (assign inp.opt inp.active (globalOf (infos0 inp) inp.explore) sc (alleviate swr inp.opt sc (startCS inp)).1).2.2) := by
  unfold stopsEarly at hne
  unfold cycle finish startCS infos0 earlyScales earlyOf infos0 clamp
  simp only [hne, Bool.false_eq_true, if_false]

theorem finish_grows (sc : Sched) (inp : Input) (ss1 : List SI) (c3 : CS) (picks : List Nat) (need : Space)
    (hnc : (finish sc inp ss1 c3 picks need).crashed = false) :
    c3.crashed = false ∧ Grows c3.shards (finish sc inp ss1 c3 picks need).cs := by
  unfold finish at hnc ⊢
  unfold Outcome.cs
  simp only at hnc ⊢
  split at hnc
  · cases hnc
  · rename_i hcr
    have hc3 : c3.crashed = false := by
      simp only [Bool.or_eq_true, not_or, Bool.not_eq_true] at hcr; exact hcr.1
    refine ⟨hc3, ?_⟩
    simp only [hcr, Bool.false_eq_true, if_false]
    have h3 : Grows c3.shards c3 := by
      have := grows_refl c3.shards c3.log c3.crashed
      cases c3; simpa using this
    have hr : Grows c3.shards
        (if Gen.needUp (Gen.spaceIsZero need) = true then (tryScaleUp inp.opt c3.shards need, c3)
          else if Gen.scaleDownOn inp.opt = true then tryScaleDown inp.opt sc c3 picks
          else (Gen.scaleInit (c3.shards.length : Int) (nChangeable c3.shards), c3)).2 := by
      split
      · exact h3
      · split
        · exact tryScaleDown_pres (grows_presA inp.opt (fun _ => default) c3.shards).toPres sc c3 picks h3
        · exact h3
    generalize (if Gen.needUp (Gen.spaceIsZero need) = true then (tryScaleUp inp.opt c3.shards need, c3)
          else if Gen.scaleDownOn inp.opt = true then tryScaleDown inp.opt sc c3 picks
          else (Gen.scaleInit (c3.shards.length : Int) (nChangeable c3.shards), c3)) = r at hr hnc ⊢
    split at hnc
    · cases hnc
    · rename_i h4
      simp only [h4, Bool.false_eq_true, if_false]
      exact ⟨hr.1, hr.2⟩

theorem finish_up (sc : Sched) (inp : Input) (ss1 : List SI) (c3 : CS) (picks : List Nat) (need : Space)
    (hnc : (finish sc inp ss1 c3 picks need).crashed = false)
    (hup : Gen.needUp (Gen.spaceIsZero need) = true) :
    (finish sc inp ss1 c3 picks need).final = c3.shards ∧
    (finish sc inp ss1 c3 picks need).scales = earlyScales inp ++ [clamp inp.opt (tryScaleUp inp.opt c3.shards need)] := by
  have hc3 := (finish_grows sc inp ss1 c3 picks need hnc).1
  unfold finish at hnc ⊢
  simp only at hnc ⊢
  split at hnc
  · cases hnc
  · rename_i hcr
    have hdiv : divCrash inp.opt need = false := by
      simp only [Bool.or_eq_true, not_or, Bool.not_eq_true] at hcr; exact hcr.2
    simp only [hdiv, Bool.or_self, Bool.false_eq_true, if_false, hup, if_true, hc3, Sites.finalScaleArg_eq]
    exact ⟨trivial, trivial⟩

theorem final_length' (swr : Swr) (sc : Sched) (inp : Input) (hne : stopsEarly inp = false) :
    (cycle swr sc inp).final.length = inp.probes.length := by
  have grow := cycle_grows swr sc inp hne
  have inv := gc_inv inp.opt inp.active (infos0 inp)
  have := grow.1; unfold Outcome.cs at this; simp only at this
  rw [this, inv.len]; unfold infos0; simp

/-- all shards in sync ⇒ every shard of the final plan is changeable -/
theorem final_all_changeable (swr : Swr) (sc : Sched) (inp : Input) (hne : stopsEarly inp = false)
    (hsync : ∀ p ∈ inp.probes, inSync p = true) :
    nChangeable (cycle swr sc inp).final = (cycle swr sc inp).final.length := by
  unfold nChangeable
  congr 1
  apply List.filter_eq_self.mpr
  intro s hs
  obtain ⟨i, hi⟩ := List.getElem?_of_mem hs
  have hlen := final_length' swr sc inp hne
  have hlt : i < inp.probes.length := by
    rcases Nat.lt_or_ge i inp.probes.length with h | h
    · exact h
    · rw [List.getElem?_eq_none (by omega)] at hi; cases hi
  obtain ⟨p, hp⟩ : ∃ p, inp.probes[i]? = some p := ⟨inp.probes[i], by simp [hlt]⟩
  rw [final_changeable swr sc inp hne hp hi]
  exact hsync p (List.mem_of_getElem? hp)

end Kvass.Coord

namespace Kvass.Coord
open Kvass Kvass.Spec

/-- an eligible, non-zero-size, discovered target that no shard is planned to scrape after a full,
    crash-free cycle forces the scale-up branch: the final plan is the one after the assignment
    stage, the request is `tryScaleUp` of it with a non-negative need, clamped -/
theorem up_branch_of_unplaced (swr : Swr) (sc : Sched) (inp : Input) (hne : stopsEarly inp = false)
    (hnn : ∀ k, 0 ≤ (globalOf (infos0 inp) inp.explore k).series ∧ 0 ≤ (globalOf (infos0 inp) inp.explore k).total)
    (hfull : ∀ k ∈ inp.active, k ∈ sc.assign)
    (h : Hash) (ha : h ∈ inp.active)
    (hskip : Gen.assignSkip (globalOf (infos0 inp) inp.explore h) = false)
    (hbig : Gen.tooBig inp.opt (globalOf (infos0 inp) inp.explore h) = false)
    (hsz : 0 < (globalOf (infos0 inp) inp.explore h).series + (globalOf (infos0 inp) inp.explore h).total)
    (hun : ∀ s ∈ (cycle swr sc inp).final, s.scraping.get h = none)
    (hnc : (cycle swr sc inp).crashed = false) :
    ∃ (c3 : CS) (need : Space), (cycle swr sc inp).final = c3.shards ∧ 0 ≤ need.proc ∧ 0 ≤ need.head ∧
      (cycle swr sc inp).scales = earlyScales inp ++ [clamp inp.opt (tryScaleUp inp.opt c3.shards need)] := by
  have heq := cycle_eq_finish swr sc inp hne
  generalize hc2 : (alleviate swr inp.opt sc (startCS inp)) = r2 at heq
  obtain ⟨c2, need1⟩ := r2
  have hn1 := alleviate_need_nonneg swr inp.opt sc (startCS inp)
  rw [hc2] at hn1
  simp only at heq hn1
  have hassign : assign inp.opt inp.active (globalOf (infos0 inp) inp.explore) sc c2 =
      assignLoop inp.opt (scrapingSetOf c2.shards) (globalOf (infos0 inp) inp.explore)
        (uniq (sc.assign.filter inp.active.contains)) c2 sc.picks {} := rfl
  generalize hc3 : assign inp.opt inp.active (globalOf (infos0 inp) inp.explore) sc c2 = r3 at heq hassign
  obtain ⟨c3, picks, need2⟩ := r3
  simp only at heq
  rw [heq] at hnc hun ⊢
  obtain ⟨hc3c, hgrow⟩ := finish_grows sc inp _ c3 picks _ hnc
  have hloop := assignLoop_need (o := inp.opt) (scr := scrapingSetOf c2.shards) hnn
    (uniq (sc.assign.filter inp.active.contains)) c2 sc.picks {} (uniq_nodup _) (keysIn_init c2 _)
  rw [← hassign] at hloop
  obtain ⟨hm1, hm2, hcase⟩ := hloop
  have hmem : h ∈ uniq (sc.assign.filter inp.active.contains) := by
    rw [mem_uniq, List.mem_filter]
    exact ⟨hfull h ha, by simpa using ha⟩
  have nokey3 : ¬ HasKey c3 h := by
    intro hk
    obtain ⟨j, s, hs, hg⟩ := hasKey_of_grows hgrow hk
    exact hg (hun s (List.mem_of_getElem? hs))
  have hscr : (scrapingSetOf c2.shards).contains h = false := by
    cases hc : (scrapingSetOf c2.shards).contains h with
    | false => rfl
    | true =>
      exfalso
      unfold scrapingSetOf at hc
      simp only [List.contains_eq_mem, List.mem_flatten, List.mem_map, decide_eq_true_eq] at hc
      obtain ⟨ks, ⟨s, hs, rfl⟩, hk⟩ := hc
      obtain ⟨j, hj⟩ := List.getElem?_of_mem hs
      obtain ⟨v, hv⟩ := AL.mem_keys_get _ _ hk
      have g23 : Grows c2.shards c3 := by
        have := assign_pres (grows_presA inp.opt (globalOf (infos0 inp) inp.explore) c2.shards) inp.active sc c2
          (by have := grows_refl c2.shards c2.log c2.crashed; cases c2; simpa using this)
        rw [hc3] at this; exact this
      exact nokey3 (hasKey_of_grows g23 ⟨j, s, hj, by rw [hv]; simp⟩)
  rcases hcase hc3c h hmem hscr hskip hbig with hk | ⟨hh, hp⟩
  · exact absurd hk nokey3
  · simp only at hh hp hm1 hm2
    have hgl := hnn h
    have hup : Gen.needUp (Gen.spaceIsZero (spaceAdd need1 need2)) = true := by
      rw [Sites.needUp_iff]
      cases hz : Gen.spaceIsZero (spaceAdd need1 need2) with
      | false => rfl
      | true =>
        rw [Sites.spaceIsZero_iff] at hz
        simp only [spaceAdd, Gen.spaceAddHead, Gen.spaceAddProc] at hz
        have e1 : (0 : Int) + (globalOf (infos0 inp) inp.explore h).series ≤ need2.head := hh
        have e2 : (0 : Int) + (globalOf (infos0 inp) inp.explore h).total ≤ need2.proc := hp
        omega
    obtain ⟨hfin, hscales⟩ := finish_up sc inp _ c3 picks _ hnc hup
    refine ⟨c3, spaceAdd need1 need2, hfin, ?_, ?_, hscales⟩
    · simp only [spaceAdd, Gen.spaceAddHead, Gen.spaceAddProc]
      have e2 : (0 : Int) ≤ need2.proc := hm2
      omega
    · simp only [spaceAdd, Gen.spaceAddHead, Gen.spaceAddProc]
      have e1 : (0 : Int) ≤ need2.head := hm1
      omega

end Kvass.Coord
