/-
  What `gcTargets` as a whole does to one target (`h`) in the three situations that are left behind
  by moves and faults: the loops over shards and over their keys are carried through, not only the
  single decision.
-/
import Kvass.Proofs.CoordGc

namespace Kvass.Coord
open Kvass

/-- the entry shard `i` holds for `h` -/
def entry (ss : List SI) (i : Nat) (h : Hash) : Option St := (ss[i]?).bind fun s => s.scraping.get h

/-! ### the decisions only look at the *other* shards -/

theorem any_zipIdx_set {p : SI × Nat → Bool} (l : List SI) (i : Nat) (x : SI)
    (hp : ∀ y, p (y, i) = false) : (l.set i x).zipIdx.any p = l.zipIdx.any p := by
  apply Bool.eq_iff_iff.mpr
  simp only [List.any_eq_true]
  constructor
  · rintro ⟨⟨y, j⟩, hm, hy⟩
    rw [List.mem_zipIdx_iff_getElem?] at hm
    by_cases hji : j = i
    · subst hji; rw [hp] at hy; cases hy
    · simp only at hm
      rw [getElem?_set_ne' (Ne.symm hji)] at hm
      exact ⟨(y, j), List.mem_zipIdx_iff_getElem?.mpr hm, hy⟩
  · rintro ⟨⟨y, j⟩, hm, hy⟩
    rw [List.mem_zipIdx_iff_getElem?] at hm
    by_cases hji : j = i
    · subst hji; rw [hp] at hy; cases hy
    · refine ⟨(y, j), List.mem_zipIdx_iff_getElem?.mpr ?_, hy⟩
      simp only
      rw [getElem?_set_ne' (Ne.symm hji)]; exact hm

theorem gcOtherTriggers_set (o : Opt) (ss : List SI) (i : Nat) (x s : SI) (tar : St) (h : Hash) :
    gcOtherTriggers o (ss.set i x) i s tar h = gcOtherTriggers o ss i s tar h := by
  unfold gcOtherTriggers
  apply any_zipIdx_set
  intro y; simp

theorem gcHeldElsewhere_set (ss : List SI) (i : Nat) (x : SI) (h : Hash) :
    gcHeldElsewhere (ss.set i x) i h = gcHeldElsewhere ss i h := by
  unfold gcHeldElsewhere
  apply any_zipIdx_set
  intro y; simp

theorem gcOtherTriggers_rt (o : Opt) (ss : List SI) (i : Nat) (s s' : SI) (tar : St) (h : Hash)
    (hrt : s'.rt = s.rt) : gcOtherTriggers o ss i s' tar h = gcOtherTriggers o ss i s tar h := by
  unfold gcOtherTriggers; rw [hrt]

theorem gcDecide_set (o : Opt) (active : List Hash) (ss : List SI) (i : Nat) (x s s' : SI) (tar : St) (h : Hash)
    (hrt : s'.rt = s.rt) :
    gcDecide o active (ss.set i x) i s' h tar = gcDecide o active ss i s h tar := by
  unfold gcDecide
  rw [gcOtherTriggers_set, gcOtherTriggers_rt o ss i s s' tar h hrt]

theorem gcReverts_set (active : List Hash) (ss : List SI) (i : Nat) (x : SI) (tar : St) (h : Hash) :
    gcReverts active (ss.set i x) i h tar = gcReverts active ss i h tar := by
  unfold gcReverts; rw [gcHeldElsewhere_set]

/-! ### one shard's pass over its keys -/

/-- what a pass leaves of entry `tar` for `h`, given the two decisions -/
def gcOutcome (d r : Bool) (tar : St) : Option St := if d then none else if r then some (revertSt tar) else some tar

/-- the pass of shard `i` over the keys `hs`, started from `ss.set i cur` where `cur` differs from the
    original shard `s` only in its scraping map -/
theorem gcShard_pass (o : Opt) (active : List Hash) (ss : List SI) (i : Nat) (s : SI) (hs0 : ss[i]? = some s) :
    ∀ (hs : List Hash) (cur : SI), hs.Nodup → cur.rt = s.rt → cur.changeable = s.changeable →
      ∃ fin : SI, gcShard o active i hs (ss.set i cur) = ss.set i fin ∧ fin.rt = s.rt ∧ fin.changeable = s.changeable ∧
        (∀ k, k ∉ hs → fin.scraping.get k = cur.scraping.get k) ∧
        (∀ k, k ∈ hs → fin.scraping.get k =
          match cur.scraping.get k with
          | none => none
          | some tar => gcOutcome (gcDecide o active ss i s k tar) (gcReverts active ss i k tar) tar) := by
  intro hs
  induction hs with
  | nil =>
    intro cur _ hrt hch
    exact ⟨cur, by simp [gcShard], hrt, hch, fun _ _ => rfl, fun _ hk => by cases hk⟩
  | cons h hs ih =>
    intro cur hnd hrt hch
    have hnd' := List.nodup_cons.mp hnd
    have hget : (ss.set i cur)[i]? = some cur := getElem?_set_self' hs0
    unfold gcShard
    rw [hget]
    simp only
    -- the state the recursion continues from, and what became of `h` in it
    have step : ∀ (nxt : SI), nxt.rt = s.rt → nxt.changeable = s.changeable →
        (∀ k, k ≠ h → nxt.scraping.get k = cur.scraping.get k) →
        (nxt.scraping.get h = match cur.scraping.get h with
          | none => none
          | some tar => gcOutcome (gcDecide o active ss i s h tar) (gcReverts active ss i h tar) tar) →
        ∃ fin : SI, gcShard o active i hs (ss.set i nxt) = ss.set i fin ∧ fin.rt = s.rt ∧ fin.changeable = s.changeable ∧
          (∀ k, k ∉ h :: hs → fin.scraping.get k = cur.scraping.get k) ∧
          (∀ k, k ∈ h :: hs → fin.scraping.get k =
            match cur.scraping.get k with
            | none => none
            | some tar => gcOutcome (gcDecide o active ss i s k tar) (gcReverts active ss i k tar) tar) := by
      intro nxt nrt nch nother nh
      obtain ⟨fin, e1, e2, e3, e4, e5⟩ := ih nxt hnd'.2 nrt nch
      refine ⟨fin, e1, e2, e3, ?_, ?_⟩
      · intro k hk
        simp only [List.mem_cons, not_or] at hk
        rw [e4 k hk.2, nother k hk.1]
      · intro k hk
        rcases List.mem_cons.mp hk with e | e
        · subst e
          rw [e4 k hnd'.1, nh]
        · have hne : k ≠ h := fun e2 => hnd'.1 (e2 ▸ e)
          rw [e5 k e, nother k hne]
    cases hg : cur.scraping.get h with
    | none =>
      simp only
      exact step cur hrt hch (fun _ _ => rfl) (by rw [hg])
    | some tar =>
      simp only
      have hd : gcDecide o active (ss.set i cur) i cur h tar = gcDecide o active ss i s h tar :=
        gcDecide_set o active ss i cur s cur tar h hrt
      have hr : gcReverts active (ss.set i cur) i h tar = gcReverts active ss i h tar :=
        gcReverts_set active ss i cur tar h
      rw [hd, hr]
      by_cases d : gcDecide o active ss i s h tar = true
      · simp only [d, if_true]
        rw [List.set_set]
        apply step { cur with scraping := cur.scraping.del h } hrt hch
        · intro k hk; simp only; exact AL.get_del_ne _ _ _ (Ne.symm hk)
        · simp [hg, gcOutcome, d]
      · have d' : gcDecide o active ss i s h tar = false := by simpa using d
        simp only [d', Bool.false_eq_true, if_false]
        by_cases r : gcReverts active ss i h tar = true
        · simp only [r, if_true]
          rw [List.set_set]
          apply step { cur with scraping := cur.scraping.set h (revertSt tar) } hrt hch
          · intro k hk; simp only; exact AL.get_set_ne _ _ _ _ (Ne.symm hk)
          · simp [hg, gcOutcome, d', r]
        · have r' : gcReverts active ss i h tar = false := by simpa using r
          simp only [r', Bool.false_eq_true, if_false]
          exact step cur hrt hch (fun _ _ => rfl) (by simp [hg, gcOutcome, d', r'])

end Kvass.Coord

namespace Kvass.Coord
open Kvass

/-! ### one shard's pass, from the state it is met in -/

theorem set_self_eq {α} (l : List α) (i : Nat) (x : α) (h : l[i]? = some x) : l.set i x = l := by
  apply List.ext_getElem?
  intro k
  by_cases hk : i = k
  · subst hk; rw [getElem?_set_self' h, h]
  · rw [getElem?_set_ne' hk]

/-- the pass of an in-sync shard `a` whose keys are distinct: only shard `a` changes, and every entry
    of it is kept, dropped or turned back according to the two decisions taken on the state before -/
theorem gcShard_own (o : Opt) (active : List Hash) (ss : List SI) (a : Nat) (s : SI) (hs : ss[a]? = some s)
    (hnd : s.scraping.keys.Nodup) :
    ∃ fin : SI, gcShard o active a s.scraping.keys ss = ss.set a fin ∧ fin.rt = s.rt ∧ fin.changeable = s.changeable ∧
      ∀ k, fin.scraping.get k =
        match s.scraping.get k with
        | none => none
        | some tar => gcOutcome (gcDecide o active ss a s k tar) (gcReverts active ss a k tar) tar := by
  obtain ⟨fin, e1, e2, e3, e4, e5⟩ := gcShard_pass o active ss a s hs s.scraping.keys s hnd rfl rfl
  rw [set_self_eq ss a s hs] at e1
  refine ⟨fin, e1, e2, e3, ?_⟩
  intro k
  by_cases hk : k ∈ s.scraping.keys
  · exact e5 k hk
  · rw [e4 k hk]
    cases hg : s.scraping.get k with
    | none => rfl
    | some v => exact absurd (AL.get_some_mem_keys _ _ _ hg) hk

theorem entry_set_ne (ss : List SI) (a k : Nat) (x : SI) (h : Hash) (hne : a ≠ k) :
    entry (ss.set a x) k h = entry ss k h := by
  unfold entry; rw [getElem?_set_ne' hne]

theorem entry_set_self (ss : List SI) (a : Nat) (x s : SI) (h : Hash) (hs : ss[a]? = some s) :
    entry (ss.set a x) a h = x.scraping.get h := by
  unfold entry; rw [getElem?_set_self' hs]; rfl

end Kvass.Coord

namespace Kvass.Coord
open Kvass

/-! ### the loop over the shards -/

/-- shards from `a` on are still as reported; length and flags are those of the report everywhere -/
structure Frame (ss0 ss : List SI) (a : Nat) : Prop where
  len : ss.length = ss0.length
  rest : ∀ k, a ≤ k → ss[k]? = ss0[k]?
  flags : ∀ (k : Nat) (s : SI), ss[k]? = some s → ∃ s0 : SI, ss0[k]? = some s0 ∧ s.changeable = s0.changeable ∧ s.rt = s0.rt

theorem frame_refl (ss0 : List SI) : Frame ss0 ss0 0 :=
  ⟨rfl, fun _ _ => rfl, fun _ s h => ⟨s, h, rfl, rfl⟩⟩

/-- the state after shard `a`'s turn -/
def turn (o : Opt) (active : List Hash) (ss : List SI) (a : Nat) : List SI :=
  match ss[a]? with
  | none => ss
  | some s => if s.changeable then gcShard o active a s.scraping.keys ss else ss

theorem gcFrom_cons (o : Opt) (active : List Hash) (a : Nat) (is : List Nat) (ss : List SI) :
    gcFrom o active (a :: is) ss = gcFrom o active is (turn o active ss a) := by
  unfold turn
  rw [gcFrom]
  cases hs : ss[a]? with
  | none => rfl
  | some s =>
    simp only
    by_cases hc : s.changeable = true
    · simp [hc]
    · simp [hc]

/-- what one turn does, for a report with distinct keys per shard -/
theorem turn_spec (o : Opt) (active : List Hash) (ss0 ss : List SI) (a : Nat)
    (hnd0 : ∀ (k : Nat) (s : SI), ss0[k]? = some s → s.scraping.keys.Nodup) (fr : Frame ss0 ss a) :
    Frame ss0 (turn o active ss a) (a + 1) ∧
    (∀ k h, k ≠ a → entry (turn o active ss a) k h = entry ss k h) ∧
    (∀ s, ss[a]? = some s → ∀ h, entry (turn o active ss a) a h =
      if s.changeable then
        match s.scraping.get h with
        | none => none
        | some tar => gcOutcome (gcDecide o active ss a s h tar) (gcReverts active ss a h tar) tar
      else s.scraping.get h) := by
  unfold turn
  cases hs : ss[a]? with
  | none =>
    simp only
    refine ⟨⟨fr.len, fun k hk => fr.rest k (by omega), fr.flags⟩, fun _ _ _ => trivial, fun s h => by cases h⟩
  | some s =>
    simp only
    by_cases hch : s.changeable = true
    · simp only [hch, if_true]
      have hs0 : ss0[a]? = some s := by rw [← fr.rest a (Nat.le_refl _)]; exact hs
      obtain ⟨fin, e1, e2, e3, e4⟩ := gcShard_own o active ss a s hs (hnd0 a s hs0)
      rw [e1]
      refine ⟨⟨by rw [List.length_set]; exact fr.len, ?_, ?_⟩, ?_, ?_⟩
      · intro k hk
        rw [getElem?_set_ne' (by omega)]
        exact fr.rest k (by omega)
      · intro k s' hs'
        by_cases hka : a = k
        · subst hka
          rw [getElem?_set_self' hs] at hs'
          cases hs'
          obtain ⟨s0, h0, c0, r0⟩ := fr.flags a s hs
          exact ⟨s0, h0, by rw [e3, c0], by rw [e2, r0]⟩
        · rw [getElem?_set_ne' hka] at hs'
          exact fr.flags k s' hs'
      · intro k h hk
        exact entry_set_ne ss a k fin h (Ne.symm hk)
      · intro s' hs' h
        cases hs'
        rw [entry_set_self ss a fin s h hs, e4 h]
        simp [hch]
    · have hch' : s.changeable = false := by simpa using hch
      simp only [hch', Bool.false_eq_true, if_false]
      refine ⟨⟨fr.len, fun k hk => fr.rest k (by omega), fr.flags⟩, fun _ _ _ => trivial, ?_⟩
      intro s' hs' h
      cases hs'
      unfold entry; rw [hs]; simp [hch']

/-- induction over the shards in order -/
theorem gcFrom_range_ind (o : Opt) (active : List Hash) (ss0 : List SI) (J : Nat → List SI → Prop)
    (hstep : ∀ a ss, a < ss0.length → Frame ss0 ss a → J a ss → J (a + 1) (turn o active ss a)) :
    ∀ (m a : Nat) (ss : List SI), a + m = ss0.length → Frame ss0 ss a → J a ss →
      (∀ (k : Nat) (s : SI), ss0[k]? = some s → s.scraping.keys.Nodup) →
      J ss0.length (gcFrom o active (List.range' a m) ss) := by
  intro m
  induction m with
  | zero =>
    intro a ss ha _ hj _
    have : a = ss0.length := by omega
    subst this
    simpa [gcFrom] using hj
  | succ m ih =>
    intro a ss ha fr hj hnd0
    rw [List.range'_succ, gcFrom_cons]
    apply ih (a + 1) _ (by omega) (turn_spec o active ss0 ss a hnd0 fr).1 (hstep a ss (by omega) fr hj) hnd0

theorem gc_ind (o : Opt) (active : List Hash) (ss0 : List SI) (J : Nat → List SI → Prop)
    (hnd0 : ∀ (k : Nat) (s : SI), ss0[k]? = some s → s.scraping.keys.Nodup)
    (h0 : J 0 ss0)
    (hstep : ∀ a ss, a < ss0.length → Frame ss0 ss a → J a ss → J (a + 1) (turn o active ss a)) :
    J ss0.length (gc o active ss0) := by
  unfold gc
  rw [List.range_eq_range']
  exact gcFrom_range_ind o active ss0 J hstep ss0.length 0 ss0 (by omega) (frame_refl ss0) h0 hnd0

end Kvass.Coord

namespace Kvass.Coord
open Kvass

/-! ### the decisions in terms of who holds what -/

theorem gcOtherTriggers_iff (o : Opt) (ss : List SI) (a : Nat) (s : SI) (tar : St) (h : Hash) :
    gcOtherTriggers o ss a s tar h = true ↔
      ∃ (k : Nat) (sk : SI) (st : St), k ≠ a ∧ ss[k]? = some sk ∧ sk.changeable = true ∧ sk.scraping.get h = some st ∧
        Gen.gcOtherOk st = true ∧ (Gen.gcRule2 tar st = true ∨ (Gen.gcSame tar st = true ∧ Gen.gcLess o s.rt sk.rt a k = true)) := by
  unfold gcOtherTriggers
  rw [List.any_eq_true]
  constructor
  · rintro ⟨⟨sk, k⟩, hm, hp⟩
    rw [List.mem_zipIdx_iff_getElem?] at hm
    simp only at hm hp
    cases hg : sk.scraping.get h with
    | none => simp [hg] at hp
    | some st =>
      simp only [hg, Bool.and_eq_true, bne_iff_ne, ne_eq, Bool.or_eq_true] at hp
      exact ⟨k, sk, st, hp.1.2, hm, hp.1.1, hg, hp.2.1, hp.2.2⟩
  · rintro ⟨k, sk, st, hka, hk, hch, hg, hok, hr⟩
    refine ⟨(sk, k), List.mem_zipIdx_iff_getElem?.mpr hk, ?_⟩
    simp only [hg, hch, Bool.true_and, Bool.and_eq_true, bne_iff_ne, ne_eq, Bool.or_eq_true]
    exact ⟨hka, hok, hr⟩

theorem gcHeldElsewhere_iff (ss : List SI) (a : Nat) (h : Hash) :
    gcHeldElsewhere ss a h = true ↔
      ∃ (k : Nat) (sk : SI) (st : St), k ≠ a ∧ ss[k]? = some sk ∧ sk.changeable = true ∧ sk.scraping.get h = some st := by
  unfold gcHeldElsewhere
  rw [List.any_eq_true]
  constructor
  · rintro ⟨⟨sk, k⟩, hm, hp⟩
    rw [List.mem_zipIdx_iff_getElem?] at hm
    simp only [Bool.and_eq_true, bne_iff_ne, ne_eq, Gen.gcHeld] at hm hp
    obtain ⟨st, hst⟩ := (AL.has_iff _ _).mp hp.2
    exact ⟨k, sk, st, hp.1.2, hm, hp.1.1, hst⟩
  · rintro ⟨k, sk, st, hka, hk, hch, hg⟩
    refine ⟨(sk, k), List.mem_zipIdx_iff_getElem?.mpr hk, ?_⟩
    simp only [Bool.and_eq_true, bne_iff_ne, ne_eq, Gen.gcHeld]
    exact ⟨⟨hch, hka⟩, (AL.has_iff _ _).mpr ⟨st, hg⟩⟩

theorem entry_some {ss : List SI} {k : Nat} {h : Hash} {v : St} (he : entry ss k h = some v) :
    ∃ sk, ss[k]? = some sk ∧ sk.scraping.get h = some v := by
  unfold entry at he
  cases hs : ss[k]? with
  | none => rw [hs] at he; cases he
  | some sk => rw [hs] at he; exact ⟨sk, rfl, he⟩

theorem entry_of {ss : List SI} {k : Nat} {sk : SI} {h : Hash} (hs : ss[k]? = some sk) :
    entry ss k h = sk.scraping.get h := by
  unfold entry; rw [hs]; rfl

end Kvass.Coord

namespace Kvass.Coord
open Kvass

/-- nobody else (in sync) holds `h`, in terms of the report's flags and the current entries -/
def OthersNone (ss0 ss : List SI) (excl : List Nat) (h : Hash) : Prop :=
  ∀ (k : Nat) (s0 : SI), ss0[k]? = some s0 → k ∉ excl → s0.changeable = true → entry ss k h = none

theorem no_other_holder {ss0 ss : List SI} {a : Nat} {excl : List Nat} {h : Hash} (fr : Frame ss0 ss a)
    (hn : OthersNone ss0 ss excl h) {k : Nat} {sk : SI} {st : St} (hk : ss[k]? = some sk) (hch : sk.changeable = true)
    (hg : sk.scraping.get h = some st) : k ∈ excl := by
  apply Classical.byContradiction
  intro hne
  obtain ⟨s0, h0, c0, _⟩ := fr.flags k sk hk
  have := hn k s0 h0 hne (by rw [← c0]; exact hch)
  rw [entry_of hk, hg] at this
  cases this

theorem young_false {v : St} (h3 : 3 ≤ v.times) : Gen.gcYoung v = false := by
  cases hh : Gen.gcYoung v with
  | false => rfl
  | true => rw [Sites.gcYoung_iff] at hh; omega

/-- **a lonely copy in transfer goes back to normal** — `gcTargets` as a whole -/
theorem gc_lonely_reverts (o : Opt) (active : List Hash) (ss0 : List SI) (i : Nat) (si : SI) (h : Hash) (vi : St)
    (hnd0 : ∀ (k : Nat) (s : SI), ss0[k]? = some s → s.scraping.keys.Nodup)
    (hact : h ∈ active) (hi : ss0[i]? = some si) (hci : si.changeable = true) (hgi : si.scraping.get h = some vi)
    (hst : vi.state = .inTransfer) (h3 : 3 ≤ vi.times)
    (halone : ∀ (k : Nat) (sk : SI), ss0[k]? = some sk → k ≠ i → sk.changeable = true → sk.scraping.get h = none) :
    entry (gc o active ss0) i h = some (revertSt vi) := by
  have hc : active.contains h = true := by simpa using hact
  have hlen : i < ss0.length := by
    rcases Nat.lt_or_ge i ss0.length with hl | hl
    · exact hl
    · rw [List.getElem?_eq_none hl] at hi; cases hi
  let J : Nat → List SI → Prop := fun a ss =>
    entry ss i h = (if i < a then some (revertSt vi) else some vi) ∧ OthersNone ss0 ss [i] h
  have hJ : J ss0.length (gc o active ss0) := by
    apply gc_ind o active ss0 J hnd0
    · refine ⟨by simp [entry_of hi, hgi], ?_⟩
      intro k s0 hk hne hch
      rw [entry_of hk]
      exact halone k s0 hk (by simpa using hne) hch
    · intro a ss ha fr ⟨je, jo⟩
      obtain ⟨_, tother, tself⟩ := turn_spec o active ss0 ss a hnd0 fr
      by_cases hai : a = i
      · subst hai
        have hs : ss[a]? = some si := by rw [fr.rest a (Nat.le_refl _)]; exact hi
        have he : si.scraping.get h = some vi := hgi
        refine ⟨?_, ?_⟩
        · rw [tself si hs h]
          simp only [hci, if_true, he, Nat.lt_succ_self]
          have hD : gcDecide o active ss a si h vi = false := by
            unfold gcDecide
            simp only [hc, young_false h3, Bool.not_true, Bool.false_eq_true, if_false]
            cases ht : gcOtherTriggers o ss a si vi h with
            | false => rfl
            | true =>
              obtain ⟨k, sk, st, hka, hk, hch, hg, _, _⟩ := (gcOtherTriggers_iff o ss a si vi h).mp ht
              have := no_other_holder fr jo hk hch hg
              simp at this; exact absurd this hka
          have hR : gcReverts active ss a h vi = true := by
            unfold gcReverts
            have hheld : gcHeldElsewhere ss a h = false := by
              cases ht : gcHeldElsewhere ss a h with
              | false => rfl
              | true =>
                obtain ⟨k, sk, st, hka, hk, hch, hg⟩ := (gcHeldElsewhere_iff ss a h).mp ht
                have := no_other_holder fr jo hk hch hg
                simp at this; exact absurd this hka
            simp [hact, young_false h3, hheld, Gen.gcRevert, hst]
          simp [gcOutcome, hD, hR]
        · intro k s0 hk hne hch
          have hka : k ≠ a := by simpa using hne
          rw [tother k h hka]
          exact jo k s0 hk hne hch
      · refine ⟨?_, ?_⟩
        · rw [tother i h (Ne.symm hai), je]
          have : (i < a + 1) = (i < a) := by
            apply propext; constructor <;> intro hh <;> omega
          simp only [this]
        · intro k s0 hk hne hch
          by_cases hka : k = a
          · subst hka
            have hs : ss[k]? = some s0 := by rw [fr.rest k (Nat.le_refl _)]; exact hk
            rw [tself s0 hs h]
            have hn := jo k s0 hk hne hch
            rw [entry_of hs] at hn
            simp [hch, hn]
          · rw [tother k h hka]
            exact jo k s0 hk hne hch
  have := hJ.1
  simp only [hlen, if_true] at this
  exact this

end Kvass.Coord

namespace Kvass.Coord
open Kvass

theorem lt_succ_of_ne {i a : Nat} (h : a ≠ i) : (i < a + 1) = (i < a) := by
  apply propext; constructor <;> intro hh <;> omega

/-- **a hand-over both sides have scraped often enough is completed** — `gcTargets` as a whole:
    the source's copy is gone, the destination's is untouched -/
theorem gc_handover_completes (o : Opt) (active : List Hash) (ss0 : List SI) (i j : Nat) (si sj : SI) (h : Hash) (vi vj : St)
    (hnd0 : ∀ (k : Nat) (s : SI), ss0[k]? = some s → s.scraping.keys.Nodup)
    (hact : h ∈ active) (hij : i ≠ j)
    (hi : ss0[i]? = some si) (hci : si.changeable = true) (hgi : si.scraping.get h = some vi)
    (hsti : vi.state = .inTransfer) (h3i : 3 ≤ vi.times)
    (hj : ss0[j]? = some sj) (hcj : sj.changeable = true) (hgj : sj.scraping.get h = some vj)
    (hstj : vj.state = .normal) (h3j : 3 ≤ vj.times)
    (hothers : ∀ (k : Nat) (sk : SI), ss0[k]? = some sk → k ≠ i → k ≠ j → sk.changeable = true → sk.scraping.get h = none) :
    entry (gc o active ss0) i h = none ∧ entry (gc o active ss0) j h = some vj := by
  have hc : active.contains h = true := by simpa using hact
  have hlen : i < ss0.length := by
    rcases Nat.lt_or_ge i ss0.length with hl | hl
    · exact hl
    · rw [List.getElem?_eq_none hl] at hi; cases hi
  let J : Nat → List SI → Prop := fun a ss =>
    entry ss j h = some vj ∧ entry ss i h = (if i < a then none else some vi) ∧ OthersNone ss0 ss [i, j] h
  have hJ : J ss0.length (gc o active ss0) := by
    apply gc_ind o active ss0 J hnd0
    · refine ⟨by rw [entry_of hj, hgj], by simp [entry_of hi, hgi], ?_⟩
      intro k s0 hk hne hch
      rw [entry_of hk]
      simp only [List.mem_cons, List.not_mem_nil, or_false, not_or] at hne
      exact hothers k s0 hk hne.1 hne.2 hch
    · intro a ss ha fr ⟨jj, ji, jo⟩
      obtain ⟨_, tother, tself⟩ := turn_spec o active ss0 ss a hnd0 fr
      have others_step : OthersNone ss0 (turn o active ss a) [i, j] h := by
        intro k s0 hk hne hch
        by_cases hka : k = a
        · subst hka
          have hs : ss[k]? = some s0 := by rw [fr.rest k (Nat.le_refl _)]; exact hk
          rw [tself s0 hs h]
          have hn := jo k s0 hk hne hch
          rw [entry_of hs] at hn
          simp [hch, hn]
        · rw [tother k h hka]
          exact jo k s0 hk hne hch
      by_cases hai : a = i
      · subst hai
        have hs : ss[a]? = some si := by rw [fr.rest a (Nat.le_refl _)]; exact hi
        refine ⟨by rw [tother j h (Ne.symm hij)]; exact jj, ?_, others_step⟩
        rw [tself si hs h]
        simp only [hci, if_true, hgi, Nat.lt_succ_self]
        have hD : gcDecide o active ss a si h vi = true := by
          unfold gcDecide
          simp only [hc, young_false h3i, Bool.not_true, Bool.false_eq_true, if_false]
          obtain ⟨sj', hsj', hgj'⟩ := entry_some jj
          obtain ⟨s0, h0, c0, _⟩ := fr.flags j sj' hsj'
          rw [hj] at h0; cases h0
          apply (gcOtherTriggers_iff o ss a si vi h).mpr
          exact ⟨j, sj', vj, Ne.symm hij, hsj', by rw [c0]; exact hcj, hgj', (Sites.gcOtherOk_iff vj).mpr h3j,
            Or.inl ((Sites.gcRule2_iff vi vj).mpr ⟨hsti, hstj⟩)⟩
        simp [gcOutcome, hD]
      · by_cases haj : a = j
        · subst haj
          have hs : ss[a]? = some sj := by rw [fr.rest a (Nat.le_refl _)]; exact hj
          refine ⟨?_, by rw [tother i h hij, ji]; simp only [lt_succ_of_ne hai], others_step⟩
          rw [tself sj hs h]
          simp only [hcj, if_true, hgj]
          have hD : gcDecide o active ss a sj h vj = false := by
            unfold gcDecide
            simp only [hc, young_false h3j, Bool.not_true, Bool.false_eq_true, if_false]
            cases ht : gcOtherTriggers o ss a sj vj h with
            | false => rfl
            | true =>
              exfalso
              obtain ⟨k, sk, st, hka, hk, hch, hg, _, hr⟩ := (gcOtherTriggers_iff o ss a sj vj h).mp ht
              have hm := no_other_holder fr jo hk hch hg
              simp only [List.mem_cons, List.not_mem_nil, or_false] at hm
              rcases hm with e | e
              · subst e
                rw [entry_of hk, hg] at ji
                split at ji
                · cases ji
                · cases ji
                  rcases hr with hr | ⟨hr, _⟩
                  · rw [Sites.gcRule2_iff] at hr; rw [hstj] at hr; cases hr.1
                  · rw [Sites.gcSame_iff, hstj, hsti] at hr; cases hr
              · exact hka e
          have hR : gcReverts active ss a h vj = false := by
            unfold gcReverts Gen.gcRevert; simp [hstj]
          simp [gcOutcome, hD, hR]
        · refine ⟨by rw [tother j h (Ne.symm haj)]; exact jj, by rw [tother i h (Ne.symm hai), ji]; simp only [lt_succ_of_ne hai], others_step⟩
  obtain ⟨r1, r2, _⟩ := hJ
  simp only [hlen, if_true] at r2
  exact ⟨r2, r1⟩

/-- **a target held twice in normal state is dropped on exactly one side** — `gcTargets` as a whole
    (`i < j`): the copy of `i` goes iff `j` is the lighter shard in the configured dimension, else
    the copy of `j`; the remaining one is untouched -/
theorem gc_duplicate_resolved (o : Opt) (active : List Hash) (ss0 : List SI) (i j : Nat) (si sj : SI) (h : Hash) (vi vj : St)
    (hnd0 : ∀ (k : Nat) (s : SI), ss0[k]? = some s → s.scraping.keys.Nodup)
    (hact : h ∈ active) (hij : i < j)
    (hi : ss0[i]? = some si) (hci : si.changeable = true) (hgi : si.scraping.get h = some vi)
    (hsti : vi.state = .normal) (h3i : 3 ≤ vi.times)
    (hj : ss0[j]? = some sj) (hcj : sj.changeable = true) (hgj : sj.scraping.get h = some vj)
    (hstj : vj.state = .normal) (h3j : 3 ≤ vj.times)
    (hothers : ∀ (k : Nat) (sk : SI), ss0[k]? = some sk → k ≠ i → k ≠ j → sk.changeable = true → sk.scraping.get h = none) :
    (Gen.gcLess o si.rt sj.rt i j = true → entry (gc o active ss0) i h = none ∧ entry (gc o active ss0) j h = some vj) ∧
    (Gen.gcLess o si.rt sj.rt i j = false → entry (gc o active ss0) i h = some vi ∧ entry (gc o active ss0) j h = none) := by
  have hc : active.contains h = true := by simpa using hact
  have hne : i ≠ j := by omega
  have hleni : i < ss0.length := by
    rcases Nat.lt_or_ge i ss0.length with hl | hl
    · exact hl
    · rw [List.getElem?_eq_none hl] at hi; cases hi
  have hlenj : j < ss0.length := by
    rcases Nat.lt_or_ge j ss0.length with hl | hl
    · exact hl
    · rw [List.getElem?_eq_none hl] at hj; cases hj
  generalize hL : Gen.gcLess o si.rt sj.rt i j = L
  let J : Nat → List SI → Prop := fun a ss =>
    entry ss i h = (if i < a ∧ L = true then none else some vi) ∧
    entry ss j h = (if j < a ∧ L = false then none else some vj) ∧ OthersNone ss0 ss [i, j] h
  have hJ : J ss0.length (gc o active ss0) := by
    apply gc_ind o active ss0 J hnd0
    · refine ⟨by simp [entry_of hi, hgi], by simp [entry_of hj, hgj], ?_⟩
      intro k s0 hk hn hch
      rw [entry_of hk]
      simp only [List.mem_cons, List.not_mem_nil, or_false, not_or] at hn
      exact hothers k s0 hk hn.1 hn.2 hch
    · intro a ss ha fr ⟨ji, jj, jo⟩
      obtain ⟨_, tother, tself⟩ := turn_spec o active ss0 ss a hnd0 fr
      have others_step : OthersNone ss0 (turn o active ss a) [i, j] h := by
        intro k s0 hk hn hch
        by_cases hka : k = a
        · subst hka
          have hs : ss[k]? = some s0 := by rw [fr.rest k (Nat.le_refl _)]; exact hk
          rw [tself s0 hs h]
          have hnn := jo k s0 hk hn hch
          rw [entry_of hs] at hnn
          simp [hch, hnn]
        · rw [tother k h hka]
          exact jo k s0 hk hn hch
      have hRfalse : ∀ (v : St), v.state = .normal → gcReverts active ss a h v = false := by
        intro v hv; unfold gcReverts Gen.gcRevert; simp [hv]
      by_cases hai : a = i
      · subst hai
        have hs : ss[a]? = some si := by rw [fr.rest a (Nat.le_refl _)]; exact hi
        have hjj : entry ss j h = some vj := by
          rw [jj]; simp; intro hlt; omega
        refine ⟨?_, ?_, others_step⟩
        · rw [tself si hs h]
          simp only [hci, if_true, hgi, Nat.lt_succ_self, true_and]
          have hD : gcDecide o active ss a si h vi = L := by
            unfold gcDecide
            simp only [hc, young_false h3i, Bool.not_true, Bool.false_eq_true, if_false]
            obtain ⟨sj', hsj', hgj'⟩ := entry_some hjj
            obtain ⟨s0, h0, c0, r0⟩ := fr.flags j sj' hsj'
            rw [hj] at h0; cases h0
            cases hLv : L with
            | true =>
              apply (gcOtherTriggers_iff o ss a si vi h).mpr
              refine ⟨j, sj', vj, Ne.symm hne, hsj', by rw [c0]; exact hcj, hgj', (Sites.gcOtherOk_iff vj).mpr h3j, Or.inr ⟨?_, ?_⟩⟩
              · rw [Sites.gcSame_iff, hsti, hstj]
              · rw [r0, hL, hLv]
            | false =>
              cases ht : gcOtherTriggers o ss a si vi h with
              | false => rfl
              | true =>
                exfalso
                obtain ⟨k, sk, st, hka, hk, hch, hg, _, hr⟩ := (gcOtherTriggers_iff o ss a si vi h).mp ht
                have hm := no_other_holder fr jo hk hch hg
                simp only [List.mem_cons, List.not_mem_nil, or_false] at hm
                rcases hm with e | e
                · exact hka e
                · subst e
                  rw [hsj'] at hk; cases hk
                  rcases hr with hr | ⟨_, hr⟩
                  · rw [Sites.gcRule2_iff, hsti] at hr; cases hr.1
                  · rw [r0, hL, hLv] at hr; cases hr
          cases hLv : L with
          | true => simp [gcOutcome, hD, hLv]
          | false => simp [gcOutcome, hD, hLv, hRfalse vi hsti]
        · rw [tother j h (Ne.symm hne), jj]
          have e1 : (j < a + 1) = (j < a) := lt_succ_of_ne hne
          simp only [e1]
      · by_cases haj : a = j
        · subst haj
          have hs : ss[a]? = some sj := by rw [fr.rest a (Nat.le_refl _)]; exact hj
          refine ⟨?_, ?_, others_step⟩
          · rw [tother i h hne, ji]; simp only [lt_succ_of_ne hai]
          · rw [tself sj hs h]
            simp only [hcj, if_true, hgj, Nat.lt_succ_self, true_and]
            have hii : entry ss i h = (if L = true then none else some vi) := by
              rw [ji]; simp [hij]
            have hD : gcDecide o active ss a sj h vj = !L := by
              unfold gcDecide
              simp only [hc, young_false h3j, Bool.not_true, Bool.false_eq_true, if_false]
              cases hLv : L with
              | true =>
                simp only [Bool.not_true]
                cases ht : gcOtherTriggers o ss a sj vj h with
                | false => rfl
                | true =>
                  exfalso
                  obtain ⟨k, sk, st, hka, hk, hch, hg, _, _⟩ := (gcOtherTriggers_iff o ss a sj vj h).mp ht
                  have hm := no_other_holder fr jo hk hch hg
                  simp only [List.mem_cons, List.not_mem_nil, or_false] at hm
                  rcases hm with e | e
                  · subst e
                    rw [entry_of hk, hg, hLv] at hii
                    simp at hii
                  · exact hka e
              | false =>
                simp only [Bool.not_false]
                rw [hLv] at hii
                simp only [Bool.false_eq_true, if_false] at hii
                obtain ⟨si', hsi', hgi'⟩ := entry_some hii
                obtain ⟨s0, h0, c0, r0⟩ := fr.flags i si' hsi'
                rw [hi] at h0; cases h0
                apply (gcOtherTriggers_iff o ss a sj vj h).mpr
                refine ⟨i, si', vi, hne, hsi', by rw [c0]; exact hci, hgi', (Sites.gcOtherOk_iff vi).mpr h3i, Or.inr ⟨?_, ?_⟩⟩
                · rw [Sites.gcSame_iff, hsti, hstj]
                · rw [r0]
                  rcases Sites.gcLess_total o si.rt sj.rt i a hne with ⟨h1, _⟩ | ⟨_, h2⟩
                  · rw [hL, hLv] at h1; cases h1
                  · exact h2
            cases hLv : L with
            | true => simp [gcOutcome, hD, hLv, hRfalse vj hstj]
            | false => simp [gcOutcome, hD, hLv]
        · refine ⟨by rw [tother i h (Ne.symm hai), ji]; simp only [lt_succ_of_ne hai],
            by rw [tother j h (Ne.symm haj), jj]; simp only [lt_succ_of_ne haj], others_step⟩
  obtain ⟨r1, r2, _⟩ := hJ
  simp only [hleni, hlenj, true_and] at r1 r2
  constructor
  · intro hl; subst hl; simpa using ⟨r1, r2⟩
  · intro hl; subst hl; simpa using ⟨r1, r2⟩

end Kvass.Coord
