/-
  From "after the requests of a cycle" to the whole closed-loop step: the StatefulSet is resized to
  what the cycle asked for, and a shard that the plan still needs is below every requested count
  (C07), hence untouched by the resize.
-/
import Kvass.Proofs.LoopRepair
import Kvass.Props.C07

namespace Kvass.Loop
open Kvass Kvass.Coord Kvass.Spec

theorem resize_keep (w : World) (n i : Nat) (sh : Shard) (hin : i < n) (hir : i < w.replicas)
    (hsh : w.shards[i]? = some sh) :
    (resize w n).shards[i]? = some sh ∧ (resize w n).replicas = n := by
  unfold resize
  refine ⟨?_, rfl⟩
  simp only
  rw [List.getElem?_append_left (by simp [hin])]
  rw [List.getElem?_map]
  have : (List.range n)[i]? = some i := by simp [hin]
  rw [this]
  simp only [Option.map_some]
  unfold startedShard
  rw [hsh]
  simp [hir]

theorem resizes_keep (i : Nat) (sh : Shard) :
    ∀ (ks : List Int) (w : World), (∀ k ∈ ks, (i : Int) < k) → i < w.replicas → w.shards[i]? = some sh →
      (ks.foldl (fun w k => resize w k.toNat) w).shards[i]? = some sh := by
  intro ks
  induction ks with
  | nil => intro w _ _ h; simpa using h
  | cons k ks ih =>
    intro w hk hir hsh
    simp only [List.foldl_cons]
    have hk0 := hk k List.mem_cons_self
    have hin : i < k.toNat := by omega
    obtain ⟨h1, h2⟩ := resize_keep w k.toNat i sh hin hir hsh
    exact ih (resize w k.toNat) (fun k' hk' => hk k' (List.mem_cons_of_mem _ hk')) (by rw [h2]; exact hin) h1

/-- the last needed position is at least every needed position -/
theorem lastNeeded_ge (inp : Input) (ob : Obs) {i : Nat} {p : Probe} {r : List Req}
    (hm : (i, p, r) ∈ shardsOf inp ob) (hn : C07.needed inp p r = true) : i + 1 ≤ C07.lastNeeded inp ob := by
  unfold C07.lastNeeded
  -- positions in `shardsOf` are the list positions
  have hpos : ∀ (k : Nat) (x : Nat × Probe × List Req), (shardsOf inp ob)[k]? = some x → x.1 = k := by
    intro k x hx
    unfold shardsOf at hx
    rw [List.getElem?_map] at hx
    cases hz : ((inp.probes.zip ob.reqs).zipIdx)[k]? with
    | none => rw [hz] at hx; cases hx
    | some y =>
      rw [hz] at hx
      simp only [Option.map_some, Option.some.injEq] at hx
      rw [List.getElem?_zipIdx] at hz
      cases hq : (inp.probes.zip ob.reqs)[k]? with
      | none => rw [hq] at hz; cases hz
      | some q =>
        rw [hq] at hz
        simp only [Option.map_some, Option.some.injEq] at hz
        subst hz; subst hx; simp
  generalize shardsOf inp ob = l at hm hpos
  -- generalise: folding from any accumulator over a list whose k-th element has position off + k
  have key : ∀ (l : List (Nat × Probe × List Req)) (off acc : Nat),
      (∀ (k : Nat) (x : Nat × Probe × List Req), l[k]? = some x → x.1 = off + k) →
      (i, p, r) ∈ l → i + 1 ≤
        l.foldl (fun acc (x : Nat × Probe × List Req) => if C07.needed inp x.2.1 x.2.2 then x.1 + 1 else acc) acc := by
    intro l
    induction l with
    | nil => intro _ _ _ hmem; cases hmem
    | cons x xs ih =>
      intro off acc hp hmem
      simp only [List.foldl_cons]
      rcases List.mem_cons.mp hmem with he | hmem'
      · subst he
        simp only [hn, if_true]
        -- afterwards the accumulator never drops below i + 1
        have mono : ∀ (ys : List (Nat × Probe × List Req)) (off' a : Nat), i + 1 ≤ a →
            (∀ (k : Nat) (y : Nat × Probe × List Req), ys[k]? = some y → y.1 = off' + k) → i ≤ off' →
            i + 1 ≤ ys.foldl (fun acc (x : Nat × Probe × List Req) => if C07.needed inp x.2.1 x.2.2 then x.1 + 1 else acc) a := by
          intro ys
          induction ys with
          | nil => intro _ a ha _ _; simpa using ha
          | cons y ys ih2 =>
            intro off' a ha hp' hoff
            simp only [List.foldl_cons]
            have hy := hp' 0 y (by simp)
            apply ih2 (off' + 1)
            · split
              · omega
              · exact ha
            · intro k z hz
              have := hp' (k + 1) z (by simpa using hz)
              omega
            · omega
        have hx0 := hp 0 (i, p, r) (by simp)
        simp only at hx0
        apply mono xs (off + 1) (i + 1) (Nat.le_refl _)
        · intro k y hy
          have := hp (k + 1) y (by simpa using hy)
          omega
        · omega
      · apply ih (off + 1) _ _ hmem'
        intro k y hy
        have := hp (k + 1) y (by simpa using hy)
        omega
  exact key l 0 0 (fun k x hx => by rw [hpos k x hx]; omega) hm

end Kvass.Loop

namespace Kvass.Loop
open Kvass Kvass.Coord Kvass.Spec

/-- a shard whose final plan holds a discovered target is needed -/
theorem needed_of_plan (swr : Swr) (sc : Sched) (inp : Input) (hne : stopsEarly inp = false)
    {d : Nat} {p : Probe} {r : List Req} {sd : SI} {h : Hash} {v : St}
    (hp : inp.probes[d]? = some p) (hr : r = (getInfo p).2 ++ applyReqs inp.active p sd)
    (hs : (cycle swr sc inp).final[d]? = some sd) (hv : sd.scraping.get h = some v) (ha : h ∈ inp.active) :
    C07.needed inp p r = true := by
  unfold C07.needed
  cases hsync : inSync p with
  | false => simp
  | true =>
    have hch : sd.changeable = true := by rw [final_changeable swr sc inp hne hp hs]; exact hsync
    have hb : (h, v.state, v.series) ∈ body inp.active sd := by
      unfold body planned
      simp only [List.mem_map, List.mem_filter]
      exact ⟨(h, v), ⟨get_some_mem _ _ _ hv, by simpa using ha⟩, rfl⟩
    rw [hr, postedBody_apply]
    cases hnu : needUpdate (p.status.getD []) (body inp.active sd) with
    | true =>
      simp only [hch, Bool.true_and, if_true]
      have : (body inp.active sd).isEmpty = false := by
        cases hbb : body inp.active sd with
        | nil => rw [hbb] at hb; cases hb
        | cons _ _ => rfl
      simp [this]
    | false =>
      obtain ⟨r', hr', _⟩ := needUpdate_false_entry hnu _ hb
      have hrep : reported p = p.status.getD [] := by
        unfold reported
        have : p.ready = true := by
          unfold inSync at hsync
          simp only [Bool.and_eq_true] at hsync
          exact hsync.1.1
        simp [this]
      have : (reported p).isEmpty = false := by
        rw [hrep]
        cases hst : p.status.getD [] with
        | nil => rw [hst] at hr'; simp [AL.get] at hr'
        | cons _ _ => rfl
      simp [this]

/-- a shard below every requested count is what the delivered requests left of it, after the whole step -/
theorem cycleStep_shard (swr : Swr) (env : Env) (w : World) (sc : Sched) (d : Nat) (shd : Shard)
    (hrep : w.replicas ≤ w.shards.length)
    (hd : d < w.replicas)
    (hk : ∀ k ∈ (cycle swr sc (inputOf env w [] false)).scales, (d : Int) < k)
    (hsh : (applyOutcome w [] (cycle swr sc (inputOf env w [] false))).shards[d]? = some shd) :
    (cycleStep swr env w sc [] false).1.shards[d]? = some shd := by
  unfold cycleStep
  simp only [Bool.false_eq_true, if_false]
  apply resizes_keep d shd _ _ hk _ hsh
  unfold applyOutcome; simpa using hd

end Kvass.Loop

namespace Kvass.Loop
open Kvass Kvass.Coord Kvass.Spec

/-- in a full, crash-free cycle every in-sync shard receives its reads and then its plan -/
theorem full_reqs (swr : Swr) (sc : Sched) (inp : Input) (hne : stopsEarly inp = false)
    (hnc : (cycle swr sc inp).crashed = false) {i : Nat} {p : Probe} (hp : inp.probes[i]? = some p)
    (hsync : inSync p = true) :
    ∃ fin, (cycle swr sc inp).final[i]? = some fin ∧
      (cycle swr sc inp).reqs[i]? = some ((getInfo p).2 ++ applyReqs inp.active p fin) := by
  rcases reqs_cases swr sc inp hp with h1 | ⟨_, fin, hfin, h2⟩
  · exfalso
    rcases cycle_reqs swr sc inp _ rfl with ⟨_, _, hrq⟩ | ⟨hbad, _⟩
    · have grow := cycle_grows swr sc inp hne
      have inv := gc_inv inp.opt inp.active (infos0 inp)
      have h0 : (infos0 inp)[i]? = some (getInfo p).1 := by rw [infos0_get, hp]; rfl
      have hlen : (cycle swr sc inp).final.length = (infos0 inp).length := by
        have := grow.1; unfold Outcome.cs at this; simp only at this; rw [this, inv.len]
      obtain ⟨fin, hfin⟩ := getElem?_of_length_eq hlen h0
      have hch := final_changeable swr sc inp hne hp hfin
      rw [hsync] at hch
      have hz : (inp.probes.zip (cycle swr sc inp).final)[i]? = some (p, fin) := List.getElem?_zip_eq_some.mpr ⟨hp, hfin⟩
      have hap : ((inp.probes.zip (cycle swr sc inp).final).map fun x => applyReqs inp.active x.1 x.2)[i]?
          = some (applyReqs inp.active p fin) := by rw [List.getElem?_map, hz]; rfl
      have hg1 : (getReqsOf inp)[i]? = some (getInfo p).2 := by rw [getReqsOf_get, hp]; rfl
      rw [hrq, zipmap_get _ _ _ i _ _ hg1 hap] at h1
      have hlen2 := congrArg List.length (Option.some.inj h1)
      simp only [List.length_append] at hlen2
      have : (applyReqs inp.active p fin).length = 0 := by omega
      unfold applyReqs at this
      simp only [hch, Bool.not_true, Bool.false_eq_true, if_false] at this
      split at this
      · split at this <;> simp at this
      · simp at this
    · rcases hbad with hb | hb
      · rw [hnc] at hb; cases hb
      · rw [hne] at hb; cases hb
  · exact ⟨fin, hfin, h2⟩

/-- **a shard the plan still uses survives the resize**: in a fault-free cycle of the closed loop,
    every requested shard count exceeds the position of every shard whose final plan holds a
    discovered target (sidecars report no target while idle; the current count is within max-shard) -/
theorem plan_holder_below_scales (swr : Swr) (env : Env) (w : World) (sc : Sched)
    (hrep : w.replicas ≤ w.shards.length)
    (hne : stopsEarly (inputOf env w [] false) = false)
    (hnc : (cycle swr sc (inputOf env w [] false)).crashed = false)
    (hidle : ∀ sh ∈ w.running, Sidecar.IdleInv sh.sc) (hmax : (w.replicas : Int) ≤ env.opt.maxShard)
    {d : Nat} {sd : SI} {h : Hash} {v : St}
    (hs : (cycle swr sc (inputOf env w [] false)).final[d]? = some sd) (hv : sd.scraping.get h = some v) (ha : h ∈ w.active) :
    ∀ k ∈ (cycle swr sc (inputOf env w [] false)).scales, (d : Int) < k := by
  intro k hk
  have hrl := running_length w hrep
  have hpl := inputOf_probes_length env w [] false
  have hdl : d < w.running.length := by
    have h1 := (List.getElem?_eq_some_iff.mp hs).1
    have h2 := final_length' swr sc (inputOf env w [] false) hne
    rw [h2, hpl] at h1; exact h1
  have hrd : w.running[d]? = some w.running[d] := by simp [hdl]
  have hp := inputOf_probe env w d _ hrd
  obtain ⟨fin, hfin, hreq⟩ := full_reqs swr sc (inputOf env w [] false) hne hnc hp (probeOf_inSync env _)
  rw [hs] at hfin; cases hfin
  have hneeded := needed_of_plan swr sc (inputOf env w [] false) hne hp rfl hs hv ha
  have hmem : (d, probeOf env w.running[d] {}, (getInfo (probeOf env w.running[d] {})).2 ++
      applyReqs (inputOf env w [] false).active (probeOf env w.running[d] {}) sd) ∈
      shardsOf (inputOf env w [] false) (Obs.ofOutcome (cycle swr sc (inputOf env w [] false))) :=
    mem_shardsOf.mpr ⟨hp, hreq⟩
  have hge := lastNeeded_ge _ _ hmem hneeded
  have hprod : ∀ p ∈ (inputOf env w [] false).probes, (effRt p).idle = .expired → reported p = [] := by
    intro p hpm hexp
    obtain ⟨x, hx⟩ := List.getElem?_of_mem hpm
    have hxl : x < w.running.length := by
      have := (List.getElem?_eq_some_iff.mp hx).1
      rw [hpl] at this; exact this
    have hrx : w.running[x]? = some w.running[x] := by simp [hxl]
    have := inputOf_probe env w x _ hrx
    rw [hx] at this
    cases this
    rw [reported_probeOf]
    have hi := hidle _ (List.mem_of_getElem? hrx)
    -- an expired idle time means the sidecar has an idle-since time, hence no target
    have hidleAt : (w.running[x]).sc.idleAt ≠ none := by
      intro hnone
      unfold effRt probeOf at hexp
      simp only [Bool.not_false] at hexp
      unfold rtOf Sidecar.runtime idleOf at hexp
      simp only [hnone] at hexp
      cases hexp
    have hst : (w.running[x]).sc.status = [] := by
      cases hstat : (w.running[x]).sc.status with
      | nil => rfl
      | cons a as =>
        exfalso
        exact hidleAt (hi (by rw [hstat]; simp))
    unfold statusOf; rw [hst]; rfl
  have hn : (((inputOf env w [] false).probes.length : Nat) : Int) ≤ (inputOf env w [] false).opt.maxShard := by
    rw [hpl, hrl]; exact hmax
  have := Props.C07.C07_keepsNeeded swr sc (inputOf env w [] false) hprod hn k hk
  omega

end Kvass.Loop

namespace Kvass.Loop
open Kvass Kvass.Coord Kvass.Spec

/-- **the whole step**: a running shard whose final plan holds a discovered target is, after the
    closed-loop step (requests delivered, StatefulSet resized), still there and reports the plan -/
theorem cycleStep_report (swr : Swr) (env : Env) (w : World) (sc : Sched)
    (hrep : w.replicas ≤ w.shards.length)
    (hne : stopsEarly (inputOf env w [] false) = false)
    (hnc : (cycle swr sc (inputOf env w [] false)).crashed = false)
    (hnd : ∀ sh ∈ w.running, (statusOf sh).keys.Nodup)
    (hidle : ∀ sh ∈ w.running, Sidecar.IdleInv sh.sc) (hmax : (w.replicas : Int) ≤ env.opt.maxShard)
    {x : Nat} {fin : SI} {h : Hash} {v : St}
    (hfin : (cycle swr sc (inputOf env w [] false)).final[x]? = some fin)
    (hv : fin.scraping.get h = some v) (ha : h ∈ w.active) :
    ∃ sh', (cycleStep swr env w sc [] false).1.shards[x]? = some sh' ∧
      (∀ k, k ∈ (statusOf sh').keys ↔ k ∈ (planned w.active fin).keys) ∧
      (∀ k u, (planned w.active fin).get k = some u → ∃ r, (statusOf sh').get k = some r ∧ r.state = u.state) := by
  have hrl := running_length w hrep
  have hxl : x < w.running.length := by
    have h1 := (List.getElem?_eq_some_iff.mp hfin).1
    have h2 := final_length' swr sc (inputOf env w [] false) hne
    rw [h2, inputOf_probes_length] at h1; exact h1
  have hrx : w.running[x]? = some w.running[x] := by simp [hxl]
  obtain ⟨fin', sh', hfin', hsh', hkeys, hst⟩ := applyOutcome_report swr env w sc hrep hne hnc hnd x _ hrx
  rw [hfin] at hfin'; cases hfin'
  have hbelow := plan_holder_below_scales swr env w sc hrep hne hnc hidle hmax hfin hv ha
  exact ⟨sh', cycleStep_shard swr env w sc x sh' hrep (by rw [← hrl]; exact hxl) hbelow hsh', hkeys, hst⟩

theorem resizes_replicas (d : Nat) :
    ∀ (ks : List Int) (w : World), (∀ k ∈ ks, (d : Int) < k) → d < w.replicas →
      d < (ks.foldl (fun w k => resize w k.toNat) w).replicas := by
  intro ks
  induction ks with
  | nil => intro w _ h; simpa using h
  | cons k ks ih =>
    intro w hk hd
    simp only [List.foldl_cons]
    have hk0 := hk k List.mem_cons_self
    apply ih _ (fun k' hk' => hk k' (List.mem_cons_of_mem _ hk'))
    unfold resize; simp only; omega

/-- such a shard is among the running ones after the step -/
theorem cycleStep_running (swr : Swr) (env : Env) (w : World) (sc : Sched) (d : Nat)
    (hd : d < w.replicas)
    (hk : ∀ k ∈ (cycle swr sc (inputOf env w [] false)).scales, (d : Int) < k) :
    d < (cycleStep swr env w sc [] false).1.replicas := by
  unfold cycleStep
  simp only [Bool.false_eq_true, if_false]
  apply resizes_replicas d _ _ hk
  unfold applyOutcome; simpa using hd

/-- **closed-loop step: a lonely copy in transfer is repaired.**  Statement of
    `loop_lonely_repaired` for the whole step, resize included. -/
theorem step_lonely_repaired (swr : Swr) (env : Env) (w : World) (sc : Sched)
    (hrep : w.replicas ≤ w.shards.length)
    (hne : stopsEarly (inputOf env w [] false) = false)
    (hnc : (cycle swr sc (inputOf env w [] false)).crashed = false)
    (hnd : ∀ sh ∈ w.running, (statusOf sh).keys.Nodup)
    (hidle : ∀ sh ∈ w.running, Sidecar.IdleInv sh.sc) (hmax : (w.replicas : Int) ≤ env.opt.maxShard)
    {i : Nat} {sh : Shard} {h : Hash} {r : St} (hrun : w.running[i]? = some sh)
    (hr : (statusOf sh).get h = some r) (hst : r.state = .inTransfer) (h3 : 3 ≤ r.times) (ha : h ∈ w.active)
    (halone : ∀ k shk, w.running[k]? = some shk → k ≠ i → (statusOf shk).get h = none) :
    ∃ (d : Nat) (shd : Shard) (rd : St), d < (step swr env w (.cycle sc [] false)).replicas ∧
      (step swr env w (.cycle sc [] false)).shards[d]? = some shd ∧
      (statusOf shd).get h = some rd ∧ rd.state = .normal := by
  have hrl := running_length w hrep
  have hlt : ∀ (x : Nat) (fx : SI), (cycle swr sc (inputOf env w [] false)).final[x]? = some fx → x < w.replicas := by
    intro x fx hfx
    have h1 := (List.getElem?_eq_some_iff.mp hfx).1
    have h2 := final_length' swr sc (inputOf env w [] false) hne
    rw [h2, inputOf_probes_length, hrl] at h1; exact h1
  have hpI := inputOf_probe env w i sh hrun
  have hndI : ∀ p ∈ (inputOf env w [] false).probes, (reported p).keys.Nodup := by
    intro p hpm
    obtain ⟨k, hk⟩ := List.getElem?_of_mem hpm
    have hkl : k < w.running.length := by
      have := (List.getElem?_eq_some_iff.mp hk).1
      rw [inputOf_probes_length] at this; exact this
    have hrk : w.running[k]? = some w.running[k] := by simp [hkl]
    have := inputOf_probe env w k _ hrk
    rw [hk] at this
    cases this
    rw [reported_probeOf]
    exact hnd _ (List.mem_of_getElem? hrk)
  obtain ⟨fin, v, hfin, hv, hcase⟩ := lonely_repaired swr sc (inputOf env w [] false) hne hndI hpI
    (probeOf_inSync env sh) (by rw [reported_probeOf]; exact hr) hst h3 ha
    (by
      intro k pk hpk hki _
      have hkl : k < w.running.length := by
        have := (List.getElem?_eq_some_iff.mp hpk).1
        rw [inputOf_probes_length] at this; exact this
      have hrk : w.running[k]? = some w.running[k] := by simp [hkl]
      have := inputOf_probe env w k _ hrk
      rw [hpk] at this
      cases this
      rw [reported_probeOf]
      exact halone k _ hrk hki)
  show ∃ (d : Nat) (shd : Shard) (rd : St), d < (cycleStep swr env w sc [] false).1.replicas ∧
    (cycleStep swr env w sc [] false).1.shards[d]? = some shd ∧ _
  cases hvs : v.state with
  | normal =>
    obtain ⟨sh', hsh', _, hstp⟩ := cycleStep_report swr env w sc hrep hne hnc hnd hidle hmax hfin hv ha
    obtain ⟨ri, hri, hris⟩ := hstp h v (planned_get_of w.active fin h v ha hv)
    exact ⟨i, sh', ri, cycleStep_running swr env w sc i (hlt i fin hfin)
      (plan_holder_below_scales swr env w sc hrep hne hnc hidle hmax hfin hv ha), hsh', hri, by rw [hris, hvs]⟩
  | inTransfer =>
    rcases hcase with hn | ⟨d, sd, vd, _, hsd, _, hgd, hnd'⟩
    · rw [hvs] at hn; cases hn
    · obtain ⟨shd', hshd', _, hstp⟩ := cycleStep_report swr env w sc hrep hne hnc hnd hidle hmax hsd hgd ha
      obtain ⟨rd, hrd, hrds⟩ := hstp h vd (planned_get_of w.active sd h vd ha hgd)
      exact ⟨d, shd', rd, cycleStep_running swr env w sc d (hlt d sd hsd)
        (plan_holder_below_scales swr env w sc hrep hne hnc hidle hmax hsd hgd ha), hshd', hrd, by rw [hrds, hnd']⟩

/-- **closed-loop step: a scraped target stays scraped**, resize included -/
theorem step_keep (swr : Swr) (env : Env) (w : World) (sc : Sched)
    (hrep : w.replicas ≤ w.shards.length)
    (hne : stopsEarly (inputOf env w [] false) = false)
    (hnc : (cycle swr sc (inputOf env w [] false)).crashed = false)
    (hnd : ∀ sh ∈ w.running, (statusOf sh).keys.Nodup)
    (hidle : ∀ sh ∈ w.running, Sidecar.IdleInv sh.sc) (hmax : (w.replicas : Int) ≤ env.opt.maxShard)
    {i : Nat} {sh : Shard} {h : Hash} (hrun : w.running[i]? = some sh)
    (hr : (statusOf sh).has h = true) (ha : h ∈ w.active) :
    ∃ (d : Nat) (shd : Shard), d < (step swr env w (.cycle sc [] false)).replicas ∧
      (step swr env w (.cycle sc [] false)).shards[d]? = some shd ∧ (statusOf shd).has h = true := by
  show ∃ (d : Nat) (shd : Shard), d < (cycleStep swr env w sc [] false).1.replicas ∧
      (cycleStep swr env w sc [] false).1.shards[d]? = some shd ∧ _
  have hrl := running_length w hrep
  have prov := cycle_prov swr sc (inputOf env w [] false) hne
  have hp := inputOf_probe env w i sh hrun
  obtain ⟨y, sy, hy, hgy⟩ := prov.kept i _ h hp (by rw [reported_probeOf]; exact hr) ha
  have hy' : (cycle swr sc (inputOf env w [] false)).final[y]? = some sy := hy
  cases hg : sy.scraping.get h with
  | none => exact absurd hg hgy
  | some v =>
    obtain ⟨shy', hshy', hkeys, _⟩ := cycleStep_report swr env w sc hrep hne hnc hnd hidle hmax hy' hg ha
    have hyl : y < w.replicas := by
      have h1 := (List.getElem?_eq_some_iff.mp hy').1
      have h2 := final_length' swr sc (inputOf env w [] false) hne
      rw [h2, inputOf_probes_length, hrl] at h1; exact h1
    have hbelow := plan_holder_below_scales swr env w sc hrep hne hnc hidle hmax hy' hg ha
    have hpk : h ∈ (planned w.active sy).keys :=
      AL.get_some_mem_keys _ _ _ (planned_get_of w.active sy h v ha hg)
    exact ⟨y, shy', cycleStep_running swr env w sc y hyl hbelow, hshy',
      (AL.has_iff _ _).mpr (AL.mem_keys_get _ _ ((hkeys h).mpr hpk))⟩

end Kvass.Loop
