/- lemmas about association lists (`AL`), the model of Go maps -/
import Kvass.Types

namespace Kvass.AL
variable {α : Type}

@[simp] theorem get_nil (h : Hash) : get ([] : AL α) h = none := rfl

theorem get_cons (k : Hash) (v : α) (m : AL α) (h : Hash) :
    get ((k, v) :: m) h = if k = h then some v else get m h := rfl

@[simp] theorem get_set_self (m : AL α) (h : Hash) (v : α) : get (set m h v) h = some v := by
  induction m with
  | nil => simp [set, get]
  | cons p m ih =>
    obtain ⟨k, x⟩ := p
    by_cases hk : k = h
    · simp [set, get, hk]
    · simp [set, get, hk, ih]

theorem get_set_ne (m : AL α) (h k : Hash) (v : α) (hne : h ≠ k) : get (set m h v) k = get m k := by
  induction m with
  | nil => simp [set, get, hne]
  | cons p m ih =>
    obtain ⟨k', x⟩ := p
    by_cases hk : k' = h
    · subst hk; simp [set, get, hne]
    · by_cases hk2 : k' = k
      · subst hk2; simp [set, get, hk]
      · simp [set, get, hk, hk2, ih]

theorem get_set (m : AL α) (h k : Hash) (v : α) :
    get (set m h v) k = if h = k then some v else get m k := by
  by_cases hk : h = k
  · subst hk; simp
  · simp [hk, get_set_ne m h k v hk]

@[simp] theorem get_del_self (m : AL α) (h : Hash) : get (del m h) h = none := by
  induction m with
  | nil => simp [del]
  | cons p m ih =>
    obtain ⟨k, x⟩ := p
    by_cases hk : k = h
    · simpa [del, List.filter, hk] using ih
    · have : (k != h) = true := by simp [hk]
      simp only [del, List.filter, this, get, hk, if_false] at *
      exact ih

theorem get_del_ne (m : AL α) (h k : Hash) (hne : h ≠ k) : get (del m h) k = get m k := by
  induction m with
  | nil => simp [del]
  | cons p m ih =>
    obtain ⟨k', x⟩ := p
    by_cases hk : k' = h
    · subst hk
      have : (k' != k') = false := by simp
      simp only [del, List.filter, this, get, hne, if_false] at *
      exact ih
    · have : (k' != h) = true := by simp [hk]
      simp only [del, List.filter, this, get] at *
      by_cases hk2 : k' = k
      · simp [hk2]
      · simp [hk2]; exact ih

theorem get_del (m : AL α) (h k : Hash) :
    get (del m h) k = if h = k then none else get m k := by
  by_cases hk : h = k
  · subst hk; simp
  · simp [hk, get_del_ne m h k hk]

theorem has_iff (m : AL α) (h : Hash) : has m h = true ↔ ∃ v, get m h = some v := by
  simp [has, Option.isSome_iff_exists]

theorem get_some_mem_keys (m : AL α) (h : Hash) (v : α) (hg : get m h = some v) : h ∈ keys m := by
  induction m with
  | nil => simp at hg
  | cons p m ih =>
    obtain ⟨k, x⟩ := p
    by_cases hk : k = h
    · simp [keys, hk]
    · simp [get, hk] at hg
      have := ih hg
      simp [keys] at this ⊢
      exact Or.inr this

theorem mem_keys_get (m : AL α) (h : Hash) (hm : h ∈ keys m) : ∃ v, get m h = some v := by
  induction m with
  | nil => simp [keys] at hm
  | cons p m ih =>
    obtain ⟨k, x⟩ := p
    by_cases hk : k = h
    · exact ⟨x, by simp [get, hk]⟩
    · simp [keys] at hm
      rcases hm with hm | hm
      · exact absurd hm.symm hk
      · obtain ⟨v, hv⟩ := ih (by simpa [keys] using hm)
        exact ⟨v, by simp [get, hk, hv]⟩

end Kvass.AL

namespace Kvass.AL
variable {α : Type}

theorem mem_keys_iff (m : AL α) (h : Hash) : h ∈ keys m ↔ ∃ v, get m h = some v :=
  ⟨mem_keys_get m h, fun ⟨v, hv⟩ => get_some_mem_keys m h v hv⟩

theorem mem_keys_set (m : AL α) (h k : Hash) (v : α) : k ∈ keys (set m h v) ↔ k = h ∨ k ∈ keys m := by
  rw [mem_keys_iff, mem_keys_iff, get_set]
  by_cases hk : h = k
  · subst hk; simp
  · simp [hk, Ne.symm hk]

theorem get_map {β : Type} (m : AL α) (f : α → β) (h : Hash) :
    get (m.map fun p => (p.1, f p.2)) h = (get m h).map f := by
  induction m with
  | nil => rfl
  | cons p m ih =>
    obtain ⟨k, x⟩ := p
    by_cases hk : k = h <;> simp [get, hk, ih]

theorem keys_map {β : Type} (m : AL α) (f : α → β) : keys (m.map fun p => (p.1, f p.2)) = keys m := by
  simp [keys, List.map_map, Function.comp_def]

end Kvass.AL
