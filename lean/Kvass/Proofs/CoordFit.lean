/-
  From the ghost placement log to what can be observed of C04: for every shard that is sent an
  update, the load it reported plus (a lower bound of) everything newly given to it stays strictly
  below both limits.
-/
import Kvass.Proofs.CoordProv
import Kvass.Proofs.CoordLog

namespace Kvass.Coord
open Kvass Kvass.Spec

/-! ### sums over the log -/

def dstLog (log : List Placement) (d : Nat) : List Placement := log.filter fun pl => pl.dst == d

def sumSeries (l : List Placement) : Int := (l.map (·.series)).sum
def sumTotal (l : List Placement) : Int := (l.map (·.total)).sum

theorem dstLog_append (log : List Placement) (pl : Placement) (d : Nat) :
    dstLog (log ++ [pl]) d = if pl.dst = d then dstLog log d ++ [pl] else dstLog log d := by
  unfold dstLog
  rw [List.filter_append]
  by_cases h : pl.dst = d
  · simp [h]
  · simp [h]

theorem sumSeries_append (l : List Placement) (pl : Placement) : sumSeries (l ++ [pl]) = sumSeries l + pl.series := by
  unfold sumSeries; simp

theorem sumTotal_append (l : List Placement) (pl : Placement) : sumTotal (l ++ [pl]) = sumTotal l + pl.total := by
  unfold sumTotal; simp

theorem sum_nonneg (w : Placement → Int) : ∀ E : List Placement, (∀ e ∈ E, 0 ≤ w e) → 0 ≤ (E.map w).sum := by
  intro E
  induction E with
  | nil => intro _; simp
  | cons e es ih =>
    intro hnn
    simp only [List.map_cons, List.sum_cons]
    have h1 := hnn e List.mem_cons_self
    have h2 := ih (fun x hx => hnn x (List.mem_cons_of_mem _ hx))
    omega

/-- picking, for distinct keys, one entry each out of a list of non-negative entries -/
theorem sum_pick_le (f : Hash → Int) (w : Placement → Int) :
    ∀ (L : List Hash) (E : List Placement), L.Nodup → (∀ e ∈ E, 0 ≤ w e) →
      (∀ h ∈ L, ∃ e ∈ E, e.hash = h ∧ f h ≤ w e) → (L.map f).sum ≤ (E.map w).sum := by
  intro L
  induction L with
  | nil =>
    intro E _ hnn _
    simp only [List.map_nil, List.sum_nil]
    exact sum_nonneg w E hnn
  | cons h hs ih =>
    intro E hnd hnn hex
    have hnd' := List.nodup_cons.mp hnd
    obtain ⟨e, he, hkey, hle⟩ := hex h List.mem_cons_self
    -- take e out of E
    obtain ⟨E1, E2, rfl⟩ := List.append_of_mem he
    have hrest : (hs.map f).sum ≤ ((E1 ++ E2).map w).sum := by
      apply ih (E1 ++ E2) hnd'.2
      · intro x hx
        apply hnn x
        rcases List.mem_append.mp hx with h1 | h1
        · exact List.mem_append_left _ h1
        · exact List.mem_append_right _ (List.mem_cons_of_mem _ h1)
      · intro k hk
        obtain ⟨e', he', hkey', hle'⟩ := hex k (List.mem_cons_of_mem _ hk)
        refine ⟨e', ?_, hkey', hle'⟩
        rcases List.mem_append.mp he' with h1 | h1
        · exact List.mem_append_left _ h1
        · rcases List.mem_cons.mp h1 with h2 | h2
          · subst h2
            exfalso
            rw [hkey] at hkey'
            exact hnd'.1 (hkey' ▸ hk)
          · exact List.mem_append_right _ h2
    simp only [List.map_cons, List.sum_cons, List.map_append, List.sum_append] at hrest ⊢
    omega

end Kvass.Coord

namespace Kvass.Coord
open Kvass Kvass.Spec

/-! ### the exact result of the two placement operations -/

def tDst (t : SI) (h : Hash) (tar : St) : SI :=
  { t with rt := { t.rt with proc := Gen.transferProc t.rt tar, head := Gen.transferHead t.rt tar },
           scraping := t.scraping.set h tar }
def tSrc (f : SI) (h : Hash) (tar : St) : SI :=
  { f with scraping := f.scraping.set h { tar with state := .inTransfer } }
def tPl (k : Nat) (h : Hash) (i j : Nat) (t : SI) (tar : St) : Placement :=
  ⟨k, h, some i, j, tar.series, tar.total, t.rt.head, t.rt.proc⟩

theorem transfer_eq {k : Nat} {c : CS} {i j : Nat} {h : Hash} {f t : SI} {tar : St}
    (hf : c.shards[i]? = some f) (ht : c.shards[j]? = some t) (hg : f.scraping.get h = some tar) :
    transfer k c i j h = { c with shards := (c.shards.set j (tDst t h tar)).set i (tSrc f h tar),
                                  log := c.log ++ [tPl k h i j t tar] } := by
  unfold transfer
  rw [hf, ht]
  simp only [hg]
  rfl

theorem transfer_get {c : CS} {i j : Nat} {f t X Y : SI} (hf : c.shards[i]? = some f) (ht : c.shards[j]? = some t)
    (hji : j ≠ i) (m : Nat) :
    ((c.shards.set j X).set i Y)[m]? = if m = i then some Y else if m = j then some X else c.shards[m]? := by
  by_cases hmi : m = i
  · subst hmi
    have : (c.shards.set j X)[m]? = some f := by rw [getElem?_set_ne' hji]; exact hf
    rw [getElem?_set_self' this]; simp
  · rw [getElem?_set_ne' (Ne.symm hmi)]
    simp only [hmi, if_false]
    by_cases hmj : m = j
    · subst hmj
      rw [getElem?_set_self' ht]; simp
    · rw [getElem?_set_ne' (Ne.symm hmj)]; simp [hmj]

def pDst (t : SI) (h : Hash) (st : St) : SI :=
  { t with rt := { t.rt with head := Gen.placeHead t.rt st, proc := Gen.placeProc t.rt st },
           scraping := t.scraping.set h st }
def pPl (k : Nat) (h : Hash) (j : Nat) (t : SI) (st : St) : Placement :=
  ⟨k, h, none, j, st.series, st.total, t.rt.head, t.rt.proc⟩

theorem place_eq {k : Nat} {c : CS} {j : Nat} {h : Hash} {t : SI} {st : St} (ht : c.shards[j]? = some t) :
    place k c j h st = { c with shards := c.shards.set j (pDst t h st), log := c.log ++ [pPl k h j t st] } := by
  unfold place
  rw [ht]
  rfl

theorem place_get {c : CS} {j : Nat} {t X : SI} (ht : c.shards[j]? = some t) (m : Nat) :
    (c.shards.set j X)[m]? = if m = j then some X else c.shards[m]? := by
  by_cases hmj : m = j
  · subst hmj; rw [getElem?_set_self' ht]; simp
  · rw [getElem?_set_ne' (Ne.symm hmj)]; simp [hmj]

end Kvass.Coord

namespace Kvass.Coord
open Kvass Kvass.Spec

/-! ### the accounting invariant -/

/-- where the sizes of an entry come from -/
def ValFrom (inp : Input) (h : Hash) (v : St) : Prop :=
  (∃ (x : Nat) (px : Probe) (r : St), inp.probes[x]? = some px ∧ inSync px = true ∧ (reported px).get h = some r ∧
      r.series = v.series ∧ r.total = v.total) ∨
  h ∉ inp.active ∨
  (C04.isFirstAssign inp h = true ∧ ∀ e, inp.explore.get h = some e → e.series = v.series ∧ e.total = v.total)

structure FitInv (inp : Input) (c : CS) : Prop where
  /-- the running load of a shard is what it reported plus everything placed on it -/
  acct : ∀ (d : Nat) (s : SI) (p : Probe), c.shards[d]? = some s → inp.probes[d]? = some p →
      s.rt.head = (getInfo p).1.rt.head + sumSeries (dstLog c.log d) ∧
      s.rt.proc = (getInfo p).1.rt.proc + sumTotal (dstLog c.log d)
  /-- a shard something was placed on is below both limits -/
  below : ∀ (d : Nat) (s : SI) (pl : Placement), c.shards[d]? = some s → pl ∈ c.log → pl.dst = d →
      (inp.opt.maxHead ≠ 0 → s.rt.head < inp.opt.maxHead) ∧ s.rt.proc < inp.opt.maxProc
  /-- a planned key the shard did not report was placed on it in this cycle -/
  logged : ∀ (d : Nat) (s : SI) (h : Hash) (v : St), c.shards[d]? = some s → s.scraping.get h = some v →
      (∃ p, inp.probes[d]? = some p ∧ (reported p).has h = true) ∨ ∃ pl ∈ c.log, pl.dst = d ∧ pl.hash = h
  nonneg : ∀ pl ∈ c.log, 0 ≤ pl.series ∧ 0 ≤ pl.total
  /-- what the property check charges for a placement is at most what the coordinator charged -/
  lb : ∀ pl ∈ c.log, pl.hash ∈ inp.active →
      (∀ p, inp.probes[pl.dst]? = some p → (reported p).has pl.hash = false) →
      ∀ a b, C04.weightOf inp pl.dst pl.hash = some (a, b) → a ≤ pl.series ∧ b ≤ pl.total
  vals : ∀ (d : Nat) (s : SI) (h : Hash) (v : St), c.shards[d]? = some s → s.changeable = true →
      s.scraping.get h = some v → ValFrom inp h v
  pos : ∀ (d : Nat) (s : SI) (h : Hash) (v : St), c.shards[d]? = some s → s.scraping.get h = some v →
      0 ≤ v.series ∧ 0 ≤ v.total
  /-- a target nobody reported is only ever held if it does not exceed a limit alone -/
  small : ∀ (d : Nat) (s : SI) (h : Hash) (v : St), c.shards[d]? = some s → s.scraping.get h = some v →
      C04.isFirstAssign inp h = true → Gen.tooBig inp.opt v = false

theorem tooBig_congr (o : Opt) {v w : St} (e1 : w.series = v.series) (e2 : w.total = v.total) :
    Gen.tooBig o w = Gen.tooBig o v := by
  unfold Gen.tooBig; rw [e1, e2]

/-- one placement, abstractly: `v` is put under `h` on shard `j`, charged to its running load and
    logged; other shards keep their load, flags, keys and sizes -/
structure Step (c c' : CS) (j : Nat) (h : Hash) (v : St) (pl : Placement) (t t' : SI) : Prop where
  log : c'.log = c.log ++ [pl]
  pl_dst : pl.dst = j
  pl_hash : pl.hash = h
  pl_series : pl.series = v.series
  pl_total : pl.total = v.total
  old : c.shards[j]? = some t
  new : c'.shards[j]? = some t'
  head : t'.rt.head = t.rt.head + v.series
  proc : t'.rt.proc = t.rt.proc + v.total
  flag : t'.changeable = t.changeable
  scr : t'.scraping = t.scraping.set h v
  other : ∀ (m : Nat) (s' : SI), m ≠ j → c'.shards[m]? = some s' → ∃ s, c.shards[m]? = some s ∧ s'.rt = s.rt ∧
      s'.changeable = s.changeable ∧
      ∀ k w', s'.scraping.get k = some w' → ∃ w, s.scraping.get k = some w ∧ w'.series = w.series ∧ w'.total = w.total

theorem ValFrom.congr {inp : Input} {h : Hash} {v w : St} (hv : ValFrom inp h v) (e1 : w.series = v.series) (e2 : w.total = v.total) :
    ValFrom inp h w := by
  rcases hv with ⟨x, px, r, h1, h2, h3, h4, h5⟩ | hna | ⟨hfa, he⟩
  · exact Or.inl ⟨x, px, r, h1, h2, h3, by omega, by omega⟩
  · exact Or.inr (Or.inl hna)
  · refine Or.inr (Or.inr ⟨hfa, fun e hee => ?_⟩)
    have := he e hee
    exact ⟨by omega, by omega⟩

theorem fitInv_step {inp : Input} {c c' : CS} {j : Nat} {h : Hash} {v : St} {pl : Placement} {t t' : SI}
    (hc : FitInv inp c) (st : Step c c' j h v pl t t')
    (hfit : (inp.opt.maxHead ≠ 0 → t.rt.head + v.series < inp.opt.maxHead) ∧ t.rt.proc + v.total < inp.opt.maxProc)
    (hpos : 0 ≤ v.series ∧ 0 ≤ v.total)
    (hlb : h ∈ inp.active → (∀ p, inp.probes[j]? = some p → (reported p).has h = false) →
      ∀ a b, C04.weightOf inp j h = some (a, b) → a ≤ v.series ∧ b ≤ v.total)
    (hval : t.changeable = true → ValFrom inp h v)
    (hsmall : C04.isFirstAssign inp h = true → Gen.tooBig inp.opt v = false) : FitInv inp c' := by
  have hmemlog : ∀ q, q ∈ c'.log ↔ q ∈ c.log ∨ q = pl := by
    intro q; rw [st.log]; simp
  refine ⟨?_, ?_, ?_, ?_, ?_, ?_, ?_, ?_⟩
  · intro d s p hs hp
    rw [st.log, dstLog_append, st.pl_dst]
    by_cases hd : j = d
    · subst hd
      rw [st.new] at hs; cases hs
      obtain ⟨a1, a2⟩ := hc.acct j t p st.old hp
      simp only [if_true, sumSeries_append, sumTotal_append, st.pl_series, st.pl_total]
      rw [st.head, st.proc]
      constructor <;> omega
    · obtain ⟨s0, hs0, hrt, _, _⟩ := st.other d s (Ne.symm hd) hs
      simp only [hd, if_false]
      rw [hrt]
      exact hc.acct d s0 p hs0 hp
  · intro d s q hs hq hqd
    by_cases hd : j = d
    · subst hd
      rw [st.new] at hs; cases hs
      rw [st.head, st.proc]
      exact hfit
    · obtain ⟨s0, hs0, hrt, _, _⟩ := st.other d s (Ne.symm hd) hs
      rw [hrt]
      rcases (hmemlog q).mp hq with hq | hq
      · exact hc.below d s0 q hs0 hq hqd
      · subst hq; exact absurd (st.pl_dst.symm.trans hqd) hd
  · intro d s k w hs hw
    by_cases hd : j = d
    · subst hd
      rw [st.new] at hs; cases hs
      rw [st.scr, AL.get_set] at hw
      split at hw
      · rename_i e
        exact Or.inr ⟨pl, (hmemlog pl).mpr (Or.inr rfl), st.pl_dst, by rw [st.pl_hash]; exact e⟩
      · rcases hc.logged j t k w st.old hw with hl | ⟨q, hq, h1, h2⟩
        · exact Or.inl hl
        · exact Or.inr ⟨q, (hmemlog q).mpr (Or.inl hq), h1, h2⟩
    · obtain ⟨s0, hs0, _, _, hk⟩ := st.other d s (Ne.symm hd) hs
      obtain ⟨w0, hw0, _⟩ := hk k w hw
      rcases hc.logged d s0 k w0 hs0 hw0 with hl | ⟨q, hq, h1, h2⟩
      · exact Or.inl hl
      · exact Or.inr ⟨q, (hmemlog q).mpr (Or.inl hq), h1, h2⟩
  · intro q hq
    rcases (hmemlog q).mp hq with hq | hq
    · exact hc.nonneg q hq
    · subst hq; rw [st.pl_series, st.pl_total]; exact hpos
  · intro q hq
    rcases (hmemlog q).mp hq with hq | hq
    · exact hc.lb q hq
    · subst hq
      rw [st.pl_series, st.pl_total, st.pl_dst, st.pl_hash]
      exact hlb
  · intro d s k w hs hch hw
    by_cases hd : j = d
    · subst hd
      rw [st.new] at hs; cases hs
      rw [st.scr, AL.get_set] at hw
      split at hw
      · rename_i e
        cases hw; subst e
        exact hval (by rw [← st.flag]; exact hch)
      · exact hc.vals j t k w st.old (by rw [← st.flag]; exact hch) hw
    · obtain ⟨s0, hs0, _, hfl, hk⟩ := st.other d s (Ne.symm hd) hs
      obtain ⟨w0, hw0, e1, e2⟩ := hk k w hw
      exact (hc.vals d s0 k w0 hs0 (by rw [← hfl]; exact hch) hw0).congr e1 e2
  · intro d s k w hs hw
    by_cases hd : j = d
    · subst hd
      rw [st.new] at hs; cases hs
      rw [st.scr, AL.get_set] at hw
      split at hw
      · cases hw; exact hpos
      · exact hc.pos j t k w st.old hw
    · obtain ⟨s0, hs0, _, _, hk⟩ := st.other d s (Ne.symm hd) hs
      obtain ⟨w0, hw0, e1, e2⟩ := hk k w hw
      have := hc.pos d s0 k w0 hs0 hw0
      exact ⟨by omega, by omega⟩
  · intro d s k w hs hw hfa
    by_cases hd : j = d
    · subst hd
      rw [st.new] at hs; cases hs
      rw [st.scr, AL.get_set] at hw
      split at hw
      · rename_i e
        cases hw; subst e; exact hsmall hfa
      · exact hc.small j t k w st.old hw hfa
    · obtain ⟨s0, hs0, _, _, hk⟩ := st.other d s (Ne.symm hd) hs
      obtain ⟨w0, hw0, e1, e2⟩ := hk k w hw
      rw [tooBig_congr inp.opt e1 e2]
      exact hc.small d s0 k w0 hs0 hw0 hfa

end Kvass.Coord

namespace Kvass.Coord
open Kvass Kvass.Spec

/-! ### the charge the property check makes is a lower bound -/

theorem minI_le : ∀ (l : List Int) (x : Int), x ∈ l → ∃ m, C04.minI l = some m ∧ m ≤ x := by
  intro l
  induction l with
  | nil => intro x hx; cases hx
  | cons y ys ih =>
    intro x hx
    unfold C04.minI
    cases hm : C04.minI ys with
    | none =>
      simp only
      rcases List.mem_cons.mp hx with rfl | hx
      · exact ⟨x, rfl, Int.le_refl _⟩
      · obtain ⟨m, hm', _⟩ := ih x hx
        rw [hm] at hm'; cases hm'
    | some m =>
      simp only
      refine ⟨_, rfl, ?_⟩
      rcases List.mem_cons.mp hx with rfl | hx
      · split <;> omega
      · obtain ⟨m', hm', hle⟩ := ih x hx
        rw [hm] at hm'; cases hm'
        split <;> omega

theorem minI_nil_iff (l : List Int) : C04.minI l = none ↔ l = [] := by
  cases l with
  | nil => simp [C04.minI]
  | cons y ys =>
    unfold C04.minI
    cases C04.minI ys <;> simp

def srcsOf (inp : Input) (d : Nat) (h : Hash) : List St :=
  inp.probes.zipIdx.filterMap fun (p, j) => if j != d && inSync p then (reported p).get h else none

theorem weightOf_unfold (inp : Input) (d : Nat) (h : Hash) :
    C04.weightOf inp d h =
      match C04.minI ((srcsOf inp d h).map (·.series)), C04.minI ((srcsOf inp d h).map (·.total)) with
      | some s, some t => some (s, t)
      | _, _ => (inp.explore.get h).map fun st => (st.series, st.total) := rfl

theorem weightOf_le_reporter {inp : Input} {d x : Nat} {px : Probe} {h : Hash} {r : St}
    (hx : inp.probes[x]? = some px) (hxd : x ≠ d) (hs : inSync px = true) (hr : (reported px).get h = some r)
    {a b : Int} (hw : C04.weightOf inp d h = some (a, b)) : a ≤ r.series ∧ b ≤ r.total := by
  have hmem : r ∈ srcsOf inp d h := by
    unfold srcsOf
    rw [List.mem_filterMap]
    refine ⟨(px, x), ?_, ?_⟩
    · rw [List.mem_zipIdx_iff_getElem?]; simpa using hx
    · simp [hxd, hs, hr]
  obtain ⟨m1, hm1, hle1⟩ := minI_le ((srcsOf inp d h).map (·.series)) r.series (List.mem_map.mpr ⟨r, hmem, rfl⟩)
  obtain ⟨m2, hm2, hle2⟩ := minI_le ((srcsOf inp d h).map (·.total)) r.total (List.mem_map.mpr ⟨r, hmem, rfl⟩)
  rw [weightOf_unfold, hm1, hm2] at hw
  simp only [Option.some.injEq, Prod.mk.injEq] at hw
  omega

theorem firstAssign_none {inp : Input} {h : Hash} (hfa : C04.isFirstAssign inp h = true) :
    ∀ p ∈ inp.probes, (reported p).get h = none := by
  intro p hp
  unfold C04.isFirstAssign at hfa
  cases hg : (reported p).get h with
  | none => rfl
  | some v =>
    exfalso
    have : (inp.probes.any fun p => (reported p).has h) = true :=
      List.any_eq_true.mpr ⟨p, hp, (AL.has_iff _ _).mpr ⟨v, hg⟩⟩
    simp [this] at hfa

theorem weightOf_firstAssign {inp : Input} {d : Nat} {h : Hash} (hfa : C04.isFirstAssign inp h = true) :
    C04.weightOf inp d h = (inp.explore.get h).map fun st => (st.series, st.total) := by
  have hnil : srcsOf inp d h = [] := by
    unfold srcsOf
    rw [List.filterMap_eq_nil_iff]
    intro ⟨p, j⟩ hm
    have hp : p ∈ inp.probes := by
      rw [List.mem_zipIdx_iff_getElem?] at hm
      exact List.mem_of_getElem? (by simpa using hm)
    simp only
    split
    · exact firstAssign_none hfa p hp
    · rfl
  rw [weightOf_unfold, hnil]
  simp [C04.minI]

/-- the lower-bound obligation of `fitInv_step`, from where the entry's sizes come from -/
theorem lb_of_valFrom {inp : Input} {j : Nat} {h : Hash} {v : St} (hv : ValFrom inp h v) :
    h ∈ inp.active → (∀ p, inp.probes[j]? = some p → (reported p).has h = false) →
      ∀ a b, C04.weightOf inp j h = some (a, b) → a ≤ v.series ∧ b ≤ v.total := by
  intro ha hnr a b hw
  rcases hv with ⟨x, px, r, h1, h2, h3, h4, h5⟩ | hna | ⟨hfa, he⟩
  · have hxj : x ≠ j := by
      intro e; subst e
      have := hnr px h1
      rw [(AL.has_iff _ _).mpr ⟨r, h3⟩] at this
      cases this
    have := weightOf_le_reporter h1 hxj h2 h3 hw
    omega
  · exact absurd ha hna
  · rw [weightOf_firstAssign hfa] at hw
    cases hg : inp.explore.get h with
    | none => simp [hg] at hw
    | some e =>
      simp only [hg, Option.map_some, Option.some.injEq, Prod.mk.injEq] at hw
      have := he e hg
      omega

end Kvass.Coord

namespace Kvass.Coord
open Kvass Kvass.Spec

/-! ### both placement operations are such steps -/

theorem transfer_step {k : Nat} {c : CS} {i j : Nat} {h : Hash} {f t : SI} {tar : St}
    (hf : c.shards[i]? = some f) (ht : c.shards[j]? = some t) (hg : f.scraping.get h = some tar) (hji : j ≠ i) :
    Step c (transfer k c i j h) j h tar (tPl k h i j t tar) t (tDst t h tar) := by
  rw [transfer_eq hf ht hg]
  refine ⟨rfl, rfl, rfl, rfl, rfl, ht, ?_, rfl, rfl, rfl, rfl, ?_⟩
  · simp only
    rw [transfer_get hf ht hji]
    simp [hji]
  · intro m s' hmj hs'
    simp only at hs'
    rw [transfer_get hf ht hji] at hs'
    by_cases hmi : m = i
    · subst hmi
      simp only [if_true] at hs'
      cases hs'
      refine ⟨f, hf, rfl, rfl, ?_⟩
      intro k' w' hw'
      unfold tSrc at hw'
      simp only at hw'
      rw [AL.get_set] at hw'
      split at hw'
      · rename_i e
        cases hw'
        exact ⟨tar, by rw [← e]; exact hg, rfl, rfl⟩
      · exact ⟨w', hw', rfl, rfl⟩
    · simp only [hmi, hmj, if_false] at hs'
      exact ⟨s', hs', rfl, rfl, fun k' w' hw' => ⟨w', hw', rfl, rfl⟩⟩

theorem place_step {k : Nat} {c : CS} {j : Nat} {h : Hash} {t : SI} {st : St} (ht : c.shards[j]? = some t) :
    Step c (place k c j h st) j h st (pPl k h j t st) t (pDst t h st) := by
  rw [place_eq ht]
  refine ⟨rfl, rfl, rfl, rfl, rfl, ht, ?_, rfl, rfl, rfl, rfl, ?_⟩
  · simp only
    rw [place_get ht]; simp
  · intro m s' hmj hs'
    simp only at hs'
    rw [place_get ht] at hs'
    simp only [hmj, if_false] at hs'
    exact ⟨s', hs', rfl, rfl, fun k' w' hw' => ⟨w', hw', rfl, rfl⟩⟩

/-- provenance and accounting together -/
def FP (inp : Input) (c : CS) : Prop := ProvInv inp c ∧ FitInv inp c

theorem fp_presA (inp : Input) (glob : Hash → St)
    (hpos : ∀ h, 0 ≤ (glob h).series ∧ 0 ≤ (glob h).total)
    (hfa : ∀ h, C04.isFirstAssign inp h = true → ∀ e, inp.explore.get h = some e →
      e.series = (glob h).series ∧ e.total = (glob h).total) :
    PresA inp.opt glob (FP inp) where
  crash := fun c hc => ⟨(provInv_presA inp glob).crash c hc.1,
    ⟨hc.2.acct, hc.2.below, hc.2.logged, hc.2.nonneg, hc.2.lb, hc.2.vals, hc.2.pos, hc.2.small⟩⟩
  transfer := by
    intro k c i j h hc hg
    refine ⟨(provInv_presA inp glob).transfer k c i j h hc.1 hg, ?_⟩
    obtain ⟨f, t, tar, hf, ht, hget, hfc, _, hji, _, _, hfit, _⟩ := hg
    have hv : ValFrom inp h tar := hc.2.vals i f h tar hf hfc hget
    exact fitInv_step hc.2 (transfer_step hf ht hget hji) hfit (hc.2.pos i f h tar hf hget)
      (lb_of_valFrom hv) (fun _ => hv) (hc.2.small i f h tar hf hget)
  place := by
    intro c j h hc hg
    refine ⟨(provInv_presA inp glob).place c j h hc.1 hg, ?_⟩
    obtain ⟨t, ht, _, hnone, _, hbig, hfit⟩ := hg
    have hv : ValFrom inp h (glob h) := by
      by_cases ha : h ∈ inp.active
      · by_cases hf : C04.isFirstAssign inp h = true
        · exact Or.inr (Or.inr ⟨hf, hfa h hf⟩)
        · exfalso
          have hany : (inp.probes.any fun p => (reported p).has h) = true := by
            unfold C04.isFirstAssign at hf
            cases hh : (inp.probes.any fun p => (reported p).has h) with
            | true => rfl
            | false => simp [hh] at hf
          obtain ⟨p, hpm, hr⟩ := List.any_eq_true.mp hany
          obtain ⟨x, hx⟩ := List.getElem?_of_mem hpm
          obtain ⟨y, sy, hy, hgy⟩ := hc.1.kept x p h hx hr ha
          exact hgy (hnone sy (List.mem_of_getElem? hy))
      · exact Or.inr (Or.inl ha)
    exact fitInv_step hc.2 (place_step ht) hfit (hpos h) (lb_of_valFrom hv) (fun _ => hv) (fun _ => hbig)

end Kvass.Coord

namespace Kvass.Coord
open Kvass Kvass.Spec

/-! ### the start of a cycle -/

/-- sizes in the script are not negative -/
def SizesOK (inp : Input) : Prop :=
  (∀ p ∈ inp.probes, ∀ h v, (reported p).get h = some v → 0 ≤ v.series ∧ 0 ≤ v.total) ∧
  (∀ h e, inp.explore.get h = some e → 0 ≤ e.series ∧ 0 ≤ e.total)

theorem fitInv_start (inp : Input) (hok : SizesOK inp) : FitInv inp (startCS inp) := by
  have inv := gc_inv inp.opt inp.active (infos0 inp)
  have hshards : (startCS inp).shards = gc inp.opt inp.active (infos0 inp) := rfl
  have hlog : (startCS inp).log = [] := rfl
  refine ⟨?_, ?_, ?_, ?_, ?_, ?_, ?_, ?_⟩
  · intro d s p hs hp
    rw [hshards] at hs
    obtain ⟨s0, h0, _, hrt, _, _⟩ := inv.same d s hs
    obtain ⟨p', hp', rfl⟩ := infos0_get_some h0
    rw [hp] at hp'; cases hp'
    rw [hlog, hrt]
    simp [dstLog, sumSeries, sumTotal]
  · intro d s pl _ hpl; rw [hlog] at hpl; cases hpl
  · intro d s h v hs hv
    rw [hshards] at hs
    obtain ⟨s0, h0, _, _, hsub, _⟩ := inv.same d s hs
    obtain ⟨p, hp, rfl⟩ := infos0_get_some h0
    obtain ⟨v0, hv0, _⟩ := hsub h v hv
    left
    refine ⟨p, hp, (AL.has_iff _ _).mpr ⟨v0, ?_⟩⟩
    rw [← getInfo_scraping]; exact hv0
  · intro pl hpl; rw [hlog] at hpl; cases hpl
  · intro pl hpl; rw [hlog] at hpl; cases hpl
  · intro d s h v hs hch hv
    rw [hshards] at hs
    obtain ⟨s0, h0, hfl, _, hsub, _⟩ := inv.same d s hs
    obtain ⟨p, hp, rfl⟩ := infos0_get_some h0
    obtain ⟨v0, hv0, hrev⟩ := hsub h v hv
    have hf := hrev.fields
    rw [getInfo_scraping] at hv0
    rw [hfl, getInfo_changeable] at hch
    exact Or.inl ⟨d, p, v0, hp, hch, hv0, hf.2.1.symm, hf.2.2.1.symm⟩
  · intro d s h v hs hv
    rw [hshards] at hs
    obtain ⟨s0, h0, _, _, hsub, _⟩ := inv.same d s hs
    obtain ⟨p, hp, rfl⟩ := infos0_get_some h0
    obtain ⟨v0, hv0, hrev⟩ := hsub h v hv
    have hf := hrev.fields
    rw [getInfo_scraping] at hv0
    have := hok.1 p (List.mem_of_getElem? hp) h v0 hv0
    exact ⟨by omega, by omega⟩
  · intro d s h v hs hv hfa
    exfalso
    rw [hshards] at hs
    obtain ⟨s0, h0, _, _, hsub, _⟩ := inv.same d s hs
    obtain ⟨p, hp, rfl⟩ := infos0_get_some h0
    obtain ⟨v0, hv0, _⟩ := hsub h v hv
    rw [getInfo_scraping, firstAssign_none hfa p (List.mem_of_getElem? hp)] at hv0
    cases hv0

theorem globalOf_cases (ss : List SI) (explore : AL St) (h : Hash) :
    (∃ s ∈ ss, s.scraping.get h = some (globalOf ss explore h)) ∨
    (explore.get h = some (globalOf ss explore h) ∧ ∀ s ∈ ss, ∀ v, s.scraping.get h = some v → v.health = .unknown) ∨
    (explore.get h = none ∧ globalOf ss explore h = { health := .unknown, series := 0, total := 0 }) := by
  unfold globalOf
  cases hf : ss.findSome? (fun s => match s.scraping.get h with
      | some st => if st.health != .unknown then some st else none
      | none => none) with
  | some st =>
    obtain ⟨s, hs, hst⟩ := List.exists_of_findSome?_eq_some hf
    left
    refine ⟨s, hs, ?_⟩
    simp only
    cases hg : s.scraping.get h with
    | none => simp [hg] at hst
    | some w =>
      simp only [hg] at hst
      split at hst
      · cases hst; rfl
      · cases hst
  | none =>
    simp only
    cases he : explore.get h with
    | some e =>
      right; left
      refine ⟨rfl, ?_⟩
      intro s hs v hv
      rw [List.findSome?_eq_none_iff] at hf
      have := hf s hs
      simp only [hv] at this
      cases hh : v.health <;> simp [hh] at this ⊢
    | none => right; right; exact ⟨rfl, rfl⟩

theorem globalOf_pos (inp : Input) (hok : SizesOK inp) (h : Hash) :
    0 ≤ (globalOf (infos0 inp) inp.explore h).series ∧ 0 ≤ (globalOf (infos0 inp) inp.explore h).total := by
  rcases globalOf_cases (infos0 inp) inp.explore h with ⟨s, hs, hg⟩ | ⟨he, _⟩ | h0
  · obtain ⟨d, hd⟩ := List.getElem?_of_mem hs
    obtain ⟨p, hp, rfl⟩ := infos0_get_some hd
    rw [getInfo_scraping] at hg
    exact hok.1 p (List.mem_of_getElem? hp) h _ hg
  · exact hok.2 h _ he
  · rw [h0.2]; simp

theorem globalOf_firstAssign (inp : Input) (h : Hash) (hfa : C04.isFirstAssign inp h = true)
    (e : St) (he : inp.explore.get h = some e) : globalOf (infos0 inp) inp.explore h = e := by
  rcases globalOf_cases (infos0 inp) inp.explore h with ⟨s, hs, hg⟩ | ⟨he', _⟩ | h0
  · exfalso
    obtain ⟨d, hd⟩ := List.getElem?_of_mem hs
    obtain ⟨p, hp, rfl⟩ := infos0_get_some hd
    rw [getInfo_scraping, firstAssign_none hfa p (List.mem_of_getElem? hp)] at hg
    cases hg
  · rw [he] at he'; exact (Option.some.inj he').symm
  · rw [he] at h0; cases h0.1

end Kvass.Coord

namespace Kvass.Coord
open Kvass Kvass.Spec

theorem nodup_eraseDups : ∀ (n : Nat) (l : List Hash), l.length ≤ n → l.eraseDups.Nodup := by
  intro n
  induction n with
  | zero =>
    intro l hl
    have : l = [] := List.length_eq_zero_iff.mp (by omega)
    subst this; simp
  | succ n ih =>
    intro l hl
    cases l with
    | nil => simp
    | cons a as =>
      rw [List.eraseDups_cons, List.nodup_cons]
      constructor
      · intro hm
        rw [List.mem_eraseDups, List.mem_filter] at hm
        simp at hm
      · apply ih
        have := List.length_filter_le (fun b => !b == a) as
        simp only [List.length_cons] at hl
        omega

/-- sum of the charges, written as a sum over the keys -/
theorem sum_filterMap_fst (g : Hash → Option (Int × Int)) (L : List Hash) :
    ((L.filterMap g).map (·.1)).sum = (L.map fun h => match g h with | some (a, _) => a | none => 0).sum := by
  induction L with
  | nil => simp
  | cons h hs ih =>
    rw [List.filterMap_cons]
    cases hg : g h with
    | none => simp [hg, ih]
    | some ab => obtain ⟨a, b⟩ := ab; simp [hg, ih]

theorem sum_filterMap_snd (g : Hash → Option (Int × Int)) (L : List Hash) :
    ((L.filterMap g).map (·.2)).sum = (L.map fun h => match g h with | some (_, b) => b | none => 0).sum := by
  induction L with
  | nil => simp
  | cons h hs ih =>
    rw [List.filterMap_cons]
    cases hg : g h with
    | none => simp [hg, ih]
    | some ab => obtain ⟨a, b⟩ := ab; simp [hg, ih]

end Kvass.Coord

namespace Kvass.Coord
open Kvass Kvass.Spec

theorem cycle_fp (swr : Swr) (sc : Sched) (inp : Input) (hok : SizesOK inp) (hne : stopsEarly inp = false) :
    FP inp (cycle swr sc inp).cs :=
  cycle_pres swr sc inp
    (fp_presA inp _ (globalOf_pos inp hok)
      (fun h hfa e he => by
        have := globalOf_firstAssign inp h hfa e he
        unfold infos0 at this
        rw [this]; exact ⟨rfl, rfl⟩))
    ⟨provInv_start inp, fitInv_start inp hok⟩ hne

/-- **observable C04, first clause**: what a shard reported plus a lower bound of everything the
    cycle newly gives it stays strictly below both limits — for every schedule -/
theorem fits_cycle (swr : Swr) (sc : Sched) (inp : Input) (hok : SizesOK inp) :
    C04.fits inp (Obs.ofOutcome (cycle swr sc inp)) = true := by
  unfold C04.fits
  rw [List.all_eq_true]
  intro ⟨d, p, r⟩ hm
  obtain ⟨hp, hr⟩ := mem_shardsOf.mp hm
  simp only
  rcases reqs_cases swr sc inp hp with h1 | ⟨hne, s, hs, h2⟩
  · have : r = (getInfo p).2 := by
      have e : (Obs.ofOutcome (cycle swr sc inp)).reqs[d]? = (cycle swr sc inp).reqs[d]? := rfl
      rw [e, h1] at hr; exact (Option.some.inj hr).symm
    rw [this, postedBody_getInfo]
  · have : r = (getInfo p).2 ++ applyReqs inp.active p s := by
      have e : (Obs.ofOutcome (cycle swr sc inp)).reqs[d]? = (cycle swr sc inp).reqs[d]? := rfl
      rw [e, h2] at hr; exact (Option.some.inj hr).symm
    rw [this, postedBody_apply]
    by_cases hc : (s.changeable && needUpdate (p.status.getD []) (body inp.active s)) = true
    · simp only [hc, if_true]
      have fp := cycle_fp swr sc inp hok hne
      have hs' : (cycle swr sc inp).cs.shards[d]? = some s := hs
      have hch : s.changeable = true := by
        cases hh : s.changeable with
        | true => rfl
        | false => simp [hh] at hc
      obtain ⟨p', hp', hfl⟩ := fp.1.flags d s hs'
      rw [hp] at hp'; cases hp'
      have hsync : inSync p = true := by rw [← hfl]; exact hch
      have hrt := getInfo_rt p hsync
      generalize hnw : (C04.newOn p (body inp.active s)).eraseDups = nw
      cases nw with
      | nil => simp
      | cons k0 ks =>
        rw [← hnw]
        -- every new key was placed here in this cycle
        have hnew : ∀ h ∈ (C04.newOn p (body inp.active s)).eraseDups,
            h ∈ inp.active ∧ (reported p).has h = false ∧
            ∃ pl ∈ dstLog (cycle swr sc inp).cs.log d, pl.hash = h ∧ pl ∈ (cycle swr sc inp).cs.log := by
          intro h hh
          rw [List.mem_eraseDups] at hh
          unfold C04.newOn at hh
          rw [List.mem_filter] at hh
          obtain ⟨hbk, hnr⟩ := hh
          obtain ⟨hact, v, hv⟩ := mem_body_keys hbk
          have hnr' : (reported p).has h = false := by simpa using hnr
          refine ⟨hact, hnr', ?_⟩
          rcases fp.2.logged d s h v hs' hv with ⟨p', hp', hr'⟩ | ⟨pl, hpl, hd, hh⟩
          · rw [hp] at hp'; cases hp'
            rw [hr'] at hnr'; cases hnr'
          · refine ⟨pl, ?_, hh, hpl⟩
            unfold dstLog
            rw [List.mem_filter]
            exact ⟨hpl, by simp [hd]⟩
        have hnd := nodup_eraseDups _ (C04.newOn p (body inp.active s)) (Nat.le_refl _)
        have hnn1 : ∀ e ∈ dstLog (cycle swr sc inp).cs.log d, 0 ≤ e.series := by
          intro e he; unfold dstLog at he; rw [List.mem_filter] at he
          exact (fp.2.nonneg e he.1).1
        have hnn2 : ∀ e ∈ dstLog (cycle swr sc inp).cs.log d, 0 ≤ e.total := by
          intro e he; unfold dstLog at he; rw [List.mem_filter] at he
          exact (fp.2.nonneg e he.1).2
        have hdst : ∀ e ∈ dstLog (cycle swr sc inp).cs.log d, e.dst = d := by
          intro e he; unfold dstLog at he; rw [List.mem_filter] at he
          simpa using he.2
        have hsum1 := sum_pick_le (fun h => match C04.weightOf inp d h with | some (a, _) => a | none => 0)
          (·.series) _ _ hnd hnn1 (by
            intro h hh
            obtain ⟨hact, hnr, pl, hpl, hph, hlog⟩ := hnew h hh
            refine ⟨pl, hpl, hph, ?_⟩
            cases hw : C04.weightOf inp d h with
            | none => exact hnn1 pl hpl
            | some ab =>
              obtain ⟨a, b⟩ := ab
              simp only
              have hd := hdst pl hpl
              have := fp.2.lb pl hlog (by rw [hph]; exact hact)
                (by intro p' hp'; rw [hd, hp] at hp'; cases hp'; rw [hph]; exact hnr) a b
                (by rw [hd, hph]; exact hw)
              exact this.1)
        have hsum2 := sum_pick_le (fun h => match C04.weightOf inp d h with | some (_, b) => b | none => 0)
          (·.total) _ _ hnd hnn2 (by
            intro h hh
            obtain ⟨hact, hnr, pl, hpl, hph, hlog⟩ := hnew h hh
            refine ⟨pl, hpl, hph, ?_⟩
            cases hw : C04.weightOf inp d h with
            | none => exact hnn2 pl hpl
            | some ab =>
              obtain ⟨a, b⟩ := ab
              simp only
              have hd := hdst pl hpl
              have := fp.2.lb pl hlog (by rw [hph]; exact hact)
                (by intro p' hp'; rw [hd, hp] at hp'; cases hp'; rw [hph]; exact hnr) a b
                (by rw [hd, hph]; exact hw)
              exact this.2)
        -- the first new key shows that something was placed here
        have hk0 : k0 ∈ (C04.newOn p (body inp.active s)).eraseDups := by rw [hnw]; exact List.mem_cons_self
        obtain ⟨_, _, pl0, hpl0, _, hlog0⟩ := hnew k0 hk0
        have hbelow := fp.2.below d s pl0 hs' hlog0 (hdst pl0 hpl0)
        obtain ⟨ha1, ha2⟩ := fp.2.acct d s p hs' hp
        rw [hrt] at ha1 ha2
        rw [sum_filterMap_fst, sum_filterMap_snd]
        unfold sumSeries at ha1
        unfold sumTotal at ha2
        simp only [Bool.or_eq_true, Bool.and_eq_true, decide_eq_true_eq, beq_iff_eq]
        right
        refine ⟨?_, by omega⟩
        by_cases hz : inp.opt.maxHead = 0
        · exact Or.inl hz
        · right
          have := hbelow.1 hz
          omega
    · simp [hc]

end Kvass.Coord

namespace Kvass.Coord
open Kvass Kvass.Spec

/-- **observable C04, second clause**: a target nobody scraped that alone exceeds a limit is never
    handed to a shard — for every schedule -/
theorem noTooBig_cycle (swr : Swr) (sc : Sched) (inp : Input) (hok : SizesOK inp) :
    C04.noTooBig inp (Obs.ofOutcome (cycle swr sc inp)) = true := by
  unfold C04.noTooBig
  rw [List.all_eq_true]
  intro ⟨d, p, r⟩ hm
  obtain ⟨hp, hr⟩ := mem_shardsOf.mp hm
  simp only
  rcases reqs_cases swr sc inp hp with h1 | ⟨hne, s, hs, h2⟩
  · have : r = (getInfo p).2 := by
      have e : (Obs.ofOutcome (cycle swr sc inp)).reqs[d]? = (cycle swr sc inp).reqs[d]? := rfl
      rw [e, h1] at hr; exact (Option.some.inj hr).symm
    rw [this, postedBody_getInfo]
  · have : r = (getInfo p).2 ++ applyReqs inp.active p s := by
      have e : (Obs.ofOutcome (cycle swr sc inp)).reqs[d]? = (cycle swr sc inp).reqs[d]? := rfl
      rw [e, h2] at hr; exact (Option.some.inj hr).symm
    rw [this, postedBody_apply]
    by_cases hc : (s.changeable && needUpdate (p.status.getD []) (body inp.active s)) = true
    · simp only [hc, if_true]
      rw [List.all_eq_true]
      intro h hnew
      unfold C04.newOn at hnew
      rw [List.mem_filter] at hnew
      obtain ⟨hbk, _⟩ := hnew
      obtain ⟨hact, v, hv⟩ := mem_body_keys hbk
      have fp := cycle_fp swr sc inp hok hne
      have hs' : (cycle swr sc inp).cs.shards[d]? = some s := hs
      have hch : s.changeable = true := by
        cases hh : s.changeable with
        | true => rfl
        | false => simp [hh] at hc
      cases hfa : C04.isFirstAssign inp h with
      | false => simp
      | true =>
        simp only [Bool.not_true, Bool.false_or]
        cases he : inp.explore.get h with
        | none => rfl
        | some e =>
          simp only
          have hsm := fp.2.small d s h v hs' hv hfa
          rcases fp.2.vals d s h v hs' hch hv with ⟨x, px, r', h1', _, h3, _, _⟩ | hna | ⟨_, hev⟩
          · rw [firstAssign_none hfa px (List.mem_of_getElem? h1')] at h3; cases h3
          · exact absurd hact hna
          · obtain ⟨e1, e2⟩ := hev e he
            rw [← tooBig_congr inp.opt (w := e) e1 e2] at hsm
            have hnb := (not_congr (Sites.tooBig_iff inp.opt e)).mp (by rw [hsm]; simp)
            unfold C04.exceeds
            simp only [Bool.not_eq_true', Bool.or_eq_false_iff, Bool.and_eq_false_iff, bne_eq_false_iff_eq,
              decide_eq_false_iff_not]
            simp only [not_or, not_and] at hnb
            refine ⟨?_, hnb.2.2⟩
            by_cases hz : inp.opt.maxHead = 0
            · exact Or.inl hz
            · exact Or.inr (hnb.1 hz)
    · simp [hc]

end Kvass.Coord

namespace Kvass.Coord
open Kvass Kvass.Spec

/-! ### no scale-up for targets that can never be placed -/

theorem alleviate_disabled (swr : Swr) (o : Opt) (sc : Sched) (c : CS) (h : o.disableAlleviate = true) :
    alleviate swr o sc c = (c, {}) := by
  unfold alleviate Gen.allevDisabled
  simp [h]

theorem assignLoop_skipAll (o : Opt) (scr : List Hash) (glob : Hash → St) :
    ∀ (hs : List Hash) (c : CS) (picks : List Nat) (need : Space),
      (∀ h ∈ hs, scr.contains h = true ∨ Gen.assignSkip (glob h) = true ∨ Gen.tooBig o (glob h) = true) →
      assignLoop o scr glob hs c picks need = (c, picks, need) := by
  intro hs
  induction hs with
  | nil => intro c picks need _; rfl
  | cons h hs ih =>
    intro c picks need hall
    have hrest := ih c picks need (fun k hk => hall k (List.mem_cons_of_mem _ hk))
    unfold assignLoop
    split
    · rfl
    · rcases hall h List.mem_cons_self with h1 | h1 | h1
      · simp only [h1, if_true]; exact hrest
      · split
        · exact hrest
        · simp only [h1, if_true]; exact hrest
      · split
        · exact hrest
        · simp only
          split
          · exact hrest
          · exact hrest

/-- with relief off and every unscraped discovered target unplaceable, the assignment stage does nothing -/
theorem assign_nothing' (sc : Sched) (inp : Input) (hun : C04.onlyTooBigUnscraped inp = true)
    (c0 : CS) (hc0 : ProvInv inp c0) :
    assign inp.opt inp.active (globalOf (infos0 inp) inp.explore) sc c0 = (c0, sc.picks, {}) := by
  unfold assign
  apply assignLoop_skipAll
  intro h hm
  rw [mem_uniq, List.mem_filter] at hm
  have ha : h ∈ inp.active := by simpa using hm.2
  cases hc : (scrapingSetOf c0.shards).contains h with
  | true => exact Or.inl rfl
  | false =>
    right
    -- nobody holds it after gc, so nobody reported it
    have hfa : C04.isFirstAssign inp h = true := by
      cases hf : C04.isFirstAssign inp h with
      | true => rfl
      | false =>
        exfalso
        have hany : (inp.probes.any fun p => (reported p).has h) = true := by
          unfold C04.isFirstAssign at hf
          cases hh : (inp.probes.any fun p => (reported p).has h) with
          | true => rfl
          | false => simp [hh] at hf
        obtain ⟨p, hpm, hr⟩ := List.any_eq_true.mp hany
        obtain ⟨x, hx⟩ := List.getElem?_of_mem hpm
        obtain ⟨y, sy, hy, hgy⟩ := hc0.kept x p h hx hr ha
        cases hg : sy.scraping.get h with
        | none => exact hgy hg
        | some v =>
          rw [mem_scrapingSetOf hy hg] at hc
          cases hc
    unfold C04.onlyTooBigUnscraped at hun
    rw [List.all_eq_true] at hun
    have hh := hun h ha
    simp only [hfa, Bool.not_true, Bool.false_or] at hh
    cases he : inp.explore.get h with
    | none =>
      left
      rcases globalOf_cases (infos0 inp) inp.explore h with ⟨s, hs, hg⟩ | ⟨he', _⟩ | ⟨_, h0⟩
      · exfalso
        obtain ⟨d, hd⟩ := List.getElem?_of_mem hs
        obtain ⟨p, hp, rfl⟩ := infos0_get_some hd
        rw [getInfo_scraping, firstAssign_none hfa p (List.mem_of_getElem? hp)] at hg
        cases hg
      · rw [he] at he'; cases he'
      · rw [h0]; simp [Gen.assignSkip]
    | some e =>
      rw [globalOf_firstAssign inp h hfa e he]
      simp only [he, Bool.or_eq_true, bne_iff_ne, ne_eq] at hh
      rcases hh with hh | hh
      · left; rw [Sites.assignSkip_iff]; exact hh
      · right
        rw [Sites.tooBig_iff]
        unfold C04.exceeds at hh
        simp only [Bool.or_eq_true, Bool.and_eq_true, bne_iff_ne, ne_eq, decide_eq_true_eq] at hh
        rcases hh with ⟨h1, h2⟩ | h3
        · exact Or.inl ⟨h1, h2⟩
        · exact Or.inr (Or.inr h3)

theorem assign_nothing (sc : Sched) (inp : Input) (hun : C04.onlyTooBigUnscraped inp = true) :
    assign inp.opt inp.active (globalOf (infos0 inp) inp.explore) sc (startCS inp) = (startCS inp, sc.picks, {}) :=
  assign_nothing' sc inp hun (startCS inp) (provInv_start inp)

end Kvass.Coord

namespace Kvass.Coord
open Kvass Kvass.Spec

theorem earlyScales_le (inp : Input) (k : Int) (hk : k ∈ earlyScales inp) : k ≤ inp.opt.minShard := by
  unfold earlyScales at hk
  split at hk
  · simp only [List.mem_singleton] at hk
    subst hk; unfold Gen.earlyTo; exact Int.le_refl _
  · cases hk

theorem clamp_le (o : Opt) (k n : Int) (hk : k ≤ n) : clamp o k ≤ n ∨ clamp o k ≤ o.minShard := by
  unfold clamp Gen.clampMax Gen.clampMaxTo Gen.clampMin Gen.clampMinTo
  simp only [decide_eq_true_eq]
  split <;> split <;> omega

/-- **observable C04, third clause**: with relief off, targets that alone exceed a limit never make
    the coordinator ask for more shards than there are (or than the configured minimum) -/
theorem noScaleUp_cycle (swr : Swr) (sc : Sched) (inp : Input) :
    C04.noScaleUpForTooBig inp (Obs.ofOutcome (cycle swr sc inp)) = true := by
  unfold C04.noScaleUpForTooBig
  cases hpre : (inp.opt.disableAlleviate && C04.onlyTooBigUnscraped inp) with
  | false => simp
  | true =>
    simp only [Bool.not_true, Bool.false_or]
    simp only [Bool.and_eq_true] at hpre
    obtain ⟨hda, hun⟩ := hpre
    rw [List.all_eq_true]
    intro k hk
    have hk' : k ∈ (cycle swr sc inp).scales := hk
    simp only [Bool.or_eq_true, decide_eq_true_eq]
    cases hne : stopsEarly inp with
    | true =>
      rcases cycle_scales swr sc inp _ rfl with ⟨hs, _⟩ | ⟨_, _, _, hf, _⟩
      · rw [hs] at hk'; exact Or.inr (earlyScales_le inp k hk')
      · rw [hne] at hf; cases hf
    | false =>
      rw [cycle_eq_finish swr sc inp hne, alleviate_disabled swr inp.opt sc _ hda] at hk'
      simp only at hk'
      rw [assign_nothing sc inp hun] at hk'
      simp only at hk'
      have hz : Gen.needUp (Gen.spaceIsZero (spaceAdd {} {})) = false := by decide
      have hlen : (startCS inp).shards.length = inp.probes.length := by
        have inv := gc_inv inp.opt inp.active (infos0 inp)
        show (gc inp.opt inp.active (infos0 inp)).length = _
        rw [inv.len, infos0_length]
      unfold finish at hk'
      simp only [hz, Bool.false_eq_true, if_false] at hk'
      have hfin : ∀ (x : Int), x ≤ (inp.probes.length : Int) → k ∈ earlyScales inp ++ [Gen.finalScaleArg (clamp inp.opt x)] →
          k ≤ (inp.probes.length : Int) ∨ k ≤ inp.opt.minShard := by
        intro x hx hm
        simp only [List.mem_append, List.mem_singleton] at hm
        rcases hm with hm | hm
        · exact Or.inr (earlyScales_le inp k hm)
        · subst hm
          unfold Gen.finalScaleArg
          exact clamp_le _ _ _ hx
      split at hk'
      · exact Or.inr (earlyScales_le inp k hk')
      · cases hsd : Gen.scaleDownOn inp.opt with
        | true =>
          simp only [hsd, if_true] at hk'
          split at hk'
          · exact Or.inr (earlyScales_le inp k hk')
          · apply hfin _ _ hk'
            unfold tryScaleDown
            simp only
            have := removableSuffix_le (startCS inp).shards (startCS inp).shards.length
            omega
        | false =>
          simp only [hsd, Bool.false_eq_true, if_false] at hk'
          split at hk'
          · exact Or.inr (earlyScales_le inp k hk')
          · apply hfin _ _ hk'
            unfold Gen.scaleInit; omega

end Kvass.Coord

namespace Kvass.Coord
open Kvass Kvass.Spec

theorem sizesOK_sound (inp : Input) (h : C04.sizesOK inp = true) : SizesOK inp := by
  unfold C04.sizesOK at h
  simp only [Bool.and_eq_true, List.all_eq_true, decide_eq_true_eq] at h
  constructor
  · intro p hp k v hg
    exact h.1 p hp (k, v) (get_some_mem _ _ _ hg)
  · intro k e hg
    exact h.2 (k, e) (get_some_mem _ _ _ hg)

/-- **C04, observable form**: the monitored predicate holds of every outcome of `Coord.cycle` -/
theorem ok_cycle (swr : Swr) (sc : Sched) (inp : Input) (hok : C04.sizesOK inp = true) :
    C04.ok inp (Obs.ofOutcome (cycle swr sc inp)) = true := by
  unfold C04.ok
  rw [fits_cycle swr sc inp (sizesOK_sound inp hok), noTooBig_cycle swr sc inp (sizesOK_sound inp hok),
    noScaleUp_cycle swr sc inp]
  rfl

end Kvass.Coord
