/-
  Closed loop, glue: after a delivered update the sidecar's report *is* the coordinator's plan for
  that shard (keys and states), with the statistics the sidecar had.  Ties the request theorems of
  `Coord.cycle` to `Sidecar.update`, i.e. to what the shards will report in the next cycle.
-/
import Kvass.Model.Loop
import Kvass.Proofs.Sidecar
import Kvass.Proofs.CoordQuiet
import Kvass.Proofs.CoordProv
import Kvass.Proofs.LoopStable

namespace Kvass.AL
variable {α : Type}

/-- looking a key up in a list filtered by a predicate on keys -/
theorem get_filter_key (m : AL α) (pk : Hash → Bool) (h : Hash) :
    get (m.filter fun p => pk p.1) h = if pk h then get m h else none := by
  induction m with
  | nil => simp [get]
  | cons e m ih =>
    obtain ⟨k, x⟩ := e
    by_cases hp : pk k = true
    · rw [List.filter_cons_of_pos (by simpa using hp)]
      by_cases hk : k = h
      · subst hk; simp [get, hp]
      · simp [get, hk, ih]
    · have hp' : pk k = false := by simpa using hp
      rw [List.filter_cons_of_neg (by simpa using hp')]
      by_cases hk : k = h
      · subst hk; simp [get, hp', ih]
      · simp [get, hk, ih]

end Kvass.AL

namespace Kvass.Loop
open Kvass Kvass.Coord Kvass.Sidecar

theorem planned_get (active : List Hash) (s : SI) (h : Hash) :
    (planned active s).get h = if active.contains h then s.scraping.get h else none := by
  unfold planned
  exact AL.get_filter_key s.scraping (fun k => active.contains k) h

theorem tgtsOf_hashes (active : List Hash) (s : SI) : (tgtsOf active s).map (·.hash) = (planned active s).keys := by
  unfold tgtsOf AL.keys
  simp [List.map_map, Function.comp_def]

theorem planned_keys_nodup (active : List Hash) (s : SI) (hn : s.scraping.keys.Nodup) : (planned active s).keys.Nodup := by
  unfold planned AL.keys
  exact (List.Nodup.sublist (List.Sublist.map _ List.filter_sublist) hn)

/-- a key occurs once in the request -/
theorem tgtsOf_once (active : List Hash) (s : SI) (hn : s.scraping.keys.Nodup) (t : Tgt) (ht : t ∈ tgtsOf active s) :
    ((tgtsOf active s).filter fun u => u.hash == t.hash).length = 1 := by
  have hnd : ((tgtsOf active s).map (·.hash)).Nodup := by rw [tgtsOf_hashes]; exact planned_keys_nodup active s hn
  generalize tgtsOf active s = ts at ht hnd
  induction ts with
  | nil => cases ht
  | cons u us ih =>
    simp only [List.map_cons, List.nodup_cons] at hnd
    rcases List.mem_cons.mp ht with rfl | hm
    · have : (us.filter fun u => u.hash == t.hash) = [] := by
        rw [List.filter_eq_nil_iff]
        intro x hx hxe
        exact hnd.1 (List.mem_map.mpr ⟨x, hx, by simpa using hxe⟩)
      simp [List.filter_cons, this]
    · have hne : (u.hash == t.hash) = false := by
        cases hb : (u.hash == t.hash) with
        | false => rfl
        | true =>
          exfalso
          exact hnd.1 (List.mem_map.mpr ⟨t, hm, (by simpa using hb : u.hash = t.hash).symm⟩)
      simp only [List.filter_cons, hne, Bool.false_eq_true, if_false]
      exact ih hm hnd.2

end Kvass.Loop

namespace Kvass.Loop
open Kvass Kvass.Coord Kvass.Sidecar

/-- the request entry built for a planned `(h, v)` -/
def tgtOf (h : Hash) (v : St) : Tgt := ⟨h, v.series, 0, v.state, h % 2⟩

/-- **the report after a delivered update is the plan**: the sidecar reports exactly the planned
    keys, each in the planned state; statistics are those it had for the target (scrape count
    restarted when the target just went into transfer), a new target starts at the planned series -/
theorem update_report (active : List Hash) (sh : Shard) (fin : SI) (hn : fin.scraping.keys.Nodup) :
    (∀ h, h ∈ (statusOf ⟨Sidecar.update sh.clock sh.sc (tgtsOf active fin), sh.clock + 1⟩).keys ↔
        h ∈ (planned active fin).keys) ∧
    ∀ h v, (planned active fin).get h = some v →
      (statusOf ⟨Sidecar.update sh.clock sh.sc (tgtsOf active fin), sh.clock + 1⟩).get h =
        some (stOf (entry sh.sc.status (tgtOf h v))) := by
  constructor
  · intro h
    unfold statusOf Sidecar.update
    simp only
    rw [AL.keys_map, updStatus_keys, tgtsOf_hashes]
  · intro h v hv
    unfold statusOf Sidecar.update
    simp only
    rw [AL.get_map]
    have hm : tgtOf h v ∈ tgtsOf active fin := by
      unfold tgtsOf
      exact List.mem_map.mpr ⟨(h, v), get_some_mem _ _ _ hv, rfl⟩
    have := updStatus_get sh.sc.status (tgtsOf active fin) (tgtOf h v) hm (tgtsOf_once active fin hn _ hm)
    have e : (tgtOf h v).hash = h := rfl
    rw [e] at this
    rw [this]; rfl

/-- what `entry` keeps -/
theorem entry_state (old : AL SS) (t : Tgt) : (entry old t).state = t.state := by
  unfold entry; split <;> rfl

theorem stOf_state (s : SS) : (stOf s).state = s.state := rfl

/-- corollary used in closed-loop arguments: the next report has the planned state -/
theorem update_report_state (active : List Hash) (sh : Shard) (fin : SI) (hn : fin.scraping.keys.Nodup)
    (h : Hash) (v : St) (hv : (planned active fin).get h = some v) :
    ∃ r, (statusOf ⟨Sidecar.update sh.clock sh.sc (tgtsOf active fin), sh.clock + 1⟩).get h = some r ∧
      r.state = v.state := by
  refine ⟨_, (update_report active sh fin hn).2 h v hv, ?_⟩
  rw [stOf_state, entry_state]; rfl

end Kvass.Loop

namespace Kvass.Loop
open Kvass Kvass.Coord Kvass.Spec

/-- in a nodup list that is contained in a list which is not longer, the containment is an equality of sets -/
theorem subset_of_nodup_length : ∀ (A B : List Hash), A.Nodup → (∀ a ∈ A, a ∈ B) → B.length ≤ A.length → ∀ b ∈ B, b ∈ A := by
  intro A
  induction A with
  | nil =>
    intro B _ _ hl b hb
    have : B = [] := List.length_eq_zero_iff.mp (by simpa using hl)
    subst this; cases hb
  | cons a as ih =>
    intro B hnd hsub hl b hb
    have hnd' := List.nodup_cons.mp hnd
    obtain ⟨B1, B2, rfl⟩ := List.append_of_mem (hsub a List.mem_cons_self)
    by_cases hba : b = a
    · subst hba; exact List.mem_cons_self
    · refine List.mem_cons_of_mem _ (ih (B1 ++ B2) hnd'.2 ?_ ?_ b ?_)
      · intro x hx
        have hxB := hsub x (List.mem_cons_of_mem _ hx)
        rcases List.mem_append.mp hxB with h1 | h1
        · exact List.mem_append_left _ h1
        · rcases List.mem_cons.mp h1 with h2 | h2
          · subst h2; exact absurd hx hnd'.1
          · exact List.mem_append_right _ h2
      · simp only [List.length_append, List.length_cons] at hl ⊢; omega
      · rcases List.mem_append.mp hb with h1 | h1
        · exact List.mem_append_left _ h1
        · rcases List.mem_cons.mp h1 with h2 | h2
          · exact absurd h2 hba
          · exact List.mem_append_right _ h2

/-- when no update is needed the report already is the plan -/
theorem noUpdate_report (reported : AL St) (active : List Hash) (fin : SI)
    (hpn : (planned active fin).keys.Nodup)
    (hnu : needUpdate reported (body active fin) = false) :
    (∀ h, h ∈ reported.keys ↔ h ∈ (planned active fin).keys) ∧
    ∀ h v, (planned active fin).get h = some v → ∃ r, reported.get h = some r ∧ r.state = v.state := by
  have hent := needUpdate_false_entry hnu
  have hlen : (body active fin).length = reported.length := by
    unfold needUpdate at hnu
    rw [Bool.or_eq_false_iff] at hnu
    have h1 := hnu.1
    have : ¬ (Gen.needUpdateLen ((body active fin).length : Int) (reported.length : Int) = true) := by simp [h1]
    rw [Sites.needUpdateLen_iff] at this
    simp only [not_or, Decidable.not_not] at this
    exact_mod_cast this.1
  have hsub : ∀ k ∈ (planned active fin).keys, k ∈ reported.keys := by
    intro k hk
    obtain ⟨v, hv⟩ := AL.mem_keys_get _ _ hk
    have hb : (k, v.state, v.series) ∈ body active fin := by
      unfold body
      exact List.mem_map.mpr ⟨(k, v), get_some_mem _ _ _ hv, rfl⟩
    obtain ⟨r, hr, _⟩ := hent _ hb
    exact AL.get_some_mem_keys _ _ _ hr
  constructor
  · intro h
    constructor
    · intro hh
      refine subset_of_nodup_length _ _ hpn hsub ?_ h hh
      have : (planned active fin).keys.length = (body active fin).length := by
        unfold body AL.keys; simp
      unfold AL.keys at this ⊢
      simp only [List.length_map] at this ⊢
      omega
    · exact hsub h
  · intro h v hv
    have hb : (h, v.state, v.series) ∈ body active fin := by
      unfold body
      exact List.mem_map.mpr ⟨(h, v), get_some_mem _ _ _ hv, rfl⟩
    obtain ⟨r, hr, hst⟩ := hent _ hb
    exact ⟨r, hr, hst⟩

end Kvass.Loop

namespace Kvass.Loop
open Kvass Kvass.Coord Kvass.Spec

theorem reported_keys_statusOf (sh : Shard) : (statusOf sh).keys = sh.sc.status.keys := by
  unfold statusOf; rw [AL.keys_map]

/-- **closed loop, one fault-free cycle: the reports follow the plan.**  After the requests of a
    full, crash-free cycle have been delivered, every running sidecar reports exactly the keys the
    coordinator planned for it, each in the planned state — whether or not it had to be sent an
    update.  (What the next cycle will see is what this cycle decided.) -/
theorem applyOutcome_report (swr : Swr) (env : Env) (w : World) (sc : Sched)
    (hrep : w.replicas ≤ w.shards.length)
    (hne : stopsEarly (inputOf env w [] false) = false)
    (hnc : (cycle swr sc (inputOf env w [] false)).crashed = false)
    (hnd : ∀ sh ∈ w.running, (statusOf sh).keys.Nodup) :
    ∀ (i : Nat) (sh : Shard), w.running[i]? = some sh →
      ∃ (fin : SI) (sh' : Shard), (cycle swr sc (inputOf env w [] false)).final[i]? = some fin ∧
        (applyOutcome w [] (cycle swr sc (inputOf env w [] false))).shards[i]? = some sh' ∧
        (∀ h, h ∈ (statusOf sh').keys ↔ h ∈ (planned w.active fin).keys) ∧
        (∀ h v, (planned w.active fin).get h = some v → ∃ r, (statusOf sh').get h = some r ∧ r.state = v.state) := by
  intro i sh hrun
  have hrl := running_length w hrep
  have hp := inputOf_probe env w i sh hrun
  have hilt : i < w.replicas := by
    have := List.getElem?_eq_some_iff.mp hrun
    obtain ⟨hl, _⟩ := this
    rw [hrl] at hl; exact hl
  -- distinct keys in every report of the input
  have hndI : ∀ p ∈ (inputOf env w [] false).probes, (reported p).keys.Nodup := by
    intro p hpm
    obtain ⟨k, hk⟩ := List.getElem?_of_mem hpm
    have hkl : k < w.running.length := by
      have := (List.getElem?_eq_some_iff.mp hk).1
      rw [inputOf_probes_length] at this; exact this
    have hrk : w.running[k]? = some w.running[k] := by simp [hkl]
    have := inputOf_probe env w k _ hrk
    rw [hk] at this
    cases this
    rw [reported_probeOf]
    exact hnd _ (List.mem_of_getElem? hrk)
  -- the requests of shard i: reads, then its plan
  rcases reqs_cases swr sc (inputOf env w [] false) hp with h1 | ⟨_, fin, hfin, h2⟩
  · exfalso
    rcases cycle_reqs swr sc (inputOf env w [] false) _ rfl with ⟨_, _, hrq⟩ | ⟨hbad, _⟩
    · -- full cycle: shard i (in sync) got at least the extra-config push
      have grow := cycle_grows swr sc (inputOf env w [] false) hne
      have inv := gc_inv (inputOf env w [] false).opt (inputOf env w [] false).active (infos0 (inputOf env w [] false))
      have h0 : (infos0 (inputOf env w [] false))[i]? = some (getInfo (probeOf env sh {})).1 := by
        rw [infos0_get, hp]; rfl
      have hlen : (cycle swr sc (inputOf env w [] false)).final.length = (infos0 (inputOf env w [] false)).length := by
        have := grow.1; unfold Outcome.cs at this; simp only at this; rw [this, inv.len]
      obtain ⟨fin, hfin⟩ := getElem?_of_length_eq hlen h0
      have hch := final_changeable swr sc (inputOf env w [] false) hne hp hfin
      rw [probeOf_inSync] at hch
      have hz : ((inputOf env w [] false).probes.zip (cycle swr sc (inputOf env w [] false)).final)[i]? =
          some (probeOf env sh {}, fin) := List.getElem?_zip_eq_some.mpr ⟨hp, hfin⟩
      have hap : (((inputOf env w [] false).probes.zip (cycle swr sc (inputOf env w [] false)).final).map
          fun x => applyReqs (inputOf env w [] false).active x.1 x.2)[i]?
          = some (applyReqs (inputOf env w [] false).active (probeOf env sh {}) fin) := by
        rw [List.getElem?_map, hz]; rfl
      have hg1 : (getReqsOf (inputOf env w [] false))[i]? = some (getInfo (probeOf env sh {})).2 := by
        rw [getReqsOf_get, hp]; rfl
      rw [hrq, zipmap_get _ _ _ i _ _ hg1 hap] at h1
      have hlen2 := congrArg List.length (Option.some.inj h1)
      simp only [List.length_append] at hlen2
      have : (applyReqs (inputOf env w [] false).active (probeOf env sh {}) fin).length = 0 := by omega
      unfold applyReqs at this
      simp only [hch, Bool.not_true, Bool.false_eq_true, if_false] at this
      split at this
      · split at this <;> simp at this
      · simp at this
    · rcases hbad with hb | hb
      · rw [hnc] at hb; cases hb
      · rw [hne] at hb; cases hb
  · have hch := final_changeable swr sc (inputOf env w [] false) hne hp hfin
    rw [probeOf_inSync] at hch
    have hnodup := cycle_nodup swr sc (inputOf env w [] false) hne hndI
    have hfn : fin.scraping.keys.Nodup := hnodup i fin hfin
    have hact : (inputOf env w [] false).active = w.active := rfl
    rw [hact] at h2
    refine ⟨fin, ?_⟩
    -- shard i after the requests
    have hsh' : (applyOutcome w [] (cycle swr sc (inputOf env w [] false))).shards[i]? =
        some (applyShard w.active sh {} ((getInfo (probeOf env sh {})).2 ++ applyReqs w.active (probeOf env sh {}) fin) fin) := by
      unfold applyOutcome
      simp only
      rw [List.getElem?_append_left (by simp [List.length_zipIdx, hrl, hilt])]
      rw [List.getElem?_map]
      have hz : w.running.zipIdx[i]? = some (sh, i) := by rw [List.getElem?_zipIdx, hrun]; simp
      rw [hz]
      simp only [Option.map_some, h2, hfin, faultAt_nil]
    refine ⟨_, hfin, hsh', ?_⟩
    -- did it get an update?
    unfold applyShard
    have hnoPostInfo : (getInfo (probeOf env sh {})).2.any isPost = false := by
      rw [List.any_eq_false]
      intro q hq
      have := (getInfo_noPost (probeOf env sh {}) q hq).1
      cases q <;> simp_all [isPost, C08.isPostT]
    have hstat : (probeOf env sh {}).status.getD [] = statusOf sh := by
      unfold probeOf; simp
    cases hnu : needUpdate (statusOf sh) (body w.active fin) with
    | true =>
      have hany : ((getInfo (probeOf env sh {})).2 ++ applyReqs w.active (probeOf env sh {}) fin).any isPost = true := by
        rw [List.any_append, hnoPostInfo, Bool.false_or]
        unfold applyReqs
        simp only [hch, Bool.not_true, Bool.false_eq_true, if_false, hstat, hnu, if_true]
        split <;> simp [isPost]
      simp only [hany, Bool.true_and]
      have hpl : (({} : Fault).postLost) = false := rfl
      simp only [hpl, Bool.not_false, if_true]
      have hr := update_report w.active sh fin hfn
      exact ⟨hr.1, fun h v hv => update_report_state w.active sh fin hfn h v hv⟩
    | false =>
      have hany : ((getInfo (probeOf env sh {})).2 ++ applyReqs w.active (probeOf env sh {}) fin).any isPost = false := by
        rw [List.any_append, hnoPostInfo, Bool.false_or]
        unfold applyReqs
        simp only [hch, Bool.not_true, Bool.false_eq_true, if_false, hstat, hnu]
        simp [isPost]
      simp only [hany, Bool.false_and, Bool.false_eq_true, if_false]
      exact noUpdate_report (statusOf sh) w.active fin (planned_keys_nodup w.active fin hfn) hnu

end Kvass.Loop
