/-
  Shape of the state through a cycle: number of shards and their `changeable` flags never change,
  and no stage after gcTargets removes a key from a shard (they only add or overwrite).
-/
import Kvass.Proofs.CoordInv
import Kvass.Proofs.CoordGc

namespace Kvass.Coord
open Kvass

/-- relative to a reference state `ss1`: same length, same flags, keys only grow -/
def Grows (ss1 : List SI) (c : CS) : Prop :=
  c.shards.length = ss1.length ∧
  ∀ (i : Nat) (s1 : SI), ss1[i]? = some s1 → ∃ s : SI, c.shards[i]? = some s ∧
    s.changeable = s1.changeable ∧ (∀ h v, s1.scraping.get h = some v → ∃ v', s.scraping.get h = some v')

theorem grows_refl (ss : List SI) (log : List Placement) (cr : Bool) : Grows ss ⟨ss, log, cr⟩ :=
  ⟨rfl, fun _ s1 h => ⟨s1, h, rfl, fun _ v hv => ⟨v, hv⟩⟩⟩

theorem get_set_some {α} (m : AL α) (h k : Hash) (x v : α) (hg : m.get k = some v) :
    ∃ v', (m.set h x).get k = some v' := by
  rw [AL.get_set]
  split
  · exact ⟨x, rfl⟩
  · exact ⟨v, hg⟩

theorem grows_transfer {ss1 : List SI} (k : Nat) (c : CS) (i j : Nat) (h : Hash)
    (hc : Grows ss1 c) : Grows ss1 (transfer k c i j h) := by
  unfold transfer
  split
  · rename_i f t hf ht
    split
    · exact hc
    · rename_i tar htar
      refine ⟨by simp [List.length_set]; exact hc.1, ?_⟩
      intro i' s1 hs1
      obtain ⟨s, hs, hch, hk⟩ := hc.2 i' s1 hs1
      simp only
      by_cases hi : i = i'
      · subst hi
        obtain ⟨b', hb'⟩ := getElem?_set_some (j := j) (a := ({ t with
          rt := { t.rt with proc := Gen.transferProc t.rt tar, head := Gen.transferHead t.rt tar },
          scraping := t.scraping.set h tar } : SI)) hf
        rw [hf] at hs; cases hs
        refine ⟨_, getElem?_set_self' hb', hch, ?_⟩
        intro k' v hv
        obtain ⟨v', hv'⟩ := hk k' v hv
        exact get_set_some _ _ _ _ _ hv'
      · rw [getElem?_set_ne' hi]
        by_cases hj : j = i'
        · subst hj
          rw [ht] at hs; cases hs
          refine ⟨_, getElem?_set_self' ht, hch, ?_⟩
          intro k' v hv
          obtain ⟨v', hv'⟩ := hk k' v hv
          exact get_set_some _ _ _ _ _ hv'
        · rw [getElem?_set_ne' hj]
          exact ⟨s, hs, hch, hk⟩
  · exact hc

theorem grows_place {ss1 : List SI} (k : Nat) (c : CS) (j : Nat) (h : Hash) (st : St)
    (hc : Grows ss1 c) : Grows ss1 (place k c j h st) := by
  unfold place
  split
  · exact hc
  · rename_i t ht
    refine ⟨by simp [List.length_set]; exact hc.1, ?_⟩
    intro i' s1 hs1
    obtain ⟨s, hs, hch, hk⟩ := hc.2 i' s1 hs1
    simp only
    by_cases hj : j = i'
    · subst hj
      rw [ht] at hs; cases hs
      refine ⟨_, getElem?_set_self' ht, hch, ?_⟩
      intro k' v hv
      obtain ⟨v', hv'⟩ := hk k' v hv
      exact get_set_some _ _ _ _ _ hv'
    · rw [getElem?_set_ne' hj]
      exact ⟨s, hs, hch, hk⟩

theorem grows_presA (o : Opt) (glob : Hash → St) (ss1 : List SI) : PresA o glob (Grows ss1) where
  transfer := fun k c i j h hc _ => grows_transfer k c i j h hc
  crash := fun _ hc => hc
  place := fun c j h hc _ => grows_place 0 c j h _ hc

/-- reported shard infos -/
def infos0 (inp : Input) : List SI := (inp.probes.map getInfo).map (·.1)

theorem cycle_grows (swr : Swr) (sc : Sched) (inp : Input) (hne : stopsEarly inp = false) :
    Grows (gc inp.opt inp.active (infos0 inp)) (cycle swr sc inp).cs :=
  cycle_pres swr sc inp (grows_presA _ _ _) (grows_refl _ _ _) hne

end Kvass.Coord
