/-
  Recovery in one cycle: when nothing has to move (no relief trigger, every discovered target is
  held by someone, scale-down off), a cycle is exactly `gcTargets`; and on shards without duplicates
  `gcTargets` turns every in-transfer copy (scraped three times) back to normal.  Hence, in the closed
  loop, a state that a lost hand-over partner left behind is converged again after one fault-free cycle.
-/
import Kvass.Proofs.LoopStep

namespace Kvass.Coord
open Kvass Kvass.Spec

/-! ### `gcTargets` on shards without duplicates -/

/-- an in-transfer entry goes back to normal, a normal one stays -/
def revSt (v : St) : St := if v.state = .inTransfer then revertSt v else v

theorem revSt_state (v : St) : (revSt v).state = .normal := by
  unfold revSt
  split
  · rfl
  · cases hs : v.state with
    | normal => rfl
    | inTransfer => rename_i h; exact absurd hs h

theorem gc_single (o : Opt) (active : List Hash) (ss0 : List SI)
    (hnd0 : ∀ (k : Nat) (s : SI), ss0[k]? = some s → s.scraping.keys.Nodup)
    (hsingle : SingleSS ss0)
    (hact : ∀ (i : Nat) (s : SI) (h : Hash) (v : St), ss0[i]? = some s → s.scraping.get h = some v → active.contains h = true)
    (hold : ∀ (i : Nat) (s : SI) (h : Hash) (v : St), ss0[i]? = some s → s.scraping.get h = some v →
      v.state = .inTransfer → 3 ≤ v.times)
    (hall : ∀ (i : Nat) (s : SI), ss0[i]? = some s → s.changeable = true) :
    ∀ k h, entry (gc o active ss0) k h = (entry ss0 k h).map revSt := by
  let J : Nat → List SI → Prop := fun a ss =>
    ∀ k h, entry ss k h = if k < a then (entry ss0 k h).map revSt else entry ss0 k h
  have hJ : J ss0.length (gc o active ss0) := by
    apply gc_ind o active ss0 J hnd0
    · intro k h; simp
    · intro a ss ha fr hj
      obtain ⟨_, tother, tself⟩ := turn_spec o active ss0 ss a hnd0 fr
      intro k h
      by_cases hka : k = a
      · subst hka
        have hs : ss[k]? = ss0[k]? := fr.rest k (Nat.le_refl _)
        cases hs0 : ss0[k]? with
        | none =>
          have : ss[k]? = none := by rw [hs, hs0]
          have e1 : entry (turn o active ss k) k h = none := by
            unfold turn; rw [this]; unfold entry; rw [this]; rfl
          rw [e1]
          unfold entry; rw [hs0]; simp
        | some s =>
          have hss : ss[k]? = some s := by rw [hs, hs0]
          rw [tself s hss h]
          have hch := hall k s hs0
          simp only [hch, if_true, Nat.lt_succ_self]
          rw [entry_of hs0]
          cases hg : s.scraping.get h with
          | none => rfl
          | some tar =>
            simp only [Option.map_some]
            have hactive := hact k s h tar hs0 hg
            -- nobody else holds it
            have alone : ∀ (k' : Nat) (sk : SI) (st : St), k' ≠ k → ss[k']? = some sk → sk.scraping.get h = some st → False := by
              intro k' sk st hne hk' hst
              have e := hj k' h
              rw [entry_of hk', hst] at e
              have hne0 : entry ss0 k' h ≠ none := by
                intro hn
                rw [hn] at e
                split at e <;> simp at e
              unfold entry at hne0
              cases hk0 : ss0[k']? with
              | none => rw [hk0] at hne0; exact hne0 rfl
              | some s0' =>
                rw [hk0] at hne0
                have := hsingle k k' s s0' h hs0 hk0 (Ne.symm hne) (by rw [hg]; simp)
                exact hne0 this
            have hD : gcDecide o active ss k s h tar = false := by
              unfold gcDecide
              simp only [hactive, Bool.not_true, Bool.false_eq_true, if_false]
              split
              · rfl
              · cases ht : gcOtherTriggers o ss k s tar h with
                | false => rfl
                | true =>
                  obtain ⟨k', sk, st, hka, hk', _, hgk, _, _⟩ := (gcOtherTriggers_iff o ss k s tar h).mp ht
                  exact (alone k' sk st hka hk' hgk).elim
            have hheld : gcHeldElsewhere ss k h = false := by
              cases ht : gcHeldElsewhere ss k h with
              | false => rfl
              | true =>
                obtain ⟨k', sk, st, hka, hk', _, hgk⟩ := (gcHeldElsewhere_iff ss k h).mp ht
                exact (alone k' sk st hka hk' hgk).elim
            cases hst : tar.state with
            | normal =>
              have hR : gcReverts active ss k h tar = false := by
                unfold gcReverts Gen.gcRevert; simp [hst]
              have : revSt tar = tar := by unfold revSt; simp [hst]
              simp [gcOutcome, hD, hR, this]
            | inTransfer =>
              have h3 := hold k s h tar hs0 hg hst
              have hR : gcReverts active ss k h tar = true := by
                unfold gcReverts
                rw [hactive]
                simp [young_false h3, hheld, Gen.gcRevert, hst]
              have : revSt tar = revertSt tar := by unfold revSt; simp [hst]
              simp [gcOutcome, hD, hR, this]
      · rw [tother k h hka, hj k h]
        have : (k < a + 1) = (k < a) := by
          apply propext; constructor <;> intro hh <;> omega
        simp only [this]
  intro k h
  have := hJ k h
  by_cases hk : k < ss0.length
  · simpa [hk] using this
  · simp only [hk, if_false] at this
    rw [this]
    unfold entry
    rw [List.getElem?_eq_none (by omega)]
    rfl

end Kvass.Coord

namespace Kvass.Coord
open Kvass Kvass.Spec

/-! ### a cycle in which nothing has to move is exactly `gcTargets` -/

structure Calm (swr : Swr) (inp : Input) : Prop where
  calm : inp.opt.disableAlleviate = true ∨ CalmSS swr inp.opt (gc inp.opt inp.active (infos0 inp))
  placed : ∀ h ∈ inp.active, (scrapingSetOf (gc inp.opt inp.active (infos0 inp))).contains h = true ∨
    Gen.assignSkip (globalOf (infos0 inp) inp.explore h) = true ∨
    Gen.tooBig inp.opt (globalOf (infos0 inp) inp.explore h) = true
  minOk : inp.opt.minShard ≤ (inp.probes.length : Int)
  maxOk : (inp.probes.length : Int) ≤ inp.opt.maxShard
  noDown : inp.opt.idleOn = false

theorem calm_cycle (swr : Swr) (sc : Sched) (inp : Input) (q : Calm swr inp) :
    (cycle swr sc inp).crashed = false ∧
    (cycle swr sc inp).scales = [(inp.probes.length : Int)] ∧
    (cycle swr sc inp).final = gc inp.opt inp.active (infos0 inp) ∧
    stopsEarly inp = false := by
  have hal : alleviate swr inp.opt sc { shards := gc inp.opt inp.active (infos0 inp) } =
      ({ shards := gc inp.opt inp.active (infos0 inp) }, ⟨0, 0⟩) := alleviate_noop q.calm
  have has : assign inp.opt inp.active (globalOf (infos0 inp) inp.explore) sc { shards := gc inp.opt inp.active (infos0 inp) } =
      ({ shards := gc inp.opt inp.active (infos0 inp) }, sc.picks, {}) := by
    unfold assign
    apply assignLoop_noop rfl
    intro h hm
    rw [mem_uniq, List.mem_filter] at hm
    exact q.placed h (by simpa using hm.2)
  have hearly : Gen.earlyMin inp.opt ((infos0 inp).length : Int) (nChangeable (infos0 inp)) = false := by
    cases he : Gen.earlyMin inp.opt ((infos0 inp).length : Int) (nChangeable (infos0 inp)) with
    | false => rfl
    | true =>
      rw [Sites.earlyMin_iff, infos0_length] at he
      have := q.minOk; omega
  have hsd : Gen.scaleDownOn inp.opt = false := by
    cases h : Gen.scaleDownOn inp.opt with
    | false => rfl
    | true => rw [Sites.scaleDownOn_iff] at h; rw [q.noDown] at h; cases h
  have hlen : (gc inp.opt inp.active (infos0 inp)).length = inp.probes.length := by
    rw [(gc_inv inp.opt inp.active (infos0 inp)).len, infos0_length]
  have hclamp : ∀ k : Int, k = (inp.probes.length : Int) →
      (if Gen.clampMin inp.opt (if Gen.clampMax inp.opt k = true then Gen.clampMaxTo inp.opt else k) = true
        then Gen.clampMinTo inp.opt else (if Gen.clampMax inp.opt k = true then Gen.clampMaxTo inp.opt else k)) = k := by
    intro k hk
    have h1 : Gen.clampMax inp.opt k = false := by
      cases h : Gen.clampMax inp.opt k with
      | false => rfl
      | true => rw [Sites.clampMax_iff] at h; have := q.maxOk; omega
    simp only [h1, Bool.false_eq_true, if_false]
    have h2 : Gen.clampMin inp.opt k = false := by
      cases h : Gen.clampMin inp.opt k with
      | false => rfl
      | true => rw [Sites.clampMin_iff] at h; have := q.minOk; omega
    simp [h2]
  have hzero : Gen.needUp (Gen.spaceIsZero (spaceAdd ⟨0, 0⟩ {})) = false := by
    simp [Gen.needUp, Gen.spaceIsZero, spaceAdd, Gen.spaceAddHead, Gen.spaceAddProc]
  have hne : stopsEarly inp = false := by
    unfold stopsEarly
    have : Gen.earlyMin inp.opt (((inp.probes.map getInfo).map (·.1)).length : Int)
        (nChangeable ((inp.probes.map getInfo).map (·.1))) = false := hearly
    rw [this]; rfl
  refine ⟨?_, ?_, ?_, hne⟩
  all_goals
    unfold cycle
    unfold infos0 at *
    simp only [hearly, Bool.false_and, Bool.false_eq_true, if_false, hal, has, hzero, divCrash, Bool.and_false,
      Bool.or_false, hsd]
  · simp only [Sites.finalScaleArg_eq, List.nil_append]
    have hk : Gen.scaleInit ((gc inp.opt inp.active (List.map (fun x => x.fst) (List.map getInfo inp.probes))).length : Int)
        (nChangeable (gc inp.opt inp.active (List.map (fun x => x.fst) (List.map getInfo inp.probes)))) =
        (inp.probes.length : Int) := by rw [Sites.scaleInit_eq, hlen]
    generalize Gen.scaleInit _ _ = k at hk ⊢
    rw [hclamp k hk, hk]

end Kvass.Coord

namespace Kvass.Loop
open Kvass Kvass.Coord Kvass.Spec

/-- the residue of lost hand-overs, and otherwise nothing to do: no target is held twice, every held
    target is discovered, every copy in transfer has been scraped three times, no shard is
    overloaded, every discovered target is held (or cannot be placed), scale-down is off -/
structure Residue (swr : Swr) (env : Env) (w : World) : Prop where
  rep : w.replicas ≤ w.shards.length
  keys : ∀ sh ∈ w.running, (statusOf sh).keys.Nodup
  single : SingleSS (infos0 (inputOf env w [] false))
  active : ∀ sh ∈ w.running, ∀ h v, (statusOf sh).get h = some v → h ∈ w.active
  old : ∀ sh ∈ w.running, ∀ h v, (statusOf sh).get h = some v → v.state = .inTransfer → 3 ≤ v.times
  calm : env.opt.disableAlleviate = true ∨ CalmSS swr env.opt (infos0 (inputOf env w [] false))
  placed : ∀ h ∈ w.active, (scrapingSetOf (infos0 (inputOf env w [] false))).contains h = true ∨
    Gen.assignSkip (globalOf (infos0 (inputOf env w [] false)) w.explore h) = true ∨
    Gen.tooBig env.opt (globalOf (infos0 (inputOf env w [] false)) w.explore h) = true
  minOk : env.opt.minShard ≤ (w.replicas : Int)
  maxOk : (w.replicas : Int) ≤ env.opt.maxShard
  noDown : env.opt.idleOn = false

/-- a running shard of the input -/
theorem infos0_running (env : Env) (w : World) (i : Nat) (s : SI) (h : (infos0 (inputOf env w [] false))[i]? = some s) :
    ∃ sh, w.running[i]? = some sh ∧ s = ⟨true, rtOf env sh, statusOf sh⟩ := by
  rw [infos0_inputOf, List.getElem?_map] at h
  cases hr : w.running[i]? with
  | none => rw [hr] at h; cases h
  | some sh => rw [hr] at h; exact ⟨sh, rfl, (Option.some.inj h).symm⟩

theorem residue_gc (swr : Swr) (env : Env) (w : World) (r : Residue swr env w) :
    ∀ k h, entry (gc env.opt w.active (infos0 (inputOf env w [] false))) k h =
      (entry (infos0 (inputOf env w [] false)) k h).map revSt := by
  apply gc_single env.opt w.active _ _ r.single
  · intro i s h v hs hv
    obtain ⟨sh, hrun, rfl⟩ := infos0_running env w i s hs
    have := r.active sh (List.mem_of_getElem? hrun) h v hv
    simpa using this
  · intro i s h v hs hv hst
    obtain ⟨sh, hrun, rfl⟩ := infos0_running env w i s hs
    exact r.old sh (List.mem_of_getElem? hrun) h v hv hst
  · intro i s hs
    obtain ⟨sh, _, rfl⟩ := infos0_running env w i s hs
    rfl
  · intro i s hs
    obtain ⟨sh, hrun, rfl⟩ := infos0_running env w i s hs
    exact r.keys sh (List.mem_of_getElem? hrun)

theorem residue_calm (swr : Swr) (env : Env) (w : World) (r : Residue swr env w) : Calm swr (inputOf env w [] false) := by
  have hent := residue_gc swr env w r
  have inv := gc_inv env.opt w.active (infos0 (inputOf env w [] false))
  have hrl := running_length w r.rep
  have hpl : (inputOf env w [] false).probes.length = w.replicas := by rw [inputOf_probes_length, hrl]
  refine ⟨?_, ?_, ?_, ?_, r.noDown⟩
  · rcases r.calm with h | h
    · exact Or.inl h
    · right
      intro i s hs
      obtain ⟨s0, h0, _, hrt, _, _⟩ := inv.same i s hs
      rw [hrt]
      exact h i s0 h0
  · intro h ha
    rcases r.placed h ha with h1 | h1
    · left
      -- the gc'd shards hold the same keys
      unfold scrapingSetOf at h1
      simp only [List.contains_eq_mem, List.mem_flatten, List.mem_map, decide_eq_true_eq] at h1
      obtain ⟨ks, ⟨s, hs, rfl⟩, hk⟩ := h1
      obtain ⟨j, hj⟩ := List.getElem?_of_mem hs
      obtain ⟨v, hv⟩ := AL.mem_keys_get _ _ hk
      have e := hent j h
      rw [entry_of hj, hv] at e
      obtain ⟨sj, hsj, hgj⟩ := entry_some e
      exact mem_scrapingSetOf hsj hgj
    · exact Or.inr h1
  · show env.opt.minShard ≤ _
    rw [hpl]; exact r.minOk
  · show _ ≤ env.opt.maxShard
    rw [hpl]; exact r.maxOk

/-- **recovery in one cycle (closed-loop step)**: from the residue of lost hand-overs — copies in
    transfer whose partner is gone, in an otherwise settled system — one fault-free step of the closed
    loop leads to a state in which the StatefulSet has the same size and every running sidecar reports
    the same targets as before, all in normal state: nothing pending, nothing duplicated, nothing lost. -/
theorem loop_recovers (swr : Swr) (env : Env) (w : World) (sc : Sched) (r : Residue swr env w) :
    (step swr env w (.cycle sc [] false)).replicas = w.replicas ∧
    (step swr env w (.cycle sc [] false)).active = w.active ∧
    ∀ (i : Nat) (sh : Shard), w.running[i]? = some sh →
      ∃ sh', (step swr env w (.cycle sc [] false)).shards[i]? = some sh' ∧
        (∀ h, h ∈ (statusOf sh').keys ↔ h ∈ (statusOf sh).keys) ∧
        (∀ h v, (statusOf sh').get h = some v → v.state = .normal) := by
  have hc := residue_calm swr env w r
  obtain ⟨hnc, hscales, hfinal, hne⟩ := calm_cycle swr sc (inputOf env w [] false) hc
  have hent := residue_gc swr env w r
  have hrl := running_length w r.rep
  have hpl := inputOf_probes_length env w [] false
  -- the step is the delivery of the requests: the requested size is the current one
  have hw1len : (applyOutcome w [] (cycle swr sc (inputOf env w [] false))).shards.length = w.shards.length := by
    unfold applyOutcome
    simp only [List.length_append, List.length_map, List.length_zipIdx, List.length_drop]
    rw [hrl]; have := r.rep; omega
  have hstep : step swr env w (.cycle sc [] false) = applyOutcome w [] (cycle swr sc (inputOf env w [] false)) := by
    show (cycleStep swr env w sc [] false).1 = _
    unfold cycleStep
    simp only [Bool.false_eq_true, if_false, hscales, List.foldl_cons, List.foldl_nil]
    have hn : ((inputOf env w [] false).probes.length : Int).toNat =
        (applyOutcome w [] (cycle swr sc (inputOf env w [] false))).replicas := by
      rw [hpl, hrl]; unfold applyOutcome; simp
    rw [hn]
    apply resize_self
    rw [hw1len]
    unfold applyOutcome; simpa using r.rep
  rw [hstep]
  refine ⟨by unfold applyOutcome; rfl, by unfold applyOutcome; rfl, ?_⟩
  intro i sh hrun
  obtain ⟨fin, sh', hfin, hsh', hkeys, hst⟩ := applyOutcome_report swr env w sc r.rep hne hnc r.keys i sh hrun
  refine ⟨sh', hsh', ?_, ?_⟩
  -- the plan of shard i is its gc'd report: same keys, all normal
  all_goals
    have hact : (inputOf env w [] false).active = w.active := rfl
    have hopt : (inputOf env w [] false).opt = env.opt := rfl
    rw [hfinal, hact, hopt] at hfin
    have h0 : (infos0 (inputOf env w [] false))[i]? = some ⟨true, rtOf env sh, statusOf sh⟩ := by
      rw [infos0_inputOf, List.getElem?_map, hrun]; rfl
    have hplan : ∀ h, (planned w.active fin).get h = ((statusOf sh).get h).map revSt := by
      intro h
      rw [planned_get]
      have e := hent i h
      rw [entry_of hfin, entry_of h0] at e
      simp only at e
      cases hg : (statusOf sh).get h with
      | none => rw [hg] at e; simp [e]
      | some v =>
        rw [hg] at e
        have ha : w.active.contains h = true := by
          simpa using r.active sh (List.mem_of_getElem? hrun) h v hg
        rw [ha]; simpa using e
  · intro h
    rw [hkeys h, AL.mem_keys_iff, AL.mem_keys_iff, hplan h]
    cases (statusOf sh).get h <;> simp
  · intro h v hv
    have hk : h ∈ (planned w.active fin).keys := (hkeys h).mp (AL.get_some_mem_keys _ _ _ hv)
    obtain ⟨u, hu⟩ := AL.mem_keys_get _ _ hk
    obtain ⟨r', hr', hs'⟩ := hst h u hu
    rw [hv] at hr'; cases hr'
    rw [hs']
    rw [hplan h] at hu
    cases hg : (statusOf sh).get h with
    | none => rw [hg] at hu; cases hu
    | some v0 =>
      rw [hg] at hu
      simp only [Option.map_some, Option.some.injEq] at hu
      rw [← hu]; exact revSt_state v0

end Kvass.Loop
