/-
  C05, removal clause: an in-sync shard loses a still-discovered target only if it and another
  in-sync shard that keeps it have scraped it three times.  (proof; the property theorem is in
  Kvass/Props/C05.lean)
-/
import Kvass.Proofs.CoordKeep

namespace Kvass.Coord
open Kvass Kvass.Spec

/-- status lists come from JSON maps: one entry per hash -/
def NodupKeys (inp : Input) : Prop := ∀ p ∈ inp.probes, (reported p).keys.Nodup

theorem get_of_mem_nodup' {α} (m : AL α) (h : Hash) (v : α) (hm : (h, v) ∈ m) (hn : m.keys.Nodup) :
    m.get h = some v := by
  induction m with
  | nil => cases hm
  | cons e m ih =>
    obtain ⟨k, x⟩ := e
    simp only [AL.keys, List.map_cons, List.nodup_cons] at hn
    rcases List.mem_cons.mp hm with he | hm'
    · cases he; simp [AL.get]
    · have hk : k ≠ h := by
        intro e; subst e
        exact hn.1 (List.mem_map.mpr ⟨(k, v), hm', rfl⟩)
      simp only [AL.get, hk, if_false]
      exact ih hm' hn.2

/-- the surviving holder with the scrape counts of both sides -/
theorem holder_after (swr : Swr) (sc : Sched) (inp : Input) {i : Nat} {p : Probe} {h : Hash} {v : St}
    (hp : inp.probes[i]? = some p) (hin : inSync p = true) (hg : (reported p).get h = some v)
    (ha : h ∈ inp.active) :
    ∃ (j : Nat) (pj : Probe) (rj : List Req) (vj : St), inp.probes[j]? = some pj ∧
      (cycle swr sc inp).reqs[j]? = some rj ∧ inSync pj = true ∧
      (reported pj).get h = some vj ∧ h ∈ afterKeys pj rj ∧ (j = i ∨ (3 ≤ v.times ∧ 3 ≤ vj.times)) := by
  cases hne : stopsEarly inp with
  | true =>
    rcases reqs_cases swr sc inp hp with hr | ⟨hf, _⟩
    · refine ⟨i, p, _, v, hp, hr, hin, hg, ?_, Or.inl rfl⟩
      rw [afterKeys_noPost]; exact AL.get_some_mem_keys _ _ _ hg
    · rw [hne] at hf; cases hf
  | false =>
    obtain ⟨j, pj, sj, vj, v', hpj, hinj, hrep, hfin, _, hsj, htimes⟩ := survivor swr sc inp hne hp hin hg ha
    rcases reqs_cases swr sc inp hpj with hr | ⟨_, s, hs, hr⟩
    · refine ⟨j, pj, _, vj, hpj, hr, hinj, hrep, ?_, htimes⟩
      rw [afterKeys_noPost]; exact AL.get_some_mem_keys _ _ _ hrep
    · rw [hfin] at hs; cases hs
      exact ⟨j, pj, _, vj, hpj, hr, hinj, hrep, afterKeys_apply_mem _ _ _ _ _ _ hrep hsj ha, htimes⟩

theorem removal_cycle (swr : Swr) (sc : Sched) (inp : Input) (hnd : NodupKeys inp) :
    C05.removal inp (Obs.ofOutcome (cycle swr sc inp)) = true := by
  unfold C05.removal
  simp only [List.all_eq_true, Bool.or_eq_true, Bool.not_eq_true']
  rintro ⟨i, p, r⟩ hmem
  obtain ⟨hp, hr⟩ := mem_shardsOf.mp hmem
  simp only
  cases hin : inSync p with
  | false => exact Or.inl rfl
  | true =>
    right
    rintro ⟨h, st⟩ hst
    simp only
    have hg : (reported p).get h = some st :=
      get_of_mem_nodup' _ _ _ hst (hnd p (List.mem_of_getElem? hp))
    by_cases ha : h ∈ inp.active
    · obtain ⟨j, pj, rj, vj, hpj, hrj, hinj, hrep, hmemj, hor⟩ := holder_after swr sc inp hp hin hg ha
      by_cases hji : j = i
      · subst hji
        rw [hp] at hpj; cases hpj
        have : r = rj := by
          have h1 : (Obs.ofOutcome (cycle swr sc inp)).reqs[j]? = some rj := hrj
          rw [hr] at h1; exact Option.some.inj h1
        subst this
        exact Or.inl (Or.inl (by simpa using hmemj))
      · right
        rcases hor with e | ⟨h3, h3j⟩
        · exact absurd e hji
        · simp only [Bool.and_eq_true, decide_eq_true_eq, List.any_eq_true, C05.handover]
          refine ⟨by simpa using h3, (j, pj, rj), mem_shardsOf.mpr ⟨hpj, hrj⟩, ?_⟩
          simp only [bne_iff_ne, ne_eq, hrep]
          exact ⟨⟨⟨hji, hinj⟩, by simpa using hmemj⟩, by simpa using h3j⟩
    · exact Or.inl (Or.inr (by simpa using ha))


end Kvass.Coord
