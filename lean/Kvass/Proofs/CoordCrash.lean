/-
  Crash freedom of the cycle for every report a sidecar can produce (series ≥ 0) and
  max-process-series ≠ 0 (cmd/kvass refuses 0).
-/
import Kvass.Proofs.CoordKeep

namespace Kvass.Coord
open Kvass Kvass.Spec

theorem getFreeShard_no_crash {o : Opt} {ss : List SI} {n : Nat} {sp : Space} {picks picks' : List Nat}
    (hsp : 0 ≤ sp.head ∧ 0 ≤ sp.proc) : getFreeShard o ss n sp picks ≠ (.crash, picks') := by
  unfold getFreeShard
  split
  · simp
  · rename_i j js hc
    split
    · simp
    · simp only
      split
      · rename_i hany
        exfalso
        rw [List.any_eq_true] at hany
        obtain ⟨k, hk, hw⟩ := hany
        obtain ⟨s, hs, _, _, hfit⟩ := mem_candidates (o := o) (ss := ss) (n := n) (sp := sp) (hc ▸ hk)
        rw [hs] at hw
        simp only [decide_eq_true_eq] at hw
        have hf := (Sites.fit_iff o s.rt sp).mp hfit
        unfold weight at hw
        split at hw
        · rename_i hu
          have hne := (Sites.weightUseHead_iff o).mp hu
          rw [Sites.weightHead_eq] at hw
          rcases hf.1 with h0 | h1
          · exact hne h0
          · omega
        · rw [Sites.weightProc_eq] at hw
          omega
      · simp

theorem getFreeShard_firstFit_no_crash {o : Opt} {ss : List SI} {n : Nat} {sp : Space} {picks picks' : List Nat}
    (hff : Gen.firstFit o = true) : getFreeShard o ss n sp picks ≠ (.crash, picks') := by
  unfold getFreeShard
  split
  · simp
  · simp [hff]

theorem place_crashed (k : Nat) (c : CS) (j : Nat) (h : Hash) (st : St) :
    (place k c j h st).crashed = c.crashed := by
  unfold place; split <;> rfl

theorem assignLoop_crashed (o : Opt) (scr : List Hash) (glob : Hash → St)
    (hg : ∀ h, 0 ≤ (glob h).series ∧ 0 ≤ (glob h).total) :
    ∀ (hs : List Hash) (c : CS) (picks : List Nat) (need : Space), c.crashed = false →
      (assignLoop o scr glob hs c picks need).1.crashed = false := by
  intro hs
  induction hs with
  | nil => intro c picks need h; simpa [assignLoop] using h
  | cons h hs ih =>
    intro c picks need hc
    unfold assignLoop
    split
    · exact hc
    · split
      · exact ih c picks need hc
      · simp only
        split
        · exact ih c picks need hc
        · split
          · exact ih c picks need hc
          · split
            · apply ih; rw [place_crashed]; exact hc
            · exact ih c _ _ hc
            · rename_i picks' hcr
              exfalso
              refine getFreeShard_no_crash ?_ hcr
              rw [Sites.spaceOfHead_eq, Sites.spaceOfProc_eq]
              exact hg h

theorem sbiLoop_crashed (o : Opt) (i : Nat) (hff : Gen.firstFit o = true) :
    ∀ (hs : List Hash) (c : CS) (picks : List Nat), c.crashed = false →
      (sbiLoop o i hs c picks).1.crashed = false := by
  intro hs
  induction hs with
  | nil => intro c picks h; simpa [sbiLoop] using h
  | cons h hs ih =>
    intro c picks hc
    unfold sbiLoop
    split
    · exact hc
    · split
      · exact ih c picks hc
      · split
        · exact ih c picks hc
        · split
          · apply ih; rw [transfer_crashed]; exact hc
          · exact hc
          · rename_i picks' hcr
            exact absurd hcr (getFreeShard_firstFit_no_crash hff)

theorem sdLoop_crashed (o : Opt) (sc : Sched) (hff : Gen.firstFit o = true) :
    ∀ (k : Nat) (c : CS) (picks : List Nat), c.crashed = false → (sdLoop o sc k c picks).crashed = false := by
  intro k
  induction k with
  | zero => intro c picks h; simpa [sdLoop] using h
  | succ k ih =>
    intro c picks hc
    unfold sdLoop
    split
    · exact ih c picks hc
    · split
      · exact ih c picks hc
      · simp only
        split
        · exact hc
        · rename_i src _ _ _
          have := sbiLoop_crashed o (k + 1) hff
            (uniq ((orderFor sc.becomeIdle (k + 1)).filter src.scraping.keys.contains)) c picks hc
          generalize sbiLoop o (k + 1)
            (uniq ((orderFor sc.becomeIdle (k + 1)).filter src.scraping.keys.contains)) c picks = r at this
          obtain ⟨c', picks', ok⟩ := r
          simp only at this ⊢
          split
          · exact this
          · exact ih c' picks' this

/-- "not crashed" is preserved by relief (no crash path there) -/
theorem notCrashed_pres (o : Opt) : Pres o (fun c => c.crashed = false → c.crashed = false) :=
  ⟨fun _ _ _ _ _ _ _ h => h, fun _ _ h => h⟩

theorem apLoop_crashed (o : Opt) (i : Nat) (exp : Int) :
    ∀ (hs : List Hash) (c : CS) (total : Int), (apLoop o i exp hs c total).1.crashed = c.crashed := by
  intro hs
  induction hs with
  | nil => intro c total; simp [apLoop]
  | cons h hs ih =>
    intro c total
    unfold apLoop
    split
    · rfl
    · split
      · rfl
      · split
        · exact ih c total
        · split
          · exact ih c total
          · split
            · rfl
            · split
              · rw [ih, transfer_crashed]
              · exact ih c total

theorem ahLoop_crashed (o : Opt) (i : Nat) (exp : Int) :
    ∀ (hs : List Hash) (c : CS) (total : Int), (ahLoop o i exp hs c total).1.crashed = c.crashed := by
  intro hs
  induction hs with
  | nil => intro c total; simp [ahLoop]
  | cons h hs ih =>
    intro c total
    unfold ahLoop
    split
    · rfl
    · split
      · rfl
      · split
        · exact ih c total
        · split
          · exact ih c total
          · split
            · rfl
            · split
              · rw [ih, transfer_crashed]
              · exact ih c total

theorem allevProcShard_crashed (o : Opt) (exp : Int) (order : List Hash) (c : CS) (i : Nat) :
    (allevProcShard o exp order c i).1.crashed = c.crashed := by
  unfold allevProcShard
  split
  · rfl
  · simp only
    split
    · rfl
    · have := apLoop_crashed o i exp order c (loadProc ‹SI›)
      generalize apLoop o i exp order c (loadProc ‹SI›) = r at this
      obtain ⟨c', total', aborted⟩ := r
      simp only at this ⊢
      split
      · exact this
      · split <;> exact this

theorem allevHeadShard_crashed (o : Opt) (exp : Int) (order : List Hash) (c : CS) (i : Nat) :
    (allevHeadShard o exp order c i).1.crashed = c.crashed := by
  unfold allevHeadShard
  split
  · rfl
  · simp only
    split
    · rfl
    · have := ahLoop_crashed o i exp order c (loadHead ‹SI›)
      generalize ahLoop o i exp order c (loadHead ‹SI›) = r at this
      obtain ⟨c', total', aborted⟩ := r
      simp only at this ⊢
      split
      · exact this
      · split <;> exact this

theorem allevProcAll_crashed (swr : Swr) (o : Opt) (orders : List (List Hash)) :
    ∀ (is : List Nat) (c : CS) (need : Int), (allevProcAll swr o orders is c need).1.crashed = c.crashed := by
  intro is
  induction is with
  | nil => intro c need; simp [allevProcAll]
  | cons i is ih =>
    intro c need
    unfold allevProcAll
    split
    · exact ih c need
    · split
      · have := allevProcShard_crashed o (Gen.procExpect swr o) (orderFor orders i) c i
        generalize allevProcShard o (Gen.procExpect swr o) (orderFor orders i) c i = r at this
        obtain ⟨c', n⟩ := r
        simp only at this ⊢
        rw [ih, this]
      · exact ih c need

theorem allevHeadAll_crashed (swr : Swr) (o : Opt) (orders : List (List Hash)) :
    ∀ (is : List Nat) (c : CS) (need : Int), (allevHeadAll swr o orders is c need).1.crashed = c.crashed := by
  intro is
  induction is with
  | nil => intro c need; simp [allevHeadAll]
  | cons i is ih =>
    intro c need
    unfold allevHeadAll
    split
    · exact ih c need
    · split
      · split
        · rename_i ex _
          have := allevHeadShard_crashed o (Gen.headExpect swr o ex) (orderFor orders i) c i
          generalize allevHeadShard o (Gen.headExpect swr o ex) (orderFor orders i) c i = r at this
          obtain ⟨c', n⟩ := r
          simp only at this ⊢
          rw [ih, this]
        · exact ih c need
      · exact ih c need

theorem alleviate_crashed (swr : Swr) (o : Opt) (sc : Sched) (c : CS) :
    (alleviate swr o sc c).1.crashed = c.crashed := by
  unfold alleviate
  split
  · rfl
  · simp only
    have h1 := allevProcAll_crashed swr o sc.allevProc (List.range c.shards.length) c 0
    generalize allevProcAll swr o sc.allevProc (List.range c.shards.length) c 0 = r1 at h1
    obtain ⟨c1, np⟩ := r1
    simp only at h1 ⊢
    split
    · have h2 := allevHeadAll_crashed swr o sc.allevHead (List.range c.shards.length) c1 0
      generalize allevHeadAll swr o sc.allevHead (List.range c.shards.length) c1 0 = r2 at h2
      obtain ⟨c2, nh⟩ := r2
      simp only at h2 ⊢
      rw [h2, h1]
    · exact h1

/-- every series value a shard or the explorer reports is non-negative -/
def NonNeg (inp : Input) : Prop :=
  (∀ p ∈ inp.probes, ∀ st ∈ p.status, ∀ e ∈ st, 0 ≤ e.2.series ∧ 0 ≤ e.2.total) ∧
  (∀ e ∈ inp.explore, 0 ≤ e.2.series ∧ 0 ≤ e.2.total)

theorem globalOf_nonneg (inp : Input) (hn : NonNeg inp) (h : Hash) :
    0 ≤ (globalOf (infos0 inp) inp.explore h).series ∧ 0 ≤ (globalOf (infos0 inp) inp.explore h).total := by
  unfold globalOf
  split
  · rename_i st hf
    obtain ⟨s, hs, hst⟩ := List.exists_of_findSome?_eq_some hf
    unfold infos0 at hs
    simp only [List.mem_map] at hs
    obtain ⟨pr, ⟨p, hp, rfl⟩, rfl⟩ := hs
    cases hg : (getInfo p).1.scraping.get h with
    | none => simp [hg] at hst
    | some v =>
      simp only [hg] at hst
      split at hst
      · cases hst
        rw [getInfo_scraping] at hg
        have hm := get_some_mem _ _ _ hg
        unfold reported at hm
        split at hm
        · cases hst' : p.status with
          | none => rw [hst'] at hm; simp at hm
          | some stl =>
            rw [hst'] at hm
            exact hn.1 p hp stl (by simp [hst']) (h, st) hm
        · simp at hm
      · cases hst
  · split
    · rename_i st he
      exact hn.2 (h, st) (get_some_mem _ _ _ he)
    · simp

/-- **C01 (c)**: the cycle completes without crashing for every report a sidecar can produce -/
theorem cycle_noCrash (swr : Swr) (sc : Sched) (inp : Input) (hmp : inp.opt.maxProc ≠ 0) (hn : NonNeg inp) :
    (cycle swr sc inp).crashed = false := by
  generalize hout : cycle swr sc inp = out
  unfold cycle at hout
  simp only at hout
  split at hout
  · subst hout; rfl
  · have h2 := alleviate_crashed swr inp.opt sc
      { shards := gc inp.opt inp.active ((inp.probes.map getInfo).map (·.1)) }
    generalize alleviate swr inp.opt sc
      { shards := gc inp.opt inp.active ((inp.probes.map getInfo).map (·.1)) } = r2 at hout h2
    obtain ⟨c2, need1⟩ := r2
    simp only at hout h2
    have h3 := assignLoop_crashed inp.opt (scrapingSetOf c2.shards)
      (globalOf (infos0 inp) inp.explore) (globalOf_nonneg inp hn)
      (uniq (sc.assign.filter inp.active.contains)) c2 sc.picks {} h2
    unfold infos0 at h3
    have e3 : assign inp.opt inp.active (globalOf ((inp.probes.map getInfo).map (·.1)) inp.explore) sc c2 =
      assignLoop inp.opt (scrapingSetOf c2.shards) (globalOf ((inp.probes.map getInfo).map (·.1)) inp.explore)
        (uniq (sc.assign.filter inp.active.contains)) c2 sc.picks {} := rfl
    rw [e3] at hout
    generalize assignLoop inp.opt (scrapingSetOf c2.shards)
      (globalOf ((inp.probes.map getInfo).map (·.1)) inp.explore)
      (uniq (sc.assign.filter inp.active.contains)) c2 sc.picks {} = r3 at hout h3
    obtain ⟨c3, picks, need2⟩ := r3
    simp only at hout h3
    have hdiv : ∀ need, divCrash inp.opt need = false := by
      intro need; unfold divCrash
      have : (inp.opt.maxProc == 0) = false := by simpa using hmp
      simp [this]
    split at hout
    · rename_i hcr
      simp [h3, hdiv] at hcr
    · split at hout
      · split at hout
        · rename_i hcr; simp [h3] at hcr
        · subst hout; rfl
      · split at hout
        · rename_i hsd
          have hff : Gen.firstFit inp.opt = true :=
            (Sites.firstFit_iff _).mpr ((Sites.scaleDownOn_iff _).mp hsd)
          have h4 : (tryScaleDown inp.opt sc c3 picks).2.crashed = false := by
            unfold tryScaleDown; exact sdLoop_crashed inp.opt sc hff _ c3 picks h3
          generalize tryScaleDown inp.opt sc c3 picks = r4 at hout h4
          obtain ⟨scale, c4⟩ := r4
          simp only at hout h4
          split at hout
          · rename_i hcr; simp [h4] at hcr
          · subst hout; rfl
        · split at hout
          · rename_i hcr; simp [h3] at hcr
          · subst hout; rfl

end Kvass.Coord
