/-
  C05 in the closed loop: when a running sidecar stops reporting a discovered target after a
  fault-free cycle, it had scraped the target three times and another running sidecar, which had
  scraped it three times too, still reports it.
-/
import Kvass.Proofs.LoopStep
import Kvass.Proofs.CoordRemoval

namespace Kvass.Loop
open Kvass Kvass.Coord Kvass.Spec

/-- what `afterKeys` is for an in-sync shard of a full cycle, in terms of the plan -/
theorem afterKeys_plan (active : List Hash) (p : Probe) (fin : SI) (hch : fin.changeable = true)
    (hpost : p.postOk = true) (hready : p.ready = true)
    (hpn : (planned active fin).keys.Nodup) (h : Hash) :
    (afterKeys p ((getInfo p).2 ++ applyReqs active p fin)).contains h = true ↔ h ∈ (planned active fin).keys := by
  unfold afterKeys
  rw [postedBody_apply]
  have hrep : reported p = p.status.getD [] := by unfold reported; simp [hready]
  cases hnu : needUpdate (p.status.getD []) (body active fin) with
  | true =>
    simp only [hch, Bool.true_and, if_true, hpost]
    unfold body AL.keys
    simp [List.map_map, Function.comp_def]
  | false =>
    simp only [hch, Bool.true_and, Bool.false_eq_true, if_false]
    have := (noUpdate_report (p.status.getD []) active fin hpn hnu).1 h
    rw [hrep]
    simpa using this

/-- **C05 in the closed loop (hand-over rule on the sidecars' own counters)**: if, after the requests
    of a full, crash-free, fault-free cycle, a running sidecar no longer reports a discovered target it
    reported before, then it had scraped that target at least three times, and another running sidecar
    that had scraped it at least three times still reports it. -/
theorem loop_handover_rule (swr : Swr) (env : Env) (w : World) (sc : Sched)
    (hrep : w.replicas ≤ w.shards.length)
    (hne : stopsEarly (inputOf env w [] false) = false)
    (hnc : (cycle swr sc (inputOf env w [] false)).crashed = false)
    (hnd : ∀ sh ∈ w.running, (statusOf sh).keys.Nodup)
    {i : Nat} {sh sh' : Shard} {h : Hash} {r : St} (hrun : w.running[i]? = some sh)
    (hr : (statusOf sh).get h = some r) (ha : h ∈ w.active)
    (hsh' : (applyOutcome w [] (cycle swr sc (inputOf env w [] false))).shards[i]? = some sh')
    (hgone : (statusOf sh').has h = false) :
    3 ≤ r.times ∧
    ∃ (j : Nat) (shj shj' : Shard) (rj : St), j ≠ i ∧ w.running[j]? = some shj ∧
      (statusOf shj).get h = some rj ∧ 3 ≤ rj.times ∧
      (applyOutcome w [] (cycle swr sc (inputOf env w [] false))).shards[j]? = some shj' ∧
      (statusOf shj').has h = true := by
  have hpl := inputOf_probes_length env w [] false
  have hact : (inputOf env w [] false).active = w.active := rfl
  have hndI : ∀ p ∈ (inputOf env w [] false).probes, (reported p).keys.Nodup := by
    intro p hpm
    obtain ⟨k, hk⟩ := List.getElem?_of_mem hpm
    have hkl : k < w.running.length := by
      have := (List.getElem?_eq_some_iff.mp hk).1
      rw [hpl] at this; exact this
    have hrk : w.running[k]? = some w.running[k] := by simp [hkl]
    have := inputOf_probe env w k _ hrk
    rw [hk] at this
    cases this
    rw [reported_probeOf]
    exact hnd _ (List.mem_of_getElem? hrk)
  have hnodup := cycle_nodup swr sc (inputOf env w [] false) hne hndI
  -- what a running shard's requests and next report are
  have shard : ∀ (x : Nat) (shx : Shard), w.running[x]? = some shx →
      ∃ (fin : SI) (shx' : Shard), (cycle swr sc (inputOf env w [] false)).final[x]? = some fin ∧
        (cycle swr sc (inputOf env w [] false)).reqs[x]? =
          some ((getInfo (probeOf env shx {})).2 ++ applyReqs w.active (probeOf env shx {}) fin) ∧
        (applyOutcome w [] (cycle swr sc (inputOf env w [] false))).shards[x]? = some shx' ∧
        (∀ k, (afterKeys (probeOf env shx {}) ((getInfo (probeOf env shx {})).2 ++ applyReqs w.active (probeOf env shx {}) fin)).contains k = true ↔
          (statusOf shx').has k = true) := by
    intro x shx hrx
    have hp := inputOf_probe env w x shx hrx
    obtain ⟨fin, hfin, hreq⟩ := full_reqs swr sc (inputOf env w [] false) hne hnc hp (probeOf_inSync env shx)
    obtain ⟨fin', shx', hfin', hshx', hkeys, _⟩ := applyOutcome_report swr env w sc hrep hne hnc hnd x shx hrx
    rw [hfin] at hfin'; cases hfin'
    have hch := final_changeable swr sc (inputOf env w [] false) hne hp hfin
    rw [probeOf_inSync] at hch
    refine ⟨fin, shx', hfin, hreq, hshx', ?_⟩
    intro k
    rw [afterKeys_plan w.active (probeOf env shx {}) fin hch rfl rfl
      (planned_keys_nodup w.active fin (hnodup x fin hfin)) k]
    rw [← hkeys k, AL.has_iff, AL.mem_keys_iff]
  obtain ⟨fin, shi', hfin, hreq, hshi', hafter⟩ := shard i sh hrun
  rw [hsh'] at hshi'; cases hshi'
  -- the removal clause of C05 for shard i and target h
  have hrem := removal_cycle swr sc (inputOf env w [] false) hndI
  unfold C05.removal at hrem
  simp only [List.all_eq_true] at hrem
  have hmem : (i, probeOf env sh {}, (getInfo (probeOf env sh {})).2 ++ applyReqs w.active (probeOf env sh {}) fin) ∈
      shardsOf (inputOf env w [] false) (Obs.ofOutcome (cycle swr sc (inputOf env w [] false))) :=
    mem_shardsOf.mpr ⟨inputOf_probe env w i sh hrun, hreq⟩
  have h1 := hrem _ hmem
  simp only [probeOf_inSync, Bool.not_true, Bool.false_or, List.all_eq_true] at h1
  have hrmem : (h, r) ∈ reported (probeOf env sh {}) := by
    rw [reported_probeOf]; exact get_some_mem _ _ _ hr
  have h2 := h1 (h, r) hrmem
  simp only [Bool.or_eq_true, Bool.and_eq_true, decide_eq_true_eq, Bool.not_eq_true', List.any_eq_true] at h2
  rcases h2 with (h2 | h2) | ⟨ht, ⟨j, q, rq⟩, hjm, hj⟩
  · -- still planned: then it would still be reported
    have := (hafter h).mp h2
    rw [this] at hgone; cases hgone
  · rw [hact] at h2
    have : w.active.contains h = true := by simpa using ha
    rw [this] at h2; cases h2
  · refine ⟨by simpa [C05.handover] using ht, ?_⟩
    obtain ⟨hpj, hrj⟩ := mem_shardsOf.mp hjm
    have hjl : j < w.running.length := by
      have := (List.getElem?_eq_some_iff.mp hpj).1
      rw [hpl] at this; exact this
    have hrunj : w.running[j]? = some w.running[j] := by simp [hjl]
    have hq := inputOf_probe env w j _ hrunj
    rw [hpj] at hq; cases hq
    obtain ⟨finj, shj', _, hreqj, hshj', hafterj⟩ := shard j _ hrunj
    have erq : rq = (getInfo (probeOf env w.running[j] {})).2 ++ applyReqs w.active (probeOf env w.running[j] {}) finj := by
      have e : (Obs.ofOutcome (cycle swr sc (inputOf env w [] false))).reqs[j]? = (cycle swr sc (inputOf env w [] false)).reqs[j]? := rfl
      rw [e, hreqj] at hrj; exact (Option.some.inj hrj).symm
    simp only [bne_iff_ne, ne_eq] at hj
    obtain ⟨⟨⟨hji, _⟩, haft⟩, hcnt⟩ := hj
    rw [reported_probeOf] at hcnt
    cases hgj : (statusOf w.running[j]).get h with
    | none => rw [hgj] at hcnt; cases hcnt
    | some rj =>
      rw [hgj] at hcnt
      refine ⟨j, w.running[j], shj', rj, hji, hrunj, hgj, by simpa [C05.handover] using hcnt, hshj', ?_⟩
      rw [erq] at haft
      exact (hafterj h).mp haft

end Kvass.Loop
