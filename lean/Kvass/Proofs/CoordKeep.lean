/-
  The surviving holder: a discovered target reported by an in-sync shard is, at the end of the
  cycle, still in the planned set of an in-sync shard *that already reported it*.
-/
import Kvass.Proofs.CoordObs

namespace Kvass.Coord
open Kvass Kvass.Spec

theorem getElem?_of_length_eq {α β} {l : List α} {l' : List β} {i : Nat} {a : α}
    (hl : l'.length = l.length) (h : l[i]? = some a) : ∃ b, l'[i]? = some b := by
  have hi : i < l.length := by
    rcases Nat.lt_or_ge i l.length with h1 | h1
    · exact h1
    · rw [List.getElem?_eq_none h1] at h; cases h
  exact ⟨l'[i]'(hl ▸ hi), List.getElem?_eq_getElem _⟩

theorem infos0_get_some {inp : Input} {i : Nat} {s : SI} (h : (infos0 inp)[i]? = some s) :
    ∃ p, inp.probes[i]? = some p ∧ s = (getInfo p).1 := by
  rw [infos0_get] at h
  cases hp : inp.probes[i]? with
  | none => rw [hp] at h; cases h
  | some p => rw [hp] at h; exact ⟨p, rfl, (Option.some.inj h).symm⟩

/-- the surviving holder after a full (non-aborted) cycle -/
theorem survivor (swr : Swr) (sc : Sched) (inp : Input) (hne : stopsEarly inp = false)
    {i : Nat} {p : Probe} {h : Hash} {v : St}
    (hp : inp.probes[i]? = some p) (hin : inSync p = true) (hg : (reported p).get h = some v)
    (ha : h ∈ inp.active) :
    ∃ j pj sj vj v', inp.probes[j]? = some pj ∧ inSync pj = true ∧ (reported pj).get h = some vj ∧
      (cycle swr sc inp).final[j]? = some sj ∧ sj.changeable = true ∧ sj.scraping.get h = some v' ∧
      (j = i ∨ (3 ≤ v.times ∧ 3 ≤ vj.times)) := by
  have inv := gc_inv inp.opt inp.active (infos0 inp)
  have grow := cycle_grows swr sc inp hne
  have h0 : (infos0 inp)[i]? = some (getInfo p).1 := by rw [infos0_get, hp]; rfl
  obtain ⟨s1, hs1⟩ := getElem?_of_length_eq inv.len h0
  obtain ⟨s0, hs0, hch1, _, hsub1, _⟩ := inv.same i s1 hs1
  rw [h0] at hs0; cases hs0
  have hg0 : (getInfo p).1.scraping.get h = some v := by rw [getInfo_scraping]; exact hg
  cases hg1 : s1.scraping.get h with
  | some v1 =>
    obtain ⟨s, hs, hch, hk⟩ := grow.2 i s1 hs1
    obtain ⟨v', hv'⟩ := hk h v1 hg1
    refine ⟨i, p, s, v, v', hp, hin, hg, hs, ?_, hv', Or.inl rfl⟩
    rw [hch, hch1, getInfo_changeable]; exact hin
  | none =>
    obtain ⟨h3, j, vj, hji, ⟨sj1, hsj1, hchj, hgj⟩, hvj⟩ := inv.lost i _ s1 h v h0 hs1 hg0 hg1 ha
    obtain ⟨s0j, hs0j, hchj0, _, hsubj, _⟩ := inv.same j sj1 hsj1
    obtain ⟨pj, hpj, rfl⟩ := infos0_get_some hs0j
    obtain ⟨s, hs, hch, hk⟩ := grow.2 j sj1 hsj1
    obtain ⟨v', hv'⟩ := hk h vj hgj
    obtain ⟨vj0, hvj0, hrev⟩ := hsubj h vj hgj
    have hrep : (reported pj).get h = some vj0 := by rwa [getInfo_scraping] at hvj0
    have ht := hrev.times
    refine ⟨j, pj, s, vj0, v', hpj, ?_, hrep, hs, ?_, hv', Or.inr ⟨h3, by omega⟩⟩
    · rw [← getInfo_changeable, ← hchj0]; exact hchj
    · rw [hch]; exact hchj

/-- requests of shard `i` -/
theorem reqs_cases (swr : Swr) (sc : Sched) (inp : Input) {i : Nat} {p : Probe} (hp : inp.probes[i]? = some p) :
    ((cycle swr sc inp).reqs[i]? = some (getInfo p).2) ∨
    (stopsEarly inp = false ∧ ∃ s, (cycle swr sc inp).final[i]? = some s ∧
      (cycle swr sc inp).reqs[i]? = some ((getInfo p).2 ++ applyReqs inp.active p s)) := by
  rcases cycle_reqs swr sc inp _ rfl with ⟨hcr, hne, hr⟩ | ⟨_, hr⟩
  · right
    refine ⟨hne, ?_⟩
    have grow := cycle_grows swr sc inp hne
    have inv := gc_inv inp.opt inp.active (infos0 inp)
    have h0 : (infos0 inp)[i]? = some (getInfo p).1 := by rw [infos0_get, hp]; rfl
    have hlen : (cycle swr sc inp).final.length = (infos0 inp).length := by
      have := grow.1; unfold Outcome.cs at this; simp only at this; rw [this, inv.len]
    obtain ⟨s, hs⟩ := getElem?_of_length_eq hlen h0
    refine ⟨s, hs, ?_⟩
    rw [hr]
    have hz : (inp.probes.zip (cycle swr sc inp).final)[i]? = some (p, s) :=
      List.getElem?_zip_eq_some.mpr ⟨hp, hs⟩
    have h2 : ((inp.probes.zip (cycle swr sc inp).final).map fun x => applyReqs inp.active x.1 x.2)[i]?
        = some (applyReqs inp.active p s) := by
      rw [List.getElem?_map, hz]; rfl
    have h1 : (getReqsOf inp)[i]? = some (getInfo p).2 := by rw [getReqsOf_get, hp]; rfl
    exact zipmap_get _ _ _ i _ _ h1 h2
  · left
    rw [hr, getReqsOf_get, hp]; rfl

/-- what the shard is told to scrape afterwards, in the two cases -/
theorem afterKeys_noPost (p : Probe) : afterKeys p (getInfo p).2 = (reported p).keys := by
  unfold afterKeys; rw [postedBody_getInfo]

theorem afterKeys_apply_mem (active : List Hash) (p : Probe) (s : SI) (h : Hash) (v v' : St)
    (hrep : (reported p).get h = some v) (hs : s.scraping.get h = some v') (ha : h ∈ active) :
    h ∈ afterKeys p ((getInfo p).2 ++ applyReqs active p s) := by
  unfold afterKeys
  rw [postedBody_apply]
  have hk : h ∈ (reported p).keys := AL.get_some_mem_keys _ _ _ hrep
  split
  · rename_i b hb
    split at hb
    · cases hb
      split
      · exact body_keys_mem active s h v' hs ha
      · exact hk
    · cases hb
  · exact hk

end Kvass.Coord

namespace Kvass.Coord
open Kvass Kvass.Spec

/-- the `changeable` flag of a shard at the end of a full cycle is the script's `inSync` -/
theorem final_changeable (swr : Swr) (sc : Sched) (inp : Input) (hne : stopsEarly inp = false)
    {i : Nat} {p : Probe} {s : SI} (hp : inp.probes[i]? = some p) (hs : (cycle swr sc inp).final[i]? = some s) :
    s.changeable = inSync p := by
  have inv := gc_inv inp.opt inp.active (infos0 inp)
  have grow := cycle_grows swr sc inp hne
  have h0 : (infos0 inp)[i]? = some (getInfo p).1 := by rw [infos0_get, hp]; rfl
  obtain ⟨s1, hs1⟩ := getElem?_of_length_eq inv.len h0
  obtain ⟨s0, hs0, hch1, _, _, _⟩ := inv.same i s1 hs1
  rw [h0] at hs0; cases hs0
  obtain ⟨s', hs', hch, _⟩ := grow.2 i s1 hs1
  have : s' = s := by
    have e : (cycle swr sc inp).cs.shards[i]? = some s := hs
    rw [hs'] at e; exact Option.some.inj e
  subst this
  rw [hch, hch1, getInfo_changeable]

/-- the requests a shard receives: the status round-trip followed, for an in-sync shard only, by
    target / extra-config updates -/
theorem reqs_shape (swr : Swr) (sc : Sched) (inp : Input) {i : Nat} {p : Probe} (hp : inp.probes[i]? = some p) :
    ∃ extra, (cycle swr sc inp).reqs[i]? = some ((getInfo p).2 ++ extra) ∧
      (inSync p = false → extra = []) ∧
      (∀ q ∈ extra, C08.isPostT q = true ∨ q = .postExtra) := by
  rcases reqs_cases swr sc inp hp with hr | ⟨hne, s, hs, hr⟩
  · exact ⟨[], by simpa using hr, fun _ => rfl, by simp⟩
  · refine ⟨applyReqs inp.active p s, hr, ?_, ?_⟩
    · intro hin
      have := final_changeable swr sc inp hne hp hs
      unfold applyReqs; simp [this, hin]
    · intro q hq
      unfold applyReqs at hq
      split at hq
      · simp at hq
      · simp only at hq
        split at hq
        · split at hq <;> simp at hq <;> rcases hq with rfl | rfl <;> simp [C08.isPostT]
        · simp at hq; subst hq; simp

end Kvass.Coord
