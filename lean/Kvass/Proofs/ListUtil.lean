/- small list lemmas -/
import Kvass.Types

namespace Kvass.Coord

theorem getElem?_set_self' {α} {l : List α} {i : Nat} {a b : α} (h : l[i]? = some b) :
    (l.set i a)[i]? = some a := by
  rw [List.getElem?_set]
  have : i < l.length := by
    rcases Nat.lt_or_ge i l.length with h1 | h1
    · exact h1
    · rw [List.getElem?_eq_none h1] at h; cases h
  simp [this]

theorem getElem?_set_ne' {α} {l : List α} {i j : Nat} {a : α} (h : i ≠ j) :
    (l.set i a)[j]? = l[j]? := by
  rw [List.getElem?_set]; simp [h]

theorem getElem?_set_some {α} {l : List α} {i j : Nat} {a b : α} (h : l[i]? = some b) :
    ∃ b', (l.set j a)[i]? = some b' := by
  by_cases hji : j = i
  · subst hji; exact ⟨a, getElem?_set_self' h⟩
  · exact ⟨b, by rw [getElem?_set_ne' hji]; exact h⟩

end Kvass.Coord
