/-
  Characterisation lemmas: one per generated decision site.  The property proofs use only these,
  so that an equivalent rewrite of a Go expression needs to get through a one-line script here,
  while a semantic change breaks exactly the lemma of the changed site.
-/
import Kvass.Gen.Coord

namespace Kvass.Sites
open Kvass

theorem minWait_eq : Gen.minWait = 3 := rfl

theorem fit_iff (o : Opt) (s : Rt) (sp : Space) :
    Gen.fit o s sp = true ↔ (o.maxHead = 0 ∨ s.head + sp.head < o.maxHead) ∧ s.proc + sp.proc < o.maxProc := by
  simp [Gen.fit]

theorem fitSkip_iff (b : Bool) : Gen.fitSkip b = true ↔ b = false := by
  simp [Gen.fitSkip]

theorem apDst_iff (o : Opt) (os : Rt) (tar : St) :
    Gen.apDst o os tar = true ↔
      (o.maxHead = 0 ∨ os.head + tar.series < o.maxHead) ∧ os.proc + tar.total < o.maxProc := by
  simp [Gen.apDst]

theorem ahDst_iff (o : Opt) (os : Rt) (tar : St) :
    Gen.ahDst o os tar = true ↔ os.head + tar.series < o.maxHead ∧ os.proc + tar.total < o.maxProc := by
  simp [Gen.ahDst]

theorem transferHead_eq (to : Rt) (tar : St) : Gen.transferHead to tar = to.head + tar.series := rfl
theorem transferProc_eq (to : Rt) (tar : St) : Gen.transferProc to tar = to.proc + tar.total := rfl
theorem placeHead_eq (sd : Rt) (st : St) : Gen.placeHead sd st = sd.head + st.series := rfl
theorem placeProc_eq (sd : Rt) (st : St) : Gen.placeProc sd st = sd.proc + st.total := rfl
theorem spaceOfHead_eq (st : St) : Gen.spaceOfHead st = st.series := rfl
theorem spaceOfProc_eq (st : St) : Gen.spaceOfProc st = st.total := rfl
theorem sbiSpaceHead_eq (st : St) : Gen.sbiSpaceHead st = st.series := rfl
theorem sbiSpaceProc_eq (st : St) : Gen.sbiSpaceProc st = st.total := rfl

theorem tooBig_iff (o : Opt) (tar : St) :
    Gen.tooBig o tar = true ↔
      (o.maxHead ≠ 0 ∧ tar.series > o.maxHead) ∨ tar.series > o.maxProc ∨ tar.total > o.maxProc := by
  simp [Gen.tooBig, or_assoc]

theorem assignSkip_iff (st : St) : Gen.assignSkip st = true ↔ st.health ≠ .good := by
  simp [Gen.assignSkip]

theorem gcYoung_iff (tar : St) : Gen.gcYoung tar = true ↔ tar.times < 3 := by
  unfold Gen.gcYoung Gen.minWait; simp

theorem gcOtherOk_iff (st : St) : Gen.gcOtherOk st = true ↔ 3 ≤ st.times := by
  unfold Gen.gcOtherOk Gen.minWait; simp

theorem gcRule2_iff (tar st : St) :
    Gen.gcRule2 tar st = true ↔ tar.state = .inTransfer ∧ st.state = .normal := by
  simp [Gen.gcRule2]

theorem gcSame_iff (tar st : St) : Gen.gcSame tar st = true ↔ tar.state = st.state := by
  simp [Gen.gcSame]

theorem gcLess_iff (o : Opt) (s other : Rt) (i j : Nat) : Gen.gcLess o s other i j = true ↔
    (o.maxHead ≠ 0 ∧ other.head < s.head) ∨ (o.maxHead = 0 ∧ other.proc < s.proc) ∨
    (o.maxHead ≠ 0 ∧ other.head = s.head ∧ j < i) ∨ (o.maxHead = 0 ∧ other.proc = s.proc ∧ j < i) := by
  by_cases h : o.maxHead = 0 <;> simp [Gen.gcLess, h]

/-- rule 3 orders the shards strictly: by the load in the configured dimension, then by position;
    so of two distinct shards exactly one is "less" than the other -/
def gcKey (o : Opt) (r : Rt) : Int := if o.maxHead = 0 then r.proc else r.head

theorem gcLess_lex (o : Opt) (s other : Rt) (i j : Nat) : Gen.gcLess o s other i j = true ↔
    gcKey o other < gcKey o s ∨ (gcKey o other = gcKey o s ∧ j < i) := by
  rw [gcLess_iff]; unfold gcKey
  by_cases h : o.maxHead = 0 <;> simp [h]

theorem gcLess_total (o : Opt) (a b : Rt) (i j : Nat) (hij : i ≠ j) :
    (Gen.gcLess o a b i j = true ∧ Gen.gcLess o b a j i = false) ∨
    (Gen.gcLess o a b i j = false ∧ Gen.gcLess o b a j i = true) := by
  have e1 := gcLess_lex o a b i j
  have e2 := gcLess_lex o b a j i
  by_cases h1 : Gen.gcLess o a b i j = true
  · left; refine ⟨h1, ?_⟩
    cases h2 : Gen.gcLess o b a j i with
    | false => rfl
    | true => have := e1.mp h1; have := e2.mp h2; omega
  · right
    have h1' : Gen.gcLess o a b i j = false := by simpa using h1
    refine ⟨h1', ?_⟩
    apply e2.mpr
    have hn : ¬ (gcKey o b < gcKey o a ∨ (gcKey o b = gcKey o a ∧ j < i)) := fun x => h1 (e1.mpr x)
    omega

theorem headEnabled_iff (o : Opt) : Gen.headEnabled o = true ↔ o.maxHead ≠ 0 := by
  simp [Gen.headEnabled]

theorem removable_iff (ch : Bool) (n : Int) (s : Rt) :
    Gen.removable ch n s = true ↔ ch = true ∧ n = 0 ∧ s.idle = .expired := by
  cases hs : s.idle <;> simp [Gen.removable, Rt.idleSet, Rt.idleExpired, hs]

theorem sdSkipIdle_iff (s : Rt) : Gen.sdSkipIdle s = true ↔ s.idle ≠ .none := by
  cases hs : s.idle <;> simp [Gen.sdSkipIdle, Rt.idleSet, hs]

theorem cbiBlocked_iff (b : Bool) : Gen.cbiBlocked b = true ↔ b = false := by simp [Gen.cbiBlocked]
theorem cbiCandidate_iff (b : Bool) : Gen.cbiCandidate b = true ↔ b = true := by simp [Gen.cbiCandidate]

theorem cbiTarBlocks_iff (tar : St) :
    Gen.cbiTarBlocks tar = true ↔ tar.state ≠ .normal ∨ tar.times < 3 := by
  unfold Gen.cbiTarBlocks Gen.minWait; simp

theorem sbiSkip_iff (tar : St) :
    Gen.sbiSkip tar = true ↔ tar.state ≠ .normal ∨ tar.times < 3 := by
  unfold Gen.sbiSkip Gen.minWait; simp

theorem ahSkip_iff (tar : St) :
    Gen.ahSkip tar = true ↔ tar.state ≠ .normal ∨ tar.health ≠ .good ∨ tar.times < 3 := by
  unfold Gen.ahSkip Gen.minWait; simp [or_assoc]

theorem apSkip_iff (tar : St) :
    Gen.apSkip tar = true ↔ tar.total = 0 ∨ tar.state ≠ .normal ∨ tar.health ≠ .good ∨ tar.times < 3 := by
  unfold Gen.apSkip Gen.minWait; simp [or_assoc]

theorem cbiFit_iff (o : Opt) (sp : Space) (tar : St) :
    Gen.cbiFit o sp tar = true ↔ (o.maxHead = 0 ∨ tar.series < sp.head) ∧ tar.total < sp.proc := by
  simp [Gen.cbiFit]

theorem cbiSpaceHead_eq (o : Opt) (s : Rt) : Gen.cbiSpaceHead o s = o.maxHead - s.head := rfl
theorem cbiSpaceProc_eq (o : Opt) (s : Rt) : Gen.cbiSpaceProc o s = o.maxProc - s.proc := rfl
theorem cbiSubHead_eq (sp : Space) (tar : St) : Gen.cbiSubHead sp tar = sp.head - tar.series := rfl
theorem cbiSubProc_eq (sp : Space) (tar : St) : Gen.cbiSubProc sp tar = sp.proc - tar.total := rfl

theorem earlyMin_iff (o : Opt) (n c : Int) : Gen.earlyMin o n c = true ↔ n < o.minShard := by
  simp [Gen.earlyMin]
theorem earlyTo_eq (o : Opt) (n c : Int) : Gen.earlyTo o n c = o.minShard := rfl
theorem scaleInit_eq (n c : Int) : Gen.scaleInit n c = n := rfl
theorem needUp_iff (z : Bool) : Gen.needUp z = true ↔ z = false := by simp [Gen.needUp]
theorem scaleDownOn_iff (o : Opt) : Gen.scaleDownOn o = true ↔ o.idleOn = true := by simp [Gen.scaleDownOn]
theorem firstFit_iff (o : Opt) : Gen.firstFit o = true ↔ o.idleOn = true := by simp [Gen.firstFit]
theorem clampMax_iff (o : Opt) (k : Int) : Gen.clampMax o k = true ↔ k > o.maxShard := by simp [Gen.clampMax]
theorem clampMin_iff (o : Opt) (k : Int) : Gen.clampMin o k = true ↔ k < o.minShard := by simp [Gen.clampMin]
theorem clampMaxTo_eq (o : Opt) : Gen.clampMaxTo o = o.maxShard := rfl
theorem clampMinTo_eq (o : Opt) : Gen.clampMinTo o = o.minShard := rfl
theorem finalScaleArg_eq (k : Int) : Gen.finalScaleArg k = k := rfl
theorem spaceIsZero_iff (s : Space) : Gen.spaceIsZero s = true ↔ s.head = 0 ∧ s.proc = 0 := by
  simp [Gen.spaceIsZero]
theorem upBase_eq (n c : Int) : Gen.upBase n c = c := rfl
theorem upSum_eq (e u : Int) : Gen.upSum e u = e + u := rfl
theorem upFloor_iff (e n : Int) : Gen.upFloor e n = true ↔ e < n := by simp [Gen.upFloor]
theorem upFloorTo_eq (n c : Int) : Gen.upFloorTo n c = n := rfl
theorem upProc_eq (o : Opt) (sp : Space) : Gen.upProc o sp = Int.tdiv sp.proc o.maxProc + 1 := rfl
theorem upHead_eq (o : Opt) (sp : Space) : Gen.upHead o sp = Int.tdiv sp.head o.maxHead + 1 := rfl
theorem weightUseHead_iff (o : Opt) : Gen.weightUseHead o = true ↔ o.maxHead ≠ 0 := by simp [Gen.weightUseHead]
theorem weightHead_eq (o : Opt) (s : Rt) : Gen.weightHead o s = o.maxHead - s.head := rfl
theorem weightProc_eq (o : Opt) (s : Rt) : Gen.weightProc o s = o.maxProc - s.proc := rfl
theorem needUpdateLen_iff (a b : Int) : Gen.needUpdateLen a b = true ↔ a ≠ b ∨ a = 0 := by
  simp [Gen.needUpdateLen]
theorem needUpdateEntry_iff (p : Bool) (a b : TState) :
    Gen.needUpdateEntry p a b = true ↔ p = false ∨ a ≠ b := by simp [Gen.needUpdateEntry]
theorem allevDisabled_iff (o : Opt) : Gen.allevDisabled o = true ↔ o.disableAlleviate = true := by
  simp [Gen.allevDisabled]
theorem headThresholds_eq : Gen.headThresholds = [(18, 0), (16, 2), (14, 5), (11, 10)] := rfl

end Kvass.Sites
