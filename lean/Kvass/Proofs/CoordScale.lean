/-
  The `ChangeScale` requests of a cycle.
-/
import Kvass.Proofs.CoordKeep

namespace Kvass.Coord
open Kvass Kvass.Spec

/-- clamp as done at the end of `runOnce` -/
def clamp (o : Opt) (k : Int) : Int :=
  let k := if Gen.clampMax o k then Gen.clampMaxTo o else k
  if Gen.clampMin o k then Gen.clampMinTo o else k

def earlyOf (inp : Input) : Bool :=
  Gen.earlyMin inp.opt (infos0 inp).length (nChangeable (infos0 inp))

def earlyScales (inp : Input) : List Int :=
  if earlyOf inp then [Gen.earlyTo inp.opt (infos0 inp).length (nChangeable (infos0 inp))] else []

/-- every way a cycle can end, with its scale requests.  In the regular case the requested scale
    is the clamp of `tryScaleUp`, `tryScaleDown` or the current count. -/
theorem cycle_scales (swr : Swr) (sc : Sched) (inp : Input) :
    ∀ out, cycle swr sc inp = out →
      (out.scales = earlyScales inp ∧ (out.crashed = true ∨ stopsEarly inp = true)) ∨
      (∃ k : Int, out.scales = earlyScales inp ++ [clamp inp.opt k] ∧ out.crashed = false ∧
        stopsEarly inp = false ∧
        ((∃ c3 need, Gen.needUp (Gen.spaceIsZero need) = true ∧ k = tryScaleUp inp.opt c3 need ∧
            c3.length = out.final.length) ∨
         (Gen.scaleDownOn inp.opt = true ∧ ∃ c3 picks, k = (tryScaleDown inp.opt sc c3 picks).1 ∧
            out.final = (tryScaleDown inp.opt sc c3 picks).2.shards) ∨
         (Gen.scaleDownOn inp.opt = false ∧ k = out.final.length))) := by
  intro out hout
  unfold cycle at hout
  simp only at hout
  unfold earlyScales earlyOf stopsEarly infos0
  split at hout
  · rename_i h
    left; subst hout
    simp only [Bool.and_eq_true] at h
    refine ⟨?_, Or.inr ?_⟩
    · simp only [h.1, if_true]
    · rw [h.1, h.2]; rfl
  · rename_i h
    have h' : (Gen.earlyMin inp.opt (List.map (fun x => x.1) (List.map getInfo inp.probes)).length
        (nChangeable (List.map (fun x => x.1) (List.map getInfo inp.probes))) && inp.scaleErr1) = false := by
      simpa using h
    generalize alleviate swr inp.opt sc
      { shards := gc inp.opt inp.active ((inp.probes.map getInfo).map (·.1)) } = r2 at hout
    obtain ⟨c2, need1⟩ := r2
    simp only at hout
    generalize assign inp.opt inp.active
      (globalOf ((inp.probes.map getInfo).map (·.1)) inp.explore) sc c2 = r3 at hout
    obtain ⟨c3, picks, need2⟩ := r3
    simp only at hout
    split at hout
    · left; subst hout; exact ⟨rfl, Or.inl rfl⟩
    · split at hout
      · rename_i hup
        split at hout
        · left; subst hout; exact ⟨rfl, Or.inl rfl⟩
        · right; subst hout
          exact ⟨_, rfl, rfl, h', Or.inl ⟨c3.shards, _, hup, rfl, rfl⟩⟩
      · split at hout
        · rename_i hsd
          generalize hr4 : tryScaleDown inp.opt sc c3 picks = r4 at hout
          obtain ⟨scale, c4⟩ := r4
          simp only at hout
          split at hout
          · left; subst hout; exact ⟨rfl, Or.inl rfl⟩
          · right; subst hout
            refine ⟨scale, rfl, rfl, h', Or.inr (Or.inl ⟨hsd, c3, picks, by rw [hr4], by rw [hr4]⟩)⟩
        · rename_i hsd
          split at hout
          · left; subst hout; exact ⟨rfl, Or.inl rfl⟩
          · right; subst hout
            exact ⟨_, rfl, rfl, h', Or.inr (Or.inr ⟨by simpa using hsd, by rw [Sites.scaleInit_eq]⟩)⟩

end Kvass.Coord
