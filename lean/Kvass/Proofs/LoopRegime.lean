/-
  Convergence over many cycles, for systems without overload: with relief and scale-down switched
  off and every discovered target held, the shape "every target on at most two running sidecars, as
  the two sides of a move or twice in normal state" is kept by every scrape and every fault-free
  cycle, whatever the scrape counters — and as soon as every copy has been scraped three times the
  next cycle reaches the converged state.
-/
import Kvass.Proofs.LoopPos

namespace Kvass.Loop
open Kvass Kvass.Coord Kvass.Spec

/-- the explorer has no successful probe of `h`, or its estimate exceeds a limit: the coordinator
    will not assign `h` while nobody holds it -/
def Unplaceable (env : Env) (w : World) (h : Hash) : Prop :=
  match w.explore.get h with
  | none => True
  | some e => Gen.assignSkip e = true ∨ Gen.tooBig env.opt e = true

theorem unplaceable_global (env : Env) (w : World) (h : Hash) (hn : ¬ Held w h) (hu : Unplaceable env w h) :
    Gen.assignSkip (globalOf (infos0 (inputOf env w [] false)) w.explore h) = true ∨
    Gen.tooBig env.opt (globalOf (infos0 (inputOf env w [] false)) w.explore h) = true := by
  unfold Unplaceable at hu
  cases he : w.explore.get h with
  | some e =>
    rw [he] at hu
    rw [unheld_global env w h e hn he]
    exact hu
  | none =>
    left
    rcases globalOf_cases (infos0 (inputOf env w [] false)) w.explore h with ⟨s, hs, hg⟩ | ⟨he', _⟩ | ⟨_, h0⟩
    · exfalso
      obtain ⟨i, hi⟩ := List.getElem?_of_mem hs
      obtain ⟨sh, hrun, rfl⟩ := infos0_running env w i s hi
      exact hn ⟨i, sh, hrun, (AL.has_iff _ _).mpr ⟨_, hg⟩⟩
    · rw [he] at he'; cases he'
    · rw [h0]; simp [Gen.assignSkip]

/-- relief and scale-down off, size within [min, max], every discovered target held or unplaceable,
    every held target discovered — any number of holders per target -/
structure RegimeN (env : Env) (w : World) : Prop extends WInv env w where
  noRelief : env.opt.disableAlleviate = true
  noDown : env.opt.idleOn = false
  minOk : env.opt.minShard ≤ (w.replicas : Int)
  activeOnly : ∀ sh ∈ w.running, ∀ h v, (statusOf sh).get h = some v → h ∈ w.active
  allHeld : ∀ h ∈ w.active, Held w h ∨ Unplaceable env w h

/-- relief and scale-down off, size within [min, max], every discovered target held, every held
    target discovered, every target on at most two running sidecars — never twice in transfer -/
structure Regime (env : Env) (w : World) : Prop extends WInv env w where
  noRelief : env.opt.disableAlleviate = true
  noDown : env.opt.idleOn = false
  minOk : env.opt.minShard ≤ (w.replicas : Int)
  pairs : ∀ (i j : Nat) (shi shj : Shard) (h : Hash) (vi vj : St), w.running[i]? = some shi → w.running[j]? = some shj →
    i ≠ j → (statusOf shi).get h = some vi → (statusOf shj).get h = some vj →
    ¬ (vi.state = .inTransfer ∧ vj.state = .inTransfer)
  two : ∀ (i j k : Nat) (shi shj shk : Shard) (h : Hash), w.running[i]? = some shi → w.running[j]? = some shj →
    w.running[k]? = some shk → (statusOf shi).has h = true → (statusOf shj).has h = true → (statusOf shk).has h = true →
    i = j ∨ i = k ∨ j = k
  activeOnly : ∀ sh ∈ w.running, ∀ h v, (statusOf sh).get h = some v → h ∈ w.active
  allHeld : ∀ h ∈ w.active, Held w h ∨ Unplaceable env w h

theorem Regime.toN {env : Env} {w : World} (r : Regime env w) : RegimeN env w :=
  ⟨r.toWInv, r.noRelief, r.noDown, r.minOk, r.activeOnly, r.allHeld⟩

theorem regime_calm (swr : Swr) (env : Env) (w : World) (r : RegimeN env w) : Calm swr (inputOf env w [] false) := by
  have hrl := running_length w r.rep
  have hpl : (inputOf env w [] false).probes.length = w.replicas := by rw [inputOf_probes_length, hrl]
  refine ⟨Or.inl r.noRelief, ?_, by rw [hpl]; exact r.minOk, by rw [hpl]; exact r.max, r.noDown⟩
  intro h ha
  by_cases hh : Held w h
  · left
    obtain ⟨i, sh, hrun, hhas⟩ := hh
    obtain ⟨y, sy, hy, hgy⟩ := (provInv_start (inputOf env w [] false)).kept i (probeOf env sh {}) h
      (inputOf_probe env w i sh hrun) (by rw [reported_probeOf]; exact hhas) ha
    cases hg : sy.scraping.get h with
    | none => exact absurd hg hgy
    | some v => exact mem_scrapingSetOf hy hg
  · right
    rcases r.allHeld h ha with h1 | h1
    · exact absurd h1 hh
    · exact unplaceable_global env w h hh h1

/-- a fault-free cycle of the regime leaves the estimates alone -/
theorem regime_step_explore (swr : Swr) (env : Env) (w : World) (sc : Sched) (r : RegimeN env w) :
    (step swr env w (.cycle sc [] false)).explore = w.explore := by
  have hmm : env.opt.minShard ≤ env.opt.maxShard := by have := r.minOk; have := r.max; omega
  show (cycleStep swr env w sc [] false).1.explore = w.explore
  unfold cycleStep
  simp only [Bool.false_eq_true, if_false]
  rw [resizes_explore]; rfl

theorem unplaceable_of_explore {env : Env} {w w' : World} {h : Hash} (e : w'.explore = w.explore)
    (hu : Unplaceable env w h) : Unplaceable env w' h := by
  unfold Unplaceable at hu ⊢; rw [e]; exact hu

/-- what a fault-free cycle of the regime does to the world: same size, and every running sidecar
    afterwards reports a subset of what it reported, each target in the same state or back to normal -/
theorem regime_step_full (swr : Swr) (env : Env) (w : World) (sc : Sched) (r : RegimeN env w) :
    (step swr env w (.cycle sc [] false)).replicas = w.replicas ∧
    (step swr env w (.cycle sc [] false)).active = w.active ∧
    ∀ (i : Nat) (sh : Shard), w.running[i]? = some sh →
      ∃ sh', (step swr env w (.cycle sc [] false)).shards[i]? = some sh' ∧
        ∀ h v', (statusOf sh').get h = some v' → ∃ v, (statusOf sh).get h = some v ∧
          (v'.state = v.state ∨ v'.state = .normal) ∧
          entry (gc env.opt w.active (infos0 (inputOf env w [] false))) i h ≠ none := by
  have hc := regime_calm swr env w r
  obtain ⟨hnc, hscales, hfinal, hne⟩ := calm_cycle swr sc (inputOf env w [] false) hc
  have hrl := running_length w r.rep
  have hpl := inputOf_probes_length env w [] false
  have hkeys : ∀ sh ∈ w.running, (statusOf sh).keys.Nodup := fun s hs => by
    rw [reported_keys_statusOf]; exact (ws_running r.toWS s hs).nodup
  have hw1len : (applyOutcome w [] (cycle swr sc (inputOf env w [] false))).shards.length = w.shards.length := by
    unfold applyOutcome
    simp only [List.length_append, List.length_map, List.length_zipIdx, List.length_drop]
    rw [hrl]; have := r.rep; omega
  have hstep : step swr env w (.cycle sc [] false) = applyOutcome w [] (cycle swr sc (inputOf env w [] false)) := by
    show (cycleStep swr env w sc [] false).1 = _
    unfold cycleStep
    simp only [Bool.false_eq_true, if_false, hscales, List.foldl_cons, List.foldl_nil]
    have hn : ((inputOf env w [] false).probes.length : Int).toNat =
        (applyOutcome w [] (cycle swr sc (inputOf env w [] false))).replicas := by
      rw [hpl, hrl]; unfold applyOutcome; simp
    rw [hn]
    apply resize_self
    rw [hw1len]
    unfold applyOutcome; simpa using r.rep
  rw [hstep]
  refine ⟨by unfold applyOutcome; rfl, by unfold applyOutcome; rfl, ?_⟩
  intro i sh hrun
  obtain ⟨fin, sh', hfin, hsh', hk, hst⟩ := applyOutcome_report swr env w sc r.rep hne hnc hkeys i sh hrun
  have hact : (inputOf env w [] false).active = w.active := rfl
  have hopt : (inputOf env w [] false).opt = env.opt := rfl
  rw [hfinal, hact, hopt] at hfin
  have inv := gc_inv env.opt w.active (infos0 (inputOf env w [] false))
  refine ⟨sh', hsh', ?_⟩
  intro h v' hv'
  have hkm := (hk h).mp (AL.get_some_mem_keys _ _ _ hv')
  obtain ⟨u, hu⟩ := AL.mem_keys_get _ _ hkm
  obtain ⟨r', hr', hrs⟩ := hst h u hu
  rw [hv'] at hr'; cases hr'
  rw [planned_get] at hu
  split at hu
  · obtain ⟨s0, h0, _, _, hsub, _⟩ := inv.same i fin hfin
    obtain ⟨v0, hv0, hrev⟩ := hsub h u hu
    obtain ⟨sh0, hrun0, rfl⟩ := infos0_running env w i s0 h0
    rw [hrun] at hrun0; cases hrun0
    refine ⟨v0, hv0, ?_, by rw [entry_of hfin, hu]; simp⟩
    rw [hrs]
    rcases hrev.state with e | e
    · exact Or.inl e
    · exact Or.inr e
  · cases hu

theorem regime_step_shape (swr : Swr) (env : Env) (w : World) (sc : Sched) (r : RegimeN env w) :
    (step swr env w (.cycle sc [] false)).replicas = w.replicas ∧
    (step swr env w (.cycle sc [] false)).active = w.active ∧
    ∀ (i : Nat) (sh : Shard), w.running[i]? = some sh →
      ∃ sh', (step swr env w (.cycle sc [] false)).shards[i]? = some sh' ∧
        ∀ h v', (statusOf sh').get h = some v' → ∃ v, (statusOf sh).get h = some v ∧
          (v'.state = v.state ∨ v'.state = .normal) := by
  obtain ⟨e1, e2, e3⟩ := regime_step_full swr env w sc r
  refine ⟨e1, e2, ?_⟩
  intro i sh hrun
  obtain ⟨sh', h1, h2⟩ := e3 i sh hrun
  refine ⟨sh', h1, ?_⟩
  intro h v' hv'
  obtain ⟨v, a, b, _⟩ := h2 h v' hv'
  exact ⟨v, a, b⟩

/-- **the regime is kept by a fault-free cycle** -/
theorem regime_cycle (swr : Swr) (env : Env) (w : World) (sc : Sched) (r : Regime env w) :
    Regime env (step swr env w (.cycle sc [] false)) := by
  obtain ⟨e1, e2, e3⟩ := regime_step_shape swr env w sc r.toN
  have hmm : env.opt.minShard ≤ env.opt.maxShard := by have := r.minOk; have := r.max; omega
  have hwinv : WInv env (step swr env w (.cycle sc [] false)) := (cycleStep_winv swr env w sc [] false hmm r.toWInv).1
  have hrl := running_length w r.rep
  -- every running sidecar of the new world comes from the one at the same position
  have back : ∀ (i : Nat) (sh' : Shard), (step swr env w (.cycle sc [] false)).running[i]? = some sh' →
      ∃ sh, w.running[i]? = some sh ∧ ∀ h v', (statusOf sh').get h = some v' → ∃ v, (statusOf sh).get h = some v ∧
          (v'.state = v.state ∨ v'.state = .normal) := by
    intro i sh' hrun'
    obtain ⟨hil, hsi⟩ := running_inv hrun'
    rw [e1] at hil
    have hrun : w.running[i]? = some w.running[i] := by simp [hrl, hil]
    obtain ⟨sh'', h1, h2⟩ := e3 i _ hrun
    rw [hsi] at h1; cases h1
    exact ⟨_, hrun, h2⟩
  have hasb : ∀ (i : Nat) (sh sh' : Shard) (h : Hash),
      (∀ h v', (statusOf sh').get h = some v' → ∃ v, (statusOf sh).get h = some v ∧ (v'.state = v.state ∨ v'.state = .normal)) →
      (statusOf sh').has h = true → (statusOf sh).has h = true := by
    intro i sh sh' h hrel hh
    obtain ⟨v', hv'⟩ := (AL.has_iff _ _).mp hh
    obtain ⟨v, hv, _⟩ := hrel h v' hv'
    exact (AL.has_iff _ _).mpr ⟨v, hv⟩
  refine ⟨hwinv, r.noRelief, r.noDown, by rw [e1]; exact r.minOk, ?_, ?_, ?_, ?_⟩
  · intro i j shi' shj' h vi' vj' hi hj hij hvi hvj ⟨ti, tj⟩
    obtain ⟨shi, hri, reli⟩ := back i shi' hi
    obtain ⟨shj, hrj, relj⟩ := back j shj' hj
    obtain ⟨vi, hgi, si⟩ := reli h vi' hvi
    obtain ⟨vj, hgj, sj⟩ := relj h vj' hvj
    apply r.pairs i j shi shj h vi vj hri hrj hij hgi hgj
    constructor
    · rcases si with e | e
      · rw [← e]; exact ti
      · rw [e] at ti; cases ti
    · rcases sj with e | e
      · rw [← e]; exact tj
      · rw [e] at tj; cases tj
  · intro i j k shi' shj' shk' h hi hj hk hhi hhj hhk
    obtain ⟨shi, hri, reli⟩ := back i shi' hi
    obtain ⟨shj, hrj, relj⟩ := back j shj' hj
    obtain ⟨shk, hrk, relk⟩ := back k shk' hk
    exact r.two i j k shi shj shk h hri hrj hrk (hasb i shi shi' h reli hhi) (hasb j shj shj' h relj hhj)
      (hasb k shk shk' h relk hhk)
  · intro sh' hm h v' hv'
    obtain ⟨i, hi⟩ := List.getElem?_of_mem hm
    obtain ⟨sh, hri, rel⟩ := back i sh' hi
    obtain ⟨v, hg, _⟩ := rel h v' hv'
    rw [e2]
    exact r.activeOnly sh (List.mem_of_getElem? hri) h v hg
  · intro h ha
    rw [e2] at ha
    rcases r.allHeld h ha with h1 | h1
    · exact Or.inl (held_step swr env w sc h r.toWInv ha h1)
    · exact Or.inr (unplaceable_of_explore (regime_step_explore swr env w sc r.toN) h1)

/-- **the regime is kept by scrapes** -/
theorem regime_scrapes (swr : Swr) (env : Env) (w : World) (ops : List Op) (hall : ∀ op ∈ ops, isScrape op = true)
    (r : Regime env w) : Regime env (run swr env w ops) := by
  obtain ⟨e1, e2, e3x, _, e5⟩ := run_scrapes swr env ops w hall
  have hmm : env.opt.minShard ≤ env.opt.maxShard := by have := r.minOk; have := r.max; omega
  have hwinv : WInv env (run swr env w ops) := by
    apply run_winv swr env hmm ops w _ r.toWInv
    intro op hop
    have := hall op hop
    cases op <;> simp_all [isScrape]
  have hrl := running_length w r.rep
  have back : ∀ (i : Nat) (sh' : Shard), (run swr env w ops).running[i]? = some sh' →
      ∃ sh, w.running[i]? = some sh ∧ ScrRel (scrapeCount ops i) sh sh' := by
    intro i sh' hrun'
    obtain ⟨hil, _⟩ := running_inv hrun'
    rw [e1] at hil
    have hrun : w.running[i]? = some w.running[i] := by simp [hrl, hil]
    obtain ⟨sh'', h1, h2⟩ := e5 i _ hrun
    rw [hrun'] at h1; cases h1
    exact ⟨_, hrun, h2⟩
  have ent : ∀ (i : Nat) (sh sh' : Shard) (h : Hash) (v' : St),
      ScrRel (scrapeCount ops i) sh sh' → (statusOf sh').get h = some v' →
      ∃ v, (statusOf sh).get h = some v ∧ v'.state = v.state := by
    intro i sh sh' h v' hrel hv'
    cases hv : (statusOf sh).get h with
    | none => rw [(hrel h).1 hv] at hv'; cases hv'
    | some v =>
      obtain ⟨v'', hv'', s1, _⟩ := (hrel h).2 v hv
      rw [hv'] at hv''; cases hv''
      exact ⟨v, rfl, s1⟩
  have hasb : ∀ (i : Nat) (sh sh' : Shard) (h : Hash), ScrRel (scrapeCount ops i) sh sh' →
      (statusOf sh').has h = true → (statusOf sh).has h = true := by
    intro i sh sh' h hrel hh
    obtain ⟨v', hv'⟩ := (AL.has_iff _ _).mp hh
    obtain ⟨v, hv, _⟩ := ent i sh sh' h v' hrel hv'
    exact (AL.has_iff _ _).mpr ⟨v, hv⟩
  refine ⟨hwinv, r.noRelief, r.noDown, by rw [e1]; exact r.minOk, ?_, ?_, ?_, ?_⟩
  · intro i j shi' shj' h vi' vj' hi hj hij hvi hvj ⟨ti, tj⟩
    obtain ⟨shi, hri, reli⟩ := back i shi' hi
    obtain ⟨shj, hrj, relj⟩ := back j shj' hj
    obtain ⟨vi, hgi, si⟩ := ent i shi shi' h vi' reli hvi
    obtain ⟨vj, hgj, sj⟩ := ent j shj shj' h vj' relj hvj
    exact r.pairs i j shi shj h vi vj hri hrj hij hgi hgj ⟨by rw [← si]; exact ti, by rw [← sj]; exact tj⟩
  · intro i j k shi' shj' shk' h hi hj hk hhi hhj hhk
    obtain ⟨shi, hri, reli⟩ := back i shi' hi
    obtain ⟨shj, hrj, relj⟩ := back j shj' hj
    obtain ⟨shk, hrk, relk⟩ := back k shk' hk
    exact r.two i j k shi shj shk h hri hrj hrk (hasb i shi shi' h reli hhi) (hasb j shj shj' h relj hhj)
      (hasb k shk shk' h relk hhk)
  · intro sh' hm h v' hv'
    obtain ⟨i, hi⟩ := List.getElem?_of_mem hm
    obtain ⟨sh, hri, rel⟩ := back i sh' hi
    obtain ⟨v, hg, _⟩ := ent i sh sh' h v' rel hv'
    rw [e2]
    exact r.activeOnly sh (List.mem_of_getElem? hri) h v hg
  · intro h ha
    rw [e2] at ha
    rcases r.allHeld h ha with ⟨i, sh, hrun, hhas⟩ | h1
    · left
      obtain ⟨sh', hsh', hrel⟩ := e5 i sh hrun
      obtain ⟨v, hv⟩ := (AL.has_iff _ _).mp hhas
      obtain ⟨v', hv', _, _⟩ := (hrel h).2 v hv
      exact ⟨i, sh', hsh', (AL.has_iff _ _).mpr ⟨v', hv'⟩⟩
    · exact Or.inr (unplaceable_of_explore e3x h1)

/-- scrapes and fault-free cycles, in any order -/
def quietOp : Op → Bool
  | .scrape _ _ _ => true
  | .cycle _ F b => F.isEmpty && !b
  | _ => false

/-- **the regime is kept along every history of scrapes and fault-free cycles** -/
theorem regime_run (swr : Swr) (env : Env) :
    ∀ (ops : List Op) (w : World), (∀ op ∈ ops, quietOp op = true) → Regime env w → Regime env (run swr env w ops) := by
  intro ops
  induction ops with
  | nil => intro w _ r; exact r
  | cons op ops ih =>
    intro w hall r
    apply ih (step swr env w op) (fun o ho => hall o (List.mem_cons_of_mem _ ho))
    have hop := hall op List.mem_cons_self
    cases op with
    | scrape j k x =>
      have := regime_scrapes swr env w [.scrape j k x] (by intro o ho; simp at ho; subst ho; rfl) r
      exact this
    | cycle sc F b =>
      simp only [quietOp, Bool.and_eq_true, List.isEmpty_iff, Bool.not_eq_true'] at hop
      obtain ⟨rfl, rfl⟩ := hop
      exact regime_cycle swr env w sc r
    | restart _ => cases hop
    | update _ _ => cases hop
    | setReplicas _ => cases hop
    | discover _ _ => cases hop

/-- in the regime, a world all of whose copies have been scraped three times is settled -/
theorem regime_settled (swr : Swr) (env : Env) (w : World) (r : Regime env w)
    (hold : ∀ sh ∈ w.running, ∀ h v, (statusOf sh).get h = some v → 3 ≤ v.times) : Settled2 swr env w := by
  refine ⟨r.rep, fun s hs => by rw [reported_keys_statusOf]; exact (ws_running r.toWS s hs).nodup, ?_, r.two,
    r.activeOnly, fun sh hm h v hv _ => hold sh hm h v hv, Or.inl r.noRelief, ?_, r.minOk, r.max, r.noDown⟩
  · intro i j shi shj h vi vj hi hj hij hvi hvj
    have ti := hold shi (List.mem_of_getElem? hi) h vi hvi
    have tj := hold shj (List.mem_of_getElem? hj) h vj hvj
    have hp := r.pairs i j shi shj h vi vj hi hj hij hvi hvj
    cases hsi : vi.state <;> cases hsj : vj.state
    · exact Or.inr (Or.inr ⟨rfl, rfl, ti, tj⟩)
    · exact Or.inr (Or.inl ⟨rfl, rfl, ti⟩)
    · exact Or.inl ⟨rfl, rfl, tj⟩
    · exact absurd ⟨hsi, hsj⟩ hp
  · intro h ha
    by_cases hh : Held w h
    · left
      obtain ⟨i, sh, hrun, hhas⟩ := hh
      obtain ⟨v, hv⟩ := (AL.has_iff _ _).mp hhas
      have h0 : (infos0 (inputOf env w [] false))[i]? = some ⟨true, rtOf env sh, statusOf sh⟩ := by
        rw [infos0_inputOf, List.getElem?_map, hrun]; rfl
      exact mem_scrapingSetOf h0 hv
    · right
      rcases r.allHeld h ha with h1 | h1
      · exact absurd h1 hh
      · exact unplaceable_global env w h hh h1

/-- **convergence over many cycles, without overload.**  In the regime, after any history of scrapes
    and fault-free cycles — in any order, of any length — at the end of which every copy has been
    scraped three times, one more fault-free cycle reaches the converged state: same StatefulSet
    size, every reported target in normal state, none reported twice, every discovered target
    reported. -/
theorem regime_converges (swr : Swr) (env : Env) (w : World) (ops : List Op) (sc : Sched) (r : Regime env w)
    (hall : ∀ op ∈ ops, quietOp op = true)
    (hold : ∀ sh ∈ (run swr env w ops).running, ∀ h v, (statusOf sh).get h = some v → 3 ≤ v.times) :
    (run swr env w (ops ++ [.cycle sc [] false])).replicas = w.replicas ∧
    (∀ (i : Nat) (sh' : Shard) (h : Hash) (v : St), i < w.replicas →
      (run swr env w (ops ++ [.cycle sc [] false])).shards[i]? = some sh' →
      (statusOf sh').get h = some v → v.state = .normal) ∧
    (∀ (i j : Nat) (shi shj : Shard) (h : Hash), i < w.replicas → j < w.replicas → i ≠ j →
      (run swr env w (ops ++ [.cycle sc [] false])).shards[i]? = some shi →
      (run swr env w (ops ++ [.cycle sc [] false])).shards[j]? = some shj →
      (statusOf shi).has h = true → (statusOf shj).has h = true → False) ∧
    (∀ h ∈ w.active, Held (run swr env w (ops ++ [.cycle sc [] false])) h ∨
      Unplaceable env (run swr env w (ops ++ [.cycle sc [] false])) h) := by
  have r' := regime_run swr env ops w hall r
  have hset := regime_settled swr env _ r' hold
  have hrun : run swr env w (ops ++ [.cycle sc [] false]) = step swr env (run swr env w ops) (.cycle sc [] false) := by
    unfold run; rw [List.foldl_append]; rfl
  have hrep : ∀ (ops : List Op) (w : World), (∀ op ∈ ops, quietOp op = true) → Regime env w →
      (run swr env w ops).replicas = w.replicas ∧ (run swr env w ops).active = w.active := by
    intro ops
    induction ops with
    | nil => intro w _ _; exact ⟨rfl, rfl⟩
    | cons op ops ih =>
      intro w hall r
      have hop := hall op List.mem_cons_self
      have hstep : Regime env (step swr env w op) := regime_run swr env [op] w (by intro o ho; simp at ho; subst ho; exact hop) r
      obtain ⟨i1, i2⟩ := ih (step swr env w op) (fun o ho => hall o (List.mem_cons_of_mem _ ho)) hstep
      have e : (step swr env w op).replicas = w.replicas ∧ (step swr env w op).active = w.active := by
        cases op with
        | scrape j k x =>
          obtain ⟨a1, a2, _⟩ := run_scrapes swr env [.scrape j k x] w (by intro o ho; simp at ho; subst ho; rfl)
          exact ⟨a1, a2⟩
        | cycle sc' F b =>
          simp only [quietOp, Bool.and_eq_true, List.isEmpty_iff, Bool.not_eq_true'] at hop
          obtain ⟨rfl, rfl⟩ := hop
          obtain ⟨a1, a2, _⟩ := regime_step_shape swr env w sc' r.toN
          exact ⟨a1, a2⟩
        | restart _ => cases hop
        | update _ _ => cases hop
        | setReplicas _ => cases hop
        | discover _ _ => cases hop
      exact ⟨by show (run swr env (step swr env w op) ops).replicas = _; rw [i1, e.1],
        by show (run swr env (step swr env w op) ops).active = _; rw [i2, e.2]⟩
  obtain ⟨p1, p2⟩ := hrep ops w hall r
  rw [hrun]
  obtain ⟨c1, c2, c3, _⟩ := loop_settles2_converged swr env (run swr env w ops) sc hset
  rw [p1] at c1 c2 c3
  refine ⟨c1, c2, c3, ?_⟩
  intro h ha
  have r'' := regime_cycle swr env _ sc r'
  rw [← hrun]
  have hfin : Regime env (run swr env w (ops ++ [.cycle sc [] false])) := by rw [hrun]; exact r''
  apply hfin.allHeld h
  rw [hrun]
  have : (step swr env (run swr env w ops) (.cycle sc [] false)).active = (run swr env w ops).active :=
    (regime_step_shape swr env _ sc r'.toN).2.1
  rw [this, p2]; exact ha

end Kvass.Loop

namespace Kvass.Loop
open Kvass Kvass.Coord Kvass.Spec

/-- in the regime a cycle never restarts a scrape counter: nothing goes from normal to in-transfer -/
theorem regime_step_times (swr : Swr) (env : Env) (w : World) (sc : Sched) (r : RegimeN env w)
    (i : Nat) (sh sh' : Shard) (hrun : w.running[i]? = some sh)
    (hsh' : (step swr env w (.cycle sc [] false)).shards[i]? = some sh') :
    ∀ h v', (statusOf sh').get h = some v' → ∃ v, (statusOf sh).get h = some v ∧ v'.times = v.times := by
  have hc := regime_calm swr env w r
  obtain ⟨hnc, hscales, hfinal, hne⟩ := calm_cycle swr sc (inputOf env w [] false) hc
  have hrl := running_length w r.rep
  have hpl := inputOf_probes_length env w [] false
  have hw1len : (applyOutcome w [] (cycle swr sc (inputOf env w [] false))).shards.length = w.shards.length := by
    unfold applyOutcome
    simp only [List.length_append, List.length_map, List.length_zipIdx, List.length_drop]
    rw [hrl]; have := r.rep; omega
  have hstep : step swr env w (.cycle sc [] false) = applyOutcome w [] (cycle swr sc (inputOf env w [] false)) := by
    show (cycleStep swr env w sc [] false).1 = _
    unfold cycleStep
    simp only [Bool.false_eq_true, if_false, hscales, List.foldl_cons, List.foldl_nil]
    have hn : ((inputOf env w [] false).probes.length : Int).toNat =
        (applyOutcome w [] (cycle swr sc (inputOf env w [] false))).replicas := by
      rw [hpl, hrl]; unfold applyOutcome; simp
    rw [hn]
    apply resize_self
    rw [hw1len]
    unfold applyOutcome; simpa using r.rep
  rw [hstep, (applyOutcome_shard_f w [] _ i sh r.rep hrun).1] at hsh'
  intro h v' hv'
  cases hr : (cycle swr sc (inputOf env w [] false)).reqs[i]? with
  | none => rw [hr] at hsh'; simp only [Option.some.injEq] at hsh'; subst hsh'; exact ⟨v', hv', rfl⟩
  | some rs =>
    cases hf : (cycle swr sc (inputOf env w [] false)).final[i]? with
    | none => rw [hr, hf] at hsh'; simp only [Option.some.injEq] at hsh'; subst hsh'; exact ⟨v', hv', rfl⟩
    | some fin =>
      rw [hr, hf] at hsh'
      simp only [Option.some.injEq] at hsh'
      unfold applyShard at hsh'
      split at hsh'
      · -- the update was delivered: the sidecar keeps the counter unless normal → in-transfer
        subst hsh'
        have hndI : ∀ p ∈ (inputOf env w [] false).probes, (reported p).keys.Nodup := by
          intro p hpm
          obtain ⟨k, hk⟩ := List.getElem?_of_mem hpm
          have hkl : k < w.running.length := by
            have := (List.getElem?_eq_some_iff.mp hk).1
            rw [hpl] at this; exact this
          have hrk : w.running[k]? = some w.running[k] := by simp [hkl]
          have := inputOf_probe env w k _ hrk
          rw [hk] at this
          cases this
          rw [reported_probeOf, reported_keys_statusOf]
          exact (ws_running r.toWS _ (List.mem_of_getElem? hrk)).nodup
        have hfn : fin.scraping.keys.Nodup := cycle_nodup swr sc (inputOf env w [] false) hne hndI i fin hf
        obtain ⟨hk1, hk2⟩ := update_report w.active sh fin hfn
        have hkm := (hk1 h).mp (AL.get_some_mem_keys _ _ _ hv')
        obtain ⟨u, hu⟩ := AL.mem_keys_get _ _ hkm
        have hexact := hk2 h u hu
        rw [hv'] at hexact
        simp only [Option.some.injEq] at hexact
        -- where the planned entry comes from
        have hu' := hu
        rw [planned_get] at hu'
        split at hu'
        · have inv := gc_inv env.opt w.active (infos0 (inputOf env w [] false))
          have hfin' : (gc env.opt w.active (infos0 (inputOf env w [] false)))[i]? = some fin := by
            have := hf; rw [hfinal] at this; exact this
          obtain ⟨s0, h0, _, _, hsub, _⟩ := inv.same i fin hfin'
          obtain ⟨v0, hv0, hrev⟩ := hsub h u hu'
          obtain ⟨sh0, hrun0, rfl⟩ := infos0_running env w i s0 h0
          rw [hrun] at hrun0; cases hrun0
          refine ⟨v0, hv0, ?_⟩
          rw [statusOf_get] at hv0
          cases hs0 : sh.sc.status.get h with
          | none => rw [hs0] at hv0; cases hv0
          | some s0 =>
            rw [hs0] at hv0
            simp only [Option.map_some, Option.some.injEq] at hv0
            subst hv0
            subst hexact
            unfold Sidecar.entry tgtOf
            simp only [hs0]
            show (if s0.state = .normal ∧ u.state = .inTransfer then 0 else s0.times) = s0.times
            have : ¬ (s0.state = .normal ∧ u.state = .inTransfer) := by
              rintro ⟨hn, ht⟩
              rcases hrev.state with e | e
              · rw [ht] at e; simp [stOf, hn] at e
              · rw [ht] at e; cases e
            rw [if_neg this]
        · cases hu'
      · subst hsh'; exact ⟨v', hv', rfl⟩

end Kvass.Loop

namespace Kvass.Loop
open Kvass Kvass.Coord Kvass.Spec

/-- along a history of scrapes and fault-free cycles in the regime, what a running sidecar reports at
    the end it reported at the start, and its counter has advanced by exactly the number of scrapes -/
theorem regime_run_times (swr : Swr) (env : Env) :
    ∀ (ops : List Op) (w : World), (∀ op ∈ ops, quietOp op = true) → Regime env w →
      ∀ (i : Nat) (sh' : Shard) (h : Hash) (v' : St), (run swr env w ops).running[i]? = some sh' →
        (statusOf sh').get h = some v' →
        ∃ sh v, w.running[i]? = some sh ∧ (statusOf sh).get h = some v ∧ v'.times = v.times + scrapeCount ops i h := by
  intro ops
  induction ops with
  | nil =>
    intro w _ _ i sh' h v' hrun hv
    exact ⟨sh', v', hrun, hv, by simp [scrapeCount]⟩
  | cons op ops ih =>
    intro w hall r i sh' h v' hrun hv
    have hop := hall op List.mem_cons_self
    have r1 : Regime env (step swr env w op) :=
      regime_run swr env [op] w (by intro o ho; simp at ho; subst ho; exact hop) r
    obtain ⟨sh1, v1, hrun1, hv1, ht1⟩ := ih (step swr env w op) (fun o ho => hall o (List.mem_cons_of_mem _ ho)) r1
      i sh' h v' hrun hv
    have hrl := running_length w r.rep
    cases op with
    | scrape j k x =>
      obtain ⟨a1, _, _, _, a5⟩ := run_scrapes swr env [.scrape j k x] w (by intro o ho; simp at ho; subst ho; rfl)
      have hrun1' : (run swr env w [.scrape j k x]).running[i]? = some sh1 := hrun1
      obtain ⟨hil, _⟩ := running_inv hrun1'
      rw [a1] at hil
      have hrunw : w.running[i]? = some w.running[i] := by simp [hrl, hil]
      obtain ⟨sh1', e1, rel⟩ := a5 i _ hrunw
      rw [hrun1'] at e1; cases e1
      cases hv0 : (statusOf w.running[i]).get h with
      | none => rw [(rel h).1 hv0] at hv1; cases hv1
      | some v0 =>
        obtain ⟨v1', hv1', _, t⟩ := (rel h).2 v0 hv0
        rw [hv1] at hv1'; cases hv1'
        refine ⟨_, v0, hrunw, hv0, ?_⟩
        rw [ht1, t, scrapeCount_cons, scrapeCount_cons]
        have : scrapeCount [] i h = 0 := by simp [scrapeCount]
        rw [this]; omega
    | cycle sc F b =>
      simp only [quietOp, Bool.and_eq_true, List.isEmpty_iff, Bool.not_eq_true'] at hop
      obtain ⟨rfl, rfl⟩ := hop
      obtain ⟨a1, _, _⟩ := regime_step_shape swr env w sc r.toN
      obtain ⟨hil, hsi⟩ := running_inv hrun1
      rw [a1] at hil
      have hrunw : w.running[i]? = some w.running[i] := by simp [hrl, hil]
      obtain ⟨v0, hv0, t⟩ := regime_step_times swr env w sc r.toN i _ sh1 hrunw hsi h v1 hv1
      refine ⟨_, v0, hrunw, hv0, ?_⟩
      rw [ht1, t, scrapeCount_cons]; simp
    | restart _ => cases hop
    | update _ _ => cases hop
    | setReplicas _ => cases hop
    | discover _ _ => cases hop

/-- **convergence over many cycles, by counting scrapes.**  In the regime: along any history of
    scrapes and fault-free cycles — in any order — in which every copy held at the start is scraped
    at least three times, followed by one fault-free cycle, the converged state is reached. -/
theorem regime_converges_counting (swr : Swr) (env : Env) (w : World) (ops : List Op) (sc : Sched) (r : Regime env w)
    (hall : ∀ op ∈ ops, quietOp op = true)
    (h3 : ∀ (i : Nat) (sh : Shard) (h : Hash), w.running[i]? = some sh → (statusOf sh).has h = true → 3 ≤ scrapeCount ops i h) :
    (run swr env w (ops ++ [.cycle sc [] false])).replicas = w.replicas ∧
    (∀ (i : Nat) (sh' : Shard) (h : Hash) (v : St), i < w.replicas →
      (run swr env w (ops ++ [.cycle sc [] false])).shards[i]? = some sh' →
      (statusOf sh').get h = some v → v.state = .normal) ∧
    (∀ (i j : Nat) (shi shj : Shard) (h : Hash), i < w.replicas → j < w.replicas → i ≠ j →
      (run swr env w (ops ++ [.cycle sc [] false])).shards[i]? = some shi →
      (run swr env w (ops ++ [.cycle sc [] false])).shards[j]? = some shj →
      (statusOf shi).has h = true → (statusOf shj).has h = true → False) ∧
    (∀ h ∈ w.active, Held (run swr env w (ops ++ [.cycle sc [] false])) h ∨
      Unplaceable env (run swr env w (ops ++ [.cycle sc [] false])) h) := by
  apply regime_converges swr env w ops sc r hall
  intro sh' hm h v' hv'
  obtain ⟨i, hi⟩ := List.getElem?_of_mem hm
  obtain ⟨sh, v, hrun, hv, ht⟩ := regime_run_times swr env ops w hall r i sh' h v' hi hv'
  have := h3 i sh h hrun ((AL.has_iff _ _).mpr ⟨v, hv⟩)
  omega

end Kvass.Loop

namespace Kvass.Loop
open Kvass Kvass.Coord Kvass.Spec

/-- a restart keeps what a sidecar holds and in which state (C10) -/
theorem restart_rel (sh : Shard) (hs : SInv sh) :
    ∀ h, ((statusOf sh).get h = none → (statusOf (restartShard sh)).get h = none) ∧
      ∀ v, (statusOf sh).get h = some v → ∃ v', (statusOf (restartShard sh)).get h = some v' ∧ v'.state = v.state := by
  intro h
  obtain ⟨hk, hst, _, _⟩ := Props.C10.C10_restart sh.clock sh.sc hs.cons hs.idle
  rw [statusOf_get, statusOf_get]
  show (_ → Option.map stOf ((Sidecar.restart sh.clock sh.sc).status.get h) = none) ∧ ∀ v, _ →
    ∃ v', Option.map stOf ((Sidecar.restart sh.clock sh.sc).status.get h) = some v' ∧ _
  constructor
  · intro hn
    cases hg : (Sidecar.restart sh.clock sh.sc).status.get h with
    | none => rfl
    | some x =>
      exfalso
      have := (hk h).mp (AL.get_some_mem_keys _ _ _ hg)
      obtain ⟨y, hy⟩ := AL.mem_keys_get _ _ this
      rw [hy] at hn; cases hn
  · intro v hv
    cases hs0 : sh.sc.status.get h with
    | none => rw [hs0] at hv; cases hv
    | some s0 =>
      rw [hs0] at hv
      simp only [Option.map_some, Option.some.injEq] at hv
      subst hv
      obtain ⟨s', hs', hst'⟩ := hst h s0 hs0
      exact ⟨stOf s', by rw [hs']; rfl, hst'⟩

/-- **the regime is kept by a sidecar restart** -/
theorem regime_restart (swr : Swr) (env : Env) (w : World) (j : Nat) (r : Regime env w) :
    Regime env (step swr env w (.restart j)) := by
  have hmm : env.opt.minShard ≤ env.opt.maxShard := by have := r.minOk; have := r.max; omega
  have hwinv := step_winv swr env hmm w (.restart j) rfl r.toWInv
  have hrl := running_length w r.rep
  have hstep : step swr env w (.restart j) = onShard w j restartShard := rfl
  have fwd : ∀ (i : Nat) (sh : Shard), w.running[i]? = some sh →
      (step swr env w (.restart j)).running[i]? = some (if j = i then restartShard sh else sh) := by
    intro i sh hrun
    rw [hstep]; exact (onShard_running w j restartShard i sh hrun).1
  have hrep : (step swr env w (.restart j)).replicas = w.replicas ∧ (step swr env w (.restart j)).active = w.active := by
    rw [hstep]
    unfold onShard; split
    · cases w.shards[j]? <;> exact ⟨rfl, rfl⟩
    · exact ⟨rfl, rfl⟩
  -- what every running sidecar of the new world reports: same keys, same states
  have back : ∀ (i : Nat) (sh' : Shard), (step swr env w (.restart j)).running[i]? = some sh' →
      ∃ sh, w.running[i]? = some sh ∧ ∀ h, ((statusOf sh).get h = none → (statusOf sh').get h = none) ∧
        ∀ v, (statusOf sh).get h = some v → ∃ v', (statusOf sh').get h = some v' ∧ v'.state = v.state := by
    intro i sh' hrun'
    obtain ⟨hil, _⟩ := running_inv hrun'
    rw [hrep.1] at hil
    have hrun : w.running[i]? = some w.running[i] := by simp [hrl, hil]
    have := fwd i _ hrun
    rw [hrun'] at this
    refine ⟨_, hrun, ?_⟩
    by_cases hji : j = i
    · simp only [hji, if_true, Option.some.injEq] at this
      subst this
      exact restart_rel _ (ws_running r.toWS _ (List.mem_of_getElem? hrun))
    · simp only [hji, if_false, Option.some.injEq] at this
      subst this
      exact fun h => ⟨id, fun v hv => ⟨v, hv, rfl⟩⟩
  have ent : ∀ (sh sh' : Shard) (h : Hash) (v' : St),
      (∀ h, ((statusOf sh).get h = none → (statusOf sh').get h = none) ∧
        ∀ v, (statusOf sh).get h = some v → ∃ v', (statusOf sh').get h = some v' ∧ v'.state = v.state) →
      (statusOf sh').get h = some v' → ∃ v, (statusOf sh).get h = some v ∧ v'.state = v.state := by
    intro sh sh' h v' hrel hv'
    cases hv : (statusOf sh).get h with
    | none => rw [(hrel h).1 hv] at hv'; cases hv'
    | some v =>
      obtain ⟨v'', hv'', s1⟩ := (hrel h).2 v hv
      rw [hv'] at hv''; cases hv''
      exact ⟨v, rfl, s1⟩
  refine ⟨hwinv, r.noRelief, r.noDown, by rw [hrep.1]; exact r.minOk, ?_, ?_, ?_, ?_⟩
  · intro i k shi' shk' h vi' vk' hi hk hik hvi hvk ⟨ti, tk⟩
    obtain ⟨shi, hri, reli⟩ := back i shi' hi
    obtain ⟨shk, hrk, relk⟩ := back k shk' hk
    obtain ⟨vi, hgi, si⟩ := ent shi shi' h vi' reli hvi
    obtain ⟨vk, hgk, sk⟩ := ent shk shk' h vk' relk hvk
    exact r.pairs i k shi shk h vi vk hri hrk hik hgi hgk ⟨by rw [← si]; exact ti, by rw [← sk]; exact tk⟩
  · intro a b c sha' shb' shc' h ha hb hc hha hhb hhc
    obtain ⟨sha, hra, rela⟩ := back a sha' ha
    obtain ⟨shb, hrb, relb⟩ := back b shb' hb
    obtain ⟨shc, hrc, relc⟩ := back c shc' hc
    have hasb : ∀ (sh sh' : Shard), (∀ h, ((statusOf sh).get h = none → (statusOf sh').get h = none) ∧
        ∀ v, (statusOf sh).get h = some v → ∃ v', (statusOf sh').get h = some v' ∧ v'.state = v.state) →
        (statusOf sh').has h = true → (statusOf sh).has h = true := by
      intro sh sh' hrel hh
      obtain ⟨v', hv'⟩ := (AL.has_iff _ _).mp hh
      obtain ⟨v, hv, _⟩ := ent sh sh' h v' hrel hv'
      exact (AL.has_iff _ _).mpr ⟨v, hv⟩
    exact r.two a b c sha shb shc h hra hrb hrc (hasb sha sha' rela hha) (hasb shb shb' relb hhb) (hasb shc shc' relc hhc)
  · intro sh' hm h v' hv'
    obtain ⟨i, hi⟩ := List.getElem?_of_mem hm
    obtain ⟨sh, hri, rel⟩ := back i sh' hi
    obtain ⟨v, hg, _⟩ := ent sh sh' h v' rel hv'
    rw [hrep.2]
    exact r.activeOnly sh (List.mem_of_getElem? hri) h v hg
  · intro h ha
    rw [hrep.2] at ha
    rcases r.allHeld h ha with ⟨i, sh, hrun, hhas⟩ | h1
    · left
      obtain ⟨v, hv⟩ := (AL.has_iff _ _).mp hhas
      refine ⟨i, _, fwd i sh hrun, ?_⟩
      by_cases hji : j = i
      · simp only [hji, if_true]
        obtain ⟨v', hv', _⟩ := ((restart_rel sh (ws_running r.toWS _ (List.mem_of_getElem? hrun))) h).2 v hv
        exact (AL.has_iff _ _).mpr ⟨v', hv'⟩
      · simp only [hji, if_false]; exact hhas
    · right
      have hexp : (step swr env w (.restart j)).explore = w.explore := by
        rw [hstep]; unfold onShard; split
        · cases w.shards[j]? <;> rfl
        · rfl
      exact unplaceable_of_explore hexp h1

/-- scrapes, fault-free cycles and sidecar restarts -/
def quietOpR : Op → Bool
  | .scrape _ _ _ => true
  | .cycle _ F b => F.isEmpty && !b
  | .restart _ => true
  | _ => false

/-- **the regime is kept along every history of scrapes, fault-free cycles and restarts** -/
theorem regime_runR (swr : Swr) (env : Env) :
    ∀ (ops : List Op) (w : World), (∀ op ∈ ops, quietOpR op = true) → Regime env w → Regime env (run swr env w ops) := by
  intro ops
  induction ops with
  | nil => intro w _ r; exact r
  | cons op ops ih =>
    intro w hall r
    apply ih (step swr env w op) (fun o ho => hall o (List.mem_cons_of_mem _ ho))
    have hop := hall op List.mem_cons_self
    cases op with
    | scrape j k x => exact regime_scrapes swr env w [.scrape j k x] (by intro o ho; simp at ho; subst ho; rfl) r
    | cycle sc F b =>
      simp only [quietOpR, Bool.and_eq_true, List.isEmpty_iff, Bool.not_eq_true'] at hop
      obtain ⟨rfl, rfl⟩ := hop
      exact regime_cycle swr env w sc r
    | restart j => exact regime_restart swr env w j r
    | update _ _ => cases hop
    | setReplicas _ => cases hop
    | discover _ _ => cases hop

end Kvass.Loop
