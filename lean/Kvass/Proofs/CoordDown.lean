/-
  Scale-down: which shards `tryScaleDown` may drop, and that its transfers never touch them.
  (C07: a shard still in use is never scaled away)
-/
import Kvass.Proofs.CoordNeed

namespace Kvass.Coord
open Kvass Kvass.Spec

/-! ### the removable suffix -/

theorem removableSuffix_le (ss : List SI) : ∀ n, removableSuffix ss n ≤ n := by
  intro n
  induction n with
  | zero => simp [removableSuffix]
  | succ n ih =>
    unfold removableSuffix
    split
    · split
      · omega
      · omega
    · omega

/-- every shard from the stop index up to `n` is removable -/
theorem removableSuffix_spec (ss : List SI) : ∀ (n i : Nat), removableSuffix ss n ≤ i → i < n →
    ∃ s, ss[i]? = some s ∧ Gen.removable s.changeable (s.scraping.length : Int) s.rt = true := by
  intro n
  induction n with
  | zero => intro i _ h; omega
  | succ n ih =>
    intro i hle hlt
    unfold removableSuffix at hle
    split at hle
    · rename_i s hs
      split at hle
      · rename_i hr
        by_cases hin : i = n
        · subst hin; exact ⟨s, hs, hr⟩
        · exact ih i hle (by omega)
      · omega
    · omega

/-! ### transfers of the scale-down stage stay below their source -/

theorem transfer_frame (k : Nat) (c : CS) (i j : Nat) (h : Hash) (m : Nat) (hmi : m ≠ i) (hmj : m ≠ j) :
    (transfer k c i j h).shards[m]? = c.shards[m]? := by
  unfold transfer
  split
  · split
    · rfl
    · simp only
      rw [getElem?_set_ne' (Ne.symm hmi), getElem?_set_ne' (Ne.symm hmj)]
  · rfl

theorem sbiLoop_frame (o : Opt) (i : Nat) :
    ∀ (hs : List Hash) (c : CS) (picks : List Nat) (m : Nat), i < m →
      (sbiLoop o i hs c picks).1.shards[m]? = c.shards[m]? := by
  intro hs
  induction hs with
  | nil => intro c picks m _; simp [sbiLoop]
  | cons h hs ih =>
    intro c picks m hm
    unfold sbiLoop
    split
    · rfl
    · split
      · exact ih c picks m hm
      · split
        · exact ih c picks m hm
        · split
          · rename_i j picks' hg
            obtain ⟨_, _, hlt, _, _⟩ := getFreeShard_some hg
            rw [ih _ picks' m hm]
            exact transfer_frame 3 c i j h m (by omega) (by omega)
          · rfl
          · rfl

theorem sdLoop_frame (o : Opt) (sc : Sched) :
    ∀ (k : Nat) (c : CS) (picks : List Nat) (m : Nat), k < m →
      (sdLoop o sc k c picks).shards[m]? = c.shards[m]? := by
  intro k
  induction k with
  | zero => intro c picks m _; simp [sdLoop]
  | succ k ih =>
    intro c picks m hm
    unfold sdLoop
    split
    · exact ih c picks m (by omega)
    · split
      · exact ih c picks m (by omega)
      · simp only
        split
        · rfl
        · rename_i src hsrc _ _
          have hf := sbiLoop_frame o (k + 1)
            (uniq ((orderFor sc.becomeIdle (k + 1)).filter src.scraping.keys.contains)) c picks m hm
          generalize sbiLoop o (k + 1)
            (uniq ((orderFor sc.becomeIdle (k + 1)).filter src.scraping.keys.contains)) c picks = r at hf
          obtain ⟨c', picks', ok⟩ := r
          simp only at hf ⊢
          split
          · exact hf
          · rw [ih c' picks' m (by omega)]; exact hf

/-- the shards `tryScaleDown` decides to drop are exactly as they were before its transfers -/
theorem tryScaleDown_frame (o : Opt) (sc : Sched) (c : CS) (picks : List Nat) (m : Nat)
    (hm : removableSuffix c.shards c.shards.length ≤ m) :
    (tryScaleDown o sc c picks).2.shards[m]? = c.shards[m]? := by
  unfold tryScaleDown
  simp only
  by_cases h0 : removableSuffix c.shards c.shards.length = 0
  · rw [h0]; simp [sdLoop]
  · exact sdLoop_frame o sc _ c picks m (by omega)

/-! ### idle classification survives every stage -/

/-- relative to `ss1`: every shard keeps the idle classification it was reported with -/
def IdleSame (ss1 : List SI) (c : CS) : Prop :=
  ∀ (i : Nat) (s : SI), c.shards[i]? = some s → ∃ s1 : SI, ss1[i]? = some s1 ∧ s.rt.idle = s1.rt.idle

theorem idleSame_refl (ss : List SI) (log : List Placement) (cr : Bool) : IdleSame ss ⟨ss, log, cr⟩ :=
  fun _ s h => ⟨s, h, rfl⟩

theorem idleSame_presA (o : Opt) (glob : Hash → St) (ss1 : List SI) : PresA o glob (IdleSame ss1) where
  transfer := by
    intro k c i j h hc hg m s hs
    have hji : j ≠ i := by
      obtain ⟨_, _, _, _, _, _, _, _, hne, _⟩ := hg
      exact hne
    unfold transfer at hs
    split at hs
    · rename_i f t hf ht
      split at hs
      · exact hc m s hs
      · simp only at hs
        by_cases hmi : i = m
        · subst hmi
          have hfi : ∀ X : SI, (c.shards.set j X)[i]? = some f := fun X => by
            rw [getElem?_set_ne' hji]; exact hf
          rw [getElem?_set_self' (hfi _)] at hs
          cases hs
          obtain ⟨s1, h1, e1⟩ := hc i f hf
          exact ⟨s1, h1, e1⟩
        · rw [getElem?_set_ne' hmi] at hs
          by_cases hmj : j = m
          · subst hmj
            rw [getElem?_set_self' ht] at hs
            cases hs
            obtain ⟨s1, h1, e1⟩ := hc j t ht
            exact ⟨s1, h1, e1⟩
          · rw [getElem?_set_ne' hmj] at hs
            exact hc m s hs
    · exact hc m s hs
  crash := fun c hc => hc
  place := by
    intro c j h hc _ m s hs
    unfold place at hs
    split at hs
    · exact hc m s hs
    · rename_i t ht
      simp only at hs
      by_cases hmj : j = m
      · subst hmj
        rw [getElem?_set_self' ht] at hs
        cases hs
        obtain ⟨s1, h1, e1⟩ := hc j t ht
        exact ⟨s1, h1, e1⟩
      · rw [getElem?_set_ne' hmj] at hs
        exact hc m s hs

end Kvass.Coord

namespace Kvass.Coord
open Kvass Kvass.Spec

/-! ### from the final plan to what can be observed -/

theorem getInfo_rt (p : Probe) (h : inSync p = true) : (getInfo p).1.rt = effRt p := by
  unfold getInfo effRt
  unfold inSync at h
  cases hr : p.ready <;> simp [hr] at h ⊢
  cases hs : p.status <;> simp [hs] at h ⊢
  cases h1 : p.rt1 with
  | none => simp [h1] at h
  | some r =>
    obtain ⟨r1, eq1⟩ := r
    cases eq1 <;> simp [h1] at h ⊢
    cases hp : p.pushOk <;> simp [hp] at h ⊢
    cases h2 : p.rt2 with
    | none => simp [h2] at h
    | some r2 => obtain ⟨r2, eq2⟩ := r2; simp [h2] at h ⊢

theorem lastNeeded_le (inp : Input) (ob : Obs) (m : Nat)
    (h : ∀ i p r, (i, p, r) ∈ shardsOf inp ob → C07.needed inp p r = true → i + 1 ≤ m) :
    C07.lastNeeded inp ob ≤ m := by
  unfold C07.lastNeeded
  generalize shardsOf inp ob = l at h
  have : ∀ (acc : Nat), acc ≤ m →
      l.foldl (fun acc (x : Nat × Probe × List Req) => if C07.needed inp x.2.1 x.2.2 then x.1 + 1 else acc) acc ≤ m := by
    induction l with
    | nil => intro acc ha; simpa using ha
    | cons x xs ih =>
      intro acc ha
      simp only [List.foldl_cons]
      apply ih (fun i p r hm => h i p r (List.mem_cons_of_mem _ hm))
      split
      · rename_i hn
        exact h x.1 x.2.1 x.2.2 (by simp) hn
      · exact ha
  exact this 0 (Nat.zero_le _)

theorem lastNeeded_le_len (inp : Input) (ob : Obs) : C07.lastNeeded inp ob ≤ inp.probes.length := by
  apply lastNeeded_le
  intro i p r hm _
  have := (mem_shardsOf.mp hm).1
  rcases Nat.lt_or_ge i inp.probes.length with hl | hl
  · omega
  · rw [List.getElem?_eq_none hl] at this; cases this

/-- a shard whose final plan is empty, that is in sync, idle-expired and (as a sidecar's report
    always is) reports nothing while idle, is not "needed" -/
theorem not_needed (swr : Swr) (sc : Sched) (inp : Input) (hne : stopsEarly inp = false)
    (hnc : (cycle swr sc inp).crashed = false)
    {i : Nat} {p : Probe} {r : List Req} {s : SI}
    (hp : inp.probes[i]? = some p) (hr : (cycle swr sc inp).reqs[i]? = some r)
    (hs : (cycle swr sc inp).final[i]? = some s) (hch : s.changeable = true) (hemp : s.scraping = [])
    (hidle : (effRt p).idle = .expired) (hrep : reported p = []) :
    C07.needed inp p r = false := by
  have hsync : inSync p = true := by rw [← final_changeable swr sc inp hne hp hs]; exact hch
  have hreq : r = (getInfo p).2 ++ applyReqs inp.active p s := by
    rcases cycle_reqs swr sc inp _ rfl with ⟨_, _, hrq⟩ | ⟨hbad, _⟩
    · rw [hrq] at hr
      have h1 : (getReqsOf inp)[i]? = some (getInfo p).2 := by rw [getReqsOf_get, hp]; rfl
      have hz : (inp.probes.zip (cycle swr sc inp).final)[i]? = some (p, s) :=
        List.getElem?_zip_eq_some.mpr ⟨hp, hs⟩
      have h2 : ((inp.probes.zip (cycle swr sc inp).final).map fun x => applyReqs inp.active x.1 x.2)[i]?
          = some (applyReqs inp.active p s) := by
        rw [List.getElem?_map, hz]; rfl
      rw [zipmap_get _ _ _ i _ _ h1 h2] at hr
      exact (Option.some.inj hr).symm
    · rcases hbad with h | h
      · rw [hnc] at h; cases h
      · rw [hne] at h; cases h
  have hbody : body inp.active s = [] := by unfold body planned; simp [hemp]
  unfold C07.needed
  rw [hreq, hsync, hrep]
  have hpb : postedBody ((getInfo p).2 ++ applyReqs inp.active p s) =
      if s.changeable && needUpdate (p.status.getD []) (body inp.active s) then some (body inp.active s) else none :=
    postedBody_apply inp.active p s
  unfold afterKeys
  rw [hpb, hbody, hrep, hidle]
  split
  · rename_i b hb
    have : b = [] := by
      split at hb
      · exact (Option.some.inj hb).symm
      · cases hb
    subst this
    simp [AL.keys]
  · simp [AL.keys]

end Kvass.Coord

namespace Kvass.Coord
open Kvass Kvass.Spec

theorem finish_cases (sc : Sched) (inp : Input) (ss1 : List SI) (c3 : CS) (picks : List Nat) (need : Space)
    (hnc : (finish sc inp ss1 c3 picks need).crashed = false) :
    (Gen.needUp (Gen.spaceIsZero need) = true ∧ (finish sc inp ss1 c3 picks need).final = c3.shards ∧
      (finish sc inp ss1 c3 picks need).scales = earlyScales inp ++ [clamp inp.opt (tryScaleUp inp.opt c3.shards need)]) ∨
    (Gen.needUp (Gen.spaceIsZero need) = false ∧ Gen.scaleDownOn inp.opt = true ∧
      (finish sc inp ss1 c3 picks need).final = (tryScaleDown inp.opt sc c3 picks).2.shards ∧
      (finish sc inp ss1 c3 picks need).scales = earlyScales inp ++ [clamp inp.opt (tryScaleDown inp.opt sc c3 picks).1]) ∨
    (Gen.needUp (Gen.spaceIsZero need) = false ∧ Gen.scaleDownOn inp.opt = false ∧
      (finish sc inp ss1 c3 picks need).final = c3.shards ∧
      (finish sc inp ss1 c3 picks need).scales = earlyScales inp ++ [clamp inp.opt (c3.shards.length : Int)]) := by
  have hc3 := (finish_grows sc inp ss1 c3 picks need hnc).1
  by_cases hup : Gen.needUp (Gen.spaceIsZero need) = true
  · left
    exact ⟨hup, finish_up sc inp ss1 c3 picks need hnc hup⟩
  · have hup' : Gen.needUp (Gen.spaceIsZero need) = false := by simpa using hup
    right
    unfold finish at hnc ⊢
    simp only at hnc ⊢
    split at hnc
    · cases hnc
    · rename_i hcr
      have hdiv : divCrash inp.opt need = false := by
        simp only [Bool.or_eq_true, not_or, Bool.not_eq_true] at hcr; exact hcr.2
      simp only [hdiv, hc3, Bool.or_self, Bool.false_eq_true, if_false, hup'] at hnc ⊢
      by_cases hsd : Gen.scaleDownOn inp.opt = true
      · left
        simp only [hsd, if_true] at hnc ⊢
        refine ⟨trivial, trivial, ?_⟩
        split at hnc
        · cases hnc
        · rename_i h4
          simp only [h4, Bool.false_eq_true, if_false, Sites.finalScaleArg_eq]
          exact ⟨trivial, trivial⟩
      · right
        have hsd' : Gen.scaleDownOn inp.opt = false := by simpa using hsd
        simp only [hsd', Bool.false_eq_true, if_false, hc3, Sites.finalScaleArg_eq, Sites.scaleInit_eq]
        exact ⟨trivial, trivial, trivial, trivial⟩

end Kvass.Coord
