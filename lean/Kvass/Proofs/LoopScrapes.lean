/-
  Young copies grow old: scrapes change neither who holds what nor the states, the scrape counters
  count them.  Hence a world that has the shape of a settled one but whose copies are still young
  is settled once every sidecar has scraped each of its targets three more times — and the next
  fault-free cycle repairs it (C06: recovery within a bounded number of cycles and scrapes).
-/
import Kvass.Proofs.LoopFaulty

namespace Kvass.Loop
open Kvass Kvass.Coord Kvass.Spec

def isScrape : Op → Bool
  | .scrape _ _ _ => true
  | _ => false

/-- how often the history scrapes target `h` on shard `i` -/
def scrapeCount (ops : List Op) (i : Nat) (h : Hash) : Nat :=
  (ops.filter fun op => match op with | .scrape j k _ => j == i && k == h | _ => false).length

theorem scrapeCount_cons (op : Op) (ops : List Op) (i : Nat) (h : Hash) :
    scrapeCount (op :: ops) i h =
      (match op with | .scrape j k _ => if j = i ∧ k = h then 1 else 0 | _ => 0) + scrapeCount ops i h := by
  unfold scrapeCount
  rw [List.filter_cons]
  cases op with
  | scrape j k r =>
    simp only
    by_cases hc : j = i ∧ k = h
    · obtain ⟨rfl, rfl⟩ := hc; simp; omega
    · have : (j == i && k == h) = false := by
        cases hji : decide (j = i) <;> cases hkh : decide (k = h) <;> simp_all
      simp [this, hc]
  | cycle _ _ _ => simp
  | restart _ => simp
  | update _ _ => simp
  | setReplicas _ => simp
  | discover _ _ => simp

/-- what scrapes do to one sidecar's report: same keys, same states, counters advanced -/
def ScrRel (n : Hash → Nat) (sh sh' : Shard) : Prop :=
  ∀ h, ((statusOf sh).get h = none → (statusOf sh').get h = none) ∧
    ∀ v, (statusOf sh).get h = some v → ∃ v', (statusOf sh').get h = some v' ∧ v'.state = v.state ∧ v'.times = v.times + n h

theorem statusOf_get (sh : Shard) (h : Hash) : (statusOf sh).get h = (sh.sc.status.get h).map stOf := by
  unfold statusOf; exact AL.get_map _ _ _

theorem scrRel_refl (sh : Shard) : ScrRel (fun _ => 0) sh sh :=
  fun _ => ⟨id, fun v hv => ⟨v, hv, rfl, rfl⟩⟩

/-- one scrape of `k` -/
theorem scrRel_scrape (sh : Shard) (k : Hash) (r : Option (Int × Int)) :
    ScrRel (fun h => if k = h then 1 else 0) sh ⟨Sidecar.scrape sh.sc k r, sh.clock + 1⟩ := by
  intro h
  rw [statusOf_get, statusOf_get]
  show (_ → (Option.map stOf ((Sidecar.scrape sh.sc k r).status.get h)) = none) ∧ ∀ v, _ →
    ∃ v', Option.map stOf ((Sidecar.scrape sh.sc k r).status.get h) = some v' ∧ _
  cases hk : sh.sc.status.get k with
  | none =>
    have : Sidecar.scrape sh.sc k r = sh.sc := by unfold Sidecar.scrape; rw [hk]
    rw [this]
    refine ⟨id, fun v hv => ⟨v, hv, rfl, ?_⟩⟩
    by_cases hkh : k = h
    · subst hkh; rw [hk] at hv; cases hv
    · simp [hkh]
  | some st =>
    obtain ⟨⟨st', hst', ht, hs, _⟩, hoth, _, _⟩ := Props.C10.C10_scrape sh.sc k r st hk
    by_cases hkh : k = h
    · subst hkh
      rw [hst', hk]
      refine ⟨(fun hn => by simp at hn), fun v hv => ?_⟩
      simp only [Option.map_some, Option.some.injEq] at hv
      subst hv
      exact ⟨stOf st', rfl, hs, by simp [stOf, ht]⟩
    · rw [hoth h (fun e => hkh e.symm)]
      refine ⟨id, fun v hv => ⟨v, hv, rfl, by simp [hkh]⟩⟩

theorem scrRel_trans {n m : Hash → Nat} {a b c : Shard} (h1 : ScrRel n a b) (h2 : ScrRel m b c) :
    ScrRel (fun h => n h + m h) a c := by
  intro h
  refine ⟨fun hn => (h2 h).1 ((h1 h).1 hn), fun v hv => ?_⟩
  obtain ⟨v', hv', s1, t1⟩ := (h1 h).2 v hv
  obtain ⟨v'', hv'', s2, t2⟩ := (h2 h).2 v' hv'
  exact ⟨v'', hv'', by rw [s2, s1], by show v''.times = v.times + (n h + m h); rw [t2, t1]; omega⟩

theorem onShard_running (w : World) (j : Nat) (f : Shard → Shard) (i : Nat) (sh : Shard)
    (hrun : w.running[i]? = some sh) :
    (onShard w j f).running[i]? = some (if j = i then f sh else sh) ∧ (onShard w j f).replicas = w.replicas ∧
      (onShard w j f).active = w.active ∧ (onShard w j f).explore = w.explore ∧
      (onShard w j f).shards.length = w.shards.length := by
  have hil : i < w.replicas := by
    rcases Nat.lt_or_ge i w.replicas with hl | hl
    · exact hl
    · unfold World.running at hrun
      rw [List.getElem?_take_eq_none hl] at hrun; cases hrun
  have hsi : w.shards[i]? = some sh := by
    unfold World.running at hrun
    rw [List.getElem?_take_of_lt hil] at hrun; exact hrun
  unfold onShard
  split
  · cases hs : w.shards[j]? with
    | none =>
      simp only
      have hji : j ≠ i := by intro e; subst e; rw [hs] at hsi; cases hsi
      simp [hji, hrun]
    | some shj =>
      simp only
      refine ⟨?_, by first | rfl | trivial, by first | rfl | trivial, by first | rfl | trivial, by simp⟩
      unfold World.running
      simp only
      rw [List.getElem?_take_of_lt hil]
      by_cases hji : j = i
      · subst hji
        rw [hs] at hsi; cases hsi
        rw [getElem?_set_self' hs]; simp
      · rw [getElem?_set_ne' hji]; simp [hji, hsi]
  · rename_i hj
    have hji : j ≠ i := by intro e; subst e; exact hj hil
    simp [hji, hrun]

/-- **scrapes only count**: after any sequence of scrapes (any shards, any targets, any results) the
    StatefulSet, the discovered set and the estimates are unchanged, and every running sidecar reports
    the same targets in the same states, each counter advanced by the number of its scrapes -/
theorem run_scrapes (swr : Swr) (env : Env) :
    ∀ (ops : List Op) (w : World), (∀ op ∈ ops, isScrape op = true) →
      (run swr env w ops).replicas = w.replicas ∧ (run swr env w ops).active = w.active ∧
      (run swr env w ops).explore = w.explore ∧ (run swr env w ops).shards.length = w.shards.length ∧
      ∀ (i : Nat) (sh : Shard), w.running[i]? = some sh →
        ∃ sh', (run swr env w ops).running[i]? = some sh' ∧ ScrRel (scrapeCount ops i) sh sh' := by
  intro ops
  induction ops with
  | nil =>
    intro w _
    refine ⟨rfl, rfl, rfl, rfl, fun i sh h => ⟨sh, h, ?_⟩⟩
    have : scrapeCount [] i = fun _ => 0 := by funext k; simp [scrapeCount]
    rw [this]; exact scrRel_refl sh
  | cons op ops ih =>
    intro w hall
    have hop := hall op List.mem_cons_self
    cases op with
    | scrape j k r =>
      obtain ⟨e1, e2, e3, e4, e5⟩ := ih (step swr env w (.scrape j k r)) (fun o ho => hall o (List.mem_cons_of_mem _ ho))
      have hstep : step swr env w (.scrape j k r) = onShard w j fun sh => ⟨Sidecar.scrape sh.sc k r, sh.clock + 1⟩ := rfl
      refine ⟨?_, ?_, ?_, ?_, ?_⟩
      · show (run swr env (step swr env w (.scrape j k r)) ops).replicas = _
        rw [e1, hstep]
        unfold onShard; split
        · cases w.shards[j]? <;> rfl
        · rfl
      · show (run swr env (step swr env w (.scrape j k r)) ops).active = _
        rw [e2, hstep]
        unfold onShard; split
        · cases w.shards[j]? <;> rfl
        · rfl
      · show (run swr env (step swr env w (.scrape j k r)) ops).explore = _
        rw [e3, hstep]
        unfold onShard; split
        · cases w.shards[j]? <;> rfl
        · rfl
      · show (run swr env (step swr env w (.scrape j k r)) ops).shards.length = _
        rw [e4, hstep]
        unfold onShard; split
        · cases w.shards[j]? <;> simp
        · rfl
      · intro i sh hrun
        obtain ⟨h1, _⟩ := onShard_running w j (fun sh => ⟨Sidecar.scrape sh.sc k r, sh.clock + 1⟩) i sh hrun
        rw [← hstep] at h1
        obtain ⟨sh', hsh', hrel⟩ := e5 i _ h1
        refine ⟨sh', hsh', ?_⟩
        have hfirst : ScrRel (fun h => if j = i ∧ k = h then 1 else 0) sh
            (if j = i then ⟨Sidecar.scrape sh.sc k r, sh.clock + 1⟩ else sh) := by
          by_cases hji : j = i
          · simp only [hji, true_and, if_true]; exact scrRel_scrape sh k r
          · simp only [hji, false_and, if_false]; exact scrRel_refl sh
        have := scrRel_trans hfirst hrel
        intro h
        have e : scrapeCount (Op.scrape j k r :: ops) i h = (if j = i ∧ k = h then 1 else 0) + scrapeCount ops i h := by
          rw [scrapeCount_cons]
        rw [e]
        exact this h
    | cycle _ _ _ => cases hop
    | restart _ => cases hop
    | update _ _ => cases hop
    | setReplicas _ => cases hop
    | discover _ _ => cases hop

/-- the shape of a settled world, without the scrape counters: every target on at most two running
    sidecars, and then as source and destination of a move or twice in normal state -/
structure Shape2 (env : Env) (w : World) : Prop where
  rep : w.replicas ≤ w.shards.length
  keys : ∀ sh ∈ w.shards, sh.sc.status.keys.Nodup
  pairs : ∀ (i j : Nat) (shi shj : Shard) (h : Hash) (vi vj : St), w.running[i]? = some shi → w.running[j]? = some shj →
    i ≠ j → (statusOf shi).get h = some vi → (statusOf shj).get h = some vj →
    (vi.state = .inTransfer ∧ vj.state = .normal) ∨ (vj.state = .inTransfer ∧ vi.state = .normal) ∨
    (vi.state = .normal ∧ vj.state = .normal)
  two : ∀ (i j k : Nat) (shi shj shk : Shard) (h : Hash), w.running[i]? = some shi → w.running[j]? = some shj →
    w.running[k]? = some shk → (statusOf shi).has h = true → (statusOf shj).has h = true → (statusOf shk).has h = true →
    i = j ∨ i = k ∨ j = k
  active : ∀ sh ∈ w.running, ∀ h v, (statusOf sh).get h = some v → h ∈ w.active
  minOk : env.opt.minShard ≤ (w.replicas : Int)
  maxOk : (w.replicas : Int) ≤ env.opt.maxShard
  noDown : env.opt.idleOn = false

theorem running_inv {w : World} {i : Nat} {sh : Shard} (h : w.running[i]? = some sh) :
    i < w.replicas ∧ w.shards[i]? = some sh := by
  have hil : i < w.replicas := by
    rcases Nat.lt_or_ge i w.replicas with hl | hl
    · exact hl
    · unfold World.running at h
      rw [List.getElem?_take_eq_none hl] at h; cases h
  refine ⟨hil, ?_⟩
  unfold World.running at h
  rw [List.getElem?_take_of_lt hil] at h; exact h

/-- the sidecars' key lists stay duplicate-free under scrapes -/
theorem run_scrapes_keys (swr : Swr) (env : Env) :
    ∀ (ops : List Op) (w : World), (∀ op ∈ ops, isScrape op = true) →
      (∀ sh ∈ w.shards, sh.sc.status.keys.Nodup) → ∀ sh ∈ (run swr env w ops).shards, sh.sc.status.keys.Nodup := by
  intro ops
  induction ops with
  | nil => intro w _ h; exact h
  | cons op ops ih =>
    intro w hall hk
    have hop := hall op List.mem_cons_self
    cases op with
    | scrape j k r =>
      apply ih (step swr env w (.scrape j k r)) (fun o ho => hall o (List.mem_cons_of_mem _ ho))
      intro sh hm
      have hstep : step swr env w (.scrape j k r) = onShard w j fun sh => ⟨Sidecar.scrape sh.sc k r, sh.clock + 1⟩ := rfl
      rw [hstep] at hm
      unfold onShard at hm
      split at hm
      · cases hs : w.shards[j]? with
        | none => rw [hs] at hm; exact hk sh hm
        | some shj =>
          rw [hs] at hm
          simp only at hm
          rcases List.mem_or_eq_of_mem_set hm with hm | rfl
          · exact hk sh hm
          · show (Sidecar.scrape shj.sc k r).status.keys.Nodup
            have hn := hk shj (List.mem_of_getElem? hs)
            unfold Sidecar.scrape
            split
            · exact hn
            · exact AL.keys_set_nodup _ _ _ hn
      · exact hk sh hm
    | cycle _ _ _ => cases hop
    | restart _ => cases hop
    | update _ _ => cases hop
    | setReplicas _ => cases hop
    | discover _ _ => cases hop

/-- **young copies grow old.**  A world with the shape of a settled one becomes settled when every
    running sidecar scrapes each of its targets at least three times, whatever the results and the
    order — provided the loads after those scrapes are calm and every discovered target is held or
    unplaceable (the scrapes may change the series values, they cannot change who holds what). -/
theorem settled_after_scrapes (swr : Swr) (env : Env) (w : World) (ops : List Op)
    (hs : Shape2 env w) (hall : ∀ op ∈ ops, isScrape op = true)
    (h3 : ∀ (i : Nat) (sh : Shard) (h : Hash), w.running[i]? = some sh → (statusOf sh).has h = true → 3 ≤ scrapeCount ops i h)
    (hcalm : env.opt.disableAlleviate = true ∨ CalmSS swr env.opt (infos0 (inputOf env (run swr env w ops) [] false)))
    (hplaced : ∀ h ∈ w.active, (scrapingSetOf (infos0 (inputOf env (run swr env w ops) [] false))).contains h = true ∨
      Gen.assignSkip (globalOf (infos0 (inputOf env (run swr env w ops) [] false)) w.explore h) = true ∨
      Gen.tooBig env.opt (globalOf (infos0 (inputOf env (run swr env w ops) [] false)) w.explore h) = true) :
    Settled2 swr env (run swr env w ops) := by
  obtain ⟨e1, e2, e3, e4, e5⟩ := run_scrapes swr env ops w hall
  have hrl := running_length w hs.rep
  -- every running sidecar of the new world comes from one of the old world
  have back : ∀ (i : Nat) (sh' : Shard), (run swr env w ops).running[i]? = some sh' →
      ∃ sh, w.running[i]? = some sh ∧ ScrRel (scrapeCount ops i) sh sh' := by
    intro i sh' hrun'
    obtain ⟨hil, _⟩ := running_inv hrun'
    rw [e1] at hil
    have hrun : w.running[i]? = some w.running[i] := by simp [hrl, hil]
    obtain ⟨sh'', h1, h2⟩ := e5 i _ hrun
    rw [hrun'] at h1; cases h1
    exact ⟨_, hrun, h2⟩
  -- an entry of the new world: the old entry, same state, at least three scrapes
  have ent : ∀ (i : Nat) (sh sh' : Shard) (h : Hash) (v' : St), w.running[i]? = some sh →
      ScrRel (scrapeCount ops i) sh sh' → (statusOf sh').get h = some v' →
      ∃ v, (statusOf sh).get h = some v ∧ v'.state = v.state ∧ 3 ≤ v'.times := by
    intro i sh sh' h v' hrun hrel hv'
    cases hv : (statusOf sh).get h with
    | none => rw [(hrel h).1 hv] at hv'; cases hv'
    | some v =>
      obtain ⟨v'', hv'', s1, t1⟩ := (hrel h).2 v hv
      rw [hv'] at hv''; cases hv''
      have := h3 i sh h hrun ((AL.has_iff _ _).mpr ⟨v, hv⟩)
      exact ⟨v, rfl, s1, by omega⟩
  have hasb : ∀ (i : Nat) (sh sh' : Shard) (h : Hash), ScrRel (scrapeCount ops i) sh sh' →
      (statusOf sh').has h = true → (statusOf sh).has h = true := by
    intro i sh sh' h hrel hh
    cases hv : (statusOf sh).get h with
    | none =>
      obtain ⟨v', hv'⟩ := (AL.has_iff _ _).mp hh
      rw [(hrel h).1 hv] at hv'; cases hv'
    | some v => exact (AL.has_iff _ _).mpr ⟨v, hv⟩
  refine ⟨by rw [e1, e4]; exact hs.rep, ?_, ?_, ?_, ?_, ?_, hcalm, by rw [e2, e3]; exact hplaced,
    by rw [e1]; exact hs.minOk, by rw [e1]; exact hs.maxOk, hs.noDown⟩
  · intro sh' hm
    rw [reported_keys_statusOf]
    exact run_scrapes_keys swr env ops w hall hs.keys sh' (List.mem_of_mem_take hm)
  · intro i j shi' shj' h vi' vj' hi hj hij hvi hvj
    obtain ⟨shi, hri, reli⟩ := back i shi' hi
    obtain ⟨shj, hrj, relj⟩ := back j shj' hj
    obtain ⟨vi, hgi, si, ti⟩ := ent i shi shi' h vi' hri reli hvi
    obtain ⟨vj, hgj, sj, tj⟩ := ent j shj shj' h vj' hrj relj hvj
    rcases hs.pairs i j shi shj h vi vj hri hrj hij hgi hgj with ⟨a, b⟩ | ⟨a, b⟩ | ⟨a, b⟩
    · exact Or.inl ⟨by rw [si]; exact a, by rw [sj]; exact b, tj⟩
    · exact Or.inr (Or.inl ⟨by rw [sj]; exact a, by rw [si]; exact b, ti⟩)
    · exact Or.inr (Or.inr ⟨by rw [si]; exact a, by rw [sj]; exact b, ti, tj⟩)
  · intro i j k shi' shj' shk' h hi hj hk hhi hhj hhk
    obtain ⟨shi, hri, reli⟩ := back i shi' hi
    obtain ⟨shj, hrj, relj⟩ := back j shj' hj
    obtain ⟨shk, hrk, relk⟩ := back k shk' hk
    exact hs.two i j k shi shj shk h hri hrj hrk (hasb i shi shi' h reli hhi) (hasb j shj shj' h relj hhj)
      (hasb k shk shk' h relk hhk)
  · intro sh' hm h v' hv'
    obtain ⟨i, hi⟩ := List.getElem?_of_mem hm
    obtain ⟨sh, hri, rel⟩ := back i sh' hi
    obtain ⟨v, hg, _, _⟩ := ent i sh sh' h v' hri rel hv'
    rw [e2]
    exact hs.active sh (List.mem_of_getElem? hri) h v hg
  · intro sh' hm h v' hv' _
    obtain ⟨i, hi⟩ := List.getElem?_of_mem hm
    obtain ⟨sh, hri, rel⟩ := back i sh' hi
    obtain ⟨v, _, _, t⟩ := ent i sh sh' h v' hri rel hv'
    exact t

end Kvass.Loop

namespace Kvass.Loop
open Kvass Kvass.Coord Kvass.Spec

/-- **bounded recovery**: from a world with the shape of a settled one — any mixture of copies in
    transfer with or without partner and of normal-state duplicates, however young — three scrapes
    of every held target on every running sidecar followed by one fault-free cycle lead to the
    converged state: same StatefulSet size, everything reported is in normal state, nothing is
    reported twice, and every target that was reported at the start is still reported. -/
theorem recovers_after_scrapes (swr : Swr) (env : Env) (w : World) (ops : List Op) (sc : Sched)
    (hs : Shape2 env w) (hall : ∀ op ∈ ops, isScrape op = true)
    (h3 : ∀ (i : Nat) (sh : Shard) (h : Hash), w.running[i]? = some sh → (statusOf sh).has h = true → 3 ≤ scrapeCount ops i h)
    (hcalm : env.opt.disableAlleviate = true ∨ CalmSS swr env.opt (infos0 (inputOf env (run swr env w ops) [] false)))
    (hplaced : ∀ h ∈ w.active, (scrapingSetOf (infos0 (inputOf env (run swr env w ops) [] false))).contains h = true ∨
      Gen.assignSkip (globalOf (infos0 (inputOf env (run swr env w ops) [] false)) w.explore h) = true ∨
      Gen.tooBig env.opt (globalOf (infos0 (inputOf env (run swr env w ops) [] false)) w.explore h) = true) :
    (run swr env w (ops ++ [.cycle sc [] false])).replicas = w.replicas ∧
    (∀ (i : Nat) (sh' : Shard) (h : Hash) (v : St), i < w.replicas →
      (run swr env w (ops ++ [.cycle sc [] false])).shards[i]? = some sh' →
      (statusOf sh').get h = some v → v.state = .normal) ∧
    (∀ (i j : Nat) (shi shj : Shard) (h : Hash), i < w.replicas → j < w.replicas → i ≠ j →
      (run swr env w (ops ++ [.cycle sc [] false])).shards[i]? = some shi →
      (run swr env w (ops ++ [.cycle sc [] false])).shards[j]? = some shj →
      (statusOf shi).has h = true → (statusOf shj).has h = true → False) ∧
    (∀ (i : Nat) (sh : Shard) (h : Hash), w.running[i]? = some sh → (statusOf sh).has h = true →
      ∃ (d : Nat) (shd : Shard), d < w.replicas ∧
        (run swr env w (ops ++ [.cycle sc [] false])).shards[d]? = some shd ∧ (statusOf shd).has h = true) := by
  have hset := settled_after_scrapes swr env w ops hs hall h3 hcalm hplaced
  obtain ⟨e1, _, _, _, e5⟩ := run_scrapes swr env ops w hall
  have hrun : run swr env w (ops ++ [.cycle sc [] false]) = step swr env (run swr env w ops) (.cycle sc [] false) := by
    unfold run; rw [List.foldl_append]; rfl
  rw [hrun]
  obtain ⟨c1, c2, c3, c4⟩ := loop_settles2_converged swr env (run swr env w ops) sc hset
  rw [e1] at c1 c2 c3 c4
  refine ⟨c1, c2, c3, ?_⟩
  intro i sh h hri hh
  obtain ⟨sh', hsh', hrel⟩ := e5 i sh hri
  obtain ⟨v, hv⟩ := (AL.has_iff _ _).mp hh
  obtain ⟨v', hv', _, _⟩ := (hrel h).2 v hv
  exact c4 i sh' h hsh' ((AL.has_iff _ _).mpr ⟨v', hv'⟩)

end Kvass.Loop
