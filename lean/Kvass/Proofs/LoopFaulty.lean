/-
  The closed loop under faults: whatever goes wrong between the coordinator and the shards in a
  cycle (shards not ready, status or runtime reads failing, configuration out of sync, updates
  lost, `ChangeScale` failing, the coordinator crashing), a discovered target that some running
  sidecar holds is held by a running sidecar afterwards — and this carries over every history of
  cycles, scrapes and sidecar restarts.
-/
import Kvass.Proofs.LoopStay
import Kvass.Props.C10

namespace Kvass.Coord
open Kvass Kvass.Spec

/-- **a reporter keeps it**: if an in-sync shard reports a discovered target, some in-sync shard
    that reports it still has it in the final plan (the stages after `gcTargets` only add keys, and
    `gcTargets` drops a copy only next to an in-sync shard that keeps its own) -/
theorem reporter_keeps (swr : Swr) (sc : Sched) (inp : Input) (hne : stopsEarly inp = false)
    {i : Nat} {p : Probe} {h : Hash} (hp : inp.probes[i]? = some p)
    (hr : (reported p).has h = true) (ha : h ∈ inp.active) :
    ∃ (y : Nat) (q : Probe) (sy : SI), inp.probes[y]? = some q ∧ (inSync q = true ∨ y = i) ∧ (reported q).has h = true ∧
      (cycle swr sc inp).final[y]? = some sy ∧ sy.scraping.has h = true := by
  have inv := gc_inv inp.opt inp.active (infos0 inp)
  have grow := cycle_grows swr sc inp hne
  have hfinal : (cycle swr sc inp).cs.shards = (cycle swr sc inp).final := rfl
  have h0 : (infos0 inp)[i]? = some (getInfo p).1 := by rw [infos0_get, hp]; rfl
  obtain ⟨s1, hs1⟩ := getElem?_of_length_eq inv.len h0
  obtain ⟨v0, hv0⟩ := (AL.has_iff _ _).mp hr
  have hv0' : (getInfo p).1.scraping.get h = some v0 := by rw [getInfo_scraping]; exact hv0
  cases hg : s1.scraping.get h with
  | some v =>
    obtain ⟨s, hs, _, hk⟩ := grow.2 i s1 hs1
    obtain ⟨v', hv'⟩ := hk h v hg
    rw [hfinal] at hs
    exact ⟨i, p, s, hp, Or.inr rfl, hr, hs, (AL.has_iff _ _).mpr ⟨v', hv'⟩⟩
  | none =>
    obtain ⟨_, j, vj, _, ⟨sj, hsj, hchj, hgj⟩, _⟩ := inv.lost i (getInfo p).1 s1 h v0 h0 hs1 hv0' hg ha
    obtain ⟨s0j, h0j, hcj, _, hsub, _⟩ := inv.same j sj hsj
    obtain ⟨q, hq, rfl⟩ := infos0_get_some h0j
    obtain ⟨v0j, hv0j, _⟩ := hsub h vj hgj
    obtain ⟨s, hs, _, hk⟩ := grow.2 j sj hsj
    obtain ⟨v', hv'⟩ := hk h vj hgj
    rw [hfinal] at hs
    refine ⟨j, q, s, hq, Or.inl ?_, ?_, hs, (AL.has_iff _ _).mpr ⟨v', hv'⟩⟩
    · rw [← getInfo_changeable, ← hcj]; exact hchj
    · rw [← getInfo_scraping]; exact (AL.has_iff _ _).mpr ⟨v0j, hv0j⟩

end Kvass.Coord

namespace Kvass.Loop
open Kvass Kvass.Coord Kvass.Spec

theorem inputOf_probe_f (env : Env) (w : World) (F : List Fault) (b : Bool) (i : Nat) (sh : Shard)
    (h : w.running[i]? = some sh) :
    (inputOf env w F b).probes[i]? = some (probeOf env sh (faultAt F i)) := by
  unfold inputOf
  simp only
  rw [List.getElem?_map]
  have : w.running.zipIdx[i]? = some (sh, i) := by
    rw [List.getElem?_zipIdx, h]; simp
  rw [this]
  rfl

/-- what a probe reports is what the sidecar holds, or nothing -/
theorem reported_probeOf_sub (env : Env) (sh : Shard) (f : Fault) (h : Hash)
    (hr : (reported (probeOf env sh f)).has h = true) : (statusOf sh).has h = true := by
  unfold reported probeOf at hr
  simp only at hr
  cases hn : f.notReady <;> cases hs : f.statusFail <;> simp [hn, hs, AL.has, AL.get] at hr ⊢
  exact hr

/-- an in-sync probe reports the sidecar's whole status -/
theorem reported_probeOf_sync (env : Env) (sh : Shard) (f : Fault) (hs : inSync (probeOf env sh f) = true) :
    reported (probeOf env sh f) = statusOf sh := by
  unfold inSync probeOf at hs
  unfold reported probeOf
  cases hn : f.notReady <;> cases hst : f.statusFail <;> simp [hn, hst] at hs ⊢

/-- a sidecar-produced probe that reports an expired idle time reports no target -/
theorem hprod_f (env : Env) (w : World) (F : List Fault) (b : Bool)
    (hidle : ∀ sh ∈ w.running, Sidecar.IdleInv sh.sc) :
    ∀ p ∈ (inputOf env w F b).probes, (effRt p).idle = .expired → reported p = [] := by
  intro p hpm hexp
  obtain ⟨x, hx⟩ := List.getElem?_of_mem hpm
  have hxl : x < w.running.length := by
    have := (List.getElem?_eq_some_iff.mp hx).1
    rw [inputOf_probes_length] at this; exact this
  have hrx : w.running[x]? = some w.running[x] := by simp [hxl]
  have := inputOf_probe_f env w F b x _ hrx
  rw [hx] at this
  cases this
  have hi := hidle _ (List.mem_of_getElem? hrx)
  generalize faultAt F x = f at hexp ⊢
  have hidleAt : (w.running[x]).sc.idleAt ≠ none := by
    intro hnone
    unfold effRt probeOf at hexp
    cases hrf : f.rtFail <;> cases hos : f.outOfSync <;> cases hpk : f.pushOk <;>
      simp [hrf, hos, hpk, rtOf, Sidecar.runtime, idleOf, hnone] at hexp
  have hst : (w.running[x]).sc.status = [] := by
    cases hstat : (w.running[x]).sc.status with
    | nil => rfl
    | cons a as =>
      exfalso
      exact hidleAt (hi (by rw [hstat]; simp))
  have hso : statusOf (w.running[x]) = [] := by unfold statusOf; rw [hst]; rfl
  unfold reported probeOf
  simp only [hso]
  cases f.notReady <;> cases f.statusFail <;> rfl

theorem applyOutcome_shard_f (w : World) (F : List Fault) (out : Outcome) (i : Nat) (sh : Shard)
    (hrep : w.replicas ≤ w.shards.length) (hrun : w.running[i]? = some sh) :
    (applyOutcome w F out).shards[i]? = some (match out.reqs[i]?, out.final[i]? with
      | some rs, some fin => applyShard w.active sh (faultAt F i) rs fin
      | _, _ => sh) ∧ (applyOutcome w F out).replicas = w.replicas := by
  have hrl := running_length w hrep
  have hilt : i < w.replicas := by
    have := (List.getElem?_eq_some_iff.mp hrun).1
    rw [hrl] at this; exact this
  refine ⟨?_, rfl⟩
  unfold applyOutcome
  simp only
  rw [List.getElem?_append_left (by simp [List.length_zipIdx, hrl, hilt])]
  rw [List.getElem?_map]
  have hz : w.running.zipIdx[i]? = some (sh, i) := by rw [List.getElem?_zipIdx, hrun]; simp
  rw [hz]
  rfl

theorem applyShard_noPost (active : List Hash) (sh : Shard) (f : Fault) (rs : List Req) (fin : SI)
    (h : rs.any isPost = false) : applyShard active sh f rs fin = sh := by
  unfold applyShard; simp [h]

theorem getInfo_noIsPost (p : Probe) : (getInfo p).2.any isPost = false := by
  rw [List.any_eq_false]
  intro q hq
  have := (getInfo_noPost p q hq).1
  cases q <;> simp_all [isPost, C08.isPostT]

/-- whether or not the update arrives: a sidecar that holds `h` and whose plan holds `h` holds `h` -/
theorem applyShard_keeps (active : List Hash) (sh : Shard) (f : Fault) (rs : List Req) (fin : SI) (h : Hash)
    (hnd : fin.scraping.keys.Nodup) (hheld : (statusOf sh).has h = true) (hfin : fin.scraping.has h = true)
    (ha : h ∈ active) : (statusOf (applyShard active sh f rs fin)).has h = true := by
  unfold applyShard
  split
  · obtain ⟨v, hv⟩ := (AL.has_iff _ _).mp hfin
    have hpl : (planned active fin).get h = some v := by
      rw [planned_get]; simp [ha, hv]
    have hk := ((update_report active sh fin hnd).1 h).mpr (AL.get_some_mem_keys _ _ _ hpl)
    obtain ⟨r, hr⟩ := AL.mem_keys_get _ _ hk
    exact (AL.has_iff _ _).mpr ⟨r, hr⟩
  · exact hheld

theorem running_of_shards (w : World) (d : Nat) (sh : Shard) (hd : d < w.replicas) (hs : w.shards[d]? = some sh) :
    w.running[d]? = some sh := by
  unfold World.running
  rw [List.getElem?_take_of_lt hd]; exact hs

/-- from the state after the requests to the state after the step, faults included -/
theorem cycleStep_shard_f (swr : Swr) (env : Env) (w : World) (sc : Sched) (F : List Fault) (b : Bool)
    (d : Nat) (shd : Shard) (hrep : w.replicas ≤ w.shards.length) (hd : d < w.replicas)
    (hk : ∀ k ∈ (cycle swr sc (inputOf env w F b)).scales, (d : Int) < k)
    (hsh : (applyOutcome w F (cycle swr sc (inputOf env w F b))).shards[d]? = some shd) :
    (cycleStep swr env w sc F b).1.shards[d]? = some shd ∧ d < (cycleStep swr env w sc F b).1.replicas := by
  unfold cycleStep
  simp only
  have hd1 : d < (applyOutcome w F (cycle swr sc (inputOf env w F b))).replicas := hd
  cases b with
  | true => simp only [if_true]; exact ⟨hsh, hd1⟩
  | false =>
    simp only [Bool.false_eq_true, if_false]
    exact ⟨resizes_keep d shd _ _ hk hd1 hsh, resizes_replicas d _ _ hk hd1⟩

/-- **closed-loop step under faults: a scraped target stays scraped.**  For every fault pattern
    and whether or not `ChangeScale` works: a discovered target that a running sidecar holds
    before the step is held by a running sidecar after it. -/
theorem step_keep_f (swr : Swr) (env : Env) (w : World) (sc : Sched) (F : List Fault) (b : Bool)
    (hrep : w.replicas ≤ w.shards.length)
    (hnd : ∀ sh ∈ w.running, (statusOf sh).keys.Nodup)
    (hidle : ∀ sh ∈ w.running, Sidecar.IdleInv sh.sc) (hmax : (w.replicas : Int) ≤ env.opt.maxShard)
    {i : Nat} {sh : Shard} {h : Hash} (hrun : w.running[i]? = some sh)
    (hr : (statusOf sh).has h = true) (ha : h ∈ w.active) :
    ∃ (d : Nat) (shd : Shard), d < (step swr env w (.cycle sc F b)).replicas ∧
      (step swr env w (.cycle sc F b)).shards[d]? = some shd ∧ (statusOf shd).has h = true := by
  show ∃ (d : Nat) (shd : Shard), d < (cycleStep swr env w sc F b).1.replicas ∧
      (cycleStep swr env w sc F b).1.shards[d]? = some shd ∧ _
  have hrl := running_length w hrep
  have hpl := inputOf_probes_length env w F b
  have hact : (inputOf env w F b).active = w.active := rfl
  -- distinct keys in every report
  have hndI : ∀ p ∈ (inputOf env w F b).probes, (reported p).keys.Nodup := by
    intro p hpm
    obtain ⟨k, hk⟩ := List.getElem?_of_mem hpm
    have hkl : k < w.running.length := by
      have := (List.getElem?_eq_some_iff.mp hk).1
      rw [hpl] at this; exact this
    have hrk : w.running[k]? = some w.running[k] := by simp [hkl]
    have := inputOf_probe_f env w F b k _ hrk
    rw [hk] at this
    cases this
    have hn := hnd _ (List.mem_of_getElem? hrk)
    unfold reported probeOf
    cases (faultAt F k).notReady <;> cases (faultAt F k).statusFail <;> simp [AL.keys] <;> exact hn
  -- a witness shard: reports `h` or is not in sync, and holds `h` after the requests
  have hwit : ∃ (y : Nat) (shy : Shard) (r : List Req), w.running[y]? = some shy ∧
      (cycle swr sc (inputOf env w F b)).reqs[y]? = some r ∧
      (inSync (probeOf env shy (faultAt F y)) = false ∨ (reported (probeOf env shy (faultAt F y))).has h = true) ∧
      ∃ shy', (applyOutcome w F (cycle swr sc (inputOf env w F b))).shards[y]? = some shy' ∧ (statusOf shy').has h = true := by
    have hp := inputOf_probe_f env w F b i sh hrun
    -- shard `i` itself, when it gets no update
    have self : ∀ r, (cycle swr sc (inputOf env w F b)).reqs[i]? = some r → r.any isPost = false →
        (inSync (probeOf env sh (faultAt F i)) = false ∨ (reported (probeOf env sh (faultAt F i))).has h = true) →
        ∃ (y : Nat) (shy : Shard) (r : List Req), w.running[y]? = some shy ∧
          (cycle swr sc (inputOf env w F b)).reqs[y]? = some r ∧
          (inSync (probeOf env shy (faultAt F y)) = false ∨ (reported (probeOf env shy (faultAt F y))).has h = true) ∧
          ∃ shy', (applyOutcome w F (cycle swr sc (inputOf env w F b))).shards[y]? = some shy' ∧ (statusOf shy').has h = true := by
      intro r hreq hnp hneed
      refine ⟨i, sh, r, hrun, hreq, hneed, sh, ?_, hr⟩
      rw [(applyOutcome_shard_f w F _ i sh hrep hrun).1, hreq]
      cases (cycle swr sc (inputOf env w F b)).final[i]? with
      | none => rfl
      | some fin => simp only; rw [applyShard_noPost _ _ _ _ _ hnp]
    cases hsync : inSync (probeOf env sh (faultAt F i)) with
    | false =>
      rcases reqs_cases swr sc (inputOf env w F b) hp with h1 | ⟨hne, s, hs, h2⟩
      · exact self _ h1 (getInfo_noIsPost _) (Or.inl hsync)
      · have hch := final_changeable swr sc (inputOf env w F b) hne hp hs
        rw [hsync] at hch
        have hnil : applyReqs (inputOf env w F b).active (probeOf env sh (faultAt F i)) s = [] := by
          unfold applyReqs; simp [hch]
        rw [hnil, List.append_nil] at h2
        exact self _ h2 (getInfo_noIsPost _) (Or.inl hsync)
    | true =>
      have hrep' := reported_probeOf_sync env sh (faultAt F i) hsync
      have hrh : (reported (probeOf env sh (faultAt F i))).has h = true := by rw [hrep']; exact hr
      cases hne : stopsEarly (inputOf env w F b) with
      | true =>
        rcases reqs_cases swr sc (inputOf env w F b) hp with h1 | ⟨hne', _⟩
        · exact self _ h1 (getInfo_noIsPost _) (Or.inr hrh)
        · rw [hne] at hne'; cases hne'
      | false =>
        obtain ⟨y, q, sy, hq, _, hqr, hfy, hsyh⟩ := reporter_keeps swr sc (inputOf env w F b) hne hp hrh ha
        have hyl : y < w.running.length := by
          have := (List.getElem?_eq_some_iff.mp hq).1
          rw [hpl] at this; exact this
        have hry : w.running[y]? = some w.running[y] := by simp [hyl]
        have hq' := inputOf_probe_f env w F b y _ hry
        rw [hq] at hq'; cases hq'
        have hheld : (statusOf w.running[y]).has h = true := reported_probeOf_sub env _ _ h hqr
        have hnodup := cycle_nodup swr sc (inputOf env w F b) hne hndI
        have hsn : sy.scraping.keys.Nodup := hnodup y sy hfy
        rcases reqs_cases swr sc (inputOf env w F b) hq with h1 | ⟨_, s, hs, h2⟩
        · refine ⟨y, _, _, hry, h1, Or.inr hqr, _, (applyOutcome_shard_f w F _ y _ hrep hry).1, ?_⟩
          rw [h1, hfy]
          simp only
          rw [applyShard_noPost _ _ _ _ _ (getInfo_noIsPost _)]
          exact hheld
        · rw [hfy] at hs; cases hs
          refine ⟨y, _, _, hry, h2, Or.inr hqr, _, (applyOutcome_shard_f w F _ y _ hrep hry).1, ?_⟩
          rw [h2, hfy]
          simp only
          exact applyShard_keeps w.active _ _ _ sy h hsn hheld hsyh ha
  obtain ⟨y, shy, r, hry, hreq, hneed, shy', hshy', hhas⟩ := hwit
  have hyl : y < w.replicas := by
    have := (List.getElem?_eq_some_iff.mp hry).1
    rw [hrl] at this; exact this
  -- the witness is needed, hence below every requested count
  have hq := inputOf_probe_f env w F b y shy hry
  have hneeded : C07.needed (inputOf env w F b) (probeOf env shy (faultAt F y)) r = true := by
    unfold C07.needed
    rcases hneed with hn | hn
    · simp [hn]
    · have : (reported (probeOf env shy (faultAt F y))).isEmpty = false := by
        cases hre : reported (probeOf env shy (faultAt F y)) with
        | nil => rw [hre] at hn; simp [AL.has, AL.get] at hn
        | cons a as => rfl
      simp [this]
  have hmem : (y, probeOf env shy (faultAt F y), r) ∈
      shardsOf (inputOf env w F b) (Obs.ofOutcome (cycle swr sc (inputOf env w F b))) :=
    mem_shardsOf.mpr ⟨hq, hreq⟩
  have hge := lastNeeded_ge _ _ hmem hneeded
  have hn : (((inputOf env w F b).probes.length : Nat) : Int) ≤ (inputOf env w F b).opt.maxShard := by
    rw [hpl, hrl]; exact hmax
  have hbelow : ∀ k ∈ (cycle swr sc (inputOf env w F b)).scales, (y : Int) < k := by
    intro k hk
    have := Props.C07.C07_keepsNeeded swr sc (inputOf env w F b) (hprod_f env w F b hidle) hn k hk
    omega
  obtain ⟨h1, h2⟩ := cycleStep_shard_f swr env w sc F b y shy' hrep hyl hbelow hshy'
  exact ⟨y, shy', h2, h1, hhas⟩

end Kvass.Loop

namespace Kvass.Loop
open Kvass Kvass.Coord Kvass.Spec

/-! ### histories -/

/-- what every sidecar state satisfies, whatever it has been through -/
structure SInv (sh : Shard) : Prop where
  cons : Props.C10.Cons sh.sc
  idle : Sidecar.IdleInv sh.sc
  nodup : sh.sc.status.keys.Nodup

/-- the structural part of the world invariant: the running ordinals exist, every ordinal's sidecar
    state is consistent -/
structure WS (w : World) : Prop where
  rep : w.replicas ≤ w.shards.length
  all : ∀ sh ∈ w.shards, SInv sh

/-- a running sidecar holds `h` -/
def Held (w : World) (h : Hash) : Prop := ∃ (i : Nat) (sh : Shard), w.running[i]? = some sh ∧ (statusOf sh).has h = true

theorem statusOf_has (sh : Shard) (h : Hash) : (statusOf sh).has h = sh.sc.status.has h := by
  unfold statusOf AL.has
  rw [AL.get_map]
  cases sh.sc.status.get h <;> rfl

theorem sinv_update (now : Nat) (s : Sidecar.SC) (req : List Sidecar.Tgt) (ho : Props.C10.Once req) (c : Nat) :
    SInv ⟨Sidecar.update now s req, c⟩ :=
  ⟨Props.C10.update_cons now s req ho, Sidecar.update_idleInv now s req, Sidecar.update_keys_nodup now s req⟩

theorem sinv_restart (sh : Shard) (hs : SInv sh) : SInv (restartShard sh) := by
  unfold restartShard Sidecar.restart
  exact sinv_update _ _ _ hs.cons.once _

theorem sinv_fresh : SInv freshShard := by
  show SInv ⟨Sidecar.update 0 {} [], 1⟩
  exact sinv_update 0 {} [] (by intro t ht; cases ht) 1

theorem sinv_scrape (sh : Shard) (h : Hash) (r : Option (Int × Int)) (hs : SInv sh) :
    SInv ⟨Sidecar.scrape sh.sc h r, sh.clock + 1⟩ := by
  refine ⟨Props.C10.scrape_cons _ _ _ hs.cons, Sidecar.scrape_idleInv _ _ _ hs.idle, ?_⟩
  show (Sidecar.scrape sh.sc h r).status.keys.Nodup
  unfold Sidecar.scrape
  split
  · exact hs.nodup
  · exact AL.keys_set_nodup _ _ _ hs.nodup

theorem sinv_applyShard (active : List Hash) (sh : Shard) (f : Fault) (rs : List Req) (fin : SI)
    (hs : SInv sh) (hn : rs.any isPost = true → fin.scraping.keys.Nodup) : SInv (applyShard active sh f rs fin) := by
  unfold applyShard
  split
  · rename_i hc
    simp only [Bool.and_eq_true] at hc
    exact sinv_update _ _ _ (fun t ht => tgtsOf_once active fin (hn hc.1) t ht) _
  · exact hs

theorem ws_running {w : World} (hw : WS w) : ∀ sh ∈ w.running, SInv sh := by
  intro sh hm
  exact hw.all sh (List.mem_of_mem_take hm)

theorem ws_resize (w : World) (n : Nat) (hw : WS w) : WS (resize w n) := by
  constructor
  · unfold resize; simp only [List.length_append, List.length_map, List.length_range]; omega
  · intro sh hm
    unfold resize at hm
    simp only [List.mem_append, List.mem_map, List.mem_range] at hm
    rcases hm with ⟨i, _, rfl⟩ | hm
    · unfold startedShard
      cases hs : w.shards[i]? with
      | none => exact sinv_fresh
      | some s =>
        simp only
        split
        · exact hw.all s (List.mem_of_getElem? hs)
        · exact sinv_restart s (hw.all s (List.mem_of_getElem? hs))
    · exact hw.all sh (List.mem_of_mem_drop hm)

theorem ws_resizes : ∀ (ks : List Int) (w : World), WS w → WS (ks.foldl (fun w k => resize w k.toNat) w) := by
  intro ks
  induction ks with
  | nil => intro w h; exact h
  | cons k ks ih => intro w h; exact ih _ (ws_resize w k.toNat h)

theorem resizes_active : ∀ (ks : List Int) (w : World), (ks.foldl (fun w k => resize w k.toNat) w).active = w.active := by
  intro ks
  induction ks with
  | nil => intro w; rfl
  | cons k ks ih => intro w; simp only [List.foldl_cons]; rw [ih]; rfl

theorem resizes_max (M : Int) : ∀ (ks : List Int) (w : World), (∀ k ∈ ks, k ≤ M) → (w.replicas : Int) ≤ M →
    ((ks.foldl (fun w k => resize w k.toNat) w).replicas : Int) ≤ M := by
  intro ks
  induction ks with
  | nil => intro w _ h; exact h
  | cons k ks ih =>
    intro w hk hw
    simp only [List.foldl_cons]
    apply ih _ (fun k' hk' => hk k' (List.mem_cons_of_mem _ hk'))
    have := hk k List.mem_cons_self
    show ((k.toNat : Nat) : Int) ≤ M
    omega

theorem ws_applyOutcome (swr : Swr) (env : Env) (w : World) (sc : Sched) (F : List Fault) (b : Bool) (hw : WS w) :
    WS (applyOutcome w F (cycle swr sc (inputOf env w F b))) := by
  have hrl := running_length w hw.rep
  have hpl := inputOf_probes_length env w F b
  have hndI : ∀ p ∈ (inputOf env w F b).probes, (reported p).keys.Nodup := by
    intro p hpm
    obtain ⟨k, hk⟩ := List.getElem?_of_mem hpm
    have hkl : k < w.running.length := by
      have := (List.getElem?_eq_some_iff.mp hk).1
      rw [hpl] at this; exact this
    have hrk : w.running[k]? = some w.running[k] := by simp [hkl]
    have := inputOf_probe_f env w F b k _ hrk
    rw [hk] at this
    cases this
    have hn : (statusOf w.running[k]).keys.Nodup := by
      rw [reported_keys_statusOf]; exact (ws_running hw _ (List.mem_of_getElem? hrk)).nodup
    unfold reported probeOf
    cases (faultAt F k).notReady <;> cases (faultAt F k).statusFail <;> simp [AL.keys] <;> exact hn
  constructor
  · unfold applyOutcome
    simp only [List.length_append, List.length_map, List.length_zipIdx, List.length_drop]
    have := hw.rep
    omega
  · intro sh hm
    unfold applyOutcome at hm
    simp only [List.mem_append, List.mem_map] at hm
    rcases hm with ⟨⟨s, i⟩, hzi, rfl⟩ | hm
    · have hsi : w.running[i]? = some s := by
        have := List.mem_zipIdx hzi
        simp only [Nat.zero_add, Nat.le_refl, true_and] at this
        obtain ⟨_, hlt, he⟩ := this
        simp only [Nat.sub_zero] at he hlt
        rw [List.getElem?_eq_getElem hlt, he]
      have hs := ws_running hw s (List.mem_of_getElem? hsi)
      have hp := inputOf_probe_f env w F b i s hsi
      simp only
      cases hr : (cycle swr sc (inputOf env w F b)).reqs[i]? with
      | none => exact hs
      | some rs =>
        cases hf : (cycle swr sc (inputOf env w F b)).final[i]? with
        | none => exact hs
        | some fin =>
          simp only
          apply sinv_applyShard _ _ _ _ _ hs
          intro hpost
          rcases reqs_cases swr sc (inputOf env w F b) hp with h1 | ⟨hne, s', hs', _⟩
          · rw [hr] at h1; cases h1
            rw [getInfo_noIsPost] at hpost; cases hpost
          · rw [hf] at hs'; cases hs'
            exact cycle_nodup swr sc (inputOf env w F b) hne hndI i fin hf
    · exact hw.all sh (List.mem_of_mem_drop hm)

/-- the world invariant of the history theorem -/
structure WInv (env : Env) (w : World) : Prop extends WS w where
  max : (w.replicas : Int) ≤ env.opt.maxShard

theorem cycleStep_winv (swr : Swr) (env : Env) (w : World) (sc : Sched) (F : List Fault) (b : Bool)
    (hmm : env.opt.minShard ≤ env.opt.maxShard) (hw : WInv env w) :
    WInv env (cycleStep swr env w sc F b).1 ∧ (cycleStep swr env w sc F b).1.active = w.active := by
  have h1 := ws_applyOutcome swr env w sc F b hw.toWS
  unfold cycleStep
  simp only
  cases b with
  | true =>
    simp only [if_true]
    exact ⟨⟨h1, hw.max⟩, rfl⟩
  | false =>
    simp only [Bool.false_eq_true, if_false]
    refine ⟨⟨ws_resizes _ _ h1, ?_⟩, by rw [resizes_active]; rfl⟩
    refine resizes_max env.opt.maxShard _ (applyOutcome w F _) ?_ hw.max
    intro k hk
    have hb := Props.C07.C07_bounds swr sc (inputOf env w F false)
    unfold C07.bounds at hb
    have hmm' : (inputOf env w F false).opt.minShard ≤ (inputOf env w F false).opt.maxShard := hmm
    simp only [hmm', decide_true, Bool.not_true, Bool.false_or, List.all_eq_true, Bool.and_eq_true,
      decide_eq_true_eq] at hb
    exact (hb k hk).2

theorem onShard_ws (w : World) (j : Nat) (f : Shard → Shard) (hf : ∀ sh, SInv sh → SInv (f sh)) (hw : WS w) :
    WS (onShard w j f) ∧ (onShard w j f).replicas = w.replicas ∧ (onShard w j f).active = w.active := by
  unfold onShard
  split
  · cases hs : w.shards[j]? with
    | none => exact ⟨hw, rfl, rfl⟩
    | some sh =>
      simp only
      refine ⟨⟨by simp only [List.length_set]; exact hw.rep, ?_⟩, by first | rfl | trivial, by first | rfl | trivial⟩
      intro s hm
      simp only at hm
      rcases List.mem_or_eq_of_mem_set hm with hm | rfl
      · exact hw.all s hm
      · exact hf sh (hw.all sh (List.mem_of_getElem? hs))
  · exact ⟨hw, rfl, rfl⟩

theorem onShard_held (w : World) (j : Nat) (f : Shard → Shard) (h : Hash) (hw : WS w)
    (hf : ∀ sh, SInv sh → (statusOf sh).has h = true → (statusOf (f sh)).has h = true) (hh : Held w h) :
    Held (onShard w j f) h := by
  obtain ⟨i, sh, hrun, hhas⟩ := hh
  unfold onShard
  split
  · rename_i hj
    cases hs : w.shards[j]? with
    | none => exact ⟨i, sh, hrun, hhas⟩
    | some shj =>
      simp only
      have hil : i < w.replicas := by
        rcases Nat.lt_or_ge i w.replicas with hl | hl
        · exact hl
        · unfold World.running at hrun
          rw [List.getElem?_take_eq_none hl] at hrun; cases hrun
      have hsi : w.shards[i]? = some sh := by
        unfold World.running at hrun
        rw [List.getElem?_take_of_lt hil] at hrun; exact hrun
      by_cases hij : j = i
      · subst hij
        rw [hs] at hsi; cases hsi
        refine ⟨j, f sh, ?_, hf sh (hw.all sh (List.mem_of_getElem? hs)) hhas⟩
        unfold World.running
        simp only
        rw [List.getElem?_take_of_lt hil, getElem?_set_self' hs]
      · refine ⟨i, sh, ?_, hhas⟩
        unfold World.running
        simp only
        rw [List.getElem?_take_of_lt hil, getElem?_set_ne' hij]; exact hsi
  · exact ⟨i, sh, hrun, hhas⟩

/-- the operations of a history in which nobody interferes from outside: coordination cycles with
    any faults, scrapes with any result, sidecar restarts, and discovery changes that keep `h` -/
def benign (h : Hash) : Op → Bool
  | .cycle _ _ _ => true
  | .scrape _ _ _ => true
  | .restart _ => true
  | .discover active _ => active.contains h
  | _ => false

theorem step_benign (swr : Swr) (env : Env) (hmm : env.opt.minShard ≤ env.opt.maxShard) (h : Hash)
    (w : World) (op : Op) (hb : benign h op = true) (hw : WInv env w) (ha : h ∈ w.active) (hh : Held w h) :
    WInv env (step swr env w op) ∧ h ∈ (step swr env w op).active ∧ Held (step swr env w op) h := by
  cases op with
  | cycle sc F b =>
    obtain ⟨hw', hact⟩ := cycleStep_winv swr env w sc F b hmm hw
    refine ⟨hw', by show h ∈ (cycleStep swr env w sc F b).1.active; rw [hact]; exact ha, ?_⟩
    obtain ⟨i, sh, hrun, hhas⟩ := hh
    obtain ⟨d, shd, hd, hshd, hhd⟩ := step_keep_f swr env w sc F b hw.rep
      (fun s hs => by rw [reported_keys_statusOf]; exact (ws_running hw.toWS s hs).nodup)
      (fun s hs => (ws_running hw.toWS s hs).idle) hw.max hrun hhas ha
    exact ⟨d, shd, running_of_shards _ d shd hd hshd, hhd⟩
  | scrape j k r =>
    show WInv env (onShard w j _) ∧ h ∈ (onShard w j _).active ∧ Held (onShard w j _) h
    obtain ⟨h1, h2, h3⟩ := onShard_ws w j (fun sh => ⟨Sidecar.scrape sh.sc k r, sh.clock + 1⟩)
      (fun sh hs => sinv_scrape sh k r hs) hw.toWS
    refine ⟨⟨h1, by rw [h2]; exact hw.max⟩, by rw [h3]; exact ha, ?_⟩
    apply onShard_held w j _ h hw.toWS _ hh
    intro sh _ hhas
    rw [statusOf_has] at hhas ⊢
    show (Sidecar.scrape sh.sc k r).status.has h = true
    unfold Sidecar.scrape
    split
    · exact hhas
    · simp only
      unfold AL.has at hhas ⊢
      rw [AL.get_set]
      split
      · rfl
      · exact hhas
  | restart j =>
    show WInv env (onShard w j restartShard) ∧ h ∈ (onShard w j restartShard).active ∧ Held (onShard w j restartShard) h
    obtain ⟨h1, h2, h3⟩ := onShard_ws w j restartShard sinv_restart hw.toWS
    refine ⟨⟨h1, by rw [h2]; exact hw.max⟩, by rw [h3]; exact ha, ?_⟩
    apply onShard_held w j _ h hw.toWS _ hh
    intro sh hs hhas
    rw [statusOf_has] at hhas ⊢
    obtain ⟨v, hv⟩ := (AL.has_iff _ _).mp hhas
    have hk := ((Props.C10.C10_restart sh.clock sh.sc hs.cons hs.idle).1 h).mpr (AL.get_some_mem_keys _ _ _ hv)
    obtain ⟨v', hv'⟩ := AL.mem_keys_get _ _ hk
    exact (AL.has_iff _ _).mpr ⟨v', hv'⟩
  | update j req => cases hb
  | setReplicas n => cases hb
  | discover active explore =>
    have hact : h ∈ active := by simpa [benign] using hb
    obtain ⟨i, sh, hrun, hhas⟩ := hh
    exact ⟨⟨⟨hw.rep, hw.all⟩, hw.max⟩, hact, ⟨i, sh, hrun, hhas⟩⟩

/-- the world invariant alone is kept by these operations, held target or not -/
theorem step_winv (swr : Swr) (env : Env) (hmm : env.opt.minShard ≤ env.opt.maxShard)
    (w : World) (op : Op) (hb : (match op with | .update _ _ => false | .setReplicas _ => false | _ => true) = true)
    (hw : WInv env w) : WInv env (step swr env w op) := by
  cases op with
  | cycle sc F b => exact (cycleStep_winv swr env w sc F b hmm hw).1
  | scrape j k r =>
    obtain ⟨h1, h2, _⟩ := onShard_ws w j (fun sh => ⟨Sidecar.scrape sh.sc k r, sh.clock + 1⟩)
      (fun sh hs => sinv_scrape sh k r hs) hw.toWS
    exact ⟨h1, by show ((onShard w j _).replicas : Int) ≤ _; rw [h2]; exact hw.max⟩
  | restart j =>
    obtain ⟨h1, h2, _⟩ := onShard_ws w j restartShard sinv_restart hw.toWS
    exact ⟨h1, by show ((onShard w j _).replicas : Int) ≤ _; rw [h2]; exact hw.max⟩
  | update j req => cases hb
  | setReplicas n => cases hb
  | discover active explore => exact ⟨⟨hw.rep, hw.all⟩, hw.max⟩

theorem run_winv (swr : Swr) (env : Env) (hmm : env.opt.minShard ≤ env.opt.maxShard) :
    ∀ (ops : List Op) (w : World),
      (∀ op ∈ ops, (match op with | .update _ _ => false | .setReplicas _ => false | _ => true) = true) →
      WInv env w → WInv env (run swr env w ops) := by
  intro ops
  induction ops with
  | nil => intro w _ hw; exact hw
  | cons op ops ih =>
    intro w hb hw
    exact ih (step swr env w op) (fun o ho => hb o (List.mem_cons_of_mem _ ho))
      (step_winv swr env hmm w op (hb op List.mem_cons_self) hw)

/-- a world of freshly started sidecars satisfies the invariant -/
theorem winv_fresh (env : Env) (n : Nat) (active : List Hash) (explore : AL St) (hn : (n : Int) ≤ env.opt.maxShard) :
    WInv env { shards := List.replicate n freshShard, replicas := n, active := active, explore := explore } := by
  refine ⟨⟨by simp, ?_⟩, hn⟩
  intro sh hm
  rw [List.mem_replicate] at hm
  rw [hm.2]; exact sinv_fresh

/-- **no interval in which no shard scrapes it.**  Along every history of coordination cycles (with
    any faults: shards not ready, reads failing, configuration out of sync, updates lost,
    `ChangeScale` failing, the coordinator crashing), scrapes (with any result), sidecar restarts and
    discovery changes that keep the target — of any length, in any order — a discovered target that a
    running sidecar holds at the start is held by a running sidecar in every state reached. -/
theorem run_keep (swr : Swr) (env : Env) (hmm : env.opt.minShard ≤ env.opt.maxShard) (h : Hash) :
    ∀ (ops : List Op) (w : World), (∀ op ∈ ops, benign h op = true) → WInv env w → h ∈ w.active → Held w h →
      WInv env (run swr env w ops) ∧ h ∈ (run swr env w ops).active ∧ Held (run swr env w ops) h := by
  intro ops
  induction ops with
  | nil => intro w _ hw ha hh; exact ⟨hw, ha, hh⟩
  | cons op ops ih =>
    intro w hb hw ha hh
    obtain ⟨hw', ha', hh'⟩ := step_benign swr env hmm h w op (hb op List.mem_cons_self) hw ha hh
    exact ih (step swr env w op) (fun o ho => hb o (List.mem_cons_of_mem _ ho)) hw' ha' hh'

end Kvass.Loop

namespace Kvass.Loop
open Kvass Kvass.Coord Kvass.Spec

/-- **the hand-over rule on the sidecars' own counters, under faults.**  One step of the closed loop
    with any fault pattern, `ChangeScale` working or not: if a running sidecar that held a discovered
    target no longer holds it after the requests of the cycle, then it had scraped the target at
    least three times, and another sidecar, which had scraped it at least three times too, holds it
    after the requests and is still running after the step. -/
theorem step_handover_f (swr : Swr) (env : Env) (w : World) (sc : Sched) (F : List Fault) (b : Bool)
    (hrep : w.replicas ≤ w.shards.length)
    (hnd : ∀ sh ∈ w.running, (statusOf sh).keys.Nodup)
    (hidle : ∀ sh ∈ w.running, Sidecar.IdleInv sh.sc) (hmax : (w.replicas : Int) ≤ env.opt.maxShard)
    {i : Nat} {sh sh' : Shard} {h : Hash} {r : St} (hrun : w.running[i]? = some sh)
    (hr : (statusOf sh).get h = some r) (ha : h ∈ w.active)
    (hsh' : (applyOutcome w F (cycle swr sc (inputOf env w F b))).shards[i]? = some sh')
    (hgone : (statusOf sh').has h = false) :
    3 ≤ r.times ∧
    ∃ (j : Nat) (shj shj' : Shard) (rj : St), j ≠ i ∧ w.running[j]? = some shj ∧
      (statusOf shj).get h = some rj ∧ 3 ≤ rj.times ∧
      (applyOutcome w F (cycle swr sc (inputOf env w F b))).shards[j]? = some shj' ∧
      (statusOf shj').has h = true ∧
      j < (cycleStep swr env w sc F b).1.replicas ∧ (cycleStep swr env w sc F b).1.shards[j]? = some shj' := by
  have hrl := running_length w hrep
  have hpl := inputOf_probes_length env w F b
  have hhas : (statusOf sh).has h = true := (AL.has_iff _ _).mpr ⟨r, hr⟩
  have hndI : ∀ p ∈ (inputOf env w F b).probes, (reported p).keys.Nodup := by
    intro p hpm
    obtain ⟨k, hk⟩ := List.getElem?_of_mem hpm
    have hkl : k < w.running.length := by
      have := (List.getElem?_eq_some_iff.mp hk).1
      rw [hpl] at this; exact this
    have hrk : w.running[k]? = some w.running[k] := by simp [hkl]
    have := inputOf_probe_f env w F b k _ hrk
    rw [hk] at this
    cases this
    have hn := hnd _ (List.mem_of_getElem? hrk)
    unfold reported probeOf
    cases (faultAt F k).notReady <;> cases (faultAt F k).statusFail <;> simp [AL.keys] <;> exact hn
  have hp := inputOf_probe_f env w F b i sh hrun
  rw [(applyOutcome_shard_f w F _ i sh hrep hrun).1] at hsh'
  rcases reqs_cases swr sc (inputOf env w F b) hp with h1 | ⟨hne, s, hs, h2⟩
  · exfalso
    rw [h1] at hsh'
    cases hf : (cycle swr sc (inputOf env w F b)).final[i]? with
    | none => rw [hf] at hsh'; simp only at hsh'; cases hsh'; rw [hhas] at hgone; cases hgone
    | some fin =>
      rw [hf] at hsh'; simp only at hsh'
      rw [applyShard_noPost _ _ _ _ _ (getInfo_noIsPost _)] at hsh'
      cases hsh'; rw [hhas] at hgone; cases hgone
  · rw [h2, hs] at hsh'
    simp only [Option.some.injEq] at hsh'
    have hnodup := cycle_nodup swr sc (inputOf env w F b) hne hndI
    have hsn : s.scraping.keys.Nodup := hnodup i s hs
    -- the update was delivered, and the plan does not hold `h`
    have hupd : (((getInfo (probeOf env sh (faultAt F i))).2 ++ applyReqs (inputOf env w F b).active (probeOf env sh (faultAt F i)) s).any isPost
        && !(faultAt F i).postLost) = true := by
      cases hc : (((getInfo (probeOf env sh (faultAt F i))).2 ++ applyReqs (inputOf env w F b).active (probeOf env sh (faultAt F i)) s).any isPost
        && !(faultAt F i).postLost) with
      | true => rfl
      | false =>
        exfalso
        unfold applyShard at hsh'
        rw [hc] at hsh'
        simp only [Bool.false_eq_true, if_false] at hsh'
        subst hsh'; rw [hhas] at hgone; cases hgone
    have hplan : s.scraping.get h = none := by
      unfold applyShard at hsh'
      rw [hupd] at hsh'
      simp only [if_true] at hsh'
      subst hsh'
      cases hg : s.scraping.get h with
      | none => rfl
      | some v =>
        exfalso
        have hpl' : (planned w.active s).get h = some v := by rw [planned_get]; simp [ha, hg]
        have hk := ((update_report w.active sh s hsn).1 h).mpr (AL.get_some_mem_keys _ _ _ hpl')
        obtain ⟨r', hr'⟩ := AL.mem_keys_get _ _ hk
        have : (statusOf ⟨Sidecar.update sh.clock sh.sc (tgtsOf w.active s), sh.clock + 1⟩).has h = true :=
          (AL.has_iff _ _).mpr ⟨r', hr'⟩
        rw [this] at hgone; cases hgone
    have hch : s.changeable = true := by
      cases hc : s.changeable with
      | true => rfl
      | false =>
        exfalso
        have hnil : applyReqs (inputOf env w F b).active (probeOf env sh (faultAt F i)) s = [] := by
          unfold applyReqs; simp [hc]
        rw [hnil, List.append_nil, getInfo_noIsPost] at hupd
        cases hupd
    have hsync : inSync (probeOf env sh (faultAt F i)) = true := by
      rw [← final_changeable swr sc (inputOf env w F b) hne hp hs]; exact hch
    have hrep' := reported_probeOf_sync env sh (faultAt F i) hsync
    -- the copy was dropped by `gcTargets`
    have inv := gc_inv (inputOf env w F b).opt (inputOf env w F b).active (infos0 (inputOf env w F b))
    have grow := cycle_grows swr sc (inputOf env w F b) hne
    have hfinal : (cycle swr sc (inputOf env w F b)).cs.shards = (cycle swr sc (inputOf env w F b)).final := rfl
    have h0 : (infos0 (inputOf env w F b))[i]? = some (getInfo (probeOf env sh (faultAt F i))).1 := by
      rw [infos0_get, hp]; rfl
    obtain ⟨s1, hs1⟩ := getElem?_of_length_eq inv.len h0
    have hg1 : s1.scraping.get h = none := by
      cases hg : s1.scraping.get h with
      | none => rfl
      | some v =>
        exfalso
        obtain ⟨s', hs', _, hk⟩ := grow.2 i s1 hs1
        rw [hfinal, hs] at hs'; cases hs'
        obtain ⟨v', hv'⟩ := hk h v hg
        rw [hplan] at hv'; cases hv'
    have hv0 : (getInfo (probeOf env sh (faultAt F i))).1.scraping.get h = some r := by
      rw [getInfo_scraping, hrep']; exact hr
    obtain ⟨h3, j, vj, hji, ⟨sj, hsj, hchj, hgj⟩, h3j⟩ := inv.lost i _ s1 h r h0 hs1 hv0 hg1 ha
    refine ⟨h3, ?_⟩
    obtain ⟨s0j, h0j, hcj, _, hsub, _⟩ := inv.same j sj hsj
    obtain ⟨q, hq, rfl⟩ := infos0_get_some h0j
    obtain ⟨v0j, hv0j, hrev⟩ := hsub h vj hgj
    have hjl : j < w.running.length := by
      have := (List.getElem?_eq_some_iff.mp hq).1
      rw [hpl] at this; exact this
    have hrj : w.running[j]? = some w.running[j] := by simp [hjl]
    have hq' := inputOf_probe_f env w F b j _ hrj
    rw [hq] at hq'; cases hq'
    have hsyncj : inSync (probeOf env w.running[j] (faultAt F j)) = true := by
      rw [← getInfo_changeable, ← hcj]; exact hchj
    have hrepj := reported_probeOf_sync env w.running[j] (faultAt F j) hsyncj
    have hgetj : (statusOf w.running[j]).get h = some v0j := by
      rw [← hrepj, ← getInfo_scraping]; exact hv0j
    have hheldj : (statusOf w.running[j]).has h = true := (AL.has_iff _ _).mpr ⟨v0j, hgetj⟩
    obtain ⟨sfj, hsfj, _, hkj⟩ := grow.2 j sj hsj
    rw [hfinal] at hsfj
    obtain ⟨vf, hvf⟩ := hkj h vj hgj
    have hfinhas : sfj.scraping.has h = true := (AL.has_iff _ _).mpr ⟨vf, hvf⟩
    -- shard j after the requests
    have hafter : ∃ (rq : List Req) (shj' : Shard), (cycle swr sc (inputOf env w F b)).reqs[j]? = some rq ∧
        (applyOutcome w F (cycle swr sc (inputOf env w F b))).shards[j]? = some shj' ∧ (statusOf shj').has h = true := by
      rcases reqs_cases swr sc (inputOf env w F b) hq with h1 | ⟨_, s', hs', h2'⟩
      · refine ⟨_, _, h1, (applyOutcome_shard_f w F _ j _ hrep hrj).1, ?_⟩
        rw [h1, hsfj]
        simp only
        rw [applyShard_noPost _ _ _ _ _ (getInfo_noIsPost _)]
        exact hheldj
      · rw [hsfj] at hs'; cases hs'
        refine ⟨_, _, h2', (applyOutcome_shard_f w F _ j _ hrep hrj).1, ?_⟩
        rw [h2', hsfj]
        simp only
        exact applyShard_keeps w.active _ _ _ sfj h (hnodup j sfj hsfj) hheldj hfinhas ha
    obtain ⟨rq, shj', hreqj, hshj', hhasj'⟩ := hafter
    -- j reports a target, hence is needed, hence survives the resize
    have hneeded : C07.needed (inputOf env w F b) (probeOf env w.running[j] (faultAt F j)) rq = true := by
      unfold C07.needed
      have : (reported (probeOf env w.running[j] (faultAt F j))).isEmpty = false := by
        rw [hrepj]
        cases hre : statusOf w.running[j] with
        | nil => rw [hre] at hgetj; cases hgetj
        | cons a as => rfl
      simp [this]
    have hmem : (j, probeOf env w.running[j] (faultAt F j), rq) ∈
        shardsOf (inputOf env w F b) (Obs.ofOutcome (cycle swr sc (inputOf env w F b))) :=
      mem_shardsOf.mpr ⟨hq, hreqj⟩
    have hge := lastNeeded_ge _ _ hmem hneeded
    have hn : (((inputOf env w F b).probes.length : Nat) : Int) ≤ (inputOf env w F b).opt.maxShard := by
      rw [hpl, hrl]; exact hmax
    have hbelow : ∀ k ∈ (cycle swr sc (inputOf env w F b)).scales, (j : Int) < k := by
      intro k hk
      have := Props.C07.C07_keepsNeeded swr sc (inputOf env w F b) (hprod_f env w F b hidle) hn k hk
      omega
    have hjr : j < w.replicas := by rw [← hrl]; exact hjl
    obtain ⟨e1, e2⟩ := cycleStep_shard_f swr env w sc F b j shj' hrep hjr hbelow hshj'
    exact ⟨j, w.running[j], shj', v0j, hji, hrj, hgetj, by rw [← hrev.times]; exact h3j, hshj', hhasj', e2, e1⟩

end Kvass.Loop

namespace Kvass.Loop
open Kvass Kvass.Coord Kvass.Spec

/-- **C08 in the closed loop: a shard that is not in sync is left alone and stays.**  Whatever the
    faults of the other shards, whether or not `ChangeScale` works: a running sidecar whose shard is
    not ready, does not answer, or reports another configuration hash and does not accept the pushed
    configuration, is exactly as it was after the step (no target update reached it), and it is still
    running (the coordinator does not scale it away while the size is within max-shard). -/
theorem step_left_alone (swr : Swr) (env : Env) (w : World) (sc : Sched) (F : List Fault) (b : Bool)
    (hrep : w.replicas ≤ w.shards.length)
    (hidle : ∀ sh ∈ w.running, Sidecar.IdleInv sh.sc) (hmax : (w.replicas : Int) ≤ env.opt.maxShard)
    {i : Nat} {sh : Shard} (hrun : w.running[i]? = some sh)
    (hsync : inSync (probeOf env sh (faultAt F i)) = false) :
    i < (step swr env w (.cycle sc F b)).replicas ∧ (step swr env w (.cycle sc F b)).shards[i]? = some sh := by
  show i < (cycleStep swr env w sc F b).1.replicas ∧ (cycleStep swr env w sc F b).1.shards[i]? = some sh
  have hrl := running_length w hrep
  have hpl := inputOf_probes_length env w F b
  have hp := inputOf_probe_f env w F b i sh hrun
  have hil : i < w.replicas := by
    have := (List.getElem?_eq_some_iff.mp hrun).1
    rw [hrl] at this; exact this
  -- its requests are the reads only
  have hreq : ∃ r, (cycle swr sc (inputOf env w F b)).reqs[i]? = some r ∧ r.any isPost = false := by
    rcases reqs_cases swr sc (inputOf env w F b) hp with h1 | ⟨hne, s, hs, h2⟩
    · exact ⟨_, h1, getInfo_noIsPost _⟩
    · have hch := final_changeable swr sc (inputOf env w F b) hne hp hs
      rw [hsync] at hch
      have hnil : applyReqs (inputOf env w F b).active (probeOf env sh (faultAt F i)) s = [] := by
        unfold applyReqs; simp [hch]
      rw [hnil, List.append_nil] at h2
      exact ⟨_, h2, getInfo_noIsPost _⟩
  obtain ⟨r, hr, hnp⟩ := hreq
  have hsame : (applyOutcome w F (cycle swr sc (inputOf env w F b))).shards[i]? = some sh := by
    rw [(applyOutcome_shard_f w F _ i sh hrep hrun).1, hr]
    cases (cycle swr sc (inputOf env w F b)).final[i]? with
    | none => rfl
    | some fin => simp only; rw [applyShard_noPost _ _ _ _ _ hnp]
  -- not in sync ⇒ needed ⇒ below every requested count
  have hneeded : C07.needed (inputOf env w F b) (probeOf env sh (faultAt F i)) r = true := by
    unfold C07.needed; simp [hsync]
  have hmem : (i, probeOf env sh (faultAt F i), r) ∈
      shardsOf (inputOf env w F b) (Obs.ofOutcome (cycle swr sc (inputOf env w F b))) :=
    mem_shardsOf.mpr ⟨hp, hr⟩
  have hge := lastNeeded_ge _ _ hmem hneeded
  have hn : (((inputOf env w F b).probes.length : Nat) : Int) ≤ (inputOf env w F b).opt.maxShard := by
    rw [hpl, hrl]; exact hmax
  have hbelow : ∀ k ∈ (cycle swr sc (inputOf env w F b)).scales, (i : Int) < k := by
    intro k hk
    have := Props.C07.C07_keepsNeeded swr sc (inputOf env w F b) (hprod_f env w F b hidle) hn k hk
    omega
  obtain ⟨h1, h2⟩ := cycleStep_shard_f swr env w sc F b i sh hrep hil hbelow hsame
  exact ⟨h2, h1⟩

/-- … and a shard that reports another hash but accepts the pushed configuration is in sync in the
    same cycle -/
theorem probeOf_pushed_inSync (env : Env) (sh : Shard) (f : Fault) (hr : f.notReady = false) (hs : f.statusFail = false)
    (hrt : f.rtFail = false) (hp : f.pushOk = true) : inSync (probeOf env sh f) = true := by
  unfold inSync probeOf
  simp [hr, hs, hrt, hp]

end Kvass.Loop

namespace Kvass.Loop
open Kvass Kvass.Coord Kvass.Spec

/-- **C07 in the closed loop: a shard in use is not scaled away.**  Whatever the faults, a running
    sidecar that holds any target at all is among the running ones after the step (while the size is
    within max-shard): either its shard is not in sync — then nothing is removed at or below it — or
    it reports its targets, and a shard that reports a target is needed. -/
theorem step_nonempty_stays (swr : Swr) (env : Env) (w : World) (sc : Sched) (F : List Fault) (b : Bool)
    (hrep : w.replicas ≤ w.shards.length)
    (hidle : ∀ sh ∈ w.running, Sidecar.IdleInv sh.sc) (hmax : (w.replicas : Int) ≤ env.opt.maxShard)
    {i : Nat} {sh : Shard} (hrun : w.running[i]? = some sh) (hne : statusOf sh ≠ []) :
    i < (step swr env w (.cycle sc F b)).replicas := by
  show i < (cycleStep swr env w sc F b).1.replicas
  have hrl := running_length w hrep
  have hpl := inputOf_probes_length env w F b
  have hp := inputOf_probe_f env w F b i sh hrun
  have hil : i < w.replicas := by
    have := (List.getElem?_eq_some_iff.mp hrun).1
    rw [hrl] at this; exact this
  obtain ⟨r, hr⟩ : ∃ r, (cycle swr sc (inputOf env w F b)).reqs[i]? = some r := by
    rcases reqs_cases swr sc (inputOf env w F b) hp with h1 | ⟨_, s, _, h2⟩
    · exact ⟨_, h1⟩
    · exact ⟨_, h2⟩
  have hneeded : C07.needed (inputOf env w F b) (probeOf env sh (faultAt F i)) r = true := by
    unfold C07.needed
    cases hsync : inSync (probeOf env sh (faultAt F i)) with
    | false => simp
    | true =>
      have hrep' := reported_probeOf_sync env sh (faultAt F i) hsync
      have : (reported (probeOf env sh (faultAt F i))).isEmpty = false := by
        rw [hrep']
        cases hs : statusOf sh with
        | nil => exact absurd hs hne
        | cons a as => rfl
      simp [this]
  have hmem : (i, probeOf env sh (faultAt F i), r) ∈
      shardsOf (inputOf env w F b) (Obs.ofOutcome (cycle swr sc (inputOf env w F b))) :=
    mem_shardsOf.mpr ⟨hp, hr⟩
  have hge := lastNeeded_ge _ _ hmem hneeded
  have hn : (((inputOf env w F b).probes.length : Nat) : Int) ≤ (inputOf env w F b).opt.maxShard := by
    rw [hpl, hrl]; exact hmax
  have hbelow : ∀ k ∈ (cycle swr sc (inputOf env w F b)).scales, (i : Int) < k := by
    intro k hk
    have := Props.C07.C07_keepsNeeded swr sc (inputOf env w F b) (hprod_f env w F b hidle) hn k hk
    omega
  -- whatever the shard became after the requests, it is still there after the resize
  obtain ⟨h1, _⟩ := applyOutcome_shard_f w F (cycle swr sc (inputOf env w F b)) i sh hrep hrun
  exact (cycleStep_shard_f swr env w sc F b i _ hrep hil hbelow h1).2

end Kvass.Loop
