/-
  From the model's final state to what is observable: the request log of every shard.
-/
import Kvass.Proofs.CoordShape
import Kvass.Spec.Coord

namespace Kvass.Coord
open Kvass Kvass.Spec

def getReqsOf (inp : Input) : List (List Req) := (inp.probes.map getInfo).map (·.2)

/-- the three ways a cycle can end, with the request log in each -/
theorem cycle_reqs (swr : Swr) (sc : Sched) (inp : Input) :
    ∀ out, cycle swr sc inp = out →
      (out.crashed = false ∧ stopsEarly inp = false ∧
        out.reqs = ((getReqsOf inp).zip ((inp.probes.zip out.final).map
              fun (p, s) => applyReqs inp.active p s)).map fun (a, b) => a ++ b) ∨
      ((out.crashed = true ∨ stopsEarly inp = true) ∧ out.reqs = getReqsOf inp) := by
  intro out hout
  unfold cycle at hout
  simp only at hout
  unfold stopsEarly getReqsOf
  split at hout
  · rename_i h
    right; subst hout; exact ⟨Or.inr h, rfl⟩
  · rename_i h
    have h' : (Gen.earlyMin inp.opt (List.map (fun x => x.1) (List.map getInfo inp.probes)).length
        (nChangeable (List.map (fun x => x.1) (List.map getInfo inp.probes))) && inp.scaleErr1) = false := by
      simpa using h
    generalize alleviate swr inp.opt sc
      { shards := gc inp.opt inp.active ((inp.probes.map getInfo).map (·.1)) } = r2 at hout
    obtain ⟨c2, need1⟩ := r2
    simp only at hout
    generalize assign inp.opt inp.active
      (globalOf ((inp.probes.map getInfo).map (·.1)) inp.explore) sc c2 = r3 at hout
    obtain ⟨c3, picks, need2⟩ := r3
    simp only at hout
    split at hout
    · right; subst hout; simp
    · split at hout
      · split at hout
        · right; subst hout; simp
        · left; subst hout; exact ⟨rfl, h', rfl⟩
      · split at hout
        · generalize tryScaleDown inp.opt sc c3 picks = r4 at hout
          obtain ⟨scale, c4⟩ := r4
          simp only at hout
          split at hout
          · right; subst hout; simp
          · left; subst hout; exact ⟨rfl, h', rfl⟩
        · split at hout
          · right; subst hout; simp
          · left; subst hout; exact ⟨rfl, h', rfl⟩

theorem zipmap_get {α β γ} (as : List α) (bs : List β) (f : α × β → γ) (i : Nat) (a : α) (b : β)
    (ha : as[i]? = some a) (hb : bs[i]? = some b) :
    ((as.zip bs).map f)[i]? = some (f (a, b)) := by
  rw [List.getElem?_map]
  have : (as.zip bs)[i]? = some (a, b) := List.getElem?_zip_eq_some.mpr ⟨ha, hb⟩
  rw [this]; rfl

end Kvass.Coord

namespace Kvass.Coord
open Kvass Kvass.Spec

/-! ### facts about `getInfo` -/

theorem getInfo_changeable (p : Probe) : (getInfo p).1.changeable = inSync p := by
  unfold getInfo inSync
  cases hr : p.ready <;> simp
  cases hs : p.status <;> simp
  cases h1 : p.rt1 with
  | none => simp
  | some r =>
    obtain ⟨r1, eq1⟩ := r
    cases eq1 <;> simp
    cases hp : p.pushOk <;> simp
    cases h2 : p.rt2 with
    | none => simp
    | some r2 => obtain ⟨r2, eq2⟩ := r2; simp

theorem getInfo_scraping (p : Probe) : (getInfo p).1.scraping = reported p := by
  unfold getInfo reported
  cases hr : p.ready <;> simp
  cases hs : p.status <;> simp
  cases h1 : p.rt1 with
  | none => simp
  | some r =>
    obtain ⟨r1, eq1⟩ := r
    cases eq1 <;> simp
    cases hp : p.pushOk <;> simp
    cases h2 : p.rt2 with
    | none => simp
    | some r2 => obtain ⟨r2, eq2⟩ := r2; simp

theorem getInfo_noPost (p : Probe) : ∀ q ∈ (getInfo p).2, C08.isPostT q = false ∧ q ≠ .postExtra := by
  unfold getInfo
  cases hr : p.ready <;> simp
  cases hs : p.status <;> simp [C08.isPostT]
  cases h1 : p.rt1 with
  | none => simp [C08.isPostT]
  | some r =>
    obtain ⟨r1, eq1⟩ := r
    cases eq1 <;> simp [C08.isPostT]
    cases hp : p.pushOk <;> simp [C08.isPostT]
    cases h2 : p.rt2 with
    | none => simp [C08.isPostT]
    | some r2 => obtain ⟨r2, eq2⟩ := r2; simp [C08.isPostT]

theorem postedBody_append_of_noPost (a b : List Req) (h : ∀ q ∈ a, C08.isPostT q = false) :
    postedBody (a ++ b) = postedBody b := by
  unfold postedBody
  induction a with
  | nil => rfl
  | cons q a ih =>
    have hq := h q List.mem_cons_self
    have := ih (fun q' hq' => h q' (List.mem_cons_of_mem _ hq'))
    cases q <;> simp_all [C08.isPostT, List.findSome?]

theorem postedBody_getInfo (p : Probe) : postedBody (getInfo p).2 = none := by
  have := postedBody_append_of_noPost (getInfo p).2 [] (fun q hq => (getInfo_noPost p q hq).1)
  simpa [postedBody] using this

theorem postedBody_apply (active : List Hash) (p : Probe) (s : SI) :
    postedBody ((getInfo p).2 ++ applyReqs active p s) =
      if s.changeable && needUpdate (p.status.getD []) (body active s) then some (body active s) else none := by
  rw [postedBody_append_of_noPost _ _ (fun q hq => (getInfo_noPost p q hq).1)]
  unfold applyReqs
  cases s.changeable <;> simp [postedBody]
  cases needUpdate (p.status.getD []) (body active s) <;> simp [List.findSome?]
  cases p.postOk <;> simp [List.findSome?]

theorem infos0_get (inp : Input) (i : Nat) : (infos0 inp)[i]? = (inp.probes[i]?).map fun p => (getInfo p).1 := by
  unfold infos0; simp only [List.getElem?_map]; cases inp.probes[i]? <;> rfl

theorem getReqsOf_get (inp : Input) (i : Nat) : (getReqsOf inp)[i]? = (inp.probes[i]?).map fun p => (getInfo p).2 := by
  unfold getReqsOf; simp only [List.getElem?_map]; cases inp.probes[i]? <;> rfl

theorem mem_shardsOf {inp : Input} {ob : Obs} {i : Nat} {p : Probe} {r : List Req} :
    (i, p, r) ∈ shardsOf inp ob ↔ inp.probes[i]? = some p ∧ ob.reqs[i]? = some r := by
  unfold shardsOf
  simp only [List.mem_map, Prod.mk.injEq]
  constructor
  · rintro ⟨⟨⟨p', r'⟩, i'⟩, hm, h1, h2, h3⟩
    subst h1 h2 h3
    rw [List.mem_zipIdx_iff_getElem?] at hm
    exact List.getElem?_zip_eq_some.mp hm
  · rintro ⟨h1, h2⟩
    refine ⟨((p, r), i), ?_, rfl, rfl, rfl⟩
    rw [List.mem_zipIdx_iff_getElem?]
    exact List.getElem?_zip_eq_some.mpr ⟨h1, h2⟩

theorem get_some_mem {α} (m : AL α) (h : Hash) (v : α) (hg : m.get h = some v) : (h, v) ∈ m := by
  induction m with
  | nil => simp at hg
  | cons p m ih =>
    obtain ⟨k, x⟩ := p
    by_cases hk : k = h
    · simp [AL.get, hk] at hg; subst hk hg; exact List.mem_cons_self
    · simp [AL.get, hk] at hg; exact List.mem_cons_of_mem _ (ih hg)

theorem body_keys_mem (active : List Hash) (s : SI) (h : Hash) (v : St)
    (hg : s.scraping.get h = some v) (ha : h ∈ active) : h ∈ (body active s).map (·.1) := by
  unfold body planned
  simp only [List.map_map, List.mem_map, List.mem_filter]
  exact ⟨(h, v), ⟨get_some_mem _ _ _ hg, by simpa using ha⟩, rfl⟩

end Kvass.Coord
